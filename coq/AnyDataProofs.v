(* AnyDataProofs.v — proofs about the AnyData model (property C17).

   1. the generated leaf conditions: exactly one constructor is viable for every size and
      capacity, the inline branch and the LargeData fit the buffer, MaxSizeOf is a maximum;
   2. the ledger discipline: invariant `linv` (the ids owned by the holders are exactly the
      live ids, every id ever created is live or dead, never both, never twice);
   3. every holder operation (make / move / destroy / get / isType / getAddress) preserves it;
   4. every program step preserves the global invariant `Inv` and commutes with the
      abstraction to the value-semantics specification (refinement);
   5. the C17 theorems as corollaries. *)
From Coq Require Import List Arith NArith ZArith Bool Lia Permutation.
From EV Require Import AnyDataModel.
From EV.gen Require GenAnyData.
Import ListNotations.

(* ------------------------------------------------------------------------------------ *)
(* 1. the generated conditions *)

Lemma split_complementary : forall size maxSize : N,
  (GenAnyData.inline_cond size maxSize = true /\ GenAnyData.heap_cond size maxSize = false) \/
  (GenAnyData.inline_cond size maxSize = false /\ GenAnyData.heap_cond size maxSize = true).
Proof.
  intros size maxSize. unfold GenAnyData.inline_cond, GenAnyData.heap_cond.
  destruct (N.leb_spec size maxSize); destruct (N.ltb_spec maxSize size); auto; lia.
Qed.

Lemma inline_in_bounds : forall size maxSize : N,
  GenAnyData.inline_cond size maxSize = true -> (size <= maxSize)%N.
Proof.
  intros size maxSize. unfold GenAnyData.inline_cond.
  destruct (N.leb_spec size maxSize); [auto | discriminate].
Qed.

Lemma large_fits : forall cap ls : N, (ls <= eff cap ls)%N /\ (cap <= eff cap ls)%N.
Proof.
  intros cap ls. unfold eff, GenAnyData.eff_max_size.
  destruct (N.ltb_spec cap ls); lia.
Qed.

Lemma eff_is_max : forall cap ls : N, eff cap ls = N.max cap ls.
Proof.
  intros cap ls. unfold eff, GenAnyData.eff_max_size.
  destruct (N.ltb_spec cap ls); lia.
Qed.

Lemma max_size_of_upper : forall ts t x, In x (t :: ts) -> (x <= max_size_of t ts)%N.
Proof.
  induction ts as [|t' ts IH]; intros t x Hin.
  - simpl in *. unfold GenAnyData.max_size_single. destruct Hin as [<-|[]]. lia.
  - cbn [max_size_of]. unfold GenAnyData.max_size_step.
    destruct Hin as [<-|Hin].
    + destruct (N.ltb_spec (max_size_of t' ts) t); lia.
    + specialize (IH t' x Hin). destruct (N.ltb_spec (max_size_of t' ts) t); lia.
Qed.

Lemma max_size_of_member : forall ts t, In (max_size_of t ts) (t :: ts).
Proof.
  induction ts as [|t' ts IH]; intros t.
  - simpl. unfold GenAnyData.max_size_single. auto.
  - cbn [max_size_of]. unfold GenAnyData.max_size_step.
    destruct (N.ltb_spec (max_size_of t' ts) t); [left; reflexivity | right; apply IH].
Qed.

Lemma fold_max_upper : forall ts t x, In x (t :: ts) -> (x <= fold_right N.max t ts)%N.
Proof.
  induction ts as [|t' ts IH]; intros t x Hin.
  - simpl in *. destruct Hin as [<-|[]]. lia.
  - simpl. destruct Hin as [Heq|[Heq|Hin]].
    + subst x. specialize (IH t t (or_introl eq_refl)). lia.
    + subst x. lia.
    + specialize (IH t x (or_intror Hin)). lia.
Qed.

Lemma fold_max_member : forall ts t, In (fold_right N.max t ts) (t :: ts).
Proof.
  induction ts as [|t' ts IH]; intros t.
  - simpl. auto.
  - simpl. destruct (N.max_spec t' (fold_right N.max t ts)) as [[_ ->]|[_ ->]].
    + destruct (IH t) as [H|H]; [left; exact H | right; right; exact H].
    + right; left; reflexivity.
Qed.

Lemma max_size_of_is_max : forall t ts, max_size_of t ts = fold_right N.max t ts.
Proof.
  intros t ts. apply N.le_antisymm.
  - apply fold_max_upper, max_size_of_member.
  - apply max_size_of_upper, fold_max_member.
Qed.

Lemma max_size_of_fits : forall ls t ts x, In x (t :: ts) ->
  GenAnyData.inline_cond x (eff (max_size_of t ts) ls) = true /\ GenAnyData.heap_cond x (eff (max_size_of t ts) ls) = false.
Proof.
  intros ls t ts x Hin. pose proof (max_size_of_upper ts t x Hin) as Hle.
  pose proof (large_fits (max_size_of t ts) ls) as [_ Hc].
  destruct (split_complementary x (eff (max_size_of t ts) ls)) as [H|[H1 H2]]; [exact H|].
  exfalso. revert H1. unfold GenAnyData.inline_cond.
  destruct (N.leb_spec x (eff (max_size_of t ts) ls)); [discriminate | lia].
Qed.

(* pointer codes *)

Lemma eqb_code : forall a b k, (N.of_nat a + k =? N.of_nat b + k)%N = (a =? b).
Proof.
  intros a b k. destruct (Nat.eqb_spec a b) as [->|Hne].
  - apply N.eqb_refl.
  - apply N.eqb_neq. lia.
Qed.

Lemma is_large_T : forall n t c, h_is_large (mkH n (FnT t) c) = false.
Proof.
  intros. unfold h_is_large, GenAnyData.is_larger_data. simpl. apply N.eqb_neq. lia.
Qed.

Lemma is_large_L : forall n c, h_is_large (mkH n FnLarge c) = true.
Proof.
  intros. unfold h_is_large, GenAnyData.is_larger_data. reflexivity.
Qed.

Lemma dtor_guard_code : forall f, GenAnyData.dtor_guard (fn_code f) = true.
Proof.
  intros f. unfold GenAnyData.dtor_guard, GenAnyData.null.
  destruct f; apply negb_true_iff, N.eqb_neq; simpl; lia.
Qed.

Lemma move_guard_code : forall f, GenAnyData.move_guard (fn_code f) = true.
Proof.
  intros f. unfold GenAnyData.move_guard, GenAnyData.null.
  destruct f; apply negb_true_iff, N.eqb_neq; simpl; lia.
Qed.

Lemma large_guard_some : forall o d, GenAnyData.large_dtor_guard (ptr_code (Some o)) d = true.
Proof.
  intros. unfold GenAnyData.large_dtor_guard, GenAnyData.null.
  apply negb_true_iff, N.eqb_neq. simpl. lia.
Qed.

Lemma large_guard_none : forall d, GenAnyData.large_dtor_guard (ptr_code None) d = false.
Proof.
  intros. unfold GenAnyData.large_dtor_guard, GenAnyData.null. reflexivity.
Qed.

(* ------------------------------------------------------------------------------------ *)
(* 2. the ledger *)

Definition lent_dec : forall a b : lent, {a = b} + {a <> b}.
Proof. repeat decide equality. Qed.

Notation cnt := (count_occ lent_dec).

Record linv (L : ledger) (own : list lent) : Prop := mkLinv {
  li_same : forall e, cnt own e = cnt (live L) e;
  li_nodup : NoDup (map fst (live L) ++ dead L);
  li_range : forall x, In x (map fst (live L) ++ dead L) <-> x < next L;
  li_err : err L = false }.

Lemma linv_same : forall L own own', (forall e, cnt own e = cnt own' e) -> linv L own -> linv L own'.
Proof.
  intros L own own' Hs [H1 H2 H3 H4]. constructor; auto. intro e. rewrite <- Hs. apply H1.
Qed.

Lemma linv_init : linv l_init [].
Proof.
  constructor; simpl; auto.
  - constructor.
  - intro x. split; [intros [] | lia].
Qed.

Lemma l_new_inv : forall tg L own x L1,
  l_new tg L = (x, L1) -> linv L own -> linv L1 ((x, tg) :: own) /\ x = next L.
Proof.
  intros tg L own x L1 E [H1 H2 H3 H4]. unfold l_new in E. inversion E; subst. clear E.
  split; [|reflexivity]. constructor; simpl.
  - intro e. destruct (lent_dec (next L, tg) e); rewrite H1; reflexivity.
  - constructor; [|exact H2]. intro Hin. apply H3 in Hin. lia.
  - intro x. split.
    + intros [<-|Hin]; [lia | apply H3 in Hin; lia].
    + intro Hlt. destruct (Nat.eq_dec (next L) x) as [->|Hne]; [left; reflexivity|].
      right. apply H3. lia.
  - exact H4.
Qed.

Lemma l_remove_split : forall x l l', l_remove x l = Some l' ->
  exists l1 tg l2, l = l1 ++ (x, tg) :: l2 /\ l' = l1 ++ l2.
Proof.
  intros x l. induction l as [|[k tg] l IH]; intros l' E; simpl in E; [discriminate|].
  destruct (Nat.eqb_spec k x) as [->|Hne].
  - inversion E; subst. exists [], tg, l'. split; reflexivity.
  - destruct (l_remove x l) as [r|] eqn:Er; [|discriminate]. inversion E; subst.
    destruct (IH r eq_refl) as (l1 & tg' & l2 & -> & ->).
    exists ((k, tg) :: l1), tg', l2. split; reflexivity.
Qed.

Lemma l_remove_in : forall x l, In x (map fst l) -> exists l', l_remove x l = Some l'.
Proof.
  intros x l. induction l as [|[k tg] l IH]; intros Hin; simpl in *; [contradiction|].
  destruct (Nat.eqb_spec k x) as [->|Hne]; [eexists; reflexivity|].
  destruct Hin as [Heq|Hin]; [contradiction|].
  destruct (IH Hin) as [l' ->]. eexists; reflexivity.
Qed.

Lemma cnt_in : forall (l : list lent) e, cnt l e > 0 -> In e l.
Proof. intros l e H. apply (count_occ_In lent_dec). exact H. Qed.

Lemma in_cnt : forall (l : list lent) e, In e l -> cnt l e > 0.
Proof. intros l e H. apply (count_occ_In lent_dec). exact H. Qed.

(* destroying an owned object *)
Lemma l_kill_inv : forall x tg L own,
  linv L ((x, tg) :: own) -> linv (l_kill x L) own.
Proof.
  intros x tg L own [H1 H2 H3 H4].
  assert (Hin : In (x, tg) (live L)).
  { apply cnt_in. rewrite <- H1. simpl. destruct (lent_dec (x, tg) (x, tg)); [lia | contradiction]. }
  assert (Hk : In x (map fst (live L))) by (apply in_map_iff; exists (x, tg); auto).
  destruct (l_remove_in x (live L) Hk) as [l' El].
  unfold l_kill. rewrite El.
  destruct (l_remove_split _ _ _ El) as (l1 & tg' & l2 & Hl & ->).
  rewrite Hl in *. clear El.
  rewrite map_app in H2, H3, Hk. simpl in H2, H3.
  (* the removed entry is the owned one: keys are unique *)
  assert (tg' = tg).
  { apply in_app_or in Hin. rewrite <- app_assoc in H2. simpl in H2.
    pose proof (NoDup_remove_2 _ _ _ H2) as Hnot.
    destruct Hin as [Hin|[Heq|Hin]].
    - exfalso. apply Hnot. apply in_or_app. left. apply in_map_iff. exists (x, tg); auto.
    - inversion Heq; reflexivity.
    - exfalso. apply Hnot. apply in_or_app. right. apply in_or_app. left. apply in_map_iff. exists (x, tg); auto. }
  subst tg'.
  assert (HP : Permutation ((map fst l1 ++ x :: map fst l2) ++ dead L) (map fst (l1 ++ l2) ++ x :: dead L)).
  { rewrite map_app. rewrite <- !app_assoc. apply Permutation_app_head. simpl.
    apply Permutation_middle. }
  constructor; simpl.
  - intro e. specialize (H1 e).
    destruct (lent_dec (x, tg) e) as [He|He].
    + rewrite (count_occ_elt_eq lent_dec l1 l2 He) in H1.
      rewrite (count_occ_cons_eq lent_dec own He) in H1. lia.
    + rewrite (count_occ_elt_neq lent_dec l1 l2 He) in H1.
      rewrite (count_occ_cons_neq lent_dec own He) in H1. exact H1.
  - eapply Permutation_NoDup; [exact HP | exact H2].
  - intro y. rewrite <- H3. split; intro Hy.
    + eapply Permutation_in; [apply Permutation_sym; exact HP | exact Hy].
    + eapply Permutation_in; [exact HP | exact Hy].
  - exact H4.
Qed.

Lemma l_is_live_own : forall x L own, linv L own -> In x (map fst own) -> l_is_live x L = true.
Proof.
  intros x L own [H1 _ _ _] Hin. apply in_map_iff in Hin. destruct Hin as ([k tg] & Hk & Hin). simpl in Hk. subst k.
  unfold l_is_live. apply existsb_exists. exists (x, tg). split; [|apply Nat.eqb_refl].
  apply cnt_in. rewrite <- H1. apply in_cnt. exact Hin.
Qed.

(* reading an owned object *)
Lemma l_read_own : forall x L own, linv L own -> In x (map fst own) -> l_read x L = L.
Proof.
  intros x L own HL Hin. unfold l_read. rewrite (l_is_live_own x L own HL Hin). reflexivity.
Qed.

Global Opaque l_new l_kill l_read.

(* permutations and filters *)
Lemma Permutation_filter_len : forall (A : Type) (f : A -> bool) (l l' : list A),
  Permutation l l' -> length (filter f l) = length (filter f l').
Proof.
  intros A f l l' HP. induction HP; simpl; auto.
  - destruct (f x); simpl; auto.
  - destruct (f x); destruct (f y); simpl; auto.
  - congruence.
Qed.

Lemma same_filter_len : forall (f : lent -> bool) (l l' : list lent),
  (forall e, cnt l e = cnt l' e) -> length (filter f l) = length (filter f l').
Proof.
  intros f l l' H. apply Permutation_filter_len. apply (Permutation_count_occ lent_dec). exact H.
Qed.

(* ------------------------------------------------------------------------------------ *)
(* 3. holders *)

Definition c_own (c : content) : list lent :=
  match c with
  | CObj o => [(oid o, TPayload (ty o))]
  | CLarge b d _ => (b, TBox) :: match d with Some o => [(oid o, TPayload (ty o))] | None => [] end
  end.

Definition h_own (h : holder) : list lent := c_own (buf h).

(* an AnyData that holds a value: the table is the table of the stored type and the buffer
   holds the object, or the table is LargeData's and the box owns the object and its deleter *)
Inductive wf_live : holder -> Prop :=
| WLI : forall n o, wf_live (mkH n (FnT (ty o)) (CObj o))
| WLH : forall n b o, wf_live (mkH n FnLarge (CLarge b (Some o) (Some (ty o)))).

(* a moved-from AnyData: still owns an object to destroy (the moved-from shell, or the empty box) *)
Inductive wf_shell : holder -> Prop :=
| WSI : forall n o, wf_shell (mkH n (FnT (ty o)) (CObj o))
| WSH : forall n b, wf_shell (mkH n FnLarge (CLarge b None None)).

Definition logical (h : holder) : nat * Z :=
  match buf h with
  | CObj o => (ty o, val o)
  | CLarge _ (Some o) _ => (ty o, val o)
  | CLarge _ None _ => (0, 0%Z)
  end.

Ltac cnt_solve :=
  let e := fresh "e" in
  intro e; cbn [h_own c_own buf app oid ty]; rewrite ?count_occ_app; cbn [count_occ oid ty];
  repeat match goal with |- context [lent_dec ?a e] => destruct (lent_dec a e) end; lia.

Lemma get_address_inline_spec : forall b, GenAnyData.get_address_inline b = negb b.
Proof. reflexivity. Qed.

Lemma is_type_sel_spec : forall b, GenAnyData.is_type_sel b = negb b.
Proof. reflexivity. Qed.

Lemma h_make_ok : forall cap ls n t sz v L rest, linv L rest ->
  exists h L', h_make cap ls n t sz v L = (Some h, L') /\ linv L' (h_own h ++ rest) /\
               wf_live h /\ logical h = (t, v) /\ hid h = n.
Proof.
  intros cap ls n t sz v L rest H. unfold h_make.
  destruct (l_new (TPayload t) L) as [s L0] eqn:E0.
  destruct (l_new_inv _ _ _ _ _ E0 H) as [H0 _].
  destruct (split_complementary sz (eff cap ls)) as [[Hi Hh]|[Hi Hh]]; rewrite Hi, Hh.
  - assert (Hs : l_read s L0 = L0) by (eapply l_read_own; [exact H0 | simpl; auto]).
    rewrite Hs. destruct (l_new (TPayload t) L0) as [x L1] eqn:E1.
    destruct (l_new_inv _ _ _ _ _ E1 H0) as [H1 _].
    cbn [fst snd]. eexists _, _. split; [reflexivity|]. split; [|split; [|split]].
    + apply l_kill_inv with (tg := TPayload t). eapply linv_same; [|exact H1]. cnt_solve.
    + apply (WLI n (mkObj t sz v x)).
    + reflexivity.
    + reflexivity.
  - destruct (l_new TBox L0) as [b L1] eqn:E1.
    destruct (l_new_inv _ _ _ _ _ E1 H0) as [H1 _].
    assert (Hs : l_read s L1 = L1) by (eapply l_read_own; [exact H1 | simpl; auto]).
    rewrite Hs. destruct (l_new (TPayload t) L1) as [x L2] eqn:E2.
    destruct (l_new_inv _ _ _ _ _ E2 H1) as [H2 _].
    cbn [fst snd]. eexists _, _. split; [reflexivity|]. split; [|split; [|split]].
    + apply l_kill_inv with (tg := TPayload t). eapply linv_same; [|exact H2]. cnt_solve.
    + apply (WLH n b (mkObj t sz v x)).
    + reflexivity.
    + reflexivity.
Qed.

Lemma h_move_ok : forall n h L rest, wf_live h -> linv L (h_own h ++ rest) ->
  exists hn hs L', h_move n h L = (hn, hs, L') /\ linv L' (h_own hn ++ h_own hs ++ rest) /\
                   wf_live hn /\ wf_shell hs /\ logical hn = logical h /\ hid hn = n.
Proof.
  intros n h L rest Hwf HL. unfold h_move. rewrite move_guard_code.
  destruct Hwf as [m o|m b o]; cbn [funcs buf hid fn_move].
  - rewrite Nat.eqb_refl.
    assert (Hr : l_read (oid o) L = L) by (eapply l_read_own; [exact HL | simpl; auto]).
    rewrite Hr. destruct (l_new (TPayload (ty o)) L) as [x L1] eqn:E1.
    destruct (l_new_inv _ _ _ _ _ E1 HL) as [H1 _].
    eexists _, _, _. split; [reflexivity|]. split; [|split; [|split; [|split]]].
    + eapply linv_same; [|exact H1]. cnt_solve.
    + apply (WLI n (mkObj (ty o) (size o) (val o) x)).
    + apply WSI.
    + reflexivity.
    + reflexivity.
  - assert (Hr : l_read b L = L) by (eapply l_read_own; [exact HL | simpl; auto]).
    rewrite Hr. destruct (l_new TBox L) as [x L1] eqn:E1.
    destruct (l_new_inv _ _ _ _ _ E1 HL) as [H1 _].
    eexists _, _, _. split; [reflexivity|]. split; [|split; [|split; [|split]]].
    + eapply linv_same; [|exact H1]. cnt_solve.
    + apply WLH.
    + apply WSH.
    + reflexivity.
    + reflexivity.
Qed.

Lemma h_destroy_ok : forall h L rest, wf_live h \/ wf_shell h -> linv L (h_own h ++ rest) ->
  linv (h_destroy h L) rest.
Proof.
  intros h L rest Hwf HL. unfold h_destroy. rewrite dtor_guard_code.
  destruct Hwf as [Hwf|Hwf]; destruct Hwf; cbn [funcs buf fn_free]; cbn [h_own c_own buf app] in HL.
  - rewrite Nat.eqb_refl. eapply l_kill_inv; exact HL.
  - rewrite large_guard_some, Nat.eqb_refl. apply l_kill_inv with (tg := TBox). apply l_kill_inv with (tg := TPayload (ty o)).
    eapply linv_same; [|exact HL]. cnt_solve.
  - rewrite Nat.eqb_refl. eapply l_kill_inv; exact HL.
  - rewrite large_guard_none. eapply l_kill_inv; exact HL.
Qed.

Lemma h_get_ok : forall h L rest, wf_live h -> linv L (h_own h ++ rest) ->
  h_get h L = (Some (snd (logical h)), L).
Proof.
  intros h L rest Hwf HL. unfold h_get. destruct Hwf as [m o|m b o].
  - rewrite is_large_T, get_address_inline_spec. cbn [negb buf logical snd].
    rewrite (l_read_own (oid o) L _ HL) by (simpl; auto). reflexivity.
  - rewrite is_large_L, get_address_inline_spec. cbn [negb buf logical snd].
    rewrite (l_read_own b L _ HL) by (simpl; auto).
    rewrite (l_read_own (oid o) L _ HL) by (simpl; auto). reflexivity.
Qed.

Lemma h_is_type_ok : forall h t, wf_live h -> h_is_type h t = (t =? fst (logical h)).
Proof.
  intros h t Hwf. unfold h_is_type. destruct Hwf as [m o|m b o].
  - rewrite is_large_T, is_type_sel_spec. cbn [negb funcs logical buf fst].
    unfold GenAnyData.is_type_inline. cbn [fn_code]. apply eqb_code.
  - rewrite is_large_L, is_type_sel_spec. cbn [negb funcs logical buf fst].
    unfold GenAnyData.is_type_large. cbn [del_code]. rewrite eqb_code. apply Nat.eqb_sym.
Qed.

Lemma h_address_ok : forall h, wf_live h -> addr_eqb (h_address h) (h_address h) = true.
Proof.
  intros h Hwf. unfold h_address. destruct Hwf as [m o|m b o].
  - rewrite is_large_T, get_address_inline_spec. simpl. apply Nat.eqb_refl.
  - rewrite is_large_L, get_address_inline_spec. simpl. apply Nat.eqb_refl.
Qed.

(* the delivered event of process() *)
Lemma deliver_ok : forall h L rest, wf_live h -> linv L (h_own h ++ rest) ->
  deliver h L = (EDeliver true (snd (logical h)), L).
Proof.
  intros h L rest Hwf HL. unfold deliver. rewrite (h_get_ok h L rest Hwf HL).
  rewrite (h_is_type_ok h _ Hwf).
  destruct Hwf; cbn [buf logical fst]; rewrite Nat.eqb_refl; reflexivity.
Qed.
