(* AnyDataProofs.v — proofs about the AnyData model (property C17).

   1. the generated leaf conditions: exactly one constructor is viable for every size and
      capacity, the inline branch and the LargeData fit the buffer, MaxSizeOf is a maximum;
   2. the ledger discipline: invariant `linv` (the ids owned by the holders are exactly the
      live ids, every id ever created is live or dead, never both, never twice);
   3. every holder operation (make / move / destroy / get / isType / getAddress) preserves it;
   4. every program step preserves the global invariant `Inv` and commutes with the
      abstraction to the value-semantics specification (refinement);
   5. the C17 theorems as corollaries. *)
From Coq Require Import List Arith NArith ZArith Bool Lia Permutation.
From EV Require Import AnyDataModel.
From EV.gen Require GenAnyData.
Import ListNotations.

(* ------------------------------------------------------------------------------------ *)
(* 1. the generated conditions *)

(* case analysis on every N comparison of the goal: the proofs below do not depend on which
   of <, <=, >, >= (or their negations) the header uses, only on what they decide *)
Ltac n_cmp :=
  repeat match goal with
  | |- context [N.leb ?a ?b] => destruct (N.leb_spec a b)
  | |- context [N.ltb ?a ?b] => destruct (N.ltb_spec a b)
  | |- context [N.eqb ?a ?b] => destruct (N.eqb_spec a b)
  end; cbn [negb andb orb].

Lemma split_complementary : forall size maxSize : N,
  (GenAnyData.inline_cond size maxSize = true /\ GenAnyData.heap_cond size maxSize = false) \/
  (GenAnyData.inline_cond size maxSize = false /\ GenAnyData.heap_cond size maxSize = true).
Proof.
  intros size maxSize. unfold GenAnyData.inline_cond, GenAnyData.heap_cond.
  n_cmp; auto; lia.
Qed.

Lemma inline_in_bounds : forall size maxSize : N,
  GenAnyData.inline_cond size maxSize = true -> (size <= maxSize)%N.
Proof.
  intros size maxSize. unfold GenAnyData.inline_cond.
  n_cmp; intro; try discriminate; lia.
Qed.

Lemma large_fits : forall cap ls : N, (ls <= eff cap ls)%N /\ (cap <= eff cap ls)%N.
Proof.
  intros cap ls. unfold eff, GenAnyData.eff_max_size. n_cmp; lia.
Qed.

Lemma eff_is_max : forall cap ls : N, eff cap ls = N.max cap ls.
Proof.
  intros cap ls. unfold eff, GenAnyData.eff_max_size. n_cmp; lia.
Qed.

Lemma max_size_of_upper : forall ts t x, In x (t :: ts) -> (x <= max_size_of t ts)%N.
Proof.
  induction ts as [|t' ts IH]; intros t x Hin.
  - simpl in *. unfold GenAnyData.max_size_single. destruct Hin as [<-|[]]. lia.
  - cbn [max_size_of]. unfold GenAnyData.max_size_step.
    destruct Hin as [<-|Hin].
    + n_cmp; lia.
    + specialize (IH t' x Hin). n_cmp; lia.
Qed.

Lemma max_size_of_member : forall ts t, In (max_size_of t ts) (t :: ts).
Proof.
  induction ts as [|t' ts IH]; intros t.
  - simpl. unfold GenAnyData.max_size_single. auto.
  - cbn [max_size_of]. unfold GenAnyData.max_size_step.
    specialize (IH t'). n_cmp; solve [left; reflexivity | right; exact IH | left; lia | right; replace t with (max_size_of t' ts) by lia; exact IH].
Qed.

Lemma fold_max_upper : forall ts t x, In x (t :: ts) -> (x <= fold_right N.max t ts)%N.
Proof.
  induction ts as [|t' ts IH]; intros t x Hin.
  - simpl in *. destruct Hin as [<-|[]]. lia.
  - simpl. destruct Hin as [Heq|[Heq|Hin]].
    + subst x. specialize (IH t t (or_introl eq_refl)). lia.
    + subst x. lia.
    + specialize (IH t x (or_intror Hin)). lia.
Qed.

Lemma fold_max_member : forall ts t, In (fold_right N.max t ts) (t :: ts).
Proof.
  induction ts as [|t' ts IH]; intros t.
  - simpl. auto.
  - simpl. destruct (N.max_spec t' (fold_right N.max t ts)) as [[_ ->]|[_ ->]].
    + destruct (IH t) as [H|H]; [left; exact H | right; right; exact H].
    + right; left; reflexivity.
Qed.

Lemma max_size_of_is_max : forall t ts, max_size_of t ts = fold_right N.max t ts.
Proof.
  intros t ts. apply N.le_antisymm.
  - apply fold_max_upper, max_size_of_member.
  - apply max_size_of_upper, fold_max_member.
Qed.

Lemma max_size_of_max : forall t ts,
  In (max_size_of t ts) (t :: ts) /\ (forall x, In x (t :: ts) -> (x <= max_size_of t ts)%N) /\
  max_size_of t ts = fold_right N.max t ts.
Proof.
  intros t ts. split; [apply max_size_of_member|]. split; [intros x Hx; apply max_size_of_upper; exact Hx|].
  apply max_size_of_is_max.
Qed.

(* pointer codes *)

Lemma eqb_code : forall a b k, (N.of_nat a + k =? N.of_nat b + k)%N = (a =? b).
Proof.
  intros a b k. destruct (Nat.eqb_spec a b) as [->|Hne].
  - apply N.eqb_refl.
  - apply N.eqb_neq. lia.
Qed.

Lemma is_large_T : forall n t c, h_is_large (mkH n (FnT t) c) = false.
Proof.
  intros. unfold h_is_large, GenAnyData.is_larger_data. simpl. apply N.eqb_neq. lia.
Qed.

Lemma is_large_L : forall n c, h_is_large (mkH n FnLarge c) = true.
Proof.
  intros. unfold h_is_large, GenAnyData.is_larger_data. reflexivity.
Qed.

Lemma dtor_guard_code : forall f, GenAnyData.dtor_guard (fn_code f) = true.
Proof.
  intros f. unfold GenAnyData.dtor_guard, GenAnyData.null.
  destruct f; apply negb_true_iff, N.eqb_neq; simpl; lia.
Qed.

Lemma move_guard_code : forall f, GenAnyData.move_guard (fn_code f) = true.
Proof.
  intros f. unfold GenAnyData.move_guard, GenAnyData.null.
  destruct f; apply negb_true_iff, N.eqb_neq; simpl; lia.
Qed.

Lemma large_guard_some : forall o d, GenAnyData.large_dtor_guard (ptr_code (Some o)) d = true.
Proof.
  intros. unfold GenAnyData.large_dtor_guard, GenAnyData.null.
  apply negb_true_iff, N.eqb_neq. simpl. lia.
Qed.

Lemma large_guard_none : forall d, GenAnyData.large_dtor_guard (ptr_code None) d = false.
Proof.
  intros. unfold GenAnyData.large_dtor_guard, GenAnyData.null. reflexivity.
Qed.

(* ------------------------------------------------------------------------------------ *)
(* 2. the ledger *)

Definition lent_dec : forall a b : lent, {a = b} + {a <> b}.
Proof. repeat decide equality. Qed.

Notation cnt := (count_occ lent_dec).

Record linv (L : ledger) (own : list lent) : Prop := mkLinv {
  li_same : forall e, cnt own e = cnt (live L) e;
  li_nodup : NoDup (map fst (live L) ++ dead L);
  li_range : forall x, In x (map fst (live L) ++ dead L) <-> x < next L;
  li_err : err L = false }.

Lemma linv_same : forall L own own', (forall e, cnt own e = cnt own' e) -> linv L own -> linv L own'.
Proof.
  intros L own own' Hs [H1 H2 H3 H4]. constructor; auto. intro e. rewrite <- Hs. apply H1.
Qed.

Lemma linv_init : linv l_init [].
Proof.
  constructor; simpl; auto.
  - constructor.
  - intro x. split; [intros [] | lia].
Qed.

Lemma l_new_inv : forall tg L own x L1,
  l_new tg L = (x, L1) -> linv L own -> linv L1 ((x, tg) :: own) /\ x = next L.
Proof.
  intros tg L own x L1 E [H1 H2 H3 H4]. unfold l_new in E. inversion E; subst. clear E.
  split; [|reflexivity]. constructor; simpl.
  - intro e. destruct (lent_dec (next L, tg) e); rewrite H1; reflexivity.
  - constructor; [|exact H2]. intro Hin. apply H3 in Hin. lia.
  - intro x. split.
    + intros [<-|Hin]; [lia | apply H3 in Hin; lia].
    + intro Hlt. destruct (Nat.eq_dec (next L) x) as [->|Hne]; [left; reflexivity|].
      right. apply H3. lia.
  - exact H4.
Qed.

Lemma l_remove_split : forall x l l', l_remove x l = Some l' ->
  exists l1 tg l2, l = l1 ++ (x, tg) :: l2 /\ l' = l1 ++ l2.
Proof.
  intros x l. induction l as [|[k tg] l IH]; intros l' E; simpl in E; [discriminate|].
  destruct (Nat.eqb_spec k x) as [->|Hne].
  - inversion E; subst. exists [], tg, l'. split; reflexivity.
  - destruct (l_remove x l) as [r|] eqn:Er; [|discriminate]. inversion E; subst.
    destruct (IH r eq_refl) as (l1 & tg' & l2 & -> & ->).
    exists ((k, tg) :: l1), tg', l2. split; reflexivity.
Qed.

Lemma l_remove_in : forall x l, In x (map fst l) -> exists l', l_remove x l = Some l'.
Proof.
  intros x l. induction l as [|[k tg] l IH]; intros Hin; simpl in *; [contradiction|].
  destruct (Nat.eqb_spec k x) as [->|Hne]; [eexists; reflexivity|].
  destruct Hin as [Heq|Hin]; [contradiction|].
  destruct (IH Hin) as [l' ->]. eexists; reflexivity.
Qed.

Lemma cnt_in : forall (l : list lent) e, cnt l e > 0 -> In e l.
Proof. intros l e H. apply (count_occ_In lent_dec). exact H. Qed.

Lemma in_cnt : forall (l : list lent) e, In e l -> cnt l e > 0.
Proof. intros l e H. apply (count_occ_In lent_dec). exact H. Qed.

(* destroying an owned object *)
Lemma l_kill_inv : forall x tg L own,
  linv L ((x, tg) :: own) -> linv (l_kill x L) own.
Proof.
  intros x tg L own [H1 H2 H3 H4].
  assert (Hin : In (x, tg) (live L)).
  { apply cnt_in. rewrite <- H1. simpl. destruct (lent_dec (x, tg) (x, tg)); [lia | contradiction]. }
  assert (Hk : In x (map fst (live L))) by (apply in_map_iff; exists (x, tg); auto).
  destruct (l_remove_in x (live L) Hk) as [l' El].
  unfold l_kill. rewrite El.
  destruct (l_remove_split _ _ _ El) as (l1 & tg' & l2 & Hl & ->).
  rewrite Hl in *. clear El.
  rewrite map_app in H2, H3, Hk. simpl in H2, H3.
  (* the removed entry is the owned one: keys are unique *)
  assert (tg' = tg).
  { apply in_app_or in Hin. rewrite <- app_assoc in H2. simpl in H2.
    pose proof (NoDup_remove_2 _ _ _ H2) as Hnot.
    destruct Hin as [Hin|[Heq|Hin]].
    - exfalso. apply Hnot. apply in_or_app. left. apply in_map_iff. exists (x, tg); auto.
    - inversion Heq; reflexivity.
    - exfalso. apply Hnot. apply in_or_app. right. apply in_or_app. left. apply in_map_iff. exists (x, tg); auto. }
  subst tg'.
  assert (HP : Permutation ((map fst l1 ++ x :: map fst l2) ++ dead L) (map fst (l1 ++ l2) ++ x :: dead L)).
  { rewrite map_app. rewrite <- !app_assoc. apply Permutation_app_head. simpl.
    apply Permutation_middle. }
  constructor; simpl.
  - intro e. specialize (H1 e).
    destruct (lent_dec (x, tg) e) as [He|He].
    + rewrite (count_occ_elt_eq lent_dec l1 l2 He) in H1.
      rewrite (count_occ_cons_eq lent_dec own He) in H1. lia.
    + rewrite (count_occ_elt_neq lent_dec l1 l2 He) in H1.
      rewrite (count_occ_cons_neq lent_dec own He) in H1. exact H1.
  - eapply Permutation_NoDup; [exact HP | exact H2].
  - intro y. rewrite <- H3. split; intro Hy.
    + eapply Permutation_in; [apply Permutation_sym; exact HP | exact Hy].
    + eapply Permutation_in; [exact HP | exact Hy].
  - exact H4.
Qed.

Lemma l_is_live_own : forall x L own, linv L own -> In x (map fst own) -> l_is_live x L = true.
Proof.
  intros x L own [H1 _ _ _] Hin. apply in_map_iff in Hin. destruct Hin as ([k tg] & Hk & Hin). simpl in Hk. subst k.
  unfold l_is_live. apply existsb_exists. exists (x, tg). split; [|apply Nat.eqb_refl].
  apply cnt_in. rewrite <- H1. apply in_cnt. exact Hin.
Qed.

(* reading an owned object *)
Lemma l_read_own : forall x L own, linv L own -> In x (map fst own) -> l_read x L = L.
Proof.
  intros x L own HL Hin. unfold l_read. rewrite (l_is_live_own x L own HL Hin). reflexivity.
Qed.

Global Opaque l_new l_kill l_read.

(* permutations and filters *)
Lemma Permutation_filter_len : forall (A : Type) (f : A -> bool) (l l' : list A),
  Permutation l l' -> length (filter f l) = length (filter f l').
Proof.
  intros A f l l' HP. induction HP; simpl; auto.
  - destruct (f x); simpl; auto.
  - destruct (f x); destruct (f y); simpl; auto.
  - congruence.
Qed.

Lemma same_filter_len : forall (f : lent -> bool) (l l' : list lent),
  (forall e, cnt l e = cnt l' e) -> length (filter f l) = length (filter f l').
Proof.
  intros f l l' H. apply Permutation_filter_len. apply (Permutation_count_occ lent_dec). exact H.
Qed.

(* ------------------------------------------------------------------------------------ *)
(* 3. holders *)

Definition c_own (c : content) : list lent :=
  match c with
  | CObj o => [(oid o, TPayload (ty o))]
  | CLarge b d _ => (b, TBox) :: match d with Some o => [(oid o, TPayload (ty o))] | None => [] end
  end.

Definition h_own (h : holder) : list lent := c_own (buf h).

(* an AnyData that holds a value: the table is the table of the stored type and the buffer
   holds the object, or the table is LargeData's and the box owns the object and its deleter *)
Inductive wf_live : holder -> Prop :=
| WLI : forall n o, wf_live (mkH n (FnT (ty o)) (CObj o))
| WLH : forall n b o, wf_live (mkH n FnLarge (CLarge b (Some o) (Some (ty o)))).

(* a moved-from AnyData: still owns an object to destroy (the moved-from shell, or the empty box) *)
Inductive wf_shell : holder -> Prop :=
| WSI : forall n o, wf_shell (mkH n (FnT (ty o)) (CObj o))
| WSH : forall n b, wf_shell (mkH n FnLarge (CLarge b None None)).

Definition logical (h : holder) : nat * Z :=
  match buf h with
  | CObj o => (ty o, val o)
  | CLarge _ (Some o) _ => (ty o, val o)
  | CLarge _ None _ => (0, 0%Z)
  end.

Ltac cnt_solve :=
  let e := fresh "e" in
  intro e; cbn [h_own c_own buf app oid ty]; rewrite ?count_occ_app; cbn [count_occ oid ty];
  repeat match goal with |- context [lent_dec ?a e] => destruct (lent_dec a e) end; lia.

Lemma get_address_inline_spec : forall b, GenAnyData.get_address_inline b = negb b.
Proof. reflexivity. Qed.

Lemma is_type_sel_spec : forall b, GenAnyData.is_type_sel b = negb b.
Proof. reflexivity. Qed.

Lemma h_make_ok : forall cap ls n t sz v L rest, linv L rest ->
  exists h L', h_make cap ls n t sz v L = (Some h, L') /\ linv L' (h_own h ++ rest) /\
               wf_live h /\ logical h = (t, v) /\ hid h = n.
Proof.
  intros cap ls n t sz v L rest H. unfold h_make.
  destruct (l_new (TPayload t) L) as [s L0] eqn:E0.
  destruct (l_new_inv _ _ _ _ _ E0 H) as [H0 _].
  destruct (split_complementary sz (eff cap ls)) as [[Hi Hh]|[Hi Hh]]; rewrite Hi, Hh.
  - assert (Hs : l_read s L0 = L0) by (eapply l_read_own; [exact H0 | simpl; auto]).
    rewrite Hs. destruct (l_new (TPayload t) L0) as [x L1] eqn:E1.
    destruct (l_new_inv _ _ _ _ _ E1 H0) as [H1 _].
    cbn [fst snd]. eexists _, _. split; [reflexivity|]. split; [|split; [|split]].
    + apply l_kill_inv with (tg := TPayload t). eapply linv_same; [|exact H1]. cnt_solve.
    + apply (WLI n (mkObj t sz v x)).
    + reflexivity.
    + reflexivity.
  - destruct (l_new TBox L0) as [b L1] eqn:E1.
    destruct (l_new_inv _ _ _ _ _ E1 H0) as [H1 _].
    assert (Hs : l_read s L1 = L1) by (eapply l_read_own; [exact H1 | simpl; auto]).
    rewrite Hs. destruct (l_new (TPayload t) L1) as [x L2] eqn:E2.
    destruct (l_new_inv _ _ _ _ _ E2 H1) as [H2 _].
    cbn [fst snd]. eexists _, _. split; [reflexivity|]. split; [|split; [|split]].
    + apply l_kill_inv with (tg := TPayload t). eapply linv_same; [|exact H2]. cnt_solve.
    + apply (WLH n b (mkObj t sz v x)).
    + reflexivity.
    + reflexivity.
Qed.

Lemma h_move_ok : forall n h L rest, wf_live h -> linv L (h_own h ++ rest) ->
  exists hn hs L', h_move n h L = (hn, hs, L') /\ linv L' (h_own hn ++ h_own hs ++ rest) /\
                   wf_live hn /\ wf_shell hs /\ logical hn = logical h /\ hid hn = n.
Proof.
  intros n h L rest Hwf HL. unfold h_move. rewrite move_guard_code.
  destruct Hwf as [m o|m b o]; cbn [funcs buf hid fn_move].
  - rewrite Nat.eqb_refl.
    assert (Hr : l_read (oid o) L = L) by (eapply l_read_own; [exact HL | simpl; auto]).
    rewrite Hr. destruct (l_new (TPayload (ty o)) L) as [x L1] eqn:E1.
    destruct (l_new_inv _ _ _ _ _ E1 HL) as [H1 _].
    eexists _, _, _. split; [reflexivity|]. split; [|split; [|split; [|split]]].
    + eapply linv_same; [|exact H1]. cnt_solve.
    + apply (WLI n (mkObj (ty o) (size o) (val o) x)).
    + apply WSI.
    + reflexivity.
    + reflexivity.
  - assert (Hr : l_read b L = L) by (eapply l_read_own; [exact HL | simpl; auto]).
    rewrite Hr. destruct (l_new TBox L) as [x L1] eqn:E1.
    destruct (l_new_inv _ _ _ _ _ E1 HL) as [H1 _].
    eexists _, _, _. split; [reflexivity|]. split; [|split; [|split; [|split]]].
    + eapply linv_same; [|exact H1]. cnt_solve.
    + apply WLH.
    + apply WSH.
    + reflexivity.
    + reflexivity.
Qed.

Lemma h_destroy_ok : forall h L rest, wf_live h \/ wf_shell h -> linv L (h_own h ++ rest) ->
  linv (h_destroy h L) rest.
Proof.
  intros h L rest Hwf HL. unfold h_destroy. rewrite dtor_guard_code.
  destruct Hwf as [Hwf|Hwf]; destruct Hwf; cbn [funcs buf fn_free]; cbn [h_own c_own buf app] in HL.
  - rewrite Nat.eqb_refl. eapply l_kill_inv; exact HL.
  - rewrite large_guard_some, Nat.eqb_refl. apply l_kill_inv with (tg := TBox). apply l_kill_inv with (tg := TPayload (ty o)).
    eapply linv_same; [|exact HL]. cnt_solve.
  - rewrite Nat.eqb_refl. eapply l_kill_inv; exact HL.
  - rewrite large_guard_none. eapply l_kill_inv; exact HL.
Qed.

Lemma h_get_ok : forall h L rest, wf_live h -> linv L (h_own h ++ rest) ->
  h_get h L = (Some (snd (logical h)), L).
Proof.
  intros h L rest Hwf HL. unfold h_get. destruct Hwf as [m o|m b o].
  - rewrite is_large_T, get_address_inline_spec. cbn [negb buf logical snd].
    rewrite (l_read_own (oid o) L _ HL) by (simpl; auto). reflexivity.
  - rewrite is_large_L, get_address_inline_spec. cbn [negb buf logical snd].
    rewrite (l_read_own b L _ HL) by (simpl; auto).
    rewrite (l_read_own (oid o) L _ HL) by (simpl; auto). reflexivity.
Qed.

Lemma h_is_type_ok : forall h t, wf_live h -> h_is_type h t = (t =? fst (logical h)).
Proof.
  intros h t Hwf. unfold h_is_type. destruct Hwf as [m o|m b o].
  - rewrite is_large_T, is_type_sel_spec. cbn [negb funcs logical buf fst].
    unfold GenAnyData.is_type_inline. cbn [fn_code]. apply eqb_code.
  - rewrite is_large_L, is_type_sel_spec. cbn [negb funcs logical buf fst].
    unfold GenAnyData.is_type_large. cbn [del_code]. rewrite eqb_code. apply Nat.eqb_sym.
Qed.

Lemma h_address_ok : forall h, wf_live h -> addr_eqb (h_address h) (h_address h) = true.
Proof.
  intros h Hwf. unfold h_address. destruct Hwf as [m o|m b o].
  - rewrite is_large_T, get_address_inline_spec. simpl. apply Nat.eqb_refl.
  - rewrite is_large_L, get_address_inline_spec. simpl. apply Nat.eqb_refl.
Qed.

(* the delivered event of process() *)
Lemma deliver_ok : forall h L rest, wf_live h -> linv L (h_own h ++ rest) ->
  deliver h L = (EDeliver true (snd (logical h)), L).
Proof.
  intros h L rest Hwf HL. unfold deliver. rewrite (h_get_ok h L rest Hwf HL).
  rewrite (h_is_type_ok h _ Hwf).
  destruct Hwf; cbn [buf logical fst]; rewrite Nat.eqb_refl; reflexivity.
Qed.

(* ------------------------------------------------------------------------------------ *)
(* 4. states: invariant, abstraction, refinement *)

Section Assoc.
  Context {A B : Type}.
  Variable f : A -> B.

  Definition map_snd (l : list (nat * A)) : list (nat * B) := map (fun p => (fst p, f (snd p))) l.

  Lemma get_reg_map : forall r l, get_reg r (map_snd l) = option_map f (get_reg r l).
  Proof.
    intros r l. induction l as [|[k x] l IH]; simpl; [reflexivity|].
    destruct (k =? r); [reflexivity | exact IH].
  Qed.

  Lemma del_reg_map : forall r l, del_reg r (map_snd l) = map_snd (del_reg r l).
  Proof.
    intros r l. induction l as [|[k x] l IH]; simpl; [reflexivity|].
    destruct (k =? r); [reflexivity | simpl; rewrite IH; reflexivity].
  Qed.
End Assoc.

Lemma get_reg_Forall : forall (A : Type) (P : nat * A -> Prop) r l x,
  Forall P l -> get_reg r l = Some x -> P (r, x).
Proof.
  intros A P r l x HF. induction HF as [|[k y] l Hp HF IH]; simpl; [discriminate|].
  destruct (Nat.eqb_spec k r) as [->|Hne]; [|exact IH].
  intro E. inversion E; subst. exact Hp.
Qed.

Lemma del_reg_Forall : forall (A : Type) (P : nat * A -> Prop) r l,
  Forall P l -> Forall P (del_reg r l).
Proof.
  intros A P r l HF. induction HF as [|[k y] l Hp HF IH]; simpl; [constructor|].
  destruct (k =? r); [exact HF | constructor; assumption].
Qed.

Lemma get_reg_del_other : forall (A : Type) r k (l : list (nat * A)), k <> r -> get_reg k (del_reg r l) = get_reg k l.
Proof.
  intros A r k l Hne. induction l as [|[j y] l IH]; simpl; [reflexivity|].
  destruct (Nat.eqb_spec j r) as [->|Hjr].
  - destruct (Nat.eqb_spec r k); [congruence | reflexivity].
  - simpl. destruct (j =? k); [reflexivity | exact IH].
Qed.

Definition r_own (p : nat * rstate) : list lent := h_own (holder_of (snd p)).

Lemma r_own_pair : forall r x, r_own (r, x) = h_own (holder_of x).
Proof. reflexivity. Qed.

Definition owned (s : state) : list lent := flat_map r_own (regs s) ++ flat_map h_own (queue s).

Lemma get_reg_own : forall r l x, get_reg r l = Some x ->
  forall e, cnt (flat_map r_own l) e = cnt (h_own (holder_of x)) e + cnt (flat_map r_own (del_reg r l)) e.
Proof.
  intros r l x. induction l as [|[k y] l IH]; simpl; [discriminate|].
  destruct (k =? r).
  - intro E. inversion E; subst. intro e. rewrite count_occ_app. reflexivity.
  - intros E e. simpl. rewrite !count_occ_app. rewrite (IH E e). unfold r_own at 1 3. simpl. lia.
Qed.

Definition r_wf (p : nat * rstate) : Prop :=
  match snd p with
  | RLive h a0 => wf_live h /\ h_address h = a0
  | RMoved h => wf_shell h
  end.

Record Inv (s : state) : Prop := mkInv {
  inv_regs : Forall r_wf (regs s);
  inv_queue : Forall wf_live (queue s);
  inv_led : linv (led s) (owned s) }.

Definition abs_r (x : rstate) : sreg :=
  match x with
  | RLive h _ => SLive (fst (logical h)) (snd (logical h))
  | RMoved _ => SMoved
  end.

Definition abs (s : state) : sstate :=
  mkSS (map_snd abs_r (regs s)) (map logical (queue s)) (map erase (trace s)).

Lemma Inv_init : Inv init.
Proof. constructor; simpl; [constructor | constructor | exact linv_init]. Qed.

Lemma abs_init : abs init = s_init.
Proof. reflexivity. Qed.

Lemma abs_emit : forall e s, abs (emit e s) = s_emit (erase e) (abs s).
Proof. intros e s. unfold abs, emit, s_emit. simpl. rewrite map_app. reflexivity. Qed.

Lemma Inv_emit : forall e s, Inv s -> Inv (emit e s).
Proof. intros e s [H1 H2 H3]. constructor; assumption. Qed.

Lemma abs_get : forall r s, get_reg r (sregs (abs s)) = option_map abs_r (get_reg r (regs s)).
Proof. intros. unfold abs. simpl. apply get_reg_map. Qed.

(* counting the live counted payloads *)
Lemma count_regs : forall tracked l, Forall r_wf l -> existsb is_moved l = false ->
  length (filter (counted tracked) (flat_map r_own l)) =
  length (filter (fun p => match snd p with SLive t _ => tracked t | SMoved => false end) (map_snd abs_r l)).
Proof.
  intros tracked l HF. induction HF as [|[k x] l Hp HF IH]; simpl; [reflexivity|].
  intro Hm. apply orb_false_iff in Hm. destruct Hm as [Hm1 Hm2].
  rewrite filter_app, app_length, (IH Hm2).
  destruct x as [h a0|h]; [|discriminate]. destruct Hp as [Hwf _].
  unfold r_own. simpl. destruct Hwf; simpl; unfold counted; simpl; destruct (tracked (ty o)); reflexivity.
Qed.

Lemma count_queue : forall tracked q, Forall wf_live q ->
  length (filter (counted tracked) (flat_map h_own q)) =
  length (filter (fun e => tracked (fst e)) (map logical q)).
Proof.
  intros tracked q HF. induction HF as [|h q Hwf HF IH]; simpl; [reflexivity|].
  rewrite filter_app, app_length, IH.
  destruct Hwf; simpl; unfold counted; simpl; destruct (tracked (ty o)); reflexivity.
Qed.

Lemma existsb_moved_abs : forall l, existsb s_is_moved (map_snd abs_r l) = existsb is_moved l.
Proof.
  induction l as [|[k x] l IH]; simpl; [reflexivity|]. rewrite IH. destruct x; reflexivity.
Qed.

Lemma ledger_count : forall tracked s, Inv s -> existsb is_moved (regs s) = false ->
  l_count tracked (led s) = s_count tracked (abs s).
Proof.
  intros tracked s [H1 H2 H3] Hm. unfold l_count, s_count.
  rewrite <- (same_filter_len (counted tracked) _ _ (li_same _ _ H3)).
  unfold owned. rewrite filter_app, app_length.
  rewrite (count_regs tracked _ H1 Hm), (count_queue tracked _ H2). reflexivity.
Qed.

(* process(): every slot is delivered and destroyed *)
Lemma process_all_ok : forall q L tr rest, Forall wf_live q -> linv L (flat_map h_own q ++ rest) ->
  exists L', process_all q L tr = (L', tr ++ map (fun e => EDeliver true (snd e)) (map logical q)) /\ linv L' rest.
Proof.
  induction q as [|h q IH]; intros L tr rest HF HL; simpl.
  - exists L. rewrite app_nil_r. split; [reflexivity | exact HL].
  - inversion HF as [|? ? Hwf HF']; subst. simpl in HL. rewrite <- app_assoc in HL.
    rewrite (deliver_ok h L _ Hwf HL).
    assert (HL' : linv (h_destroy h L) (flat_map h_own q ++ rest)) by (apply h_destroy_ok; [left; exact Hwf | exact HL]).
    destruct (IH (h_destroy h L) (tr ++ [EDeliver true (snd (logical h))]) rest HF' HL') as (L' & E & HL'').
    exists L'. rewrite E. rewrite <- app_assoc. split; [reflexivity | exact HL''].
Qed.

Lemma destroy_all_ok : forall hs L rest, Forall (fun h => wf_live h \/ wf_shell h) hs ->
  linv L (flat_map h_own hs ++ rest) -> linv (destroy_all hs L) rest.
Proof.
  induction hs as [|h hs IH]; intros L rest HF HL; simpl; [exact HL|].
  inversion HF as [|? ? Hwf HF']; subst. simpl in HL. rewrite <- app_assoc in HL.
  apply IH; [exact HF'|]. apply h_destroy_ok; assumption.
Qed.

Lemma map_erase_deliver : forall (l : list (nat * Z)),
  map erase (map (fun e => EDeliver true (snd e)) l) = map (fun e => EDeliver true (snd e)) l.
Proof. induction l; simpl; [reflexivity | rewrite IHl; reflexivity]. Qed.

Section StepProofs.
  Variables (cap ls : N) (tracked : nat -> bool).

  Ltac inv_regs_tac := idtac.

  Theorem step_refines : forall s c, Inv s ->
    Inv (step cap ls tracked s c) /\ abs (step cap ls tracked s c) = s_step tracked (abs s) c.
  Proof.
    intros s c HI. pose proof HI as [HR HQ HL].
    destruct c as [r t sz v|r r'|r|r t|r|r|r|r|t sz v| |r| |l]; cbn [step s_step].
    - (* Make *)
      rewrite abs_get. destruct (get_reg r (regs s)) as [x|] eqn:Eg; cbn [option_map].
      + split; [apply Inv_emit; exact HI | apply abs_emit].
      + destruct (h_make_ok cap ls (nexth s) t sz v (led s) (owned s) HL) as (h & L' & E & HL' & Hwf & Hlog & _).
        rewrite E. split.
        * constructor; cbn [regs queue led].
          -- constructor; [split; [exact Hwf | reflexivity] | exact HR].
          -- exact HQ.
          -- eapply linv_same; [|exact HL']. intro e. unfold owned. cbn [regs queue flat_map]. rewrite ?r_own_pair. cbn [holder_of].
             rewrite !count_occ_app. lia.
        * unfold abs. cbn [regs queue trace map_snd map fst snd abs_r]. rewrite Hlog. reflexivity.
    - (* Move *)
      rewrite !abs_get. destruct (get_reg r (regs s)) as [[h a0|h]|] eqn:Eg; cbn [option_map abs_r];
        try (split; [apply Inv_emit; exact HI | apply abs_emit]).
      destruct (get_reg r' (regs s)) as [y|] eqn:Eg'; cbn [option_map];
        try (split; [apply Inv_emit; exact HI | apply abs_emit]).
      destruct (get_reg_Forall _ _ _ _ _ HR Eg) as [Hwf Ha]. cbn [snd] in *.
      assert (HL1 : linv (led s) (h_own h ++ flat_map r_own (del_reg r (regs s)) ++ flat_map h_own (queue s))).
      { eapply linv_same; [|exact HL]. intro e. unfold owned. rewrite !count_occ_app.
        rewrite (get_reg_own r _ _ Eg e). cbn [holder_of]. lia. }
      destruct (h_move_ok (nexth s) h (led s) _ Hwf HL1) as (hn & hs & L' & E & HL' & Hwfn & Hwfs & Hlog & _).
      rewrite E. split.
      + constructor; cbn [regs queue led].
        * constructor; [split; [exact Hwfn | reflexivity]|]. constructor; [exact Hwfs|]. apply del_reg_Forall. exact HR.
        * exact HQ.
        * eapply linv_same; [|exact HL']. intro e. unfold owned. cbn [regs queue flat_map]. rewrite ?r_own_pair. cbn [holder_of].
          rewrite !count_occ_app. lia.
      + unfold abs. cbn [regs queue trace map_snd map fst snd abs_r]. rewrite Hlog.
        fold (map_snd abs_r (del_reg r (regs s))). rewrite <- del_reg_map. reflexivity.
    - (* Get *)
      rewrite abs_get. destruct (get_reg r (regs s)) as [[h a0|h]|] eqn:Eg; cbn [option_map abs_r];
        try (split; [apply Inv_emit; exact HI | apply abs_emit]).
      destruct (get_reg_Forall _ _ _ _ _ HR Eg) as [Hwf Ha]. cbn [snd] in *.
      assert (HL1 : linv (led s) (h_own h ++ flat_map r_own (del_reg r (regs s)) ++ flat_map h_own (queue s))).
      { eapply linv_same; [|exact HL]. intro e. unfold owned. rewrite !count_occ_app.
        rewrite (get_reg_own r _ _ Eg e). cbn [holder_of]. lia. }
      rewrite (h_get_ok h (led s) _ Hwf HL1). split.
      + constructor; assumption.
      + unfold abs, s_emit. cbn [regs queue trace sregs squeue strace]. rewrite map_app. reflexivity.
    - (* IsType *)
      rewrite abs_get. destruct (get_reg r (regs s)) as [[h a0|h]|] eqn:Eg; cbn [option_map abs_r];
        try (split; [apply Inv_emit; exact HI | apply abs_emit]).
      destruct (get_reg_Forall _ _ _ _ _ HR Eg) as [Hwf Ha].
      split; [apply Inv_emit; exact HI|]. rewrite abs_emit. rewrite (h_is_type_ok h t Hwf). reflexivity.
    - (* Addr *)
      rewrite abs_get. destruct (get_reg r (regs s)) as [[h a0|h]|] eqn:Eg; cbn [option_map abs_r];
        try (split; [apply Inv_emit; exact HI | apply abs_emit]).
      destruct (get_reg_Forall _ _ _ _ _ HR Eg) as [Hwf Ha]. cbn [snd] in Ha.
      split; [apply Inv_emit; exact HI|]. rewrite abs_emit. rewrite <- Ha, (h_address_ok h Hwf). reflexivity.
    - (* Where *)
      rewrite abs_get. destruct (get_reg r (regs s)) as [[h a0|h]|] eqn:Eg; cbn [option_map abs_r];
        try (split; [apply Inv_emit; exact HI | apply abs_emit]).
    - (* Destroy *)
      rewrite abs_get. destruct (get_reg r (regs s)) as [x|] eqn:Eg; cbn [option_map];
        try (split; [apply Inv_emit; exact HI | apply abs_emit]).
      assert (Hwf : wf_live (holder_of x) \/ wf_shell (holder_of x)).
      { pose proof (get_reg_Forall _ _ _ _ _ HR Eg) as Hx. unfold r_wf in Hx. cbn [snd] in Hx.
        destruct x; cbn [holder_of]; [left; apply Hx | right; exact Hx]. }
      assert (HL1 : linv (led s) (h_own (holder_of x) ++ flat_map r_own (del_reg r (regs s)) ++ flat_map h_own (queue s))).
      { eapply linv_same; [|exact HL]. intro e. unfold owned. rewrite !count_occ_app.
        rewrite (get_reg_own r _ _ Eg e). lia. }
      split.
      + constructor; cbn [regs queue led].
        * apply del_reg_Forall. exact HR.
        * exact HQ.
        * apply h_destroy_ok; assumption.
      + unfold abs. cbn [regs queue trace]. rewrite <- del_reg_map. destruct x; reflexivity.
    - (* Enqueue *)
      rewrite abs_get. destruct (get_reg r (regs s)) as [[h a0|h]|] eqn:Eg; cbn [option_map abs_r];
        try (split; [apply Inv_emit; exact HI | apply abs_emit]).
      destruct (get_reg_Forall _ _ _ _ _ HR Eg) as [Hwf Ha]. cbn [snd] in *.
      assert (HL1 : linv (led s) (h_own h ++ flat_map r_own (del_reg r (regs s)) ++ flat_map h_own (queue s))).
      { eapply linv_same; [|exact HL]. intro e. unfold owned. rewrite !count_occ_app.
        rewrite (get_reg_own r _ _ Eg e). cbn [holder_of]. lia. }
      destruct (h_move_ok (nexth s) h (led s) _ Hwf HL1) as (tmp & hs & L1 & E1 & HL2 & Hwft & Hwfs & Hlog1 & _).
      rewrite E1.
      destruct (h_move_ok (S (nexth s)) tmp L1 _ Hwft HL2) as (slot & tmps & L2 & E2 & HL3 & Hwfsl & Hwfts & Hlog2 & _).
      rewrite E2.
      assert (HL4 : linv L2 (h_own tmps ++ h_own slot ++ h_own hs ++ flat_map r_own (del_reg r (regs s)) ++ flat_map h_own (queue s))).
      { eapply linv_same; [|exact HL3]. intro e. rewrite !count_occ_app. lia. }
      split.
      + constructor; cbn [regs queue led].
        * constructor; [exact Hwfs|]. apply del_reg_Forall. exact HR.
        * apply Forall_app. split; [exact HQ | constructor; [exact Hwfsl | constructor]].
        * eapply linv_same; [|apply (h_destroy_ok tmps L2 _ (or_intror Hwfts) HL4)].
          intro e. unfold owned. cbn [regs queue flat_map]. rewrite ?r_own_pair. cbn [holder_of].
          rewrite flat_map_app. cbn [flat_map]. rewrite !count_occ_app. cbn [count_occ]. lia.
      + unfold abs. cbn [regs queue trace map_snd map fst snd abs_r].
        fold (map_snd abs_r (del_reg r (regs s))). rewrite <- del_reg_map.
        rewrite map_app. cbn [map]. rewrite Hlog2, Hlog1. rewrite <- surjective_pairing. reflexivity.
    - (* QMake *)
      destruct (h_make_ok cap ls (nexth s) t sz v (led s) (owned s) HL) as (tmp & L1 & E1 & HL1 & Hwft & Hlog & _).
      rewrite E1.
      destruct (h_move_ok (S (nexth s)) tmp L1 _ Hwft HL1) as (slot & tmps & L2 & E2 & HL2 & Hwfsl & Hwfts & Hlog2 & _).
      rewrite E2.
      assert (HL3 : linv L2 (h_own tmps ++ h_own slot ++ owned s)).
      { eapply linv_same; [|exact HL2]. intro e. rewrite !count_occ_app. lia. }
      split.
      + constructor; cbn [regs queue led].
        * exact HR.
        * apply Forall_app. split; [exact HQ | constructor; [exact Hwfsl | constructor]].
        * eapply linv_same; [|apply (h_destroy_ok tmps L2 _ (or_intror Hwfts) HL3)].
          intro e. unfold owned. cbn [regs queue].
          rewrite flat_map_app. cbn [flat_map]. rewrite !count_occ_app. cbn [count_occ]. lia.
      + unfold abs. cbn [regs queue trace]. rewrite map_app. cbn [map]. rewrite Hlog2, Hlog. reflexivity.
    - (* Process *)
      assert (HL1 : linv (led s) (flat_map h_own (queue s) ++ flat_map r_own (regs s))).
      { eapply linv_same; [|exact HL]. intro e. unfold owned. rewrite !count_occ_app. lia. }
      destruct (process_all_ok (queue s) (led s) (trace s) _ HQ HL1) as (L' & E & HL').
      rewrite E. split.
      + constructor; cbn [regs queue led]; [exact HR | constructor |].
        eapply linv_same; [|exact HL']. intro e. unfold owned. cbn [regs queue flat_map]. rewrite app_nil_r. reflexivity.
      + unfold abs. cbn [regs queue trace sregs squeue strace map]. rewrite map_app, map_erase_deliver. reflexivity.
    - (* Take *)
      rewrite abs_get. destruct (get_reg r (regs s)) as [x|] eqn:Eg; cbn [option_map].
      { destruct (squeue (abs s)); split; try (apply Inv_emit; exact HI); apply abs_emit. }
      destruct (queue s) as [|h q] eqn:Eq.
      { unfold abs at 2. rewrite Eq. cbn [squeue map]. split; [apply Inv_emit; exact HI | apply abs_emit]. }
      inversion HQ as [|? ? Hwf HQ']; subst.
      assert (HL1 : linv (led s) (h_own h ++ flat_map r_own (regs s) ++ flat_map h_own q)).
      { eapply linv_same; [|exact HL]. intro e. unfold owned. rewrite Eq. cbn [flat_map]. rewrite !count_occ_app. lia. }
      destruct (h_move_ok (nexth s) h (led s) _ Hwf HL1) as (hn & hs & L1 & E1 & HL2 & Hwfn & Hwfs & Hlog & _).
      rewrite E1.
      assert (HL3 : linv L1 (h_own hs ++ h_own hn ++ flat_map r_own (regs s) ++ flat_map h_own q)).
      { eapply linv_same; [|exact HL2]. intro e. rewrite !count_occ_app. lia. }
      split.
      + constructor; cbn [regs queue led].
        * constructor; [split; [exact Hwfn | reflexivity] | exact HR].
        * exact HQ'.
        * eapply linv_same; [|apply (h_destroy_ok hs L1 _ (or_intror Hwfs) HL3)].
          intro e. unfold owned. cbn [regs queue flat_map]. rewrite ?r_own_pair. cbn [holder_of]. rewrite !count_occ_app. lia.
      + unfold abs at 2. rewrite Eq. cbn [squeue map]. destruct (logical h) as [t0 v0] eqn:El.
        unfold abs. cbn [regs queue trace map_snd map fst snd abs_r sregs strace]. rewrite Hlog. reflexivity.
    - (* Ledger *)
      unfold abs at 2. cbn [sregs]. rewrite existsb_moved_abs.
      destruct (existsb is_moved (regs s)) eqn:Em.
      + split; [apply Inv_emit; exact HI | apply abs_emit].
      + split; [apply Inv_emit; exact HI|]. rewrite abs_emit. cbn [erase].
        rewrite (ledger_count tracked s HI Em). reflexivity.
    - (* MaxSz *)
      destruct l as [|t ts].
      + split; [apply Inv_emit; exact HI | apply abs_emit].
      + split; [apply Inv_emit; exact HI|]. rewrite abs_emit. cbn [erase]. rewrite max_size_of_is_max. reflexivity.
  Qed.

  Theorem run_refines : forall p s, Inv s ->
    Inv (run cap ls tracked s p) /\ abs (run cap ls tracked s p) = s_run tracked (abs s) p.
  Proof.
    induction p as [|c p IH]; intros s HI; simpl; [split; [exact HI | reflexivity]|].
    destruct (step_refines s c HI) as [HI' Ha]. destruct (IH _ HI') as [HI'' Ha'].
    split; [exact HI''|]. rewrite Ha', Ha. reflexivity.
  Qed.
End StepProofs.

(* ------------------------------------------------------------------------------------ *)
(* 5. the end of the case and the C17 theorems *)

Lemma regs_holders_wf : forall l, Forall r_wf l ->
  Forall (fun h => wf_live h \/ wf_shell h) (map (fun p => holder_of (snd p)) l).
Proof.
  intros l HF. induction HF as [|[k x] l Hp HF IH]; simpl; constructor; [|exact IH].
  unfold r_wf in Hp. simpl in Hp. destruct x; simpl; [left; apply Hp | right; exact Hp].
Qed.

Lemma flat_map_holders : forall l, flat_map h_own (map (fun p => holder_of (snd p)) l) = flat_map r_own l.
Proof. induction l as [|p l IH]; simpl; [reflexivity | rewrite IH; reflexivity]. Qed.

Lemma wf_live_or_shell : forall q, Forall wf_live q -> Forall (fun h => wf_live h \/ wf_shell h) q.
Proof. intros q HF. induction HF; constructor; auto. Qed.

Lemma linv_nil_live : forall L, linv L [] -> live L = [].
Proof.
  intros L [H1 _ _ _]. apply (count_occ_inv_nil lent_dec). intro e. rewrite <- H1. reflexivity.
Qed.

Section Top.
  Variables (cap ls : N) (tracked : nat -> bool).

  Lemma finish_linv : forall s, Inv s -> linv (led (finish tracked s)) [].
  Proof.
    intros s [HR HQ HL]. unfold finish. cbn [led].
    apply destroy_all_ok with (rest := []); [apply wf_live_or_shell; exact HQ|]. rewrite app_nil_r.
    apply destroy_all_ok; [apply regs_holders_wf; exact HR|]. rewrite flat_map_holders. exact HL.
  Qed.

  Lemma finish_trace : forall s, Inv s -> trace (finish tracked s) = trace s ++ [ELedger 0].
  Proof.
    intros s HI. pose proof (linv_nil_live _ (finish_linv s HI)) as Hl.
    unfold finish in *. cbn [trace led] in *. unfold l_count. rewrite Hl. reflexivity.
  Qed.

  Lemma run_app : forall s p q, run cap ls tracked s (p ++ q) = run cap ls tracked (run cap ls tracked s p) q.
  Proof. intros. unfold run. apply fold_left_app. Qed.

  Lemma s_run_app : forall s p q, s_run tracked s (p ++ q) = s_run tracked (s_run tracked s p) q.
  Proof. intros. unfold s_run. apply fold_left_app. Qed.

  Lemma run_Inv : forall p, Inv (run cap ls tracked init p).
  Proof. intro p. apply (run_refines cap ls tracked p init Inv_init). Qed.

  Lemma run_abs : forall p, abs (run cap ls tracked init p) = s_run tracked s_init p.
  Proof. intro p. rewrite <- abs_init. apply (run_refines cap ls tracked p init Inv_init). Qed.

  (* the whole observable trace is the trace of the value-semantics specification *)
  Theorem anydata_refines_value_semantics : forall p,
    map erase (run_case cap ls tracked p) = s_run_case tracked p.
  Proof.
    intro p. unfold run_case, final, s_run_case.
    pose proof (run_Inv p) as HI.
    rewrite (li_err _ _ (finish_linv _ HI)). rewrite (finish_trace _ HI).
    rewrite map_app. cbn [map erase]. rewrite <- (run_abs p). reflexivity.
  Qed.

  Theorem anydata_once : forall p,
    let s := run cap ls tracked init p in
    let f := final cap ls tracked p in
    (err (led s) = false /\
     NoDup (map fst (live (led s)) ++ dead (led s)) /\
     (forall x, In x (map fst (live (led s)) ++ dead (led s)) <-> x < next (led s)) /\
     Permutation (owned s) (live (led s))) /\
    (err (led f) = false /\ live (led f) = [] /\ NoDup (dead (led f)) /\
     (forall x, In x (dead (led f)) <-> x < next (led f))).
  Proof.
    intros p s f. pose proof (run_Inv p) as HI. fold s in HI.
    split.
    - destruct (inv_led _ HI) as [H1 H2 H3 H4]. repeat split; auto.
      + apply H3.
      + apply H3.
      + apply (Permutation_count_occ lent_dec). exact H1.
    - pose proof (finish_linv s HI) as HF. fold (final cap ls tracked p) in HF. fold f in HF.
      pose proof (linv_nil_live _ HF) as Hl. destruct HF as [H1 H2 H3 H4].
      rewrite Hl in H2, H3. simpl in H2, H3. auto.
  Qed.

  Lemma abs_reg_live : forall s r t0 v0, get_reg r (sregs (abs s)) = Some (SLive t0 v0) ->
    exists h a0, get_reg r (regs s) = Some (RLive h a0) /\ logical h = (t0, v0).
  Proof.
    intros s r t0 v0 H. rewrite abs_get in H. destruct (get_reg r (regs s)) as [[h a0|h]|]; simpl in H; try discriminate.
    inversion H. exists h, a0. split; [reflexivity|]. apply surjective_pairing.
  Qed.

  (* isType<T>() is true exactly for the stored type, after every history *)
  Theorem anydata_istype : forall p r t0 v0 t,
    get_reg r (sregs (s_run tracked s_init p)) = Some (SLive t0 v0) ->
    exists b, trace (run cap ls tracked init (p ++ [IsType r t])) = trace (run cap ls tracked init p) ++ [EIsType b]
              /\ (b = true <-> t = t0).
  Proof.
    intros p r t0 v0 t H. rewrite <- run_abs in H.
    destruct (abs_reg_live _ _ _ _ H) as (h & a0 & Eg & Hlog).
    pose proof (run_Inv p) as HI.
    destruct (get_reg_Forall _ _ _ _ _ (inv_regs _ HI) Eg) as [Hwf _].
    exists (t =? t0). split; [|apply Nat.eqb_eq].
    rewrite run_app. cbn [run fold_left step]. rewrite Eg. unfold emit. cbn [trace].
    rewrite (h_is_type_ok h t Hwf), Hlog. reflexivity.
  Qed.

  (* reading back what was stored, through any accessor, at a stable address *)
  Theorem anydata_roundtrip : forall p r t sz v t',
    get_reg r (regs (run cap ls tracked init p)) = None ->
    map erase (trace (run cap ls tracked init (p ++ [Make r t sz v; Get r; Addr r; IsType r t']))) =
    map erase (trace (run cap ls tracked init p)) ++ [EGet v; EAddr true; EIsType (t' =? t)].
  Proof.
    intros p r t sz v t' Hn.
    change (map erase (trace (run cap ls tracked init (p ++ [Make r t sz v; Get r; Addr r; IsType r t']))))
      with (strace (abs (run cap ls tracked init (p ++ [Make r t sz v; Get r; Addr r; IsType r t'])))).
    change (map erase (trace (run cap ls tracked init p))) with (strace (abs (run cap ls tracked init p))).
    rewrite !run_abs, s_run_app.
    assert (Hs : get_reg r (sregs (s_run tracked s_init p)) = None).
    { rewrite <- run_abs, abs_get, Hn. reflexivity. }
    destruct (s_run tracked s_init p) as [sr sq st]. cbn [sregs] in Hs.
    cbn [s_run fold_left s_step sregs squeue strace]. rewrite Hs.
    cbn [s_run fold_left s_step sregs squeue strace get_reg]. rewrite Nat.eqb_refl.
    cbn [s_emit sregs squeue strace get_reg]. rewrite Nat.eqb_refl.
    cbn [s_emit sregs squeue strace get_reg]. rewrite Nat.eqb_refl.
    cbn [s_emit sregs squeue strace]. rewrite <- !app_assoc. reflexivity.
  Qed.
End Top.

(* chains of moves and queue round trips *)
Inductive hop := HMove | HQueue.

Fixpoint chain (r : nat) (hs : list hop) : list cmd :=
  match hs with
  | [] => []
  | HMove :: hs' => Move r (S r) :: chain (S r) hs'
  | HQueue :: hs' => Enqueue r :: Take (S r) :: chain (S r) hs'
  end.

Lemma s_chain : forall tracked hops r sr tr t v rest,
  get_reg r sr = Some (SLive t v) -> (forall k, r < k -> get_reg k sr = None) ->
  exists sr', s_run tracked (mkSS sr [] tr) (chain r hops ++ rest) = s_run tracked (mkSS sr' [] tr) rest /\
              get_reg (r + length hops) sr' = Some (SLive t v) /\
              (forall k, r + length hops < k -> get_reg k sr' = None).
Proof.
  intros tracked hops. induction hops as [|h hops IH]; intros r sr tr t v rest Hr Hfree.
  - exists sr. simpl. rewrite Nat.add_0_r. auto.
  - assert (Hn : get_reg (S r) sr = None) by (apply Hfree; lia).
    destruct h; cbn [chain app s_run fold_left s_step sregs squeue strace].
    + rewrite Hr, Hn.
      destruct (IH (S r) ((S r, SLive t v) :: (r, SMoved) :: del_reg r sr) tr t v rest) as (sr' & E & Hg & Hf).
      * cbn [get_reg]. rewrite Nat.eqb_refl. reflexivity.
      * intros k Hk. cbn [get_reg]. destruct (Nat.eqb_spec (S r) k); [lia|]. destruct (Nat.eqb_spec r k); [lia|].
        rewrite get_reg_del_other by lia. apply Hfree. lia.
      * exists sr'. cbn [length]. rewrite Nat.add_succ_r. simpl in Hg, Hf. split; [exact E | split; [exact Hg | exact Hf]].
    + rewrite Hr. cbn [sregs squeue strace app get_reg].
      destruct (Nat.eqb_spec r (S r)); [lia|]. rewrite get_reg_del_other by lia. rewrite Hn.
      destruct (IH (S r) ((S r, SLive t v) :: (r, SMoved) :: del_reg r sr) tr t v rest) as (sr' & E & Hg & Hf).
      * cbn [get_reg]. rewrite Nat.eqb_refl. reflexivity.
      * intros k Hk. cbn [get_reg]. destruct (Nat.eqb_spec (S r) k); [lia|]. destruct (Nat.eqb_spec r k); [lia|].
        rewrite get_reg_del_other by lia. apply Hfree. lia.
      * exists sr'. cbn [length]. rewrite Nat.add_succ_r. simpl in Hg, Hf. split; [exact E | split; [exact Hg | exact Hf]].
Qed.

Theorem anydata_move_chain : forall cap ls tracked t sz v hops t',
  map erase (run_case cap ls tracked
     (Make 0 t sz v :: chain 0 hops ++ [Get (length hops); IsType (length hops) t'; Addr (length hops)]))
  = [EGet v; EIsType (t' =? t); EAddr true; ELedger 0]
  /\
  map erase (run_case cap ls tracked (Make 0 t sz v :: chain 0 hops ++ [Enqueue (length hops); Process]))
  = [EDeliver true v; ELedger 0].
Proof.
  intros cap ls tracked t sz v hops t'. rewrite !anydata_refines_value_semantics. unfold s_run_case.
  split.
  - cbn [s_run fold_left s_step s_init sregs squeue strace get_reg].
    destruct (s_chain tracked hops 0 [(0, SLive t v)] [] t v
                [Get (length hops); IsType (length hops) t'; Addr (length hops)]) as (sr' & E & Hg & _).
    + reflexivity.
    + intros k Hk. destruct k; [lia | reflexivity].
    + unfold s_run in E. rewrite E. simpl in Hg.
      cbn [fold_left s_step sregs squeue strace]. rewrite Hg.
      cbn [s_emit sregs squeue strace]. rewrite Hg.
      cbn [s_emit sregs squeue strace]. rewrite Hg. reflexivity.
  - cbn [s_run fold_left s_step s_init sregs squeue strace get_reg].
    destruct (s_chain tracked hops 0 [(0, SLive t v)] [] t v [Enqueue (length hops); Process]) as (sr' & E & Hg & _).
    + reflexivity.
    + intros k Hk. destruct k; [lia | reflexivity].
    + unfold s_run in E. rewrite E. simpl in Hg.
      cbn [fold_left s_step sregs squeue strace]. rewrite Hg. reflexivity.
Qed.

(* sizes and capacities are unobservable *)
Inductive reshape : cmd -> cmd -> Prop :=
| RS_make : forall r t sz sz' v, reshape (Make r t sz v) (Make r t sz' v)
| RS_qmake : forall t sz sz' v, reshape (QMake t sz v) (QMake t sz' v)
| RS_same : forall c, reshape c c.

Lemma s_run_reshape : forall tracked p p' ss, Forall2 reshape p p' -> s_run tracked ss p = s_run tracked ss p'.
Proof.
  intros tracked p p' ss HF. revert ss. induction HF as [|c c' p p' Hc HF IH]; intro ss; [reflexivity|].
  simpl. assert (Hs : s_step tracked ss c = s_step tracked ss c') by (destruct Hc; reflexivity).
  rewrite Hs. apply IH.
Qed.

Theorem size_uniform : forall cap cap' ls ls' tracked p p', Forall2 reshape p p' ->
  map erase (run_case cap ls tracked p) = map erase (run_case cap' ls' tracked p').
Proof.
  intros. rewrite !anydata_refines_value_semantics. unfold s_run_case.
  rewrite (s_run_reshape tracked p p' s_init H). reflexivity.
Qed.
