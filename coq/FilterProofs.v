(* FilterProofs.v — proofs about coq/FilterModel.v for property C12.

   lp_ok collects what the proofs need from the header's decisions (tie A); gen_lp_ok /
   gen_lp_heter_ok discharge it for the generated leaves by unfolding them.  Then, for every
   re-entrant program:
     - run_good: the events of every dispatch number d, taken out of the whole trace, have the
       shape dispatch_own (filters, each seeing the cell as left by the previous one, up to and
       including the first false; then - only if none was false and the second mixin agrees -
       the listeners, the policy asked after each, up to and including the first false answer);
     - run_safe: a filter whose removal succeeded is never called again;
     - process_is_dispatch: processing dispatches each taken event exactly like a direct dispatch;
   and for non re-entrant callbacks dispatch_exact pins down WHICH filters and listeners run. *)
From Coq Require Import List Arith NArith ZArith Bool Lia.
From EV Require Import FilterModel.
From EV.gen Require GenFilter.
Import ListNotations.
Local Open Scope nat_scope.

(* ---------- tie A: what the header's decisions must satisfy ---------- *)

Record lp_ok (lp : leafp) : Prop := mkLPok {
  ok_lambda : forall r, lp_filter_lambda lp r = r;
  ok_before : forall e fe, (e = true -> fe = true) -> lp_before lp e fe = fe;
  ok_refs : lp_filter_refs lp = true;
  ok_mixins : forall a b, lp_mixins lp a b = a && b;
  ok_gate : forall b, lp_gate lp b = b;
  ok_lookup : lp_lookup_after lp = true;
  ok_queue : lp_queue_direct lp = true;
  ok_after : lp_cci_after lp = true;
  ok_continue : forall p, lp_continue lp p = p
}.

Lemma spec_lp_ok : lp_ok spec_lp.
Proof. constructor; simpl; intros; reflexivity. Qed.

Lemma gen_lp_ok : lp_ok gen_lp.
Proof.
  constructor; simpl.
  - intros r. unfold GenFilter.filter_lambda. reflexivity.
  - intros e fe H. unfold GenFilter.before_dispatch. destruct e; simpl; [symmetry; apply H; reflexivity|].
    destruct fe; reflexivity.
  - unfold GenFilter.filter_args_by_reference, GenFilter.dispatch_passes_lvalue_refs. reflexivity.
  - intros a b. unfold GenFilter.mixins_chain. destruct a; reflexivity.
  - intros b. unfold GenFilter.dispatch_gate. destruct b; reflexivity.
  - unfold GenFilter.lookup_after_mixins. reflexivity.
  - unfold GenFilter.queued_through_direct_dispatch. reflexivity.
  - unfold GenFilter.cci_after_call. reflexivity.
  - intros p. unfold GenFilter.loop_continue. reflexivity.
Qed.

Lemma gen_lp_heter_ok : lp_ok gen_lp_heter.
Proof.
  constructor; simpl.
  - intros r. unfold GenFilter.heter_filter_lambda. reflexivity.
  - intros e fe _. unfold GenFilter.heter_before_dispatch. destruct fe; reflexivity.
  - unfold GenFilter.filter_args_by_reference, GenFilter.dispatch_passes_lvalue_refs. reflexivity.
  - intros a b. unfold GenFilter.mixins_chain. destruct a; reflexivity.
  - intros b. unfold GenFilter.dispatch_gate. destruct b; reflexivity.
  - unfold GenFilter.lookup_after_mixins. reflexivity.
  - unfold GenFilter.queued_through_direct_dispatch. reflexivity.
  - unfold GenFilter.cci_after_call. reflexivity.
  - intros p. unfold GenFilter.loop_continue. reflexivity.
Qed.

(* ---------- trace vocabulary ---------- *)

Definition tagged (d : nat) (e : fev) : bool :=
  match tag e with Some x => Nat.eqb x d | None => false end.

(* the events of dispatch number d, in order *)
Definition own (d : nat) (t : list fev) : list fev := filter (tagged d) t.

Definition filter_ids (t : list fev) : list (nat * nat) :=
  flat_map (fun e => match e with EFilter _ h c _ => [(h, c)] | _ => [] end) t.
Definition listener_ids (t : list fev) : list (nat * nat) :=
  flat_map (fun e => match e with EListener _ h c _ _ => [(h, c)] | _ => [] end) t.

Definition is_false_verdict (d : nat) (e : fev) : Prop := exists h v, e = EVerdict d h false v.
Definition is_false_cci (d : nat) (e : fev) : Prop := exists v, e = ECci d v false.
Definition is_listener (d : nat) (e : fev) : Prop := exists h c k v, e = EListener d h c k v.
Definition norun (h : nat) (t : list fev) : Prop := forall d c v, ~ In (EFilter d h c v) t.

(* P holds of no element but possibly the last *)
Definition only_last (P : fev -> Prop) (o : list fev) : Prop :=
  forall p e q, o = p ++ e :: q -> P e -> q = [].

Lemma ol_none P o : (forall e, In e o -> ~ P e) -> only_last P o.
Proof.
  intros H p e q E Pe. exfalso. apply (H e); [|exact Pe]. rewrite E. apply in_or_app. right. left. reflexivity.
Qed.

Lemma ol_app_r P a : forall b, (forall e, In e a -> ~ P e) -> only_last P b -> only_last P (a ++ b).
Proof.
  induction a as [|x a IH]; intros b Ha Hb; [exact Hb|].
  intros p e q E Pe. destruct p as [|y p].
  - simpl in E. inversion E; subst. exfalso. apply (Ha e); [left; reflexivity|exact Pe].
  - simpl in E. inversion E; subst. apply (IH b (fun e' He' => Ha e' (or_intror He')) Hb p e q H1 Pe).
Qed.

Lemma ol_single P z : only_last P [z].
Proof.
  intros p e q E _. destruct p as [|y p]; simpl in E; inversion E; [reflexivity|].
  destruct p; discriminate.
Qed.

Section Shapes.
  Variable byref : bool.
  Variable cci : Z -> bool.
  Variable mix2 : option (Z -> bool).

  (* the filter part of dispatch d starting from cell v; result: Some v' = all passed and the cell
     is v', None = the last filter returned false *)
  Inductive filter_phase (d : nat) : Z -> list fev -> option Z -> Prop :=
  | fp_done v : filter_phase d v [] (Some v)
  | fp_pass v h c v' t r : filter_phase d v' t r ->
      filter_phase d v (EFilter d h c v :: EVerdict d h true v' :: t) r
  | fp_block v h c v' : filter_phase d v [EFilter d h c v; EVerdict d h false v'] None.

  (* the listener part of dispatch d on key k starting from cell v; the flag says whether the
     policy stopped it.  A by-value prototype leaves the cell alone. *)
  Inductive listener_phase (d k : nat) : Z -> list fev -> bool -> Prop :=
  | lph_done v : listener_phase d k v [] false
  | lph_go v h c v' t s : cci v' = true -> (byref = false -> v' = v) -> listener_phase d k v' t s ->
      listener_phase d k v (EListener d h c k v :: ECci d v' true :: t) s
  | lph_stop v h c v' : cci v' = false -> (byref = false -> v' = v) ->
      listener_phase d k v [EListener d h c k v; ECci d v' false] true.

  (* everything dispatch d of (k, a) emits *)
  Definition dispatch_own (d k : nat) (a : Z) (o : list fev) : Prop :=
    exists tf r, filter_phase d a tf r /\
      match r with
      | None => o = EBegin d k a :: tf
      | Some v =>
          match mix2 with
          | Some m =>
              if m v then exists tl s, listener_phase d k v tl s /\ o = EBegin d k a :: tf ++ EMixin d v true :: tl
              else o = EBegin d k a :: tf ++ [EMixin d v false]
          | None => exists tl s, listener_phase d k v tl s /\ o = EBegin d k a :: tf ++ tl
          end
      end.

  (* ----- consequences of the shapes ----- *)

  Lemma fp_some_no_false d : forall v tf v1, filter_phase d v tf (Some v1) ->
    forall e, In e tf -> ~ is_false_verdict d e /\ ~ is_listener d e /\ ~ is_false_cci d e.
  Proof.
    intros v tf v1 H. remember (Some v1) as r eqn:Er. induction H; intros e He.
    - destruct He.
    - destruct He as [He|[He|He]]; [subst e|subst e|apply (IHfilter_phase Er e He)];
        (split; [intros [? [? X]]; discriminate|split; [intros [? [? [? [? X]]]]; discriminate|intros [? X]; discriminate]]).
    - discriminate.
  Qed.

  Lemma fp_none_shape d : forall v tf, filter_phase d v tf None ->
    only_last (is_false_verdict d) tf /\ forall e, In e tf -> ~ is_listener d e /\ ~ is_false_cci d e.
  Proof.
    intros v tf H. remember (@None Z) as r eqn:Er. induction H.
    - discriminate.
    - destruct (IHfilter_phase Er) as [A B]. split.
      + apply (ol_app_r _ [EFilter d h c v; EVerdict d h true v']); [|exact A].
        intros e [He|[He|[]]]; subst e; intros [? [? X]]; discriminate.
      + intros e [He|[He|He]]; [subst e|subst e|apply (B e He)];
          (split; [intros [? [? [? [? X]]]]; discriminate|intros [? X]; discriminate]).
    - split.
      + apply (ol_app_r _ [EFilter d h c v] [EVerdict d h false v']); [|apply ol_single].
        intros e [He|[]]; subst e; intros [? [? X]]; discriminate.
      + intros e [He|[He|[]]]; subst e; (split; [intros [? [? [? [? X]]]]; discriminate|intros [? X]; discriminate]).
  Qed.

  Lemma lph_shape d k : forall v tl s, listener_phase d k v tl s ->
    only_last (is_false_cci d) tl /\ (forall e, In e tl -> ~ is_false_verdict d e)
    /\ (forall v' b, In (ECci d v' b) tl -> b = cci v').
  Proof.
    intros v tl s H. induction H.
    - split; [apply ol_none; intros e []|split; [intros e []|intros ? ? []]].
    - destruct IHlistener_phase as [A [B C]]. split; [|split].
      + apply (ol_app_r _ [EListener d h c k v; ECci d v' true]); [|exact A].
        intros e [He|[He|[]]]; subst e; intros [? X]; discriminate.
      + intros e [He|[He|He]]; [subst e|subst e|apply (B e He)]; intros [? [? X]]; discriminate.
      + intros v0 b [He|[He|He]]; [discriminate|inversion He; subst; symmetry; assumption|apply (C _ _ He)].
    - split; [|split].
      + apply (ol_app_r _ [EListener d h c k v] [ECci d v' false]); [|apply ol_single].
        intros e [He|[]]; subst e; intros [? X]; discriminate.
      + intros e [He|[He|[]]]; subst e; intros [? [? X]]; discriminate.
      + intros v0 b [He|[He|[]]]; [discriminate|inversion He; subst; symmetry; assumption].
  Qed.

  (* in the events of one dispatch: a false verdict is the last event and excludes listeners;
     a false answer of the policy is the last event; every recorded answer is the policy's *)
  Lemma dispatch_own_facts d k a o : dispatch_own d k a o ->
    only_last (is_false_verdict d) o
    /\ ((exists e, In e o /\ is_false_verdict d e) -> forall e, In e o -> ~ is_listener d e)
    /\ only_last (is_false_cci d) o
    /\ (forall v' b, In (ECci d v' b) o -> b = cci v').
  Proof.
    intros [tf [r [Hf Ho]]].
    assert (NB : forall P : fev -> Prop, (forall e, P e -> e <> EBegin d k a) -> forall x, In x [EBegin d k a] -> ~ P x).
    { intros P HP x [Hx|[]] Px. subst x. apply (HP _ Px). reflexivity. }
    assert (NBv := NB (is_false_verdict d) ltac:(intros e [? [? X]]; subst e; discriminate)).
    assert (NBc := NB (is_false_cci d) ltac:(intros e [? X]; subst e; discriminate)).
    destruct r as [v|].
    - assert (F := fp_some_no_false d a tf v Hf).
      assert (Tail : forall rest, (forall e, In e rest -> ~ is_false_verdict d e) -> only_last (is_false_cci d) rest ->
                (forall v' b, In (ECci d v' b) rest -> b = cci v') ->
                o = EBegin d k a :: tf ++ rest ->
                only_last (is_false_verdict d) o
                /\ ((exists e, In e o /\ is_false_verdict d e) -> forall e, In e o -> ~ is_listener d e)
                /\ only_last (is_false_cci d) o
                /\ (forall v' b, In (ECci d v' b) o -> b = cci v')).
      { intros rest R1 R2 R3 E. subst o. split; [|split; [|split]].
        - apply ol_none. intros e [He|He]; [apply NBv; left; exact He|].
          apply in_app_or in He. destruct He as [He|He]; [apply (F e He)|apply (R1 e He)].
        - intros [e [[He|He] Pe]]; exfalso.
          + apply (NBv e); [left; exact He|exact Pe].
          + apply in_app_or in He. destruct He as [He|He]; [apply (proj1 (F e He) Pe)|apply (R1 e He Pe)].
        - apply (ol_app_r _ [EBegin d k a]); [exact NBc|].
          apply ol_app_r; [intros e He; apply (F e He)|exact R2].
        - intros v' b [He|He]; [discriminate|]. apply in_app_or in He. destruct He as [He|He]; [|apply (R3 _ _ He)].
          exfalso. clear -Hf He. remember (Some v) as r eqn:Er. revert He. induction Hf; intros He.
          + destruct He.
          + destruct He as [He|[He|He]]; [discriminate|discriminate|apply (IHHf Er He)].
          + discriminate. }
      destruct mix2 as [m|].
      + destruct (m v).
        * destruct Ho as [tl [s [Hl Ho]]]. destruct (lph_shape d k v tl s Hl) as [A [B C]].
          apply (Tail (EMixin d v true :: tl)); [| | |exact Ho].
          -- intros e [He|He]; [subst e; intros [? [? X]]; discriminate|apply (B e He)].
          -- apply (ol_app_r _ [EMixin d v true]); [|exact A]. intros e [He|[]]; subst e; intros [? X]; discriminate.
          -- intros v' b [He|He]; [discriminate|apply (C _ _ He)].
        * apply (Tail [EMixin d v false]); [| | |exact Ho].
          -- intros e [He|[]]; subst e; intros [? [? X]]; discriminate.
          -- apply ol_none. intros e [He|[]]; subst e; intros [? X]; discriminate.
          -- intros v' b [He|[]]; discriminate.
      + destruct Ho as [tl [s [Hl Ho]]]. destruct (lph_shape d k v tl s Hl) as [A [B C]].
        apply (Tail tl); assumption.
    - destruct (fp_none_shape d a tf Hf) as [A B]. subst o. split; [|split; [|split]].
      + apply (ol_app_r _ [EBegin d k a]); [exact NBv|exact A].
      + intros _ e [He|He]; [subst e; intros [? [? [? [? X]]]]; discriminate|apply (B e He)].
      + apply ol_none. intros e [He|He]; [apply NBc; left; exact He|apply (B e He)].
      + intros v' b [He|He]; [discriminate|]. exfalso. destruct (B _ He) as [_ B2].
        clear -Hf He. remember (@None Z) as r eqn:Er. revert He. induction Hf; intros He.
        * discriminate.
        * destruct He as [He|[He|He]]; [discriminate|discriminate|apply (IHHf Er He)].
        * destruct He as [He|[He|[]]]; discriminate.
  Qed.
End Shapes.

(* ---------- own: projection lemmas ---------- *)

Lemma own_app d t1 t2 : own d (t1 ++ t2) = own d t1 ++ own d t2.
Proof. apply filter_app. Qed.

Lemma own_in d e t : In e (own d t) <-> In e t /\ tag e = Some d.
Proof.
  unfold own. rewrite filter_In. unfold tagged. split; intros [A B]; (split; [exact A|]).
  - destruct (tag e); [apply Nat.eqb_eq in B; subst; reflexivity|discriminate].
  - rewrite B. apply Nat.eqb_refl.
Qed.

Definition tagok (lo hi : nat) (e : fev) : Prop :=
  match tag e with Some x => lo <= x < hi | None => True end.
Definition tagokD (d lo hi : nat) (e : fev) : Prop := tag e = Some d \/ tagok lo hi e.

Lemma own_out lo hi d t : Forall (tagok lo hi) t -> ~ (lo <= d < hi) -> own d t = [].
Proof.
  induction 1 as [|e t He Ht IH]; intros Hd; [reflexivity|].
  simpl. rewrite (IH Hd). unfold tagged. unfold tagok in He. destruct (tag e) as [x|]; [|reflexivity].
  destruct (Nat.eqb x d) eqn:E; [|reflexivity]. apply Nat.eqb_eq in E. subst. contradiction.
Qed.

Lemma ownD_out d lo hi d' t : Forall (tagokD d lo hi) t -> d' <> d -> ~ (lo <= d' < hi) -> own d' t = [].
Proof.
  induction 1 as [|e t He Ht IH]; intros Hn Hd; [reflexivity|].
  simpl. rewrite (IH Hn Hd). unfold tagged. destruct He as [He|He].
  - rewrite He. destruct (Nat.eqb d d') eqn:E; [|reflexivity]. apply Nat.eqb_eq in E. subst. contradiction.
  - unfold tagok in He. destruct (tag e) as [x|]; [|reflexivity].
    destruct (Nat.eqb x d') eqn:E; [|reflexivity]. apply Nat.eqb_eq in E. subst. contradiction.
Qed.

Lemma own_all d t : Forall (fun e => tag e = Some d) t -> own d t = t.
Proof.
  induction 1 as [|e t He Ht IH]; [reflexivity|]. simpl. unfold tagged. rewrite He, Nat.eqb_refl, IH. reflexivity.
Qed.

Lemma tagok_weaken lo hi lo' hi' t : lo' <= lo -> hi <= hi' -> Forall (tagok lo hi) t -> Forall (tagok lo' hi') t.
Proof.
  intros A B H. eapply Forall_impl; [|exact H]. intros e. unfold tagok. destruct (tag e); [lia|trivial].
Qed.

Lemma tagokD_weaken d lo hi lo' hi' t : lo' <= lo -> hi <= hi' -> Forall (tagokD d lo hi) t -> Forall (tagokD d lo' hi') t.
Proof.
  intros A B H. eapply Forall_impl; [|exact H]. intros e [X|X]; [left; exact X|right].
  unfold tagok in *. destruct (tag e); [lia|trivial].
Qed.

Section Runs.
  Variable lp : leafp.
  Hypothesis LP : lp_ok lp.
  Variable byref : bool.
  Variable cci : Z -> bool.
  Variable mix2 : option (Z -> bool).
  Variable behav : nat -> nat -> list fcmd * bool * option Z.

  Notation dispatch_own := (dispatch_own byref cci mix2).
  Notation listener_phase := (listener_phase byref cci).

  Definition body_of (c n : nat) : list fcmd := fst (fst (behav c n)).
  Definition verdict_of (c n : nat) : bool := snd (fst (behav c n)).
  Definition write_of (c n : nat) : option Z := snd (behav c n).

  (* ----- the interpreter's equations once the header's decisions are the expected ones ----- *)

  Section Equations.
    Variable rec : fstate -> list fcmd -> option (fstate * list fev).

    Lemma rf_cons st d h c rest orig cell :
      run_filters lp behav rec st d ((h, c) :: rest) orig cell =
      if has_l h (flt st) then
        let st1 := activate st c in
        let n := act_of (acts st1) c in
        match rec st1 (body_of c n) with
        | None => None
        | Some (st2, t1) =>
            let after := rewritten (write_of c n) cell in
            let pre := EFilter d h c cell :: t1 ++ [EVerdict d h (verdict_of c n) after] in
            if verdict_of c n then
              match run_filters lp behav rec st2 d rest orig after with
              | None => None
              | Some (st3, cell3, ok, t2) => Some (st3, cell3, ok, pre ++ t2)
              end
            else Some (st2, after, false, pre)
        end
      else run_filters lp behav rec st d rest orig cell.
    Proof.
      simpl. unfold body_of, verdict_of, write_of.
      destruct (has_l h (flt st)); [|reflexivity].
      match goal with |- context [behav c ?n] => destruct (behav c n) as [[body verdict] rw] end. simpl.
      rewrite (ok_lambda lp LP), (ok_refs lp LP). reflexivity.
    Qed.

    Lemma rl_cons st d k h c rest cell :
      run_listeners lp byref cci behav rec st d k ((h, c) :: rest) cell =
      if has_l h (lst_of st k) then
        let st1 := activate st c in
        let n := act_of (acts st1) c in
        match rec st1 (body_of c n) with
        | None => None
        | Some (st2, t1) =>
            let cell1 := if byref then rewritten (write_of c n) cell else cell in
            let pre := EListener d h c k cell :: t1 ++ [ECci d cell1 (cci cell1)] in
            if cci cell1 then
              match run_listeners lp byref cci behav rec st2 d k rest cell1 with
              | None => None
              | Some (st3, t2) => Some (st3, pre ++ t2)
              end
            else Some (st2, pre)
        end
      else run_listeners lp byref cci behav rec st d k rest cell.
    Proof.
      simpl. unfold body_of, verdict_of, write_of.
      destruct (has_l h (lst_of st k)); [|reflexivity].
      rewrite (ok_after lp LP). simpl.
      match goal with |- context [behav c ?n] => destruct (behav c n) as [[body verdict] rw] end. simpl.
      rewrite (ok_continue lp LP). reflexivity.
    Qed.

    Lemma rf_nil_flag st d orig cell x : run_filters lp behav rec st d [] orig cell = Some x -> snd (fst x) = true.
    Proof. simpl. intros H. inversion H. reflexivity. Qed.

    Lemma dg_eq st k a :
      dispatch lp byref cci mix2 behav rec st k a =
      let d := nextd st in
      let st0 := bump_d st in
      match run_filters lp behav rec st0 d (flt st0) a a with
      | None => None
      | Some (st1, cell1, ok, t1) =>
          if ok then
            match mix2 with
            | Some m =>
                if m cell1 then
                  match run_listeners lp byref cci behav rec st1 d k (lst_of st1 k) cell1 with
                  | None => None
                  | Some (st2, t3) => Some (st2, EBegin d k a :: t1 ++ EMixin d cell1 true :: t3)
                  end
                else Some (st1, EBegin d k a :: t1 ++ [EMixin d cell1 false])
            | None =>
                match run_listeners lp byref cci behav rec st1 d k (lst_of st1 k) cell1 with
                | None => None
                | Some (st2, t3) => Some (st2, EBegin d k a :: t1 ++ t3)
                end
            end
          else Some (st1, EBegin d k a :: t1)
      end.
    Proof.
      unfold dispatch, dispatch_gen. cbv zeta.
      destruct (run_filters lp behav rec (bump_d st) (nextd st) (flt (bump_d st)) a a) as [[[[st1 cell1] ok] t1]|] eqn:Ef; [|reflexivity].
      assert (Hb : lp_before lp (is_nil (flt (bump_d st))) ok = ok).
      { apply (ok_before lp LP). intros He. destruct (flt (bump_d st)); [|discriminate].
        apply rf_nil_flag in Ef. exact Ef. }
      rewrite Hb. rewrite (ok_lookup lp LP). simpl orb.
      destruct ok; cbn [andb].
      - destruct mix2 as [m|].
        + rewrite (ok_mixins lp LP), (ok_gate lp LP). simpl andb. destruct (m cell1).
          * destruct (run_listeners lp byref cci behav rec st1 (nextd st) k (lst_of st1 k) cell1) as [[st2 t3]|]; reflexivity.
          * reflexivity.
        + rewrite (ok_mixins lp LP), (ok_gate lp LP). simpl andb.
          destruct (run_listeners lp byref cci behav rec st1 (nextd st) k (lst_of st1 k) cell1) as [[st2 t3]|]; [|reflexivity].
          rewrite app_nil_l. reflexivity.
      - rewrite (ok_mixins lp LP), (ok_gate lp LP). simpl andb. rewrite app_nil_r. reflexivity.
    Qed.

    Lemma pl_eq st evs :
      process_loop lp byref cci mix2 behav rec st evs =
      f_seq lp byref cci mix2 behav rec st (map (fun e => FDispatch (fst e) (snd e)) evs).
    Proof.
      revert st. induction evs as [|[k a] rest IH]; intros st; [reflexivity|].
      simpl. rewrite (ok_queue lp LP). fold (dispatch lp byref cci mix2 behav rec st k a).
      destruct (dispatch lp byref cci mix2 behav rec st k a) as [[st1 t1]|]; [|reflexivity].
      rewrite IH. reflexivity.
    Qed.
  End Equations.

  (* ----- every dispatch number owns a well-shaped slice of the trace ----- *)

  (* t carries only dispatch numbers in [lo, hi) and each of them owns a complete dispatch *)
  Definition Good (lo : nat) (t : list fev) (hi : nat) : Prop :=
    Forall (tagok lo hi) t /\ forall d, lo <= d < hi -> exists k a, dispatch_own d k a (own d t).
  (* the same while dispatch d (< lo) is still emitting its own events in between *)
  Definition GoodD (d lo : nat) (t : list fev) (hi : nat) : Prop :=
    Forall (tagokD d lo hi) t /\ forall d', lo <= d' < hi -> exists k a, dispatch_own d' k a (own d' t).

  Lemma Good_untagged lo t : Forall (fun e => tag e = None) t -> Good lo t lo.
  Proof.
    intros H. split; [|intros d Hd; lia].
    eapply Forall_impl; [|exact H]. intros e He. unfold tagok. rewrite He. trivial.
  Qed.

  Lemma Good_app lo mid hi t1 t2 : lo <= mid -> mid <= hi -> Good lo t1 mid -> Good mid t2 hi -> Good lo (t1 ++ t2) hi.
  Proof.
    intros A B [F1 G1] [F2 G2]. split.
    - apply Forall_app. split; [apply (tagok_weaken lo mid); [lia|lia|exact F1]|apply (tagok_weaken mid hi); [lia|lia|exact F2]].
    - intros d Hd. rewrite own_app. destruct (Nat.lt_ge_cases d mid) as [C|C].
      + rewrite (own_out mid hi d t2 F2); [|lia]. rewrite app_nil_r. apply G1. lia.
      + rewrite (own_out lo mid d t1 F1); [|lia]. apply G2. lia.
  Qed.

  Lemma GoodD_app d lo mid hi t1 t2 : d < lo -> lo <= mid -> mid <= hi ->
    GoodD d lo t1 mid -> GoodD d mid t2 hi -> GoodD d lo (t1 ++ t2) hi.
  Proof.
    intros D A B [F1 G1] [F2 G2]. split.
    - apply Forall_app. split; [apply (tagokD_weaken d lo mid); [lia|lia|exact F1]|apply (tagokD_weaken d mid hi); [lia|lia|exact F2]].
    - intros d' Hd. rewrite own_app. destruct (Nat.lt_ge_cases d' mid) as [C|C].
      + rewrite (ownD_out d mid hi d' t2 F2); [|lia|lia]. rewrite app_nil_r. apply G1. lia.
      + rewrite (ownD_out d lo mid d' t1 F1); [|lia|lia]. apply G2. lia.
  Qed.

  Lemma GoodD_of_Good d lo hi t : Good lo t hi -> GoodD d lo t hi.
  Proof. intros [F G]. split; [|exact G]. eapply Forall_impl; [|exact F]. intros e He. right. exact He. Qed.

  Lemma GoodD_own d lo t : Forall (fun e => tag e = Some d) t -> GoodD d lo t lo.
  Proof. intros H. split; [|intros d' Hd; lia]. eapply Forall_impl; [|exact H]. intros e He. left. exact He. Qed.

  Lemma GoodD_own_out d lo hi t : d < lo -> Good lo t hi -> own d t = [].
  Proof. intros D [F _]. apply (own_out lo hi); [exact F|lia]. Qed.

  Lemma Good_of_GoodD d hi t k a : S d <= hi -> GoodD d (S d) t hi -> dispatch_own d k a (own d t) -> Good d t hi.
  Proof.
    intros A [F G] O. split.
    - eapply Forall_impl; [|exact F]. intros e [He|He]; unfold tagok in *; [rewrite He; lia|destruct (tag e); [lia|trivial]].
    - intros d' Hd. destruct (Nat.eq_dec d' d) as [E|E]; [subst d'; exists k, a; exact O|apply G; lia].
  Qed.

  Definition RecGood (rec : fstate -> list fcmd -> option (fstate * list fev)) : Prop :=
    forall st cs st' t, rec st cs = Some (st', t) -> nextd st <= nextd st' /\ Good (nextd st) t (nextd st').

  Section GoodLoops.
    Variable rec : fstate -> list fcmd -> option (fstate * list fev).
    Hypothesis HR : RecGood rec.

    Lemma run_filters_good d orig : forall todo st cell st' cell' ok t,
      d < nextd st ->
      run_filters lp behav rec st d todo orig cell = Some (st', cell', ok, t) ->
      nextd st <= nextd st' /\ GoodD d (nextd st) t (nextd st')
      /\ filter_phase d cell (own d t) (if ok then Some cell' else None).
    Proof.
      induction todo as [|[h c] rest IH]; intros st cell st' cell' ok t D H.
      - simpl in H. inversion H; subst. split; [lia|]. split; [apply GoodD_own; constructor|]. simpl. constructor.
      - rewrite rf_cons in H. destruct (has_l h (flt st)); [|apply (IH _ _ _ _ _ _ D H)].
        cbv zeta in H.
        destruct (rec (activate st c) (body_of c (act_of (acts (activate st c)) c))) as [[st2 t1]|] eqn:Er; [|discriminate].
        destruct (HR _ _ _ _ Er) as [N1 G1]. change (nextd (activate st c)) with (nextd st) in N1, G1.
        assert (O1 : own d t1 = []) by (apply (GoodD_own_out d _ _ _ D G1)).
        set (n := act_of (acts (activate st c)) c) in *.
        assert (Gpre : forall b v', GoodD d (nextd st) (EFilter d h c cell :: t1 ++ [EVerdict d h b v']) (nextd st2)).
        { intros b v'. change (EFilter d h c cell :: t1 ++ [EVerdict d h b v']) with ([EFilter d h c cell] ++ t1 ++ [EVerdict d h b v']).
          apply (GoodD_app d (nextd st) (nextd st) (nextd st2)); [lia|lia|lia|apply GoodD_own; repeat constructor|].
          apply (GoodD_app d (nextd st) (nextd st2) (nextd st2)); [lia|lia|lia|apply GoodD_of_Good; exact G1|apply GoodD_own; repeat constructor]. }
        assert (Opre : forall b v', own d (EFilter d h c cell :: t1 ++ [EVerdict d h b v']) = [EFilter d h c cell; EVerdict d h b v']).
        { intros b v'. change (EFilter d h c cell :: t1 ++ [EVerdict d h b v']) with ([EFilter d h c cell] ++ t1 ++ [EVerdict d h b v']).
          rewrite !own_app, O1. simpl. unfold tagged. simpl. rewrite Nat.eqb_refl. reflexivity. }
        destruct (verdict_of c n) eqn:Ev.
        + destruct (run_filters lp behav rec st2 d rest orig (rewritten (write_of c n) cell)) as [[[[st3 cell3] ok3] t2]|] eqn:E2; [|discriminate].
          assert (D2 : d < nextd st2) by lia.
          inversion H; subst. destruct (IH _ _ _ _ _ _ D2 E2) as [N2 [G2 P2]].
          change (EFilter d h c cell :: (t1 ++ [EVerdict d h true (rewritten (write_of c n) cell)]) ++ t2)
            with ((EFilter d h c cell :: t1 ++ [EVerdict d h true (rewritten (write_of c n) cell)]) ++ t2).
          split; [lia|]. split.
          * apply (GoodD_app d (nextd st) (nextd st2) (nextd st')); [lia|lia|lia|apply Gpre|exact G2].
          * rewrite own_app, Opre. simpl. apply fp_pass. exact P2.
        + inversion H; subst. split; [lia|]. split; [apply Gpre|]. rewrite Opre. apply fp_block.
    Qed.

    Lemma run_listeners_good d k : forall todo st cell st' t,
      d < nextd st ->
      run_listeners lp byref cci behav rec st d k todo cell = Some (st', t) ->
      nextd st <= nextd st' /\ GoodD d (nextd st) t (nextd st')
      /\ exists s, listener_phase d k cell (own d t) s.
    Proof.
      induction todo as [|[h c] rest IH]; intros st cell st' t D H.
      - simpl in H. inversion H; subst. split; [lia|]. split; [apply GoodD_own; constructor|]. exists false. simpl. constructor.
      - rewrite rl_cons in H. destruct (has_l h (lst_of st k)); [|apply (IH _ _ _ _ D H)].
        cbv zeta in H.
        destruct (rec (activate st c) (body_of c (act_of (acts (activate st c)) c))) as [[st2 t1]|] eqn:Er; [|discriminate].
        destruct (HR _ _ _ _ Er) as [N1 G1]. change (nextd (activate st c)) with (nextd st) in N1, G1.
        assert (O1 : own d t1 = []) by (apply (GoodD_own_out d _ _ _ D G1)).
        set (n := act_of (acts (activate st c)) c) in *.
        set (cell1 := if byref then rewritten (write_of c n) cell else cell) in *.
        assert (BV : byref = false -> cell1 = cell) by (intros X; unfold cell1; rewrite X; reflexivity).
        assert (Gpre : GoodD d (nextd st) (EListener d h c k cell :: t1 ++ [ECci d cell1 (cci cell1)]) (nextd st2)).
        { change (EListener d h c k cell :: t1 ++ [ECci d cell1 (cci cell1)]) with ([EListener d h c k cell] ++ t1 ++ [ECci d cell1 (cci cell1)]).
          apply (GoodD_app d (nextd st) (nextd st) (nextd st2)); [lia|lia|lia|apply GoodD_own; repeat constructor|].
          apply (GoodD_app d (nextd st) (nextd st2) (nextd st2)); [lia|lia|lia|apply GoodD_of_Good; exact G1|apply GoodD_own; repeat constructor]. }
        assert (Opre : own d (EListener d h c k cell :: t1 ++ [ECci d cell1 (cci cell1)]) = [EListener d h c k cell; ECci d cell1 (cci cell1)]).
        { change (EListener d h c k cell :: t1 ++ [ECci d cell1 (cci cell1)]) with ([EListener d h c k cell] ++ t1 ++ [ECci d cell1 (cci cell1)]).
          rewrite !own_app, O1. simpl. unfold tagged. simpl. rewrite Nat.eqb_refl. reflexivity. }
        destruct (cci cell1) eqn:Ec.
        + destruct (run_listeners lp byref cci behav rec st2 d k rest cell1) as [[st3 t2]|] eqn:E2; [|discriminate].
          assert (D2 : d < nextd st2) by lia.
          inversion H; subst. destruct (IH _ _ _ _ D2 E2) as [N2 [G2 [s P2]]].
          change (EListener d h c k cell :: (t1 ++ [ECci d cell1 true]) ++ t2)
            with ((EListener d h c k cell :: t1 ++ [ECci d cell1 true]) ++ t2).
          split; [lia|]. split.
          * apply (GoodD_app d (nextd st) (nextd st2) (nextd st')); [lia|lia|lia|exact Gpre|exact G2].
          * exists s. rewrite own_app, Opre. simpl. apply lph_go; assumption.
        + inversion H; subst. split; [lia|]. split; [exact Gpre|]. exists true. rewrite Opre. apply lph_stop; assumption.
    Qed.

    Lemma dispatch_good st k a st' t :
      dispatch lp byref cci mix2 behav rec st k a = Some (st', t) ->
      nextd st <= nextd st' /\ Good (nextd st) t (nextd st').
    Proof.
      rewrite dg_eq. cbv zeta. intros H.
      destruct (run_filters lp behav rec (bump_d st) (nextd st) (flt (bump_d st)) a a) as [[[[st1 cell1] ok] t1]|] eqn:Ef; [|discriminate].
      assert (D0 : nextd st < nextd (bump_d st)) by (simpl; lia).
      destruct (run_filters_good (nextd st) a _ _ _ _ _ _ _ D0 Ef) as [N1 [G1 P1]].
      change (nextd (bump_d st)) with (S (nextd st)) in N1, G1.
      set (d := nextd st) in *.
      assert (GB : GoodD d (S d) [EBegin d k a] (S d)) by (apply GoodD_own; repeat constructor).
      assert (OB : forall x, own d (EBegin d k a :: x) = EBegin d k a :: own d x).
      { intros x. simpl. unfold tagged. simpl. rewrite Nat.eqb_refl. reflexivity. }
      assert (Fin : forall hi rest, S d <= hi -> GoodD d (S d) rest hi -> dispatch_own d k a (own d (EBegin d k a :: rest)) ->
                    Good d (EBegin d k a :: rest) hi).
      { intros hi rest A G O. apply (Good_of_GoodD d hi _ k a A); [|exact O].
        change (EBegin d k a :: rest) with ([EBegin d k a] ++ rest).
        apply (GoodD_app d (S d) (S d) hi); [lia|lia|lia|exact GB|exact G]. }
      destruct ok.
      - destruct mix2 as [m|] eqn:Em.
        + destruct (m cell1) eqn:Emc.
          * destruct (run_listeners lp byref cci behav rec st1 d k (lst_of st1 k) cell1) as [[st2 t3]|] eqn:El; [|discriminate].
            inversion H; subst st' t. assert (D1 : d < nextd st1) by lia.
            destruct (run_listeners_good d k _ _ _ _ _ D1 El) as [N2 [G2 [s P2]]].
            split; [lia|]. apply Fin; [lia| |].
            -- apply (GoodD_app d (S d) (nextd st1) (nextd st2)); [lia|lia|lia|exact G1|].
               change (EMixin d cell1 true :: t3) with ([EMixin d cell1 true] ++ t3).
               apply (GoodD_app d (nextd st1) (nextd st1) (nextd st2)); [lia|lia|lia|apply GoodD_own; repeat constructor|exact G2].
            -- rewrite OB, own_app. exists (own d t1), (Some cell1). split; [exact P1|]. rewrite Emc.
               exists (own d t3), s. split; [exact P2|]. simpl. unfold tagged. simpl. rewrite Nat.eqb_refl. reflexivity.
          * inversion H; subst st' t. split; [lia|]. apply Fin; [lia| |].
            -- apply (GoodD_app d (S d) (nextd st1) (nextd st1)); [lia|lia|lia|exact G1|apply GoodD_own; repeat constructor].
            -- rewrite OB, own_app. exists (own d t1), (Some cell1). split; [exact P1|]. rewrite Emc.
               simpl. unfold tagged. simpl. rewrite Nat.eqb_refl. reflexivity.
        + destruct (run_listeners lp byref cci behav rec st1 d k (lst_of st1 k) cell1) as [[st2 t3]|] eqn:El; [|discriminate].
          inversion H; subst st' t. assert (D1 : d < nextd st1) by lia.
          destruct (run_listeners_good d k _ _ _ _ _ D1 El) as [N2 [G2 [s P2]]].
          split; [lia|]. apply Fin; [lia| |].
          * apply (GoodD_app d (S d) (nextd st1) (nextd st2)); [lia|lia|lia|exact G1|exact G2].
          * rewrite OB, own_app. exists (own d t1), (Some cell1). split; [exact P1|].
            exists (own d t3), s. split; [exact P2|reflexivity].
      - inversion H; subst st' t. split; [lia|]. apply Fin; [lia|exact G1|].
        rewrite OB. exists (own d t1), None. split; [exact P1|reflexivity].
    Qed.

    Lemma seq_good : forall cs st st' t,
      f_seq lp byref cci mix2 behav rec st cs = Some (st', t) ->
      nextd st <= nextd st' /\ Good (nextd st) t (nextd st').
    Proof.
      assert (U : forall st e, tag e = None -> nextd st <= nextd st /\ Good (nextd st) [e] (nextd st)).
      { intros st e He. split; [lia|]. apply Good_untagged. repeat constructor. exact He. }
      assert (N : forall st, nextd st <= nextd st /\ Good (nextd st) [] (nextd st)).
      { intros st. split; [lia|]. apply Good_untagged. constructor. }
      assert (Step : forall st c st' t, f_step lp byref cci mix2 behav rec st c = Some (st', t) ->
                nextd st <= nextd st' /\ Good (nextd st) t (nextd st')).
      { assert (Seq : forall cs st st' t, (forall c, In c cs -> exists k a, c = FDispatch k a) ->
                  f_seq lp byref cci mix2 behav rec st cs = Some (st', t) ->
                  nextd st <= nextd st' /\ Good (nextd st) t (nextd st')).
        { induction cs as [|c r IH]; intros st st' t Hc H; simpl in H; [inversion H; subst; apply N|].
          destruct (Hc c (or_introl eq_refl)) as [k [a Ec]]. subst c. simpl in H.
          destruct (dispatch lp byref cci mix2 behav rec st k a) as [[st1 t1]|] eqn:E1; [|discriminate].
          destruct (f_seq lp byref cci mix2 behav rec st1 r) as [[st2 t2]|] eqn:E2; [|discriminate].
          inversion H; subst. destruct (dispatch_good _ _ _ _ _ E1) as [A1 B1].
          destruct (IH _ _ _ (fun c Hc' => Hc c (or_intror Hc')) E2) as [A2 B2].
          split; [lia|]. apply (Good_app _ (nextd st1)); assumption. }
        assert (PL : forall st evs st' t, process_loop lp byref cci mix2 behav rec st evs = Some (st', t) ->
                  nextd st <= nextd st' /\ Good (nextd st) t (nextd st')).
        { intros st evs st' t H. rewrite pl_eq in H. refine (Seq _ _ _ _ _ H).
          intros c Hc. apply in_map_iff in Hc. destruct Hc as [[k a] [E _]]. exists k, a. symmetry. exact E. }
        assert (PLR : forall st evs st' t, process_loop lp byref cci mix2 behav rec st evs = Some (st', t) ->
                  nextd st <= nextd st' /\ Good (nextd st) (t ++ [ERet true]) (nextd st')).
        { intros st evs st' t H. destruct (PL _ _ _ _ H) as [A B]. split; [exact A|].
          apply (Good_app _ (nextd st')); [lia|lia|exact B|apply Good_untagged; repeat constructor]. }
        assert (N2 : forall st st' t, nextd st' = nextd st -> Forall (fun e => tag e = None) t ->
                  nextd st <= nextd st' /\ Good (nextd st) t (nextd st')).
        { intros st st' t E F. rewrite E. split; [lia|]. apply Good_untagged. exact F. }
        intros st c st' t H. destruct c; unfold f_step in H.
        - inversion H; subst. apply N2; [reflexivity|repeat constructor].
        - destruct (alookup h (fregs st)) as [id|]; [|inversion H; subst; apply N2; [reflexivity|repeat constructor]].
          destruct (has_l id (flt st)); inversion H; subst; apply N2; try reflexivity; repeat constructor.
        - inversion H; subst. apply N2; [reflexivity|repeat constructor].
        - inversion H; subst. apply N2; [reflexivity|repeat constructor].
        - destruct (alookup h (hregs st)) as [[k' b]|]; [|inversion H; subst; apply N2; [reflexivity|repeat constructor]].
          destruct (Nat.eqb k' k); [|discriminate].
          destruct (has_l b (lst_of st k)); inversion H; subst; apply N2; try reflexivity; repeat constructor.
        - apply (dispatch_good _ _ _ _ _ H).
        - inversion H; subst. apply N2; [reflexivity|repeat constructor].
        - destruct (pend st) as [|e es]; [inversion H; subst; apply N2; [reflexivity|repeat constructor]|].
          destruct (process_loop lp byref cci mix2 behav rec (set_pend st []) (e :: es)) as [[st1 t1]|] eqn:E; [|discriminate].
          inversion H; subst. apply (PLR _ _ _ _ E).
        - destruct (pend st) as [|e es]; [inversion H; subst; apply N2; [reflexivity|repeat constructor]|].
          destruct (process_loop lp byref cci mix2 behav rec (set_pend st es) [e]) as [[st1 t1]|] eqn:E; [|discriminate].
          inversion H; subst. apply (PLR _ _ _ _ E). }
      induction cs as [|c r IH]; intros st st' t H; simpl in H; [inversion H; subst; apply N|].
      destruct (f_step lp byref cci mix2 behav rec st c) as [[st1 t1]|] eqn:E1; [|discriminate].
      destruct (f_seq lp byref cci mix2 behav rec st1 r) as [[st2 t2]|] eqn:E2; [|discriminate].
      inversion H; subst. destruct (Step _ _ _ _ E1) as [A1 B1]. destruct (IH _ _ _ E2) as [A2 B2].
      split; [lia|]. apply (Good_app _ (nextd st1)); assumption.
    Qed.
  End GoodLoops.

  Theorem run_good : forall fuel, RecGood (f_run lp byref cci mix2 behav fuel).
  Proof.
    induction fuel as [|f IH]; intros st cs st' t H; simpl in H; [discriminate|]. apply (seq_good _ IH _ _ _ _ H).
  Qed.

  (* ----- a removed filter never runs again ----- *)

  Definition wf (st : fstate) : Prop := forall h, has_l h (flt st) = true -> h < nexth st.
  (* the id was handed out and is not in the filter list *)
  Definition absent (st : fstate) (h : nat) : Prop := has_l h (flt st) = false /\ h < nexth st.

  Definition Safe (st : fstate) (t : list fev) (st' : fstate) : Prop :=
    wf st ->
    wf st' /\ nexth st <= nexth st'
    /\ (forall h, absent st h -> absent st' h /\ norun h t)
    /\ (forall h, In (EFRemoved h) t -> absent st' h)
    /\ (forall t1 h t2, t = t1 ++ EFRemoved h :: t2 -> norun h t2).

  Lemma norun_app h t1 t2 : norun h t1 -> norun h t2 -> norun h (t1 ++ t2).
  Proof. intros A B d c v H. apply in_app_or in H. destruct H as [H|H]; [apply (A _ _ _ H)|apply (B _ _ _ H)]. Qed.

  Lemma Safe_app st t1 st1 t2 st2 : Safe st t1 st1 -> Safe st1 t2 st2 -> Safe st (t1 ++ t2) st2.
  Proof.
    intros S1 S2 W. destruct (S1 W) as [W1 [N1 [A1 [R1 P1]]]]. destruct (S2 W1) as [W2 [N2 [A2 [R2 P2]]]].
    split; [exact W2|]. split; [lia|]. split; [|split].
    - intros h Hh. destruct (A1 h Hh) as [X1 Y1]. destruct (A2 h X1) as [X2 Y2]. split; [exact X2|apply norun_app; assumption].
    - intros h Hh. apply in_app_or in Hh. destruct Hh as [Hh|Hh]; [apply (A2 h (R1 h Hh))|apply (R2 h Hh)].
    - intros a h b E. apply app_eq_app in E. destruct E as [l [[E1 E2]|[E1 E2]]].
      + destruct l as [|x l].
        * rewrite app_nil_l in E2. apply (P2 [] h b). rewrite <- E2. reflexivity.
        * simpl in E2. inversion E2; subst. apply norun_app; [apply (P1 a h l eq_refl)|].
          apply (A2 h). apply R1. apply in_or_app. right. left. reflexivity.
      + apply (P2 l h b E2).
  Qed.

  Lemma Safe_same st t st' :
    flt st' = flt st -> nexth st <= nexth st' ->
    (forall e, In e t -> (forall h, e <> EFRemoved h) /\ (forall d h c v, e = EFilter d h c v -> has_l h (flt st) = true)) ->
    Safe st t st'.
  Proof.
    intros F N H W. split; [|split; [exact N|split; [|split]]].
    - intros h Hh. rewrite F in Hh. specialize (W h Hh). lia.
    - intros h [A B]. split; [split; [rewrite F; exact A|lia]|].
      intros d c v Hi. destruct (H _ Hi) as [_ X]. rewrite (X d h c v eq_refl) in A. discriminate.
    - intros h Hi. exfalso. destruct (H _ Hi) as [X _]. apply (X h). reflexivity.
    - intros t1 h t2 E. exfalso. destruct (H (EFRemoved h)) as [X _]; [rewrite E; apply in_or_app; right; left; reflexivity|].
      apply (X h). reflexivity.
  Qed.

  Lemma Safe_quiet st e st' :
    flt st' = flt st -> nexth st <= nexth st' ->
    match e with EFRemoved _ | EFilter _ _ _ _ => False | _ => True end -> Safe st [e] st'.
  Proof.
    intros F N H. apply Safe_same; [exact F|exact N|]. intros x [Hx|[]]. subst x.
    split; [intros h E; subst e; exact H|intros d h c v E; subst e; destruct H].
  Qed.

  Lemma Safe_nil st st' : flt st' = flt st -> nexth st <= nexth st' -> Safe st [] st'.
  Proof. intros F N. apply Safe_same; [exact F|exact N|intros e []]. Qed.

  Lemma has_l_app h l1 l2 : has_l h (l1 ++ l2) = has_l h l1 || has_l h l2.
  Proof. induction l1 as [|[x c] l1 IH]; simpl; [reflexivity|]. rewrite IH. apply orb_assoc. Qed.

  Lemma has_l_del_self h l : has_l h (del_l h l) = false.
  Proof.
    induction l as [|[x c] l IH]; simpl; [reflexivity|]. destruct (Nat.eqb h x) eqn:E; [exact IH|].
    simpl. rewrite E, IH. reflexivity.
  Qed.

  Lemma has_l_del h id l : has_l h (del_l id l) = true -> has_l h l = true.
  Proof.
    induction l as [|[x c] l IH]; simpl; [trivial|]. destruct (Nat.eqb id x).
    - intros H. rewrite (IH H). apply orb_true_r.
    - simpl. intros H. apply orb_true_iff in H. destruct H as [H|H]; [rewrite H; reflexivity|rewrite (IH H); apply orb_true_r].
  Qed.

  Definition RecSafe (rec : fstate -> list fcmd -> option (fstate * list fev)) : Prop :=
    forall st cs st' t, rec st cs = Some (st', t) -> Safe st t st'.

  Section SafeLoops.
    Variable rec : fstate -> list fcmd -> option (fstate * list fev).
    Hypothesis HS : RecSafe rec.

    Lemma run_filters_safe d orig : forall todo st cell st' cell' ok t,
      run_filters lp behav rec st d todo orig cell = Some (st', cell', ok, t) -> Safe st t st'.
    Proof.
      induction todo as [|[h c] rest IH]; intros st cell st' cell' ok t H.
      - simpl in H. inversion H; subst. apply Safe_nil; [reflexivity|lia].
      - rewrite rf_cons in H. destruct (has_l h (flt st)) eqn:Eh; [|apply (IH _ _ _ _ _ _ H)].
        cbv zeta in H.
        destruct (rec (activate st c) (body_of c (act_of (acts (activate st c)) c))) as [[st2 t1]|] eqn:Er; [|discriminate].
        set (n := act_of (acts (activate st c)) c) in *.
        assert (Spre : forall b v', Safe st (EFilter d h c cell :: t1 ++ [EVerdict d h b v']) st2).
        { intros b v'. change (EFilter d h c cell :: t1 ++ [EVerdict d h b v']) with ([EFilter d h c cell] ++ t1 ++ [EVerdict d h b v']).
          apply (Safe_app st _ (activate st c)).
          - apply Safe_same; [reflexivity|simpl; lia|]. intros e [He|[]]. subst e.
            split; [intros ? X; discriminate|intros ? ? ? ? X; inversion X; subst; exact Eh].
          - apply (Safe_app _ _ st2); [apply (HS _ _ _ _ Er)|apply Safe_quiet; [reflexivity|lia|exact I]]. }
        destruct (verdict_of c n).
        + destruct (run_filters lp behav rec st2 d rest orig (rewritten (write_of c n) cell)) as [[[[st3 cell3] ok3] t2]|] eqn:E2; [|discriminate].
          inversion H; subst.
          change (EFilter d h c cell :: (t1 ++ [EVerdict d h true (rewritten (write_of c n) cell)]) ++ t2)
            with ((EFilter d h c cell :: t1 ++ [EVerdict d h true (rewritten (write_of c n) cell)]) ++ t2).
          apply (Safe_app _ _ st2); [apply Spre|apply (IH _ _ _ _ _ _ E2)].
        + inversion H; subst. apply Spre.
    Qed.

    Lemma run_listeners_safe d k : forall todo st cell st' t,
      run_listeners lp byref cci behav rec st d k todo cell = Some (st', t) -> Safe st t st'.
    Proof.
      induction todo as [|[h c] rest IH]; intros st cell st' t H.
      - simpl in H. inversion H; subst. apply Safe_nil; [reflexivity|lia].
      - rewrite rl_cons in H. destruct (has_l h (lst_of st k)); [|apply (IH _ _ _ _ H)].
        cbv zeta in H.
        destruct (rec (activate st c) (body_of c (act_of (acts (activate st c)) c))) as [[st2 t1]|] eqn:Er; [|discriminate].
        set (n := act_of (acts (activate st c)) c) in *.
        set (cell1 := if byref then rewritten (write_of c n) cell else cell) in *.
        assert (Spre : forall b, Safe st (EListener d h c k cell :: t1 ++ [ECci d cell1 b]) st2).
        { intros b. change (EListener d h c k cell :: t1 ++ [ECci d cell1 b]) with ([EListener d h c k cell] ++ t1 ++ [ECci d cell1 b]).
          apply (Safe_app st _ (activate st c)); [apply Safe_quiet; [reflexivity|simpl; lia|exact I]|].
          apply (Safe_app _ _ st2); [apply (HS _ _ _ _ Er)|apply Safe_quiet; [reflexivity|lia|exact I]]. }
        destruct (cci cell1).
        + destruct (run_listeners lp byref cci behav rec st2 d k rest cell1) as [[st3 t2]|] eqn:E2; [|discriminate].
          inversion H; subst.
          change (EListener d h c k cell :: (t1 ++ [ECci d cell1 true]) ++ t2)
            with ((EListener d h c k cell :: t1 ++ [ECci d cell1 true]) ++ t2).
          apply (Safe_app _ _ st2); [apply Spre|apply (IH _ _ _ _ E2)].
        + inversion H; subst. apply Spre.
    Qed.

    Lemma dispatch_safe st k a st' t :
      dispatch lp byref cci mix2 behav rec st k a = Some (st', t) -> Safe st t st'.
    Proof.
      rewrite dg_eq. cbv zeta. intros H.
      destruct (run_filters lp behav rec (bump_d st) (nextd st) (flt (bump_d st)) a a) as [[[[st1 cell1] ok] t1]|] eqn:Ef; [|discriminate].
      assert (S1 := run_filters_safe _ _ _ _ _ _ _ _ _ Ef).
      set (d := nextd st) in *.
      assert (SB : Safe st [EBegin d k a] (bump_d st)) by (apply Safe_quiet; [reflexivity|simpl; lia|exact I]).
      assert (Pre : forall x stx, Safe st1 x stx -> Safe st (EBegin d k a :: t1 ++ x) stx).
      { intros x stx Sx. change (EBegin d k a :: t1 ++ x) with ([EBegin d k a] ++ t1 ++ x).
        apply (Safe_app _ _ (bump_d st)); [exact SB|]. apply (Safe_app _ _ st1); [exact S1|exact Sx]. }
      destruct ok.
      - destruct mix2 as [m|].
        + destruct (m cell1).
          * destruct (run_listeners lp byref cci behav rec st1 d k (lst_of st1 k) cell1) as [[st2 t3]|] eqn:El; [|discriminate].
            inversion H; subst st' t. apply Pre. change (EMixin d cell1 true :: t3) with ([EMixin d cell1 true] ++ t3).
            apply (Safe_app _ _ st1); [apply Safe_quiet; [reflexivity|lia|exact I]|apply (run_listeners_safe _ _ _ _ _ _ _ El)].
          * inversion H; subst st' t. apply Pre. apply Safe_quiet; [reflexivity|lia|exact I].
        + destruct (run_listeners lp byref cci behav rec st1 d k (lst_of st1 k) cell1) as [[st2 t3]|] eqn:El; [|discriminate].
          inversion H; subst st' t. apply Pre. apply (run_listeners_safe _ _ _ _ _ _ _ El).
      - inversion H; subst st' t. rewrite <- (app_nil_r t1). apply Pre. apply Safe_nil; [reflexivity|lia].
    Qed.

    Lemma seq_safe : forall cs st st' t,
      f_seq lp byref cci mix2 behav rec st cs = Some (st', t) -> Safe st t st'.
    Proof.
      assert (Seq : forall cs st st' t, (forall c, In c cs -> exists k a, c = FDispatch k a) ->
                f_seq lp byref cci mix2 behav rec st cs = Some (st', t) -> Safe st t st').
      { induction cs as [|c r IH]; intros st st' t Hc H; simpl in H; [inversion H; subst; apply Safe_nil; [reflexivity|lia]|].
        destruct (Hc c (or_introl eq_refl)) as [k [a Ec]]. subst c. simpl in H.
        destruct (dispatch lp byref cci mix2 behav rec st k a) as [[st1 t1]|] eqn:E1; [|discriminate].
        destruct (f_seq lp byref cci mix2 behav rec st1 r) as [[st2 t2]|] eqn:E2; [|discriminate].
        inversion H; subst. apply (Safe_app _ _ st1); [apply (dispatch_safe _ _ _ _ _ E1)|].
        apply (IH _ _ _ (fun c Hc' => Hc c (or_intror Hc')) E2). }
      assert (PLR : forall st evs st' t, process_loop lp byref cci mix2 behav rec st evs = Some (st', t) ->
                Safe st (t ++ [ERet true]) st').
      { intros st evs st' t H. rewrite pl_eq in H. apply (Safe_app _ _ st'); [|apply Safe_quiet; [reflexivity|lia|exact I]].
        refine (Seq _ _ _ _ _ H). intros c Hc. apply in_map_iff in Hc. destruct Hc as [[k a] [E _]]. exists k, a. symmetry. exact E. }
      assert (Step : forall st c st' t, f_step lp byref cci mix2 behav rec st c = Some (st', t) -> Safe st t st').
      { intros st c st' t H. destruct c; unfold f_step in H.
        - (* addFilter *) inversion H; subst. clear H. intros W. unfold wf, absent in *. simpl. split; [|split; [lia|split; [|split]]].
          + intros h0 Hh. rewrite has_l_app in Hh. apply orb_true_iff in Hh. destruct Hh as [Hh|Hh]; [specialize (W h0 Hh); lia|].
            simpl in Hh. rewrite orb_false_r in Hh. apply Nat.eqb_eq in Hh. lia.
          + intros h0 [A B]. split; [|intros ? ? ? []]. split; [|simpl; lia]. simpl. rewrite has_l_app, A. simpl.
            rewrite orb_false_r. apply Nat.eqb_neq. lia.
          + intros h0 [].
          + intros t1 h0 t2 E. destruct t1; discriminate.
        - (* removeFilter *)
          destruct (alookup h (fregs st)) as [id|]; [|inversion H; subst; apply Safe_quiet; [reflexivity|lia|exact I]].
          destruct (has_l id (flt st)) eqn:Eh; inversion H; subst; [|apply Safe_quiet; [reflexivity|lia|exact I]].
          clear H. intros W. unfold wf, absent in *. simpl. split; [|split; [lia|split; [|split]]].
          + intros h0 Hh. apply W. apply (has_l_del _ _ _ Hh).
          + intros h0 [A B]. split.
            * split; [|simpl; exact B]. simpl. destruct (has_l h0 (del_l id (flt st))) eqn:X; [|reflexivity].
              rewrite (has_l_del _ _ _ X) in A. discriminate.
            * intros d c v [X|[X|[]]]; discriminate.
          + intros h0 [X|[X|[]]]; [|discriminate]. inversion X; subst. split; [simpl; apply has_l_del_self|simpl; apply (W _ Eh)].
          + intros t1 h0 t2 E d c v Hi. destruct t1 as [|x t1]; [inversion E; subst; destruct Hi as [X|[]]; discriminate|].
            inversion E. destruct t1 as [|y t1]; [discriminate|]. inversion H1. destruct t1; discriminate.
        - inversion H; subst. apply Safe_nil; [reflexivity|simpl; lia].
        - inversion H; subst. apply Safe_nil; [reflexivity|simpl; lia].
        - destruct (alookup h (hregs st)) as [[k' b]|]; [|inversion H; subst; apply Safe_quiet; [reflexivity|lia|exact I]].
          destruct (Nat.eqb k' k); [|discriminate].
          destruct (has_l b (lst_of st k)); inversion H; subst; apply Safe_quiet; try reflexivity; try exact I; simpl; lia.
        - apply (dispatch_safe _ _ _ _ _ H).
        - inversion H; subst. apply Safe_nil; [reflexivity|simpl; lia].
        - destruct (pend st) as [|e es]; [inversion H; subst; apply Safe_quiet; [reflexivity|lia|exact I]|].
          destruct (process_loop lp byref cci mix2 behav rec (set_pend st []) (e :: es)) as [[st1 t1]|] eqn:E; [|discriminate].
          inversion H; subst. rewrite <- (app_nil_l (t1 ++ [ERet true])).
          apply (Safe_app _ _ (set_pend st [])); [apply Safe_nil; [reflexivity|simpl; lia]|apply (PLR _ _ _ _ E)].
        - destruct (pend st) as [|e es]; [inversion H; subst; apply Safe_quiet; [reflexivity|lia|exact I]|].
          destruct (process_loop lp byref cci mix2 behav rec (set_pend st es) [e]) as [[st1 t1]|] eqn:E; [|discriminate].
          inversion H; subst. rewrite <- (app_nil_l (t1 ++ [ERet true])).
          apply (Safe_app _ _ (set_pend st es)); [apply Safe_nil; [reflexivity|simpl; lia]|apply (PLR _ _ _ _ E)]. }
      induction cs as [|c r IH]; intros st st' t H; simpl in H; [inversion H; subst; apply Safe_nil; [reflexivity|lia]|].
      destruct (f_step lp byref cci mix2 behav rec st c) as [[st1 t1]|] eqn:E1; [|discriminate].
      destruct (f_seq lp byref cci mix2 behav rec st1 r) as [[st2 t2]|] eqn:E2; [|discriminate].
      inversion H; subst. apply (Safe_app _ _ st1); [apply (Step _ _ _ _ E1)|apply (IH _ _ _ E2)].
    Qed.
  End SafeLoops.

  Theorem run_safe : forall fuel, RecSafe (f_run lp byref cci mix2 behav fuel).
  Proof.
    induction fuel as [|f IH]; intros st cs st' t H; simpl in H; [discriminate|]. apply (seq_safe _ IH _ _ _ _ H).
  Qed.

  (* ----- which filters and listeners run, when they do not re-enter ----- *)

  Definition quiet (l : list (nat * nat)) : Prop := forall h c n, In (h, c) l -> body_of c n = [].

  Lemma has_l_in h c l : In (h, c) l -> has_l h l = true.
  Proof.
    induction l as [|[x y] l IH]; intros H; [destruct H|]. simpl. destruct H as [H|H].
    - inversion H; subst. rewrite Nat.eqb_refl. reflexivity.
    - rewrite (IH H). apply orb_true_r.
  Qed.

  Section Exact.
    Variable rec : fstate -> list fcmd -> option (fstate * list fev).
    Hypothesis rec_nil : forall st, rec st [] = Some (st, []).

    Lemma run_filters_exact d orig : forall todo pre st cell st' cell' ok t,
      flt st = pre ++ todo -> quiet todo ->
      run_filters lp behav rec st d todo orig cell = Some (st', cell', ok, t) ->
      flt st' = flt st /\ lsts st' = lsts st
      /\ exists j, filter_ids t = firstn j todo /\ (ok = true -> j = length todo)
                   /\ filter_phase d cell t (if ok then Some cell' else None).
    Proof.
      induction todo as [|[h c] rest IH]; intros pre st cell st' cell' ok t F Q H.
      - simpl in H. inversion H; subst. split; [reflexivity|]. split; [reflexivity|].
        exists 0. split; [reflexivity|]. split; [reflexivity|]. constructor.
      - rewrite rf_cons in H.
        assert (Eh : has_l h (flt st) = true) by (rewrite F; apply (has_l_in h c); apply in_or_app; right; left; reflexivity).
        rewrite Eh in H. cbv zeta in H. rewrite (Q h c _ (or_introl eq_refl)), rec_nil in H.
        set (n := act_of (acts (activate st c)) c) in *. simpl app in H.
        destruct (verdict_of c n).
        + destruct (run_filters lp behav rec (activate st c) d rest orig (rewritten (write_of c n) cell)) as [[[[st3 cell3] ok3] t2]|] eqn:E2; [|discriminate].
          inversion H; subst.
          assert (F2 : flt (activate st c) = (pre ++ [(h, c)]) ++ rest) by (rewrite <- app_assoc; exact F).
          destruct (IH (pre ++ [(h, c)]) (activate st c) _ _ _ _ _ F2 (fun h' c' n' Hi => Q h' c' n' (or_intror Hi)) E2)
            as [A [B [j [J1 [J2 J3]]]]].
          split; [exact A|]. split; [exact B|]. exists (S j). split; [simpl; rewrite J1; reflexivity|].
          split; [intros X; rewrite (J2 X); reflexivity|]. apply fp_pass. exact J3.
        + inversion H; subst. split; [reflexivity|]. split; [reflexivity|]. exists 1.
          split; [reflexivity|]. split; [discriminate|]. apply fp_block.
    Qed.

    Lemma run_listeners_exact d k : forall todo pre st cell st' t,
      lst_of st k = pre ++ todo -> quiet todo ->
      run_listeners lp byref cci behav rec st d k todo cell = Some (st', t) ->
      exists i s, listener_ids t = firstn i todo /\ listener_phase d k cell t s /\ (s = false -> i = length todo).
    Proof.
      induction todo as [|[h c] rest IH]; intros pre st cell st' t F Q H.
      - simpl in H. inversion H; subst. exists 0, false. split; [reflexivity|]. split; [constructor|reflexivity].
      - rewrite rl_cons in H.
        assert (Eh : has_l h (lst_of st k) = true) by (rewrite F; apply (has_l_in h c); apply in_or_app; right; left; reflexivity).
        rewrite Eh in H. cbv zeta in H. rewrite (Q h c _ (or_introl eq_refl)), rec_nil in H.
        set (n := act_of (acts (activate st c)) c) in *.
        set (cell1 := if byref then rewritten (write_of c n) cell else cell) in *.
        assert (BV : byref = false -> cell1 = cell) by (intros X; unfold cell1; rewrite X; reflexivity).
        simpl app in H. destruct (cci cell1) eqn:Ec.
        + destruct (run_listeners lp byref cci behav rec (activate st c) d k rest cell1) as [[st3 t2]|] eqn:E2; [|discriminate].
          inversion H; subst.
          assert (F2 : lst_of (activate st c) k = (pre ++ [(h, c)]) ++ rest) by (rewrite <- app_assoc; exact F).
          destruct (IH (pre ++ [(h, c)]) (activate st c) _ _ _ F2 (fun h' c' n' Hi => Q h' c' n' (or_intror Hi)) E2)
            as [i [s [J1 [J2 J3]]]].
          exists (S i), s. split; [simpl; rewrite J1; reflexivity|]. split; [apply lph_go; assumption|].
          intros X. rewrite (J3 X). reflexivity.
        + inversion H; subst. exists 1, true. split; [reflexivity|]. split; [apply lph_stop; assumption|discriminate].
    Qed.

    (* one dispatch whose filters and listeners run no commands: exactly the filters of the list, in
       addition order, up to and including the first false; then - iff none was false and the second
       mixin agrees - exactly the listeners of the key, in order, up to and including the first one
       after which the policy says stop *)
    Definition exact_listeners (st : fstate) (d k : nat) (v : Z) (tl : list fev) : Prop :=
      exists i s, listener_phase d k v tl s /\ listener_ids tl = firstn i (lst_of st k)
                  /\ (s = false -> i = length (lst_of st k)).

    Theorem dispatch_exact st k a st' T :
      quiet (flt st) -> quiet (lst_of st k) ->
      dispatch lp byref cci mix2 behav rec st k a = Some (st', T) ->
      let d := nextd st in
      exists j tf r, filter_phase d a tf r /\ filter_ids tf = firstn j (flt st) /\
        match r with
        | None => T = EBegin d k a :: tf
        | Some v =>
            j = length (flt st) /\
            match mix2 with
            | Some m =>
                if m v then exists tl, exact_listeners st d k v tl /\ T = EBegin d k a :: tf ++ EMixin d v true :: tl
                else T = EBegin d k a :: tf ++ [EMixin d v false]
            | None => exists tl, exact_listeners st d k v tl /\ T = EBegin d k a :: tf ++ tl
            end
        end.
    Proof.
      intros QF QL. rewrite dg_eq. cbv zeta. intros H.
      destruct (run_filters lp behav rec (bump_d st) (nextd st) (flt (bump_d st)) a a) as [[[[st1 cell1] ok] t1]|] eqn:Ef; [|discriminate].
      destruct (run_filters_exact (nextd st) a (flt st) [] (bump_d st) a st1 cell1 ok t1 eq_refl QF Ef) as [A [B [j [J1 [J2 J3]]]]].
      change (flt (bump_d st)) with (flt st) in *. change (lsts (bump_d st)) with (lsts st) in B.
      assert (L1 : lst_of st1 k = lst_of st k) by (unfold lst_of; rewrite B; reflexivity).
      exists j, t1, (if ok then Some cell1 else None). split; [exact J3|]. split; [exact J1|].
      assert (EL : forall st2 t3, run_listeners lp byref cci behav rec st1 (nextd st) k (lst_of st1 k) cell1 = Some (st2, t3) ->
                   exact_listeners st (nextd st) k cell1 t3).
      { intros st2 t3 El.
        destruct (run_listeners_exact (nextd st) k (lst_of st1 k) [] st1 cell1 st2 t3 eq_refl ltac:(rewrite L1; exact QL) El) as [i [s [I1 [I2 I3]]]].
        exists i, s. rewrite <- L1. split; [exact I2|]. split; [exact I1|exact I3]. }
      destruct ok.
      - split; [apply J2; reflexivity|]. destruct mix2 as [m|].
        + destruct (m cell1).
          * destruct (run_listeners lp byref cci behav rec st1 (nextd st) k (lst_of st1 k) cell1) as [[st2 t3]|] eqn:El; [|discriminate].
            inversion H; subst. exists t3. split; [apply (EL _ _ eq_refl)|reflexivity].
          * inversion H; subst. reflexivity.
        + destruct (run_listeners lp byref cci behav rec st1 (nextd st) k (lst_of st1 k) cell1) as [[st2 t3]|] eqn:El; [|discriminate].
          inversion H; subst. exists t3. split; [apply (EL _ _ eq_refl)|reflexivity].
      - inversion H; subst. reflexivity.
    Qed.
  End Exact.

  (* ----- queued = direct ----- *)

  Theorem process_is_dispatch rec st e es :
    pend st = e :: es ->
    f_step lp byref cci mix2 behav rec st FProcess =
    match f_seq lp byref cci mix2 behav rec (set_pend st []) (map (fun x => FDispatch (fst x) (snd x)) (e :: es)) with
    | Some (st', t) => Some (st', t ++ [ERet true])
    | None => None
    end.
  Proof. intros E. unfold f_step. rewrite E, pl_eq. reflexivity. Qed.

  Theorem process_one_is_dispatch rec st e es :
    pend st = e :: es ->
    f_step lp byref cci mix2 behav rec st FProcessOne =
    match f_seq lp byref cci mix2 behav rec (set_pend st es) [FDispatch (fst e) (snd e)] with
    | Some (st', t) => Some (st', t ++ [ERet true])
    | None => None
    end.
  Proof. intros E. unfold f_step. rewrite E, pl_eq. reflexivity. Qed.

  Theorem enqueue_process_is_dispatch rec st k a :
    pend st = [] ->
    f_seq lp byref cci mix2 behav rec st [FEnqueue k a; FProcess] =
    match f_seq lp byref cci mix2 behav rec st [FDispatch k a] with
    | Some (st', t) => Some (st', t ++ [ERet true])
    | None => None
    end.
  Proof.
    intros E. destruct st as [fl ls nh fr hr pe ac nd]. simpl in E. subst pe.
    cbn [f_seq f_step pend set_pend app process_loop flt lsts nexth fregs hregs acts nextd].
    unfold dispatch. rewrite (ok_queue lp LP). unfold set_pend. cbn [flt lsts nexth fregs hregs acts nextd pend].
    match goal with |- context [dispatch_gen ?x1 ?x2 ?x3 ?x4 ?x5 ?x6 true ?s k a] => destruct (dispatch_gen x1 x2 x3 x4 x5 x6 true s k a) as [[st1 t1]|] end; [|reflexivity].
    rewrite !app_nil_r. reflexivity.
  Qed.

  (* ----- whole programs ----- *)

  Lemma own_split d t1 e t2 : tag e = Some d -> own d (t1 ++ e :: t2) = own d t1 ++ e :: own d t2.
  Proof. intros H. rewrite own_app. simpl. unfold tagged. rewrite H, Nat.eqb_refl. reflexivity. Qed.

  Theorem every_dispatch_shaped fuel prog st' T :
    f_run lp byref cci mix2 behav fuel f_init prog = Some (st', T) ->
    (forall d, d < nextd st' -> exists k a, dispatch_own d k a (own d T))
    /\ (forall d, nextd st' <= d -> own d T = []).
  Proof.
    intros H. destruct (run_good fuel _ _ _ _ H) as [_ [F G]]. simpl in F, G. split.
    - intros d Hd. apply G. lia.
    - intros d Hd. apply (own_out 0 (nextd st')); [exact F|lia].
  Qed.

  Lemma last_of_own fuel prog st' T d (P : fev -> Prop) T1 e T2 :
    f_run lp byref cci mix2 behav fuel f_init prog = Some (st', T) ->
    (forall k a o, dispatch_own d k a o -> only_last P o) ->
    T = T1 ++ e :: T2 -> tag e = Some d -> P e ->
    forall x, In x T2 -> tag x <> Some d.
  Proof.
    intros H HP E Te Pe x Hx Tx. destruct (every_dispatch_shaped _ _ _ _ H) as [A B].
    assert (O : own d T = own d T1 ++ e :: own d T2) by (rewrite E; apply own_split; exact Te).
    destruct (Nat.lt_ge_cases d (nextd st')) as [C|C].
    - destruct (A d C) as [k [a Ho]]. assert (Z0 := HP k a _ Ho _ _ _ O Pe).
      assert (In x (own d T2)) by (apply own_in; split; assumption). rewrite Z0 in H0. destruct H0.
    - rewrite (B d C) in O. destruct (own d T1); discriminate.
  Qed.

  Theorem blocked_runs_no_listener fuel prog st' T T1 d h v T2 :
    f_run lp byref cci mix2 behav fuel f_init prog = Some (st', T) ->
    T = T1 ++ EVerdict d h false v :: T2 ->
    (forall x, In x T2 -> tag x <> Some d)
    /\ (forall h' c k v', ~ In (EListener d h' c k v') T).
  Proof.
    intros H E. split.
    - apply (last_of_own fuel prog st' T d (is_false_verdict d) T1 (EVerdict d h false v) T2 H); [|exact E|reflexivity|exists h, v; reflexivity].
      intros k a o Ho. apply (dispatch_own_facts _ _ _ _ _ _ _ Ho).
    - intros h' c k v' Hi. destruct (every_dispatch_shaped _ _ _ _ H) as [A B].
      assert (I1 : In (EVerdict d h false v) (own d T)).
      { apply own_in. split; [rewrite E; apply in_or_app; right; left; reflexivity|reflexivity]. }
      assert (I2 : In (EListener d h' c k v') (own d T)) by (apply own_in; split; [exact Hi|reflexivity]).
      destruct (Nat.lt_ge_cases d (nextd st')) as [C|C]; [|rewrite (B d C) in I1; destruct I1].
      destruct (A d C) as [k0 [a Ho]]. destruct (dispatch_own_facts _ _ _ _ _ _ _ Ho) as [_ [X _]].
      apply (X (ex_intro _ _ (conj I1 (ex_intro _ h (ex_intro _ v eq_refl)))) _ I2). exists h', c, k, v'. reflexivity.
  Qed.

  Theorem cci_gate fuel prog st' T :
    f_run lp byref cci mix2 behav fuel f_init prog = Some (st', T) ->
    (forall T1 d v T2, T = T1 ++ ECci d v false :: T2 -> forall x, In x T2 -> tag x <> Some d)
    /\ (forall d v b, In (ECci d v b) T -> b = cci v).
  Proof.
    intros H. split.
    - intros T1 d v T2 E. apply (last_of_own fuel prog st' T d (is_false_cci d) T1 (ECci d v false) T2 H); [|exact E|reflexivity|exists v; reflexivity].
      intros k a o Ho. apply (dispatch_own_facts _ _ _ _ _ _ _ Ho).
    - intros d v b Hi. destruct (every_dispatch_shaped _ _ _ _ H) as [A B].
      assert (I1 : In (ECci d v b) (own d T)) by (apply own_in; split; [exact Hi|reflexivity]).
      destruct (Nat.lt_ge_cases d (nextd st')) as [C|C]; [|rewrite (B d C) in I1; destruct I1].
      destruct (A d C) as [k0 [a Ho]]. destruct (dispatch_own_facts _ _ _ _ _ _ _ Ho) as [_ [_ [_ X]]]. apply (X _ _ I1).
  Qed.

  Theorem removed_filter_never_runs fuel prog st' T T1 h T2 :
    f_run lp byref cci mix2 behav fuel f_init prog = Some (st', T) ->
    T = T1 ++ EFRemoved h :: T2 -> norun h T2.
  Proof.
    intros H E. assert (W : wf f_init) by (intros x Hx; discriminate).
    destruct (run_safe fuel _ _ _ _ H W) as [_ [_ [_ [_ P]]]]. apply (P T1 h T2 E).
  Qed.
End Runs.

(* ---------- the two wrappers ---------- *)

Section WrapperProofs.
  Variables A B : Type.

  Theorem cond_functor_iff (cond : A -> bool) (a a' : A) :
    cond_functor A cond a = Some a' <-> cond a = true /\ a' = a.
  Proof.
    unfold cond_functor, GenFilter.cond_functor_runs. destruct (cond a); split.
    - intros H. inversion H. split; reflexivity.
    - intros [_ E]. subst. reflexivity.
    - discriminate.
    - intros [E _]. discriminate.
  Qed.

  Theorem arg_adapter_values (conv : A -> B) (args : list A) :
    exists out, arg_adapter A B conv args = Some out /\ length out = length args
                /\ forall i a, nth_error args i = Some a -> nth_error out i = Some (conv a).
  Proof.
    unfold arg_adapter, GenFilter.adapter_casts_each. exists (map conv args).
    split; [reflexivity|]. split; [apply map_length|]. intros i a H. apply map_nth_error. exact H.
  Qed.
End WrapperProofs.
