(* QConcFuel.v — the fuel of QConc.advance (ADV_FUEL) is never exhausted: every running thread is always stopped in
   front of a visible action.  This discharges the side condition of the wake-up theorems (QConcWake.stopped_along). *)
From Coq Require Import List Arith NArith ZArith Bool Lia.
From EV Require Import QConc QConcInv QConcWake.
From EV.gen Require GenQ GenQConc.
Import ListNotations.
Local Open Scope nat_scope.

(* worst-case number of iterations of `advance` from the head of a code list to the next visible action,
   k = what the code that follows the list costs *)
Fixpoint run_i (i : instr) (k : nat) {struct i} : nat :=
  match i with
  | ILocal _ _ | IRes | IDone => S k
  | IIf _ _ a b =>
      S (Nat.max ((fix rl (l : list instr) (k : nat) {struct l} : nat := match l with [] => k | j :: r => run_i j (rl r k) end) a k)
                 ((fix rl (l : list instr) (k : nat) {struct l} : nat := match l with [] => k | j :: r => run_i j (rl r k) end) b k))
  | IWaitLoop _ => 1
  | _ => 0
  end.
Fixpoint run_l (l : list instr) (k : nat) {struct l} : nat := match l with [] => k | j :: r => run_i j (run_l r k) end.

Lemma run_i_if r c a b k : run_i (IIf r c a b) k = S (Nat.max (run_l a k) (run_l b k)).
Proof. reflexivity. Qed.

Lemma run_l_app a : forall r k, run_l (a ++ r) k = run_l a (run_l r k).
Proof. induction a as [|j a IH]; intros r k; cbn [app run_l]; [reflexivity|]. rewrite IH. reflexivity. Qed.

(* the same, from ANY point inside the list (W: what the wait loop costs) *)
Section AL.
Variable W : nat -> nat.
Fixpoint all_i (i : instr) (k : nat) {struct i} : nat :=
  match i with
  | IIf _ _ a b =>
      Nat.max (run_i i k)
        (Nat.max ((fix al (l : list instr) (k : nat) {struct l} : nat := match l with [] => k | j :: r => Nat.max (all_i j (run_l r k)) (al r k) end) a k)
                 ((fix al (l : list instr) (k : nat) {struct l} : nat := match l with [] => k | j :: r => Nat.max (all_i j (run_l r k)) (al r k) end) b k))
  | IWaitLoop _ => Nat.max 1 (W k)
  | _ => run_i i k
  end.
Fixpoint all_l (l : list instr) (k : nat) {struct l} : nat :=
  match l with [] => k | j :: r => Nat.max (all_i j (run_l r k)) (all_l r k) end.

Lemma all_i_if r c a b k : all_i (IIf r c a b) k = Nat.max (run_i (IIf r c a b) k) (Nat.max (all_l a k) (all_l b k)).
Proof. reflexivity. Qed.

Lemma run_i_le_all i k : run_i i k <= all_i i k.
Proof. destruct i; try (rewrite all_i_if; lia); cbn [all_i run_i]; lia. Qed.

Lemma run_le_all l : forall k, run_l l k <= all_l l k.
Proof. induction l as [|j r IH]; intros k; cbn [run_l all_l]; [lia|]. pose proof (run_i_le_all j (run_l r k)). lia. Qed.

Lemma all_l_app a : forall r k, all_l (a ++ r) k <= Nat.max (all_l a (run_l r k)) (all_l r k).
Proof.
  induction a as [|j a IH]; intros r k; cbn [app all_l].
  - pose proof (run_le_all r k). lia.
  - rewrite run_l_app. specialize (IH r k). lia.
Qed.
End AL.

Definition W' (k : nat) : nat := 6 + k.
Definition E : nat := 3.
Definition B : nat := 12.

Lemma call_bound c : run_l (code_of c) E <= 1 /\ all_l W' (code_of c) E <= B.
Proof. destruct c; vm_compute; split; repeat constructor. Qed.

Lemma wait_loop_head timed rest k : run_l (wait_loop timed ++ rest) k = 0.
Proof. reflexivity. Qed.

Lemma wait_loop_all timed k : all_l W' (wait_loop timed) k <= W' k.
Proof.
  unfold wait_loop, eval_can_process, eval_empty, eval_can_notify. cbv beta iota delta [GenQ.empty_queue_reads].
  cbn [app all_l all_i run_l run_i]. unfold W'.
  repeat match goal with
         | |- Nat.max _ _ <= _ => apply Nat.max_lub
         | |- context[S (Nat.max ?a ?b)] => rewrite (Nat.succ_max_distr a b)
         end.
  all: lia.
Qed.

Definition AL (cd : list instr) : nat := all_l W' cd E.

Lemma AL_tail i rest : AL rest <= AL (i :: rest).
Proof. unfold AL. cbn [all_l]. lia. Qed.

Lemma run_tail i rest : run_l rest E <= AL (i :: rest).
Proof. unfold AL. pose proof (run_le_all W' rest E). cbn [all_l]. lia. Qed.

(* with fuel above the worst case of the pending block, advance ends in front of a visible action (or finished),
   and what remains of the code is within the same bound *)
Lemma advance_bounded t fuel : forall sh cd cl l,
  run_l cd E < fuel -> AL cd <= B ->
  stopped (snd (advance fuel t sh (mkTh cd cl l TRun))) /\ AL (code (snd (advance fuel t sh (mkTh cd cl l TRun)))) <= B.
Proof.
  induction fuel as [|f IH]; intros sh cd cl l Hf Hb; [lia|].
  cbn [advance code calls lo]. destruct cd as [|i rest].
  - destruct cl as [|c r].
    + cbn [snd code]. split; [exact I|exact Hb].
    + destruct (call_bound c) as [C1 C2]. apply IH; [|exact C2]. cbn [run_l] in Hf. unfold E in *. lia.
  - pose proof (AL_tail i rest) as T1. 
    destruct i as [m|m|x|x|x| |timed|tt f0|r c u v|timed| | | |rr];
      try (cbn [snd code]; split; [unfold stopped; cbn [status code]; reflexivity|exact Hb]).
    + (* ILocal *) destruct (f0 t sh l) as [sh1 lo1]. apply IH; [cbn [run_l run_i] in Hf; lia|lia].
    + (* IIf *)
      assert (X : run_l ((if c sh l then u else v) ++ rest) E < f /\ AL ((if c sh l then u else v) ++ rest) <= B).
      { cbn [run_l] in Hf. rewrite run_i_if in Hf. rewrite run_l_app.
        unfold AL in *. cbn [all_l] in Hb. rewrite all_i_if in Hb.
        pose proof (all_l_app W' (if c sh l then u else v) rest E) as A.
        destruct (c sh l); split; lia. }
      destruct X as [X1 X2]. apply IH; assumption.
    + (* IWaitLoop *)
      apply IH; [rewrite wait_loop_head; cbn [run_l run_i] in Hf; lia|].
      unfold AL in *. pose proof (all_l_app W' (wait_loop timed) rest E) as A. pose proof (wait_loop_all timed (run_l rest E)) as Wl.
      cbn [all_l all_i] in Hb. lia.
    + (* IRes *) apply IH; [cbn [run_l run_i] in Hf; lia|lia].
    + (* IDone *) apply IH; [cbn [run_l run_i] in Hf; lia|lia].
Qed.

(* ---------- every configuration ---------- *)
Definition Bnd (ths : list thread) : Prop := forall th, In th ths -> AL (code th) <= B.

Lemma finish_s t fuel others th0 sh1 cd1 cl lo1 :
  Stopped others -> Bnd others -> nth_error others t = Some th0 -> run_l cd1 E < fuel -> AL cd1 <= B ->
  Stopped (set_th others t (snd (advance fuel t sh1 (mkTh cd1 cl lo1 TRun)))) /\
  Bnd (set_th others t (snd (advance fuel t sh1 (mkTh cd1 cl lo1 TRun)))).
Proof.
  intros HS HB HN Hf Hb. destruct (advance_bounded t fuel sh1 cd1 cl lo1 Hf Hb) as [A1 A2].
  split; intros x Hx; (destruct (In_set_th _ _ _ _ _ HN Hx) as [->|(u & _ & Nu)]; [assumption|]).
  - apply HS. eapply nth_error_In; eauto.
  - apply HB. eapply nth_error_In; eauto.
Qed.

Lemma notify_others_sub ths : forall x, In x (notify_others ths) -> exists y, In y ths /\ code x = code y /\ (x = y \/ status x = TWoken).
Proof.
  intros x Hx. unfold notify_others in Hx. destruct (first_parked ths 0 is_parked) as [w|]; [|exists x; auto].
  destruct (nth_error ths w) as [wt|] eqn:Nw; [|exists x; auto].
  destruct (In_set_th _ _ _ _ _ Nw Hx) as [->|(u & _ & Nu)].
  - exists wt. split; [eapply nth_error_In; eauto|]. split; [reflexivity|right; reflexivity].
  - exists x. split; [eapply nth_error_In; eauto|auto].
Qed.

Lemma notify_others_ok ths : Stopped ths -> Bnd ths -> Stopped (notify_others ths) /\ Bnd (notify_others ths).
Proof.
  intros HS HB. split; intros x Hx; destruct (notify_others_sub _ _ Hx) as (y & Hy & Ec & [->|St]).
  - apply HS; exact Hy.
  - unfold stopped. rewrite St. exact I.
  - apply HB; exact Hy.
  - rewrite Ec. apply HB; exact Hy.
Qed.

Lemma notify_others_nth ths t th : nth_error ths t = Some th -> status th = TRun -> nth_error (notify_others ths) t = Some th.
Proof.
  intros HN St. unfold notify_others. destruct (first_parked ths 0 is_parked) as [w|] eqn:EP; [|exact HN].
  destruct (first_parked_some _ _ _ _ EP) as (wt & Nw & Pw & _). rewrite Nat.sub_0_r in Nw. rewrite Nw.
  rewrite (nth_set _ _ _ _ _ Nw). destruct (Nat.eqb t w) eqn:E; [|exact HN].
  apply Nat.eqb_eq in E. subst w. rewrite HN in Nw. injection Nw as <-. unfold is_parked in Pw. rewrite St in Pw. discriminate Pw.
Qed.

Lemma B_lt_fuel : B < ADV_FUEL.
Proof. unfold B, ADV_FUEL. repeat constructor. Qed.

Lemma perform_s t cfg :
  Stopped (ths cfg) -> Bnd (ths cfg) -> Stopped (ths (perform t cfg)) /\ Bnd (ths (perform t cfg)).
Proof.
  intros HS HB. unfold perform. pose proof B_lt_fuel as BF. revert BF. generalize ADV_FUEL. intros fuel BF.
  destruct (nth_error (ths cfg) t) as [th|] eqn:HN; [|split; assumption].
  pose proof (HB th (nth_error_In _ _ HN)) as Hb.
  destruct (status th) eqn:St; try (split; assumption).
  - destruct (code th) as [|i rest] eqn:Ec; [split; assumption|].
    pose proof (AL_tail i rest) as T1. pose proof (run_tail i rest) as T2.
    assert (R0 : run_l (i :: rest) E <= AL (i :: rest)) by (unfold AL; apply run_le_all).
    destruct i as [m|m|x|x|x| |timed|tt f|r c u v|timed| | | |rr].
    all: try (destruct m); try (destruct x).
    all: cbv beta iota zeta; cbn [status].
    all: try (rewrite pair_let; cbn [ths]; apply (finish_s t fuel (ths cfg) th); auto; lia).
    all: try (rewrite St; rewrite pair_let; cbn [ths]; destruct th as [cd cl l st]; cbn [code status calls lo] in *; subst cd st;
              apply (finish_s t fuel (ths cfg) _ _ _ _ _ HS HB HN); lia).
    + (* INotify *)
      rewrite pair_let; cbn [ths]. destruct (notify_others_ok _ HS HB) as [S1 B1].
      apply (finish_s t fuel (notify_others (ths cfg)) th _ _ _ _ S1 B1 (notify_others_nth _ _ _ HN St)); lia.
    + (* ICvWait *)
      cbn [ths]. split; intros y Hy; (destruct (In_set_th _ _ _ _ _ HN Hy) as [->|(w & _ & Nw)]).
      * unfold stopped. cbn [status]. exact I.
      * apply HS. eapply nth_error_In; eauto.
      * cbn [code]. lia.
      * apply HB. eapply nth_error_In; eauto.
  - (* TWoken *)
    rewrite pair_let; cbn [ths]. apply (finish_s t fuel (ths cfg) th _ _ _ _ HS HB HN); [|exact Hb].
    pose proof (run_le_all W' (code th) E). unfold AL in Hb. lia.
Qed.

Lemma sched_step0_s cfg cfg' : Stopped (ths cfg) -> Bnd (ths cfg) -> sched_step0 cfg = Some cfg' -> Stopped (ths cfg') /\ Bnd (ths cfg').
Proof.
  intros HS HB. unfold sched_step0. destruct (dead cfg); [discriminate|].
  destruct (next_from_schedule cfg (sched cfg)) as [pick rest].
  set (cfg1 := mkCfg (shs cfg) (ths cfg) rest false).
  destruct (match pick with Some t => Some t | None => lowest_enabled cfg1 end) as [t|].
  - intros X; injection X as <-. apply (perform_s t cfg1); assumption.
  - destruct (first_parked (ths cfg1) 0 _) as [w|] eqn:EP.
    + destruct (nth_error (ths cfg1) w) as [wt|] eqn:Nw; [|discriminate].
      set (wt' := mkTh (code wt) (calls wt) (lo_to (lo wt) true) TWoken).
      assert (X : Stopped (set_th (ths cfg1) w wt') /\ Bnd (set_th (ths cfg1) w wt')).
      { split; intros y Hy; (destruct (In_set_th _ _ _ _ _ Nw Hy) as [->|(u & _ & Nu)]).
        - unfold stopped. cbn [status wt']. exact I.
        - apply HS. eapply nth_error_In; eauto.
        - cbn [code wt']. apply HB. eapply nth_error_In; eauto.
        - apply HB. eapply nth_error_In; eauto. }
      destruct X as [X1 X2].
      match goal with |- context[th_enabled ?c ?ww] => destruct (th_enabled c ww) end; intros Y; injection Y as <-.
      * apply perform_s; assumption.
      * cbn [ths]. split; assumption.
    + destruct (all_finished cfg1); [discriminate|]. intros Y; injection Y as <-. cbn [ths]. split; assumption.
Qed.

Lemma unnotified_s cfg tok c : Stopped (ths cfg) -> Bnd (ths cfg) -> unnotified cfg tok = Some c -> Stopped (ths c) /\ Bnd (ths c).
Proof.
  intros HS HB H. unfold unnotified in H.
  assert (K : forall w wt b, nth_error (ths cfg) w = Some wt ->
              Stopped (set_th (ths cfg) w (mkTh (code wt) (calls wt) (lo_to (lo wt) b) TWoken)) /\
              Bnd (set_th (ths cfg) w (mkTh (code wt) (calls wt) (lo_to (lo wt) b) TWoken))).
  { intros w wt b Nw. split; intros y Hy; (destruct (In_set_th _ _ _ _ _ Nw Hy) as [->|(u & _ & Nu)]).
    - unfold stopped. cbn [status]. exact I.
    - apply HS. eapply nth_error_In; eauto.
    - cbn [code]. apply HB. eapply nth_error_In; eauto.
    - apply HB. eapply nth_error_In; eauto. }
  destruct (Nat.leb 2000 tok).
  - destruct (nth_error (ths cfg) (tok - 2000)) as [wt|] eqn:EN; [|discriminate].
    destruct (status wt) as [|timed| |]; try discriminate. injection H as <-. cbn [ths]. apply K. exact EN.
  - destruct (Nat.leb 1000 tok); [|discriminate].
    destruct (nth_error (ths cfg) (tok - 1000)) as [wt|] eqn:EN; [|discriminate].
    destruct (status wt) as [|timed| |]; try discriminate. destruct timed; [|discriminate]. injection H as <-. cbn [ths]. apply K. exact EN.
Qed.

Lemma sched_step_s cfg cfg' : Stopped (ths cfg) -> Bnd (ths cfg) -> sched_step cfg = Some cfg' -> Stopped (ths cfg') /\ Bnd (ths cfg').
Proof.
  intros HS HB. unfold sched_step. destruct (dead cfg) eqn:Ed; [discriminate|].
  assert (H0 : sched_step0 cfg = Some cfg' -> Stopped (ths cfg') /\ Bnd (ths cfg')) by (apply sched_step0_s; assumption).
  destruct (sched cfg) as [|tok rest]; [exact H0|].
  destruct (unnotified _ tok) as [c|] eqn:EU; [|exact H0].
  intros E. injection E as <-. eapply unnotified_s; [| |exact EU]; assumption.
Qed.

Lemma init_s progs : Stopped (start_threads progs) /\ Bnd (start_threads progs).
Proof.
  split; intros th Hin; unfold start_threads in Hin; apply in_map_iff in Hin; destruct Hin as (p & <- & _).
  - reflexivity.
  - cbn [code]. unfold AL, B, E. cbn. repeat constructor.
Qed.

(* the side condition of the wake-up theorems holds on every run *)
Theorem never_out_of_fuel n : forall cfg, Stopped (ths cfg) -> Bnd (ths cfg) -> stopped_along n cfg.
Proof.
  induction n as [|f IH]; intros cfg HS HB; cbn [stopped_along]; [exact I|].
  destruct (sched_step cfg) as [c|] eqn:Ec; [|exact I].
  destruct (sched_step_s _ _ HS HB Ec) as [S1 B1]. split; [exact S1|]. apply IH; assumption.
Qed.

Theorem wake_invariant_unconditional progs schedule n :
  KInv (run_sched n (mkCfg sh0 (start_threads progs) schedule false)).
Proof.
  apply wake_invariant_every_schedule. destruct (init_s progs) as [A B0]. apply never_out_of_fuel; assumption.
Qed.
