(* CLDispRun.v — the dispatcher machine of CLDispConc.v run under a schedule, for tie B (harness/dispconc.cpp: the REAL
   EventDispatcher under the cooperative scheduler, listenerMutex and every list's mutex injected and visible).
   A thread's program is a list of API calls with shared handle registers; a call is resolved to a call of the machine
   (CLDispConc.dcall) when it starts — the adders keep listenerMutex across the list section, the others release it
   first, as in the header — and fed to the machine one at a time.  The visible actions are the lock and unlock steps; a
   chosen thread performs its pending visible step and runs on (map access, list section, end of call, start of the next
   call) up to its next visible step, as a thread does under harness/vsched.h.  Definitions only. *)
From Coq Require Import List Arith NArith ZArith Bool.
From EV Require Import CLModel CLSec CLDisp CLDispConc.
Import ListNotations.
Local Open Scope nat_scope.

Inductive dapi :=
| DAppend (e c h : nat) | DPrepend (e c h : nat) | DInsert (e c hb h : nat)
| DRemove (e h : nat) | DOwns (e h : nat) | DHasAny (e : nat)
| DWalk (e : nat).                   (* forEach / dispatch on event e *)

Inductive dact :=
| DaLockL (t : nat) | DaUnlockL (t : nat) | DaLockM (t e : nat) | DaUnlockM (t e : nat)
| DaRes (t : nat) (b : bool) | DaDone (t : nat) | DaVisit (t c : nat) | DaDeadlock.

Record rthread := mkRT {
  rstarted : bool;
  rapis : list dapi;              (* calls still to make *)
  rcur : option dapi;             (* the call in progress *)
  rnode : nat;                    (* the node an adding call linked (its index in the event's heap) *)
  rfin : bool
}.

Record rstate := mkRS {
  rconf : dconf;
  rregs : list (nat * (nat * nat));      (* handle register -> (event, node) *)
  rths : list rthread;
  rlog : list dact                        (* newest first *)
}.

Fixpoint rlook (h : nat) (l : list (nat * (nat * nat))) : option (nat * nat) :=
  match l with [] => None | (h', v) :: r => if Nat.eqb h h' then Some v else rlook h r end.

(* the handle in register h as the list of event e sees it *)
Definition handle_for (regs : list (nat * (nat * nat))) (e h : nat) : option nat :=
  match rlook h regs with Some (e', n) => if Nat.eqb e e' then Some n else None | None => None end.

Definition resolve (regs : list (nat * (nat * nat))) (a : dapi) : dcall :=
  match a with
  | DAppend e c _ => KSec true (DAdd e (SBack c 0%N))          (* the generation is drawn when the section runs *)
  | DPrepend e c _ => KSec true (DAdd e (SFront c 0%N))
  | DInsert e c hb _ => KSec true (DAdd e (SBefore c 0%N (handle_for regs e hb)))
  | DRemove e h => KSec false (DOn e (SRemove (handle_for regs e h)))
  | DOwns e h => KSec false (DOn e (SOwns (handle_for regs e h)))
  | DHasAny e => KSec false (DOn e SEmpty)
  | DWalk e => KWalk e
  end.

Definition reg_of (a : dapi) : option (nat * nat) :=      (* (register, event) an adding call fills *)
  match a with DAppend e _ h | DPrepend e _ h | DInsert e _ _ h => Some (h, e) | _ => None end.

Fixpoint rset (l : list rthread) (i : nat) (x : rthread) : list rthread :=
  match l, i with
  | [], _ => []
  | _ :: r, 0 => x :: r
  | y :: r, S j => y :: rset r j x
  end.

(* the result the machine logged last for thread t *)
Fixpoint last_res (t : nat) (l : list (nat * dsec * bool)) (acc : bool) : bool :=
  match l with [] => acc | (u, _, b) :: r => last_res t r (if Nat.eqb u t then b else acc) end.

(* is thread t's next machine step a visible action? *)
Definition next_visible (c : dconf) (t : nat) : bool :=
  match thr c t with
  | (Idle, _ :: _) => true
  | (Looked false _, _) => true
  | (Absent, _) => true
  | (WantM _ x, _) => needsM (sec_of x)
  | (AfterS _ (Some _), _) => true
  | (AfterS true None, _) => true
  | (WalkFound _, _) | (WalkWantM _ _ _, _) | (WalkRead _ _ _, _) => true
  | _ => false
  end.

Definition act_of (c : dconf) (t : nat) : list dact :=
  match thr c t with
  | (Idle, _ :: _) => [DaLockL t]
  | (Looked false _, _) | (Absent, _) | (AfterS true None, _) | (WalkFound _, _) => [DaUnlockL t]
  | (WantM _ x, _) => [DaLockM t (ev_of x)]
  | (WalkWantM e _ _, _) => [DaLockM t e]
  | (AfterS _ (Some e), _) | (WalkRead e _ _, _) => [DaUnlockM t e]
  | _ => []
  end.

Definition feed (c : dconf) (t : nat) (k : dcall) : dconf :=
  mkD (dmap c) (lkL c) (lkM c) (upd (thr c) t (Idle, [k])) (dlog c) (dbad c) (dcnt c) (dvis c).

(* run thread t on, without a visible action *)
Fixpoint radvance (fuel : nat) (t : nat) (s : rstate) (th : rthread) : rstate * rthread :=
  match fuel with
  | 0 => (s, th)
  | S f =>
      let c := rconf s in
      match thr c t with
      | (Idle, []) =>
          (* between calls: report the call that ended, start the next *)
          let '(s1, th1) :=
            match rcur th with
            | Some a =>
                match reg_of a with
                | Some (h, e) => (mkRS c ((h, (e, rnode th)) :: rregs s) (rths s) (DaDone t :: rlog s), mkRT true (rapis th) None 0 false)
                | None =>
                    match a with
                    | DWalk _ => (mkRS c (rregs s) (rths s) (DaDone t :: rlog s), mkRT true (rapis th) None 0 false)
                    | _ => (mkRS c (rregs s) (rths s) (DaRes t (last_res t (dlog c) false) :: rlog s), mkRT true (rapis th) None 0 false)
                    end
                end
            | None => (s, th)
            end in
          match rapis th1 with
          | [] => (s1, mkRT true [] None 0 true)
          | a :: r => (mkRS (feed (rconf s1) t (resolve (rregs s1) a)) (rregs s1) (rths s1) (rlog s1), mkRT true r (Some a) 0 false)
          end
      | (p, _) =>
          if next_visible c t then (s, th)
          else
            let th1 := match p with
                       | HaveM _ x => mkRT true (rapis th) (rcur th) (length (heap (dget (dmap c) (ev_of x)))) false
                       | _ => th
                       end in
            let c1 := dcstep c t in
            (* the callbacks this step called *)
            let calls := map (fun v => DaVisit t (match node_of c1 (snd (fst v)) (snd v) with Some nd => cb nd | None => 0 end))
                             (skipn (length (dvis c)) (dvis c1)) in
            radvance f t (mkRS c1 (rregs s) (rths s) (rev calls ++ rlog s)) th1
      end
  end.

Definition RFUEL := 40.

Definition renabled (s : rstate) (t : nat) (th : rthread) : bool :=
  if rfin th then false else if negb (rstarted th) then true else can_step (rconf s) t.

Definition rperform (t : nat) (s : rstate) : rstate :=
  match nth_error (rths s) t with
  | None => s
  | Some th =>
      let s1 :=
        if rstarted th then mkRS (dcstep (rconf s) t) (rregs s) (rths s) (act_of (rconf s) t ++ rlog s)
        else s in
      let '(s2, th2) := radvance RFUEL t s1 (mkRT true (rapis th) (rcur th) (rnode th) (rfin th)) in
      mkRS (rconf s2) (rregs s2) (rset (rths s2) t th2) (rlog s2)
  end.

Fixpoint rfirst (s : rstate) (l : list rthread) (i : nat) : option nat :=
  match l with [] => None | th :: r => if renabled s i th then Some i else rfirst s r (S i) end.

Fixpoint rnext (s : rstate) (sch : list nat) : option nat * list nat :=
  match sch with
  | [] => (None, [])
  | t :: r => match nth_error (rths s) t with
              | Some th => if renabled s t th then (Some t, r) else rnext s r
              | None => rnext s r
              end
  end.

Fixpoint rrun (fuel : nat) (s : rstate) (sch : list nat) : rstate :=
  match fuel with
  | 0 => s
  | S f =>
      let '(pick, rest) := rnext s sch in
      match (match pick with Some t => Some t | None => rfirst s (rths s) 0 end) with
      | Some t => rrun f (rperform t s) rest
      | None => if forallb rfin (rths s) then s else mkRS (rconf s) (rregs s) (rths s) (DaDeadlock :: rlog s)
      end
  end.

Definition rinit (progs : list (list dapi)) : rstate :=
  mkRS (dinit (fun _ => [])) [] (map (fun p => mkRT false p None 0 false) progs) [].

(* the callbacks of event e's list, head to tail *)
Definition final_of (c : dconf) (e : nat) : list nat :=
  let g := dget (dmap c) e in
  (fix walk (k : nat) (x : option nat) : list nat :=
     match k, x with
     | S k', Some n => match nth_error (heap g) n with
                       | Some nd => (if N.eqb (ctr nd) GenCL.removed_marker then [] else [cb nd]) ++ walk k' (nxt nd)
                       | None => []
                       end
     | _, _ => []
     end) (S (length (heap g))) (ghead g).

Definition dr_run_case (fuel : nat) (progs : list (list dapi)) (schedule : list nat) (events : list nat)
  : list dact * list (nat * list nat) * bool :=
  let s := rrun fuel (rinit progs) schedule in
  (rev (rlog s), map (fun e => (e, final_of (rconf s) e)) events, dbad (rconf s)).
