(* GenQFacts.v — what the generated bodies of emptyQueue / doCanProcess / doCanNotifyQueueAvailable (coq/gen/GenQ.v, tie A)
   SAY, proved by case analysis over the three tests they are built from, so that the proofs which use them do not depend
   on how the header spells the Boolean expression (De Morgan, nesting, helper calls). *)
From Coq Require Import ZArith Bool.
From EV.gen Require GenQ.
Local Open Scope Z_scope.

Lemma empty_queue_spec le ec : GenQ.empty_queue le ec = (le && (ec =? 0))%bool.
Proof. unfold GenQ.empty_queue. destruct le, (ec =? 0); reflexivity. Qed.

Lemma can_notify_spec nc : GenQ.can_notify nc = (nc =? 0).
Proof. unfold GenQ.can_notify. destruct (nc =? 0); reflexivity. Qed.

Lemma can_process_spec le ec nc : GenQ.can_process le ec nc = (negb (le && (ec =? 0)) && (nc =? 0))%bool.
Proof. unfold GenQ.can_process, GenQ.empty_queue, GenQ.can_notify. destruct le, (ec =? 0), (nc =? 0); reflexivity. Qed.
