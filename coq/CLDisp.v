(* CLDisp.v — C03 for the dispatcher: the map event -> callback list under any interleaving of the threads' sections.

   EventDispatcher keeps one CallbackList per event in `eventCallbackListMap`, guarded by `listenerMutex` (tie A, GenLocks:
   every access to the map is inside a guard, constructors / assignment / swap excepted).  Entries are never erased, so a
   list found under the mutex stays where it is.  The calls:
     appendListener / prependListener / insertListener (e, ...)   under listenerMutex: find or CREATE the list of e, then the
                                                                  list's own adding section (nested: listenerMutex, then the
                                                                  list's mutex; no call takes them in the other order, and
                                                                  callbacks run with neither held)
     removeListener / ownsHandle / hasAnyListener (e, ...)        find the list of e under listenerMutex (no list: the answer
                                                                  is false); then, outside it, the list's own section
     dispatch / forEach / forEachIf (e, ...)                      find the list under listenerMutex; then traverse it
   Here, for EVERY sequence of such dispatcher sections (any interleaving of any number of threads): the list of every
   event is exactly what the list sections addressed to that event, in their order, make of the empty list — an absent list
   and an empty one are indistinguishable — and every result is the list section's.  Hence everything proved about one
   list under interference (sections in any order, traversals, CLConcProofs / CLTrav / CLConcProj) holds per event, with
   the sections on other events' lists as no interference at all. *)
From Coq Require Import List Arith NArith ZArith Bool Lia.
From EV Require Import CLModel CLHeap CLOps CLRefine CLConcProofs.
From EV.gen Require GenCL.
Import ListNotations.
Local Open Scope nat_scope.

Definition dstate := nat -> option group.      (* event -> its list, if the map has an entry *)
Definition d0 : dstate := fun _ => None.

Definition dget (d : dstate) (e : nat) : group := match d e with Some g => g | None => empty_group end.
Definition dset (d : dstate) (e : nat) (g : group) : dstate := fun e' => if Nat.eqb e' e then Some g else d e'.

Inductive dsec :=
| DAdd (e : nat) (s : sec)      (* appendListener & co.: creates the entry if there is none *)
| DOn (e : nat) (s : sec).      (* removeListener, ownsHandle, hasAnyListener: only on a list that is there *)

Definition dstep (d : dstate) (x : dsec) : dstate * bool :=
  match x with
  | DAdd e s => let '(g1, b) := sec_step (dget d e) s in (dset d e g1, b)
  | DOn e s =>
      match d e with
      | Some g => let '(g1, b) := sec_step g s in (dset d e g1, b)
      | None => (d, match s with SEmpty => true | _ => false end)     (* no list: nothing to remove / own; "empty" *)
      end
  end.

Fixpoint drun (d : dstate) (l : list dsec) : dstate * list bool :=
  match l with
  | [] => (d, [])
  | x :: r => let '(d1, b) := dstep d x in let '(d2, bs) := drun d1 r in (d2, b :: bs)
  end.

Definition ev_of (x : dsec) : nat := match x with DAdd e _ | DOn e _ => e end.
Definition sec_of (x : dsec) : sec := match x with DAdd _ s | DOn _ s => s end.
(* DOn carries the non-adding sections *)
Definition dsec_wf (x : dsec) : Prop := match x with DAdd _ s => adds s = true | DOn _ s => adds s = false end.

Lemma dget_dset d e g e' : dget (dset d e g) e' = if Nat.eqb e' e then g else dget d e'.
Proof. unfold dget, dset. destruct (Nat.eqb e' e); reflexivity. Qed.

(* a non-adding section on the empty list changes nothing and answers as for "no list" *)
Lemma nonadding_on_empty s :
  adds s = false -> sec_step empty_group s = (empty_group, match s with SEmpty => true | _ => false end).
Proof.
  destruct s as [c k|c k|c k b|[x|]|[x|]|]; cbn [adds]; intros H; try discriminate; cbn [sec_step]; try reflexivity.
  - unfold is_live. cbn [empty_group heap]. destruct x; reflexivity.
  - unfold is_live. cbn [empty_group heap]. destruct x; reflexivity.
Qed.

(* one dispatcher section: it is the list section on the list of its event (absent = empty), and leaves the others alone *)
Lemma dstep_is_list_step d x :
  dsec_wf x ->
  (forall e', dget (fst (dstep d x)) e' =
              if Nat.eqb e' (ev_of x) then fst (sec_step (dget d (ev_of x)) (sec_of x)) else dget d e') /\
  snd (dstep d x) = snd (sec_step (dget d (ev_of x)) (sec_of x)).
Proof.
  intros Hw. destruct x as [e s|e s]; cbn [dstep ev_of sec_of dsec_wf] in *.
  - destruct (sec_step (dget d e) s) as [g1 b]. cbn [fst snd]. split; [intros e'; apply dget_dset|reflexivity].
  - assert (Eg : dget d e = match d e with Some g => g | None => empty_group end) by reflexivity.
    destruct (d e) as [g|] eqn:Ed; rewrite Eg.
    + destruct (sec_step g s) as [g1 b]. cbn [fst snd]. split; [intros e'; apply dget_dset|reflexivity].
    + rewrite (nonadding_on_empty s Hw). cbn [fst snd]. split; [|reflexivity].
      intros e'. destruct (Nat.eqb_spec e' e) as [->|Hne]; [unfold dget; rewrite Ed; reflexivity|reflexivity].
Qed.

(* the sections addressed to event e, in order *)
Definition secs_for (e : nat) (l : list dsec) : list sec := map sec_of (filter (fun x => Nat.eqb (ev_of x) e) l).

Fixpoint results_for (e : nat) (l : list dsec) (bs : list bool) : list bool :=
  match l, bs with
  | x :: r, b :: bs' => if Nat.eqb (ev_of x) e then b :: results_for e r bs' else results_for e r bs'
  | _, _ => []
  end.

(* THE THEOREM: every event's list is the run of its own sections; the results are theirs *)
Theorem dispatcher_is_a_family_of_lists : forall l d e,
  Forall dsec_wf l ->
  dget (fst (drun d l)) e = fst (run_secs (dget d e) (secs_for e l)) /\
  results_for e l (snd (drun d l)) = snd (run_secs (dget d e) (secs_for e l)).
Proof.
  induction l as [|x r IH]; intros d e Hw; cbn [drun secs_for filter map run_secs results_for]; [split; reflexivity|].
  inversion Hw as [|? ? Hx Hr]; subst.
  destruct (dstep_is_list_step d x Hx) as [A B].
  destruct (dstep d x) as [d1 b] eqn:E1. cbn [fst snd] in A, B.
  specialize (IH d1 e Hr). destruct (drun d1 r) as [d2 bs] eqn:E2. cbn [fst snd] in *.
  unfold secs_for in *. rewrite (A e) in IH.
  destruct (Nat.eqb_spec (ev_of x) e) as [<-|Hne].
  - rewrite Nat.eqb_refl in IH. cbn [map run_secs results_for].
    destruct (sec_step (dget d (ev_of x)) (sec_of x)) as [g1 b'] eqn:E3. cbn [fst snd] in *. subst b'.
    destruct (run_secs g1 (map sec_of (filter (fun x0 => Nat.eqb (ev_of x0) (ev_of x)) r))) as [g2 bs2]. cbn [fst snd] in *.
    destruct IH as [I1 I2]. split; [exact I1|f_equal; exact I2].
  - destruct (Nat.eqb_spec e (ev_of x)) as [Heq|_]; [symmetry in Heq; contradiction|]. exact IH.
Qed.

(* hence (CLConcProofs): every event's list is well formed and equals the sequential list specification of its own
   sections, whatever the other events' sections do and however they interleave *)
Corollary every_event_list_refines_its_spec l e :
  Forall dsec_wf l -> Forall sec_counter_ok (secs_for e l) ->
  GInv (dget (fst (drun d0 l)) e) (fst (spec_secs 0 [] (secs_for e l))) /\
  results_for e l (snd (drun d0 l)) = snd (spec_secs 0 [] (secs_for e l)).
Proof.
  intros Hw Hk. destruct (dispatcher_is_a_family_of_lists l d0 e Hw) as [A B].
  destruct (sections_in_any_order_refine_list_spec (secs_for e l) empty_group [] ginv_empty Hk) as [G R].
  change (dget d0 e) with empty_group in A, B. rewrite A, B. cbn [empty_group heap length] in G, R. split; [exact G|exact R].
Qed.

(* two events, interleaved: listeners added to both, one removed from event 7 through a handle of event 7, a removal
   addressed to an event that has no list *)
Example dispatcher_example :
  let l := [DAdd 7 (SBack 1 1%N); DAdd 9 (SBack 2 2%N); DAdd 7 (SFront 3 3%N); DOn 7 (SRemove (Some 0)); DOn 4 (SRemove (Some 0));
            DOn 9 (SEmpty); DOn 4 (SEmpty)] in
  snd (drun d0 l) = [true; true; true; true; false; false; true] /\
  secs_for 7 l = [SBack 1 1%N; SFront 3 3%N; SRemove (Some 0)] /\
  fst (spec_secs 0 [] (secs_for 7 l)) = [1] /\ fst (spec_secs 0 [] (secs_for 9 l)) = [0] /\
  fst (drun d0 l) 4 = None.
Proof. vm_compute. repeat split. Qed.
