(* FilterModel.v — executable model of dispatching through MixinFilter and a canContinueInvoking
   policy (mixins/mixinfilter.h, mixins/mixinheterfilter.h, eventdispatcher.h directDispatch,
   internal/eventpolicies_i.h ForEachMixins, callbacklist.h operator(), eventqueue.h
   doDispatchQueuedEvent) for single-threaded, re-entrant programs, plus the two wrappers
   conditionalFunctor / argumentAdapter as one-line functions.

   The argument of a dispatch is a CELL (an integer): filters receive it by reference and may
   overwrite it; listeners may overwrite it iff the prototype takes a reference (byref).  The
   filter list and the per-key listener lists follow the snapshot rule of the callback list
   (their pointer level is C01/C02's business): a traversal visits the entries present when it
   started that are still present at their turn.  Queued events are a plain FIFO (its slot level
   is C05's business); processing dispatches each event through the same function as a direct
   dispatch.  Every function returns the events it emitted, in chronological order.

   The decisions taken by the header text (tie A) arrive through a record `leafp`; gen_lp is built
   from coq/gen/GenFilter.v, spec_lp is what the property expects.  Definitions only. *)
From Coq Require Import List Arith NArith ZArith Bool.
From EV.gen Require GenFilter.
Import ListNotations.
Local Open Scope nat_scope.

Inductive fcmd :=
| FAddFilter (c h : nat) | FRemoveFilter (h : nat)
| FAppend (k c h : nat) | FPrepend (k c h : nat) | FRemove (k h : nat)
| FDispatch (k : nat) (a : Z)
| FEnqueue (k : nat) (a : Z) | FProcess | FProcessOne.

(* d: dispatch number (model bookkeeping, not printed); h: the id the filter / listener got when it
   was added; c: callback id; v: the cell as seen; v': the cell when the callee returned *)
Inductive fev :=
| EBegin (d k : nat) (a : Z)
| EFilter (d h c : nat) (v : Z)
| EVerdict (d h : nat) (b : bool) (v' : Z)
| EMixin (d : nat) (v : Z) (b : bool)
| EListener (d h c k : nat) (v : Z)
| ECci (d : nat) (v' : Z) (b : bool)
| EFRemoved (h : nat)
| ERet (b : bool).

Definition tag (e : fev) : option nat :=
  match e with
  | EBegin d _ _ | EFilter d _ _ _ | EVerdict d _ _ _ | EMixin d _ _ | EListener d _ _ _ _ | ECci d _ _ => Some d
  | EFRemoved _ | ERet _ => None
  end.

Record leafp := mkLP {
  lp_filter_lambda : bool -> bool;       (* forEachIf lambda of mixinBeforeDispatch over the filter's result *)
  lp_before : bool -> bool -> bool;      (* mixinBeforeDispatch over (filterList.empty(), forEachIf's result) *)
  lp_filter_refs : bool;                 (* filters get lvalue references to the dispatch's own arguments *)
  lp_mixins : bool -> bool -> bool;      (* ForEachMixins over (first mixin, remaining mixins) *)
  lp_gate : bool -> bool;                (* directDispatch: go on to the listeners? *)
  lp_lookup_after : bool;                (* the listener list is looked up after the mixins ran *)
  lp_queue_direct : bool;                (* queued events go through directDispatch *)
  lp_cci_after : bool;                   (* the policy is asked after the callback, not before *)
  lp_continue : bool -> bool             (* the traversal goes on iff this function of the policy's answer *)
}.

Definition gen_lp : leafp :=
  mkLP GenFilter.filter_lambda GenFilter.before_dispatch
       (GenFilter.filter_args_by_reference && GenFilter.dispatch_passes_lvalue_refs)
       GenFilter.mixins_chain GenFilter.dispatch_gate GenFilter.lookup_after_mixins
       GenFilter.queued_through_direct_dispatch GenFilter.cci_after_call GenFilter.loop_continue.

Definition gen_lp_heter : leafp :=
  mkLP GenFilter.heter_filter_lambda (fun _ fe => GenFilter.heter_before_dispatch fe)
       (GenFilter.filter_args_by_reference && GenFilter.dispatch_passes_lvalue_refs)
       GenFilter.mixins_chain GenFilter.dispatch_gate GenFilter.lookup_after_mixins
       GenFilter.queued_through_direct_dispatch GenFilter.cci_after_call GenFilter.loop_continue.

Definition spec_lp : leafp :=
  mkLP (fun r => r) (fun _ fe => fe) true andb (fun b => b) true true true (fun p => p).

Record fstate := mkF {
  flt : list (nat * nat);                     (* filter list: (id, callback id) in order *)
  lsts : list (nat * list (nat * nat));       (* per event key: (id, callback id) in order *)
  nexth : nat;                                (* ids handed out to filters and listeners *)
  fregs : list (nat * nat);                   (* filter handle register -> id *)
  hregs : list (nat * (nat * nat));           (* listener handle register -> (key, id) *)
  pend : list (nat * Z);                      (* queued events, oldest first *)
  acts : list (nat * nat);                    (* activations per callback id *)
  nextd : nat                                 (* dispatches started so far *)
}.

Fixpoint alookup {A} (k : nat) (l : list (nat * A)) : option A :=
  match l with [] => None | (k', v) :: t => if Nat.eqb k k' then Some v else alookup k t end.

Fixpoint aset {A} (k : nat) (v : A) (l : list (nat * A)) : list (nat * A) :=
  match l with
  | [] => [(k, v)]
  | (k', v') :: t => if Nat.eqb k k' then (k, v) :: t else (k', v') :: aset k v t
  end.

Definition lst_of (st : fstate) (k : nat) : list (nat * nat) :=
  match alookup k (lsts st) with Some l => l | None => [] end.
Definition key_known (st : fstate) (k : nat) : bool :=
  match alookup k (lsts st) with Some _ => true | None => false end.
Definition act_of (l : list (nat * nat)) (c : nat) : nat := match alookup c l with Some n => n | None => 0 end.

Fixpoint has_l (h : nat) (l : list (nat * nat)) : bool :=
  match l with [] => false | (x, _) :: t => Nat.eqb h x || has_l h t end.
(* ids are handed out once, so at most one entry goes *)
Fixpoint del_l (h : nat) (l : list (nat * nat)) : list (nat * nat) :=
  match l with [] => [] | (x, c) :: t => if Nat.eqb h x then del_l h t else (x, c) :: del_l h t end.

Definition set_flt st fl nh fr := mkF fl (lsts st) nh fr (hregs st) (pend st) (acts st) (nextd st).
Definition set_lsts st ls nh hr := mkF (flt st) ls nh (fregs st) hr (pend st) (acts st) (nextd st).
Definition set_pend st p := mkF (flt st) (lsts st) (nexth st) (fregs st) (hregs st) p (acts st) (nextd st).
Definition set_acts st a := mkF (flt st) (lsts st) (nexth st) (fregs st) (hregs st) (pend st) a (nextd st).
Definition bump_d st := mkF (flt st) (lsts st) (nexth st) (fregs st) (hregs st) (pend st) (acts st) (S (nextd st)).

(* callback c is activated once more *)
Definition activate (st : fstate) (c : nat) : fstate := set_acts st (aset c (S (act_of (acts st) c)) (acts st)).

Definition rewritten (rw : option Z) (cell : Z) : Z := match rw with Some v => v | None => cell end.
Definition is_nil {A} (l : list A) : bool := match l with [] => true | _ => false end.

Section FInterp.
  Variable lp : leafp.
  Variable byref : bool.                       (* the prototype takes its argument by reference *)
  Variable cci : Z -> bool.                    (* the canContinueInvoking policy *)
  Variable mix2 : option (Z -> bool).          (* a second mixin after MixinFilter: logs the cell, answers *)
  (* callback c, n-th activation: commands it runs, its verdict when it is a filter, the value it writes into the cell *)
  Variable behav : nat -> nat -> list fcmd * bool * option Z.

  Section WithRec.
    Variable rec : fstate -> list fcmd -> option (fstate * list fev).

    (* filterList.forEachIf(lambda) of dispatch d: (state, cell, forEachIf's result, events) *)
    Fixpoint run_filters (st : fstate) (d : nat) (todo : list (nat * nat)) (orig cell : Z)
      : option (fstate * Z * bool * list fev) :=
      match todo with
      | [] => Some (st, cell, true, [])
      | (h, c) :: rest =>
          if has_l h (flt st) then
            let st1 := activate st c in
            let '(body, verdict, rw) := behav c (act_of (acts st1) c) in
            match rec st1 body with
            | None => None
            | Some (st2, t1) =>
                let after := rewritten rw cell in
                let cell1 := if lp_filter_refs lp then after else orig in
                let pre := EFilter d h c cell :: t1 ++ [EVerdict d h verdict after] in
                if lp_filter_lambda lp verdict then
                  match run_filters st2 d rest orig cell1 with
                  | None => None
                  | Some (st3, cell3, ok, t2) => Some (st3, cell3, ok, pre ++ t2)
                  end
                else Some (st2, cell1, false, pre)
            end
          else run_filters st d rest orig cell
      end.

    (* CallbackList::operator() of dispatch d on the listeners of key k *)
    Fixpoint run_listeners (st : fstate) (d k : nat) (todo : list (nat * nat)) (cell : Z)
      : option (fstate * list fev) :=
      match todo with
      | [] => Some (st, [])
      | (h, c) :: rest =>
          if has_l h (lst_of st k) then
            let tpre := if lp_cci_after lp then [] else [ECci d cell (cci cell)] in
            if (if lp_cci_after lp then true else lp_continue lp (cci cell)) then
              let st1 := activate st c in
              let '(body, _, rw) := behav c (act_of (acts st1) c) in
              match rec st1 body with
              | None => None
              | Some (st2, t1) =>
                  let cell1 := if byref then rewritten rw cell else cell in
                  let tpost := if lp_cci_after lp then [ECci d cell1 (cci cell1)] else [] in
                  let pre := tpre ++ EListener d h c k cell :: t1 ++ tpost in
                  if (if lp_cci_after lp then lp_continue lp (cci cell1) else true) then
                    match run_listeners st2 d k rest cell1 with
                    | None => None
                    | Some (st3, t2) => Some (st3, pre ++ t2)
                    end
                  else Some (st2, pre)
              end
            else Some (st, tpre)
          else run_listeners st d k rest cell
      end.

    (* directDispatch(k, a); filtered = false only for a queue that bypasses directDispatch *)
    Definition dispatch_gen (filtered : bool) (st : fstate) (k : nat) (a : Z) : option (fstate * list fev) :=
      let d := nextd st in
      let st0 := bump_d st in
      let known_early := key_known st0 k in
      match (if filtered then run_filters st0 d (flt st0) a a else Some (st0, a, true, [])) with
      | None => None
      | Some (st1, cell1, ok, t1) =>
          let passed1 := if filtered then lp_before lp (is_nil (flt st0)) ok else true in
          let '(passed2, t2) :=
            if passed1 && filtered then
              match mix2 with
              | Some m => (m cell1, [EMixin d cell1 (m cell1)])
              | None => (true, [])
              end
            else (true, []) in
          if lp_gate lp (lp_mixins lp passed1 passed2) then
            let todo := if lp_lookup_after lp || known_early then lst_of st1 k else [] in
            match run_listeners st1 d k todo cell1 with
            | None => None
            | Some (st2, t3) => Some (st2, EBegin d k a :: t1 ++ t2 ++ t3)
            end
          else Some (st1, EBegin d k a :: t1 ++ t2)
      end.

    Definition dispatch := dispatch_gen true.

    (* the loop of process(): every taken event is dispatched *)
    Fixpoint process_loop (st : fstate) (evs : list (nat * Z)) : option (fstate * list fev) :=
      match evs with
      | [] => Some (st, [])
      | (k, a) :: rest =>
          match dispatch_gen (lp_queue_direct lp) st k a with
          | None => None
          | Some (st1, t1) =>
              match process_loop st1 rest with
              | None => None
              | Some (st2, t2) => Some (st2, t1 ++ t2)
              end
          end
      end.

    Definition add_listener (st : fstate) (k c h : nat) (place : nat * nat -> list (nat * nat) -> list (nat * nat)) : fstate :=
      let id := nexth st in
      set_lsts st (aset k (place (id, c) (lst_of st k)) (lsts st)) (S id) (aset h (k, id) (hregs st)).

    Definition f_step (st : fstate) (c : fcmd) : option (fstate * list fev) :=
      match c with
      | FAddFilter c h =>
          let id := nexth st in
          Some (set_flt st (flt st ++ [(id, c)]) (S id) (aset h id (fregs st)), [])
      | FRemoveFilter h =>
          match alookup h (fregs st) with
          | Some id =>
              if has_l id (flt st)
              then Some (set_flt st (del_l id (flt st)) (nexth st) (fregs st), [EFRemoved id; ERet true])
              else Some (st, [ERet false])
          | None => Some (st, [ERet false])
          end
      | FAppend k c h => Some (add_listener st k c h (fun n l => l ++ [n]), [])
      | FPrepend k c h => Some (add_listener st k c h (fun n l => n :: l), [])
      | FRemove k h =>
          match alookup h (hregs st) with
          | Some (k', b) =>
              if Nat.eqb k' k then
                if has_l b (lst_of st k)
                then Some (set_lsts st (aset k (del_l b (lst_of st k)) (lsts st)) (nexth st) (hregs st), [ERet true])
                else Some (st, [ERet false])
              else None                      (* a handle of another event's list: misuse, excluded *)
          | None => Some (st, [ERet false])
          end
      | FDispatch k a => dispatch st k a
      | FEnqueue k a => Some (set_pend st (pend st ++ [(k, a)]), [])
      | FProcess =>
          match pend st with
          | [] => Some (st, [ERet false])
          | evs =>
              match process_loop (set_pend st []) evs with
              | Some (st1, t) => Some (st1, t ++ [ERet true])
              | None => None
              end
          end
      | FProcessOne =>
          match pend st with
          | [] => Some (st, [ERet false])
          | e :: rest =>
              match process_loop (set_pend st rest) [e] with
              | Some (st1, t) => Some (st1, t ++ [ERet true])
              | None => None
              end
          end
      end.

    Fixpoint f_seq (st : fstate) (cs : list fcmd) : option (fstate * list fev) :=
      match cs with
      | [] => Some (st, [])
      | c :: r =>
          match f_step st c with
          | Some (st1, t1) =>
              match f_seq st1 r with
              | Some (st2, t2) => Some (st2, t1 ++ t2)
              | None => None
              end
          | None => None
          end
      end.
  End WithRec.

  Fixpoint f_run (fuel : nat) : fstate -> list fcmd -> option (fstate * list fev) :=
    match fuel with
    | 0 => fun _ _ => None
    | S f => f_seq (f_run f)
    end.

  Definition f_init : fstate := mkF [] [] 0 [] [] [] [] 0.

  Definition f_run_case (fuel : nat) (main : list fcmd) : option (list fev) :=
    match f_run fuel f_init main with
    | Some (_, t) => Some t
    | None => None
    end.
End FInterp.

(* ---------- the two wrappers ---------- *)

Section Wrappers.
  Variables A B : Type.
  (* ConditionalFunctor::operator(): what the wrapped function is called with, if it is called *)
  Definition cond_functor (cond : A -> bool) (a : A) : option A :=
    if GenFilter.cond_functor_runs (cond a) then Some a else None.
  (* ArgumentAdapter::operator(): the wrapped function receives every argument converted *)
  Variable conv : A -> B.
  Definition arg_adapter (args : list A) : option (list B) :=
    if GenFilter.adapter_casts_each then Some (map conv args) else None.
End Wrappers.
