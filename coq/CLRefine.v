(* CLRefine.v — the pointer-level interpreter (CLModel.run) refines the snapshot
   specification (CLSpec.s_run) for re-entrant programs of any nesting depth.

   R st sst        : the abstraction relation (every owned group satisfies GInv with the
                     spec's content, counters bounded by the owner's generation counter)
   Frame … c capt todo : a running traversal standing on c, with captured counter capt,
                     still owes exactly the spec's remaining snapshot entries todo
   Ext st sst st' sst' : what every step guarantees to all running traversals: their
                     frames survive, removed entries stay removed, nodes keep their
                     callback and (while live) their counter. *)
From Coq Require Import List Arith NArith ZArith Bool Lia.
From EV Require Import CLModel CLSpec CLHeap CLOps.
From EV.gen Require GenCL.
Import ListNotations.
Local Open Scope nat_scope.

(* ---------- accessors ---------- *)

Lemma get_group_put_same st g gr gr0 : get_group st g = Some gr0 -> get_group (put_group st g gr) g = Some gr.
Proof. unfold get_group, put_group; simpl. intros H. rewrite (nth_error_upd_same _ _ _ _ H). reflexivity. Qed.

Lemma get_group_put_other st g g' gr : g' <> g -> get_group (put_group st g gr) g' = get_group st g'.
Proof. unfold get_group, put_group; simpl. intros H. apply nth_error_upd_other; exact H. Qed.

Lemma get_list_put_group st g gr l : get_list (put_group st g gr) l = get_list st l.
Proof. reflexivity. Qed.

Lemma get_group_put_list st l o g : get_group (put_list st l o) g = get_group st g.
Proof. reflexivity. Qed.

Lemma get_list_put_same st l o o0 : get_list st l = Some o0 -> get_list (put_list st l (Some o)) l = Some o.
Proof.
  unfold get_list, put_list; simpl. intros H.
  destruct (nth_error (lists st) l) as [[x|]|] eqn:E; try discriminate.
  rewrite (nth_error_upd_same _ _ _ _ E). reflexivity.
Qed.

Lemma get_list_put_other st l l' o : l' <> l -> get_list (put_list st l o) l' = get_list st l'.
Proof. unfold get_list, put_list; simpl. intros H. rewrite nth_error_upd_other by exact H. reflexivity. Qed.

Lemma s_get_group_put_same st g gr gr0 : s_get_group st g = Some gr0 -> s_get_group (s_put_group st g gr) g = Some gr.
Proof. unfold s_get_group, s_put_group; simpl. intros H. rewrite (nth_error_upd_same _ _ _ _ H). reflexivity. Qed.

Lemma s_get_group_put_other st g g' gr : g' <> g -> s_get_group (s_put_group st g gr) g' = s_get_group st g'.
Proof. unfold s_get_group, s_put_group; simpl. intros H. apply nth_error_upd_other; exact H. Qed.

(* ---------- spec-side list facts ---------- *)

Lemma has_ent_in e es : has_ent e es = true <-> In e (map fst es).
Proof.
  induction es as [|[x c] t IH]; simpl; [split; [discriminate|intros []]|].
  rewrite orb_true_iff, IH, Nat.eqb_eq. split; intros [H|H]; auto.
Qed.

Lemma has_ent_false e es : has_ent e es = false <-> ~ In e (map fst es).
Proof.
  rewrite <- has_ent_in. destruct (has_ent e es); split; intro H.
  - discriminate.
  - exfalso; apply H; reflexivity.
  - intro X; discriminate.
  - reflexivity.
Qed.

Definition neqb (x : nat) (y : nat) : bool := negb (Nat.eqb y x).

Lemma filter_neq_split (a : list nat) x b : NoDup (a ++ x :: b) -> filter (neqb x) (a ++ x :: b) = a ++ b.
Proof.
  intros H. destruct (nodup_split_notin _ _ _ H) as [Ha Hb].
  rewrite filter_app. simpl. unfold neqb at 2. rewrite Nat.eqb_refl. simpl.
  assert (F : forall l, ~ In x l -> filter (neqb x) l = l).
  { induction l as [|y l IH]; intros Hn; simpl; [reflexivity|].
    unfold neqb at 1. destruct (Nat.eqb_spec y x) as [->|Hne]; [exfalso; apply Hn; left; reflexivity|].
    simpl. f_equal. apply IH. intro X; apply Hn; right; exact X. }
  rewrite (F a Ha), (F b Hb). reflexivity.
Qed.

Lemma filter_neq_notin x (l : list nat) : ~ In x l -> filter (neqb x) l = l.
Proof.
  induction l as [|y l IH]; intros Hn; simpl; [reflexivity|].
  unfold neqb at 1. destruct (Nat.eqb_spec y x) as [->|Hne]; [exfalso; apply Hn; left; reflexivity|].
  simpl. f_equal. apply IH. intro X; apply Hn; right; exact X.
Qed.

Lemma map_fst_del_ent x es : NoDup (map fst es) -> map fst (del_ent x es) = filter (neqb x) (map fst es).
Proof.
  induction es as [|[y c] t IH]; intros H; simpl; [reflexivity|].
  simpl in H. apply NoDup_cons_iff in H as [Hni H].
  unfold neqb at 1.
  destruct (Nat.eqb_spec x y) as [->|Hne].
  - rewrite Nat.eqb_refl. simpl. symmetry. apply filter_neq_notin. exact Hni.
  - destruct (Nat.eqb_spec y x) as [E|_]; [exfalso; apply Hne; symmetry; exact E|].
    simpl. f_equal. apply IH; exact H.
Qed.

Lemma in_del_ent e c x es : In (e, c) (del_ent x es) -> In (e, c) es.
Proof.
  induction es as [|[y d] t IH]; simpl; [auto|].
  destruct (Nat.eqb x y); simpl; [auto|]. intros [H|H]; auto.
Qed.

Lemma neqb_true x z : z <> x -> neqb x z = true.
Proof. intros H. unfold neqb. destruct (Nat.eqb_spec z x); [contradiction|reflexivity]. Qed.

Lemma neqb_refl x : neqb x x = false.
Proof. unfold neqb. rewrite Nat.eqb_refl. reflexivity. Qed.

Lemma sfrom_filter_neq y x ids : y <> x -> sfrom y (filter (neqb x) ids) = filter (neqb x) (sfrom y ids).
Proof.
  intros Hne. induction ids as [|z r IH]; simpl; [reflexivity|].
  destruct (Nat.eq_dec z x) as [->|Hzx].
  - rewrite neqb_refl. destruct (Nat.eqb_spec y x); [contradiction|]. exact IH.
  - rewrite (neqb_true _ _ Hzx). simpl. destruct (Nat.eqb_spec y z) as [->|Hyz].
    + simpl. rewrite (neqb_true _ _ Hzx). reflexivity.
    + exact IH.
Qed.

Lemma sfrom_o_hd_tail (a : list nat) x b : NoDup (a ++ x :: b) -> sfrom_o (hd_error b) (a ++ x :: b) = b.
Proof.
  intros H. destruct b as [|s b']; [reflexivity|]. simpl.
  replace (a ++ x :: s :: b') with ((a ++ [x]) ++ s :: b') by (rewrite <- app_assoc; reflexivity).
  apply sfrom_split. replace (a ++ x :: s :: b') with ((a ++ [x]) ++ s :: b') in H by (rewrite <- app_assoc; reflexivity).
  apply (nodup_split_notin _ _ _ H).
Qed.

Lemma filter_sfrom_insert (P : nat -> bool) y n (a b : list nat) :
  P n = false -> y <> n -> filter P (sfrom y (a ++ n :: b)) = filter P (sfrom y (a ++ b)).
Proof.
  intros Hp Hne. induction a as [|z a IH]; simpl.
  - destruct (Nat.eqb_spec y n); [contradiction|]. reflexivity.
  - destruct (Nat.eqb_spec y z) as [->|Hyz]; [|exact IH].
    simpl. destruct (P z); [f_equal|]; rewrite !filter_app; simpl; rewrite Hp; reflexivity.
Qed.

Lemma filter_ext_in' {A} (f g : A -> bool) l : (forall x, In x l -> f x = g x) -> filter f l = filter g l.
Proof.
  induction l as [|x l IH]; intros H; simpl; [reflexivity|].
  rewrite (H x (or_introl eq_refl)). rewrite IH; [reflexivity|]. intros y Hy; apply H; right; exact Hy.
Qed.

Lemma sfrom_incl y ids : incl (sfrom y ids) ids.
Proof.
  induction ids as [|z r IH]; simpl; [intros x []|].
  destruct (Nat.eqb y z); [apply incl_refl|apply incl_tl; exact IH].
Qed.

(* decomposition of the remaining snapshot at the node being visited *)
Lemma todo_split (P : nat * nat -> bool) todo n rest :
  map fst (filter P todo) = n :: rest ->
  exists pre cc todo', todo = pre ++ (n, cc) :: todo' /\ filter P pre = [] /\ P (n, cc) = true /\
                       map fst (filter P todo') = rest.
Proof.
  induction todo as [|[e c] t IH]; simpl; [discriminate|].
  destruct (P (e, c)) eqn:E; simpl.
  - intros H; inversion H; subst. exists [], c, t. simpl. auto.
  - intros H. destruct (IH H) as [pre [cc [todo' [A [B [C D]]]]]].
    exists ((e, c) :: pre), cc, todo'. simpl. rewrite E, A. auto.
Qed.

Lemma filter_comm {A} (f g : A -> bool) l : filter f (filter g l) = filter g (filter f l).
Proof.
  induction l as [|x l IH]; simpl; [reflexivity|].
  destruct (f x) eqn:Ef, (g x) eqn:Eg; simpl; rewrite ?Ef, ?Eg, IH; reflexivity.
Qed.

Lemma filter_map_fst (P : nat -> bool) (l : list (nat * nat)) :
  filter P (map fst l) = map fst (filter (fun e => P (fst e)) l).
Proof.
  induction l as [|[e c] l IH]; simpl; [reflexivity|]. destruct (P e); simpl; rewrite IH; reflexivity.
Qed.

Lemma filter_and {A} (f g : A -> bool) l : filter (fun x => f x && g x) l = filter g (filter f l).
Proof.
  induction l as [|x l IH]; simpl; [reflexivity|].
  destruct (f x) eqn:Ef; simpl; [destruct (g x); rewrite IH; reflexivity|exact IH].
Qed.

Lemma has_ent_del e x es : NoDup (map fst es) -> has_ent e (del_ent x es) = has_ent e es && neqb x e.
Proof.
  intros H. destruct (Nat.eq_dec e x) as [->|Hne].
  - rewrite neqb_refl, andb_false_r. apply has_ent_false. rewrite (map_fst_del_ent _ _ H).
    intro X. apply filter_In in X. destruct X as [_ X]. rewrite neqb_refl in X. discriminate.
  - rewrite (neqb_true _ _ Hne), andb_true_r.
    destruct (has_ent e es) eqn:E.
    + apply has_ent_in. rewrite (map_fst_del_ent _ _ H). apply filter_In. split; [apply has_ent_in; exact E|apply neqb_true; exact Hne].
    + apply has_ent_false. apply has_ent_false in E. rewrite (map_fst_del_ent _ _ H). intro X. apply filter_In in X. apply E, X.
Qed.

Lemma sfrom_o_unlink m x (a b : list nat) :
  NoDup (a ++ x :: b) ->
  sfrom_o (if oeqb m (Some x) then hd_error b else m) (a ++ b) = filter (neqb x) (sfrom_o m (a ++ x :: b)).
Proof.
  intros Hnd. destruct (nodup_split_notin _ _ _ Hnd) as [Ha Hb].
  destruct m as [y|]; simpl; [|reflexivity].
  destruct (Nat.eqb_spec y x) as [->|Hne].
  - rewrite (sfrom_split a x b Ha). simpl. rewrite neqb_refl. rewrite (filter_neq_notin x b Hb).
    destruct b as [|s b']; simpl; [reflexivity|].
    apply sfrom_split. intro X. apply NoDup_remove_1 in Hnd.
    assert (Y := nodup_split_notin _ _ _ Hnd). destruct Y as [Y _]. contradiction.
  - simpl. rewrite <- (filter_neq_split a x b Hnd). apply sfrom_filter_neq. exact Hne.
Qed.

(* ====================================================================== *)

Section Refine.
  Variable W : N.
  Variable behav : nat -> nat -> list cmd.

  Notation chkR := GenCL.remove_checks_removed.
  Notation chkI := GenCL.insert_checks_removed.
  Notation chkO := GenCL.owns_checks_removed.

  (* ---------- the abstraction relation ---------- *)

  Record GRel (gr : group) (sgr : sgroup) (cur : N) : Prop := {
    gr_inv : GInv gr (map fst (ents sgr));
    gr_cb : forall e c, In (e, c) (ents sgr) -> exists nd, nth_error (heap gr) e = Some nd /\ cb nd = c;
    gr_ctr : forall e nd, nth_error (heap gr) e = Some nd -> (ctr nd <= cur)%N
  }.

  Record R (st : state) (sst : sstate) : Prop := {
    r_lists : slists sst = map (option_map lg) (lists st);
    r_len : length (sgroups sst) = length (groups st);
    r_inj : forall l1 l2 o1 o2, get_list st l1 = Some o1 -> get_list st l2 = Some o2 -> lg o1 = lg o2 -> l1 = l2;
    r_grp : forall l o, get_list st l = Some o ->
            exists gr sgr, get_group st (lg o) = Some gr /\ s_get_group sst (lg o) = Some sgr /\
                           GRel gr sgr (lcur o) /\ (lcur o < W)%N /\ gfreed gr = false;
    r_all : forall g gr sgr, get_group st g = Some gr -> s_get_group sst g = Some sgr ->
            gfreed gr = sfreed sgr /\ snext sgr = length (heap gr);
    r_pinown : forall g n, In (g, n) (pins st) -> exists l o, get_list st l = Some o /\ lg o = g;
    r_pins : spins sst = map fst (pins st);
    r_regs : sregs sst = regs st;
    r_acts : sacts sst = acts st;
    r_trace : strace sst = trace st
  }.

  Lemma r_get_list st sst l : R st sst -> s_get_list sst l = option_map lg (get_list st l).
  Proof.
    intros HR. unfold s_get_list, get_list. rewrite (r_lists _ _ HR), nth_error_map.
    destruct (nth_error (lists st) l) as [[o|]|]; reflexivity.
  Qed.

  Lemma r_group_some st sst g gr : R st sst -> get_group st g = Some gr -> exists sgr, s_get_group sst g = Some sgr.
  Proof.
    intros HR H. unfold get_group, s_get_group in *.
    assert (g < length (groups st)) by (apply nth_error_Some; rewrite H; discriminate).
    destruct (nth_error (sgroups sst) g) eqn:E; [eauto|]. apply nth_error_None in E. rewrite (r_len _ _ HR) in E. lia.
  Qed.

  Lemma r_group_none st sst g : R st sst -> get_group st g = None -> s_get_group sst g = None.
  Proof.
    intros HR H. unfold get_group, s_get_group in *. apply nth_error_None in H. apply nth_error_None.
    rewrite (r_len _ _ HR). exact H.
  Qed.

  (* ---------- frames ---------- *)

  Definition oldb (h : list node) (capt : N) (n : nat) : bool :=
    match nth_error h n with Some nd => (ctr nd <=? capt)%N | None => false end.

  Definition alive (sgr : sgroup) (e : nat * nat) : bool := has_ent (fst e) (ents sgr).

  Definition Frame (st : state) (sst : sstate) (g : nat) (c : option nat) (capt : N) (todo : list (nat * nat)) : Prop :=
    exists gr sgr m l o,
      get_group st g = Some gr /\ s_get_group sst g = Some sgr /\
      first_live (heap gr) c m /\
      filter (oldb (heap gr) capt) (sfrom_o m (map fst (ents sgr))) = map fst (filter (alive sgr) todo) /\
      (forall e cc, In (e, cc) todo -> exists nd, nth_error (heap gr) e = Some nd /\ cb nd = cc) /\
      get_list st l = Some o /\ lg o = g /\ (capt <= lcur o)%N.

  Record Ext (st : state) (sst : sstate) (st' : state) (sst' : sstate) : Prop := {
    e_frames : forall g c capt todo, Frame st sst g c capt todo -> Frame st' sst' g c capt todo;
    e_dead : forall g sgr sgr' e, s_get_group sst g = Some sgr -> s_get_group sst' g = Some sgr' ->
             e < snext sgr -> has_ent e (ents sgr) = false -> has_ent e (ents sgr') = false;
    e_node : forall g gr n nd, get_group st g = Some gr -> nth_error (heap gr) n = Some nd ->
             exists gr' nd', get_group st' g = Some gr' /\ nth_error (heap gr') n = Some nd' /\
                             cb nd' = cb nd /\ (live nd' -> ctr nd' = ctr nd);
    e_pins : pins st' = pins st;
    e_own : forall l, option_map lg (get_list st' l) = option_map lg (get_list st l)
  }.

  Lemma ext_refl st sst : Ext st sst st sst.
  Proof.
    constructor; auto.
    - intros g sgr sgr' e H1 H2. rewrite H1 in H2; inversion H2; subst; auto.
    - intros g gr n nd H1 H2. exists gr, nd. auto.
  Qed.

  Lemma ext_trans st1 s1 st2 s2 st3 s3 : R st1 s1 -> R st2 s2 -> Ext st1 s1 st2 s2 -> Ext st2 s2 st3 s3 -> Ext st1 s1 st3 s3.
  Proof.
    intros R1 R2 A B. constructor.
    - intros g c capt todo F. apply (e_frames _ _ _ _ B). apply (e_frames _ _ _ _ A). exact F.
    - intros g sgr sgr3 e H1 H3 Hlt Hd.
      assert (exists gr1, get_group st1 g = Some gr1) as [gr1 Hg1].
      { unfold get_group, s_get_group in *. destruct (nth_error (groups st1) g) eqn:E; [eauto|].
        apply nth_error_None in E. rewrite <- (r_len _ _ R1) in E.
        assert (g < length (sgroups s1)) by (apply nth_error_Some; rewrite H1; discriminate). lia. }
      destruct (r_all _ _ R1 g gr1 sgr Hg1 H1) as [_ Hn1].
      assert (exists gr2, get_group st2 g = Some gr2 /\ length (heap gr1) <= length (heap gr2)) as [gr2 [Hg2 Hle]].
      { destruct (Nat.eq_dec (length (heap gr1)) 0) as [Z|NZ].
        - (* empty heap: use any node-free argument: group still exists by e_own? use lengths *)
          lia.
        - assert (Hlast : exists nd, nth_error (heap gr1) (length (heap gr1) - 1) = Some nd).
          { destruct (nth_error (heap gr1) (length (heap gr1) - 1)) eqn:E; [eauto|]. apply nth_error_None in E. lia. }
          destruct Hlast as [nd Hnd].
          destruct (e_node _ _ _ _ A g gr1 _ nd Hg1 Hnd) as [gr2 [nd2 [G2 [N2 _]]]].
          exists gr2. split; [exact G2|].
          assert (length (heap gr1) - 1 < length (heap gr2)) by (apply nth_error_Some; rewrite N2; discriminate). lia. }
      destruct (r_group_some _ _ _ _ R2 Hg2) as [sgr2 H2].
      destruct (r_all _ _ R2 g gr2 sgr2 Hg2 H2) as [_ Hn2].
      apply (e_dead _ _ _ _ B g sgr2 sgr3 e H2 H3); [lia|].
      apply (e_dead _ _ _ _ A g sgr sgr2 e H1 H2 Hlt Hd).
    - intros g gr n nd Hg Hn.
      destruct (e_node _ _ _ _ A g gr n nd Hg Hn) as [gr2 [nd2 [G2 [N2 [C2 L2]]]]].
      destruct (e_node _ _ _ _ B g gr2 n nd2 G2 N2) as [gr3 [nd3 [G3 [N3 [C3 L3]]]]].
      exists gr3, nd3. repeat split; auto; [congruence|].
      intros Hl. rewrite (L3 Hl). apply L2. unfold live in *. rewrite <- (L3 Hl). exact Hl.
    - rewrite (e_pins _ _ _ _ B). apply (e_pins _ _ _ _ A).
    - intros l. rewrite (e_own _ _ _ _ B). apply (e_own _ _ _ _ A).
  Qed.

  (* ---------- updates that frames and Ext do not see ---------- *)

  Lemma frame_irrel st sst st' sst' g c capt todo :
    groups st' = groups st -> lists st' = lists st -> sgroups sst' = sgroups sst ->
    Frame st sst g c capt todo -> Frame st' sst' g c capt todo.
  Proof.
    intros E1 E2 E3 [gr [sgr [m [l [o F]]]]]. exists gr, sgr, m, l, o.
    unfold get_group, s_get_group, get_list in *. rewrite E1, E2, E3. exact F.
  Qed.

  Lemma ext_irrel st sst st' sst' :
    groups st' = groups st -> lists st' = lists st -> pins st' = pins st -> sgroups sst' = sgroups sst ->
    Ext st sst st' sst'.
  Proof.
    intros E1 E2 E3 E4. constructor.
    - intros g c capt todo. apply frame_irrel; auto.
    - intros g sgr sgr' e H1 H2. unfold s_get_group in *. rewrite E4 in H2. rewrite H1 in H2; inversion H2; subst; auto.
    - intros g gr n nd H1 H2. exists gr, nd. unfold get_group in *. rewrite E1. auto.
    - exact E3.
    - intros l. unfold get_list. rewrite E2. reflexivity.
  Qed.

  Lemma R_irrel st sst st' sst' :
    R st sst ->
    groups st' = groups st -> lists st' = lists st -> sgroups sst' = sgroups sst -> slists sst' = slists sst ->
    (forall g n, In (g, n) (pins st') -> exists l o, get_list st l = Some o /\ lg o = g) ->
    spins sst' = map fst (pins st') -> sregs sst' = regs st' -> sacts sst' = acts st' -> strace sst' = trace st' ->
    R st' sst'.
  Proof.
    intros HR E1 E2 E3 E4 P1 P2 P3 P4 P5.
    constructor; unfold get_list, get_group, s_get_group in *; try rewrite E1; try rewrite E2; try rewrite E3; try rewrite E4; auto.
    - apply (r_lists _ _ HR).
    - apply (r_len _ _ HR).
    - apply (r_inj _ _ HR).
    - apply (r_grp _ _ HR).
    - apply (r_all _ _ HR).
  Qed.

  (* ---------- the generation counter without wrap ---------- *)

  Lemma next_counter_nowrap st sst l o st1 k :
    R st sst -> get_list st l = Some o -> next_counter W st l = Some (st1, k) -> wrapped st1 = false ->
    st1 = put_list st l (Some (mkLobj (lg o) k)) /\ k = (lcur o + 1)%N /\ (k < W)%N /\ k <> GenCL.removed_marker.
  Proof.
    intros HR Hl H Hw. unfold next_counter in H. rewrite Hl in H.
    destruct (r_grp _ _ HR l o Hl) as [gr [sgr [Hg [Hsg [HG [Hlt Hfr]]]]]].
    destruct (GenCL.wrap_test ((lcur o + 1) mod W)) eqn:Et.
    - rewrite Hg in H. inversion H; subst. simpl in Hw. discriminate.
    - inversion H; subst. clear H.
      unfold GenCL.wrap_test in Et. apply N.eqb_neq in Et.
      assert (Hs : (lcur o + 1 < W)%N).
      { destruct (N.eq_dec (lcur o + 1) W) as [E|NE]; [|lia].
        exfalso. apply Et. rewrite E. apply N.mod_same. lia. }
      rewrite N.mod_small by exact Hs.
      repeat split; auto. unfold GenCL.removed_marker. lia.
  Qed.

  (* ---------- adding a callback (append / prepend / insert share this) ---------- *)

  Definition add_state st l (o : lobj) k g2 h n :=
    set_reg (put_group (put_list st l (Some (mkLobj (lg o) k))) (lg o) g2) h (Some (lg o, n)).
  Definition add_sstate sst g ents' n sfr h :=
    s_set_reg (s_put_group sst g (mkSG ents' (S n) sfr)) h (Some (g, n)).

  Lemma has_ent_app_mid e (es es' : list (nat * nat)) a n b :
    map fst es = a ++ b -> map fst es' = a ++ n :: b -> e <> n -> has_ent e es' = has_ent e es.
  Proof.
    intros E1 E2 Hne.
    destruct (has_ent e es) eqn:H1.
    - apply has_ent_in. apply has_ent_in in H1. rewrite E1 in H1. rewrite E2.
      apply in_app_or in H1. apply in_or_app. destruct H1; [left; auto|right; right; auto].
    - apply has_ent_false. apply has_ent_false in H1. rewrite E1 in H1. rewrite E2. intro X. apply H1.
      apply in_app_or in X. apply in_or_app. destruct X as [X|[X|X]]; [left; auto|subst; contradiction|right; auto].
  Qed.

  Lemma add_sim st sst l o gr sgr g2 ents' a b c h k :
    R st sst -> get_list st l = Some o -> get_group st (lg o) = Some gr -> s_get_group sst (lg o) = Some sgr ->
    k = (lcur o + 1)%N -> (k < W)%N ->
    map fst (ents sgr) = a ++ b -> map fst ents' = a ++ length (heap gr) :: b ->
    (forall e cc, In (e, cc) ents' -> (e, cc) = (length (heap gr), c) \/ In (e, cc) (ents sgr)) ->
    GInv g2 (a ++ length (heap gr) :: b) ->
    (forall cur m, first_live (heap gr) cur m -> first_live (heap g2) cur m) ->
    extends (heap gr) (heap g2) ->
    (exists nn, nth_error (heap g2) (length (heap gr)) = Some nn /\ cb nn = c /\ ctr nn = k) ->
    length (heap g2) = S (length (heap gr)) -> gfreed g2 = gfreed gr ->
    R (add_state st l o k g2 h (length (heap gr))) (add_sstate sst (lg o) ents' (length (heap gr)) (sfreed sgr) h) /\
    Ext st sst (add_state st l o k g2 h (length (heap gr))) (add_sstate sst (lg o) ents' (length (heap gr)) (sfreed sgr) h).
  Proof.
    intros HR Hl Hg Hsg Hk HkW E1 E2 Hents G2 FL EX [nn [Hnn [Hcb Hctr]]] Hlen Hfr.
    set (n := length (heap gr)) in *.
    set (st' := add_state st l o k g2 h n). set (sst' := add_sstate sst (lg o) ents' n (sfreed sgr) h).
    destruct (r_grp _ _ HR l o Hl) as [gr0 [sgr0 [Hg0 [Hsg0 [HG [Hlt Hfr0]]]]]].
    rewrite Hg in Hg0; inversion Hg0; subst gr0. rewrite Hsg in Hsg0; inversion Hsg0; subst sgr0. clear Hg0 Hsg0.
    assert (GL : forall l', get_list st' l' = if Nat.eq_dec l' l then Some (mkLobj (lg o) k) else get_list st l').
    { intros l'. unfold st', add_state. change (get_list (set_reg ?s _ _) l') with (get_list s l').
      rewrite get_list_put_group. destruct (Nat.eq_dec l' l) as [->|Hne].
      - apply (get_list_put_same _ _ _ _ Hl).
      - apply get_list_put_other; exact Hne. }
    assert (GG : forall g', get_group st' g' = if Nat.eq_dec g' (lg o) then Some g2 else get_group st g').
    { intros g'. unfold st', add_state. change (get_group (set_reg ?s _ _) g') with (get_group s g').
      destruct (Nat.eq_dec g' (lg o)) as [->|Hne].
      - apply (get_group_put_same _ _ _ gr). rewrite get_group_put_list. exact Hg.
      - rewrite get_group_put_other by exact Hne. apply get_group_put_list. }
    assert (SG : forall g', s_get_group sst' g' = if Nat.eq_dec g' (lg o) then Some (mkSG ents' (S n) (sfreed sgr)) else s_get_group sst g').
    { intros g'. unfold sst', add_sstate. change (s_get_group (s_set_reg ?s _ _) g') with (s_get_group s g').
      destruct (Nat.eq_dec g' (lg o)) as [->|Hne].
      - apply (s_get_group_put_same _ _ _ sgr). exact Hsg.
      - apply s_get_group_put_other; exact Hne. }
    assert (Hids := gr_inv _ _ _ HG). 
    assert (OLD : forall e nd, nth_error (heap gr) e = Some nd -> e < n).
    { intros e nd H. apply nth_error_Some. rewrite H; discriminate. }
    assert (HR' : R st' sst').
    { constructor.
      - (* lists *)
        unfold st', sst', add_state, add_sstate. simpl. rewrite (r_lists _ _ HR).
        unfold get_list in Hl. destruct (nth_error (lists st) l) as [[o0|]|] eqn:En; try discriminate. inversion Hl; subst o0.
        clear - En. revert l En. induction (lists st) as [|x t IH]; intros [|l] En; simpl in *; try discriminate.
        + inversion En; subst. reflexivity.
        + f_equal. apply IH; exact En.
      - unfold st', sst', add_state, add_sstate. simpl. rewrite !length_upd. apply (r_len _ _ HR).
      - intros l1 l2 o1 o2 H1 H2 E. rewrite GL in H1, H2.
        destruct (Nat.eq_dec l1 l) as [->|N1], (Nat.eq_dec l2 l) as [->|N2]; auto.
        + inversion H1; subst o1. simpl in E. symmetry. apply (r_inj _ _ HR l2 l o2 o H2 Hl). auto.
        + inversion H2; subst o2. simpl in E. apply (r_inj _ _ HR l1 l o1 o H1 Hl). auto.
        + apply (r_inj _ _ HR l1 l2 o1 o2 H1 H2 E).
      - intros l' o' H'. rewrite GL in H'. destruct (Nat.eq_dec l' l) as [->|Hne].
        + inversion H'; subst o'. simpl. exists g2, (mkSG ents' (S n) (sfreed sgr)).
          rewrite GG, SG. destruct (Nat.eq_dec (lg o) (lg o)) as [_|X]; [|contradiction].
          split; [reflexivity|]. split; [reflexivity|]. split; [|split; [simpl; exact HkW|congruence]].
          constructor; simpl.
          * rewrite E2. exact G2.
          * intros e cc Hin. destruct (Hents e cc Hin) as [X|X].
            -- inversion X; subst. exists nn. auto.
            -- destruct (gr_cb _ _ _ HG e cc X) as [nd [A B]]. destruct (EX e nd A) as [nd' [A' [B' _]]]. exists nd'. split; [exact A'|congruence].
          * intros e nd' He. destruct (Nat.eq_dec e n) as [->|Hne].
            -- rewrite Hnn in He; inversion He; subst. lia.
            -- assert (e < n).
               { assert (e < length (heap g2)) by (apply nth_error_Some; rewrite He; discriminate). lia. }
               destruct (nth_error (heap gr) e) as [nd|] eqn:He0; [|apply nth_error_None in He0; lia].
               destruct (EX e nd He0) as [nd2 [A [B [C D]]]]. rewrite He in A; inversion A; subst nd2.
               rewrite C. assert (X := gr_ctr _ _ _ HG e nd He0). lia.
        + assert (Hgne : lg o' <> lg o). { intro X. apply Hne. apply (r_inj _ _ HR l' l o' o H' Hl X). }
          destruct (r_grp _ _ HR l' o' H') as [gr' [sgr' [A [B C]]]]. exists gr', sgr'.
          rewrite GG, SG. destruct (Nat.eq_dec (lg o') (lg o)); [contradiction|]. auto.
      - intros g' gr' sgr' H1 H2. rewrite GG in H1. rewrite SG in H2.
        destruct (Nat.eq_dec g' (lg o)) as [->|Hne].
        + inversion H1; inversion H2; subst. simpl. destruct (r_all _ _ HR _ _ _ Hg Hsg) as [A B]. split; [congruence|lia].
        + apply (r_all _ _ HR g' gr' sgr' H1 H2).
      - intros g' n' Hin. unfold st', add_state in Hin. simpl in Hin.
        destruct (r_pinown _ _ HR g' n' Hin) as [l' [o' [A B]]].
        destruct (Nat.eq_dec l' l) as [->|Hne].
        + exists l, (mkLobj (lg o) k). rewrite GL. destruct (Nat.eq_dec l l); [|contradiction]. rewrite Hl in A; inversion A; subst. auto.
        + exists l', o'. rewrite GL. destruct (Nat.eq_dec l' l); [contradiction|]. auto.
      - unfold st', sst', add_state, add_sstate. simpl. apply (r_pins _ _ HR).
      - unfold st', sst', add_state, add_sstate. simpl. rewrite (r_regs _ _ HR). reflexivity.
      - unfold st', sst', add_state, add_sstate. simpl. apply (r_acts _ _ HR).
      - unfold st', sst', add_state, add_sstate. simpl. apply (r_trace _ _ HR). }
    split; [exact HR'|].
    constructor.
    - (* frames *)
      intros g0 c0 capt todo [gr0 [sgr0 [m [l0 [o0 [F1 [F2 [F3 [F4 [F5 [F6 [F7 F8]]]]]]]]]]]].
      destruct (Nat.eq_dec g0 (lg o)) as [->|Hne].
      + rewrite Hg in F1; inversion F1; subst gr0. rewrite Hsg in F2; inversion F2; subst sgr0.
        assert (l0 = l) by (apply (r_inj _ _ HR l0 l o0 o F6 Hl F7)). subst l0.
        rewrite Hl in F6; inversion F6; subst o0.
        exists g2, (mkSG ents' (S n) (sfreed sgr)), m, l, (mkLobj (lg o) k).
        rewrite GG, SG, GL. destruct (Nat.eq_dec (lg o) (lg o)) as [_|X]; [|contradiction]. destruct (Nat.eq_dec l l) as [_|X]; [|contradiction].
        repeat split; auto; simpl.
        * (* the new node is not old; everything else is as before *)
          assert (Hn_notold : oldb (heap g2) capt n = false).
          { unfold oldb. rewrite Hnn. apply N.leb_gt. lia. }
          assert (Hsame : forall y, In y (a ++ b) -> oldb (heap g2) capt y = oldb (heap gr) capt y).
          { intros y Hy. rewrite <- E1 in Hy.
            destruct (ginv_in_heap gr (map fst (ents sgr)) Hids y Hy) as [nd Hnd].
            unfold oldb. rewrite Hnd. destruct (EX y nd Hnd) as [nd' [A [B [C D]]]]. rewrite A, C. reflexivity. }
          assert (Htodo : map fst (filter (alive (mkSG ents' (S n) (sfreed sgr))) todo) = map fst (filter (alive sgr) todo)).
          { f_equal. apply filter_ext_in'. intros [e cc] Hin. unfold alive; simpl.
            destruct (F5 e cc Hin) as [nd [A _]]. apply (has_ent_app_mid e (ents sgr) ents' a n b E1 E2).
            apply OLD in A. lia. }
          rewrite Htodo, <- F4, E1, E2.
          destruct m as [y|]; simpl; [|reflexivity].
          assert (Hyn : y <> n).
          { destruct (first_live_some _ _ _ F3) as [nd0 [Hnd0 _]]. apply OLD in Hnd0. lia. }
          rewrite (filter_sfrom_insert _ y n a b Hn_notold Hyn).
          apply filter_ext_in'. intros z Hz. apply Hsame. apply (sfrom_incl y). exact Hz.
        * intros e cc Hin. destruct (F5 e cc Hin) as [nd [A B]]. destruct (EX e nd A) as [nd' [A' [B' _]]].
          exists nd'. split; [exact A'|congruence].
        * lia.
      + exists gr0, sgr0, m, l0, o0. rewrite GG, SG, GL.
        destruct (Nat.eq_dec g0 (lg o)) as [X|_]; [contradiction|].
        destruct (Nat.eq_dec l0 l) as [->|Hl0].
        * rewrite Hl in F6; inversion F6; subst o0. exfalso; apply Hne; symmetry; exact F7.
        * repeat split; auto.
    - intros g0 s1 s2 e H1 H2 Hlt0 Hd. rewrite SG in H2. destruct (Nat.eq_dec g0 (lg o)) as [->|Hne].
      + rewrite Hsg in H1; inversion H1; subst s1. inversion H2; subst s2. simpl.
        rewrite (has_ent_app_mid e (ents sgr) ents' a n b E1 E2); [exact Hd|].
        destruct (r_all _ _ HR _ _ _ Hg Hsg) as [_ X]. unfold n. lia.
      + rewrite H1 in H2; inversion H2; subst; exact Hd.
    - intros g0 gr0 e nd H1 H2. rewrite GG. destruct (Nat.eq_dec g0 (lg o)) as [->|Hne].
      + rewrite Hg in H1; inversion H1; subst gr0. destruct (EX e nd H2) as [nd' [A [B [C D]]]].
        exists g2, nd'. auto.
      + exists gr0, nd. auto.
    - reflexivity.
    - intros l'. rewrite GL. destruct (Nat.eq_dec l' l) as [->|Hne]; [rewrite Hl; reflexivity|reflexivity].
  Qed.

  (* ---------- removing a callback ---------- *)

  Lemma remove_sim st sst l o gr sgr x :
    R st sst -> get_list st l = Some o -> get_group st (lg o) = Some gr -> s_get_group sst (lg o) = Some sgr ->
    In x (map fst (ents sgr)) ->
    R (put_group st (lg o) (g_unlink gr x)) (s_put_group sst (lg o) (mkSG (del_ent x (ents sgr)) (snext sgr) (sfreed sgr))) /\
    Ext st sst (put_group st (lg o) (g_unlink gr x)) (s_put_group sst (lg o) (mkSG (del_ent x (ents sgr)) (snext sgr) (sfreed sgr))).
  Proof.
    intros HR Hl Hg Hsg Hin.
    set (st' := put_group st (lg o) (g_unlink gr x)).
    set (sst' := s_put_group sst (lg o) (mkSG (del_ent x (ents sgr)) (snext sgr) (sfreed sgr))).
    destruct (r_grp _ _ HR l o Hl) as [gr0 [sgr0 [Hg0 [Hsg0 [HG [Hlt Hfr0]]]]]].
    rewrite Hg in Hg0; inversion Hg0; subst gr0. rewrite Hsg in Hsg0; inversion Hsg0; subst sgr0. clear Hg0 Hsg0.
    destruct (in_split _ _ Hin) as [a [b Eids]].
    assert (Hids := gr_inv _ _ _ HG). rewrite Eids in Hids.
    assert (Hnd : NoDup (a ++ x :: b)) by apply (gi_nodup _ _ Hids).
    assert (Hnd0 : NoDup (map fst (ents sgr))) by (rewrite Eids; exact Hnd).
    destruct (unlink_inv gr a x b Hids) as [G2 [FL [ND [Hlen Hfr]]]].
    assert (Edel : map fst (del_ent x (ents sgr)) = a ++ b).
    { rewrite (map_fst_del_ent _ _ Hnd0), Eids. apply filter_neq_split; exact Hnd. }
    assert (GL : forall l', get_list st' l' = get_list st l') by reflexivity.
    assert (GG : forall g', get_group st' g' = if Nat.eq_dec g' (lg o) then Some (g_unlink gr x) else get_group st g').
    { intros g'. unfold st'. destruct (Nat.eq_dec g' (lg o)) as [->|Hne].
      - apply (get_group_put_same _ _ _ gr Hg).
      - apply get_group_put_other; exact Hne. }
    assert (SG : forall g', s_get_group sst' g' = if Nat.eq_dec g' (lg o) then Some (mkSG (del_ent x (ents sgr)) (snext sgr) (sfreed sgr)) else s_get_group sst g').
    { intros g'. unfold sst'. destruct (Nat.eq_dec g' (lg o)) as [->|Hne].
      - apply (s_get_group_put_same _ _ _ sgr Hsg).
      - apply s_get_group_put_other; exact Hne. }
    assert (HR' : R st' sst').
    { constructor.
      - unfold st', sst'. simpl. apply (r_lists _ _ HR).
      - unfold st', sst'. simpl. rewrite !length_upd. apply (r_len _ _ HR).
      - intros l1 l2 o1 o2 H1 H2. apply (r_inj _ _ HR l1 l2 o1 o2 H1 H2).
      - intros l' o' H'. rewrite GL in H'.
        destruct (Nat.eq_dec l' l) as [->|Hne].
        + rewrite Hl in H'; inversion H'; subst o'. exists (g_unlink gr x), (mkSG (del_ent x (ents sgr)) (snext sgr) (sfreed sgr)).
          rewrite GG, SG. destruct (Nat.eq_dec (lg o) (lg o)) as [_|X]; [|contradiction].
          split; [reflexivity|]. split; [reflexivity|]. split; [|split; [exact Hlt|congruence]].
          constructor; simpl.
          * rewrite Edel. exact G2.
          * intros e cc Hi. apply in_del_ent in Hi. destruct (gr_cb _ _ _ HG e cc Hi) as [nd [A B]].
            destruct (ND e nd A) as [nd' [A' [B' _]]]. exists nd'. split; [exact A'|congruence].
          * intros e nd' He.
            assert (e < length (heap gr)) by (rewrite <- Hlen; apply nth_error_Some; rewrite He; discriminate).
            destruct (nth_error (heap gr) e) as [nd|] eqn:He0; [|apply nth_error_None in He0; lia].
            destruct (ND e nd He0) as [nd2 [A [B [C D]]]]. rewrite He in A; inversion A; subst nd2.
            destruct (Nat.eq_dec e x) as [->|Hne].
            -- rewrite (D eq_refl). unfold GenCL.removed_marker. lia.
            -- rewrite (C Hne). apply (gr_ctr _ _ _ HG e nd He0).
        + assert (Hgne : lg o' <> lg o). { intro X. apply Hne. apply (r_inj _ _ HR l' l o' o H' Hl X). }
          destruct (r_grp _ _ HR l' o' H') as [gr' [sgr' [A [B C]]]]. exists gr', sgr'.
          rewrite GG, SG. destruct (Nat.eq_dec (lg o') (lg o)); [contradiction|]. auto.
      - intros g' gr' sgr' H1 H2. rewrite GG in H1. rewrite SG in H2.
        destruct (Nat.eq_dec g' (lg o)) as [->|Hne].
        + inversion H1; inversion H2; subst. simpl. destruct (r_all _ _ HR _ _ _ Hg Hsg) as [A B]. split; congruence.
        + apply (r_all _ _ HR g' gr' sgr' H1 H2).
      - intros g' n' Hi. apply (r_pinown _ _ HR g' n' Hi).
      - apply (r_pins _ _ HR).
      - apply (r_regs _ _ HR).
      - apply (r_acts _ _ HR).
      - apply (r_trace _ _ HR). }
    split; [exact HR'|].
    constructor.
    - intros g0 c0 capt todo [gr0 [sgr0 [m [l0 [o0 [F1 [F2 [F3 [F4 [F5 [F6 [F7 F8]]]]]]]]]]]].
      destruct (Nat.eq_dec g0 (lg o)) as [->|Hne].
      + rewrite Hg in F1; inversion F1; subst gr0. rewrite Hsg in F2; inversion F2; subst sgr0.
        exists (g_unlink gr x), (mkSG (del_ent x (ents sgr)) (snext sgr) (sfreed sgr)),
               (if oeqb m (Some x) then hd_error b else m), l0, o0.
        rewrite GG, SG, GL. destruct (Nat.eq_dec (lg o) (lg o)) as [_|X]; [|contradiction].
        split; [reflexivity|]. split; [reflexivity|]. split; [apply FL; exact F3|].
        split; [|split; [|auto]].
        * simpl. rewrite Edel. rewrite (sfrom_o_unlink m x a b Hnd).
          assert (Hsame : forall y, In y (filter (neqb x) (sfrom_o m (a ++ x :: b))) ->
                                    oldb (heap (g_unlink gr x)) capt y = oldb (heap gr) capt y).
          { intros y Hy. apply filter_In in Hy. destruct Hy as [Hy1 Hy2].
            assert (Hyx : y <> x). { intro X; subst. rewrite neqb_refl in Hy2; discriminate. }
            assert (Hyin : In y (a ++ x :: b)).
            { destruct m as [z|]; simpl in Hy1; [apply (sfrom_incl z); exact Hy1|destruct Hy1]. }
            destruct (ginv_in_heap gr _ Hids y Hyin) as [nd Hndy].
            unfold oldb. rewrite Hndy. destruct (ND y nd Hndy) as [nd' [A [B [C D]]]]. rewrite A, (C Hyx). reflexivity. }
          rewrite (filter_ext_in' _ _ _ Hsame).
          rewrite filter_comm. rewrite Eids in F4. rewrite F4.
          rewrite filter_map_fst. f_equal.
          rewrite <- filter_and. apply filter_ext_in'. intros [e cc] _. unfold alive; simpl.
          symmetry. apply has_ent_del. exact Hnd0.
        * intros e cc Hi. destruct (F5 e cc Hi) as [nd [A B]]. destruct (ND e nd A) as [nd' [A' [B' _]]].
          exists nd'. split; [exact A'|congruence].
      + exists gr0, sgr0, m, l0, o0. rewrite GG, SG, GL.
        destruct (Nat.eq_dec g0 (lg o)) as [X|_]; [contradiction|]. repeat split; auto.
    - intros g0 s1 s2 e H1 H2 Hlt0 Hd. rewrite SG in H2. destruct (Nat.eq_dec g0 (lg o)) as [->|Hne].
      + rewrite Hsg in H1; inversion H1; subst s1. inversion H2; subst s2. simpl.
        rewrite (has_ent_del _ _ _ Hnd0), Hd. reflexivity.
      + rewrite H1 in H2; inversion H2; subst; exact Hd.
    - intros g0 gr0 e nd H1 H2. rewrite GG. destruct (Nat.eq_dec g0 (lg o)) as [->|Hne].
      + rewrite Hg in H1; inversion H1; subst gr0. destruct (ND e nd H2) as [nd' [A [B [C D]]]].
        exists (g_unlink gr x), nd'. split; [reflexivity|]. split; [exact A|]. split; [exact B|].
        intros Hl'. destruct (Nat.eq_dec e x) as [->|Hne]; [|apply C; exact Hne].
        exfalso. apply Hl'. apply D. reflexivity.
      + exists gr0, nd. auto.
    - reflexivity.
    - intros l'. reflexivity.
  Qed.
End Refine.
