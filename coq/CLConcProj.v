(* CLConcProj.v — C03: every execution of the thread-level machine of CLConc.v projects to a sequence of critical
   sections.

   The machine (the one whose runs are replayed, schedule by schedule, against the real CallbackList) executes API calls as
   visible actions and local code; the sections it executes are recorded in the ghost `lsecs`.  Proved here, for EVERY
   set of thread programs, EVERY schedule and EVERY number of steps:

     * the list is the replay of the recorded sections, in the order in which they were executed, and the recorded
       results are the results of that replay (`GI`);
     * unless the 32-bit counter wrapped to 0 (C19's business), every recorded adding section carries a non-zero counter;
     * the sections recorded for a thread that has finished are exactly those of its calls, in program order, and the
       results its remove / ownsHandle / empty calls reported are the results of its sections (`Post`);

   hence (with CLConcProofs.sections_in_any_order_refine_list_spec) the content of the list and all results are those of the
   sequential list specification executed in the order of the sections — an order that contains each thread's calls in
   program order; that a call's section lies between the call's first and last action is the shape of its code
   (`section_inside_call`).

   Technique: a weakest-precondition calculus per thread in which the shared state is re-read at EVERY instruction through
   the rely relation (what other threads may do to the facts this thread uses), so that a thread's assertion is stable
   wherever the thread is stopped — also when `ladvance` runs out of fuel in the middle of local code. *)
From Coq Require Import List Arith NArith ZArith Bool Lia.
From EV Require Import CLModel CLHeap CLOps CLRefine CLConc CLConcProofs.
From EV.gen Require GenCL.
Import ListNotations.
Local Open Scope nat_scope.

Definition eth (e : nat * sec * bool) : nat := fst (fst e).
Definition esec (e : nat * sec * bool) : sec := snd (fst e).
Definition eres (e : nat * sec * bool) : bool := snd e.

(* the list after the recorded sections (newest first), and the results they had *)
Fixpoint replay (l : list (nat * sec * bool)) : group :=
  match l with [] => empty_group | e :: r => fst (sec_step (replay r) (esec e)) end.

Fixpoint results_ok (l : list (nat * sec * bool)) : Prop :=
  match l with [] => True | e :: r => snd (sec_step (replay r) (esec e)) = eres e /\ results_ok r end.

Definition wrapped (s : lshared) : Prop := exists u, In (LaInc u 0%N) (llog s).

Definition GI (s : lshared) : Prop :=
  lgrp s = replay (lsecs s) /\ results_ok (lsecs s) /\
  (wrapped s \/ Forall (fun e => sec_counter_ok (esec e)) (lsecs s)).

(* the sections of one thread, newest first; the results one thread has reported, newest first *)
Definition tsecs (t : nat) (s : lshared) : list (nat * sec * bool) := filter (fun e => Nat.eqb (eth e) t) (lsecs s).

Definition rl (t : nat) (s : lshared) : list bool :=
  flat_map (fun a => match a with LaRes u b => if Nat.eqb u t then [b] else [] | _ => [] end) (llog s).

(* what the other threads may do to what thread t relies on *)
Definition Rely (t : nat) (s s1 : lshared) : Prop :=
  tsecs t s1 = tsecs t s /\ rl t s1 = rl t s /\ (wrapped s -> wrapped s1).

Lemma Rely_refl t s : Rely t s s.
Proof. repeat split; auto. Qed.

Lemma Rely_trans t a b c : Rely t a b -> Rely t b c -> Rely t a c.
Proof.
  intros [A1 [A2 A3]] [B1 [B2 B3]]. split; [congruence|]. split; [congruence|auto].
Qed.

(* what a step of thread t must guarantee: the global invariant, and the rely of everybody else *)
Definition Guar (t : nat) (s s' : lshared) : Prop :=
  (GI s -> GI s') /\ (forall u, u <> t -> Rely u s s').

Lemma Guar_refl t s : Guar t s s.
Proof. split; [auto|]. intros; apply Rely_refl. Qed.

Lemma Guar_trans t a b c : Guar t a b -> Guar t b c -> Guar t a c.
Proof.
  intros [A1 A2] [B1 B2]. split; [auto|]. intros u Hu. eapply Rely_trans; eauto.
Qed.

(* the visible actions: effect on the shared state and on the locals (lperform) *)
Definition vis (i : linstr) : bool :=
  match i with JLock | JUnlock | JInc | JLoad | JStart => true | _ => false end.

Definition veff (t : nat) (i : linstr) (s : lshared) (l : llocals) : lshared * llocals :=
  match i with
  | JLock => (ls_own (ls_log s (LaLock t)) (Some t), l)
  | JUnlock => (ls_own (ls_log s (LaUnlock t)) None, l)
  | JInc => let v := ((lcc s + 1) mod W32)%N in
            (ls_log (ls_cc s v) (LaInc t v), mkLL (ln l) v (lbefore l) (lcur l) (lcapt l) (lresb l))
  | JLoad => (ls_log s (LaLoad t (lcc s)), mkLL (ln l) (lk l) (lbefore l) (lcur l) (lcc s) (lresb l))
  | _ => (s, l)
  end.

Section CALC.
Variable t : nat.

Fixpoint wci (i : linstr) (K : lshared -> llocals -> Prop) (s : lshared) (l : llocals) {struct i} : Prop :=
  match i with
  | JLocal _ f =>
      forall s1, Rely t s s1 -> Guar t s1 (fst (f t s1 l)) /\ K (fst (f t s1 l)) (snd (f t s1 l))
  | JIf c a b =>
      forall s1, Rely t s s1 ->
        (c s1 l = true ->
         (fix wl (cd : list linstr) (K : lshared -> llocals -> Prop) (s : lshared) (l : llocals) {struct cd} : Prop :=
            match cd with [] => K s l | j :: r => wci j (wl r K) s l end) a K s1 l) /\
        (c s1 l = false ->
         (fix wl (cd : list linstr) (K : lshared -> llocals -> Prop) (s : lshared) (l : llocals) {struct cd} : Prop :=
            match cd with [] => K s l | j :: r => wci j (wl r K) s l end) b K s1 l)
  | JLoop => forall s1 l1, Rely t s s1 -> K s1 l1
  | JRes => forall s1, Rely t s s1 -> K (ls_log s1 (LaRes t (lresb l))) l
  | JDone => forall s1, Rely t s s1 -> K (ls_log s1 (LaDone t)) l
  | _ => forall s1, Rely t s s1 -> K (fst (veff t i s1 l)) (snd (veff t i s1 l))
  end.

Fixpoint wcl (cd : list linstr) (K : lshared -> llocals -> Prop) (s : lshared) (l : llocals) {struct cd} : Prop :=
  match cd with [] => K s l | j :: r => wci j (wcl r K) s l end.

Lemma wci_if c a b K s l :
  wci (JIf c a b) K s l =
  (forall s1, Rely t s s1 -> (c s1 l = true -> wcl a K s1 l) /\ (c s1 l = false -> wcl b K s1 l)).
Proof. reflexivity. Qed.


(* induction principle through the nested instruction lists *)
Definition not_jif (i : linstr) : Prop := match i with JIf _ _ _ => False | _ => True end.
Fixpoint linstr_ind' (P : linstr -> Prop) (Hbase : forall i, not_jif i -> P i)
         (Hif : forall c a b, Forall P a -> Forall P b -> P (JIf c a b)) (i : linstr) {struct i} : P i :=
  match i as i0 return P i0 with
  | JIf c a b =>
      Hif c a b
          ((fix go (l : list linstr) : Forall P l :=
              match l with [] => Forall_nil P | j :: r => Forall_cons j (linstr_ind' P Hbase Hif j) (go r) end) a)
          ((fix go (l : list linstr) : Forall P l :=
              match l with [] => Forall_nil P | j :: r => Forall_cons j (linstr_ind' P Hbase Hif j) (go r) end) b)
  | JLock => Hbase JLock I | JUnlock => Hbase JUnlock I | JInc => Hbase JInc I | JLoad => Hbase JLoad I
  | JStart => Hbase JStart I | JLocal b f => Hbase (JLocal b f) I | JLoop => Hbase JLoop I
  | JRes => Hbase JRes I | JDone => Hbase JDone I
  end.

Definition mono_at (i : linstr) : Prop :=
  forall (K K' : lshared -> llocals -> Prop) s l, (forall x y, K x y -> K' x y) -> wci i K s l -> wci i K' s l.

Lemma wcl_mono_F cd : Forall mono_at cd ->
  forall (K K' : lshared -> llocals -> Prop) s l, (forall x y, K x y -> K' x y) -> wcl cd K s l -> wcl cd K' s l.
Proof.
  induction 1 as [|j r Hj _ IH]; intros K K' s l HK H; cbn [wcl] in *.
  - apply HK; exact H.
  - eapply Hj; [|exact H]. intros x y Hx. eapply IH; eauto.
Qed.

Lemma wci_mono i : mono_at i.
Proof.
  induction i as [i Hn | c a b Ha Hb] using linstr_ind'.
  - intros K K' s l HK H. destruct i as [| | | | |b f|c x y| | |]; try contradiction; cbn [wci] in *.
    all: try (intros s1 HR; apply HK; apply H; exact HR).
    + intros s1 HR. destruct (H s1 HR) as [H1 H3]. split; [exact H1|apply HK; exact H3].
    + intros s1 l1 HR. apply HK. apply H. exact HR.
  - intros K K' s l HK H. rewrite wci_if in *. intros s1 HR. destruct (H s1 HR) as [H1 H2]. split; intros Hc.
    + eapply wcl_mono_F; eauto.
    + eapply wcl_mono_F; eauto.
Qed.

Lemma wcl_mono cd : forall (K K' : lshared -> llocals -> Prop) s l, (forall x y, K x y -> K' x y) -> wcl cd K s l -> wcl cd K' s l.
Proof. apply wcl_mono_F. apply Forall_forall. intros i _. apply wci_mono. Qed.

Lemma wcl_app a : forall b K s l, wcl (a ++ b) K s l <-> wcl a (wcl b K) s l.
Proof.
  induction a as [|j r IH]; intros b K s l; cbn [wcl app]; [tauto|].
  split; intros H; (eapply wci_mono; [|exact H]); intros x y Hx; apply IH; exact Hx.
Qed.

(* an assertion in front of an instruction is stable under the interference of the other threads *)
Lemma wci_stable i (K : lshared -> llocals -> Prop) s s1 l : Rely t s s1 -> wci i K s l -> wci i K s1 l.
Proof.
  intros HR H. destruct i as [| | | | |b f|c x y| | |]; cbn [wci] in *.
  all: try (intros s2 HR2; apply H; eapply Rely_trans; eauto).
  - intros s2 l2 HR2. apply H. eapply Rely_trans; eauto.
Qed.

Lemma wcl_stable cd (K : lshared -> llocals -> Prop) s s1 l :
  (forall a b y, Rely t a b -> K a y -> K b y) -> Rely t s s1 -> wcl cd K s l -> wcl cd K s1 l.
Proof.
  intros HK HR H. destruct cd as [|i r]; cbn [wcl] in *.
  - eapply HK; eauto.
  - eapply wci_stable; eauto.
Qed.

End CALC.

(* ---------- what the steps of a thread do to the facts ---------- *)
Lemma wrapped_log s a : wrapped s -> wrapped (ls_log s a).
Proof. intros [u H]. exists u. right. exact H. Qed.

Lemma GI_eq s s' : lgrp s' = lgrp s -> lsecs s' = lsecs s -> (wrapped s -> wrapped s') -> GI s -> GI s'.
Proof.
  intros A B C [G1 [G2 G3]]. unfold GI. rewrite A, B. split; [exact G1|]. split; [exact G2|].
  destruct G3 as [W|F]; [left; auto|right; exact F].
Qed.

(* a step that touches neither the list nor the section record, and logs nothing but `a` *)
Lemma log_guar t s a :
  (forall u b, a = LaRes u b -> u = t) -> Guar t s (ls_log s a).
Proof.
  intros Ha. split.
  - apply GI_eq; try reflexivity. apply wrapped_log.
  - intros u Hu. split; [reflexivity|]. split; [|apply wrapped_log].
    unfold rl. cbn [llog ls_log flat_map]. destruct a as [| | | | | |u' b| |]; try reflexivity.
    rewrite (Ha u' b eq_refl). destruct (Nat.eqb_spec t u); [subst; contradiction|reflexivity].
Qed.

Lemma log_rely t s a : (forall b, a <> LaRes t b) -> Rely t s (ls_log s a).
Proof.
  intros Ha. split; [reflexivity|]. split; [|apply wrapped_log].
  unfold rl. cbn [llog ls_log flat_map]. destruct a as [| | | | | |u' b| |]; try reflexivity.
  destruct (Nat.eqb_spec u' t); [subst; exfalso; eapply Ha; reflexivity|reflexivity].
Qed.

Lemma veff_guar t i s l : vis i = true -> Guar t s (fst (veff t i s l)) /\ Rely t s (fst (veff t i s l)).
Proof.
  intros Hv. destruct i; try discriminate; cbn [veff fst].
  - (* lock *)
    split.
    + destruct (log_guar t s (LaLock t)) as [A B]; [intros; discriminate|]. split.
      * intros G. apply (GI_eq (ls_log s (LaLock t))); try reflexivity; auto.
      * intros u Hu. destruct (B u Hu) as [B1 [B2 B3]]. split; [exact B1|split; [exact B2|exact B3]].
    + destruct (log_rely t s (LaLock t)) as [B1 [B2 B3]]; [intros; discriminate|]. split; [exact B1|split; [exact B2|exact B3]].
  - split.
    + destruct (log_guar t s (LaUnlock t)) as [A B]; [intros; discriminate|]. split.
      * intros G. apply (GI_eq (ls_log s (LaUnlock t))); try reflexivity; auto.
      * intros u Hu. destruct (B u Hu) as [B1 [B2 B3]]. split; [exact B1|split; [exact B2|exact B3]].
    + destruct (log_rely t s (LaUnlock t)) as [B1 [B2 B3]]; [intros; discriminate|]. split; [exact B1|split; [exact B2|exact B3]].
  - (* inc *)
    set (v := ((lcc s + 1) mod W32)%N).
    assert (W : wrapped s -> wrapped (ls_log (ls_cc s v) (LaInc t v))) by (intros [u H]; exists u; right; exact H).
    split.
    + split.
      * apply GI_eq; try reflexivity. exact W.
      * intros u Hu. split; [reflexivity|]. split; [reflexivity|exact W].
    + split; [reflexivity|]. split; [reflexivity|exact W].
  - split; [apply log_guar; intros; discriminate|apply log_rely; intros; discriminate].
  - split; [apply Guar_refl|apply Rely_refl].
Qed.

(* ---------- the calls ---------- *)
Definition has_sec (c : lapi) : bool := match c with LInvoke _ | LForEach => false | _ => true end.

Definition call_sec (c : lapi) (x : sec) : Prop :=
  match c, x with
  | LAppend cb _, SBack cb' _ => cb' = cb
  | LPrepend cb _, SFront cb' _ => cb' = cb
  | LInsert cb _ _, SBefore cb' _ _ => cb' = cb
  | LRemove _, SRemove _ => True
  | LOwns _, SOwns _ => True
  | LEmpty, SEmpty => True
  | _, _ => False
  end.

Definition mode_of (c : lapi) : option Z := match c with LInvoke x => Some x | _ => None end.

Section THREAD.
Variable t : nat.
Variable P : list lapi.        (* the program of thread t *)

(* between two calls of thread t, `r` being the calls still to come: the sections recorded for t are those of the calls
   made so far, in order, and the results t has reported are the results of its querying / removing sections *)
Definition Post (r : list lapi) (s : lshared) (l : llocals) : Prop :=
  exists d, P = d ++ r /\
            Forall2 call_sec (filter has_sec d) (rev (map esec (tsecs t s))) /\
            rl t s = map eres (filter (fun e => negb (adds (esec e))) (tsecs t s)).

Lemma Post_stable r a b y : Rely t a b -> Post r a y -> Post r b y.
Proof.
  intros [R1 [R2 _]] [d [A [B C]]]. exists d. rewrite R1, R2. auto.
Qed.

Lemma Post_locals r s l l' : Post r s l -> Post r s l'.
Proof. intros H; exact H. Qed.


(* the facts thread t carries from instruction to instruction: its own sections, its own reported results, and a fact W
   that holds unless the counter has wrapped *)
Definition At (X : list (nat * sec * bool)) (Y : list bool) (W : Prop) (s : lshared) : Prop :=
  tsecs t s = X /\ rl t s = Y /\ (W \/ wrapped s).

Lemma At_rely X Y W s s' : At X Y W s -> Rely t s s' -> At X Y W s'.
Proof.
  intros [A [B C]] [R1 [R2 R3]]. split; [congruence|]. split; [congruence|]. destruct C; auto.
Qed.

Lemma At_weaken X Y (W W' : Prop) s : (W -> W') -> At X Y W s -> At X Y W' s.
Proof. intros H [A [B C]]. split; [exact A|]. split; [exact B|]. destruct C; auto. Qed.

Lemma At_inc X Y W s l :
  At X Y W s -> At X Y (lk (snd (veff t JInc s l)) <> 0%N) (fst (veff t JInc s l)).
Proof.
  intros [A [B C]]. cbn [veff fst snd lk]. split; [exact A|]. split; [exact B|].
  destruct (N.eq_dec ((lcc s + 1) mod W32) 0) as [E|E]; [right|left; exact E].
  exists t. left. rewrite E. reflexivity.
Qed.

Lemma At_res X Y W s b : At X Y W s -> At X (b :: Y) W (ls_log s (LaRes t b)).
Proof.
  intros [A [B C]]. split; [exact A|]. split.
  - unfold rl in *. cbn [llog ls_log flat_map]. rewrite Nat.eqb_refl. cbn [app]. f_equal. exact B.
  - destruct C as [C|C]; [left; exact C|right; apply wrapped_log; exact C].
Qed.

(* a section of thread t *)
Lemma sec_ok X Y (W : Prop) s sc g1 b :
  At X Y W s -> sec_step (lgrp s) sc = (g1, b) -> (W -> sec_counter_ok sc) ->
  Guar t s (ls_sec (ls_grp s g1) (t, sc, b)) /\ At ((t, sc, b) :: X) Y W (ls_sec (ls_grp s g1) (t, sc, b)).
Proof.
  intros [A [B C]] E HW. split; [split|].
  - intros [G1 [G2 G3]]. unfold GI. cbn [lgrp lsecs ls_sec ls_grp replay results_ok esec eres fst snd].
    rewrite <- G1, E. cbn [fst snd]. split; [reflexivity|]. split; [split; [reflexivity|exact G2]|].
    destruct G3 as [G3|G3]; [left; exact G3|].
    destruct C as [C|C]; [|left; exact C].
    right. constructor; [apply HW; exact C|exact G3].
  - intros u Hu. split; [|split; [reflexivity|auto]].
    unfold tsecs. cbn [lsecs ls_sec ls_grp filter eth fst].
    destruct (Nat.eqb_spec t u); [subst; contradiction|reflexivity].
  - split; [|split; [exact B|exact C]].
    unfold tsecs in *. cbn [lsecs ls_sec ls_grp filter eth fst]. rewrite Nat.eqb_refl. f_equal. exact A.
Qed.

(* a step that leaves the list, the section record and the log alone *)
Lemma quiet_guar s s' : lgrp s' = lgrp s -> lsecs s' = lsecs s -> llog s' = llog s -> Guar t s s' /\ Rely t s s'.
Proof.
  intros A B C.
  assert (W : wrapped s -> wrapped s') by (unfold wrapped; rewrite C; auto).
  assert (R : forall u, Rely u s s').
  { intros u. unfold Rely, tsecs, rl. rewrite B, C. auto. }
  split; [split|]; auto. apply GI_eq; auto.
Qed.

Lemma post_with_sec d c r X Y W Yn sc b s l :
  P = d ++ c :: r -> Forall2 call_sec (filter has_sec d) (rev (map esec X)) ->
  Y = map eres (filter (fun e => negb (adds (esec e))) X) ->
  call_sec c sc -> Yn = (if adds sc then Y else b :: Y) ->
  At ((t, sc, b) :: X) Yn W s -> Post r s l.
Proof.
  intros HP HF HY Hc HYn [A [B _]]. exists (d ++ [c]). split; [rewrite <- app_assoc; exact HP|].
  rewrite A, B. split.
  - rewrite filter_app. cbn [filter]. assert (Hs : has_sec c = true) by (destruct c, sc; try contradiction; reflexivity).
    rewrite Hs. cbn [map rev esec fst snd]. apply Forall2_app; [exact HF|constructor; [exact Hc|constructor]].
  - cbn [filter esec fst snd]. subst Yn. destruct (adds sc); cbn [negb map eres snd]; [exact HY|f_equal; exact HY].
Qed.

Lemma post_without_sec d c r X Y W s l :
  P = d ++ c :: r -> Forall2 call_sec (filter has_sec d) (rev (map esec X)) ->
  Y = map eres (filter (fun e => negb (adds (esec e))) X) ->
  has_sec c = false -> At X Y W s -> Post r s l.
Proof.
  intros HP HF HY Hc [A [B _]]. exists (d ++ [c]). split; [rewrite <- app_assoc; exact HP|].
  rewrite A, B. split; [|exact HY]. rewrite filter_app. cbn [filter]. rewrite Hc, app_nil_r. exact HF.
Qed.

End THREAD.

(* ---------- every call keeps its promise ---------- *)
(* thread t's own harmless steps, as seen by thread t *)
Lemma own_lock t s : Rely t s (ls_own (ls_log s (LaLock t)) (Some t)).
Proof. exact (proj2 (veff_guar t JLock s ll0 eq_refl)). Qed.
Lemma own_unlock t s : Rely t s (ls_own (ls_log s (LaUnlock t)) None).
Proof. exact (proj2 (veff_guar t JUnlock s ll0 eq_refl)). Qed.
Lemma own_load t s : Rely t s (ls_log s (LaLoad t (lcc s))).
Proof. exact (proj2 (veff_guar t JLoad s ll0 eq_refl)). Qed.
Lemma own_reg t s h v : Rely t s (ls_reg s h v).
Proof. apply (quiet_guar t s (ls_reg s h v)); reflexivity. Qed.
Lemma own_done t s : Rely t s (ls_log s (LaDone t)).
Proof. apply log_rely. intros; discriminate. Qed.
Lemma own_call t s c a : Rely t s (ls_log s (LaCall t c a)).
Proof. apply log_rely. intros; discriminate. Qed.
Lemma own_visit t s c : Rely t s (ls_log s (LaVisit t c)).
Proof. apply log_rely. intros; discriminate. Qed.

Ltac own := first [ apply Rely_refl | apply own_lock | apply own_unlock | apply own_load | apply own_reg | apply own_done
                  | apply own_call | apply own_visit ].

(* the next instruction reads the shared state afresh: carry the facts over the interference and over thread t's own
   last (harmless) step *)
Ltac hv :=
  let s1 := fresh "s" in let HR := fresh "HR" in
  intros s1 HR;
  match type of HR with
  | Rely ?t ?a s1 =>
      match goal with
      | [ HA : At t ?X ?Y ?W ?s0 |- _ ] =>
          first [ apply (fun h => At_rely t X Y W s0 s1 h HR) in HA
                | let Hown := fresh in
                  assert (Hown : Rely t s0 a) by own;
                  apply (fun h => At_rely t X Y W s0 s1 h (Rely_trans t s0 a s1 Hown HR)) in HA; clear Hown ]
      end
  end; clear HR.

Ltac quiet :=
  match goal with
  | [ |- Guar ?t ?s ?s' ] => apply (quiet_guar t s s'); reflexivity
  end.

Ltac dosec HA :=
  match goal with
  | [ |- context [ sec_step (lgrp ?s) ?sc ] ] =>
      let g1 := fresh "g" in let b := fresh "b" in let E := fresh "E" in
      destruct (sec_step (lgrp s) sc) as [g1 b] eqn:E; cbn [fst snd adds];
      let G := fresh "G" in let HA2 := fresh "HA" in
      match type of HA with
      | At ?t ?X ?Y ?W s =>
          destruct (sec_ok t X Y W s sc g1 b HA E) as [G HA2]; [try (intros H; exact H); try (intros _; exact I)|];
          split; [exact G|]; clear HA G
      end
  end.

Ltac hvl :=
  let s1 := fresh "s" in let l1 := fresh "l" in let HR := fresh "HR" in
  intros s1 l1 HR;
  match type of HR with
  | Rely ?t ?a s1 =>
      match goal with
      | [ HA : At t ?X ?Y ?W ?s0 |- _ ] =>
          first [ apply (fun h => At_rely t X Y W s0 s1 h HR) in HA
                | let Hown := fresh in
                  assert (Hown : Rely t s0 a) by own;
                  apply (fun h => At_rely t X Y W s0 s1 h (Rely_trans t s0 a s1 Hown HR)) in HA; clear Hown ]
      end
  end; clear HR.

Lemma call_ok t P c r s l0 :
  Post t P (c :: r) s l0 -> wcl t (lcode_of c) (Post t P r) s ll0.
Proof.
  intros [d [HP [HF HY]]].
  remember (tsecs t s) as X eqn:EX. remember (rl t s) as Y eqn:EY.
  assert (HA : At t X Y True s) by (split; [auto|split; [auto|left; exact I]]).
  clear EX EY.
  destruct c as [cb h|cb h|cb hb h|h|h| |a|]; cbn [lcode_of draw app wcl wci do_sec veff fst snd lk ln lresb ll0].
  - (* append *)
    hv. apply (At_inc t X Y True s0 ll0) in HA. cbn [veff fst snd lk] in HA.
    hv. hv. dosec HA. hv. hv. split; [quiet|]. hv.
    apply (fun h => At_rely _ _ _ _ _ _ h (own_done t s5)) in HA0.
    refine (post_with_sec t P d _ r X Y _ _ _ _ _ _ HP HF HY _ _ HA0); reflexivity.
  - (* prepend *)
    hv. apply (At_inc t X Y True s0 ll0) in HA. cbn [veff fst snd lk] in HA.
    hv. hv. dosec HA. hv. hv. split; [quiet|]. hv.
    apply (fun h => At_rely _ _ _ _ _ _ h (own_done t s5)) in HA0.
    refine (post_with_sec t P d _ r X Y _ _ _ _ _ _ HP HF HY _ _ HA0); reflexivity.
  - (* insert *)
    hv. split; [quiet|]. hv.
    apply (At_inc t X Y True s1 (mkLL None 0%N (reg_of s0 hb) None 0%N false)) in HA. cbn [veff fst snd lk] in HA.
    hv. hv. dosec HA. hv. hv. split; [quiet|]. hv.
    apply (fun h => At_rely _ _ _ _ _ _ h (own_done t s6)) in HA0.
    refine (post_with_sec t P d _ r X Y _ _ _ _ _ _ HP HF HY _ _ HA0); reflexivity.
  - (* remove *)
    hv. hv. dosec HA. hv. hv.
    apply (At_res t _ _ _ s3 b) in HA0.
    refine (post_with_sec t P d _ r X Y _ _ _ _ _ _ HP HF HY _ _ HA0); reflexivity.
  - (* ownsHandle *)
    hv. hv. dosec HA. hv. hv.
    apply (At_res t _ _ _ s3 b) in HA0.
    refine (post_with_sec t P d _ r X Y _ _ _ _ _ _ HP HF HY _ _ HA0); reflexivity.
  - (* empty *)
    hv. dosec HA. hv.
    apply (At_res t _ _ _ s1 b) in HA0.
    refine (post_with_sec t P d _ r X Y _ _ _ _ _ _ HP HF HY _ _ HA0); reflexivity.
  - (* invoke *)
    hv. hv. split; [quiet|]. hv. hv. hvl. hv.
    apply (fun h => At_rely _ _ _ _ _ _ h (own_done t s5)) in HA.
    refine (post_without_sec t P d _ r X Y _ _ _ HP HF HY _ HA); reflexivity.
  - (* forEach *)
    hv. hv. split; [quiet|]. hv. hv. hvl. hv.
    apply (fun h => At_rely _ _ _ _ _ _ h (own_done t s5)) in HA.
    refine (post_without_sec t P d _ r X Y _ _ _ HP HF HY _ HA); reflexivity.
Qed.

(* the loop of doForEachIf: one more iteration, or the exit *)
Lemma loop_ok t m rest (K : lshared -> llocals -> Prop) s l :
  wci t JLoop (wcl t rest K) s l -> wcl t (loop_body m ++ rest) K s l.
Proof.
  intros H. cbn [wci] in H. apply wcl_app. unfold loop_body. cbn [wcl]. rewrite wci_if.
  intros s1 HR1. split; intros Hc.
  - cbn [wcl wci veff fst snd].
    intros s2 HR2.
    assert (V : Guar t s2 (fst (match lcur l with
                                | Some n => match node_of s2 n with
                                            | Some nd => if GenCL.visit_cond (ctr nd) (lcapt l)
                                                         then (ls_log s2 (match m with Some a => LaCall t (cb nd) a | None => LaVisit t (cb nd) end), l)
                                                         else (s2, l)
                                            | None => (s2, l)
                                            end
                                | None => (s2, l)
                                end)) /\
                Rely t s2 (fst (match lcur l with
                                | Some n => match node_of s2 n with
                                            | Some nd => if GenCL.visit_cond (ctr nd) (lcapt l)
                                                         then (ls_log s2 (match m with Some a => LaCall t (cb nd) a | None => LaVisit t (cb nd) end), l)
                                                         else (s2, l)
                                            | None => (s2, l)
                                            end
                                | None => (s2, l)
                                end))).
    { destruct (lcur l) as [n|]; [|split; [apply Guar_refl|apply Rely_refl]].
      destruct (node_of s2 n) as [nd|]; [|split; [apply Guar_refl|apply Rely_refl]].
      destruct (GenCL.visit_cond (ctr nd) (lcapt l)); [|split; [apply Guar_refl|apply Rely_refl]].
      cbn [fst]. destruct m; (split; [apply log_guar; intros; discriminate|apply log_rely; intros; discriminate]). }
    destruct V as [V1 V2]. split; [exact V1|].
    intros s3 HR3. intros s4 HR4.
    assert (Q : forall (x : lshared * llocals), fst x = ls_own (ls_log s3 (LaLock t)) (Some t) -> True) by auto.
    split.
    + destruct (snd _) as [? ? ? cur ? ?] eqn:El. cbn [lcur]. destruct cur as [n|]; [|apply Guar_refl].
      destruct (node_of s4 n); apply Guar_refl.
    + intros s5 HR5 s6 l6 HR6. apply H.
      assert (E4 : forall (x : lshared * llocals) n, fst (match node_of s4 n with Some nd => (s4, snd x) | None => (s4, snd x) end) = s4)
        by (intros; destruct (node_of s4 n); reflexivity).
      eapply Rely_trans; [exact HR1|]. eapply Rely_trans; [exact HR2|]. eapply Rely_trans; [exact V2|].
      eapply Rely_trans; [exact HR3|]. eapply Rely_trans; [apply own_lock|]. eapply Rely_trans; [exact HR4|].
      match type of HR5 with Rely _ ?a _ => assert (E5 : a = s4) end.
      { destruct (snd _) as [? ? ? cur ? ?]. cbn [lcur]. destruct cur as [n|]; [|reflexivity]. destruct (node_of s4 n); reflexivity. }
      rewrite E5 in HR5. eapply Rely_trans; [exact HR5|]. eapply Rely_trans; [apply own_unlock|]. exact HR6.
  - cbn [wcl]. apply H. exact HR1.
Qed.

(* ---------- soundness along the machine ---------- *)
Section RUN.
Variable progs : list (list lapi).
Definition prog (t : nat) : list lapi := nth t progs [].

Definition th_ok (t : nat) (th : lthread) (s : lshared) : Prop :=
  if lfin th then lcode th = [] /\ Post t (prog t) [] s (lloc th)
  else wcl t (lcode th) (Post t (prog t) (lcalls th)) s (lloc th).

Lemma th_ok_stable t th s s' : Rely t s s' -> th_ok t th s -> th_ok t th s'.
Proof.
  unfold th_ok. intros HR H. destruct (lfin th).
  - destruct H as [A B]. split; [exact A|]. eapply Post_stable; eauto.
  - eapply wcl_stable; [|exact HR|exact H]. intros a b y R. apply Post_stable. exact R.
Qed.

Definition others (t : nat) (s s' : lshared) : Prop := forall u, u <> t -> Rely u s s'.

Lemma others_refl t s : others t s s.
Proof. intros u _. apply Rely_refl. Qed.

Lemma others_trans t a b c : others t a b -> others t b c -> others t a c.
Proof. intros A B u Hu. eapply Rely_trans; eauto. Qed.

Lemma ladvance_ok t : forall fuel s cd cl l m,
  GI s -> wcl t cd (Post t (prog t) cl) s l ->
  let r := ladvance fuel t s (mkLT cd cl l false m) in
  GI (fst r) /\ th_ok t (snd r) (fst r) /\ others t s (fst r).
Proof.
  induction fuel as [|f IH]; intros s cd cl l m HG HW.
  - cbn [ladvance fst snd]. split; [exact HG|]. split; [exact HW|apply others_refl].
  - cbn [ladvance lcode lcalls lloc lmode]. destruct cd as [|i rest].
    + destruct cl as [|c r].
      * cbn [fst snd]. split; [exact HG|]. split; [split; [reflexivity|exact HW]|apply others_refl].
      * apply IH; [exact HG|]. cbn [wcl] in HW. eapply call_ok; exact HW.
    + cbn [wcl] in HW. destruct i as [| | | | |b fn|c x y| | |];
        try (cbn [fst snd]; split; [exact HG|]; split; [exact HW|apply others_refl]).
      * (* local *)
        cbn [wci] in HW. destruct (HW s (Rely_refl t s)) as [[G1 G2] HK].
        destruct (fn t s l) as [s1 l1] eqn:E. cbn [fst snd] in *.
        destruct (IH s1 rest cl l1 m (G1 HG) HK) as [A [B C]].
        split; [exact A|]. split; [exact B|]. eapply others_trans; [exact G2|exact C].
      * (* if *)
        rewrite wci_if in HW. destruct (HW s (Rely_refl t s)) as [Ha Hb].
        apply IH; [exact HG|]. apply wcl_app. destruct (c s l); auto.
      * (* loop *)
        apply IH; [exact HG|]. apply loop_ok. exact HW.
      * (* res *)
        cbn [wci] in HW. specialize (HW s (Rely_refl t s)).
        destruct (log_guar t s (LaRes t (lresb l))) as [G1 G2]; [intros u b0 E; inversion E; reflexivity|].
        destruct (IH (ls_log s (LaRes t (lresb l))) rest cl l m (G1 HG) HW) as [A [B C]].
        split; [exact A|]. split; [exact B|]. eapply others_trans; [exact G2|exact C].
      * (* done *)
        cbn [wci] in HW. specialize (HW s (Rely_refl t s)).
        destruct (log_guar t s (LaDone t)) as [G1 G2]; [intros; discriminate|].
        destruct (IH (ls_log s (LaDone t)) rest cl l m (G1 HG) HW) as [A [B C]].
        split; [exact A|]. split; [exact B|]. eapply others_trans; [exact G2|exact C].
Qed.

Definition Inv (s : lshared) (ths : list lthread) : Prop :=
  GI s /\ forall t th, nth_error ths t = Some th -> th_ok t th s.

Lemma nth_lset : forall (ths : list lthread) t x u,
  nth_error (lset ths t x) u = if Nat.eqb u t then match nth_error ths t with Some _ => Some x | None => None end else nth_error ths u.
Proof.
  induction ths as [|y r IH]; intros t x u; cbn [lset].
  - destruct (Nat.eqb u t); destruct t, u; reflexivity.
  - destruct t as [|t]; destruct u as [|u]; cbn [nth_error Nat.eqb]; try reflexivity. apply IH.
Qed.

Lemma lperform_ok t s ths :
  Inv s ths -> Inv (fst (lperform t s ths)) (snd (lperform t s ths)).
Proof.
  intros [HG HT]. unfold lperform. destruct (nth_error ths t) as [th|] eqn:Et; [|split; assumption].
  destruct th as [cd cl l fin m]. cbn [lcode lcalls lloc lmode].
  destruct cd as [|i rest]; [split; assumption|].
  assert (Hth := HT t _ Et). unfold th_ok in Hth. cbn [lfin lcode lcalls lloc] in Hth.
  destruct fin; [destruct Hth as [X _]; discriminate|].
  cbn [wcl] in Hth.
  (* the visible action, if the head is one, then the local code behind it *)
  assert (Fin : forall s1 cd1 l1, GI s1 -> wcl t cd1 (Post t (prog t) cl) s1 l1 -> others t s s1 ->
            Inv (fst (let '(s2, th2) := ladvance LFUEL t s1 (mkLT cd1 cl l1 false m) in (s2, lset ths t th2)))
                (snd (let '(s2, th2) := ladvance LFUEL t s1 (mkLT cd1 cl l1 false m) in (s2, lset ths t th2)))).
  { intros s1 cd1 l1 G1 W1 O1.
    destruct (ladvance_ok t LFUEL s1 cd1 cl l1 m G1 W1) as [A [B C]].
    destruct (ladvance LFUEL t s1 (mkLT cd1 cl l1 false m)) as [s2 th2]. cbn [fst snd] in *.
    split; [exact A|].
    intros u th' Hu. rewrite nth_lset in Hu. destruct (Nat.eqb_spec u t) as [->|Hne].
    - rewrite Et in Hu. inversion Hu; subst th'. exact B.
    - eapply th_ok_stable; [|apply HT; exact Hu]. eapply Rely_trans; [apply O1; exact Hne|apply C; exact Hne]. }
  destruct i as [| | | | |b fn|c x y| | |]; cbn beta iota zeta.
  6-10: (apply Fin; [exact HG|exact Hth|apply others_refl]).
  all: cbn [wci] in Hth; specialize (Hth s (Rely_refl t s)); cbn [veff fst snd] in Hth.
  - destruct (veff_guar t JLock s l eq_refl) as [[G1 G2] _]. apply Fin; [exact (G1 HG)|exact Hth|exact G2].
  - destruct (veff_guar t JUnlock s l eq_refl) as [[G1 G2] _]. apply Fin; [exact (G1 HG)|exact Hth|exact G2].
  - destruct (veff_guar t JInc s l eq_refl) as [[G1 G2] _]. apply Fin; [exact (G1 HG)|exact Hth|exact G2].
  - destruct (veff_guar t JLoad s l eq_refl) as [[G1 G2] _]. apply Fin; [exact (G1 HG)|exact Hth|exact G2].
  - apply Fin; [exact HG|exact Hth|apply others_refl].
Qed.

Lemma Inv_log s ths : Inv s ths -> Inv (ls_log s LaDeadlock) ths.
Proof.
  intros [HG HT]. split.
  - apply (GI_eq s (ls_log s LaDeadlock)); [reflexivity|reflexivity|apply wrapped_log|exact HG].
  - intros t th H. eapply th_ok_stable; [|apply HT; exact H]. apply log_rely. intros; discriminate.
Qed.

Lemma lrun_ok : forall fuel s ths sch, Inv s ths -> Inv (fst (lrun fuel s ths sch)) (snd (lrun fuel s ths sch)).
Proof.
  induction fuel as [|f IH]; intros s ths sch H; cbn [lrun]; [exact H|].
  destruct (lnext s ths sch) as [pick rest].
  destruct (match pick with Some t => Some t | None => lfirst ths 0 (lenabled s) end) as [t|].
  - assert (H1 := lperform_ok t s ths H). destruct (lperform t s ths) as [s1 ths1]. apply IH. exact H1.
  - destruct (forallb lfin ths); [exact H|]. cbn [fst snd]. apply Inv_log. exact H.
Qed.

Lemma init_ok : Inv ls0 (lstart progs).
Proof.
  split.
  - split; [reflexivity|]. split; [exact I|right; constructor].
  - intros t th H. unfold lstart in H. rewrite nth_error_map in H.
    destruct (nth_error progs t) as [p|] eqn:Ep; [|discriminate]. inversion H; subst th. clear H.
    unfold th_ok. cbn [lfin lcode lcalls lloc wcl wci veff fst snd].
    intros s1 [R1 [R2 _]]. exists []. split.
    + unfold prog. cbn [app]. apply (nth_error_nth progs t []). exact Ep.
    + rewrite R1, R2. split; [constructor|reflexivity].
Qed.

Theorem projection_every_schedule fuel sch :
  Inv (fst (lrun fuel ls0 (lstart progs) sch)) (snd (lrun fuel ls0 (lstart progs) sch)).
Proof. apply lrun_ok. apply init_ok. Qed.

End RUN.

(* ---------- what the invariant says about a run ---------- *)
Lemma run_secs_snoc : forall l g x,
  run_secs g (l ++ [x]) =
  (fst (sec_step (fst (run_secs g l)) x), snd (run_secs g l) ++ [snd (sec_step (fst (run_secs g l)) x)]).
Proof.
  induction l as [|y r IH]; intros g x; cbn [app run_secs].
  - cbn [fst snd]. destruct (sec_step g x) as [g1 b]. reflexivity.
  - destruct (sec_step g y) as [g1 b]. rewrite IH. destruct (run_secs g1 r) as [g2 bs]. reflexivity.
Qed.

(* the record, oldest first, is a run of sections from the empty list *)
Lemma replay_is_run_secs : forall L,
  results_ok L -> run_secs empty_group (rev (map esec L)) = (replay L, rev (map eres L)).
Proof.
  induction L as [|e r IH]; intros H; cbn [map rev replay]; [reflexivity|].
  destruct H as [H1 H2]. rewrite run_secs_snoc, (IH H2). cbn [fst snd]. rewrite H1. reflexivity.
Qed.

Section HEADLINE.
Variable progs : list (list lapi).
Variable sch : list nat.
Variable fuel : nat.
Let s := fst (lrun fuel ls0 (lstart progs) sch).
Let ths := snd (lrun fuel ls0 (lstart progs) sch).

(* the sections in the order in which they were executed, and their results *)
Definition secs_of (x : lshared) : list sec := rev (map esec (lsecs x)).
Definition results_of (x : lshared) : list bool := rev (map eres (lsecs x)).

(* 1. the list of the machine is what the recorded sections, run one after the other, make of the empty list *)
Theorem machine_list_is_the_run_of_its_sections :
  run_secs empty_group (secs_of s) = (lgrp s, results_of s).
Proof.
  destruct (projection_every_schedule progs fuel sch) as [[G1 [G2 _]] _]. fold s in G1, G2.
  unfold secs_of, results_of. rewrite (replay_is_run_secs _ G2), G1. reflexivity.
Qed.

(* 2. unless the 32-bit counter wrapped to zero, content and results are those of the sequential list specification
      executed in the order of the sections *)
Theorem every_execution_linearizes :
  ~ wrapped s ->
  GInv (lgrp s) (fst (spec_secs 0 [] (secs_of s))) /\ results_of s = snd (spec_secs 0 [] (secs_of s)).
Proof.
  intros NW.
  destruct (projection_every_schedule progs fuel sch) as [[G1 [G2 G3]] _]. fold s in G1, G2, G3.
  destruct G3 as [G3|G3]; [contradiction|].
  assert (F : Forall sec_counter_ok (secs_of s)).
  { unfold secs_of. apply Forall_rev. apply Forall_forall. intros x Hx. apply in_map_iff in Hx. destruct Hx as [e [<- He]].
    rewrite Forall_forall in G3. apply G3. exact He. }
  destruct (sections_in_any_order_refine_list_spec (secs_of s) empty_group [] ginv_empty F) as [A B].
  rewrite machine_list_is_the_run_of_its_sections in A, B. cbn [fst snd] in A, B. cbn [empty_group heap length] in A, B.
  split; [exact A|exact B].
Qed.

(* 3. that order contains the calls of every finished thread in program order, one section per adding / removing /
      querying call, and what the thread reported (LaRes) are the results of its removing / querying sections *)
Theorem sections_of_a_finished_thread_are_its_calls_in_program_order t th :
  nth_error ths t = Some th -> lfin th = true ->
  Forall2 call_sec (filter has_sec (prog progs t)) (rev (map esec (tsecs t s))) /\
  rl t s = map eres (filter (fun e => negb (adds (esec e))) (tsecs t s)).
Proof.
  intros Ht Hf.
  destruct (projection_every_schedule progs fuel sch) as [_ HT]. fold s ths in HT.
  specialize (HT t th Ht). unfold th_ok in HT. rewrite Hf in HT. destruct HT as [_ [d [A [B C]]]].
  rewrite app_nil_r in A. subst d. split; assumption.
Qed.

End HEADLINE.

(* 4. the section of a call lies inside the call: it is preceded by the call's first action (the increment, the lock or
      the section itself for empty()) and followed by the call's end marker *)
Definition ends_call (i : linstr) : bool := match i with JRes | JDone => true | _ => false end.

Lemma section_inside_call c :
  has_sec c = true ->
  exists pre b x post, lcode_of c = pre ++ do_sec b x :: post /\
                       existsb ends_call pre = false /\ existsb ends_call post = true.
Proof.
  destruct c as [cb h|cb h|cb hb h|h|h| |a|]; intros H; try discriminate; cbn [lcode_of draw app].
  - exists [JInc; JLock]. do 3 eexists. split; [reflexivity|]. split; reflexivity.
  - exists [JInc; JLock]. do 3 eexists. split; [reflexivity|]. split; reflexivity.
  - eexists [_; JInc; JLock]. do 3 eexists. split; [reflexivity|]. split; reflexivity.
  - exists [JLock]. do 3 eexists. split; [reflexivity|]. split; reflexivity.
  - exists [JLock]. do 3 eexists. split; [reflexivity|]. split; reflexivity.
  - exists []. do 3 eexists. split; [reflexivity|]. split; reflexivity.
Qed.

(* ---------- the statements are about real runs ---------- *)
(* three threads: append / append / invoke  |  remove / append / remove  |  insert-before / ownsHandle / empty, under a
   schedule that interleaves them; nothing wrapped, every thread finished, ten sections were executed *)
Definition proj_progs : list (list lapi) :=
  [[LAppend 1 0; LAppend 2 1; LInvoke 7%Z]; [LRemove 0; LAppend 3 2; LRemove 0]; [LInsert 4 1 3; LOwns 0; LEmpty]].
Definition proj_sched : list nat :=
  [0; 1; 2; 0; 0; 1; 2; 2; 0; 1; 1; 2; 0; 0; 2; 1; 0; 2; 2; 1; 0; 1; 1; 2; 0; 0; 1; 2; 2; 0; 1; 0; 2; 1; 0; 0; 1; 2; 0; 1; 2; 0; 1; 2].

Example projection_example :
  let r := lrun 400 ls0 (lstart proj_progs) proj_sched in
  forallb lfin (snd r) = true /\
  existsb (fun a => match a with LaInc _ 0%N => true | _ => false end) (llog (fst r)) = false /\
  secs_of (fst r) = [SBack 1 1; SRemove (Some 0); SBefore 4 2 None; SBack 2 3; SBack 3 4; SOwns (Some 0); SEmpty; SRemove (Some 0)] /\
  results_of (fst r) = [true; true; true; true; true; false; false; false] /\
  fst (spec_secs 0 [] (secs_of (fst r))) = [1; 2; 3] /\
  snd (lc_run_case 400 proj_progs proj_sched) = [4; 2; 3].
Proof. vm_compute. repeat split. Qed.
