(* CLConcProj.v — C03: every execution of the thread-level machine of CLConc.v projects to a sequence of critical
   sections.

   The machine (the one whose runs are replayed, schedule by schedule, against the real CallbackList) executes API calls as
   visible actions and local code; the sections it executes are recorded in the ghost `lsecs`.  Proved here, for EVERY
   set of thread programs, EVERY schedule and EVERY number of steps:

     * the list is the replay of the recorded sections, in the order in which they were executed, and the recorded
       results are the results of that replay (`GI`);
     * unless the 32-bit counter wrapped to 0 (C19's business), every recorded adding section carries a non-zero counter;
     * the sections recorded for a thread that has finished are exactly those of its calls, in program order, and the
       results its remove / ownsHandle / empty calls reported are the results of its sections (`Post`);

   hence (with CLConcProofs.sections_in_any_order_refine_list_spec) the content of the list and all results are those of the
   sequential list specification executed in the order of the sections — an order that contains each thread's calls in
   program order; that a call's section lies between the call's first and last action is the shape of its code
   (`section_inside_call`).

   Technique: a weakest-precondition calculus per thread in which the shared state is re-read at EVERY instruction through
   the rely relation (what other threads may do to the facts this thread uses), so that a thread's assertion is stable
   wherever the thread is stopped — also when `ladvance` runs out of fuel in the middle of local code. *)
From Coq Require Import List Arith NArith ZArith Bool Lia.
From EV Require Import CLModel CLHeap CLOps CLRefine CLConc CLConcProofs CLTrav CLConcTrav.
From EV.gen Require GenCL.
Import ListNotations.
Local Open Scope nat_scope.

Definition wrapped (s : lshared) : Prop := exists u, In (LaInc u 0%N) (llog s).

(* what the record of finished traversals says: a traversal that read head when p0 sections had been executed and ended
   when p1 had been executed visited no node twice and visited every node that was in the list at p0 and was not removed by
   one of the sections p0+1 .. p1 *)
Definition GT (s : lshared) : Prop :=
  forall t p0 p1 vis, In (t, p0, p1, vis) (ltravs s) ->
    p0 <= p1 /\ p1 <= length (lsecs s) /\
    (wrapped s \/
     (NoDup vis /\
      forall z, In z (ids_rec (old_rec (lsecs s) p0)) ->
                ~ In z (gone_rec (new_rec (old_rec (lsecs s) p1) p0)) -> In z vis)).

(* what the record of finished calls says: a call that has a section began before the section was executed and ended
   after it, and the section at that position of the record is the calling thread's *)
Definition GC (s : lshared) : Prop :=
  forall t b i e, In (t, b, i, e) (lcrec s) ->
    e <= length (lsecs s) /\
    (i = 0 \/ (b < i /\ i <= e /\ exists sc r, nth_error (rev (lsecs s)) (i - 1) = Some (t, sc, r))).

Definition GI (s : lshared) : Prop :=
  lgrp s = replay (lsecs s) /\ results_ok (lsecs s) /\
  (wrapped s \/ rec_ok (lsecs s)) /\
  lbad s = false /\
  (lcc s < W32)%N /\
  (wrapped s \/ ctrs_le (lcc s) (lgrp s) (ids_rec (lsecs s))) /\
  GT s /\
  (wrapped s \/ lunord s = false) /\
  GC s.

(* the sections of one thread, newest first; the results one thread has reported, newest first *)
Definition tsecs (t : nat) (s : lshared) : list (nat * sec * bool) := filter (fun e => Nat.eqb (eth e) t) (lsecs s).

Definition rl (t : nat) (s : lshared) : list bool :=
  flat_map (fun a => match a with LaRes u b => if Nat.eqb u t then [b] else [] | _ => [] end) (llog s).

(* what the other threads may do to what thread t relies on: they leave t's sections and reports alone, the counter
   never un-wraps and (unless it wraps) never decreases, the record of sections only grows, the global invariant is kept,
   and they neither give the mutex to t nor take it from t *)
Definition Rely0 (t : nat) (s s1 : lshared) : Prop :=
  tsecs t s1 = tsecs t s /\ rl t s1 = rl t s /\ (wrapped s -> wrapped s1) /\
  (GI s -> GI s1) /\ (exists L, lsecs s1 = L ++ lsecs s) /\ (wrapped s1 \/ (lcc s <= lcc s1)%N).

Definition Rely (t : nat) (s s1 : lshared) : Prop :=
  Rely0 t s s1 /\ (lown s1 = Some t <-> lown s = Some t).

Lemma Rely0_refl t s : Rely0 t s s.
Proof.
  split; [reflexivity|]. split; [reflexivity|]. split; [auto|]. split; [auto|]. split; [exists []; reflexivity|right; lia].
Qed.

Lemma Rely0_trans t a b c : Rely0 t a b -> Rely0 t b c -> Rely0 t a c.
Proof.
  intros [A1 [A2 [A3 [A4 [[L1 A5] A6]]]]] [B1 [B2 [B3 [B4 [[L2 B5] B6]]]]].
  split; [congruence|]. split; [congruence|]. split; [auto|]. split; [auto|]. split.
  - exists (L2 ++ L1). rewrite B5, A5, app_assoc. reflexivity.
  - destruct B6 as [B6|B6]; [left; exact B6|]. destruct A6 as [A6|A6]; [left; auto|right; lia].
Qed.

Lemma Rely_refl t s : Rely t s s.
Proof. split; [apply Rely0_refl|tauto]. Qed.

Lemma Rely_trans t a b c : Rely t a b -> Rely t b c -> Rely t a c.
Proof.
  intros [A1 A2] [B1 B2]. split; [eapply Rely0_trans; eauto|tauto].
Qed.

(* ---------- a traversal in progress ---------- *)
(* the state CLTrav's invariant is about, read off the record and the traversing thread's locals *)
Definition tstate (s : lshared) (l : llocals) : tst := tst_of (lsecs s) l.

(* from the moment the traversal has captured the counter *)
Definition TRinv (s : lshared) (l : llocals) : Prop :=
  GI s /\ lp0 l <= length (lsecs s) /\
  (wrapped s \/ TInv (lcapt l) (ids_rec (old_rec (lsecs s) (lp0 l))) (tstate s l)).

(* between the read of head and the capture of the counter: for every value the counter may have by then *)
Definition TRpre (s : lshared) (l : llocals) : Prop :=
  GI s /\ lp0 l <= length (lsecs s) /\
  (wrapped s \/ forall capt, (lcc s <= capt)%N -> TInv capt (ids_rec (old_rec (lsecs s) (lp0 l))) (tstate s l)).

Lemma rec_ok_app_l (L R : list (nat * sec * bool)) : rec_ok (L ++ R) -> rec_ok L.
Proof. unfold rec_ok. intros H. apply Forall_app in H. tauto. Qed.

Lemma TRinv_rely t s s1 l : TRinv s l -> Rely0 t s s1 -> TRinv s1 l.
Proof.
  intros [G [Hp HT]] [_ [_ [HW [HG [[L HL] _]]]]]. specialize (HG G).
  split; [exact HG|]. split; [rewrite HL, app_length; lia|].
  destruct HT as [HT|HT]; [left; auto|].
  destruct HG as [_ [Hr [[W|Hk] _]]]; [left; exact W|right].
  unfold tstate. rewrite HL in *. rewrite (old_rec_app L (lsecs s) (lp0 l) Hp).
  apply TInv_more; auto. eapply rec_ok_app_l; eauto.
Qed.

Lemma TRpre_rely t s s1 l : TRpre s l -> Rely0 t s s1 -> TRpre s1 l.
Proof.
  intros [G [Hp HT]] [_ [_ [HW [HG [[L HL] HC]]]]]. specialize (HG G).
  split; [exact HG|]. split; [rewrite HL, app_length; lia|].
  destruct HT as [HT|HT]; [left; auto|].
  destruct HC as [W|HC]; [left; exact W|].
  destruct HG as [_ [Hr [[W|Hk] _]]]; [left; exact W|right].
  intros capt Hc. unfold tstate. rewrite HL in *. rewrite (old_rec_app L (lsecs s) (lp0 l) Hp).
  apply TInv_more; auto; [eapply rec_ok_app_l; eauto|]. apply HT. lia.
Qed.

(* the loop invariant of doForEachIf *)
Definition LoopI (s : lshared) (l : llocals) : Prop := TRinv s l /\ lph l = false.

(* what a step of thread t must guarantee: the global invariant, and the rely of everybody else *)
Definition Guar (t : nat) (s s' : lshared) : Prop :=
  (GI s -> GI s') /\ (forall u, u <> t -> Rely u s s').

Lemma Guar_refl t s : Guar t s s.
Proof. split; [auto|]. intros; apply Rely_refl. Qed.

Lemma Guar_trans t a b c : Guar t a b -> Guar t b c -> Guar t a c.
Proof.
  intros [A1 A2] [B1 B2]. split; [auto|]. intros u Hu. eapply Rely_trans; eauto.
Qed.

(* the visible actions: effect on the shared state and on the locals (lperform) *)
Definition vis (i : linstr) : bool :=
  match i with JLock | JUnlock | JInc | JLoad | JStart => true | _ => false end.

Definition veff (t : nat) (i : linstr) (s : lshared) (l : llocals) : lshared * llocals :=
  match i with
  | JLock => (ls_own (ls_log s (LaLock t)) (Some t), l)
  | JUnlock => (ls_own (ls_log s (LaUnlock t)) None, l)
  | JInc => let v := ((lcc s + 1) mod W32)%N in
            (ls_log (ls_cc s v) (LaInc t v), ll_k l v)
  | JLoad => (ls_log s (LaLoad t (lcc s)), ll_capt l (lcc s))
  | _ => (s, l)
  end.

(* at the end of a call: the stamps the call is recorded with *)
Definition EndOk (t : nat) (s : lshared) (l : llocals) : Prop :=
  lsi l = 0 \/ (lb0 l < lsi l /\ lsi l <= length (lsecs s) /\ exists sc r, nth_error (rev (lsecs s)) (lsi l - 1) = Some (t, sc, r)).

Section CALC.
Variable t : nat.

Fixpoint wci (i : linstr) (K : lshared -> llocals -> Prop) (s : lshared) (l : llocals) {struct i} : Prop :=
  match i with
  | JLocal b f =>
      forall s1, Rely t s s1 -> GI s1 ->
                 (b = true -> lown s1 = Some t) /\ Guar t s1 (fst (f t s1 l)) /\ K (fst (f t s1 l)) (snd (f t s1 l))
  | JIf c a b =>
      forall s1, Rely t s s1 ->
        (c s1 l = true ->
         (fix wl (cd : list linstr) (K : lshared -> llocals -> Prop) (s : lshared) (l : llocals) {struct cd} : Prop :=
            match cd with [] => K s l | j :: r => wci j (wl r K) s l end) a K s1 l) /\
        (c s1 l = false ->
         (fix wl (cd : list linstr) (K : lshared -> llocals -> Prop) (s : lshared) (l : llocals) {struct cd} : Prop :=
            match cd with [] => K s l | j :: r => wci j (wl r K) s l end) b K s1 l)
  | JLoop => lown s <> Some t /\ LoopI s l /\
             forall s1 l1, Rely t s s1 -> LoopI s1 l1 -> lcur l1 = None -> lsi l1 = lsi l -> K s1 l1
  | JRes => forall s1, Rely t s s1 -> EndOk t s1 l /\ K (call_end t (ls_log s1 (LaRes t (lresb l))) l) l
  | JDone => forall s1, Rely t s s1 -> EndOk t s1 l /\ K (call_end t (ls_log s1 (LaDone t)) l) l
  | JLock => forall s1, Rely t s s1 -> lown s1 <> Some t /\ K (fst (veff t i s1 l)) (snd (veff t i s1 l))
  | JUnlock => forall s1, Rely t s s1 -> lown s1 = Some t /\ K (fst (veff t i s1 l)) (snd (veff t i s1 l))
  | _ => forall s1, Rely t s s1 -> K (fst (veff t i s1 l)) (snd (veff t i s1 l))
  end.

Fixpoint wcl (cd : list linstr) (K : lshared -> llocals -> Prop) (s : lshared) (l : llocals) {struct cd} : Prop :=
  match cd with [] => K s l | j :: r => wci j (wcl r K) s l end.

Lemma wci_if c a b K s l :
  wci (JIf c a b) K s l =
  (forall s1, Rely t s s1 -> (c s1 l = true -> wcl a K s1 l) /\ (c s1 l = false -> wcl b K s1 l)).
Proof. reflexivity. Qed.


(* induction principle through the nested instruction lists *)
Definition not_jif (i : linstr) : Prop := match i with JIf _ _ _ => False | _ => True end.
Fixpoint linstr_ind' (P : linstr -> Prop) (Hbase : forall i, not_jif i -> P i)
         (Hif : forall c a b, Forall P a -> Forall P b -> P (JIf c a b)) (i : linstr) {struct i} : P i :=
  match i as i0 return P i0 with
  | JIf c a b =>
      Hif c a b
          ((fix go (l : list linstr) : Forall P l :=
              match l with [] => Forall_nil P | j :: r => Forall_cons j (linstr_ind' P Hbase Hif j) (go r) end) a)
          ((fix go (l : list linstr) : Forall P l :=
              match l with [] => Forall_nil P | j :: r => Forall_cons j (linstr_ind' P Hbase Hif j) (go r) end) b)
  | JLock => Hbase JLock I | JUnlock => Hbase JUnlock I | JInc => Hbase JInc I | JLoad => Hbase JLoad I
  | JStart => Hbase JStart I | JLocal b f => Hbase (JLocal b f) I | JLoop => Hbase JLoop I
  | JRes => Hbase JRes I | JDone => Hbase JDone I
  end.

Definition mono_at (i : linstr) : Prop :=
  forall (K K' : lshared -> llocals -> Prop) s l, (forall x y, K x y -> K' x y) -> wci i K s l -> wci i K' s l.

Lemma wcl_mono_F cd : Forall mono_at cd ->
  forall (K K' : lshared -> llocals -> Prop) s l, (forall x y, K x y -> K' x y) -> wcl cd K s l -> wcl cd K' s l.
Proof.
  induction 1 as [|j r Hj _ IH]; intros K K' s l HK H; cbn [wcl] in *.
  - apply HK; exact H.
  - eapply Hj; [|exact H]. intros x y Hx. eapply IH; eauto.
Qed.

Lemma wci_mono i : mono_at i.
Proof.
  induction i as [i Hn | c a b Ha Hb] using linstr_ind'.
  - intros K K' s l HK H. destruct i as [| | | | |b f|c x y| | |]; try contradiction; cbn [wci] in *.
    all: try (intros s1 HR; apply HK; apply H; exact HR).
    + intros s1 HR. destruct (H s1 HR) as [H1 H3]. split; [exact H1|apply HK; exact H3].
    + intros s1 HR. destruct (H s1 HR) as [H1 H3]. split; [exact H1|apply HK; exact H3].
    + intros s1 HR HG. destruct (H s1 HR HG) as [H0 [H1 H3]]. split; [exact H0|]. split; [exact H1|apply HK; exact H3].
    + destruct H as [H0 [HL H]]. split; [exact H0|]. split; [exact HL|]. intros s1 l1 HR A B C. apply HK. apply H; assumption.
    + intros s1 HR. destruct (H s1 HR) as [H1 H3]. split; [exact H1|apply HK; exact H3].
    + intros s1 HR. destruct (H s1 HR) as [H1 H3]. split; [exact H1|apply HK; exact H3].
  - intros K K' s l HK H. rewrite wci_if in *. intros s1 HR. destruct (H s1 HR) as [H1 H2]. split; intros Hc.
    + eapply wcl_mono_F; eauto.
    + eapply wcl_mono_F; eauto.
Qed.

Lemma wcl_mono cd : forall (K K' : lshared -> llocals -> Prop) s l, (forall x y, K x y -> K' x y) -> wcl cd K s l -> wcl cd K' s l.
Proof. apply wcl_mono_F. apply Forall_forall. intros i _. apply wci_mono. Qed.

Lemma wcl_app a : forall b K s l, wcl (a ++ b) K s l <-> wcl a (wcl b K) s l.
Proof.
  induction a as [|j r IH]; intros b K s l; cbn [wcl app]; [tauto|].
  split; intros H; (eapply wci_mono; [|exact H]); intros x y Hx; apply IH; exact Hx.
Qed.

(* an assertion in front of an instruction is stable under the interference of the other threads *)
Lemma wci_stable i (K : lshared -> llocals -> Prop) s s1 l : Rely t s s1 -> wci i K s l -> wci i K s1 l.
Proof.
  intros HR H. destruct i as [| | | | |b f|c x y| | |]; cbn [wci] in *.
  all: try (intros s2 HR2; apply H; eapply Rely_trans; eauto).
  - destruct H as [H0 [[HL HP] H]]. split; [|split; [split|]].
    + intro X. apply H0. apply (proj2 HR). exact X.
    + eapply TRinv_rely; [exact HL|exact (proj1 HR)].
    + exact HP.
    + intros s2 l2 HR2. apply H. eapply Rely_trans; eauto.
Qed.

Lemma wcl_stable cd (K : lshared -> llocals -> Prop) s s1 l :
  (forall a b y, Rely t a b -> K a y -> K b y) -> Rely t s s1 -> wcl cd K s l -> wcl cd K s1 l.
Proof.
  intros HK HR H. destruct cd as [|i r]; cbn [wcl] in *.
  - eapply HK; eauto.
  - eapply wci_stable; eauto.
Qed.

End CALC.

(* ---------- what the steps of a thread do to the facts ---------- *)
Lemma wrapped_log s a : wrapped s -> wrapped (ls_log s a).
Proof. intros [u H]. exists u. right. exact H. Qed.

Lemma GI_eq s s' :
  lgrp s' = lgrp s -> lsecs s' = lsecs s -> lbad s' = lbad s -> lcc s' = lcc s -> ltravs s' = ltravs s -> lunord s' = lunord s ->
  lcrec s' = lcrec s -> (wrapped s -> wrapped s') -> GI s -> GI s'.
Proof.
  intros A B D E F U V C [G1 [G2 [G3 [G4 [G5 [G6 [G7 [G8 G9]]]]]]]]. unfold GI, GT, GC. rewrite A, B, D, E, F, U, V.
  split; [exact G1|]. split; [exact G2|]. split; [destruct G3; auto|]. split; [exact G4|]. split; [exact G5|].
  split; [destruct G6; auto|]. split; [|split; [destruct G8; auto|exact G9]].
  intros t p0 p1 vis Hin. destruct (G7 t p0 p1 vis Hin) as [X [Y Z]]. split; [exact X|]. split; [exact Y|]. destruct Z; auto.
Qed.

(* a step that touches neither the list nor the section record nor the mutex, and logs nothing but `a` *)
Lemma log_GI s a : GI s -> GI (ls_log s a).
Proof. apply GI_eq; try reflexivity. apply wrapped_log. Qed.

Lemma log_rely0 t s a : (forall b, a <> LaRes t b) -> Rely0 t s (ls_log s a).
Proof.
  intros Ha. split; [reflexivity|]. split; [|split; [apply wrapped_log|split; [apply log_GI|split; [exists []; reflexivity|right; cbn [lcc ls_log]; lia]]]].
  unfold rl. cbn [llog ls_log flat_map]. destruct a as [| | | | | |u' b| |]; try reflexivity.
  destruct (Nat.eqb_spec u' t); [subst; exfalso; eapply Ha; reflexivity|reflexivity].
Qed.

Lemma log_rely t s a : (forall b, a <> LaRes t b) -> Rely t s (ls_log s a).
Proof. intros Ha. split; [apply log_rely0; exact Ha|reflexivity]. Qed.

Lemma log_guar t s a :
  (forall u b, a = LaRes u b -> u = t) -> Guar t s (ls_log s a).
Proof.
  intros Ha. split.
  - apply log_GI.
  - intros u Hu. apply log_rely. intros b E. apply Hu. eapply Ha. exact E.
Qed.

Lemma own_GI s a o : GI s -> GI (ls_own (ls_log s a) o).
Proof. apply GI_eq; try reflexivity. intros [u H]. exists u. right. exact H. Qed.

Lemma own_rely0 t s a o : (forall b, a <> LaRes t b) -> Rely0 t s (ls_own (ls_log s a) o).
Proof.
  intros Ha. destruct (log_rely0 t s a Ha) as [B1 [B2 [B3 [_ [B5 B6]]]]].
  split; [exact B1|]. split; [exact B2|]. split; [exact B3|]. split; [apply own_GI|]. split; [exact B5|exact B6].
Qed.

(* the increment of the counter *)
Lemma inc_GI t s : GI s -> GI (fst (veff t JInc s ll0)).
Proof.
  intros [G1 [G2 [G3 [G4 [G5 [G6 [G7 [G8 G9]]]]]]]]. cbn [veff fst].
  set (v := ((lcc s + 1) mod W32)%N).
  assert (W : wrapped s -> wrapped (ls_log (ls_cc s v) (LaInc t v))) by (intros [u H]; exists u; right; exact H).
  assert (Hv : (v < W32)%N) by (apply N.mod_lt; unfold W32; discriminate).
  destruct (N.eq_dec (lcc s + 1) W32) as [E|E].
  - (* the counter wraps *)
    assert (W0 : wrapped (ls_log (ls_cc s v) (LaInc t v))).
    { exists t. left. unfold v. rewrite E, N.mod_same by (unfold W32; discriminate). reflexivity. }
    unfold GI, GT. cbn [lgrp lsecs lbad lcc ltravs lunord lcrec ls_log ls_cc].
    split; [exact G1|]. split; [exact G2|]. split; [left; exact W0|]. split; [exact G4|]. split; [exact Hv|]. split; [left; exact W0|].
    split; [|split; [left; exact W0|exact G9]].
    intros u p0 p1 vis Hin. destruct (G7 u p0 p1 vis Hin) as [X [Y _]]. split; [exact X|]. split; [exact Y|left; exact W0].
  - assert (Ev : v = (lcc s + 1)%N) by (unfold v; apply N.mod_small; lia).
    unfold GI, GT. cbn [lgrp lsecs lbad lcc ltravs lunord lcrec ls_log ls_cc].
    split; [exact G1|]. split; [exact G2|]. split; [destruct G3; auto|]. split; [exact G4|]. split; [exact Hv|]. split; [|split; [|split]].
    + destruct G6 as [G6|G6]; [left; auto|right]. eapply ctrs_le_mono; [|exact G6]. lia.
    + intros u p0 p1 vis Hin. destruct (G7 u p0 p1 vis Hin) as [X [Y Z]]. split; [exact X|]. split; [exact Y|]. destruct Z; auto.
    + destruct G8; auto.
    + exact G9.
Qed.

Lemma inc_rely0 t u s : GI s -> Rely0 u s (fst (veff t JInc s ll0)).
Proof.
  intros G. cbn [veff fst]. set (v := ((lcc s + 1) mod W32)%N).
  assert (W : wrapped s -> wrapped (ls_log (ls_cc s v) (LaInc t v))) by (intros [x H]; exists x; right; exact H).
  split; [reflexivity|]. split; [reflexivity|]. split; [exact W|]. split; [intros _; exact (inc_GI t s G)|].
  split; [exists []; reflexivity|].
  cbn [lcc ls_log ls_cc]. destruct (N.eq_dec (lcc s + 1) W32) as [E|E].
  - left. exists t. left. unfold v. rewrite E, N.mod_same by (unfold W32; discriminate). reflexivity.
  - right. destruct G as [_ [_ [_ [_ [G5 _]]]]]. unfold v. rewrite N.mod_small; lia.
Qed.

(* the visible actions: taking the mutex (it was free: the scheduler runs a thread in front of JLock only then), giving
   it back (by its owner), the atomic operations *)
Lemma veff_guar t i s l :
  vis i = true -> GI s -> (i = JLock -> lown s = None) -> (i = JUnlock -> lown s = Some t) -> Guar t s (fst (veff t i s l)).
Proof.
  intros Hv HG HL HU. destruct i; try discriminate; cbn [veff fst].
  - (* lock *)
    specialize (HL eq_refl). split; [apply own_GI|].
    intros u Hu. split; [apply own_rely0; intros; discriminate|].
    cbn [lown ls_own]. rewrite HL. split; intros X; [inversion X; subst; contradiction|discriminate].
  - (* unlock *)
    specialize (HU eq_refl). split; [apply own_GI|].
    intros u Hu. split; [apply own_rely0; intros; discriminate|].
    cbn [lown ls_own]. rewrite HU. split; intros X; [discriminate|inversion X; subst; contradiction].
  - (* inc *)
    split; [intros _; exact (inc_GI t s HG)|].
    intros u Hu. split; [exact (inc_rely0 t u s HG)|reflexivity].
  - apply log_guar; intros; discriminate.
  - apply Guar_refl.
Qed.

(* thread t's own atomic operations, as seen by thread t *)
Lemma veff_rely t i s l : GI s -> i = JInc \/ i = JLoad \/ i = JStart -> Rely t s (fst (veff t i s l)).
Proof.
  intros HG [E|[E|E]]; subst i; cbn [veff fst].
  - split; [exact (inc_rely0 t t s HG)|reflexivity].
  - apply log_rely. intros; discriminate.
  - apply Rely_refl.
Qed.

(* ---------- the calls ---------- *)
Definition has_sec (c : lapi) : bool := match c with LInvoke _ | LForEach => false | _ => true end.

Definition call_sec (c : lapi) (x : sec) : Prop :=
  match c, x with
  | LAppend cb _, SBack cb' _ => cb' = cb
  | LPrepend cb _, SFront cb' _ => cb' = cb
  | LInsert cb _ _, SBefore cb' _ _ => cb' = cb
  | LRemove _, SRemove _ => True
  | LOwns _, SOwns _ => True
  | LEmpty, SEmpty => True
  | _, _ => False
  end.

Definition mode_of (c : lapi) : option Z := match c with LInvoke x => Some x | _ => None end.

Section THREAD.
Variable t : nat.
Variable P : list lapi.        (* the program of thread t *)

(* between two calls of thread t, `r` being the calls still to come: the sections recorded for t are those of the calls
   made so far, in order, and the results t has reported are the results of its querying / removing sections *)
Definition Post (r : list lapi) (s : lshared) (l : llocals) : Prop :=
  lown s <> Some t /\
  exists d, P = d ++ r /\
            Forall2 call_sec (filter has_sec d) (rev (map esec (tsecs t s))) /\
            rl t s = map eres (filter (fun e => negb (adds (esec e))) (tsecs t s)).

Lemma Post_stable r a b y : Rely t a b -> Post r a y -> Post r b y.
Proof.
  intros [[R1 [R2 _]] R4] [O [d [A [B C]]]]. split; [intro X; apply O; apply R4; exact X|].
  exists d. rewrite R1, R2. auto.
Qed.

(* the facts thread t carries from instruction to instruction: its own sections, its own reported results, a fact W
   that holds unless the counter has wrapped, a lower bound Kb of the counter (the value it drew), whether it holds the
   mutex *)
Definition At (X : list (nat * sec * bool)) (Y : list bool) (W : Prop) (Kb : N) (H : bool) (s : lshared) : Prop :=
  tsecs t s = X /\ rl t s = Y /\ (W \/ wrapped s) /\ (wrapped s \/ (Kb <= lcc s)%N) /\
  (if H then lown s = Some t else lown s <> Some t).

Lemma At_rely0 X Y W Kb H s s' : At X Y W Kb H s -> Rely0 t s s' -> (lown s' = Some t <-> lown s = Some t) -> At X Y W Kb H s'.
Proof.
  intros [A [B [C [E D]]]] [R1 [R2 [R3 [_ [_ R6]]]]] R4. split; [congruence|]. split; [congruence|]. split; [destruct C; auto|].
  split.
  - destruct E as [E|E]; [left; auto|]. destruct R6 as [R6|R6]; [left; exact R6|right; lia].
  - destruct H; [apply R4; exact D|intro X0; apply D; apply R4; exact X0].
Qed.

Lemma At_rely X Y W Kb H s s' : At X Y W Kb H s -> Rely t s s' -> At X Y W Kb H s'.
Proof. intros A [R0 R4]. eapply At_rely0; eauto. Qed.

Lemma At_inc X Y W Kb H s l :
  At X Y W Kb H s -> At X Y (lk (snd (veff t JInc s l)) <> 0%N) (lk (snd (veff t JInc s l))) H (fst (veff t JInc s l)).
Proof.
  intros [A [B [C [E D]]]]. cbn [veff fst snd lk ll_k]. split; [exact A|]. split; [exact B|]. split; [|split; [|exact D]].
  - destruct (N.eq_dec ((lcc s + 1) mod W32) 0) as [E0|E0]; [right|left; exact E0].
    exists t. left. rewrite E0. reflexivity.
  - right. cbn [lcc ls_log ls_cc]. lia.
Qed.

Lemma At_res X Y W Kb H s b : At X Y W Kb H s -> At X (b :: Y) W Kb H (ls_log s (LaRes t b)).
Proof.
  intros [A [B [C [E D]]]]. split; [exact A|]. split; [|split; [|split; [|exact D]]].
  - unfold rl in *. cbn [llog ls_log flat_map]. rewrite Nat.eqb_refl. cbn [app]. f_equal. exact B.
  - destruct C as [C|C]; [left; exact C|right; apply wrapped_log; exact C].
  - destruct E as [E|E]; [left; apply wrapped_log; exact E|right; exact E].
Qed.

Lemma At_lock X Y W Kb s : At X Y W Kb false s -> At X Y W Kb true (ls_own (ls_log s (LaLock t)) (Some t)).
Proof.
  intros [A [B [C [E D]]]]. split; [exact A|]. split; [exact B|].
  assert (Wm : wrapped s -> wrapped (ls_own (ls_log s (LaLock t)) (Some t))) by (intros [u Hu]; exists u; right; exact Hu).
  split; [destruct C; auto|]. split; [destruct E; auto|reflexivity].
Qed.

Lemma At_unlock X Y W Kb s : At X Y W Kb true s -> At X Y W Kb false (ls_own (ls_log s (LaUnlock t)) None).
Proof.
  intros [A [B [C [E D]]]]. split; [exact A|]. split; [exact B|].
  assert (Wm : wrapped s -> wrapped (ls_own (ls_log s (LaUnlock t)) None)) by (intros [u Hu]; exists u; right; exact Hu).
  split; [destruct C; auto|]. split; [destruct E; auto|discriminate].
Qed.

Lemma At_owns X Y W Kb s : At X Y W Kb true s -> lown s = Some t.
Proof. intros [_ [_ [_ [_ D]]]]. exact D. Qed.

Lemma At_free X Y W Kb s : At X Y W Kb false s -> lown s <> Some t.
Proof. intros [_ [_ [_ [_ D]]]]. exact D. Qed.

(* the record of finished traversals does not mind one more section *)
Lemma GT_cons s s' e :
  lsecs s' = e :: lsecs s -> ltravs s' = ltravs s -> (wrapped s -> wrapped s') -> GT s -> GT s'.
Proof.
  intros A B C G u p0 p1 vis Hin. rewrite B in Hin. destruct (G u p0 p1 vis Hin) as [X [Y Z]].
  rewrite A. cbn [length]. split; [exact X|]. split; [lia|]. destruct Z as [Z|Z]; [left; auto|right].
  rewrite !old_rec_cons by lia. exact Z.
Qed.

Lemma GC_cons s s' e :
  lsecs s' = e :: lsecs s -> lcrec s' = lcrec s -> GC s -> GC s'.
Proof.
  intros A B G u b0 i e0 Hin. rewrite B in Hin. destruct (G u b0 i e0 Hin) as [X Z]. rewrite A. cbn [length rev].
  split; [lia|]. destruct Z as [Z|[Z1 [Z2 [sc [r Z3]]]]]; [left; exact Z|right].
  split; [exact Z1|]. split; [exact Z2|]. exists sc, r. rewrite nth_error_app1; [exact Z3|rewrite rev_length; lia].
Qed.

(* the stamps of the call in progress: it began when B sections had been executed; its own section, once executed, stands
   at position i of the record *)
Definition Bt (B : nat) (I : option (nat * (nat * sec * bool))) (s : lshared) : Prop :=
  B <= length (lsecs s) /\
  match I with
  | None => True
  | Some (i, e) => B < i /\ i <= length (lsecs s) /\ nth_error (rev (lsecs s)) (i - 1) = Some e
  end.

Lemma Bt_grow B I s s1 : Bt B I s -> (exists L, lsecs s1 = L ++ lsecs s) -> Bt B I s1.
Proof.
  intros [A C] [L E]. unfold Bt. rewrite E. split; [rewrite app_length; lia|].
  destruct I as [[i e]|]; [|exact I]. destruct C as [C0 [C1 C2]]. split; [exact C0|]. split; [rewrite app_length; lia|].
  rewrite rev_app_distr. rewrite nth_error_app1; [exact C2|rewrite rev_length; lia].
Qed.

Lemma rely_grows u a b : Rely u a b -> exists L, lsecs b = L ++ lsecs a.
Proof. intros [[_ [_ [_ [_ [G _]]]]] _]. exact G. Qed.

Lemma Bt_end B i (sc : sec) (r : bool) s l :
  Bt B (Some (i, (t, sc, r))) s -> lb0 l = B -> lsi l = i -> EndOk t s l.
Proof.
  intros [_ [C0 [C1 C2]]] E1 E2. right. rewrite E1, E2. split; [exact C0|]. split; [exact C1|]. eauto.
Qed.

(* a section of thread t *)
Lemma sec_ok X Y (W : Prop) Kb H s sc g1 b :
  GI s -> At X Y W Kb H s -> sec_step (lgrp s) sc = (g1, b) -> (W -> sec_counter_ok sc) -> (ctr_of sc <= Kb)%N ->
  Guar t s (ls_sec (ls_grp s g1) (t, sc, b)) /\ At ((t, sc, b) :: X) Y W Kb H (ls_sec (ls_grp s g1) (t, sc, b)).
Proof.
  intros HG0 [A [B [C [E D]]]] Es HW HK.
  assert (GI' : GI (ls_sec (ls_grp s g1) (t, sc, b))).
  { destruct HG0 as [G1 [G2 [G3 [G4 [G5 [G6 [G7 [G8 G9]]]]]]]]. unfold GI.
    cbn [lgrp lsecs lbad lcc lunord ls_sec ls_grp replay results_ok esec eres fst snd].
    rewrite <- G1, Es. cbn [fst snd]. split; [reflexivity|]. split; [split; [reflexivity|exact G2]|].
    assert (Ok : wrapped s \/ rec_ok ((t, sc, b) :: lsecs s)).
    { destruct G3 as [G3|G3]; [left; exact G3|]. destruct C as [C|C]; [|left; exact C].
      right. constructor; [apply HW; exact C|exact G3]. }
    split; [exact Ok|]. split; [exact G4|]. split; [exact G5|]. split.
    - destruct Ok as [Ok|Ok]; [left; exact Ok|]. destruct G6 as [G6|G6]; [left; exact G6|].
      destruct E as [E|E]; [left; exact E|right].
      inversion Ok as [|? ? Hsc Hr]; subst. cbn [esec fst snd] in Hsc.
      rewrite ids_rec_cons. cbn [esec fst snd]. rewrite <- G1.
      replace g1 with (fst (sec_step (lgrp s) sc)) by (rewrite Es; reflexivity).
      apply sec_ctr_bound; auto; [rewrite G1; apply ginv_replay; exact Hr|lia].
    - split; [eapply (GT_cons s); [reflexivity|reflexivity|auto|exact G7]|]. split; [exact G8|]. eapply (GC_cons s); [reflexivity|reflexivity|exact G9]. }
  split; [split|].
  - intros _. exact GI'.
  - intros u Hu. split; [|reflexivity]. split; [|split; [reflexivity|split; [auto|split; [intros _; exact GI'|split; [exists [(t, sc, b)]; reflexivity|right; cbn [lcc ls_sec ls_grp]; lia]]]]].
    unfold tsecs. cbn [lsecs ls_sec ls_grp filter eth fst].
    destruct (Nat.eqb_spec t u); [subst; contradiction|reflexivity].
  - split; [|split; [exact B|split; [exact C|split; [exact E|exact D]]]].
    unfold tsecs in *. cbn [lsecs ls_sec ls_grp filter eth fst]. rewrite Nat.eqb_refl. f_equal. exact A.
Qed.

(* a step that leaves the list, the records, the log, the counter and the mutex alone *)
Lemma quiet_guar s s' :
  lgrp s' = lgrp s -> lsecs s' = lsecs s -> llog s' = llog s -> lown s' = lown s -> lbad s' = lbad s ->
  lcc s' = lcc s -> ltravs s' = ltravs s -> lunord s' = lunord s -> lcrec s' = lcrec s -> Guar t s s' /\ Rely t s s'.
Proof.
  intros A B C D E F G U V.
  assert (W : wrapped s -> wrapped s') by (unfold wrapped; rewrite C; auto).
  assert (GG : GI s -> GI s') by (apply GI_eq; auto).
  assert (R : forall u, Rely u s s').
  { intros u. unfold Rely, Rely0, tsecs, rl. rewrite B, C, D, F.
    split; [|tauto]. split; [reflexivity|]. split; [reflexivity|]. split; [exact W|]. split; [exact GG|]. split; [exists []; reflexivity|right; lia]. }
  split; [split|]; auto.
Qed.

(* the end of a traversal: its record *)
Lemma trav_guar s u0 q0 q1 v0 :
  GI s -> (q0 <= q1 /\ q1 <= length (lsecs s) /\
           (wrapped s \/ (NoDup v0 /\ forall z, In z (ids_rec (old_rec (lsecs s) q0)) ->
                                         ~ In z (gone_rec (new_rec (old_rec (lsecs s) q1) q0)) -> In z v0))) ->
  Guar t s (ls_trav s (u0, q0, q1, v0)) /\ Rely t s (ls_trav s (u0, q0, q1, v0)).
Proof.
  intros HG He. set (e := (u0, q0, q1, v0)).
  assert (GG : GI (ls_trav s e)).
  { destruct HG as [G1 [G2 [G3 [G4 [G5 [G6 [G7 G8]]]]]]]. unfold GI, GC. cbn [lgrp lsecs lbad lcc lunord lcrec ls_trav].
    split; [exact G1|]. split; [exact G2|]. split; [exact G3|]. split; [exact G4|]. split; [exact G5|]. split; [exact G6|]. split; [|exact G8].
    intros u p0 p1 vis Hin. cbn [ltravs ls_trav] in Hin. destruct Hin as [Hin|Hin]; [inversion Hin; subst; exact He|exact (G7 u p0 p1 vis Hin)]. }
  assert (R : forall u, Rely u s (ls_trav s e)).
  { intros u. split; [|reflexivity]. split; [reflexivity|]. split; [reflexivity|]. split; [auto|]. split; [intros _; exact GG|].
    split; [exists []; reflexivity|right; cbn [lcc ls_trav]; lia]. }
  split; [split|]; auto.
Qed.

(* the end of a call: its record *)
Lemma callend_guar s l : EndOk t s l -> Guar t s (call_end t s l) /\ Rely t s (call_end t s l).
Proof.
  intros He.
  assert (GG : GI s -> GI (call_end t s l)).
  { intros [G1 [G2 [G3 [G4 [G5 [G6 [G7 [G8 G9]]]]]]]]. unfold GI, GC, call_end. cbn [lgrp lsecs lbad lcc lunord lcrec ltravs ls_call].
    split; [exact G1|]. split; [exact G2|]. split; [exact G3|]. split; [exact G4|]. split; [exact G5|]. split; [exact G6|].
    split; [exact G7|]. split; [exact G8|].
    intros u b0 i e0 [Hin|Hin]; [|exact (G9 u b0 i e0 Hin)]. inversion Hin; subst. split; [lia|].
    destruct He as [He|[H1 [H2 H3]]]; [left; exact He|right]. split; [exact H1|]. split; [exact H2|exact H3]. }
  assert (R : forall u, Rely u s (call_end t s l)).
  { intros u. split; [|reflexivity]. split; [reflexivity|]. split; [reflexivity|]. split; [auto|]. split; [exact GG|].
    split; [exists []; reflexivity|right; cbn [lcc call_end ls_call]; lia]. }
  split; [split|]; auto.
Qed.

Lemma sec_bt B s sc g1 b :
  Bt B None s -> Bt B (Some (S (length (lsecs s)), (t, sc, b))) (ls_sec (ls_grp s g1) (t, sc, b)).
Proof.
  intros [A _]. unfold Bt. cbn [lsecs ls_sec ls_grp length rev]. split; [lia|]. split; [lia|]. split; [lia|].
  rewrite nth_error_app2; rewrite rev_length; [|lia]. replace (S (length (lsecs s)) - 1 - length (lsecs s)) with 0 by lia. reflexivity.
Qed.

Lemma post_with_sec d c r X Y W Kb Yn sc b s l :
  P = d ++ c :: r -> Forall2 call_sec (filter has_sec d) (rev (map esec X)) ->
  Y = map eres (filter (fun e => negb (adds (esec e))) X) ->
  call_sec c sc -> Yn = (if adds sc then Y else b :: Y) ->
  At ((t, sc, b) :: X) Yn W Kb false s -> Post r s l.
Proof.
  intros HP HF HY Hc HYn [A [B [_ [_ D]]]]. split; [exact D|]. exists (d ++ [c]). split; [rewrite <- app_assoc; exact HP|].
  rewrite A, B. split.
  - rewrite filter_app. cbn [filter]. assert (Hs : has_sec c = true) by (destruct c, sc; try contradiction; reflexivity).
    rewrite Hs. cbn [map rev esec fst snd]. apply Forall2_app; [exact HF|constructor; [exact Hc|constructor]].
  - cbn [filter esec fst snd]. subst Yn. destruct (adds sc); cbn [negb map eres snd]; [exact HY|f_equal; exact HY].
Qed.

Lemma post_without_sec d c r X Y W Kb s l :
  P = d ++ c :: r -> Forall2 call_sec (filter has_sec d) (rev (map esec X)) ->
  Y = map eres (filter (fun e => negb (adds (esec e))) X) ->
  has_sec c = false -> At X Y W Kb false s -> Post r s l.
Proof.
  intros HP HF HY Hc [A [B [_ [_ D]]]]. split; [exact D|]. exists (d ++ [c]). split; [rewrite <- app_assoc; exact HP|].
  rewrite A, B. split; [|exact HY]. rewrite filter_app. cbn [filter]. rewrite Hc, app_nil_r. exact HF.
Qed.

End THREAD.

(* ---------- the steps of a traversal ---------- *)
(* the read of head, under the mutex *)
Lemma trpre_start s l : GI s -> TRpre s (ll_start l (ghead (lgrp s)) (length (lsecs s))).
Proof.
  intros G. split; [exact G|]. cbn [lp0 ll_start]. split; [lia|].
  destruct G as [G1 [G2 [[W|G3] [_ [_ [[W'|G6] _]]]]]]; try (left; exact W); try (left; exact W'). right.
  intros capt Hc. unfold tstate, tst_of. cbn [lcur lph lvis lp0 ll_start].
  rewrite old_rec_all, new_rec_all. cbn [gone_rec flat_map]. rewrite G1.
  apply (tinit_inv capt (replay (lsecs s)) (ids_rec (lsecs s))); [apply ginv_replay; exact G3|].
  apply (members_pass _ _ (lcc s)); [apply ginv_replay; exact G3|rewrite <- G1; exact G6|exact Hc].
Qed.

(* own steps that leave the record of sections and the counter alone *)
Lemma TRpre_own s s' l :
  lsecs s' = lsecs s -> lcc s' = lcc s -> GI s' -> (wrapped s -> wrapped s') -> TRpre s l -> TRpre s' l.
Proof.
  intros A B G W [_ [Hp HT]]. split; [exact G|]. split; [rewrite A; exact Hp|].
  destruct HT as [HT|HT]; [left; auto|right]. intros capt Hc. unfold tstate. rewrite A. apply HT. rewrite <- B. exact Hc.
Qed.

Lemma TRinv_own s s' l :
  lsecs s' = lsecs s -> GI s' -> (wrapped s -> wrapped s') -> TRinv s l -> TRinv s' l.
Proof.
  intros A G W [_ [Hp HT]]. split; [exact G|]. split; [rewrite A; exact Hp|].
  destruct HT as [HT|HT]; [left; auto|right]. unfold tstate. rewrite A. exact HT.
Qed.

(* the capture of the counter *)
Lemma trinv_capture t s l : TRpre s l -> TRinv (ls_log s (LaLoad t (lcc s))) (ll_capt l (lcc s)).
Proof.
  intros [G [Hp HT]]. split; [apply log_GI; exact G|]. split; [exact Hp|].
  destruct HT as [HT|HT]; [left; apply wrapped_log; exact HT|right].
  cbn [lcapt ll_capt]. apply (HT (lcc s)). lia.
Qed.

(* the look at the current node *)
Lemma trinv_look s l n nd :
  TRinv s l -> lph l = false -> lcur l = Some n -> node_of s n = Some nd ->
  TRinv s (ll_look l (if GenCL.visit_cond (ctr nd) (lcapt l) then lvis l ++ [n] else lvis l)).
Proof.
  intros [G [Hp HT]] Hph Hc Hn. split; [exact G|]. split; [exact Hp|].
  destruct HT as [HT|HT]; [left; exact HT|right].
  assert (E : tstate s (ll_look l (if GenCL.visit_cond (ctr nd) (lcapt l) then lvis l ++ [n] else lvis l)) =
              tstep (lcapt l) (tstate s l) TVisit).
  { unfold tstate, tst_of. cbn [tstep tph tcur tg tids tvis tgone lcur lph lvis lp0 ll_look].
    rewrite Hph, Hc. unfold node_of in Hn. destruct G as [G1 _]. rewrite G1 in Hn. rewrite Hn. reflexivity. }
  cbn [lcapt lp0 ll_look]. rewrite E. apply tstep_inv; [exact HT|exact I].
Qed.

(* the step to the next node, under the mutex *)
Lemma trinv_step s l n nd :
  TRinv s l -> lph l = true -> lcur l = Some n -> node_of s n = Some nd -> TRinv s (ll_step l (nxt nd)).
Proof.
  intros [G [Hp HT]] Hph Hc Hn. split; [exact G|]. split; [exact Hp|].
  destruct HT as [HT|HT]; [left; exact HT|right].
  assert (E : tstate s (ll_step l (nxt nd)) = tstep (lcapt l) (tstate s l) TAdvance).
  { unfold tstate, tst_of. cbn [tstep tph tcur tg tids tvis tgone lcur lph lvis lp0 ll_step].
    rewrite Hph, Hc. unfold node_of in Hn. destruct G as [G1 _]. rewrite G1 in Hn. rewrite Hn. reflexivity. }
  cbn [lcapt lp0 ll_step]. rewrite E. apply tstep_inv; [exact HT|exact I].
Qed.

(* the node the cursor stands on exists *)
Lemma trinv_node s l n : TRinv s l -> lcur l = Some n -> wrapped s \/ exists nd, node_of s n = Some nd.
Proof.
  intros [G [_ [HT|HT]]] Hc; [left; exact HT|right].
  destruct (ti_cur _ _ _ HT n Hc) as [nd Hn]. exists nd. unfold node_of. destruct G as [G1 _]. rewrite G1. exact Hn.
Qed.

(* at the end of the loop: what is recorded about the traversal *)
Lemma trinv_end s l :
  TRinv s l -> lcur l = None ->
  lp0 l <= length (lsecs s) /\ length (lsecs s) <= length (lsecs s) /\
  (wrapped s \/ (NoDup (lvis l) /\
                 forall z, In z (ids_rec (old_rec (lsecs s) (lp0 l))) ->
                           ~ In z (gone_rec (new_rec (old_rec (lsecs s) (length (lsecs s))) (lp0 l))) -> In z (lvis l))).
Proof.
  intros [G [Hp HT]] Hc. split; [exact Hp|]. split; [lia|].
  destruct HT as [HT|HT]; [left; exact HT|right]. rewrite old_rec_all.
  split; [exact (ti_nodup _ _ _ HT)|].
  intros z Hz Hg.
  assert (FL : first_live (heap (tg (tstate s l))) (tcur (tstate s l)) None) by (cbn [tstate tst_of tcur]; rewrite Hc; constructor).
  destruct (ti_todo _ _ _ HT None FL z Hz Hg) as [X|X]; [destruct X|exact X].
Qed.

(* ---------- every call keeps its promise ---------- *)
(* thread t's own harmless steps, as seen by thread t *)
Lemma own_load t s : Rely t s (ls_log s (LaLoad t (lcc s))).
Proof. apply log_rely. intros; discriminate. Qed.
Lemma own_reg t s h v : Rely t s (ls_reg s h v).
Proof. apply (quiet_guar t s (ls_reg s h v)); reflexivity. Qed.
Lemma own_done t s : Rely t s (ls_log s (LaDone t)).
Proof. apply log_rely. intros; discriminate. Qed.
Lemma own_call t s c a : Rely t s (ls_log s (LaCall t c a)).
Proof. apply log_rely. intros; discriminate. Qed.
Lemma own_visit t s c : Rely t s (ls_log s (LaVisit t c)).
Proof. apply log_rely. intros; discriminate. Qed.

Ltac own := first [ apply Rely_refl | apply own_load | apply own_reg | apply own_done | apply own_call | apply own_visit ].

(* the next instruction reads the shared state afresh: carry the facts over the interference and over thread t's own
   last (harmless) step *)
Ltac hv :=
  let s1 := fresh "s" in let HR := fresh "HR" in
  intros s1 HR;
  match type of HR with
  | Rely ?t ?a s1 =>
      match goal with
      | [ HA : At t ?X ?Y ?W ?Kb ?H ?s0 |- _ ] =>
          first [ apply (fun h => At_rely t X Y W Kb H s0 s1 h HR) in HA
                | let Hown := fresh in
                  assert (Hown : Rely t s0 a) by own;
                  apply (fun h => At_rely t X Y W Kb H s0 s1 h (Rely_trans t s0 a s1 Hown HR)) in HA; clear Hown ]
      end;
      try match goal with
          | [ HB : Bt ?B ?I ?sx |- _ ] => apply (fun h => Bt_grow B I sx s1 h (rely_grows t a s1 HR)) in HB
          end
  end; clear HR.

Ltac quiet :=
  match goal with
  | [ |- Guar ?t ?s ?s' ] => apply (quiet_guar t s s'); reflexivity
  end.

(* taking and giving back the mutex *)
Ltac lck :=
  hv; match goal with [ HA : At ?t ?X ?Y ?W ?Kb false ?s |- _ ] =>
        split; [exact (At_free t X Y W Kb s HA)|]; apply At_lock in HA end.
Ltac ulk :=
  hv; match goal with [ HA : At ?t ?X ?Y ?W ?Kb true ?s |- _ ] =>
        split; [exact (At_owns t X Y W Kb s HA)|]; apply At_unlock in HA end.
(* the side condition of a piece of local code: under the mutex, or touching nothing the mutex guards *)
Ltac lockedp :=
  match goal with
  | [ |- (true = true -> _) /\ _ ] =>
      match goal with [ HA : At ?t ?X ?Y ?W ?Kb true ?s |- _ ] => split; [intros _; exact (At_owns t X Y W Kb s HA)|] end
  | [ |- (false = true -> _) /\ _ ] => split; [intros X0; discriminate X0|]
  end.
(* a piece of local code: the shared state afresh, the global invariant there *)
Ltac lc := hv; let HG := fresh "HG" in intros HG; lockedp.

Ltac dosec HA HG HB :=
  match goal with
  | [ |- context [ sec_step (lgrp ?s) ?sc ] ] =>
      let g1 := fresh "g" in let b := fresh "b" in let E := fresh "E" in
      destruct (sec_step (lgrp s) sc) as [g1 b] eqn:E; cbn [fst snd adds];
      let G := fresh "G" in let HA2 := fresh "HA" in
      match type of HA with
      | At ?t ?X ?Y ?W ?Kb ?H s =>
          destruct (sec_ok t X Y W Kb H s sc g1 b HG HA E) as [G HA2];
          [try (intros H0; exact H0); try (intros _; exact I)|cbn [ctr_of]; lia|];
          split; [exact G|]; clear HA G;
          match type of HB with Bt ?B None s => apply (sec_bt t B s sc g1 b) in HB end
      end
  end.

(* the end of the call: its stamps, then the facts behind the record *)
Ltac fin HA HB :=
  hv;
  match type of HB with
  | Bt ?B (Some (?i, (?t, ?sc, ?r))) ?s => split; [eapply (Bt_end t B i sc r s); [exact HB|reflexivity|reflexivity]|]
  | Bt ?B None ?s => split; [left; reflexivity|]
  end.

(* ... and the step over the record of the call *)
Ltac over_end HA HB :=
  match goal with
  | [ |- Post ?t _ _ (call_end ?t ?s0 ?l) _ ] =>
      let He := fresh in
      assert (He : EndOk t s0 l) by
        (match type of HB with
         | Bt ?B (Some (?i, (_, ?sc, ?r))) _ => eapply (Bt_end t B i sc r); [exact HB|reflexivity|reflexivity]
         | Bt _ None _ => left; reflexivity
         end);
      match type of HA with
      | At _ ?X ?Y ?W ?Kb ?H s0 => apply (fun h => At_rely t X Y W Kb H s0 _ h (proj2 (callend_guar t s0 l He))) in HA
      end; clear He
  end.

Lemma call_ok t P c r s l0 :
  Post t P (c :: r) s l0 -> wcl t (lcode_of c) (Post t P r) s (ll_begin (length (lsecs s))).
Proof.
  intros [HO [d [HP [HF HY]]]].
  remember (tsecs t s) as X eqn:EX. remember (rl t s) as Y eqn:EY.
  assert (HA : At t X Y True 0%N false s) by (split; [auto|split; [auto|split; [left; exact I|split; [right; lia|exact HO]]]]).
  assert (HB : Bt (length (lsecs s)) None s) by (split; [lia|exact I]).
  remember (length (lsecs s)) as B0 eqn:EB0.
  clear EX EY HO EB0.
  destruct c as [cb h|cb h|cb hb h|h|h| |a|];
    cbn [lcode_of draw app wcl wci do_sec veff fst snd lk ln lresb ll_begin ll_k ll_n ll_resb ll_before ll_capt ll_si lbefore lcur lcapt lvis lph lp0 lb0 lsi].
  - (* append *)
    hv. apply (At_inc t X Y True 0%N false s0 (ll_begin B0)) in HA. cbn [veff fst snd lk ll_k ll_begin] in HA.
    lck. lc. dosec HA HG HB. ulk. lc. split; [quiet|]. fin HA0 HB.
    apply (fun h => At_rely _ _ _ _ _ _ _ _ h (own_done t s5)) in HA0. over_end HA0 HB.
    refine (post_with_sec t P d _ r X Y _ _ _ _ _ _ _ HP HF HY _ _ HA0); reflexivity.
  - (* prepend *)
    hv. apply (At_inc t X Y True 0%N false s0 (ll_begin B0)) in HA. cbn [veff fst snd lk ll_k ll_begin] in HA.
    lck. lc. dosec HA HG HB. ulk. lc. split; [quiet|]. fin HA0 HB.
    apply (fun h => At_rely _ _ _ _ _ _ _ _ h (own_done t s5)) in HA0. over_end HA0 HB.
    refine (post_with_sec t P d _ r X Y _ _ _ _ _ _ _ HP HF HY _ _ HA0); reflexivity.
  - (* insert *)
    lc. split; [quiet|]. hv.
    apply (At_inc t X Y True 0%N false s1 (ll_before (ll_begin B0) (reg_of s0 hb))) in HA. cbn [veff fst snd lk ll_k ll_before ll_begin] in HA.
    lck. lc. dosec HA HG0 HB. ulk. lc. split; [quiet|]. fin HA0 HB.
    apply (fun h => At_rely _ _ _ _ _ _ _ _ h (own_done t s6)) in HA0. over_end HA0 HB.
    refine (post_with_sec t P d _ r X Y _ _ _ _ _ _ _ HP HF HY _ _ HA0); reflexivity.
  - (* remove *)
    lck. lc. dosec HA HG HB. ulk. fin HA0 HB.
    apply (At_res t _ _ _ _ _ s3 b) in HA0. cbn [lresb ll_si ll_resb].
    over_end HA0 HB.
    refine (post_with_sec t P d _ r X Y _ _ _ _ _ _ _ HP HF HY _ _ HA0); reflexivity.
  - (* ownsHandle *)
    lck. lc. dosec HA HG HB. ulk. fin HA0 HB.
    apply (At_res t _ _ _ _ _ s3 b) in HA0. cbn [lresb ll_si ll_resb].
    over_end HA0 HB.
    refine (post_with_sec t P d _ r X Y _ _ _ _ _ _ _ HP HF HY _ _ HA0); reflexivity.
  - (* empty *)
    lc. dosec HA HG HB. fin HA0 HB.
    apply (At_res t _ _ _ _ _ s1 b) in HA0. cbn [lresb ll_si ll_resb].
    over_end HA0 HB.
    refine (post_with_sec t P d _ r X Y _ _ _ _ _ _ _ HP HF HY _ _ HA0); reflexivity.
  - (* invoke *)
    lck. lc. split; [quiet|].
    pose proof (trpre_start s1 (ll_begin B0) HG) as HT.
    (* unlock *)
    intros s2 HR2. apply (fun h => At_rely _ _ _ _ _ _ _ _ h HR2) in HA.
    apply (fun h => TRpre_rely t _ _ _ h (proj1 HR2)) in HT. clear HR2.
    split; [exact (At_owns _ _ _ _ _ _ HA)|]. apply At_unlock in HA.
    apply (TRpre_own s2 (ls_own (ls_log s2 (LaUnlock t)) None)) in HT;
      [|reflexivity|reflexivity|apply own_GI; exact (proj1 HT)|intros [u Hu]; exists u; right; exact Hu].
    (* load *)
    intros s3 HR3. apply (fun h => At_rely _ _ _ _ _ _ _ _ h HR3) in HA.
    apply (fun h => TRpre_rely t _ _ _ h (proj1 HR3)) in HT. clear HR3.
    apply (fun h => At_rely _ _ _ _ _ _ _ _ h (own_load t s3)) in HA.
    apply (trinv_capture t) in HT.
    (* the loop *)
    split; [exact (At_free _ _ _ _ _ _ HA)|]. split; [split; [exact HT|reflexivity]|].
    intros s4 l4 HR4 [HT4 _] Hc4 Hs4. apply (fun h => At_rely _ _ _ _ _ _ _ _ h HR4) in HA. clear HR4 HT.
    cbn [lsi ll_capt ll_start ll_begin] in Hs4.
    (* the record of the traversal *)
    intros s5 HR5 HG5. apply (fun h => At_rely _ _ _ _ _ _ _ _ h HR5) in HA.
    apply (fun h => TRinv_rely t _ _ _ h (proj1 HR5)) in HT4. clear HR5.
    split; [intros X0; discriminate X0|].
    destruct (trav_guar t s5 t (lp0 l4) (length (lsecs s5)) (lvis l4) HG5 (trinv_end s5 l4 HT4 Hc4)) as [GG RR].
    split; [exact GG|]. apply (fun h => At_rely _ _ _ _ _ _ _ _ h RR) in HA.
    (* the end of the call *)
    intros s6 HR6. apply (fun h => At_rely _ _ _ _ _ _ _ _ h HR6) in HA. clear HR6.
    assert (He : EndOk t s6 l4) by (left; exact Hs4). split; [exact He|].
    apply (fun h => At_rely _ _ _ _ _ _ _ _ h (own_done t s6)) in HA.
    apply (fun h => At_rely _ _ _ _ _ _ _ _ h (proj2 (callend_guar t (ls_log s6 (LaDone t)) l4 He))) in HA.
    refine (post_without_sec t P d _ r X Y _ _ _ _ HP HF HY _ HA); reflexivity.
  - (* forEach *)
    lck. lc. split; [quiet|].
    pose proof (trpre_start s1 (ll_begin B0) HG) as HT.
    intros s2 HR2. apply (fun h => At_rely _ _ _ _ _ _ _ _ h HR2) in HA.
    apply (fun h => TRpre_rely t _ _ _ h (proj1 HR2)) in HT. clear HR2.
    split; [exact (At_owns _ _ _ _ _ _ HA)|]. apply At_unlock in HA.
    apply (TRpre_own s2 (ls_own (ls_log s2 (LaUnlock t)) None)) in HT;
      [|reflexivity|reflexivity|apply own_GI; exact (proj1 HT)|intros [u Hu]; exists u; right; exact Hu].
    intros s3 HR3. apply (fun h => At_rely _ _ _ _ _ _ _ _ h HR3) in HA.
    apply (fun h => TRpre_rely t _ _ _ h (proj1 HR3)) in HT. clear HR3.
    apply (fun h => At_rely _ _ _ _ _ _ _ _ h (own_load t s3)) in HA.
    apply (trinv_capture t) in HT.
    split; [exact (At_free _ _ _ _ _ _ HA)|]. split; [split; [exact HT|reflexivity]|].
    intros s4 l4 HR4 [HT4 _] Hc4 Hs4. apply (fun h => At_rely _ _ _ _ _ _ _ _ h HR4) in HA. clear HR4 HT.
    cbn [lsi ll_capt ll_start ll_begin] in Hs4.
    (* the record of the traversal *)
    intros s5 HR5 HG5. apply (fun h => At_rely _ _ _ _ _ _ _ _ h HR5) in HA.
    apply (fun h => TRinv_rely t _ _ _ h (proj1 HR5)) in HT4. clear HR5.
    split; [intros X0; discriminate X0|].
    destruct (trav_guar t s5 t (lp0 l4) (length (lsecs s5)) (lvis l4) HG5 (trinv_end s5 l4 HT4 Hc4)) as [GG RR].
    split; [exact GG|]. apply (fun h => At_rely _ _ _ _ _ _ _ _ h RR) in HA.
    (* the end of the call *)
    intros s6 HR6. apply (fun h => At_rely _ _ _ _ _ _ _ _ h HR6) in HA. clear HR6.
    assert (He : EndOk t s6 l4) by (left; exact Hs4). split; [exact He|].
    apply (fun h => At_rely _ _ _ _ _ _ _ _ h (own_done t s6)) in HA.
    apply (fun h => At_rely _ _ _ _ _ _ _ _ h (proj2 (callend_guar t (ls_log s6 (LaDone t)) l4 He))) in HA.
    refine (post_without_sec t P d _ r X Y _ _ _ _ HP HF HY _ HA); reflexivity.
Qed.

Lemma own_rely0' t s a o : (forall b, a <> LaRes t b) -> Rely0 t s (ls_own (ls_log s a) o).
Proof. exact (own_rely0 t s a o). Qed.

Lemma Rely_wrapped t a b : Rely t a b -> wrapped a -> wrapped b.
Proof. intros [[_ [_ [W _]]] _]. exact W. Qed.

Lemma wrapped_own s a o : wrapped s -> wrapped (ls_own (ls_log s a) o).
Proof. intros [u Hu]. exists u. right. exact Hu. Qed.

(* the order flag may only be set once the counter has wrapped *)
Lemma unord_ok t s :
  GI s -> wrapped s ->
  Guar t s (ls_unord s) /\ Rely t s (ls_unord s) /\ GI (ls_unord s) /\ lsecs (ls_unord s) = lsecs s /\
  (wrapped s -> wrapped (ls_unord s)).
Proof.
  intros G W.
  assert (GG : GI (ls_unord s)).
  { destruct G as [G1 [G2 [G3 [G4 [G5 [G6 [G7 [G8 G9]]]]]]]]. unfold GI. cbn [lgrp lsecs lbad lcc lunord ls_unord].
    split; [exact G1|]. split; [exact G2|]. split; [exact G3|]. split; [exact G4|]. split; [exact G5|]. split; [exact G6|].
    split; [exact G7|]. split; [left; exact W|exact G9]. }
  assert (R : forall u, Rely u s (ls_unord s)).
  { intros u. split; [|reflexivity]. split; [reflexivity|]. split; [reflexivity|]. split; [auto|]. split; [intros _; exact GG|].
    split; [exists []; reflexivity|right; cbn [lcc ls_unord]; lia]. }
  split; [split; [intros _; exact GG|intros u _; apply R]|]. split; [apply R|]. split; [exact GG|]. split; [reflexivity|auto].
Qed.

Lemma TRinv_wrapped s l : GI s -> lp0 l <= length (lsecs s) -> wrapped s -> TRinv s l.
Proof. intros G Hp W. split; [exact G|]. split; [exact Hp|left; exact W]. Qed.

(* the loop of doForEachIf: one more iteration, or the exit *)
Lemma loop_ok t m rest (K : lshared -> llocals -> Prop) s l :
  wci t JLoop (wcl t rest K) s l -> wcl t (loop_body m ++ rest) K s l.
Proof.
  intros [HO [[HT Hph] H]]. apply wcl_app. unfold loop_body. cbn [wcl]. rewrite wci_if.
  intros s1 HR1.
  assert (HT1 : TRinv s1 l) by (eapply TRinv_rely; [exact HT|exact (proj1 HR1)]).
  split; intros Hc.
  - destruct (lcur l) as [n|] eqn:Ec; [|discriminate Hc]. clear Hc.
    cbn [wcl wci veff fst snd]. rewrite Ec.
    (* the look at the current node *)
    intros s2 HR2 HG2. split; [intros X; discriminate X|].
    assert (HT2 : TRinv s2 l) by (eapply TRinv_rely; [exact HT1|exact (proj1 HR2)]).
    match goal with |- Guar _ _ (fst ?r) /\ _ => set (r2 := r) end.
    assert (V : Guar t s2 (fst r2) /\ Rely t s2 (fst r2) /\ TRinv (fst r2) (snd r2) /\ lcur (snd r2) = Some n /\
                (wrapped (fst r2) \/ lph (snd r2) = true) /\ lsi (snd r2) = lsi l).
    { subst r2. destruct (node_of s2 n) as [nd|] eqn:En.
      - pose proof (trinv_look s2 l n nd HT2 Hph Ec En) as HL.
        destruct (GenCL.visit_cond (ctr nd) (lcapt l)) eqn:Ev; cbn [fst snd].
        + set (s2u := if ordered_visit (lgrp s2) (lvis l) n then s2 else ls_unord s2).
          assert (U : Guar t s2 s2u /\ Rely t s2 s2u /\ GI s2u /\ lsecs s2u = lsecs s2 /\ (wrapped s2 -> wrapped s2u)).
          { subst s2u. destruct (ordered_visit (lgrp s2) (lvis l) n) eqn:Eo.
            - split; [apply Guar_refl|split; [apply Rely_refl|split; [exact HG2|split; [reflexivity|auto]]]].
            - (* then the counter has wrapped *)
              assert (W : wrapped s2).
              { destruct HT2 as [G [_ [W|HT2]]]; [exact W|exfalso].
                assert (Eo' : ordered_visit (tg (tstate s2 l)) (tvis (tstate s2 l)) n = true).
                { apply (visit_is_ordered (lcapt l) _ (tstate s2 l) n nd HT2); cbn [tstate tst_of tph tcur tg]; auto.
                  unfold node_of in En. destruct G as [G1 _]. rewrite G1 in En. exact En. }
                cbn [tstate tst_of tg tvis] in Eo'. destruct G as [G1 _]. rewrite <- G1 in Eo'. congruence. }
              apply unord_ok; assumption. }
          destruct U as [U1 [U2 [U3 [U4 U5]]]].
          split; [eapply Guar_trans; [exact U1|]; destruct m; apply log_guar; intros; discriminate|].
          split; [eapply Rely_trans; [exact U2|]; destruct m; apply log_rely; intros; discriminate|].
          split; [|split; [exact Ec|split; [right; reflexivity|reflexivity]]].
          eapply (TRinv_own s2); [cbn [lsecs ls_log]; exact U4|apply log_GI; exact U3|intros W; apply wrapped_log; auto|exact HL].
        + split; [apply Guar_refl|]. split; [apply Rely_refl|]. split; [exact HL|split; [exact Ec|split; [right; reflexivity|reflexivity]]].
      - destruct (trinv_node s2 l n HT2 Ec) as [W|[nd E']]; [|congruence]. cbn [fst snd].
        split; [apply Guar_refl|]. split; [apply Rely_refl|]. split; [exact HT2|split; [exact Ec|split; [left; exact W|reflexivity]]]. }
    clearbody r2. destruct r2 as [s2' l2]. cbn [fst snd] in *. destruct V as [V1 [V2 [V3 [V4 [V5 V6]]]]].
    split; [exact V1|].
    (* the mutex *)
    intros s3 HR3.
    assert (R03 : Rely t s s3).
    { eapply Rely_trans; [exact HR1|]. eapply Rely_trans; [exact HR2|]. eapply Rely_trans; [exact V2|exact HR3]. }
    split; [intro X; apply HO; apply (proj2 R03); exact X|].
    (* the step to the next node *)
    intros s4 HR4 HG4.
    assert (O4 : lown s4 = Some t) by (apply (proj2 HR4); reflexivity).
    split; [intros _; exact O4|].
    assert (HT3 : TRinv s3 l2) by (eapply TRinv_rely; [exact V3|exact (proj1 HR3)]).
    assert (HT4 : TRinv s4 l2).
    { eapply TRinv_rely; [|exact (proj1 HR4)].
      apply (TRinv_own s3); [reflexivity|apply own_GI; exact (proj1 HT3)|intros [u Hu]; exists u; right; exact Hu|exact HT3]. }
    assert (W4 : wrapped s4 \/ lph l2 = true).
    { destruct V5 as [W|P2]; [left|right; exact P2].
      eapply Rely_wrapped; [exact HR4|]. apply wrapped_own. eapply Rely_wrapped; [exact HR3|exact W]. }
    rewrite V4.
    match goal with |- Guar _ _ (fst ?r) /\ _ => set (r4 := r) end.
    assert (S4 : fst r4 = s4 /\ LoopI s4 (snd r4) /\ lsi (snd r4) = lsi l2).
    { subst r4. destruct (node_of s4 n) as [nd|] eqn:En4; cbn [fst snd].
      - split; [reflexivity|]. split; [|reflexivity]. split; [|reflexivity].
        destruct W4 as [W|P2]; [apply TRinv_wrapped; [exact HG4|exact (proj1 (proj2 HT4))|exact W]|].
        exact (trinv_step s4 l2 n nd HT4 P2 V4 En4).
      - split; [reflexivity|]. split; [|reflexivity]. split; [|reflexivity].
        destruct (trinv_node s4 l2 n HT4 V4) as [W|[nd E']]; [|congruence].
        apply TRinv_wrapped; [exact HG4|exact (proj1 (proj2 HT4))|exact W]. }
    clearbody r4. destruct r4 as [s4' l4]. cbn [fst snd] in *. destruct S4 as [-> [[HT4' Hph4] Hsi4]].
    split; [apply Guar_refl|].
    (* the mutex is given back *)
    intros s5 HR5.
    split; [apply (proj2 HR5); exact O4|].
    assert (HT5 : TRinv (ls_own (ls_log s5 (LaUnlock t)) None) l4).
    { apply (TRinv_own s5); [reflexivity| |apply wrapped_own|eapply TRinv_rely; [exact HT4'|exact (proj1 HR5)]].
      apply own_GI. exact (proj1 (TRinv_rely t _ _ _ HT4' (proj1 HR5))). }
    split; [cbn [lown ls_own]; discriminate|]. split; [split; [exact HT5|exact Hph4]|].
    intros s6 l6 HR6 HL6 Hc6 Hs6. apply H; [|exact HL6|exact Hc6|congruence]. split.
    + eapply Rely0_trans; [exact (proj1 R03)|].
      eapply Rely0_trans; [apply (own_rely0 t s3 (LaLock t) (Some t)); intros; discriminate|].
      eapply Rely0_trans; [exact (proj1 HR4)|].
      eapply Rely0_trans; [exact (proj1 HR5)|].
      eapply Rely0_trans; [apply (own_rely0 t s5 (LaUnlock t) None); intros; discriminate|].
      exact (proj1 HR6).
    + split; intros X; exfalso.
      * apply (proj2 HR6) in X. cbn [lown ls_own] in X. discriminate X.
      * exact (HO X).
  - cbn [wcl]. apply H; [exact HR1|split; [exact HT1|exact Hph]| |reflexivity]. destruct (lcur l); [discriminate Hc|reflexivity].
Qed.

(* ---------- soundness along the machine ---------- *)
Section RUN.
Variable progs : list (list lapi).
Definition prog (t : nat) : list lapi := nth t progs [].

Definition th_ok (t : nat) (th : lthread) (s : lshared) : Prop :=
  if lfin th then lcode th = [] /\ Post t (prog t) [] s (lloc th)
  else wcl t (lcode th) (Post t (prog t) (lcalls th)) s (lloc th).

Lemma th_ok_stable t th s s' : Rely t s s' -> th_ok t th s -> th_ok t th s'.
Proof.
  unfold th_ok. intros HR H. destruct (lfin th).
  - destruct H as [A B]. split; [exact A|]. eapply Post_stable; eauto.
  - eapply wcl_stable; [|exact HR|exact H]. intros a b y R. apply Post_stable. exact R.
Qed.

Definition others (t : nat) (s s' : lshared) : Prop := forall u, u <> t -> Rely u s s'.

Lemma others_refl t s : others t s s.
Proof. intros u _. apply Rely_refl. Qed.

Lemma others_trans t a b c : others t a b -> others t b c -> others t a c.
Proof. intros A B u Hu. eapply Rely_trans; eauto. Qed.

Lemma ladvance_ok t : forall fuel s cd cl l m,
  GI s -> wcl t cd (Post t (prog t) cl) s l ->
  let r := ladvance fuel t s (mkLT cd cl l false m) in
  GI (fst r) /\ th_ok t (snd r) (fst r) /\ others t s (fst r).
Proof.
  induction fuel as [|f IH]; intros s cd cl l m HG HW.
  - cbn [ladvance fst snd]. split; [exact HG|]. split; [exact HW|apply others_refl].
  - cbn [ladvance lcode lcalls lloc lmode]. destruct cd as [|i rest].
    + destruct cl as [|c r].
      * cbn [fst snd]. split; [exact HG|]. split; [split; [reflexivity|exact HW]|apply others_refl].
      * apply IH; [exact HG|]. cbn [wcl] in HW. eapply call_ok; exact HW.
    + cbn [wcl] in HW. destruct i as [| | | | |b fn|c x y| | |];
        try (cbn [fst snd]; split; [exact HG|]; split; [exact HW|apply others_refl]).
      * (* local *)
        cbn [wci] in HW. destruct (HW s (Rely_refl t s) HG) as [Hb [[G1 G2] HK]].
        assert (E0 : (if b && negb (holds t s) then ls_bad s else s) = s).
        { destruct b; [|reflexivity]. unfold holds. rewrite (Hb eq_refl), Nat.eqb_refl. reflexivity. }
        rewrite E0. clear E0.
        destruct (fn t s l) as [s1 l1] eqn:E. cbn [fst snd] in *.
        destruct (IH s1 rest cl l1 m (G1 HG) HK) as [A [B C]].
        split; [exact A|]. split; [exact B|]. eapply others_trans; [exact G2|exact C].
      * (* if *)
        rewrite wci_if in HW. destruct (HW s (Rely_refl t s)) as [Ha Hb].
        apply IH; [exact HG|]. apply wcl_app. destruct (c s l); auto.
      * (* loop *)
        apply IH; [exact HG|]. apply loop_ok. exact HW.
      * (* res *)
        cbn [wci] in HW. destruct (HW s (Rely_refl t s)) as [He HK].
        destruct (log_guar t s (LaRes t (lresb l))) as [G1 G2]; [intros u b0 E; inversion E; reflexivity|].
        destruct (callend_guar t (ls_log s (LaRes t (lresb l))) l He) as [[G3 G4] _].
        destruct (IH (call_end t (ls_log s (LaRes t (lresb l))) l) rest cl l m (G3 (G1 HG)) HK) as [A [B C]].
        split; [exact A|]. split; [exact B|]. eapply others_trans; [exact G2|]. eapply others_trans; [exact G4|exact C].
      * (* done *)
        cbn [wci] in HW. destruct (HW s (Rely_refl t s)) as [He HK].
        destruct (log_guar t s (LaDone t)) as [G1 G2]; [intros; discriminate|].
        destruct (callend_guar t (ls_log s (LaDone t)) l He) as [[G3 G4] _].
        destruct (IH (call_end t (ls_log s (LaDone t)) l) rest cl l m (G3 (G1 HG)) HK) as [A [B C]].
        split; [exact A|]. split; [exact B|]. eapply others_trans; [exact G2|]. eapply others_trans; [exact G4|exact C].
Qed.

(* the invariant over configurations: the global facts, every thread's assertion, and: whoever holds the mutex is a
   thread that has not finished *)
Definition Inv (s : lshared) (ths : list lthread) : Prop :=
  GI s /\ (forall t th, nth_error ths t = Some th -> th_ok t th s) /\
  (forall u, lown s = Some u -> exists th, nth_error ths u = Some th /\ lfin th = false).

Lemma nth_lset : forall (ths : list lthread) t x u,
  nth_error (lset ths t x) u = if Nat.eqb u t then match nth_error ths t with Some _ => Some x | None => None end else nth_error ths u.
Proof.
  induction ths as [|y r IH]; intros t x u; cbn [lset].
  - destruct (Nat.eqb u t); destruct t, u; reflexivity.
  - destruct t as [|t]; destruct u as [|u]; cbn [nth_error Nat.eqb]; try reflexivity. apply IH.
Qed.

Lemma finished_frees t th s : th_ok t th s -> lfin th = true -> lown s <> Some t.
Proof. unfold th_ok. intros H F. rewrite F in H. destruct H as [_ [O _]]. exact O. Qed.

Lemma lperform_ok t s ths :
  Inv s ths -> (forall th, nth_error ths t = Some th -> lenabled s th = true) ->
  Inv (fst (lperform t s ths)) (snd (lperform t s ths)).
Proof.
  intros [HG [HT HO]] Hen. unfold lperform. destruct (nth_error ths t) as [th|] eqn:Et; [|split; [|split]; assumption].
  specialize (Hen th eq_refl).
  destruct th as [cd cl l fin m]. cbn [lcode lcalls lloc lmode].
  assert (Hth := HT t _ Et). unfold th_ok in Hth. cbn [lfin lcode lcalls lloc] in Hth.
  unfold lenabled in Hen. cbn [lfin lcode] in Hen.
  destruct fin; [discriminate Hen|].
  (* what is left after the visible action (if the head is one) runs on as local code *)
  assert (Fin : forall s1 cd1 l1, GI s1 -> wcl t cd1 (Post t (prog t) cl) s1 l1 -> others t s s1 ->
            Inv (fst (let '(s2, th2) := ladvance LFUEL t s1 (mkLT cd1 cl l1 false m) in (s2, lset ths t th2)))
                (snd (let '(s2, th2) := ladvance LFUEL t s1 (mkLT cd1 cl l1 false m) in (s2, lset ths t th2)))).
  { intros s1 cd1 l1 G1 W1 O1.
    destruct (ladvance_ok t LFUEL s1 cd1 cl l1 m G1 W1) as [A [B C]].
    destruct (ladvance LFUEL t s1 (mkLT cd1 cl l1 false m)) as [s2 th2]. cbn [fst snd] in *.
    assert (O2 : others t s s2) by (eapply others_trans; eauto).
    split; [exact A|]. split.
    - intros u th' Hu. rewrite nth_lset in Hu. destruct (Nat.eqb_spec u t) as [->|Hne].
      + rewrite Et in Hu. inversion Hu; subst th'. exact B.
      + eapply th_ok_stable; [|apply HT; exact Hu]. apply O2. exact Hne.
    - intros u Hu. destruct (Nat.eq_dec u t) as [->|Hne].
      + exists th2. rewrite nth_lset, Nat.eqb_refl, Et. split; [reflexivity|].
        destruct (lfin th2) eqn:F; [|reflexivity]. exfalso. exact (finished_frees t th2 s2 B F Hu).
      + destruct (HO u (proj1 (proj2 (O2 u Hne)) Hu)) as [thu [Eu Fu]]. exists thu. split; [|exact Fu].
        rewrite nth_lset. destruct (Nat.eqb_spec u t); [contradiction|exact Eu]. }
  destruct cd as [|i rest].
  { (* between two calls *) apply Fin; [exact HG|exact Hth|apply others_refl]. }
  cbn [wcl] in Hth.
  destruct i as [| | | | |b fn|c x y| | |]; cbn beta iota zeta.
  6-10: (apply Fin; [exact HG|exact Hth|apply others_refl]).
  all: cbn [wci] in Hth; specialize (Hth s (Rely_refl t s)); cbn [veff fst snd] in Hth.
  - (* lock: the mutex was free *)
    destruct Hth as [_ Hth]. destruct (lown s) eqn:Eo; [discriminate Hen|].
    destruct (veff_guar t JLock s l eq_refl HG (fun _ => Eo) (fun X => ltac:(discriminate X))) as [G1 G2].
    apply Fin; [exact (G1 HG)|exact Hth|exact G2].
  - (* unlock: by the owner *)
    destruct Hth as [Ho Hth].
    destruct (veff_guar t JUnlock s l eq_refl HG (fun X => ltac:(discriminate X)) (fun _ => Ho)) as [G1 G2].
    apply Fin; [exact (G1 HG)|exact Hth|exact G2].
  - destruct (veff_guar t JInc s l eq_refl HG (fun X => ltac:(discriminate X)) (fun X => ltac:(discriminate X))) as [G1 G2].
    apply Fin; [exact (G1 HG)|exact Hth|exact G2].
  - destruct (veff_guar t JLoad s l eq_refl HG (fun X => ltac:(discriminate X)) (fun X => ltac:(discriminate X))) as [G1 G2].
    apply Fin; [exact (G1 HG)|exact Hth|exact G2].
  - apply Fin; [exact HG|exact Hth|apply others_refl].
Qed.

Lemma Inv_log s ths : Inv s ths -> Inv (ls_log s LaDeadlock) ths.
Proof.
  intros [HG [HT HO]]. split; [|split].
  - apply log_GI. exact HG.
  - intros t th H. eapply th_ok_stable; [|apply HT; exact H]. apply log_rely. intros; discriminate.
  - exact HO.
Qed.

Lemma lnext_enabled s ths : forall sch t r, lnext s ths sch = (Some t, r) ->
  forall th, nth_error ths t = Some th -> lenabled s th = true.
Proof.
  induction sch as [|x sch IH]; intros t r H th Hth; cbn [lnext] in H; [discriminate|].
  destruct (nth_error ths x) as [thx|] eqn:Ex.
  - destruct (lenabled s thx) eqn:En.
    + inversion H; subst. rewrite Ex in Hth. inversion Hth; subst. exact En.
    + eapply IH; eauto.
  - eapply IH; eauto.
Qed.

Lemma lfirst_some p : forall (l : list lthread) i t, lfirst l i p = Some t ->
  exists th, nth_error l (t - i) = Some th /\ p th = true /\ i <= t.
Proof.
  induction l as [|x l IH]; intros i t H; cbn [lfirst] in H; [discriminate|].
  destruct (p x) eqn:Ep.
  - inversion H; subst. exists x. rewrite Nat.sub_diag. repeat split; auto.
  - destruct (IH (S i) t H) as [th [A [B C]]]. exists th. split; [|split; [exact B|lia]].
    replace (t - i) with (S (t - S i)) by lia. exact A.
Qed.

Lemma lfirst_none p : forall (l : list lthread) i, lfirst l i p = None -> forall th, In th l -> p th = false.
Proof.
  induction l as [|x l IH]; intros i H th Hin; [destruct Hin|]. cbn [lfirst] in H.
  destruct (p x) eqn:Ep; [discriminate|]. destruct Hin as [<-|Hin]; [exact Ep|eapply IH; eauto].
Qed.

Lemma lrun_ok : forall fuel s ths sch, Inv s ths -> Inv (fst (lrun fuel s ths sch)) (snd (lrun fuel s ths sch)).
Proof.
  induction fuel as [|f IH]; intros s ths sch H; cbn [lrun]; [exact H|].
  destruct (lnext s ths sch) as [pick rest] eqn:En.
  destruct pick as [t|].
  - assert (H1 := lperform_ok t s ths H (lnext_enabled s ths sch t rest En)).
    destruct (lperform t s ths) as [s1 ths1]. apply IH. exact H1.
  - destruct (lfirst ths 0 (lenabled s)) as [t|] eqn:Ef.
    + destruct (lfirst_some _ _ _ _ Ef) as [th [A [B _]]]. rewrite Nat.sub_0_r in A.
      assert (H1 := lperform_ok t s ths H (fun th' E => ltac:(rewrite A in E; inversion E; subst; exact B))).
      destruct (lperform t s ths) as [s1 ths1]. apply IH. exact H1.
    + destruct (forallb lfin ths); [exact H|]. cbn [fst snd]. apply Inv_log. exact H.
Qed.

Lemma init_ok : Inv ls0 (lstart progs).
Proof.
  split; [|split].
  - split; [reflexivity|]. split; [exact I|]. split; [right; constructor|]. split; [reflexivity|]. split; [reflexivity|].
    split; [right; intros z []|]. split; [intros t p0 p1 vis []|]. split; [right; reflexivity|intros t b i e []].
  - intros t th H. unfold lstart in H. rewrite nth_error_map in H.
    destruct (nth_error progs t) as [p|] eqn:Ep; [|discriminate]. inversion H; subst th. clear H.
    unfold th_ok. cbn [lfin lcode lcalls lloc wcl wci veff fst snd].
    intros s1 [[R1 [R2 _]] R4]. split; [intro X; apply R4 in X; discriminate X|]. exists []. split.
    + unfold prog. cbn [app]. apply (nth_error_nth progs t []). exact Ep.
    + rewrite R1, R2. split; [constructor|reflexivity].
  - intros u X. discriminate X.
Qed.

Theorem projection_every_schedule fuel sch :
  Inv (fst (lrun fuel ls0 (lstart progs) sch)) (snd (lrun fuel ls0 (lstart progs) sch)).
Proof. apply lrun_ok. apply init_ok. Qed.

(* ---------- no deadlock on the list's mutex ---------- *)
(* in every reachable configuration: while some thread has not finished its program, some thread can take a step *)
Theorem some_thread_can_run s ths :
  Inv s ths -> forallb lfin ths = false -> exists t, lfirst ths 0 (lenabled s) = Some t.
Proof.
  intros [HG [HT HO]] Hf.
  destruct (lfirst ths 0 (lenabled s)) as [t|] eqn:Ef; [eauto|exfalso].
  assert (Hnone := lfirst_none _ _ _ Ef).
  (* an unfinished thread *)
  assert (Hu : exists th, In th ths /\ lfin th = false).
  { clear -Hf. induction ths as [|x r IH]; cbn [forallb] in Hf; [discriminate|].
    destruct (lfin x) eqn:E; [destruct (IH Hf) as [th [A B]]; exists th; split; [right; exact A|exact B]|].
    exists x. split; [left; reflexivity|exact E]. }
  destruct (lown s) as [u|] eqn:Eo.
  - (* the owner has not finished, and its next instruction is not another JLock *)
    destruct (HO u eq_refl) as [th [Eu Fu]].
    assert (Hin : In th ths) by (eapply nth_error_In; eauto).
    specialize (Hnone th Hin). unfold lenabled in Hnone. rewrite Fu in Hnone.
    destruct (lcode th) as [|i rest] eqn:Ec; [discriminate|].
    destruct i; try discriminate.
    specialize (HT u th Eu). unfold th_ok in HT. rewrite Fu, Ec in HT. cbn [wcl wci] in HT.
    destruct (HT s (Rely_refl u s)) as [X _]. exact (X Eo).
  - destruct Hu as [th [Hin Fu]]. specialize (Hnone th Hin). unfold lenabled in Hnone. rewrite Fu, Eo in Hnone.
    destruct (lcode th) as [|i rest]; [discriminate|]. destruct i; discriminate.
Qed.

End RUN.

(* ---------- what the invariant says about a run ---------- *)
Section HEADLINE.
Variable progs : list (list lapi).
Variable sch : list nat.
Variable fuel : nat.
Let s := fst (lrun fuel ls0 (lstart progs) sch).
Let ths := snd (lrun fuel ls0 (lstart progs) sch).

(* the sections in the order in which they were executed, and their results *)
Definition secs_of (x : lshared) : list sec := rev (map esec (lsecs x)).
Definition results_of (x : lshared) : list bool := rev (map eres (lsecs x)).

(* 1. the list of the machine is what the recorded sections, run one after the other, make of the empty list *)
Theorem machine_list_is_the_run_of_its_sections :
  run_secs empty_group (secs_of s) = (lgrp s, results_of s).
Proof.
  destruct (projection_every_schedule progs fuel sch) as [[G1 [G2 _]] _]. fold s in G1, G2.
  unfold secs_of, results_of. rewrite (replay_is_run_secs _ G2), G1. reflexivity.
Qed.

(* 2. unless the 32-bit counter wrapped to zero, content and results are those of the sequential list specification
      executed in the order of the sections *)
Theorem every_execution_linearizes :
  ~ wrapped s ->
  GInv (lgrp s) (fst (spec_secs 0 [] (secs_of s))) /\ results_of s = snd (spec_secs 0 [] (secs_of s)).
Proof.
  intros NW.
  destruct (projection_every_schedule progs fuel sch) as [[G1 [G2 [G3 _]]] _]. fold s in G1, G2, G3.
  destruct G3 as [G3|G3]; [contradiction|].
  assert (F : Forall sec_counter_ok (secs_of s)).
  { unfold secs_of. apply Forall_rev. apply Forall_forall. intros x Hx. apply in_map_iff in Hx. destruct Hx as [e [<- He]].
    unfold rec_ok in G3. rewrite Forall_forall in G3. apply G3. exact He. }
  destruct (sections_in_any_order_refine_list_spec (secs_of s) empty_group [] ginv_empty F) as [A B].
  rewrite machine_list_is_the_run_of_its_sections in A, B. cbn [fst snd] in A, B. cbn [empty_group heap length] in A, B.
  split; [exact A|exact B].
Qed.

(* 3. that order contains the calls of every finished thread in program order, one section per adding / removing /
      querying call, and what the thread reported (LaRes) are the results of its removing / querying sections *)
Theorem sections_of_a_finished_thread_are_its_calls_in_program_order t th :
  nth_error ths t = Some th -> lfin th = true ->
  Forall2 call_sec (filter has_sec (prog progs t)) (rev (map esec (tsecs t s))) /\
  rl t s = map eres (filter (fun e => negb (adds (esec e))) (tsecs t s)).
Proof.
  intros Ht Hf.
  destruct (projection_every_schedule progs fuel sch) as [_ [HT _]]. fold s ths in HT.
  specialize (HT t th Ht). unfold th_ok in HT. rewrite Hf in HT. destruct HT as [_ [_ [d [A [B C]]]]].
  rewrite app_nil_r in A. subst d. split; assumption.
Qed.

(* 3'. no deadlock: in the configuration a run ends in, either every thread has finished its program or some thread can
       take a step — so the scheduler never finds all unfinished threads blocked on the list's mutex *)
Theorem no_call_blocks_for_ever :
  forallb lfin ths = true \/ exists t, lfirst ths 0 (lenabled s) = Some t.
Proof.
  destruct (forallb lfin ths) eqn:E; [left; reflexivity|right].
  apply (some_thread_can_run progs s ths); [apply projection_every_schedule|exact E].
Qed.

(* 3''. lock discipline: no piece of code that touches the links (the sections of the adding / removing / querying calls,
        the step node = node->next of a traversal) ever ran while its thread did not hold the list's mutex *)
Theorem sections_run_under_the_mutex : lbad s = false.
Proof.
  destruct (projection_every_schedule progs fuel sch) as [[_ [_ [_ [G4 _]]]] _]. exact G4.
Qed.

(* 4. every traversal (invocation, enumeration) that has ended: with p0 the number of sections executed when it read head
      and p1 the number executed when it ended, it visited no node twice, and it visited every node that was in the list
      after the first p0 sections and that none of the sections p0+1 .. p1 removed *)
Theorem finished_traversals_visit_what_stayed t p0 p1 vis :
  ~ wrapped s -> In (t, p0, p1, vis) (ltravs s) ->
  p0 <= p1 /\ p1 <= length (lsecs s) /\
  NoDup vis /\
  forall z, In z (ids_rec (old_rec (lsecs s) p0)) -> ~ In z (gone_rec (new_rec (old_rec (lsecs s) p1) p0)) -> In z vis.
Proof.
  intros NW Hin.
  destruct (projection_every_schedule progs fuel sch) as [[_ [_ [_ [_ [_ [_ [G7 _]]]]]]] _]. fold s in G7.
  destruct (G7 t p0 p1 vis Hin) as [A [B [C|[C D]]]]; [contradiction|]. repeat split; assumption.
Qed.

(* 4'. real-time order.  Every finished call is recorded (ghost lcrec) as (thread, b, i, e): b / e = the number of sections
       executed when the call began / ended, i = the position of the call's own section in the record (0: the call has
       none).  A call's section is executed after the call began and before it ended, and it is the calling thread's *)
Theorem calls_take_effect_between_their_ends t b i e :
  In (t, b, i, e) (lcrec s) -> i <> 0 ->
  b < i /\ i <= e /\ e <= length (lsecs s) /\ exists sc r, nth_error (secs_of s) (i - 1) = Some sc /\ nth_error (rev (lsecs s)) (i - 1) = Some (t, sc, r).
Proof.
  intros Hin Hi.
  destruct (projection_every_schedule progs fuel sch) as [[_ [_ [_ [_ [_ [_ [_ [_ G9]]]]]]]] _]. fold s in G9.
  destruct (G9 t b i e Hin) as [A [B|[B [C [sc [r D]]]]]]; [contradiction|].
  split; [exact B|]. split; [exact C|]. split; [exact A|]. exists sc, r. split; [|exact D].
  unfold secs_of. rewrite <- map_rev. rewrite (map_nth_error esec _ _ D). reflexivity.
Qed.

(*     hence: of two finished calls with sections, the one that ended when no more sections had been executed than when
       the other began — in particular every call that returned before the other was issued — has its section earlier
       in the order of 2. *)
Corollary real_time_order_is_respected t1 b1 i1 e1 t2 b2 i2 e2 :
  In (t1, b1, i1, e1) (lcrec s) -> In (t2, b2, i2, e2) (lcrec s) -> i1 <> 0 -> i2 <> 0 ->
  e1 <= b2 -> i1 < i2.
Proof.
  intros H1 H2 N1 N2 Hle.
  destruct (calls_take_effect_between_their_ends _ _ _ _ H1 N1) as [_ [A _]].
  destruct (calls_take_effect_between_their_ends _ _ _ _ H2 N2) as [B _]. lia.
Qed.

(* 5. list order of the visits: unless the counter wrapped, no traversal ever visited a node while a node it had
      visited earlier, and that was still in the list at that moment, did not stand before it in the list *)
Theorem visits_follow_list_order : ~ wrapped s -> lunord s = false.
Proof.
  intros NW. destruct (projection_every_schedule progs fuel sch) as [[_ [_ [_ [_ [_ [_ [_ [[W|G8] _]]]]]]]] _]; [contradiction|exact G8].
Qed.

End HEADLINE.

(* 4. the section of a call lies inside the call: it is preceded by the call's first action (the increment, the lock or
      the section itself for empty()) and followed by the call's end marker *)
Definition ends_call (i : linstr) : bool := match i with JRes | JDone => true | _ => false end.

Lemma section_inside_call c :
  has_sec c = true ->
  exists pre b x post, lcode_of c = pre ++ do_sec b x :: post /\
                       existsb ends_call pre = false /\ existsb ends_call post = true.
Proof.
  destruct c as [cb h|cb h|cb hb h|h|h| |a|]; intros H; try discriminate; cbn [lcode_of draw app].
  - exists [JInc; JLock]. do 3 eexists. split; [reflexivity|]. split; reflexivity.
  - exists [JInc; JLock]. do 3 eexists. split; [reflexivity|]. split; reflexivity.
  - eexists [_; JInc; JLock]. do 3 eexists. split; [reflexivity|]. split; reflexivity.
  - exists [JLock]. do 3 eexists. split; [reflexivity|]. split; reflexivity.
  - exists [JLock]. do 3 eexists. split; [reflexivity|]. split; reflexivity.
  - exists []. do 3 eexists. split; [reflexivity|]. split; reflexivity.
Qed.

(* ---------- the statements are about real runs ---------- *)
(* three threads: append / append / invoke  |  remove / append / remove  |  insert-before / ownsHandle / empty, under a
   schedule that interleaves them; nothing wrapped, every thread finished, ten sections were executed *)
Definition proj_progs : list (list lapi) :=
  [[LAppend 1 0; LAppend 2 1; LInvoke 7%Z]; [LRemove 0; LAppend 3 2; LRemove 0]; [LInsert 4 1 3; LOwns 0; LEmpty]].
Definition proj_sched : list nat :=
  [0; 1; 2; 0; 0; 1; 2; 2; 0; 1; 1; 2; 0; 0; 2; 1; 0; 2; 2; 1; 0; 1; 1; 2; 0; 0; 1; 2; 2; 0; 1; 0; 2; 1; 0; 0; 1; 2; 0; 1; 2; 0; 1; 2].

Example projection_example :
  let r := lrun 400 ls0 (lstart proj_progs) proj_sched in
  forallb lfin (snd r) = true /\
  existsb (fun a => match a with LaInc _ 0%N => true | _ => false end) (llog (fst r)) = false /\
  secs_of (fst r) = [SBack 1 1; SRemove (Some 0); SBefore 4 2 None; SBack 2 3; SBack 3 4; SOwns (Some 0); SEmpty; SRemove (Some 0)] /\
  results_of (fst r) = [true; true; true; true; true; false; false; false] /\
  fst (spec_secs 0 [] (secs_of (fst r))) = [1; 2; 3] /\
  snd (lc_run_case 400 proj_progs proj_sched) = [4; 2; 3].
Proof. vm_compute. repeat split. Qed.

(* the ghost flag is not constant: code marked `locked` that runs without the mutex sets it *)
Example lock_discipline_flag_can_be_set :
  lbad (fst (ladvance 5 0 ls0 (mkLT [do_sec true (fun _ _ => SRemove None)] [] ll0 false None))) = true /\
  lbad (fst (ladvance 5 0 (ls_own ls0 (Some 0)) (mkLT [do_sec true (fun _ _ => SRemove None)] [] ll0 false None))) = false.
Proof. vm_compute. split; reflexivity. Qed.

(* a traversal during which another thread removes a callback ahead of the cursor and appends a new one: thread 0 appends
   callbacks 1 2 3 (nodes 0 1 2) and invokes; thread 1 removes node 1 and appends callback 4 (node 3) after thread 0 has
   looked at node 0.  The record says: head was read after 3 sections, the traversal ended after 5, it visited nodes 0
   and 2; node 1 was removed in between (gone), node 3 was not in the list at p0 (and its counter 4 is newer than the
   captured 3) *)
Definition trav_progs : list (list lapi) := [[LAppend 1 0; LAppend 2 1; LAppend 3 2; LInvoke 7%Z]; [LRemove 1; LAppend 4 3]].
Definition trav_sched : list nat := repeat 0 13 ++ repeat 1 8 ++ repeat 0 20.

Example traversal_example :
  let r := lrun 600 ls0 (lstart trav_progs) trav_sched in
  let s := fst r in
  forallb lfin (snd r) = true /\
  ltravs s = [(0, 3, 5, [0; 2])] /\
  ids_rec (old_rec (lsecs s) 3) = [0; 1; 2] /\
  gone_rec (new_rec (old_rec (lsecs s) 5) 3) = [1] /\
  secs_of s = [SBack 1 1; SBack 2 2; SBack 3 3; SRemove (Some 1); SBack 4 4] /\
  filter (fun a => match a with LaCall _ _ _ => true | _ => false end) (rev (llog s)) = [LaCall 0 1 7; LaCall 0 3 7].
Proof. vm_compute. repeat split. Qed.

(* the order flag is not constant: a (made-up) traversal that claims to have visited node 1 and now visits node 0 of the
   list [0; 1] sets it; one that visited 0 and now visits 1 does not *)
Definition two_appends : lshared := fst (lrun 100 ls0 (lstart [[LAppend 1 0; LAppend 2 1]]) []).
Example order_flag_can_be_set :
  list_ids (lgrp two_appends) = [0; 1] /\
  lunord (fst (ladvance 3 0 two_appends (mkLT (loop_body None) [] (mkLL None 0 None (Some 0) 5%N false [1] false 2 0 0) false None))) = true /\
  lunord (fst (ladvance 3 0 two_appends (mkLT (loop_body None) [] (mkLL None 0 None (Some 1) 5%N false [0] false 2 0 0) false None))) = false.
Proof. vm_compute. repeat split. Qed.
