(* Properties_C01.v — C01: CallbackList invokes exactly the current callbacks, once each,
   in list order; remove/empty/forEach/forEachIf/ownsHandle/hasListener/removeListener
   describe that same content.

   This file contains only the property theorems (closed by `exact`), their
   non-vacuity examples and Print Assumptions.  The proofs are in CLHeap / CLOps /
   CLRefine / CLSim / CLMain. *)
From Coq Require Import List Arith NArith ZArith Bool.
From EV Require Import CLModel CLSpec CLHeap CLRefine CLSim CLMain.
From EV.gen Require GenCL.
Import ListNotations.

Definition flat : nat -> nat -> list cmd := fun _ _ => [].

Lemma flat_core : core_behav flat.
Proof. intros c n. constructor. Qed.

(* Every finite history of list operations (any number of lists, callbacks and handles —
   live, stale, empty, repeated), interleaved with invocations and enumerations, for all
   argument values: if the pointer-level model terminates without taking the counter-wrap
   branch, the list specification produces exactly the same observable trace (every
   boolean result, every call with its argument, every enumeration) and the final linked
   chains denote the specification's final lists.  W is the counter modulus (2^32 in the
   real code); the theorem holds for every W > 0. *)
Theorem C01_flat_histories_refine_list_spec :
  forall W fuel nl prog st',
    (0 < W)%N -> core_prog prog ->
    run W GenCL.remove_checks_removed GenCL.insert_checks_removed GenCL.owns_checks_removed flat fuel (init nl) prog = Some st' ->
    wrapped st' = false ->
    exists sst', s_run flat fuel (s_init nl) prog = Some sst' /\ strace sst' = trace st' /\ R W st' sst'.
Proof. intros W fuel nl prog st' HW Hp. exact (cl_run_refines W flat fuel nl prog st' HW flat_core Hp). Qed.
Print Assumptions C01_flat_histories_refine_list_spec.

(* The abstraction relation pins down the content: the nodes linked from head, in order,
   are exactly the specification's entries, with their callbacks. *)
Theorem C01_final_chain_is_spec_list :
  forall W st sst l o,
    R W st sst -> get_list st l = Some o ->
    exists gr sgr, get_group st (lg o) = Some gr /\ s_get_group sst (lg o) = Some sgr /\
                   GInv gr (map fst (ents sgr)) /\
                   (forall e c, In (e, c) (ents sgr) -> exists nd, nth_error (heap gr) e = Some nd /\ cb nd = c).
Proof. exact R_content. Qed.
Print Assumptions C01_final_chain_is_spec_list.

(* non-vacuity: a 14-operation history with a stale handle (h2 after its removal), an empty
   handle (h9), insert before head, before a removed callback, and all enumerations *)
Definition ex_prog : list cmd :=
  [Append 0 1 1; Append 0 2 2; Prepend 0 3 3; Insert 0 4 3 4; Remove 0 2; Remove 0 2; Insert 0 5 2 5;
   Insert 0 6 9 6; Owns 0 2; Owns 0 5; Invoke 0 7%Z; ForEach 0; ForEachIf 0 2; HasL 0 5; RemoveL 0 4; HasAny 0; Empty 0;
   Invoke 0 8%Z].

Example C01_hypotheses_satisfiable :
  core_prog ex_prog /\
  exists st', run (2 ^ 32)%N GenCL.remove_checks_removed GenCL.insert_checks_removed GenCL.owns_checks_removed flat 5 (init 1) ex_prog = Some st'
              /\ wrapped st' = false /\ length (trace st') = 25.
Proof.
  split; [repeat constructor|]. eexists. split; [vm_compute; reflexivity|]. split; reflexivity.
Qed.
