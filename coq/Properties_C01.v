(* placeholder until CLRefine.v lands *)
From EV Require Import CLModel CLSpec.
