(* Properties_C02.v — C02: callbacks may mutate or re-invoke the list that is invoking them.

   The specification's invocation (CLSpec.s_invoke) is the property's sentence read
   literally — the SNAPSHOT rule: take the entries present when the invocation starts, in
   order; call each one that is still in the list when its turn comes; entries added
   meanwhile are not in the snapshot; nested invocations obey the same rule on their own.
   Only theorems (closed by `exact`), examples and Print Assumptions here. *)
From Coq Require Import List Arith NArith ZArith Bool.
From EV Require Import CLModel CLSpec CLHeap CLRefine CLSim CLMain.
From EV.gen Require GenCL.
Import ListNotations.

(* For every table of callback behaviours (what callback c does on its n-th activation:
   any sequence of append / prepend / insert / remove / ownsHandle / empty / enumerate /
   re-invoke on any list, to any nesting depth), every main program and every fuel: if the
   pointer-level run terminates (without the counter-wrap branch, C19), the snapshot
   specification terminates with the same trace and the final chains denote the
   specification's lists — i.e. exactly what the same operations produce outside an
   invocation.  A terminating run never follows a dangling pointer: the interpreter returns
   None on such an access and the hypothesis is `= Some st'`. *)
Theorem C02_reentrant_programs_refine_snapshot_spec :
  forall W behav fuel nl prog st',
    (0 < W)%N -> core_behav behav -> core_prog prog ->
    run W GenCL.remove_checks_removed GenCL.insert_checks_removed GenCL.owns_checks_removed behav fuel (init nl) prog = Some st' ->
    wrapped st' = false ->
    exists sst', s_run behav fuel (s_init nl) prog = Some sst' /\ strace sst' = trace st' /\ R W st' sst'.
Proof. exact cl_run_refines. Qed.
Print Assumptions C02_reentrant_programs_refine_snapshot_spec.

(* the same from any state related to a specification state (e.g. in the middle of a program) *)
Theorem C02_refinement_from_any_related_state :
  forall W behav fuel st sst prog st',
    core_behav behav -> core_prog prog -> R W st sst ->
    run W GenCL.remove_checks_removed GenCL.insert_checks_removed GenCL.owns_checks_removed behav fuel st prog = Some st' ->
    wrapped st' = false ->
    exists sst', s_run behav fuel sst prog = Some sst' /\ strace sst' = trace st' /\ R W st' sst'.
Proof. exact cl_run_refines_from. Qed.
Print Assumptions C02_refinement_from_any_related_state.

(* Operations through the handle of an already removed callback are inert at every nesting
   depth — also while the removed node is still pinned by a running invocation:
   remove returns false and changes nothing, ownsHandle is false, insert-before appends. *)
Theorem C02_stale_handle_inert :
  forall W st l o gr n nd c hb h,
    get_list st l = Some o -> get_group st (lg o) = Some gr ->
    nth_error (heap gr) n = Some nd -> ctr nd = GenCL.removed_marker ->
    do_remove_handle GenCL.remove_checks_removed GenCL.insert_checks_removed GenCL.owns_checks_removed st l (Some (lg o, n)) = Some (st, false) /\
    do_owns GenCL.remove_checks_removed GenCL.insert_checks_removed GenCL.owns_checks_removed st l (Some (lg o, n)) = Some false /\
    (get_reg st hb = Some (lg o, n) ->
     (forall st1 g1 n1 gr1, alloc_node W st l c = Some (st1, g1, n1) -> get_group st1 g1 = Some gr1 ->
                            exists nd1, nth_error (heap gr1) n = Some nd1 /\ ctr nd1 = GenCL.removed_marker) ->
     do_insert W GenCL.remove_checks_removed GenCL.insert_checks_removed GenCL.owns_checks_removed st l c hb h = do_append W st l c h).
Proof. exact stale_handle_inert. Qed.
Print Assumptions C02_stale_handle_inert.

(* non-vacuity: callback 3 removes itself twice, inserts before its own removed handle,
   re-invokes the list; callback 5 removes the next callback and the outer current one *)
Definition ex_behav (c n : nat) : list cmd :=
  match c, n with
  | 3, 1 => [Remove 0 3; Remove 0 3; Insert 0 7 3 9; Owns 0 3; Invoke 0 20%Z]
  | 5, 1 => [Remove 0 6; Remove 0 3; Append 0 8 8; ForEach 0]
  | 7, 2 => [Prepend 0 9 10; RemoveL 0 1]
  | _, _ => []
  end.

Lemma ex_behav_core : core_behav ex_behav.
Proof.
  intros c n.
  destruct c as [|[|[|[|[|[|[|[|c]]]]]]]]; try constructor;
  destruct n as [|[|[|n]]]; repeat constructor.
Qed.

Definition ex_main : list cmd :=
  [Append 0 1 1; Append 0 3 3; Append 0 5 5; Append 0 6 6; Invoke 0 10%Z; Invoke 0 11%Z; ForEach 0; Empty 0].

Example C02_hypotheses_satisfiable :
  core_behav ex_behav /\ core_prog ex_main /\
  exists st', run (2 ^ 32)%N GenCL.remove_checks_removed GenCL.insert_checks_removed GenCL.owns_checks_removed ex_behav 12 (init 1) ex_main = Some st'
              /\ wrapped st' = false /\ 20 <= length (trace st').
Proof.
  split; [exact ex_behav_core|]. split; [repeat constructor|].
  eexists. split; [vm_compute; reflexivity|]. split; [reflexivity|]. vm_compute. repeat constructor.
Qed.
