(* Properties_C14.v — C14: heterogeneous classes route by prototype and never confuse stored types.

   Prototypes are positions 0..np-1 of the prototype list; `callable k p` (CanInvoke, a
   compile-time fact) is ANY table; kinds are callback / predicate types, argument-type lists,
   and `own p`, the stored tuple of prototype p handed out as const lvalues.
   (1) binding: a callback is put into the list of the FIRST listed prototype it is callable with;
   (2) routing: invoke / dispatch / enqueue select the first listed prototype callable with the
       argument types and run exactly that prototype's callbacks for the key, in order, once each;
       a processed queue hands each pending event, front to back, exactly once, to the callbacks of
       its own prototype;
   (3) the slot / free-list / typed-read mechanism of HeterEventQueue refines the pending-list
       specification for every re-entrant program (mixed prototypes, recycled slots): same trace,
       the error flag (slot read at a type other than its tag, set on occupied, get/clear on empty)
       never raised — stated for the two facts tie A reads off doProcessIf NOW (GenHeter);
   (4) processIf evaluates its predicate only on events whose prototype the predicate is callable
       with, and every round leaves all other events where they were, unaltered;
   (5) the include/exclude-event enqueue and dispatch call sites keep key and arguments intact under
       every admissible evaluation order (CallShape, shapes read off the headers: GenDisp).
   Refuted forms: each of the two unrepaired variants of doProcessIf violates (3)/(4).
   Only theorems (closed by `exact`), examples and Print Assumptions here. *)
From Coq Require Import List Arith NArith ZArith Bool Permutation Lia.
From EV Require Import HeterModel HeterProofs HeterRefine HeterPif CallShape.
From EV.gen Require GenHeter GenDisp.
Import ListNotations.

(* (1) append / prepend / insert of a callback of kind ck, for any state and any table: the callback
   lands in the list (k, p) of the leftmost prototype p callable with ck — l1 ++ new :: l2 with
   l2 = [] for append, l1 = [] for prepend — every other list is unchanged, the handle's index is p *)
Theorem C14_binds_first :
  forall np callable own arity counted mech chk rem behav pbehav rec st cmd k ck c st',
    adds_callback cmd k ck c ->
    h_step np callable own arity counted mech chk rem behav pbehav rec st cmd = Some st' ->
    exists p, is_first np callable ck p /\
      (exists l1 l2, lst_of st k p = l1 ++ l2 /\ lst_of st' k p = l1 ++ (hnexth st, c) :: l2 /\
                     match cmd with HAppend _ _ _ _ => l2 = [] | HPrepend _ _ _ _ => l1 = [] | _ => True end) /\
      (forall k2 p2, (k2, p2) <> (k, p) -> lst_of st' k2 p2 = lst_of st k2 p2) /\
      htrace st' = HBound p :: htrace st /\ hq st' = hq st /\ hf st' = hf st /\ herr st' = herr st.
Proof. exact binds_first. Qed.
Print Assumptions C14_binds_first.

(* the searches of hetercallbacklist_i.h (generated index arithmetic) return the leftmost callable
   prototype, labelled with its own position *)
Theorem C14_search_selects_first :
  forall np callable k i t,
    (first_callable np callable k = Some (i, t) -> i = t /\ is_first np callable k i) /\
    (first_args np callable k = Some (i, t) -> i = t /\ is_first np callable k i).
Proof. intros np callable k i t. exact (conj (first_callable_spec np callable k i t) (first_args_spec np callable k i t)). Qed.
Print Assumptions C14_search_selects_first.

(* (2) invoke / dispatch with argument kind ak (flat callbacks): exactly the callbacks of the first
   prototype callable with ak registered for key k run, in list order, once each, with the value;
   nothing else changes *)
Theorem C14_routes :
  forall np callable arity behav rec,
    (forall c n, behav c n = []) -> (forall st, rec st [] = Some st) ->
    forall st k ak v p, is_first np callable ak p ->
    exists st', hdispatch np callable arity behav rec st k ak v = Some st' /\
                htrace st' = rev (calls_of arity k p v (lst_of st k p)) ++ htrace st /\ same_but_trace st st'.
Proof.
  intros np callable arity behav rec.
  exact (dispatch_flat np callable (fun p => p) arity (fun _ => false) behav (fun _ _ => ([], false)) rec).
Qed.
Print Assumptions C14_routes.

(* enqueue appends one event tagged with the first prototype callable with the argument types *)
Theorem C14_routes_enqueue :
  forall np callable own arity counted chk rem behav pbehav rec st k ak v st',
    h_step np callable own arity counted false chk rem behav pbehav rec st (HEnqueue k ak v) = Some st' ->
    exists p, is_first np callable ak p /\ hq st' = hq st ++ [Some (mkHE p k v)] /\ htrace st' = htrace st /\ hlsts st' = hlsts st.
Proof. exact enqueue_tags_first. Qed.
Print Assumptions C14_routes_enqueue.

(* process / processOne on pending events es (flat callbacks; prototype lists in which a stored tuple
   re-selects its own prototype): front to back, each event exactly once, each to the callbacks of
   its own prototype for its key *)
Theorem C14_routes_process_fifo :
  forall np callable own arity behav rec,
    (forall c n, behav c n = []) -> (forall st, rec st [] = Some st) ->
    forall es st, (forall e, In e es -> is_first np callable (own (etag e)) (etag e)) ->
    exists st', hprocess_loop np callable own arity behav rec st (map Some es) = Some st' /\
                htrace st' = rev (flat_map (event_calls arity st) es) ++ htrace st /\ same_but_trace st st'.
Proof.
  intros np callable own arity behav rec.
  exact (process_loop_flat np callable own arity (fun _ => false) behav (fun _ _ => ([], false)) rec).
Qed.
Print Assumptions C14_routes_process_fifo.

(* (3) for every table, every re-entrant program (callbacks and predicates running any command to any
   depth) and every fuel: the mechanism WITH THE FACTS OF TODAY'S doProcessIf produces the
   specification's trace, never raises the error flag, and ends with exactly the specification's
   pending events and an all-empty free list *)
Theorem C14_queue_mechanism_refines_spec :
  forall np callable own arity counted behav pbehav fuel prog m',
    h_run np callable own arity counted true
          GenHeter.processif_checks_tag_before_typed_read GenHeter.processif_next_search_over_remaining
          behav pbehav fuel h_init prog = Some m' ->
    exists s', h_run np callable own arity counted false true true behav pbehav fuel h_init prog = Some s' /\
               htrace m' = htrace s' /\ herr m' = false /\ HR m' s'.
Proof.
  intros np callable own arity counted behav pbehav fuel prog m'.
  exact (heter_queue_refines_spec np callable own arity counted behav pbehav _ _ fuel prog m' eq_refl eq_refl).
Qed.
Print Assumptions C14_queue_mechanism_refines_spec.

(* (4a) every predicate evaluation of every program is on an event whose prototype the predicate is
   callable with (HPred's ghost fields: predicate kind, tag of the examined event) *)
Theorem C14_processif_only_typed :
  forall np callable own arity counted behav pbehav fuel prog st',
    h_run np callable own arity counted true
          GenHeter.processif_checks_tag_before_typed_read GenHeter.processif_next_search_over_remaining
          behav pbehav fuel h_init prog = Some st' ->
    forall p pk tag v, In (HPred p pk tag v) (htrace st') -> callable pk tag = true.
Proof.
  intros np callable own arity counted behav pbehav fuel prog st'.
  exact (predicate_only_on_callable_prototypes np callable own arity counted true _ _ behav pbehav fuel prog st' eq_refl eq_refl).
Qed.
Print Assumptions C14_processif_only_typed.

(* (4b) a round of processIf over queue Q (whatever the predicate and the nested commands do): what is
   put back is Q minus removed events, all tagged with the round's prototype; every slot not so tagged
   is the same slot with the same payload at the same relative position *)
Theorem C14_processif_others_in_place :
  forall np callable own arity mech chk behav pbehav rec st pk p lab ty st2 kept idle,
    hpif_loop np callable own arity mech chk behav pbehav rec
              (hupd_q (hupd_ecount st (S (hecount st))) [] (hf st)) pk p lab ty (hq st) [] 0 = Some (st2, kept, idle) ->
    removed_only (tagged lab) (hq st) kept /\ idle + length kept <= length (hq st) /\
    forall f : hslot -> bool, (forall x, tagged lab x -> f x = false) -> filter f kept = filter f (hq st).
Proof. exact round_leaves_others_in_place. Qed.
Print Assumptions C14_processif_others_in_place.

(* the two unrepaired forms (regression witnesses for 737e26f): retyping the slot before the tag test
   raises the wrong-type-read flag on a recycled slot; restarting the search over the whole list runs a
   `bool()` predicate on a void(int) event *)
Theorem C14_processif_only_typed_refuted_retype :
  exists tr, h_run_case 5 ex_callable ex_own ex_arity ex_counted true false true ex_flat ex_ptrue 4 prog_retype = Some (tr, true).
Proof. exact retype_before_tag_check_refuted. Qed.
Print Assumptions C14_processif_only_typed_refuted_retype.

Theorem C14_processif_only_typed_refuted_index :
  exists tr err p v, h_run_case 5 ex_callable ex_own ex_arity ex_counted true true false ex_flat ex_ptrue 4 prog_index = Some (tr, err) /\
                     In (HPred p 0 1 v) tr /\ ex_callable 0 1 = false /\ err = true.
Proof. exact next_search_over_whole_list_refuted. Qed.
Print Assumptions C14_processif_only_typed_refuted_index.

(* (5) HeterEventQueue::doEnqueue (include- and exclude-event) and HeterEventDispatcher::doDispatch:
   whatever the number of arguments, whichever are movable, whichever getEvent reads, and whatever
   order the compiler evaluates in, the key is computed from the caller's values and every stored /
   forwarded argument is the caller's value.  key_moves is what tie A reads off DefaultGetEvent. *)
Theorem C14_heter_enqueue_arguments_intact :
  forall n movable kread env evs,
    length env = n ->
    (admissible n GenDisp.heter_enqueue_incl_shape evs \/ admissible n GenDisp.heter_enqueue_excl_shape evs) ->
    key (run movable kread GenDisp.getevent_returns_param_plainly env evs) = Some (map (fun i => nth i env MovedFrom) kread) /\
    forall i, i < n -> plookup i (params (run movable kread GenDisp.getevent_returns_param_plainly env evs)) = Some (nth i env MovedFrom).
Proof.
  intros n movable kread env evs Hl [H|H].
  - exact (sequenced_site_intact n movable kread _ GenDisp.heter_enqueue_incl_shape env evs
             (fun E => match E in (_ = s) return (match s with GenDisp.Call => False | _ => True end) with eq_refl => I end) eq_refl Hl H).
  - exact (sequenced_site_intact n movable kread _ GenDisp.heter_enqueue_excl_shape env evs
             (fun E => match E in (_ = s) return (match s with GenDisp.Call => False | _ => True end) with eq_refl => I end) eq_refl Hl H).
Qed.
Print Assumptions C14_heter_enqueue_arguments_intact.

Theorem C14_heter_dispatch_arguments_intact :
  forall n movable kread env evs,
    length env = n ->
    (admissible n GenDisp.heter_dispatch_incl_shape evs \/ admissible n GenDisp.heter_dispatch_excl_shape evs) ->
    key (run movable kread GenDisp.getevent_returns_param_plainly env evs) = Some (map (fun i => nth i env MovedFrom) kread) /\
    forall i, i < n -> plookup i (params (run movable kread GenDisp.getevent_returns_param_plainly env evs)) = Some (nth i env MovedFrom).
Proof.
  intros n movable kread env evs Hl [H|H].
  - exact (sequenced_site_intact n movable kread _ GenDisp.heter_dispatch_incl_shape env evs
             (fun E => match E in (_ = s) return (match s with GenDisp.Call => False | _ => True end) with eq_refl => I end) eq_refl Hl H).
  - exact (sequenced_site_intact n movable kread _ GenDisp.heter_dispatch_excl_shape env evs
             (fun E => match E in (_ = s) return (match s with GenDisp.Call => False | _ => True end) with eq_refl => I end) eq_refl Hl H).
Qed.
Print Assumptions C14_heter_dispatch_arguments_intact.

(* regression witnesses for 4acdd81: the Call shape admits an order that reads the key from a
   moved-from argument; a key obtained by an implicit move hands the listener a moved-from event *)
Theorem C14_unsequenced_enqueue_refuted :
  forall n movable kread env,
    1 <= n -> movable 0 = true -> In 0 kread -> length env = n ->
    exists evs, admissible n GenDisp.Call evs /\
                exists k, key (run movable kread false env evs) = Some k /\ In MovedFrom k.
Proof. intros n movable kread env. exact (call_site_refuted n movable kread false env). Qed.
Print Assumptions C14_unsequenced_enqueue_refuted.

Theorem C14_implicit_move_in_getevent_refuted :
  exists evs, admissible 1 GenDisp.Statement evs /\
              plookup 0 (params (run (fun _ => true) [0] true [Val 7] evs)) = Some MovedFrom.
Proof. exact key_move_refuted. Qed.
Print Assumptions C14_implicit_move_in_getevent_refuted.

(* non-vacuity.  The harness's prototype list 0 as a table; callback 2 enqueues and runs processIf from
   inside a dispatch; four prototypes are pending together; slots are recycled over three rounds;
   predicates of kinds `()`, `(const std::string &)`, the overloaded kind 9 (callable with three
   prototypes, so processIf goes through several rounds) *)
Definition ex14_behav (c n : nat) : list hcmd :=
  match c, n with
  | 2, 1 => [HEnqueue 0 27 70%Z; HEmpty; HProcessIf 7 2]
  | 2, 2 => [HEnqueue 1 25 71%Z]
  | _, _ => []
  end.
Definition ex14_pbehav (p n : nat) : list hcmd * bool := ([], Nat.even n).
Definition ex14_main : list hcmd :=
  [HAppend 0 0 1 0; HAppend 0 2 2 1; HAppend 0 9 3 2; HPrepend 0 4 4 3; HInsert 0 10 5 1 4; HAppend 1 5 6 100; HAppend 0 8 7 5;
   HEnqueue 0 20 5%Z; HEnqueue 0 22 6%Z; HEnqueue 0 24 7%Z; HEnqueue 1 26 8%Z; HProcessIf 9 1; HEmpty; HProcess;
   HEnqueue 1 25 9%Z; HEnqueue 0 23 10%Z; HEnqueue 0 21 11%Z; HProcessIf 3 2; HProcessOne; HLedger; HProcessIf 0 3;
   HEnqueue 0 27 12%Z; HClear; HEmpty; HProcess; HRemove 0 1; HDispatch 0 22 13%Z].

Example C14_hypotheses_satisfiable :
  exists m', h_run 5 ex_callable ex_own ex_arity ex_counted true true true ex14_behav ex14_pbehav 8 h_init ex14_main = Some m'
             /\ 30 <= length (htrace m') /\ 3 <= length (hf m') /\ herr m' = false.
Proof. eexists. split; [vm_compute; reflexivity|]. split; [|split]; vm_compute; repeat constructor. Qed.

(* the table of harness list 0: kind 9 is callable with three prototypes and binds to the first; every
   stored tuple re-selects its own prototype (the hypothesis of C14_routes_process_fifo) *)
Example C14_table_facts :
  first_callable 5 ex_callable 9 = Some (0, 0) /\ first_callable 5 ex_callable 2 = Some (1, 1) /\
  next_round 5 ex_callable true 0 0 9 = Some (1, 1) /\ next_round 5 ex_callable true 2 2 9 = None /\
  (forall p, p < 5 -> first_args 5 ex_callable (ex_own p) = Some (p, p)).
Proof.
  split; [vm_compute; reflexivity|]. split; [vm_compute; reflexivity|].
  split; [vm_compute; reflexivity|]. split; [vm_compute; reflexivity|].
  intros p Hp. do 5 (destruct p as [|p]; [vm_compute; reflexivity|]). exfalso. lia.
Qed.

(* the model's processIf dispatches an accepted event exactly as process / processOne do: by the dispatcher stored with the
   item when it was enqueued (hdispatch_event: by the item's tag).  That today's doProcessIf does so — doDispatchQueuedEvent
   (item), not a call that selects the prototype again from the stored arguments — is read off the header (tie A).  With
   prototypes that differ only in the value category of a parameter the two are different (harness/heter_ref.cpp probes that
   configuration: the callbacks an event reaches must not depend on the call that consumes it). *)
Theorem C14_processif_dispatches_like_process :
  GenHeter.processif_dispatches_via_stored_dispatcher = true.
Proof. reflexivity. Qed.
Print Assumptions C14_processif_dispatches_like_process.
