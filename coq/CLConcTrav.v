(* CLConcTrav.v — the record of executed sections (CLConc.lsecs) as the history CLTrav.v speaks about.

   A traversal of the thread-level machine reads head at some moment p0 (= the number of sections recorded so far) and from
   then on alternates looks at the current node and steps to the next node, while other threads execute sections.  Here,
   at the level of the record alone (no machine yet): the state CLTrav's invariant TInv is about — list, content, cursor,
   phase, visited, removed-since — as a function of the record and of the traversal's locals, and the fact that one more
   recorded section of another thread is exactly CLTrav's event `TOther`.  CLConcProj.v uses this to carry TInv along every
   execution of the machine. *)
From Coq Require Import List Arith NArith ZArith Bool Lia.
From EV Require Import CLModel CLHeap CLOps CLRefine CLConc CLConcProofs CLTrav.
From EV.gen Require GenCL.
Import ListNotations.
Local Open Scope nat_scope.

Definition eth (e : nat * sec * bool) : nat := fst (fst e).
Definition esec (e : nat * sec * bool) : sec := snd (fst e).
Definition eres (e : nat * sec * bool) : bool := snd e.

(* the list after the recorded sections (newest first), and the results they had *)
Fixpoint replay (l : list (nat * sec * bool)) : group :=
  match l with [] => empty_group | e :: r => fst (sec_step (replay r) (esec e)) end.

Fixpoint results_ok (l : list (nat * sec * bool)) : Prop :=
  match l with [] => True | e :: r => snd (sec_step (replay r) (esec e)) = eres e /\ results_ok r end.

Definition rec_ok (R : list (nat * sec * bool)) : Prop := Forall (fun e => sec_counter_ok (esec e)) R.

(* the content of the list, as node ids of the sequential specification, after the recorded sections *)
Definition ids_rec (R : list (nat * sec * bool)) : list nat := fst (spec_secs 0 [] (rev (map esec R))).

Lemma spec_secs_snoc : forall l n ids x,
  fst (spec_secs n ids (l ++ [x])) =
  fst (sec_spec (n + length (filter adds l)) (fst (spec_secs n ids l)) x).
Proof.
  induction l as [|y r IH]; intros n ids x; cbn [app spec_secs filter length].
  - rewrite Nat.add_0_r. cbn [fst]. destruct (sec_spec n ids x) as [ids1 b]. reflexivity.
  - destruct (sec_spec n ids y) as [ids1 b] eqn:E1.
    specialize (IH (match y with SBack _ _ | SFront _ _ | SBefore _ _ _ => S n | _ => n end) ids1 x).
    destruct (spec_secs _ ids1 (r ++ [x])) as [ids2 bs] eqn:E2.
    destruct (spec_secs _ ids1 r) as [ids3 bs3] eqn:E3.
    cbn [fst] in *. rewrite IH.
    assert (En : match y with SBack _ _ | SFront _ _ | SBefore _ _ _ => S n | _ => n end + length (filter adds r) =
                 n + length (if adds y then y :: filter adds r else filter adds r)).
    { destruct y; cbn [adds length]; lia. }
    rewrite En. reflexivity.
Qed.

Lemma run_secs_snoc : forall l g x,
  run_secs g (l ++ [x]) =
  (fst (sec_step (fst (run_secs g l)) x), snd (run_secs g l) ++ [snd (sec_step (fst (run_secs g l)) x)]).
Proof.
  induction l as [|y r IH]; intros g x; cbn [app run_secs].
  - cbn [fst snd]. destruct (sec_step g x) as [g1 b]. reflexivity.
  - destruct (sec_step g y) as [g1 b]. rewrite IH. destruct (run_secs g1 r) as [g2 bs]. reflexivity.
Qed.

(* the record, oldest first, is a run of sections from the empty list *)
Lemma replay_is_run_secs : forall L,
  results_ok L -> run_secs empty_group (rev (map esec L)) = (replay L, rev (map eres L)).
Proof.
  induction L as [|e r IH]; intros H; cbn [map rev replay]; [reflexivity|].
  destruct H as [H1 H2]. rewrite run_secs_snoc, (IH H2). cbn [fst snd]. rewrite H1. reflexivity.
Qed.

Lemma heap_len_replay : forall R, length (heap (replay R)) = length (filter adds (map esec R)).
Proof.
  induction R as [|e r IH]; cbn [replay map filter]; [reflexivity|].
  rewrite sec_step_heap_length, IH. destruct (esec e); reflexivity.
Qed.

Lemma ids_rec_cons e R :
  ids_rec (e :: R) = fst (sec_spec (length (heap (replay R))) (ids_rec R) (esec e)).
Proof.
  unfold ids_rec. cbn [map rev]. rewrite spec_secs_snoc. cbn [Nat.add].
  rewrite heap_len_replay. f_equal. f_equal.
  rewrite <- (rev_involutive (filter adds (map esec R))) at 1. rewrite rev_length.
  (* filter commutes with rev *)
  assert (F : forall (l : list sec), filter adds (rev l) = rev (filter adds l)).
  { induction l as [|y r IH]; cbn [rev filter]; [reflexivity|]. rewrite filter_app, IH. cbn [filter]. destruct (adds y); [reflexivity|apply app_nil_r]. }
  rewrite F, rev_length. reflexivity.
Qed.

(* unless a counter is zero, the replayed list is well formed and its content is the specification's *)
Lemma ginv_replay : forall R, rec_ok R -> GInv (replay R) (ids_rec R).
Proof.
  induction R as [|e r IH]; intros H.
  - exact ginv_empty.
  - inversion H as [|? ? He Hr]; subst. rewrite ids_rec_cons. cbn [replay].
    apply (section_refines (replay r) (ids_rec r) (esec e) (IH Hr) He).
Qed.

(* ---------- the oldest p entries of the record, and the entries after them ---------- *)
Definition old_rec (R : list (nat * sec * bool)) (p : nat) := skipn (length R - p) R.
Definition new_rec (R : list (nat * sec * bool)) (p : nat) := firstn (length R - p) R.

Lemma old_rec_cons e R p : p <= length R -> old_rec (e :: R) p = old_rec R p.
Proof. intros H. unfold old_rec. cbn [length]. replace (S (length R) - p) with (S (length R - p)) by lia. reflexivity. Qed.

Lemma new_rec_cons e R p : p <= length R -> new_rec (e :: R) p = e :: new_rec R p.
Proof. intros H. unfold new_rec. cbn [length]. replace (S (length R) - p) with (S (length R - p)) by lia. reflexivity. Qed.

Lemma old_rec_all R : old_rec R (length R) = R.
Proof. unfold old_rec. rewrite Nat.sub_diag. reflexivity. Qed.

Lemma new_rec_all R : new_rec R (length R) = [].
Proof. unfold new_rec. rewrite Nat.sub_diag. reflexivity. Qed.

Lemma old_rec_length R p : p <= length R -> length (old_rec R p) = p.
Proof. intros H. unfold old_rec. rewrite skipn_length. lia. Qed.

Lemma old_rec_app L R p : p <= length R -> old_rec (L ++ R) p = old_rec R p.
Proof.
  induction L as [|e L IH]; intros H; cbn [app]; [reflexivity|].
  rewrite old_rec_cons; [apply IH; exact H|rewrite app_length; lia].
Qed.

(* the nodes removed by the given entries (newest first) *)
Definition gone_rec (Rn : list (nat * sec * bool)) : list nat :=
  flat_map (fun e => match esec e, eres e with SRemove (Some x), true => [x] | _, _ => [] end) Rn.

(* ---------- the state CLTrav speaks about ---------- *)
Definition tst_of (R : list (nat * sec * bool)) (l : llocals) : tst :=
  mkT (replay R) (ids_rec R) (lcur l) (lph l) (lvis l) (gone_rec (new_rec R (lp0 l))).

(* one more recorded section is the event TOther *)
Lemma tst_of_cons capt e R l :
  results_ok (e :: R) -> lp0 l <= length R ->
  tst_of (e :: R) l = tstep capt (tst_of R l) (TOther (esec e)).
Proof.
  intros [H1 _] Hp. unfold tst_of. cbn [tstep tg tids tcur tph tvis tgone replay].
  rewrite ids_rec_cons, (new_rec_cons e R (lp0 l) Hp). f_equal.
  cbn [gone_rec flat_map]. fold (gone_rec (new_rec R (lp0 l))).
  destruct (esec e) as [c k|c k|c k b|[x|]|x|] eqn:Es; try reflexivity.
  cbn [sec_step] in H1. rewrite <- H1. destruct (is_live (replay R) x); reflexivity.
Qed.

Lemma TInv_more capt ids0 : forall L R l,
  results_ok (L ++ R) -> rec_ok L -> lp0 l <= length R ->
  TInv capt ids0 (tst_of R l) -> TInv capt ids0 (tst_of (L ++ R) l).
Proof.
  induction L as [|e L IH]; intros R l Hr Hk Hp HT; cbn [app]; [exact HT|].
  inversion Hk as [|? ? He HL]; subst.
  rewrite (tst_of_cons capt e (L ++ R) l Hr); [|rewrite app_length; lia].
  apply tstep_inv; [|exact He]. apply IH; auto. destruct Hr as [_ Hr]. exact Hr.
Qed.

(* ---------- counters of the nodes in the list ---------- *)
Definition ctrs_le (c : N) (g : group) (ids : list nat) : Prop :=
  forall z, In z ids -> exists nd, nth_error (heap g) z = Some nd /\ (ctr nd <= c)%N.

Definition ctr_of (s : sec) : N := match s with SBack _ k | SFront _ k | SBefore _ k _ => k | _ => 0%N end.

Lemma ins_before_id_members b n l z : In z (ins_before_id b n l) -> z = n \/ In z l.
Proof.
  induction l as [|y r IH]; cbn [ins_before_id]; intros H.
  - destruct H as [<-|[]]; left; reflexivity.
  - destruct (Nat.eqb b y).
    + destruct H as [<-|H]; [left; reflexivity|right; exact H].
    + destruct H as [<-|H]; [right; left; reflexivity|]. destruct (IH H) as [->|X]; [left; reflexivity|right; right; exact X].
Qed.

Lemma sec_ctr_bound g ids sc c :
  GInv g ids -> sec_counter_ok sc -> ctrs_le c g ids -> (ctr_of sc <= c)%N ->
  ctrs_le c (fst (sec_step g sc)) (fst (sec_spec (length (heap g)) ids sc)).
Proof.
  intros G Hk HC Hc.
  destruct (other_effect g ids sc G Hk) as (G' & Hlen & Hkeep & _). cbv zeta in *.
  (* an old member that is still a member keeps its counter *)
  assert (Old : forall z, In z ids -> ~ removed_by sc g z ->
                exists nd, nth_error (heap (fst (sec_step g sc))) z = Some nd /\ (ctr nd <= c)%N).
  { intros z Hz Hn. destruct (HC z Hz) as [nd [A B]]. destruct (Hkeep z nd A) as [nd' [A' B']].
    exists nd'. split; [exact A'|]. rewrite (B' Hn). exact B. }
  (* the new node carries the section's counter *)
  assert (New : adds sc = true ->
                exists nd, nth_error (heap (fst (sec_step g sc))) (length (heap g)) = Some nd /\ (ctr nd <= c)%N).
  { intros Ha. destruct sc as [cb k|cb k|cb k [b|]|[x|]|[x|]|]; try discriminate; cbn [sec_step fst ctr_of sec_counter_ok] in *.
    - destruct (link_back_inv g ids cb k G Hk) as (_ & _ & _ & [nn [A [_ B]]] & _). exists nn. rewrite B. auto.
    - destruct (link_front_inv g ids cb k G Hk) as (_ & _ & _ & [nn [A [_ B]]] & _). exists nn. rewrite B. auto.
    - rewrite (is_live_iff g ids b G). destruct (existsb (Nat.eqb b) ids) eqn:Eb; cbn [fst].
      + apply existsb_exists in Eb. destruct Eb as [b' [Hb Eb]]. apply Nat.eqb_eq in Eb. subst b'.
        destruct (in_split _ _ Hb) as [a [r Eids]]. subst ids.
        destruct (link_before_inv g a b r cb k G Hk) as (_ & _ & _ & [nn [A [_ B]]] & _). exists nn. rewrite B. auto.
      + destruct (link_back_inv g ids cb k G Hk) as (_ & _ & _ & [nn [A [_ B]]] & _). exists nn. rewrite B. auto.
    - destruct (link_back_inv g ids cb k G Hk) as (_ & _ & _ & [nn [A [_ B]]] & _). exists nn. rewrite B. auto. }
  intros z Hz.
  destruct sc as [cb k|cb k|cb k [b|]|[x|]|[x|]|]; cbn [sec_spec fst] in Hz.
  - apply in_app_or in Hz. destruct Hz as [Hz|[<-|[]]]; [apply Old; [exact Hz|intros []]|apply New; reflexivity].
  - destruct Hz as [<-|Hz]; [apply New; reflexivity|apply Old; [exact Hz|intros []]].
  - destruct (existsb (Nat.eqb b) ids); cbn [fst] in Hz.
    + destruct (ins_before_id_members _ _ _ _ Hz) as [->|Hz']; [apply New; reflexivity|apply Old; [exact Hz'|intros []]].
    + apply in_app_or in Hz. destruct Hz as [Hz|[<-|[]]]; [apply Old; [exact Hz|intros []]|apply New; reflexivity].
  - apply in_app_or in Hz. destruct Hz as [Hz|[<-|[]]]; [apply Old; [exact Hz|intros []]|apply New; reflexivity].
  - destruct (existsb (Nat.eqb x) ids) eqn:Ex; cbn [fst] in Hz.
    + apply filter_In in Hz. destruct Hz as [Hz Hne]. apply Old; [exact Hz|].
      intros [E _]. subst z. unfold neqb in Hne. rewrite Nat.eqb_refl in Hne. discriminate.
    + apply Old; [exact Hz|]. intros [E L]. subst z. rewrite (is_live_iff g ids x G), Ex in L. discriminate.
  - apply Old; [exact Hz|intros []].
  - apply Old; [exact Hz|intros []].
  - apply Old; [exact Hz|intros []].
  - apply Old; [exact Hz|intros []].
Qed.

Lemma ctrs_le_mono c c' g ids : (c <= c')%N -> ctrs_le c g ids -> ctrs_le c' g ids.
Proof. intros H HC z Hz. destruct (HC z Hz) as [nd [A B]]. exists nd. split; [exact A|lia]. Qed.

(* every member passes the visit test of a traversal whose captured counter is at least the counters in the list *)
Lemma members_pass g ids c capt :
  GInv g ids -> ctrs_le c g ids -> (c <= capt)%N ->
  forall z, In z ids -> exists nd, nth_error (heap g) z = Some nd /\ GenCL.visit_cond (ctr nd) capt = true.
Proof.
  intros G HC Hc z Hz. destruct (HC z Hz) as [nd [A B]]. exists nd. split; [exact A|].
  destruct (lchain_in _ _ _ (gi_chain _ _ G) z Hz) as [nd' [A' L]]. rewrite A in A'. inversion A'; subst nd'.
  unfold GenCL.visit_cond. apply andb_true_iff. split.
  - apply negb_true_iff. apply N.eqb_neq. exact L.
  - apply N.leb_le. lia.
Qed.

(* ---------- list order of the visits ---------- *)
Lemma walk_lchain h : forall ids p k,
  lchain h p ids -> length ids <= k -> walk_ids h k (hd_error ids) = ids.
Proof.
  induction ids as [|x r IH]; intros p k H Hk; cbn [hd_error].
  - destruct k; reflexivity.
  - destruct k as [|k]; [cbn [length] in Hk; lia|]. cbn [walk_ids].
    destruct H as [nd [A [_ [_ [B C]]]]]. rewrite A, B. f_equal. apply (IH (Some x)); [exact C|cbn [length] in Hk; lia].
Qed.

Lemma nodup_bounded_length : forall (l : list nat) n, NoDup l -> (forall x, In x l -> x < n) -> length l <= n.
Proof.
  intros l n Hn Hb.
  assert (I : incl l (seq 0 n)) by (intros x Hx; apply in_seq; specialize (Hb x Hx); lia).
  pose proof (NoDup_incl_length Hn I) as H. rewrite seq_length in H. exact H.
Qed.

Lemma list_ids_ginv g ids : GInv g ids -> list_ids g = ids.
Proof.
  intros G. unfold list_ids. rewrite (gi_head _ _ G).
  apply (walk_lchain (heap g) ids None); [exact (gi_chain _ _ G)|].
  apply nodup_bounded_length; [exact (gi_nodup _ _ G)|]. intros x Hx. eapply lchain_bound; [exact (gi_chain _ _ G)|exact Hx].
Qed.

Lemma memb_in v ids : memb v ids = true <-> In v ids.
Proof.
  unfold memb. rewrite existsb_exists. split.
  - intros [x [A B]]. apply Nat.eqb_eq in B. subst. exact A.
  - intros H. exists v. split; [exact H|apply Nat.eqb_refl].
Qed.

Lemma beforeb_precedes ids v w : NoDup ids -> precedes ids v w -> beforeb ids v w = true.
Proof.
  intros Hn [a [b [c E]]]. subst ids. induction a as [|x a IH]; cbn [app beforeb].
  - rewrite Nat.eqb_refl. apply memb_in. apply in_or_app. right. left. reflexivity.
  - inversion Hn as [|? ? Hx Hr]; subst.
    destruct (Nat.eqb_spec x v) as [->|Hne]; [exfalso; apply Hx; apply in_or_app; right; left; reflexivity|].
    apply IH. exact Hr.
Qed.

Lemma not_yet_visited capt ids0 st w nd :
  TInv capt ids0 st -> tph st = false -> tcur st = Some w -> nth_error (heap (tg st)) w = Some nd ->
  GenCL.visit_cond (ctr nd) capt = true -> ~ In w (tvis st).
Proof.
  intros HT Hp Hc Hn Hv Hin.
  assert (Hl : live nd) by (eapply visit_cond_live; exact Hv).
  assert (Hw : In w (tids st)) by (eapply gi_live; [exact (ti_g _ _ _ HT)|exact Hn|exact Hl]).
  assert (Hfl : first_live (heap (tg st)) (tcur st) (Some w)) by (rewrite Hc; eapply fl_live; eauto).
  destruct (ti_behind _ _ _ HT _ Hfl w Hin) as [A|[A _]]; [|congruence].
  apply A. unfold ahead. cbn [sfrom_o]. apply sfrom_self. exact Hw.
Qed.

(* the check the machine makes at every visit succeeds while CLTrav's invariant holds *)
Lemma visit_is_ordered capt ids0 st w nd :
  TInv capt ids0 st -> tph st = false -> tcur st = Some w -> nth_error (heap (tg st)) w = Some nd ->
  GenCL.visit_cond (ctr nd) capt = true -> ordered_visit (tg st) (tvis st) w = true.
Proof.
  intros HT Hp Hc Hn Hv. pose proof (not_yet_visited capt ids0 st w nd HT Hp Hc Hn Hv) as Hnw. unfold ordered_visit. rewrite (list_ids_ginv _ _ (ti_g _ _ _ HT)).
  apply forallb_forall. intros v Hvv. destruct (memb v (tids st)) eqn:Em; [|reflexivity]. cbn [negb orb].
  apply beforeb_precedes; [exact (gi_nodup _ _ (ti_g _ _ _ HT))|].
  apply (order_from_TInv capt ids0 st w nd HT Hc Hn Hv v Hvv); [apply memb_in; exact Em|].
  intro E. subst v. exact (Hnw Hvv).
Qed.
