(* Properties_C09.v — C09: exceptions propagate and leave every container consistent and leak-free.

   PART 1 (ExnModel.v / ExnFault.v) — every operation the property names is its header's FAULT PROFILE:
   the sequence of points where user code runs or memory is allocated (Fault), irrevocable changes
   (Commit), unobservable ones (Hidden), work on the node / slot / list under construction (Local)
   and RAII scopes (lock_guard, CounterGuard, owner of the object under construction, catch-undo-rethrow).
   The profiles are built from the structural facts tools/leaves/exn.py reads off the clang AST
   (coq/gen/GenExn.v) and the noexcept flag read by tools/leaves/ctors.py (coq/gen/GenCtor.v).
   "The k-th point, for every k" is the universally quantified fault index; "every reachable state" is
   the universally quantified world.  Only the ScopedRemover adders need a well-formedness hypothesis
   (listener ids are handed out in increasing order: `fresh`, preserved by every link).

   What is claimed for which operation:
   * strong guarantee (observable world after the failure = before): CallbackList append / prepend /
     insert / remove / copy construction / copy assignment; EventDispatcher and EventQueue listener
     management; CounterRemover and ConditionalRemover adders; enqueue (std::list and OrderedQueueList);
     peekEvent; HeterCallbackList add / copy construction / copy assignment (which also must reach the
     caller: not noexcept) — by the syntactic criterion; ScopedRemover adders — by the catch-undo-rethrow
     scope, up to "an empty list under a key = no list under that key".
   * basic guarantee only, as the property demands no more: copy ASSIGNMENT of an EventDispatcher /
     EventQueue is member-wise assignment of the standard map: source untouched, destination valid (here:
     emptied and marked unspecified until assigned or destroyed).  A failed appendListener may leave an
     EMPTY CallbackList under the new key in the map: no listeners, unobservable, modelled as Hidden.
   * the shapes the library had before commits 836d4a8 / 8bc07e0 / df1fc3a (legacy_*_refuted) and shapes
     it never had (link before the callback copy, member-wise list assignment, empty slot queued first)
     are refuted by computed witnesses.

   PART 2 (ExnQueue.v / ExnQueueProofs.v) — exceptions thrown by listeners, filters and predicates, on an
   executable interpreter (pending list; per-key listener lists and a filter list with the snapshot rule;
   re-entrant bodies to any depth; XThrow), instantiated with the CounterGuard / no-try-catch facts of the
   headers.  All theorems are for ALL programs, behaviour tables, fuels and start states.

   Only theorems, examples and Print Assumptions here. *)
From Coq Require Import List Arith NArith ZArith Bool.
From EV Require Import ExnModel ExnFault ExnQueue ExnQueueProofs.
Import ListNotations.

(* ===================================================================== PART 1 *)

(* a fault at any point reaches the caller with that point's kind; a noexcept operation terminates instead *)
Theorem C09_exn_propagates : forall op k w,
  k < nfaults (op_steps op) ->
  exists fk, nth_error (fault_kinds (op_steps op)) k = Some fk /\
    (op_noexcept op = false -> exists w', run_faulted op k w = Thrown fk w') /\
    (op_noexcept op = true -> run_faulted op k w = Terminated fk).
Proof. exact exn_propagates. Qed.
Print Assumptions C09_exn_propagates.

(* no Commit before a Fault (decidable, syntactic)  ==>  for EVERY fault index and EVERY world the
   observable world after the exception is the one before the call *)
Theorem C09_strong_guarantee : forall op k w fk w',
  faults_first (op_steps op) = true -> run_faulted op k w = Thrown fk w' -> obs w' = obs w.
Proof. exact strong_guarantee. Qed.
Print Assumptions C09_strong_guarantee.

(* the node / slot / list under construction is released on every path *)
Theorem C09_nothing_under_construction_survives : forall o w k,
  wtmp w = [] ->
  match run_faulted (op_of o w) k w with Done w' => wtmp w' = [] | Thrown _ w' => wtmp w' = [] | Terminated _ => True end.
Proof. exact plan_ops_release_scratch. Qed.
Print Assumptions C09_nothing_under_construction_survives.

(* every operation of the library the property names — as built from the generated facts — satisfies the
   criterion, hence the strong guarantee, and none of them is noexcept *)
Theorem C09_operations_strong_guarantee : forall o w k fk w',
  strong_by_shape o = true -> run_faulted (op_of o w) k w = Thrown fk w' -> obs w' = obs w.
Proof. exact plan_ops_strong. Qed.
Print Assumptions C09_operations_strong_guarantee.

Theorem C09_operations_never_terminate : forall o w, op_noexcept (op_of o w) = false.
Proof. exact plan_ops_never_terminate. Qed.
Print Assumptions C09_operations_never_terminate.

(* HeterCallbackList copy assignment: a throwing callback copy reaches the caller, nothing changed *)
Theorem C09_heter_copy_assignment_propagates : forall dst src w k,
  k < nfaults (op_steps (op_hcl_assign dst src w)) ->
  exists fk w', run_faulted (op_hcl_assign dst src w) k w = Thrown fk w' /\ obs w' = obs w.
Proof. exact hcl_assign_exception_reaches_caller. Qed.
Print Assumptions C09_heter_copy_assignment_propagates.

(* ScopedRemover adders (dispatcher / queue flavour and callback-list flavour): whichever point fails,
   before the listener is attached or while it is being recorded, lists, records and handles are as before *)
Theorem C09_scoped_remover_add_strong : forall ncmp place hb r d key c reg k w fk w',
  fresh w ->
  run_faulted (mkOp false (prof_sr_add ncmp place hb r d key c reg)) k w = Thrown fk w' -> same_obs w' w.
Proof. exact sr_add_strong. Qed.
Print Assumptions C09_scoped_remover_add_strong.

Theorem C09_scoped_remover_list_add_strong : forall place hb r o c reg k w fk w',
  fresh w ->
  run_faulted (mkOp false (prof_srcl_add place hb r o c reg)) k w = Thrown fk w' -> same_obs w' w.
Proof. exact srcl_add_strong. Qed.
Print Assumptions C09_scoped_remover_list_add_strong.

(* a failed (or completed) copy of any container leaves its source untouched *)
Theorem C09_copy_fault_source_untouched : forall o dst src k w,
  is_copy o = Some (dst, src) -> src <> dst ->
  match run_faulted (op_of o w) k w with
  | Done w' => obj_lists src w' = obj_lists src w
  | Thrown _ w' => obj_lists src w' = obj_lists src w
  | Terminated _ => True
  end.
Proof. exact copies_leave_source_untouched. Qed.
Print Assumptions C09_copy_fault_source_untouched.

(* member-wise dispatcher / queue assignment: the destination of a failed copy is valid (no old listener,
   no half-copied list; everything else untouched) and a completed assignment specifies it again *)
Theorem C09_copy_fault_dest_valid : forall dst src k w fk w',
  run_faulted (mkOp false (prof_disp_assign dst src w)) k w = Thrown fk w' ->
  mem_nat dst (wun w') = true /\ obj_lists dst w' = [] /\ (forall o, o <> dst -> obj_lists o w' = obj_lists o w) /\
  wq w' = wq w /\ wr w' = wr w /\ wh w' = wh w.
Proof. exact disp_assign_failed_dest_valid. Qed.
Print Assumptions C09_copy_fault_dest_valid.

Theorem C09_completed_assignment_specifies_dest : forall dst src w k w',
  run_faulted (mkOp false (prof_disp_assign dst src w)) k w = Done w' -> mem_nat dst (wun w') = false.
Proof. exact disp_assign_completed. Qed.
Print Assumptions C09_completed_assignment_specifies_dest.

(* the profile of every operation, run with no failing point, has exactly the operation's specified effect
   on the observable world (the member-wise dispatcher assignment aside) — the profiles are profiles OF the
   operations, not arbitrary step lists *)
Theorem C09_profile_without_fault_is_the_operation : forall o w,
  effect_by_profile o = true -> obsn (apply_done o w) = obsn (spec_effect o w).
Proof. exact profile_effect. Qed.
Print Assumptions C09_profile_without_fault_is_the_operation.

(* the defects found and repaired, and shapes that would be defects: refuted, not hidden *)
Theorem C09_legacy_hcl_assign_noexcept_refuted :
  exists k w, w = snd (after (op_steps (op_of (OHAdd 0 0 1 0 7 0) w_init)) [] w_init) /\
    exists fk, run_faulted (op_hcl_assign_with true true 2 1 w) k w = Terminated fk.
Proof. exact legacy_hcl_assign_noexcept_refuted. Qed.
Print Assumptions C09_legacy_hcl_assign_noexcept_refuted.

Theorem C09_legacy_scoped_remover_add_refuted :
  exists k fk w', run_faulted (mkOp false (prof_sr_add_with true false true true true 1 0 0 5 1 3 7 0)) k w_init = Thrown fk w'
    /\ count_listeners (1, 3) w' = 1 /\ count_listeners (1, 3) w_init = 0 /\ ngetl 5 (wr w') = [].
Proof. exact legacy_sr_add_refuted. Qed.
Print Assumptions C09_legacy_scoped_remover_add_refuted.

Theorem C09_legacy_ordered_enqueue_refuted :
  exists k fk w', run_faulted (mkOp false (prof_enqueue_with true true false true 2 1 3 5%Z)) k w_init = Thrown fk w'
    /\ ngetl 1 (wq w') = [(3, 5%Z)] /\ ngetl 1 (wq w_init) = [].
Proof. exact legacy_ordered_enqueue_refuted. Qed.
Print Assumptions C09_legacy_ordered_enqueue_refuted.

Theorem C09_broken_shapes_fail_the_criterion :
  faults_first (prof_sr_add_with true false true true true 1 0 0 5 1 3 7 0) = false /\
  faults_first (prof_enqueue_with true true false true 2 1 3 5%Z) = false /\
  faults_first (prof_cl_add_with false true 0 0 1 7 0) = false /\
  faults_first (prof_enqueue_with false false true false 0 1 3 5%Z) = false /\
  faults_first unknown_shape = false.
Proof. exact legacy_shapes_fail_the_criterion. Qed.
Print Assumptions C09_broken_shapes_fail_the_criterion.

(* non-vacuity: a dispatcher with listeners under two keys; a ScopedRemover add on it fails at each of its
   fault points in turn (profile with 8 comparison points: 18 fault points), all leave lists and records
   untouched, the 19th run completes and records the listener *)
Definition ex_world : world :=
  snd (after (op_steps (op_of (ODAdd 0 0 10 2 8 1) w_init)) []
      (snd (after (op_steps (op_of (ODAdd 0 0 10 1 7 0) w_init)) [] w_init))).
Definition ex_sr_op := op_of (OSrAdd 2 0 50 10 1 9 2) ex_world.

Example C09_part1_hypotheses_satisfiable :
  nfaults (op_steps ex_sr_op) = 18 /\
  forallb (fun k => match run_faulted ex_sr_op k ex_world with
                    | Thrown _ w' => Nat.eqb (count_listeners (10, 1) w') 1 && Nat.eqb (length (ngetl 50 (wr w'))) 0
                    | _ => false end) (seq 0 18) = true /\
  match run_faulted ex_sr_op 18 ex_world with
  | Done w' => count_listeners (10, 1) w' = 2 /\ length (ngetl 50 (wr w')) = 1
  | _ => False end.
Proof. split; [vm_compute; reflexivity|]. split; [vm_compute; reflexivity|]. vm_compute. split; reflexivity. Qed.

(* ===================================================================== PART 2 *)

(* the in-dispatch counter after any command list — completed or ended by an exception, at any nesting
   depth — is the counter before (CounterGuard); between the throw statement and the catch only that
   counter and the payload ledger change: listener lists, filter list, handles, the queued events and the
   trace are exactly as the callbacks left them *)
Theorem C09_counter_restored : forall behav fbehav pbehav fuel st cs,
  match xc_run behav fbehav pbehav fuel st cs with
  | XOk st' => xcount st' = xcount st
  | XExn _ _ st' => xcount st' = xcount st
  | XErr => True
  end.
Proof.
  intros. assert (H := run_A code_no_catch code_guard_raii code_guard_raii_true behav fbehav pbehav fuel st cs).
  unfold xc_run. destruct (x_run _ _ _ _ _ fuel st cs); simpl in H; try exact H. destruct H; assumption.
Qed.
Print Assumptions C09_counter_restored.

Theorem C09_listener_lists_as_left : forall behav fbehav pbehav fuel st cs t s0 s1,
  xc_run behav fbehav pbehav fuel st cs = XExn t s0 s1 ->
  xlsts s1 = xlsts s0 /\ xfilters s1 = xfilters s0 /\ xhregs s1 = xhregs s0 /\ xfregs s1 = xfregs s0 /\
  xpend s1 = xpend s0 /\ xtrace s1 = xtrace s0.
Proof.
  intros behav fbehav pbehav fuel st cs t s0 s1 E.
  assert (H := run_A code_no_catch code_guard_raii code_guard_raii_true behav fbehav pbehav fuel st cs).
  unfold xc_run in E. rewrite E in H. simpl in H. destruct H as [_ U]. unfold unw in U. tauto.
Qed.
Print Assumptions C09_listener_lists_as_left.

(* ledger: (payloads alive) - (events queued) is the same before and after any command list, completed or
   thrown: a processing call that unwinds destroys exactly the events it had taken out of the queue and not
   put back — never a queued one, and none of the taken ones survives outside the queue *)
Theorem C09_processing_fault_discards_only_taken_events : forall behav fbehav pbehav fuel st cs,
  match xc_run behav fbehav pbehav fuel st cs with
  | XOk st' => (xlive st' - zlen (xpend st') = xlive st - zlen (xpend st))%Z
  | XExn _ s0 st' => (xlive st' - zlen (xpend st') = xlive st - zlen (xpend st))%Z /\ xpend st' = xpend s0
  | XErr => True
  end.
Proof.
  intros. assert (B := run_B code_no_catch code_guard_raii code_guard_raii_true behav fbehav pbehav fuel st cs).
  assert (A := run_A code_no_catch code_guard_raii code_guard_raii_true behav fbehav pbehav fuel st cs).
  unfold xc_run. destruct (x_run _ _ _ _ _ fuel st cs); simpl in *; try exact B.
  split; [exact B|]. destruct A as [_ U]. unfold unw in U. tauto.
Qed.
Print Assumptions C09_processing_fault_discards_only_taken_events.

(* events never taken stay queued, in order: every event carries the number it got at enqueue; if the queue
   was in that order with its numbers between some bound lo and the next number to hand out, it still is after
   any command list, completed or thrown — unwinding re-queues nothing out of order and queues nothing foreign *)
Theorem C09_untaken_events_stay_queued_in_order : forall behav fbehav pbehav fuel st cs lo,
  lo <= xnexts st -> SB lo st ->
  match xc_run behav fbehav pbehav fuel st cs with
  | XOk st' => SB lo st' /\ xnexts st <= xnexts st'
  | XExn _ _ st' => SB lo st' /\ xnexts st <= xnexts st'
  | XErr => True
  end.
Proof. intros behav fbehav pbehav fuel st cs. exact (run_D code_no_catch code_guard_raii behav fbehav pbehav fuel st cs). Qed.
Print Assumptions C09_untaken_events_stay_queued_in_order.

(* the exception reaches the outermost caller at once: in the caller's trace every `threw t` is
   immediately followed by `caught t` — no listener, filter or predicate runs in between, no result is
   returned in between (nothing swallows it on the way) *)
Theorem C09_throw_reaches_outermost_caller : forall behav fbehav pbehav fuel cs st st',
  gc (xtrace st) -> xc_main behav fbehav pbehav fuel st cs = Some st' -> gc (xtrace st').
Proof.
  intros behav fbehav pbehav fuel cs st st'.
  exact (main_C code_no_catch code_guard_raii behav fbehav pbehav code_no_catch_true fuel cs st st').
Qed.
Print Assumptions C09_throw_reaches_outermost_caller.

(* between the caller's commands — also right after a caught exception — nothing is counted as in
   dispatch and every live payload is a queued event; emptyQueue() and the wait predicate doCanProcess(),
   computed by the bodies generated from eventqueue.h, then say exactly whether an event is pending *)
Theorem C09_emptiness_and_wait_predicate_correct_after_exception : forall behav fbehav pbehav fuel cs st st',
  quiescent st -> xc_main behav fbehav pbehav fuel st cs = Some st' ->
  quiescent st' /\ x_empty_queue st' = x_pend_empty st' /\ x_can_process st' = negb (x_pend_empty st').
Proof.
  intros behav fbehav pbehav fuel cs st st' Q H.
  assert (Q' := main_quiescent code_no_catch code_guard_raii code_guard_raii_true behav fbehav pbehav fuel cs st st' Q H).
  split; [exact Q'|]. apply empty_and_wait_correct. destruct Q'; assumption.
Qed.
Print Assumptions C09_emptiness_and_wait_predicate_correct_after_exception.

(* usable afterwards: the state after any program (with any number of caught exceptions) is an ordinary
   state — a later program behaves exactly as if started from it, and all theorems above apply to it *)
Theorem C09_usable_after : forall behav fbehav pbehav fuel p1 p2 st,
  xc_main behav fbehav pbehav fuel st (p1 ++ p2) =
  match xc_main behav fbehav pbehav fuel st p1 with Some st1 => xc_main behav fbehav pbehav fuel st1 p2 | None => None end.
Proof. intros. apply main_app. Qed.
Print Assumptions C09_usable_after.

(* the facts of the headers the theorems of part 2 rest on *)
Theorem C09_headers_use_counter_guard_and_no_catch : (forall w, code_guard_raii w = true) /\ code_no_catch = true.
Proof. split; [exact code_guard_raii_true|exact code_no_catch_true]. Qed.
Print Assumptions C09_headers_use_counter_guard_and_no_catch.

(* what the theorems exclude, shown on the interpreter with the switch flipped *)
Theorem C09_manual_counter_refuted :
  exists st', x_main true (fun _ => false) leaky_behav (fun _ _ => ([], true)) (fun _ _ => ([], true)) 5 x_init leaky_prog = Some st'
    /\ xcount st' = 1 /\ xpend st' = [] /\ hd (XRet true) (xtrace st') = XRet false.
Proof. exact manual_counter_refuted. Qed.
Print Assumptions C09_manual_counter_refuted.

Theorem C09_swallowing_catch_refuted :
  exists st', x_main false (fun _ => true) leaky_behav (fun _ _ => ([], true)) (fun _ _ => ([], true)) 5 x_init leaky_prog = Some st'
    /\ ~ In (XCaught 7) (xtrace st') /\ In (XThrew 7) (xtrace st').
Proof. exact swallowing_catch_refuted. Qed.
Print Assumptions C09_swallowing_catch_refuted.

(* non-vacuity: listener 1 throws on its first activation while process() holds three events (the other two
   are discarded: the documented behaviour); listener 2 processes re-entrantly and its inner listener throws
   through both processing calls; predicate 1 throws on its second evaluation with one event declined and one
   still to come; filter 1 throws.  Five exceptions caught; counter 0, ledger = queue length at the end. *)
Definition ex_behav (c n : nat) : list xcmd :=
  match c, n with
  | 1, 1 => [XEmpty; XThrow 7]
  | 2, 1 => [XEnqueue 1 50%Z; XProcessOne]
  | 3, 1 => [XThrow 8]
  | 3, 2 => [XEnqueue 0 60%Z; XThrow 9]
  | _, _ => []
  end.
Definition ex_fbehav (f n : nat) : list xcmd * bool := match f, n with 1, 6 => ([XThrow 5], true) | _, _ => ([], true) end.
Definition ex_pbehav (p n : nat) : list xcmd * bool :=
  match p, n with 1, 1 => ([], false) | 1, 2 => ([XThrow 6], true) | _, _ => ([], true) end.
Definition ex_main : list xcmd :=
  [XAppend 0 1 0; XAppend 2 2 1; XAppend 1 3 2; XAddFilter 1 0;
   XEnqueue 0 1%Z; XEnqueue 0 2%Z; XEnqueue 0 3%Z; XLedger; XProcess; XEmpty; XLedger;
   XEnqueue 2 4%Z; XEnqueue 0 5%Z; XProcess; XEmpty; XLedger;
   XEnqueue 0 6%Z; XEnqueue 0 7%Z; XEnqueue 0 8%Z; XProcessIf 1; XEmpty; XCanProcess; XLedger;
   XDispatch 1 9%Z; XDispatch 0 10%Z; XProcess; XEmpty].

Example C09_part2_hypotheses_satisfiable :
  exists st', xc_main ex_behav ex_fbehav ex_pbehav 6 x_init ex_main = Some st' /\
    length (filter (fun e => match e with XCaught _ => true | _ => false end) (xtrace st')) = 5 /\
    xcount st' = 0 /\ xlive st' = zlen (xpend st') /\ 30 <= length (xtrace st').
Proof. eexists. split; [vm_compute; reflexivity|]. repeat split; vm_compute; try reflexivity. repeat constructor. Qed.
