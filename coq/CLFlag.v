(* CLFlag.v — C19: the interpreter of CLModel never reads the ghost flag `wrapped` (it only sets it in the overflow branch of
   getNextCounter): a run from a state with the flag set is the run from the same state with the flag cleared, with the flag put
   back (run_from_flagged).  With CLWrapSim this gives ONE run across a top-level wrap: wrap-free prefix, an append that takes the
   overflow branch, any re-entrant wrap-free continuation — the whole run has the trace of the snapshot specification. *)
From Coq Require Import List Arith NArith ZArith Bool Lia.
From EV Require Import CLModel CLSpec CLHeap CLOps CLRefine CLSim CLMain CLWrap CLWrapSim.
From EV.gen Require GenCL.
Import ListNotations.

Definition wf (b : bool) (st : state) : state := mkState (groups st) (lists st) (regs st) (acts st) (pins st) b (trace st).
Lemma wf_id st : wf (wrapped st) st = st. Proof. destruct st; reflexivity. Qed.
Lemma wf_wf a b st : wf a (wf b st) = wf a st. Proof. reflexivity. Qed.

Section WF.
  Variable W : N.
  Notation chkR := GenCL.remove_checks_removed.
  Notation chkI := GenCL.insert_checks_removed.
  Notation chkO := GenCL.owns_checks_removed.

  Definition up (b : bool) (r : state) : state := wf (b || wrapped r) r.

  Lemma next_counter_wf b st l :
    next_counter W (wf b st) l = option_map (fun p => (up b (fst p), snd p)) (next_counter W (wf false st) l).
  Proof.
    unfold next_counter. change (get_list (wf b st) l) with (get_list st l). change (get_list (wf false st) l) with (get_list st l).
    destruct (get_list st l) as [o|]; [|reflexivity].
    destruct (GenCL.wrap_test ((lcur o + 1) mod W)).
    - change (get_group (wf b st) (lg o)) with (get_group st (lg o)). change (get_group (wf false st) (lg o)) with (get_group st (lg o)).
      destruct (get_group st (lg o)); [|reflexivity]. cbn. unfold up. cbn. rewrite orb_true_r. reflexivity.
    - cbn. unfold up. cbn. rewrite orb_false_r. reflexivity.
  Qed.

  Lemma up_up b w x : up b (wf (w || wrapped x) x) = up (b || w) x.
  Proof. unfold up. cbn. rewrite orb_assoc. reflexivity. Qed.

  Lemma alloc_node_wf b st l c :
    alloc_node W (wf b st) l c = option_map (fun p => (up b (fst (fst p)), snd (fst p), snd p)) (alloc_node W (wf false st) l c).
  Proof.
    unfold alloc_node. rewrite next_counter_wf. destruct (next_counter W (wf false st) l) as [[s1 k]|]; [|reflexivity].
    cbn [option_map fst snd]. unfold up at 1 2. 
    change (get_list (wf (b || wrapped s1) s1) l) with (get_list s1 l).
    destruct (get_list s1 l) as [o|]; [|reflexivity].
    change (get_group (wf (b || wrapped s1) s1) (lg o)) with (get_group s1 (lg o)).
    destruct (get_group s1 (lg o)) as [gr|]; [|reflexivity].
    destruct (g_alloc gr c k) as [gr' n]. reflexivity.
  Qed.

  Lemma with_group_wf b st g f : with_group (wf b st) g f = option_map (wf b) (with_group st g f).
  Proof. unfold with_group. change (get_group (wf b st) g) with (get_group st g). destruct (get_group st g); reflexivity. Qed.

  Lemma do_append_wf b st l c h : do_append W (wf b st) l c h = option_map (up b) (do_append W (wf false st) l c h).
  Proof.
    unfold do_append. rewrite alloc_node_wf. destruct (alloc_node W (wf false st) l c) as [[[s1 g] n]|]; [|reflexivity].
    cbn [option_map fst snd]. unfold up at 1. rewrite with_group_wf.
    destruct (with_group s1 g (fun gr => g_link_back gr n)) as [s2|] eqn:E; [|reflexivity].
    cbn [option_map]. unfold up. cbn. 
    assert (X : wrapped s2 = wrapped s1) by (apply (with_group_wrapped _ _ _ _ E)). rewrite X. reflexivity.
  Qed.

  Lemma do_prepend_wf b st l c h : do_prepend W (wf b st) l c h = option_map (up b) (do_prepend W (wf false st) l c h).
  Proof.
    unfold do_prepend. rewrite alloc_node_wf. destruct (alloc_node W (wf false st) l c) as [[[s1 g] n]|]; [|reflexivity].
    cbn [option_map fst snd]. unfold up at 1. rewrite with_group_wf.
    destruct (with_group s1 g (fun gr => g_link_front gr n)) as [s2|] eqn:E; [|reflexivity].
    cbn [option_map]. unfold up. cbn.
    assert (X : wrapped s2 = wrapped s1) by (apply (with_group_wrapped _ _ _ _ E)). rewrite X. reflexivity.
  Qed.

  Lemma classify_wf b st o h : classify chkR chkI chkO (wf b st) o h = classify chkR chkI chkO st o h.
  Proof. reflexivity. Qed.

  Lemma do_insert_wf b st l c hb h :
    do_insert W chkR chkI chkO (wf b st) l c hb h = option_map (up b) (do_insert W chkR chkI chkO (wf false st) l c hb h).
  Proof.
    unfold do_insert. change (get_list (wf b st) l) with (get_list st l). change (get_list (wf false st) l) with (get_list st l).
    destruct (get_list st l) as [o|]; [|reflexivity].
    change (get_reg (wf b st) hb) with (get_reg st hb). change (get_reg (wf false st) hb) with (get_reg st hb).
    rewrite !classify_wf. destruct (classify chkR chkI chkO st o (get_reg st hb)) as [|b0 bn| |]; try apply do_append_wf; try reflexivity.
    rewrite alloc_node_wf. destruct (alloc_node W (wf false st) l c) as [[[s1 g] n]|]; [|reflexivity].
    cbn [option_map fst snd]. unfold up at 1 2.
    change (get_group (wf (b || wrapped s1) s1) g) with (get_group s1 g).
    destruct (get_group s1 g) as [gr1|]; [|reflexivity].
    destruct (nth_error (heap gr1) b0) as [bn1|]; [|reflexivity].
    cbv zeta. rewrite with_group_wf.
    destruct (with_group s1 g _) as [s2|] eqn:E; [|reflexivity].
    cbn [option_map]. unfold up. cbn.
    assert (X : wrapped s2 = wrapped s1) by (apply (with_group_wrapped _ _ _ _ E)). rewrite X. reflexivity.
  Qed.

  Lemma do_remove_handle_wf b st l hv :
    do_remove_handle chkR chkI chkO (wf b st) l hv = option_map (fun p => (wf b (fst p), snd p)) (do_remove_handle chkR chkI chkO st l hv).
  Proof.
    unfold do_remove_handle. change (get_list (wf b st) l) with (get_list st l).
    destruct (get_list st l) as [o|]; [|reflexivity].
    rewrite classify_wf. destruct (classify chkR chkI chkO st o hv) as [|x xn| |]; try reflexivity.
    destruct (usable chkR xn); [|reflexivity]. rewrite with_group_wf.
    destruct (with_group st (lg o) _); reflexivity.
  Qed.

  Variable behav : nat -> nat -> list cmd.

  Hypothesis Hbehav : core_behav behav.

  Definition RecWF (rec : state -> list cmd -> option state) : Prop :=
    forall b st cs, core_prog cs -> rec (wf b st) cs = option_map (up b) (rec (wf false st) cs).

  Definition up3 (b : bool) (p : state * nat * bool) : state * nat * bool := (up b (fst (fst p)), snd (fst p), snd p).

  Lemma up_false_wf b x : up b (wf false x) = wf b x.
  Proof. unfold up. cbn. rewrite orb_false_r. reflexivity. Qed.

  Lemma up_compose b r : forall x, up b (up (wrapped r) x) = up (b || wrapped r) x.
  Proof. intros x. unfold up. cbn. rewrite orb_assoc. reflexivity. Qed.

  Lemma visit_wf rec m b st l g n nd acc :
    RecWF rec ->
    visit chkR chkI chkO behav rec m (wf b st) l g n nd acc = option_map (up3 b) (visit chkR chkI chkO behav rec m (wf false st) l g n nd acc).
  Proof.
    intros HR. destruct m as [a| |k|c| |c]; cbn [visit].
    - change (bump_act (log (wf b st) (ECall (cb nd) a)) (cb nd)) with (wf b (bump_act (log st (ECall (cb nd) a)) (cb nd))).
      change (bump_act (log (wf false st) (ECall (cb nd) a)) (cb nd)) with (wf false (bump_act (log st (ECall (cb nd) a)) (cb nd))).
      set (s1 := bump_act (log st (ECall (cb nd) a)) (cb nd)).
      change (get_act (wf b s1) (cb nd)) with (get_act s1 (cb nd)). change (get_act (wf false s1) (cb nd)) with (get_act s1 (cb nd)).
      rewrite HR by apply Hbehav. destruct (rec (wf false s1) _); reflexivity.
    - unfold up3. cbn. unfold up. cbn. rewrite orb_false_r. reflexivity.
    - unfold up3. cbn. unfold up. cbn. rewrite orb_false_r. reflexivity.
    - destruct (Nat.eqb (cb nd) c); unfold up3; cbn; unfold up; cbn; rewrite orb_false_r; reflexivity.
    - unfold up3. cbn. unfold up. cbn. rewrite orb_false_r. reflexivity.
    - destruct (Nat.eqb (cb nd) c).
      + rewrite !do_remove_handle_wf. destruct (do_remove_handle chkR chkI chkO st l (Some (g, n))) as [[s1 r]|]; [|reflexivity].
        cbn. unfold up3. cbn. unfold up. cbn. rewrite orb_false_r. reflexivity.
      + unfold up3. cbn. unfold up. cbn. rewrite orb_false_r. reflexivity.
  Qed.

  Lemma up3_compose b r p : up3 b (up3 (wrapped r) p) = up3 (b || wrapped r) p.
  Proof. destruct p as [[x a] c]. unfold up3. cbn [fst snd]. rewrite up_compose. reflexivity. Qed.

  Lemma trav_wf rec : RecWF rec -> forall k m b st l g c capt acc,
    trav chkR chkI chkO behav rec k m (wf b st) l g c capt acc =
    option_map (up3 b) (trav chkR chkI chkO behav rec k m (wf false st) l g c capt acc).
  Proof.
    intros HR. induction k as [|k IH]; intros m b st l g c capt acc; destruct c as [n|]; cbn [trav];
      try (unfold up3; cbn; unfold up; cbn; rewrite orb_false_r; reflexivity); try reflexivity.
    change (get_group (wf b st) g) with (get_group st g). change (get_group (wf false st) g) with (get_group st g).
    destruct (get_group st g) as [gr|]; [|reflexivity].
    destruct (nth_error (heap gr) n) as [nd|]; [|reflexivity].
    destruct (GenCL.visit_cond (ctr nd) capt); [|apply IH].
    change (set_pins (wf b st) ((g, n) :: pins (wf b st))) with (wf b (set_pins st ((g, n) :: pins st))).
    change (set_pins (wf false st) ((g, n) :: pins (wf false st))) with (wf false (set_pins st ((g, n) :: pins st))).
    rewrite (visit_wf rec m b _ l g n nd acc HR).
    destruct (visit chkR chkI chkO behav rec m (wf false (set_pins st ((g, n) :: pins st))) l g n nd acc) as [[[r acc1] cont]|]; [|reflexivity].
    cbn [option_map up3 fst snd].
    change (pins (wf b st)) with (pins st). change (pins (wf false st)) with (pins st).
    change (set_pins (up b r) (pins st)) with (wf (b || wrapped r) (set_pins r (pins st))).
    destruct cont.
    - change (get_group (wf (b || wrapped r) (set_pins r (pins st))) g) with (get_group (set_pins r (pins st)) g).
      destruct (get_group (set_pins r (pins st)) g) as [gr2|]; [|reflexivity].
      destruct (nth_error (heap gr2) n) as [nd2|]; [|reflexivity].
      rewrite IH.
      pose proof (IH m (wrapped r) (set_pins r (pins st)) l g (nxt nd2) capt acc1) as X.
      change (wf (wrapped r) (set_pins r (pins st))) with (wf (wrapped (set_pins r (pins st))) (set_pins r (pins st))) in X.
      rewrite wf_id in X. rewrite X.
      destruct (trav chkR chkI chkO behav rec k m (wf false (set_pins r (pins st))) l g (nxt nd2) capt acc1) as [p|]; [|reflexivity].
      cbn [option_map]. rewrite up3_compose. reflexivity.
    - unfold up3. cbn [fst snd]. f_equal. f_equal. f_equal. unfold up. cbn. reflexivity.
  Qed.

  Lemma traverse_wf rec : RecWF rec -> forall k m b st l,
    traverse chkR chkI chkO behav rec k m (wf b st) l = option_map (up3 b) (traverse chkR chkI chkO behav rec k m (wf false st) l).
  Proof.
    intros HR k m b st l. unfold traverse.
    change (get_list (wf b st) l) with (get_list st l). change (get_list (wf false st) l) with (get_list st l).
    destruct (get_list st l) as [o|]; [|reflexivity].
    change (get_group (wf b st) (lg o)) with (get_group st (lg o)). change (get_group (wf false st) (lg o)) with (get_group st (lg o)).
    destruct (get_group st (lg o)) as [gr|]; [|reflexivity]. apply trav_wf. exact HR.
  Qed.

  Lemma log_up b r e : log (up b r) e = up b (log r e).
  Proof. reflexivity. Qed.

  Lemma step_wf rec : RecWF rec -> forall k b st c, core c = true ->
    step W chkR chkI chkO behav rec k (wf b st) c = option_map (up b) (step W chkR chkI chkO behav rec k (wf false st) c).
  Proof.
    intros HR k b st c Hc. destruct c; try discriminate Hc; cbn [step].
    - apply do_append_wf.
    - apply do_prepend_wf.
    - apply do_insert_wf.
    - change (get_reg (wf b st) h) with (get_reg st h). change (get_reg (wf false st) h) with (get_reg st h).
      rewrite !do_remove_handle_wf. destruct (do_remove_handle chkR chkI chkO st l (get_reg st h)) as [[s1 r]|]; [|reflexivity].
      cbn. unfold up. cbn. rewrite orb_false_r. reflexivity.
    - change (do_owns chkR chkI chkO (wf b st) l (get_reg (wf b st) h)) with (do_owns chkR chkI chkO st l (get_reg st h)).
      change (do_owns chkR chkI chkO (wf false st) l (get_reg (wf false st) h)) with (do_owns chkR chkI chkO st l (get_reg st h)).
      destruct (do_owns chkR chkI chkO st l (get_reg st h)); [|reflexivity]. cbn. unfold up. cbn. rewrite orb_false_r. reflexivity.
    - change (do_empty (wf b st) l) with (do_empty st l). change (do_empty (wf false st) l) with (do_empty st l).
      destruct (do_empty st l); [|reflexivity]. cbn. unfold up. cbn. rewrite orb_false_r. reflexivity.
    - rewrite (traverse_wf rec HR). destruct (traverse chkR chkI chkO behav rec k (VInvoke a) (wf false st) l) as [[[s1 x] y]|]; reflexivity.
    - rewrite (traverse_wf rec HR). destruct (traverse chkR chkI chkO behav rec k VEach (wf false st) l) as [[[s1 x] y]|]; reflexivity.
    - rewrite (traverse_wf rec HR). destruct (traverse chkR chkI chkO behav rec k (VEachIf k0) (wf false st) l) as [[[s1 x] y]|]; reflexivity.
    - rewrite (traverse_wf rec HR). destruct (traverse chkR chkI chkO behav rec k (VHas c) (wf false st) l) as [[[s1 x] y]|]; reflexivity.
    - rewrite (traverse_wf rec HR). destruct (traverse chkR chkI chkO behav rec k VAny (wf false st) l) as [[[s1 x] y]|]; reflexivity.
    - rewrite (traverse_wf rec HR). destruct (traverse chkR chkI chkO behav rec k (VRemoveL c) (wf false st) l) as [[[s1 x] y]|]; reflexivity.
  Qed.

  Lemma seqx_wf rec : RecWF rec -> forall k cs b st, core_prog cs ->
    seqx W chkR chkI chkO behav rec k (wf b st) cs = option_map (up b) (seqx W chkR chkI chkO behav rec k (wf false st) cs).
  Proof.
    intros HR k. induction cs as [|c r IH]; intros b st Hp; cbn [seqx].
    - cbn. unfold up. cbn. rewrite orb_false_r. reflexivity.
    - inversion Hp as [|? ? Hc Hr]; subst. rewrite (step_wf rec HR k b st c Hc).
      destruct (step W chkR chkI chkO behav rec k (wf false st) c) as [s1|]; [|reflexivity].
      cbn [option_map]. unfold up at 1. rewrite (IH _ s1 Hr).
      pose proof (IH (wrapped s1) s1 Hr) as X. rewrite wf_id in X. rewrite X.
      destruct (seqx W chkR chkI chkO behav rec k (wf false s1) r) as [s2|]; [|reflexivity].
      cbn [option_map]. rewrite up_compose. reflexivity.
  Qed.

  Lemma run_wf fuel : forall b st cs, core_prog cs ->
    run W chkR chkI chkO behav fuel (wf b st) cs = option_map (up b) (run W chkR chkI chkO behav fuel (wf false st) cs).
  Proof.
    induction fuel as [|f IH]; intros b st cs Hp; cbn [run]; [reflexivity|].
    apply seqx_wf; [|exact Hp]. intros b' st' cs' Hp'. apply IH. exact Hp'.
  Qed.

  (* the interpreter never reads the ghost flag: a run from a state with the flag set is the run from the same state with
     the flag cleared, with the flag put back *)
  Corollary run_from_flagged fuel st cs :
    core_prog cs ->
    run W chkR chkI chkO behav fuel st cs = option_map (up (wrapped st)) (run W chkR chkI chkO behav fuel (clear_wrapped st) cs).
  Proof. intros Hp. rewrite <- (wf_id st) at 1. apply run_wf. exact Hp. Qed.

  Lemma seqx_app rec k a : forall st b,
    seqx W chkR chkI chkO behav rec k st (a ++ b) =
    match seqx W chkR chkI chkO behav rec k st a with Some s => seqx W chkR chkI chkO behav rec k s b | None => None end.
  Proof. induction a as [|c r IH]; intros st b; cbn [app seqx]; [reflexivity|]. destruct (step W chkR chkI chkO behav rec k st c); [apply IH|reflexivity]. Qed.

  Lemma s_seqx_app srec a : forall st b,
    s_seqx behav srec st (a ++ b) = match s_seqx behav srec st a with Some s => s_seqx behav srec s b | None => None end.
  Proof. induction a as [|c r IH]; intros st b; cbn [app s_seqx]; [reflexivity|]. destruct (s_step behav srec st c); [apply IH|reflexivity]. Qed.

  Definition is_add (c : cmd) : bool := match c with Append _ _ _ | Prepend _ _ _ | Insert _ _ _ _ => true | _ => false end.

  (* an adding command that takes the overflow branch, as a step of the interpreter *)
  Lemma add_cmd_wrap_R rec srec k st sst c st' :
    (1 < W)%N -> is_add c = true -> R W st sst -> wrapped st = false ->
    step W chkR chkI chkO behav rec k st c = Some st' -> wrapped st' = true ->
    exists sst', s_step behav srec sst c = Some sst' /\ R W (clear_wrapped st') sst'.
  Proof.
    intros HW Ha HR Hw0 Hs Hw. destruct c; try discriminate Ha; cbn [step] in Hs; cbn [s_step].
    - apply (append_wrap_reestablishes_R W st sst l c h st' HW HR Hw0 Hs Hw).
    - apply (prepend_wrap_reestablishes_R W st sst l c h st' HW HR Hw0 Hs Hw).
    - apply (insert_wrap_reestablishes_R W behav st sst l c hb h st' HW HR Hw0 Hs Hw).
  Qed.

  (* ONE run: a wrap-free prefix h1, an addition (append / prepend / insert) that takes the overflow branch, any re-entrant
     continuation h2 without a further wrap — the whole run has the trace of the snapshot specification *)
  Theorem run_across_one_top_level_wrap fuel nl h1 c h2 s1 s2 s' :
    (1 < W)%N -> core_prog h1 -> core_prog h2 -> is_add c = true ->
    run W chkR chkI chkO behav (S fuel) (init nl) h1 = Some s1 -> wrapped s1 = false ->
    step W chkR chkI chkO behav (run W chkR chkI chkO behav fuel) (S fuel) s1 c = Some s2 -> wrapped s2 = true ->
    run W chkR chkI chkO behav (S fuel) (init nl) (h1 ++ c :: h2) = Some s' ->
    (forall s3, run W chkR chkI chkO behav (S fuel) (clear_wrapped s2) h2 = Some s3 -> wrapped s3 = false) ->
    exists ss', s_run behav (S fuel) (s_init nl) (h1 ++ c :: h2) = Some ss' /\ strace ss' = trace s'.
  Proof.
    intros HW Hp1 Hp2 Hadd R1 W1 A W2 Rall NoWrap.
    assert (HW0 : (0 < W)%N) by (apply N.lt_trans with 1%N; [reflexivity|exact HW]).
    cbn [run] in Rall, R1. rewrite seqx_app in Rall. rewrite R1 in Rall. cbn [seqx] in Rall. rewrite A in Rall.
    change (seqx W chkR chkI chkO behav (run W chkR chkI chkO behav fuel) (S fuel) s2 h2) with (run W chkR chkI chkO behav (S fuel) s2 h2) in Rall.
    rewrite (run_from_flagged (S fuel) s2 h2 Hp2) in Rall.
    destruct (run W chkR chkI chkO behav (S fuel) (clear_wrapped s2) h2) as [s3|] eqn:R3; [|discriminate Rall].
    cbn [option_map] in Rall. injection Rall as <-.
    specialize (NoWrap s3 eq_refl).
    destruct (CLMain.cl_run_refines W behav (S fuel) nl h1 s1 HW0 Hbehav Hp1 R1 W1) as (ss1 & X1 & _ & RR1).
    destruct (add_cmd_wrap_R _ (s_run behav fuel) _ s1 ss1 c s2 HW Hadd RR1 W1 A W2) as (ss2 & X2 & RR2).
    destruct (CLMain.cl_run_refines_from W behav (S fuel) (clear_wrapped s2) ss2 h2 s3 Hbehav Hp2 RR2 R3 NoWrap) as (ss3 & X3 & T3 & RR3).
    exists ss3. split.
    - cbn [s_run] in *. rewrite s_seqx_app. rewrite X1. cbn [s_seqx]. rewrite X2. exact X3.
    - rewrite T3. reflexivity.
  Qed.
End WF.
