(* ExnQueue.v — C09 part 2: exceptions thrown by listeners, filters and predicates during
   dispatch and processing.  A self-contained executable interpreter in the style of the
   SPECIFICATION half of QModel.v (plain list of pending events; listener lists per event key
   and a filter list with the snapshot rule; re-entrant listener / filter / predicate bodies from
   behaviour tables), extended with the command `XThrow tag` and a result that propagates:

     XOk st            the command list completed
     XExn tag s0 s     an exception is in flight: s0 is (a ghost copy of) the state at the throw
                       statement, s the state after the frames unwound so far
     XErr              out of fuel / misuse (a handle used with another key)

   Unwinding, as the headers do it (eventqueue.h, internal/eventqueue_i.h, callbacklist.h):
   * the current dispatch stops: the remaining listeners / filters are not called
     (no try/catch on the way: GenExn.*_has_no_catch; a catch that swallows would turn XExn into XOk);
   * process / processOne / processIf / processUntil: the local list of taken events is destroyed —
     the event in dispatch, those not yet reached and those the predicate declined — their payloads
     die (ledger); CounterGuard restores the in-dispatch counter (GenExn.eq_*_counter_guard_is_raii;
     a manual ++/-- would leave it incremented);
   * events never taken stay queued; listener and filter lists stay as the callbacks left them;
   * the outermost caller catches (trace XCaught tag) and goes on with its next command.
   Definitions only; proofs in ExnQueueProofs.v; extracted through ExtractExn.v. *)
From Coq Require Import List Arith NArith ZArith Bool.
From EV.gen Require GenQ GenExn.
Import ListNotations.
Local Open Scope nat_scope.

Record xevent := mkXe { xkey : nat; xarg : Z; xseq : nat }.

Inductive xcmd :=
| XAppend (k c h : nat) | XPrepend (k c h : nat) | XInsert (k c hb h : nat) | XRemove (k h : nat)
| XAddFilter (f h : nat) | XRemoveFilter (h : nat)
| XDispatch (k : nat) (a : Z)
| XEnqueue (k : nat) (a : Z)
| XProcess | XProcessOne | XProcessIf (p : nat) | XProcessUntil (p : nat)
| XEmpty | XCanProcess | XLedger
| XThrow (tag : nat).

Inductive xev :=
| XRet (b : bool)
| XCall (c k : nat) (a : Z)
| XFilt (f k : nat) (a : Z)
| XPred (p k : nat) (a : Z)
| XLive (n : Z)
| XThrew (tag : nat)
| XCaught (tag : nat).

Record xstate := mkX {
  xpend : list xevent;                        (* queued events, in order *)
  xcount : nat;                               (* queueEmptyCounter *)
  xlsts : list (nat * list (nat * nat));      (* per event key: (listener id, callback id) in order *)
  xfilters : list (nat * nat);                (* (listener id, filter id) in order *)
  xnexth : nat;
  xnexts : nat;
  xhregs : list (nat * (nat * nat));          (* handle register -> (key, listener id) *)
  xfregs : list (nat * nat);                  (* filter handle register -> listener id *)
  xacts : list (nat * nat);
  xfacts : list (nat * nat);
  xpacts : list (nat * nat);
  xlive : Z;                                  (* event payloads alive inside the queue or a processing call *)
  xtrace : list xev
}.

Inductive xres :=
| XOk (st : xstate)
| XExn (tag : nat) (s0 st : xstate)
| XErr.

Fixpoint xlookup {A} (k : nat) (l : list (nat * A)) : option A :=
  match l with [] => None | (k', v) :: t => if Nat.eqb k k' then Some v else xlookup k t end.
Fixpoint xset {A} (k : nat) (v : A) (l : list (nat * A)) : list (nat * A) :=
  match l with
  | [] => [(k, v)]
  | (k', v') :: t => if Nat.eqb k k' then (k, v) :: t else (k', v') :: xset k v t
  end.
Definition xlst (st : xstate) (k : nat) : list (nat * nat) := match xlookup k (xlsts st) with Some l => l | None => [] end.
Definition xact (l : list (nat * nat)) (c : nat) : nat := match xlookup c l with Some n => n | None => 0 end.

Fixpoint xhas (h : nat) (l : list (nat * nat)) : bool :=
  match l with [] => false | (x, _) :: t => Nat.eqb h x || xhas h t end.
Fixpoint xdel (h : nat) (l : list (nat * nat)) : list (nat * nat) :=
  match l with [] => [] | (x, c) :: t => if Nat.eqb h x then t else (x, c) :: xdel h t end.
Fixpoint xins (b : nat) (new : nat * nat) (l : list (nat * nat)) : list (nat * nat) :=
  match l with
  | [] => [new]
  | (x, c) :: t => if Nat.eqb b x then new :: (x, c) :: t else (x, c) :: xins b new t
  end.

Definition xu_pend st v := mkX v (xcount st) (xlsts st) (xfilters st) (xnexth st) (xnexts st) (xhregs st) (xfregs st) (xacts st) (xfacts st) (xpacts st) (xlive st) (xtrace st).
Definition xu_count st v := mkX (xpend st) v (xlsts st) (xfilters st) (xnexth st) (xnexts st) (xhregs st) (xfregs st) (xacts st) (xfacts st) (xpacts st) (xlive st) (xtrace st).
Definition xu_lsts st ls nh hr := mkX (xpend st) (xcount st) ls (xfilters st) nh (xnexts st) hr (xfregs st) (xacts st) (xfacts st) (xpacts st) (xlive st) (xtrace st).
Definition xu_filters st fs nh fr := mkX (xpend st) (xcount st) (xlsts st) fs nh (xnexts st) (xhregs st) fr (xacts st) (xfacts st) (xpacts st) (xlive st) (xtrace st).
Definition xu_nexts st v := mkX (xpend st) (xcount st) (xlsts st) (xfilters st) (xnexth st) v (xhregs st) (xfregs st) (xacts st) (xfacts st) (xpacts st) (xlive st) (xtrace st).
Definition xu_acts st v := mkX (xpend st) (xcount st) (xlsts st) (xfilters st) (xnexth st) (xnexts st) (xhregs st) (xfregs st) v (xfacts st) (xpacts st) (xlive st) (xtrace st).
Definition xu_facts st v := mkX (xpend st) (xcount st) (xlsts st) (xfilters st) (xnexth st) (xnexts st) (xhregs st) (xfregs st) (xacts st) v (xpacts st) (xlive st) (xtrace st).
Definition xu_pacts st v := mkX (xpend st) (xcount st) (xlsts st) (xfilters st) (xnexth st) (xnexts st) (xhregs st) (xfregs st) (xacts st) (xfacts st) v (xlive st) (xtrace st).
Definition xu_live st v := mkX (xpend st) (xcount st) (xlsts st) (xfilters st) (xnexth st) (xnexts st) (xhregs st) (xfregs st) (xacts st) (xfacts st) (xpacts st) v (xtrace st).
Definition xlog st e := mkX (xpend st) (xcount st) (xlsts st) (xfilters st) (xnexth st) (xnexts st) (xhregs st) (xfregs st) (xacts st) (xfacts st) (xpacts st) (xlive st) (e :: xtrace st).

Definition x_init : xstate := mkX [] 0 [] [] 0 0 [] [] [] [] [] 0%Z [].

(* what emptyQueue() and the wait predicate doCanProcess() compute from a state (notification never
   disabled here: queueNotifyCounter = 0), through the bodies generated from eventqueue.h *)
Definition x_pend_empty (st : xstate) : bool := match xpend st with [] => true | _ => false end.
Definition x_empty_queue (st : xstate) : bool := GenQ.empty_queue (x_pend_empty st) (Z.of_nat (xcount st)).
Definition x_can_process (st : xstate) : bool := GenQ.can_process (x_pend_empty st) (Z.of_nat (xcount st)) 0%Z.

(* payloads destroyed when a local list of n taken events goes out of scope *)
Definition x_discard (st : xstate) (n : nat) : xstate := xu_live st (xlive st - Z.of_nat n)%Z.

Section XInterp.
  (* the two ways the headers could deviate in unwinding (instantiated from GenExn below) *)
  Variable no_catch : bool.                    (* nothing between the throw and the caller catches *)
  Variable guard_raii : nat -> bool.           (* 0 process, 1 processOne, 2 processIf, 3 processUntil *)
  Variable behav : nat -> nat -> list xcmd.            (* listener c, n-th activation *)
  Variable fbehav : nat -> nat -> list xcmd * bool.    (* filter f, n-th evaluation: body, verdict *)
  Variable pbehav : nat -> nat -> list xcmd * bool.    (* predicate p, n-th evaluation: body, verdict *)

  Section WithRec.
    Variable rec : xstate -> list xcmd -> xres.

    (* CallbackList::operator() / forEachIf over the listeners of key k (flt = false) or over the
       filter list (flt = true): snapshot rule; a filter's false verdict stops the loop *)
    Fixpoint x_call_all (flt : bool) (st : xstate) (k : nat) (todo : list (nat * nat)) (a : Z) : xres * bool :=
      match todo with
      | [] => (XOk st, true)
      | (h, c) :: rest =>
          if xhas h (if flt then xfilters st else xlst st k) then
            let st1 := xlog st (if flt then XFilt c k a else XCall c k a) in
            let st2 := if flt then xu_facts st1 (xset c (S (xact (xfacts st1) c)) (xfacts st1))
                       else xu_acts st1 (xset c (S (xact (xacts st1) c)) (xacts st1)) in
            let '(body, verdict) := if flt then fbehav c (xact (xfacts st2) c) else (behav c (xact (xacts st2) c), true) in
            match rec st2 body with
            | XOk st3 => if verdict then x_call_all flt st3 k rest a else (XOk st3, false)
            | XExn t s0 s1 => (XExn t s0 s1, false)
            | XErr => (XErr, false)
            end
          else x_call_all flt st k rest a
      end.

    (* directDispatch: mixinBeforeDispatch (the filters), then the listeners of the key *)
    Definition x_dispatch (st : xstate) (k : nat) (a : Z) : xres :=
      let r :=
        match x_call_all true st k (xfilters st) a with
        | (XOk st1, true) => fst (x_call_all false st1 k (xlst st1 k) a)
        | (r, _) => r
        end in
      match r with
      | XExn t s0 s1 => if no_catch then XExn t s0 s1 else XOk s1
      | _ => r
      end.

    Definition x_eval_pred (st : xstate) (p : nat) (e : xevent) : xres * bool :=
      let st1 := xlog st (XPred p (xkey e) (xarg e)) in
      let st2 := xu_pacts st1 (xset p (S (xact (xpacts st1) p)) (xpacts st1)) in
      let '(body, verdict) := pbehav p (xact (xpacts st2) p) in
      (rec st2 body, verdict).

    (* the loop of process / processOne (mode 0), processIf (mode 1), processUntil (mode 2) over the
       local list `temp`; kept = events the predicate declined so far (latest first); result: the
       state, the events to put back in order, the number dispatched.  On an exception the whole local
       list — the current event, the rest, the kept ones — is destroyed. *)
    Fixpoint x_ploop (mode p : nat) (st : xstate) (temp kept : list xevent) (idle : nat) : xres * list xevent * nat :=
      match temp with
      | [] => (XOk st, rev kept, idle)
      | e :: rest =>
          let lost := S (length rest + length kept) in
          let go (st1 : xstate) :=
            match x_dispatch st1 (xkey e) (xarg e) with
            | XOk st2 => x_ploop mode p (xu_live st2 (xlive st2 - 1)%Z) rest kept (S idle)
            | XExn t s0 s1 => (XExn t s0 (x_discard s1 lost), [], idle)
            | XErr => (XErr, [], idle)
            end in
          match mode with
          | 0 => go st
          | _ =>
              match x_eval_pred st p e with
              | (XOk st1, v) =>
                  if Nat.eqb mode 1 then
                    if v then go st1 else x_ploop mode p st1 rest (e :: kept) idle
                  else
                    if v then (XOk st1, rev kept ++ e :: rest, idle) else go st1
              | (XExn t s0 s1, _) => (XExn t s0 (x_discard s1 lost), [], idle)
              | (XErr, _) => (XErr, [], idle)
              end
          end
      end.

    (* the frame of a processing call: CounterGuard around the loop, put-back at the front, result *)
    Definition x_processing (which mode p : nat) (st : xstate) (temp remaining : list xevent) : xres :=
      let st1 := xu_pend (xu_count st (S (xcount st))) remaining in
      match x_ploop mode p st1 temp [] 0 with
      | (XOk st2, kept, idle) =>
          let st3 := xu_pend st2 (kept ++ xpend st2) in
          XOk (xlog (xu_count st3 (pred (xcount st3))) (XRet (negb (Nat.eqb idle 0))))
      | (XExn t s0 s1, _, _) => XExn t s0 (if guard_raii which then xu_count s1 (pred (xcount s1)) else s1)
      | (XErr, _, _) => XErr
      end.

    Definition x_add_listener (st : xstate) (k c h : nat) (place : nat * nat -> list (nat * nat) -> list (nat * nat)) : xstate :=
      let id := xnexth st in
      xu_lsts st (xset k (place (id, c) (xlst st k)) (xlsts st)) (S id) (xset h (k, id) (xhregs st)).

    Definition x_step (st : xstate) (c : xcmd) : xres :=
      match c with
      | XAppend k c h => XOk (x_add_listener st k c h (fun n l => l ++ [n]))
      | XPrepend k c h => XOk (x_add_listener st k c h (fun n l => n :: l))
      | XInsert k c hb h =>
          match xlookup hb (xhregs st) with
          | Some (k', b) =>
              if Nat.eqb k' k then
                if xhas b (xlst st k) then XOk (x_add_listener st k c h (fun n l => xins b n l))
                else XOk (x_add_listener st k c h (fun n l => l ++ [n]))
              else XErr
          | None => XOk (x_add_listener st k c h (fun n l => l ++ [n]))
          end
      | XRemove k h =>
          match xlookup h (xhregs st) with
          | Some (k', b) =>
              if Nat.eqb k' k then
                if xhas b (xlst st k)
                then XOk (xlog (xu_lsts st (xset k (xdel b (xlst st k)) (xlsts st)) (xnexth st) (xhregs st)) (XRet true))
                else XOk (xlog st (XRet false))
              else XErr
          | None => XOk (xlog st (XRet false))
          end
      | XAddFilter f h =>
          let id := xnexth st in
          XOk (xu_filters st (xfilters st ++ [(id, f)]) (S id) (xset h id (xfregs st)))
      | XRemoveFilter h =>
          match xlookup h (xfregs st) with
          | Some b =>
              if xhas b (xfilters st)
              then XOk (xlog (xu_filters st (xdel b (xfilters st)) (xnexth st) (xfregs st)) (XRet true))
              else XOk (xlog st (XRet false))
          | None => XOk (xlog st (XRet false))
          end
      | XDispatch k a => x_dispatch st k a
      | XEnqueue k a =>
          let e := mkXe k a (xnexts st) in
          XOk (xu_live (xu_pend (xu_nexts st (S (xnexts st))) (xpend st ++ [e])) (xlive st + 1)%Z)
      | XProcess =>
          match xpend st with
          | [] => XOk (xlog st (XRet false))
          | temp => x_processing 0 0 0 st temp []
          end
      | XProcessOne =>
          match xpend st with
          | [] => XOk (xlog st (XRet false))
          | e :: rest => x_processing 1 0 0 st [e] rest
          end
      | XProcessIf p =>
          match xpend st with
          | [] => XOk (xlog st (XRet false))
          | temp => x_processing 2 1 p st temp []
          end
      | XProcessUntil p =>
          match xpend st with
          | [] => XOk (xlog st (XRet false))
          | temp => x_processing 3 2 p st temp []
          end
      | XEmpty => XOk (xlog st (XRet (x_empty_queue st)))
      | XCanProcess => XOk (xlog st (XRet (x_can_process st)))
      | XLedger => XOk (xlog st (XLive (xlive st)))
      | XThrow t => let s := xlog st (XThrew t) in XExn t s s
      end.

    Fixpoint x_seq (st : xstate) (cs : list xcmd) : xres :=
      match cs with
      | [] => XOk st
      | c :: r => match x_step st c with XOk st1 => x_seq st1 r | other => other end
      end.
  End WithRec.

  Fixpoint x_run (fuel : nat) : xstate -> list xcmd -> xres :=
    match fuel with
    | 0 => fun _ _ => XErr
    | S f => x_seq (x_run f)
    end.

  (* the outermost caller: every command in try { } catch(tag) { trace; } — and on it goes *)
  Fixpoint x_main (fuel : nat) (st : xstate) (cs : list xcmd) : option xstate :=
    match cs with
    | [] => Some st
    | c :: r =>
        match x_run fuel st [c] with
        | XOk st1 => x_main fuel st1 r
        | XExn t _ st1 => x_main fuel (xlog st1 (XCaught t)) r
        | XErr => None
        end
    end.

  Definition x_run_case (fuel : nat) (main : list xcmd) : option (list xev) :=
    match x_main fuel x_init main with
    | Some st => Some (rev (xtrace st))
    | None => None
    end.
End XInterp.

(* the interpreter instantiated with what the headers say now (tie A) *)
Definition code_no_catch : bool :=
  GenExn.cl_invoke_has_no_catch && GenExn.disp_dispatch_has_no_catch && GenExn.eq_process_has_no_catch.
Definition code_guard_raii (which : nat) : bool :=
  GenExn.counter_guard_inc_in_ctor_dec_in_dtor &&
  match which with
  | 0 => GenExn.eq_process_counter_guard_is_raii
  | 1 => GenExn.eq_processOne_counter_guard_is_raii
  | 2 => GenExn.eq_processIf_counter_guard_is_raii
  | _ => GenExn.eq_processUntil_counter_guard_is_raii
  end.

Definition xc_run := x_run code_no_catch code_guard_raii.
Definition xc_main := x_main code_no_catch code_guard_raii.
Definition xc_run_case := x_run_case code_no_catch code_guard_raii.
(* the same interpreter with the facts fixed to what the property demands: the oracle when a proof breaks *)
Definition xs_run_case := x_run_case true (fun _ => true).
