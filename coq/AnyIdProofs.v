(* AnyIdProofs.v — C18: proofs about AnyIdModel.

   Part 1 (OrderFacts, MapProofs): for ANY key type whose lt/eq/hash satisfy the coherence laws,
     both map disciplines return exactly the listeners appended under equal keys.
   Part 2 (AnyIdLaws): the AnyId operators — the bodies regenerated from anyid.h in gen/GenAnyId.v —
     satisfy those laws whenever compareEqual/compareLessThan do.  The ONLY lemmas that look inside the
     generated bodies are aeq_spec / alt_spec / ahash_dig and the instantiation lemmas; they are proved by
     unfolding + case analysis of every integer comparison + lia, so a harmless rewrite of a body
     re-proves and a changed meaning (< into <=, && into ||, a dropped conjunct) does not.
   Part 3: the two storages of the property (comparable value, EmptyAnyStorage) and examples. *)
From Coq Require Import List ZArith Bool Lia.
From EV Require Import AnyIdModel.
From EV.gen Require GenAnyId.
Import ListNotations.
Local Open Scope Z_scope.

(* ------------------------------------------------------------------------------------------ *)
(* Part 1 *)

Section OrderFacts.
  Variable K : Type.
  Variables lt eq : K -> K -> bool.
  Hypothesis Heq : eq_equiv eq.
  Hypothesis Hlt : lt_swo lt.
  Hypothesis Hinc : incomp_is_eq lt eq.

  Let eq_refl := proj1 Heq.
  Let eq_sym := proj1 (proj2 Heq).
  Let eq_trans := proj2 (proj2 Heq).
  Let lt_irrefl := proj1 Hlt.
  Let lt_trans := proj1 (proj2 Hlt).

  (* every ordered pair falls in exactly one of three classes *)
  Lemma tri : forall a b,
    (lt a b = true /\ lt b a = false /\ eq a b = false /\ eq b a = false) \/
    (lt a b = false /\ lt b a = false /\ eq a b = true /\ eq b a = true) \/
    (lt a b = false /\ lt b a = true /\ eq a b = false /\ eq b a = false).
  Proof.
    intros a b.
    assert (Hne : forall x y, lt x y = true -> eq x y = false /\ eq y x = false).
    { intros x y Hxy. split.
      - destruct (eq x y) eqn:E; auto. apply Hinc in E. destruct E as [E _]. congruence.
      - destruct (eq y x) eqn:E; auto. apply Hinc in E. destruct E as [_ E]. congruence. }
    destruct (lt a b) eqn:A; destruct (lt b a) eqn:B.
    - pose proof (lt_trans _ _ _ A B) as C. rewrite lt_irrefl in C. discriminate.
    - left. destruct (Hne _ _ A). auto.
    - right; right. destruct (Hne _ _ B). auto.
    - right; left. assert (E : eq a b = true) by (apply Hinc; split; assumption).
      pose proof (eq_sym _ _ E). auto.
  Qed.

  Lemma lt_eq_r : forall a b c, lt a b = true -> eq b c = true -> lt a c = true.
  Proof.
    intros a b c Hab Hbc.
    destruct (lt a c) eqn:A; auto. exfalso.
    destruct (lt c a) eqn:B.
    - pose proof (lt_trans _ _ _ B Hab) as C. apply Hinc in Hbc. destruct Hbc. congruence.
    - assert (I1 : incomp lt a c) by (split; assumption).
      assert (I2 : incomp lt c b) by (apply Hinc; apply eq_sym; assumption).
      destruct (proj2 (proj2 Hlt) _ _ _ I1 I2). congruence.
  Qed.

  Lemma eq_lt_l : forall a b c, eq a b = true -> lt b c = true -> lt a c = true.
  Proof.
    intros a b c Hab Hbc.
    destruct (lt a c) eqn:A; auto. exfalso.
    destruct (lt c a) eqn:B.
    - pose proof (lt_trans _ _ _ Hbc B) as C. apply Hinc in Hab. destruct Hab. congruence.
    - assert (I1 : incomp lt b a) by (apply Hinc; apply eq_sym; assumption).
      assert (I2 : incomp lt a c) by (split; assumption).
      destruct (proj2 (proj2 Hlt) _ _ _ I1 I2). congruence.
  Qed.

  (* refutes a combination of facts about three keys that contradicts transitivity *)
  Ltac trans_contra :=
    match goal with
    | H1 : lt ?a ?b = true, H2 : lt ?b ?c = true, H3 : lt ?a ?c = false |- _ =>
        rewrite (lt_trans _ _ _ H1 H2) in H3; discriminate
    | H1 : lt ?a ?b = true, H2 : eq ?b ?c = true, H3 : lt ?a ?c = false |- _ =>
        rewrite (lt_eq_r _ _ _ H1 H2) in H3; discriminate
    | H1 : eq ?a ?b = true, H2 : lt ?b ?c = true, H3 : lt ?a ?c = false |- _ =>
        rewrite (eq_lt_l _ _ _ H1 H2) in H3; discriminate
    | H1 : eq ?a ?b = true, H2 : eq ?b ?c = true, H3 : eq ?a ?c = false |- _ =>
        rewrite (eq_trans _ _ _ H1 H2) in H3; discriminate
    end.

  Ltac classify a b :=
    let H := fresh in
    destruct (tri a b) as [H | [H | H]]; destruct H as (? & ? & ? & ?).

  Variable L : Type.

  (* (i) ordered discipline *)
  Lemma sm_find_append : forall k k0 (v : L) m,
    sm_find lt k (sm_append lt k0 v m) = sm_find lt k m ++ (if eq k k0 then [v] else []).
  Proof.
    intros k k0 v m. induction m as [| [k' vs] t IH].
    - simpl. classify k k0;
        repeat match goal with H : _ = _ |- _ => rewrite H end; reflexivity.
    - simpl. classify k k0; classify k' k0; classify k' k;
        repeat match goal with H : lt _ _ = _ |- _ => rewrite H end;
        repeat match goal with H : eq _ _ = _ |- _ => rewrite H end;
        simpl;
        repeat match goal with H : lt _ _ = _ |- _ => rewrite H end;
        try rewrite IH;
        repeat match goal with H : eq _ _ = _ |- _ => rewrite H end;
        try rewrite app_nil_r; try reflexivity; try trans_contra.
  Qed.

  Definition hd_lt (k : K) (m : smap K L) : Prop :=
    match m with [] => True | (k2, _) :: _ => lt k k2 = true end.

  Lemma sm_sorted_cons : forall k vs (t : smap K L), sm_sorted lt ((k, vs) :: t) <-> hd_lt k t /\ sm_sorted lt t.
  Proof. intros k vs t. destruct t as [| [k2 vs2] t]; simpl; tauto. Qed.

  Lemma sm_append_sorted : forall k (v : L) m, sm_sorted lt m -> sm_sorted lt (sm_append lt k v m).
  Proof.
    intros k v m. induction m as [| [k' vs] t IH]; intros Hs.
    - simpl. auto.
    - apply (proj1 (sm_sorted_cons _ _ _)) in Hs. destruct Hs as [Hh Ht].
      cbn [sm_append]. destruct (lt k' k) eqn:A.
      + apply sm_sorted_cons. split; [| auto].
        destruct t as [| [k2 vs2] t2]; cbn [sm_append hd_lt]; [assumption |].
        cbn [hd_lt] in Hh. destruct (lt k2 k); [assumption |]. destruct (lt k k2); assumption.
      + destruct (lt k k') eqn:B.
        * apply sm_sorted_cons. split; [exact B |]. apply sm_sorted_cons. auto.
        * apply sm_sorted_cons. auto.
  Qed.

  Lemma sm_run_sorted_from : forall (ops : list (K * L)) m, sm_sorted lt m ->
    sm_sorted lt (fold_left (fun m kv => sm_append lt (fst kv) (snd kv) m) ops m).
  Proof. induction ops as [| [k0 v] ops IH]; intros m Hs; simpl; auto using sm_append_sorted. Qed.

  Lemma sm_run_find_from : forall k (ops : list (K * L)) m,
    sm_find lt k (fold_left (fun m kv => sm_append lt (fst kv) (snd kv) m) ops m)
    = sm_find lt k m ++ listeners_of eq k ops.
  Proof.
    intros k ops. induction ops as [| [k0 v] ops IH]; intros m.
    - cbn. rewrite app_nil_r. reflexivity.
    - cbn [fold_left fst snd]. rewrite IH, sm_find_append, <- app_assoc. f_equal.
      unfold listeners_of. cbn [filter fst]. destruct (eq k k0); reflexivity.
  Qed.

  (* (ii) hashed discipline *)
  Lemma chain_find_append : forall k k0 (v : L) b,
    chain_find eq k (chain_append eq k0 v b) = chain_find eq k b ++ (if eq k k0 then [v] else []).
  Proof.
    intros k k0 v b. induction b as [| [k' vs] t IH].
    - simpl. classify k k0;
        repeat match goal with H : eq _ _ = _ |- _ => rewrite H end; reflexivity.
    - simpl. classify k k0; classify k' k0; classify k' k;
        repeat match goal with H : eq _ _ = _ |- _ => rewrite H end;
        simpl;
        repeat match goal with H : eq _ _ = _ |- _ => rewrite H end;
        try rewrite IH;
        repeat match goal with H : eq _ _ = _ |- _ => rewrite H end;
        try rewrite app_nil_r; try reflexivity; try trans_contra.
  Qed.

  Variable hash : K -> Z.
  Variable bidx : Z -> Z.
  Hypothesis Hhash : hash_compat eq hash.

  Lemma bm_find_append : forall k k0 (v : L) t,
    bm_find eq hash bidx k (bm_append eq hash bidx k0 v t)
    = bm_find eq hash bidx k t ++ (if eq k k0 then [v] else []).
  Proof.
    intros k k0 v t. unfold bm_find, bm_append. cbn [tbl_get].
    destruct (Z.eqb_spec (bidx (hash k)) (bidx (hash k0))) as [E | E].
    - rewrite E. apply chain_find_append.
    - destruct (eq k k0) eqn:Q.
      + exfalso. apply E. rewrite (Hhash _ _ Q). reflexivity.
      + rewrite app_nil_r. reflexivity.
  Qed.

  Lemma bm_run_find_from : forall k (ops : list (K * L)) t,
    bm_find eq hash bidx k (fold_left (fun m kv => bm_append eq hash bidx (fst kv) (snd kv) m) ops t)
    = bm_find eq hash bidx k t ++ listeners_of eq k ops.
  Proof.
    intros k ops. induction ops as [| [k0 v] ops IH]; intros t.
    - cbn. rewrite app_nil_r. reflexivity.
    - cbn [fold_left fst snd]. rewrite IH, bm_find_append, <- app_assoc. f_equal.
      unfold listeners_of. cbn [filter fst]. destruct (eq k k0); reflexivity.
  Qed.

  Theorem maps_lookup : forall (ops : list (K * L)) k,
    sm_find lt k (sm_run lt ops) = listeners_of eq k ops /\
    bm_find eq hash bidx k (bm_run eq hash bidx ops) = listeners_of eq k ops /\
    sm_sorted lt (sm_run lt ops).
  Proof.
    intros ops k. unfold sm_run, bm_run. rewrite sm_run_find_from, bm_run_find_from.
    repeat split. apply sm_run_sorted_from. exact I.
  Qed.

  Lemma listeners_of_in : forall (ops : list (K * L)) k v,
    In v (listeners_of eq k ops) <-> exists k', In (k', v) ops /\ eq k k' = true.
  Proof.
    intros ops k v. unfold listeners_of. rewrite in_map_iff. split.
    - intros [[k' v'] [E H]]. apply filter_In in H. destruct H as [H1 H2]. cbn in *. subst. eauto.
    - intros [k' [H1 H2]]. exists (k', v). split; [reflexivity |]. apply filter_In. auto.
  Qed.
End OrderFacts.

(* ------------------------------------------------------------------------------------------ *)
(* Part 2 *)

(* case analysis of every integer comparison occurring in the goal *)
Ltac cmp_cases :=
  repeat match goal with
  | |- context [Z.eqb ?a ?b] => destruct (Z.eqb_spec a b)
  | |- context [Z.ltb ?a ?b] => destruct (Z.ltb_spec a b)
  | |- context [Z.leb ?a ?b] => destruct (Z.leb_spec a b)
  end.

Ltac bool_finish :=
  cbn; try tauto; try lia;
  split; intros; try discriminate; try lia;
  repeat match goal with
  | H : _ /\ _ |- _ => destruct H
  | H : _ \/ _ |- _ => destruct H
  end; try discriminate; try lia; try tauto; try congruence; auto.

Section AnyIdLaws.
  Variable V : Type.
  Variables ceq clt : V -> V -> bool.

  (* what operator== decides *)
  Lemma aeq_spec : forall x y : id V,
    aeq ceq x y = true <-> dig x = dig y /\ ceq (val x) (val y) = true.
  Proof.
    intros x y. unfold aeq, GenAnyId.eqb.
    destruct (ceq (val x) (val y)); cmp_cases; bool_finish.
  Qed.

  (* what operator< decides: lexicographic on (digest, value) *)
  Lemma alt_spec : forall x y : id V,
    alt clt x y = true <-> dig x < dig y \/ (dig x = dig y /\ clt (val x) (val y) = true).
  Proof.
    intros x y. unfold alt, GenAnyId.ltb.
    destruct (clt (val x) (val y)); cmp_cases; bool_finish.
  Qed.

  (* std::hash<AnyId> is a function of the digest alone *)
  Lemma ahash_dig : forall x y : id V, dig x = dig y -> ahash x = ahash y.
  Proof. intros x y H. unfold ahash. rewrite H. reflexivity. Qed.

  Lemma aeq_false : forall x y : id V,
    aeq ceq x y = false <-> ~ (dig x = dig y /\ ceq (val x) (val y) = true).
  Proof.
    intros x y. rewrite <- aeq_spec. destruct (aeq ceq x y); split; intros; try discriminate; auto.
    exfalso; auto.
  Qed.

  Lemma alt_false : forall x y : id V,
    alt clt x y = false <-> ~ (dig x < dig y \/ (dig x = dig y /\ clt (val x) (val y) = true)).
  Proof.
    intros x y. rewrite <- alt_spec. destruct (alt clt x y); split; intros; try discriminate; auto.
    exfalso; auto.
  Qed.

  Theorem hash_compat_any : hash_compat (aeq ceq) (@ahash V).
  Proof. intros x y H. apply aeq_spec in H. apply ahash_dig. tauto. Qed.

  Hypothesis Hord : value_order clt ceq.
  Let Hceq : eq_equiv ceq := proj1 Hord.
  Let Hclt : lt_swo clt := proj1 (proj2 Hord).
  Let Hcinc : incomp_is_eq clt ceq := proj2 (proj2 Hord).

  Theorem aeq_equiv : eq_equiv (aeq ceq).
  Proof.
    destruct Hceq as (R & S & T). repeat split.
    - intros a. apply aeq_spec. auto.
    - intros a b H. apply aeq_spec in H. apply aeq_spec. destruct H. split; [lia | auto].
    - intros a b c H1 H2. apply aeq_spec in H1. apply aeq_spec in H2. apply aeq_spec.
      destruct H1, H2. split; [lia | eauto].
  Qed.

  Theorem alt_incomp_is_eq : incomp_is_eq (alt clt) (aeq ceq).
  Proof.
    intros a b. unfold incomp. rewrite !alt_false, aeq_spec. split.
    - intros [H1 H2].
      assert (E : dig a = dig b) by lia. split; [exact E |].
      apply Hcinc. split.
      + destruct (clt (val a) (val b)) eqn:Q; auto. exfalso. apply H1. right. auto.
      + destruct (clt (val b) (val a)) eqn:Q; auto. exfalso. apply H2. right. auto.
    - intros [E H]. apply Hcinc in H. destruct H as [H1 H2].
      split; intros [C | [_ C]]; try lia; congruence.
  Qed.

  Theorem alt_swo : lt_swo (alt clt).
  Proof.
    destruct Hclt as (I & T & _). split; [| split].
    - intros a. apply alt_false. intros [C | [_ C]]; [lia |]. rewrite I in C. discriminate.
    - intros a b c H1 H2. apply alt_spec in H1. apply alt_spec in H2. apply alt_spec.
      destruct H1 as [H1 | [E1 H1]]; destruct H2 as [H2 | [E2 H2]]; try (left; lia).
      right. split; [lia | eauto].
    - intros a b c H1 H2.
      apply (proj2 (alt_incomp_is_eq a c)).
      apply (proj1 (alt_incomp_is_eq a b)) in H1. apply (proj1 (alt_incomp_is_eq b c)) in H2.
      exact (proj2 (proj2 aeq_equiv) _ _ _ H1 H2).
  Qed.

  Theorem lookup_any : forall (L : Type) (bidx : Z -> Z) (ops : list (id V * L)) (k : id V),
    sm_find (alt clt) k (sm_run (alt clt) ops) = listeners_of (aeq ceq) k ops /\
    bm_find (aeq ceq) ahash bidx k (bm_run (aeq ceq) ahash bidx ops) = listeners_of (aeq ceq) k ops /\
    sm_sorted (alt clt) (sm_run (alt clt) ops).
  Proof.
    intros L bidx ops k.
    exact (maps_lookup (id V) (alt clt) (aeq ceq) aeq_equiv alt_swo alt_incomp_is_eq L ahash bidx hash_compat_any ops k).
  Qed.

  Theorem lookup_exact : forall (L : Type) (bidx : Z -> Z) (ops : list (id V * L)) (k : id V) (v : L),
    (In v (sm_find (alt clt) k (sm_run (alt clt) ops)) <-> exists k', In (k', v) ops /\ aeq ceq k k' = true) /\
    (In v (bm_find (aeq ceq) ahash bidx k (bm_run (aeq ceq) ahash bidx ops)) <-> exists k', In (k', v) ops /\ aeq ceq k k' = true).
  Proof.
    intros L bidx ops k v. destruct (lookup_any L bidx ops k) as (E1 & E2 & _).
    rewrite E1, E2. split; apply listeners_of_in.
  Qed.

  (* ids whose digests collide but whose stored values differ are distinct and ordered *)
  Theorem collision_distinct_any : forall x y : id V,
    dig x = dig y -> ceq (val x) (val y) = false ->
    aeq ceq x y = false /\ (alt clt x y = true \/ alt clt y x = true).
  Proof.
    intros x y E Hne.
    assert (A : aeq ceq x y = false) by (apply aeq_false; intros [_ C]; congruence).
    split; [exact A |].
    destruct (alt clt x y) eqn:P; [auto |]. destruct (alt clt y x) eqn:Q; [auto |].
    exfalso. assert (C : aeq ceq x y = true) by (apply alt_incomp_is_eq; split; assumption). congruence.
  Qed.
End AnyIdLaws.

(* ------------------------------------------------------------------------------------------ *)
(* Part 3: the storages *)

Section Storages.
  Variable V : Type.

  (* a Storage with its own == and < : compareEqual / compareLessThan forward to them *)
  Lemma val_ceq_ext : forall (veq : V -> V -> bool) a b, val_ceq veq a b = veq a b.
  Proof. intros veq a b. unfold val_ceq, GenAnyId.compare_equal. destruct (veq a b); reflexivity. Qed.

  Lemma val_clt_ext : forall (vlt : V -> V -> bool) a b, val_clt vlt a b = vlt a b.
  Proof. intros vlt a b. unfold val_clt, GenAnyId.compare_less. destruct (vlt a b); reflexivity. Qed.

  Lemma value_storage_order : forall veq vlt : V -> V -> bool,
    value_order vlt veq -> value_order (val_clt vlt) (val_ceq veq).
  Proof.
    intros veq vlt ((R & S & T) & (I & Tr & Inc) & HI).
    unfold value_order, eq_equiv, lt_swo, incomp_is_eq, incomp in *.
    split; [| split].
    - repeat split; intros; rewrite ?val_ceq_ext in *; eauto.
    - split; [| split].
      + intros a. rewrite val_clt_ext. auto.
      + intros a b c H1 H2. rewrite ?val_clt_ext in *. eauto.
      + intros a b c H1 H2. rewrite ?val_clt_ext in *. exact (Inc a b c H1 H2).
    - intros a b. rewrite (val_clt_ext vlt a b), (val_clt_ext vlt b a), (val_ceq_ext veq a b). apply HI.
  Qed.

  Lemma val_ceq_false : forall (veq : V -> V -> bool) a b, veq a b = false -> val_ceq veq a b = false.
  Proof. intros veq a b H. rewrite val_ceq_ext. exact H. Qed.

  (* EmptyAnyStorage : the fallbacks are the coarsest coherent pair (everything equal, nothing less) *)
  Lemma empty_storage_order : value_order (@empty_clt V) (@empty_ceq V).
  Proof.
    unfold value_order, eq_equiv, lt_swo, incomp_is_eq, incomp, empty_clt, empty_ceq,
      GenAnyId.fallback_eq, GenAnyId.fallback_lt.
    repeat split; intros; auto; try discriminate; try tauto.
  Qed.

  Lemma empty_digest_only : forall x y : id V,
    (aeq empty_ceq x y = true <-> dig x = dig y) /\ (alt empty_clt x y = true <-> dig x < dig y).
  Proof.
    intros x y. rewrite aeq_spec, alt_spec. unfold empty_ceq, empty_clt, GenAnyId.fallback_eq, GenAnyId.fallback_lt.
    split; split; intros; try tauto.
    - destruct H as [H | [_ H]]; [exact H | discriminate].
  Qed.
End Storages.

(* value-storing Storage: colliding digests, different values *)
Lemma collision_distinct_val : forall (V : Type) (veq vlt : V -> V -> bool), value_order vlt veq ->
  forall a b : id V, dig a = dig b -> veq (val a) (val b) = false ->
    aeq (val_ceq veq) a b = false /\ (alt (val_clt vlt) a b = true \/ alt (val_clt vlt) b a = true).
Proof.
  intros V veq vlt H a b E N.
  exact (collision_distinct_any V (val_ceq veq) (val_clt vlt) (value_storage_order V veq vlt H) a b E (val_ceq_false V veq _ _ N)).
Qed.

(* the hypotheses are satisfiable: Z with its own == and < *)
Lemma Z_value_order : value_order Z.ltb Z.eqb.
Proof.
  unfold value_order, eq_equiv, lt_swo, incomp_is_eq, incomp. repeat split; intros;
    repeat match goal with
    | H : _ /\ _ |- _ => destruct H
    | H : Z.eqb _ _ = true |- _ => apply Z.eqb_eq in H
    | H : Z.ltb _ _ = true |- _ => apply Z.ltb_lt in H
    | H : Z.ltb _ _ = false |- _ => apply Z.ltb_ge in H
    | |- Z.eqb _ _ = true => apply Z.eqb_eq
    | |- Z.ltb _ _ = true => apply Z.ltb_lt
    | |- Z.ltb _ _ = false => apply Z.ltb_ge
    end; lia.
Qed.

(* ... and the (kind, n) pairs kept by the harness Storage *)
Lemma pair_value_order : value_order pvlt pveq.
Proof.
  unfold value_order, eq_equiv, lt_swo, incomp_is_eq, incomp, pvlt, pveq.
  repeat split; intros;
    repeat match goal with
    | H : _ /\ _ |- _ => destruct H
    | H : andb _ _ = true |- _ => apply andb_true_iff in H
    | H : orb _ _ = true |- _ => apply orb_true_iff in H
    | H : orb _ _ = false |- _ => apply orb_false_iff in H
    | H : andb _ _ = false |- _ => apply andb_false_iff in H
    | H : _ \/ _ |- _ => destruct H
    | H : Z.eqb _ _ = true |- _ => apply Z.eqb_eq in H
    | H : Z.eqb _ _ = false |- _ => apply Z.eqb_neq in H
    | H : Z.ltb _ _ = true |- _ => apply Z.ltb_lt in H
    | H : Z.ltb _ _ = false |- _ => apply Z.ltb_ge in H
    end;
    cmp_cases; cbn; try reflexivity; try lia.
Qed.
