(* Extraction of the thread-level callback-list model for tie B (schedules). ExtrOcamlBasic only. *)
Require Extraction.
Require Import ExtrOcamlBasic.
From EV Require CLConc.
Extraction Language OCaml.
Set Extraction Optimize.
Definition lc_run_case := CLConc.lc_run_case.
Extraction "../ocaml/gen/clconc_model.ml" lc_run_case.
