(* Extraction of the executable AnyId model for the correspondence check (tie B, property C18).
   ExtrOcamlBasic only: bool, option, list, prod, unit, sumbool are mapped to the OCaml types;
   positive/Z stay the binary Coq datatypes.  No Extract Constant / Extract Inductive of our own.
   The operators reached from here are the regenerated bodies of gen/GenAnyId.v. *)
Require Extraction.
Require Import ExtrOcamlBasic.
From Coq Require Import ZArith List.
From EV Require AnyIdModel.
From EV.gen Require GenAnyId.
Extraction Language OCaml.
Set Extraction Optimize.

(* an id of the harness universe: source value (type tag, n) -> (3-bit digest, stored (kind, n)) *)
Definition anyid_make : Z -> Z -> AnyIdModel.hid := AnyIdModel.mk_id.
Definition anyid_digest (x : AnyIdModel.hid) : Z := AnyIdModel.dig x.
(* storing = true : AnyId<Dig3, Val> ; false : AnyId<Dig3, EmptyAnyStorage> *)
Definition anyid_eq : bool -> AnyIdModel.hid -> AnyIdModel.hid -> bool := AnyIdModel.h_eq.
Definition anyid_lt : bool -> AnyIdModel.hid -> AnyIdModel.hid -> bool := AnyIdModel.h_lt.
Definition anyid_hash : AnyIdModel.hid -> Z := AnyIdModel.h_hash.
(* listeners reached by a dispatch of k after the appends ops (oldest first) *)
Definition anyid_map_lookup : bool -> list (AnyIdModel.hid * Z) -> AnyIdModel.hid -> list Z := AnyIdModel.h_map_lookup.
Definition anyid_umap_lookup : bool -> Z -> list (AnyIdModel.hid * Z) -> AnyIdModel.hid -> list Z := AnyIdModel.h_umap_lookup.

Extraction "../ocaml/gen/anyid_model.ml" anyid_make anyid_digest anyid_eq anyid_lt anyid_hash anyid_map_lookup anyid_umap_lookup.
