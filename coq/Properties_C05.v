(* Properties_C05.v — C05: EventQueue consumes every queued event exactly once, in FIFO order.
   The specification is q_run false: `pending` is a plain list of events; enqueue appends;
   process takes all of it and dispatches each in order to the listeners registered at that
   moment (snapshot rule per event key); processOne takes the front; processIf/processUntil
   keep what the predicate declines, in order, AHEAD of events enqueued meanwhile; peek
   copies, take hands out, clear discards; each call's boolean says whether it dispatched or
   found an event.  Only theorems, examples and Print Assumptions here (proofs: QRefine.v). *)
From Coq Require Import List Arith NArith ZArith Bool.
From EV Require Import QModel QRefine.
Import ListNotations.

(* For every re-entrant program (listeners and predicates running any queue command, to any
   depth), every fuel, every key comparator and both list policies: the slot / free-list
   mechanism of eventqueue.h produces the specification's trace, never sets an occupied slot,
   never reads or clears an empty one, and ends in a state whose queue holds exactly the
   specification's pending events with every slot of the free list empty. *)
Theorem C05_queue_mechanism_refines_fifo_spec :
  forall ordered klt behav pbehav fuel prog m',
    q_run true ordered klt behav pbehav fuel q_init prog = Some m' ->
    exists s', q_run false ordered klt behav pbehav fuel q_init prog = Some s' /\
               qtrace m' = qtrace s' /\ qerr m' = false /\ QR m' s'.
Proof. exact queue_refines_fifo. Qed.
Print Assumptions C05_queue_mechanism_refines_fifo_spec.

(* non-vacuity: listener 2 enqueues and processes from inside a dispatch; predicate 1 declines
   every second event; slots are recycled over three rounds *)
Definition ex_behav (c n : nat) : list qcmd :=
  match c, n with
  | 2, 1 => [QEnqueue 0 77%Z; QEmpty; QProcessOne]
  | 2, 3 => [QEnqueue 1 78%Z]
  | _, _ => []
  end.
Definition ex_pbehav (p n : nat) : list qcmd * bool := ([], Nat.even n).
Definition ex_main : list qcmd :=
  [QAppend 0 1 0; QAppend 0 2 1; QAppend 1 3 100;
   QEnqueue 0 5%Z; QEnqueue 1 6%Z; QEnqueue 0 7%Z; QProcessIf 1; QEmpty; QProcess;
   QEnqueue 1 8%Z; QEnqueue 0 9%Z; QPeek; QTake 0; QProcessOne; QEnqueue 0 10%Z; QClear; QEmpty; QProcess].

Example C05_hypotheses_satisfiable :
  exists m', q_run true false (fun _ _ => false) ex_behav ex_pbehav 8 q_init ex_main = Some m'
             /\ 20 <= length (qtrace m') /\ 2 <= length (flist m').
Proof. eexists. split; [vm_compute; reflexivity|]. split; vm_compute; repeat constructor. Qed.
