(* CopyProofs.v — copies are independent, moves transfer, swaps exchange, and nothing depends on
   what the storage held before construction (when the constructors initialise the counters). *)
From Coq Require Import List Arith NArith ZArith Bool Lia.
From EV Require Import CopyModel.
From EV.gen Require GenQ.
Import ListNotations.
Local Open Scope nat_scope.

Lemma nth_error_oset {A} (l : list A) i j x :
  nth_error (oset l i x) j = if Nat.eqb j i then (if Nat.ltb i (length l) then Some x else None) else nth_error l j.
Proof.
  revert i j; induction l as [|y t IH]; intros i j; simpl.
  - destruct j, i; simpl; try reflexivity; destruct (Nat.eqb j i); reflexivity.
  - destruct i, j; simpl; try reflexivity. rewrite IH.
    destruct (Nat.eqb j i); [|reflexivity]. change (S i <? S (length t)) with (i <? length t). reflexivity.
Qed.

Section Facts.
  Variable ci cs mi ms : bool.
  Variable j1 j2 : Z.
  Variable asafe : bool.

  Notation step := (cstep ci cs mi ms j1 j2 asafe).

  Lemma getobj_putobj_other st o o' x : o' <> o -> getobj (putobj st o x) o' = getobj st o'.
  Proof.
    intros H. unfold getobj, putobj; simpl. rewrite nth_error_oset.
    destruct (Nat.eqb_spec o' o); [contradiction|reflexivity].
  Qed.

  Lemma getobj_putobj_same st o x y : getobj st o = Some y -> getobj (putobj st o (Some x)) o = Some x.
  Proof.
    intros H. unfold getobj, putobj in *; simpl. rewrite nth_error_oset, Nat.eqb_refl.
    destruct (nth_error (objs st) o) eqn:E; [|discriminate].
    assert (o < length (objs st)) by (apply nth_error_Some; rewrite E; discriminate).
    destruct (Nat.ltb_spec o (length (objs st))); [reflexivity|lia].
  Qed.

  Lemma getobj_clog st e o : getobj (clog st e) o = getobj st o.
  Proof. reflexivity. Qed.
  Lemma getobj_setnext st n o : getobj (setnext st n) o = getobj st o.
  Proof. reflexivity. Qed.
  Lemma getobj_mkC st t n r o : getobj (mkC (objs st) t n r) o = getobj st o.
  Proof. reflexivity. Qed.

  Lemma getobj_fold_clog {A} (f : A -> cev) (l : list A) st o :
    getobj (fold_left (fun s c => clog s (f c)) l st) o = getobj st o.
  Proof. revert st; induction l as [|x t IH]; intros st; simpl; [reflexivity|]. rewrite IH. reflexivity. Qed.

  Lemma getobj_run_filters st o fs a o' : getobj (fst (run_filters st o fs a)) o' = getobj st o'.
  Proof.
    revert st; induction fs as [|[c v] t IH]; intros st; simpl; [reflexivity|].
    destruct v; [rewrite IH|]; reflexivity.
  Qed.

  Lemma getobj_do_dispatch st o x k a o' : getobj (do_dispatch st o x k a) o' = getobj st o'.
  Proof.
    unfold do_dispatch. destruct (run_filters st o (ofilters x) a) as [st1 pass] eqn:E.
    assert (H : getobj st1 o' = getobj st o') by (rewrite <- (getobj_run_filters st o (ofilters x) a o'), E; reflexivity).
    destruct pass; [|exact H]. rewrite getobj_fold_clog. exact H.
  Qed.

  Lemma getobj_fold_dispatch o x (evs : list (nat * Z)) st o' :
    getobj (fold_left (fun s e => do_dispatch s o x (fst e) (snd e)) evs st) o' = getobj st o'.
  Proof. revert st; induction evs as [|e t IH]; intros st; simpl; [reflexivity|]. rewrite IH. apply getobj_do_dispatch. Qed.

  (* the objects a command may change *)
  Definition targets (c : ccmd) : list nat :=
    match c with
    | CAppend o _ _ | CAddFilter o _ _ | CEnqueue o _ _ | CProcess o | CDestroy o | CGuardBegin o _ | CGuardEnd o _ => [o]
    | CRemove o _ _ => [o]
    | CDispatch _ _ _ | CEmptyQ _ | CCanProcess _ | COwns _ _ _ => []
    | CNew d | CCopyCtor _ d | CCopyAssign _ d => [d]
    | CMoveCtor s d | CMoveAssign s d => [s; d]
    | CSwap a b => [a; b]
    end.

  Lemma objs_fold_clog {A} (f : A -> cev) (l : list A) st : objs (fold_left (fun s c => clog s (f c)) l st) = objs st.
  Proof. revert st; induction l as [|x t IH]; intros st; simpl; [reflexivity|]. rewrite IH. reflexivity. Qed.
  Lemma objs_run_filters st o fs a : objs (fst (run_filters st o fs a)) = objs st.
  Proof.
    revert st; induction fs as [|[c v] t IH]; intros st; simpl; [reflexivity|].
    destruct v; [rewrite IH|]; reflexivity.
  Qed.
  Lemma objs_do_dispatch st o x k a : objs (do_dispatch st o x k a) = objs st.
  Proof.
    unfold do_dispatch. destruct (run_filters st o (ofilters x) a) as [st1 pass] eqn:E.
    assert (H : objs st1 = objs st) by (rewrite <- (objs_run_filters st o (ofilters x) a), E; reflexivity).
    destruct pass; [|exact H]. rewrite objs_fold_clog. exact H.
  Qed.
  Lemma objs_fold_dispatch o x (evs : list (nat * Z)) st :
    objs (fold_left (fun s e => do_dispatch s o x (fst e) (snd e)) evs st) = objs st.
  Proof. revert st; induction evs as [|e t IH]; intros st; simpl; [reflexivity|]. rewrite IH. apply objs_do_dispatch. Qed.

  (* case analysis on what a step evaluates, shared by the proofs below *)
  Ltac step_cases H :=
    repeat match type of H with
         | context [match getobj ?s ?i with _ => _ end] => destruct (getobj s i) eqn:?; try discriminate
         | context [match nth_error (objs ?l) ?i with _ => _ end] => destruct (nth_error (objs l) i) as [[?|]|] eqn:?; try discriminate
         | context [match nth_error (cregs ?l) ?i with _ => _ end] => destruct (nth_error (cregs l) i) eqn:?; try discriminate
         | context [match opending ?x with _ => _ end] => destruct (opending x) eqn:?
         | context [if has_node ?n ?l then _ else _] => destruct (has_node n l) eqn:?; try discriminate
         | context [if Nat.eqb ?a ?b && ?c then _ else _] => destruct (Nat.eqb a b && c) eqn:?
         | context [if Nat.eqb ?a ?b then _ else _] => destruct (Nat.eqb_spec a b); try subst
         | context [copy_at ?a ?b ?c ?d ?n ?x] => destruct (copy_at a b c d n x) eqn:?
         | context [clone_lst ?n ?l] => destruct (clone_lst n l) eqn:?
         end.

  (* independence: a command never changes an object it does not target — in particular later
     changes to a copy never affect its source and vice versa *)
  Theorem frame st c st' o' :
    step st c = Some st' -> ~ In o' (targets c) -> getobj st' o' = getobj st o'.
  Proof.
    intros H Hn. unfold getobj. replace (nth_error (objs st') o') with (nth_error (objs st) o'); [reflexivity|].
    destruct c; simpl in H, Hn; step_cases H.
    all: try (inversion H; subst; clear H).
    all: cbn [objs putobj setnext clog]; rewrite ?objs_fold_dispatch, ?objs_do_dispatch; cbn [objs putobj setnext clog].
    all: rewrite ?nth_error_oset.
    all: repeat match goal with |- context [Nat.eqb ?a ?b] => destruct (Nat.eqb_spec a b); [exfalso; apply Hn; subst; simpl; auto|] end.
    all: try reflexivity.
  Qed.

  (* cloning keeps the callbacks, in order, and gives out exactly the identities nxt .. result - 1 *)
  Lemma renum_spec nxt l :
    map snd (fst (renum nxt l)) = map snd l /\ nxt <= snd (renum nxt l) /\
    (forall m, In m (map fst (fst (renum nxt l))) -> nxt <= m < snd (renum nxt l)).
  Proof.
    revert nxt; induction l as [|nc t IH]; intros nxt; simpl; [split; [reflexivity|split; [lia|intros m []]]|].
    destruct (renum (S nxt) t) as [t' n'] eqn:E. specialize (IH (S nxt)). rewrite E in IH. simpl in *.
    destruct IH as (A & B & C). split; [f_equal; exact A|split; [lia|]].
    intros m [<-|Hm]; [lia|]. specialize (C m Hm). lia.
  Qed.

  Lemma clone_spec nxt l :
    cbs_of (fst (clone_lst nxt l)) = cbs_of l /\ nxt <= snd (clone_lst nxt l) /\
    (forall m, In m (lnodes (fst (clone_lst nxt l))) -> nxt <= m < snd (clone_lst nxt l)).
  Proof.
    revert nxt; induction l as [|[k ns] t IH]; intros nxt; simpl; [split; [reflexivity|split; [lia|intros m []]]|].
    destruct (renum_spec nxt ns) as (A1 & B1 & C1).
    destruct (renum nxt ns) as [ns' n1] eqn:E1. simpl in *.
    specialize (IH n1). destruct (clone_lst n1 t) as [t' n2] eqn:E2. simpl in *.
    destruct IH as (A & B & C). split; [|split].
    - unfold cbs_of in *. simpl. rewrite A1, A. reflexivity.
    - lia.
    - intros m Hm. unfold lnodes in Hm. simpl in Hm. apply in_app_or in Hm. destruct Hm as [Hm|Hm].
      + specialize (C1 m Hm). lia.
      + specialize (C m Hm). lia.
  Qed.

  (* a copy has the listeners and filters of its source, in the same order, and no pending events; its nodes
     are new ones (identities from the counter at the time of the copy on) *)
  Theorem copy_same_content st s d x st' :
    getobj st s = Some x -> step st (CCopyCtor s d) = Some st' ->
    exists y, getobj st' d = Some y /\ cbs_of (olst y) = cbs_of (olst x) /\ ofilters y = ofilters x /\ opending y = [] /\
              getobj st' s = getobj st s /\
              (forall m, In m (lnodes (olst y)) -> cnext st <= m < cnext st') /\ cnext st <= cnext st'.
  Proof.
    intros Hx H. simpl in H. rewrite Hx in H.
    destruct (nth_error (objs st) d) as [[?|]|] eqn:Ed; try discriminate.
    unfold copy_at in H. destruct (clone_spec (cnext st) (olst x)) as (A & B & C).
    destruct (clone_lst (cnext st) (olst x)) as [l n] eqn:E. simpl in *. inversion H; subst. clear H.
    assert (Hne : s <> d). { intro E'; subst. unfold getobj in Hx. rewrite Ed in Hx. discriminate. }
    eexists. split; [|split; [|split; [|split; [|split; [|split]]]]].
    - rewrite getobj_setnext. unfold getobj, putobj; simpl. rewrite nth_error_oset, Nat.eqb_refl.
      assert (d < length (objs st)) by (apply nth_error_Some; rewrite Ed; discriminate).
      destruct (Nat.ltb_spec d (length (objs st))); [reflexivity|lia].
    - exact A.
    - reflexivity.
    - reflexivity.
    - rewrite getobj_setnext. apply getobj_putobj_other. exact Hne.
    - exact C.
    - exact B.
  Qed.

  (* a move transfers the listeners and filters; the source stays a valid queue without listeners *)
  Theorem move_transfers st s d x st' :
    getobj st s = Some x -> step st (CMoveCtor s d) = Some st' ->
    exists y z, getobj st' d = Some y /\ olst y = olst x /\ ofilters y = ofilters x /\ opending y = [] /\
                getobj st' s = Some z /\ olst z = [] /\ ofilters z = [] /\ opending z = opending x.
  Proof.
    intros Hx H. simpl in H. rewrite Hx in H.
    destruct (nth_error (objs st) d) as [[?|]|] eqn:Ed; try discriminate. inversion H; subst. clear H.
    assert (Hne : s <> d). { intro E; subst. unfold getobj in Hx. rewrite Ed in Hx. discriminate. }
    exists (moved_into mi ms j1 j2 x), (moved_from x). repeat split; auto.
    - rewrite getobj_putobj_other by (intro E; apply Hne; auto).
      unfold getobj, putobj; simpl. rewrite nth_error_oset, Nat.eqb_refl.
      assert (d < length (objs st)) by (apply nth_error_Some; rewrite Ed; discriminate).
      destruct (Nat.ltb_spec d (length (objs st))); [reflexivity|lia].
    - apply (getobj_putobj_same _ s _ x). rewrite getobj_putobj_other by exact Hne. exact Hx.
  Qed.

  (* swap exchanges the listeners and filters of two queues; self-swap and self-assignment change nothing *)
  Theorem swap_exchanges st a b x y st' :
    a <> b -> getobj st a = Some x -> getobj st b = Some y -> step st (CSwap a b) = Some st' ->
    exists x' y', getobj st' a = Some x' /\ getobj st' b = Some y' /\
                  olst x' = olst y /\ ofilters x' = ofilters y /\ olst y' = olst x /\ ofilters y' = ofilters x /\
                  opending x' = opending x /\ opending y' = opending y.
  Proof.
    intros Hne Ha Hb H. simpl in H. rewrite Ha, Hb in H.
    destruct (Nat.eqb_spec a b); [contradiction|]. inversion H; subst. clear H.
    eexists. eexists. split; [|split].
    - rewrite getobj_putobj_other by exact Hne. apply (getobj_putobj_same _ a _ x Ha).
    - apply (getobj_putobj_same _ b _ y). rewrite getobj_putobj_other by (intro E; apply Hne; auto). exact Hb.
    - simpl. repeat split; reflexivity.
  Qed.

  Theorem self_swap_and_self_assign_change_nothing st a x :
    asafe = true ->
    getobj st a = Some x ->
    (exists st', step st (CSwap a a) = Some st' /\ getobj st' a = Some x /\ ctrace st' = ctrace st /\
                 cnext st' = cnext st /\ cregs st' = cregs st) /\
    step st (CCopyAssign a a) = Some st /\
    step st (CMoveAssign a a) = Some st.
  Proof.
    intros Hs Ha. destruct x as [l f p e n]. split; [|split].
    - simpl. rewrite Ha, Nat.eqb_refl. simpl. eexists. split; [reflexivity|]. split; [|repeat split].
      apply (getobj_putobj_same _ a _ (mkObj l f p e n)).
      apply (getobj_putobj_same _ a _ _ Ha).
    - simpl. rewrite Ha, Nat.eqb_refl, Hs. reflexivity.
    - simpl. rewrite Nat.eqb_refl, Ha. reflexivity.
  Qed.

  (* ---- node identities: every node and every handle register is below the counter ---- *)
  Definition Bounded (st : cstate) : Prop :=
    (forall o x, getobj st o = Some x -> forall m, In m (lnodes (olst x)) -> m < cnext st) /\
    (forall m, In m (cregs st) -> m < cnext st).

  Lemma getobj_putobj_inv st o x o' x' :
    getobj (putobj st o x) o' = Some x' -> (o' = o /\ x = Some x') \/ (o' <> o /\ getobj st o' = Some x').
  Proof.
    unfold getobj, putobj; simpl. rewrite nth_error_oset. destruct (Nat.eqb_spec o' o) as [->|Hne].
    - destruct (o <? length (objs st)); [|discriminate]. destruct x; [|discriminate]. intros H; left; split; [reflexivity|exact H].
    - intros H; right; split; assumption.
  Qed.

  Lemma klist_nodes x k m : In m (map fst (klist x k)) -> In m (lnodes (olst x)).
  Proof.
    unfold klist, lnodes. induction (olst x) as [|[k' v] t IH]; simpl; [intros []|].
    destruct (Nat.eqb k k'); intros H; apply in_or_app; [left; exact H|right; apply IH; exact H].
  Qed.

  Lemma aput_nodes k v l m : In m (lnodes (aput k v l)) -> In m (map fst v) \/ In m (lnodes l).
  Proof.
    unfold lnodes. induction l as [|[k' v'] t IH]; simpl.
    - rewrite app_nil_r. intros H; left; exact H.
    - destruct (Nat.eqb k k'); simpl; intros H; apply in_app_or in H; destruct H as [H|H].
      + left; exact H.
      + right; apply in_or_app; right; exact H.
      + right; apply in_or_app; left; exact H.
      + destruct (IH H) as [H1|H1]; [left; exact H1|right; apply in_or_app; right; exact H1].
  Qed.

  Lemma drop_nodes n l m : In m (map fst (drop_node n l)) -> In m (map fst l).
  Proof.
    unfold drop_node. induction l as [|nc t IH]; simpl; [intros []|].
    destruct (negb (fst nc =? n)); simpl; intros H; [destruct H as [H|H]; [left; exact H|right; apply IH; exact H]|right; apply IH; exact H].
  Qed.

  Lemma cnext_fold_clog {A} (f : A -> cev) (l : list A) st :
    cnext (fold_left (fun s c => clog s (f c)) l st) = cnext st /\ cregs (fold_left (fun s c => clog s (f c)) l st) = cregs st.
  Proof. revert st; induction l as [|x t IH]; intros st; simpl; [split; reflexivity|]. destruct (IH (clog st (f x))) as [E1 E2]. rewrite E1, E2. split; reflexivity. Qed.
  Lemma cnext_run_filters st o fs a :
    cnext (fst (run_filters st o fs a)) = cnext st /\ cregs (fst (run_filters st o fs a)) = cregs st.
  Proof.
    revert st; induction fs as [|[c v] t IH]; intros st; simpl; [split; reflexivity|].
    destruct v; [destruct (IH (clog st (CFilter o c a))) as [A B]; rewrite A, B|]; split; reflexivity.
  Qed.
  Lemma cnext_do_dispatch st o x k a :
    cnext (do_dispatch st o x k a) = cnext st /\ cregs (do_dispatch st o x k a) = cregs st.
  Proof.
    unfold do_dispatch. destruct (run_filters st o (ofilters x) a) as [st1 pass] eqn:E.
    assert (H : cnext st1 = cnext st /\ cregs st1 = cregs st) by (generalize (cnext_run_filters st o (ofilters x) a); rewrite E; auto).
    destruct pass; [|exact H]. destruct (cnext_fold_clog (fun c => CCall o c k a) (map snd (klist x k)) st1) as [A B].
    rewrite A, B. exact H.
  Qed.
  Lemma cnext_fold_dispatch o x (evs : list (nat * Z)) st :
    cnext (fold_left (fun s e => do_dispatch s o x (fst e) (snd e)) evs st) = cnext st /\
    cregs (fold_left (fun s e => do_dispatch s o x (fst e) (snd e)) evs st) = cregs st.
  Proof.
    revert st; induction evs as [|e t IH]; intros st; simpl; [split; reflexivity|].
    destruct (IH (do_dispatch st o x (fst e) (snd e))) as [A B]. rewrite A, B. apply cnext_do_dispatch.
  Qed.

  Lemma bounded_mono st st' :
    Bounded st -> cnext st <= cnext st' -> cregs st' = cregs st ->
    (forall o x, getobj st' o = Some x -> (exists x0, getobj st o = Some x0 /\ (forall m, In m (lnodes (olst x)) -> In m (lnodes (olst x0))))
                                          \/ (forall m, In m (lnodes (olst x)) -> m < cnext st')) ->
    Bounded st'.
  Proof.
    intros [B1 B2] Hle Hr Hall. split.
    - intros o x Hx m Hm. destruct (Hall o x Hx) as [(x0 & Hx0 & Hsub)|Hf]; [|exact (Hf m Hm)].
      specialize (B1 o x0 Hx0 m (Hsub m Hm)). lia.
    - intros m Hm. rewrite Hr in Hm. specialize (B2 m Hm). lia.
  Qed.

  Lemma bounded_putobj st o x :
    Bounded st -> (forall y, x = Some y -> forall m, In m (lnodes (olst y)) -> m < cnext st) -> Bounded (putobj st o x).
  Proof.
    intros [B1 B2] Hx. split; [|exact B2].
    intros o' x' Hx' m Hm. apply getobj_putobj_inv in Hx'. destruct Hx' as [[-> Hx']|[_ Hx']].
    - exact (Hx x' Hx' m Hm).
    - exact (B1 _ _ Hx' m Hm).
  Qed.
  Lemma bounded_same st st' :
    Bounded st -> objs st' = objs st -> cnext st' = cnext st -> cregs st' = cregs st -> Bounded st'.
  Proof. intros [B1 B2] Ho Hn Hr. unfold Bounded, getobj. rewrite Ho, Hn, Hr. split; assumption. Qed.
  Lemma bounded_setnext st n : Bounded st -> cnext st <= n -> Bounded (setnext st n).
  Proof.
    intros [B1 B2] Hle. split.
    - intros o x Hx m Hm. specialize (B1 o x Hx m Hm). simpl. lia.
    - intros m Hm. specialize (B2 m Hm). simpl. lia.
  Qed.

  Ltac useB1 := cbn [olst] in *; match goal with B : forall o x, getobj _ o = Some x -> _, H : getobj _ _ = Some ?x, Hm : In _ (lnodes (olst ?x)) |- _ => exact (B _ _ H _ Hm) end.
  Ltac useB1lia := cbn [olst] in *; match goal with B : forall o x, getobj _ o = Some x -> _, H : getobj _ _ = Some ?x, Hm : In _ (lnodes (olst ?x)) |- _ => specialize (B _ _ H _ Hm); lia end.
  Theorem bounded_step st c st' : Bounded st -> step st c = Some st' -> Bounded st'.
  Proof.
    intros HB H. pose proof HB as [B1 B2].
    destruct c; simpl in H; step_cases H; try (inversion H; subst; clear H); try exact HB.
    - (* append *)
      split.
      + intros o' x' Hx' m Hm. cbn [cnext].
        change (getobj (putobj st o (Some (with_lst c0 (aput k (klist c0 k ++ [(cnext st, c)]) (olst c0))))) o' = Some x') in Hx'.
        apply getobj_putobj_inv in Hx'. destruct Hx' as [[-> Hx']|[_ Hx']].
        * inversion Hx'; subst. simpl in Hm. apply aput_nodes in Hm. destruct Hm as [Hm|Hm].
          -- rewrite map_app in Hm. apply in_app_or in Hm. destruct Hm as [Hm|Hm]; [|simpl in Hm; destruct Hm as [<-|[]]; lia].
             apply klist_nodes in Hm. useB1lia.
          -- useB1lia.
        * specialize (B1 _ _ Hx' m Hm). lia.
      + intros m Hm. cbn [cnext cregs] in *. apply in_app_or in Hm. destruct Hm as [Hm|[<-|[]]]; [specialize (B2 m Hm)|]; lia.
    - (* remove *)
      apply (bounded_same (putobj st o (Some (with_lst c (aput k (drop_node n (klist c k)) (olst c)))))); try reflexivity.
      apply bounded_putobj; [exact HB|]. intros y Hy m Hm. inversion Hy; subst. simpl in Hm. apply aput_nodes in Hm.
      destruct Hm as [Hm|Hm]; [apply drop_nodes in Hm; apply klist_nodes in Hm|]; useB1.
    - apply bounded_putobj; [exact HB|]. intros y Hy m Hm. inversion Hy; subst. useB1.
    - apply bounded_putobj; [exact HB|]. intros y Hy m Hm. inversion Hy; subst. useB1.
    - (* process *)
      match goal with |- Bounded (clog ?X _) => apply (bounded_same (putobj st o (Some (mkObj (olst c) (ofilters c) [] (oecnt c) (oncnt c)))));
         [|change (objs X = objs (putobj st o (Some (mkObj (olst c) (ofilters c) [] (oecnt c) (oncnt c)))))
          |change (cnext X = cnext st)|change (cregs X = cregs st)] end.
      + apply bounded_putobj; [exact HB|]. intros y Hy m Hm. inversion Hy; subst. useB1.
      + rewrite objs_fold_dispatch, objs_do_dispatch. reflexivity.
      + destruct (cnext_fold_dispatch o c l (do_dispatch (putobj st o (Some (mkObj (olst c) (ofilters c) [] (oecnt c) (oncnt c)))) o c (fst p) (snd p))) as [E1 _].
        rewrite E1. rewrite (proj1 (cnext_do_dispatch _ _ _ _ _)). reflexivity.
      + destruct (cnext_fold_dispatch o c l (do_dispatch (putobj st o (Some (mkObj (olst c) (ofilters c) [] (oecnt c) (oncnt c)))) o c (fst p) (snd p))) as [_ E2].
        rewrite E2. rewrite (proj2 (cnext_do_dispatch _ _ _ _ _)). reflexivity.
    - apply (bounded_same st); [exact HB|apply objs_do_dispatch|apply (proj1 (cnext_do_dispatch _ _ _ _ _))|apply (proj2 (cnext_do_dispatch _ _ _ _ _))].
    - apply bounded_putobj; [exact HB|]. intros y Hy m Hm. inversion Hy; subst. useB1.
    - apply bounded_putobj; [exact HB|]. intros y Hy m Hm. inversion Hy; subst. useB1.
    - apply bounded_putobj; [exact HB|]. intros y Hy m Hm. inversion Hy; subst. useB1.
    - apply bounded_putobj; [exact HB|]. intros y Hy m Hm. inversion Hy; subst. useB1.
    - apply bounded_putobj; [exact HB|]. intros y Hy m Hm. inversion Hy; subst. destruct Hm.
    - (* copy constructor *)
      unfold copy_at in *. destruct (clone_spec (cnext st) (olst c)) as (A0 & B0 & C0).
      destruct (clone_lst (cnext st) (olst c)) as [l' n'] eqn:E. simpl in *.
      match goal with H : (_, _) = (_, _) |- _ => inversion H; subst; clear H end.
      change (Bounded (putobj (setnext st n) d (Some (with_lst (copy_of ci cs j1 j2 c) l')))).
      apply bounded_putobj; [apply bounded_setnext; assumption|].
      intros y Hy m Hm. inversion Hy; subst. simpl in *. apply C0. exact Hm.
    - (* move constructor *)
      apply bounded_putobj; [apply bounded_putobj; [exact HB|]|]; intros y Hy m Hm; inversion Hy; subst; simpl in Hm; [useB1|destruct Hm].
    - (* copy assignment *)
      destruct (clone_spec (cnext st) (olst c)) as (A0 & B0 & C0).
      match goal with H : clone_lst _ _ = _ |- _ => rewrite H in * end. simpl in *.
      match goal with |- Bounded (setnext (putobj st d ?X) n) => change (Bounded (putobj (setnext st n) d X)) end.
      apply bounded_putobj; [apply bounded_setnext; assumption|].
      intros y Hy m Hm. inversion Hy; subst. simpl in *. apply C0. exact Hm.
    - (* move assignment *)
      apply bounded_putobj; [apply bounded_putobj; [exact HB|]|]; intros y Hy m Hm; inversion Hy; subst; simpl in Hm; [useB1|destruct Hm].
    - (* self swap *)
      apply bounded_putobj; [apply bounded_putobj; [exact HB|]|]; intros y Hy m Hm; inversion Hy; subst; simpl in Hm; useB1.
    - (* swap *)
      apply bounded_putobj; [apply bounded_putobj; [exact HB|]|]; intros y Hy m Hm; inversion Hy; subst; simpl in Hm;
        [useB1|useB1].
    - (* destroy *)
      apply bounded_putobj; [exact HB|]. intros y Hy. discriminate.
  Qed.
End Facts.



(* nothing depends on what the storage held: with constructors that initialise the counters the
   whole run is the same function of the program for every previous content *)
Theorem junk_independent (cs ms asafe : bool) (a b a' b' : Z) n prog :
  c_run_case true cs true ms a b asafe n prog = c_run_case true cs true ms a' b' asafe n prog.
Proof.
  unfold c_run_case. generalize (cinit n). induction prog as [|c r IH]; intros st; simpl; [reflexivity|].
  assert (E : cstep true cs true ms a b asafe st c = cstep true cs true ms a' b' asafe st c) by (destruct c; reflexivity).
  rewrite E. destruct (cstep true cs true ms a' b' asafe st c); [apply IH|reflexivity].
Qed.

(* every reachable state has its node identities and handle registers below the counter *)
Theorem bounded_reachable ci cs mi ms j1 j2 asafe n prog st :
  crun ci cs mi ms j1 j2 asafe (cinit n) prog = Some st -> Bounded st.
Proof.
  assert (B0 : Bounded (cinit n)).
  { split; [|intros m []]. intros o x Hx m Hm. unfold getobj, cinit in Hx. simpl in Hx.
    destruct o as [|o]; simpl in Hx.
    - inversion Hx; subst. destruct Hm.
    - destruct (nth_error (repeat None (pred n)) o) as [[y|]|] eqn:E; try discriminate.
      apply nth_error_In in E. apply repeat_spec in E. discriminate. }
  revert B0. generalize (cinit n). induction prog as [|c r IH]; intros st0 B0 H; simpl in H.
  - inversion H; subst. exact B0.
  - destruct (cstep ci cs mi ms j1 j2 asafe st0 c) as [st1|] eqn:E; [|discriminate].
    apply (IH st1); [|exact H]. exact (bounded_step ci cs mi ms j1 j2 asafe st0 c st1 B0 E).
Qed.

(* INDEPENDENCE AT THE LEVEL OF HANDLES: in a state whose identities are below the counter (every reachable one), the
   object a copy constructor builds owns no node that any object had before, and no handle register refers to one of
   its nodes: ownsHandle on the copy answers false for every handle taken so far, whatever the key *)
Theorem copy_owns_no_earlier_handle ci cs mi ms j1 j2 asafe st s d st' :
  Bounded st -> cstep ci cs mi ms j1 j2 asafe st (CCopyCtor s d) = Some st' ->
  exists y, getobj st' d = Some y /\
    (forall o x m, getobj st o = Some x -> In m (lnodes (olst x)) -> ~ In m (lnodes (olst y))) /\
    (forall k h n, nth_error (cregs st') h = Some n -> has_node n (klist y k) = false).
Proof.
  intros [B1 B2] H. destruct (getobj st s) as [x|] eqn:Hx; [|simpl in H; rewrite Hx in H; discriminate].
  destruct (copy_same_content ci cs mi ms j1 j2 asafe st s d x st' Hx H) as (y & Hy & _ & _ & _ & _ & Hfresh & _).
  exists y. split; [exact Hy|]. split.
  - intros o x0 m Hx0 Hm Hin. specialize (B1 o x0 Hx0 m Hm). specialize (Hfresh m Hin). lia.
  - intros k h n Hn.
    assert (Hr : cregs st' = cregs st).
    { simpl in H. rewrite Hx in H. destruct (nth_error (objs st) d) as [[?|]|]; try discriminate.
      destruct (copy_at ci cs j1 j2 (cnext st) x). inversion H; subst. reflexivity. }
    rewrite Hr in Hn. apply nth_error_In in Hn. specialize (B2 n Hn).
    destruct (has_node n (klist y k)) eqn:E; [|reflexivity]. exfalso.
    unfold has_node in E. apply existsb_exists in E. destruct E as ([n' c'] & Hin & Heq). simpl in Heq.
    apply Nat.eqb_eq in Heq. subst n'.
    assert (In n (lnodes (olst y))). { apply (klist_nodes y k). apply (in_map fst) in Hin. exact Hin. }
    specialize (Hfresh n H0). lia.
Qed.

(* a move constructor hands the nodes over: the target answers ownsHandle exactly as the source did *)
Theorem move_hands_over_the_handles ci cs mi ms j1 j2 asafe st s d x st' :
  getobj st s = Some x -> cstep ci cs mi ms j1 j2 asafe st (CMoveCtor s d) = Some st' ->
  exists y z, getobj st' d = Some y /\ getobj st' s = Some z /\ cregs st' = cregs st /\
    (forall k n, has_node n (klist y k) = has_node n (klist x k)) /\ (forall k n, has_node n (klist z k) = false).
Proof.
  intros Hx H. destruct (move_transfers ci cs mi ms j1 j2 asafe st s d x st' Hx H) as (y & z & Hy & Ly & _ & _ & Hz & Lz & _ & _).
  exists y, z. split; [exact Hy|]. split; [exact Hz|]. split.
  - simpl in H. rewrite Hx in H. destruct (nth_error (objs st) d) as [[?|]|]; try discriminate. inversion H; subst. reflexivity.
  - split; intros k n; unfold klist; [rewrite Ly; reflexivity|rewrite Lz; reflexivity].
Qed.

(* a queue obtained by copy or move construction behaves like a fresh one WHATEVER is in flight
   on its source (any counter values there): it reports empty until something is enqueued into
   it, and then waiting/notification sees the event *)
Theorem constructed_queue_is_fresh (a b : Z) (nxt : nat) (x : cobj) :
  let y := fst (copy_at true false a b nxt x) in
  let z := moved_into true false a b x in
  GenQ.empty_queue (is_nil (opending y)) (oecnt y) = true /\
  GenQ.empty_queue (is_nil (opending z)) (oecnt z) = true /\
  (forall e, GenQ.can_process (is_nil (opending y ++ [e])) (oecnt y) (oncnt y) = true) /\
  (forall e, GenQ.can_process (is_nil (opending z ++ [e])) (oecnt z) (oncnt z) = true).
Proof. unfold copy_at. destruct (clone_lst nxt (olst x)). simpl. repeat split; reflexivity. Qed.

(* a copy assignment written as copy-and-swap without a self test makes every handle stale when an object is assigned
   to itself (the shape tie A reports as `false`; seeded change C10c) *)
Theorem unsafe_self_assignment_refuted :
  c_run_case true false true false 0 0 false 2 [CAppend 0 1 5; COwns 0 1 0; CCopyAssign 0 0; COwns 0 1 0] = Some [CRet true; CRet false] /\
  c_run_case true false true false 0 0 true 2 [CAppend 0 1 5; COwns 0 1 0; CCopyAssign 0 0; COwns 0 1 0] = Some [CRet true; CRet true].
Proof. split; vm_compute; reflexivity. Qed.

(* regression witness for the repaired defect (0cf92d0): constructors that leave the counters
   to the storage's previous content make a never-used queue report non-empty *)
Theorem uninitialised_counters_refuted :
  exists junk x, GenQ.empty_queue (is_nil (opending (copy_of false false junk junk x))) (oecnt (copy_of false false junk junk x)) = false.
Proof. exists (-1414812757)%Z, fresh_obj. reflexivity. Qed.

(* a copy constructor that takes the counters over from its source is wrong as well: a copy made
   while a DisableQueueNotify is alive on the source never announces its own events, a copy made
   while the source is processing never reports empty *)
Theorem counters_copied_from_source_refuted :
  exists x, (forall e, GenQ.can_process (is_nil (opending (copy_of true true 0 0 x) ++ [e])) (oecnt (copy_of true true 0 0 x)) (oncnt (copy_of true true 0 0 x)) = false) /\
            exists x', GenQ.empty_queue (is_nil (opending (copy_of true true 0 0 x'))) (oecnt (copy_of true true 0 0 x')) = false.
Proof.
  exists (mkObj [] [] [] 0 1). split; [intros e; reflexivity|].
  exists (mkObj [] [] [] 1 0). reflexivity.
Qed.
