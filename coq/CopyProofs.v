(* CopyProofs.v — copies are independent, moves transfer, swaps exchange, and nothing depends on
   what the storage held before construction (when the constructors initialise the counters). *)
From Coq Require Import List Arith NArith ZArith Bool Lia.
From EV Require Import CopyModel.
From EV.gen Require GenQ.
Import ListNotations.
Local Open Scope nat_scope.

Lemma nth_error_oset {A} (l : list A) i j x :
  nth_error (oset l i x) j = if Nat.eqb j i then (if Nat.ltb i (length l) then Some x else None) else nth_error l j.
Proof.
  revert i j; induction l as [|y t IH]; intros i j; simpl.
  - destruct j, i; simpl; try reflexivity; destruct (Nat.eqb j i); reflexivity.
  - destruct i, j; simpl; try reflexivity. rewrite IH.
    destruct (Nat.eqb j i); [|reflexivity]. change (S i <? S (length t)) with (i <? length t). reflexivity.
Qed.

Section Facts.
  Variable ci cs mi ms : bool.
  Variable j1 j2 : Z.

  Notation step := (cstep ci cs mi ms j1 j2).

  Lemma getobj_putobj_other st o o' x : o' <> o -> getobj (putobj st o x) o' = getobj st o'.
  Proof.
    intros H. unfold getobj, putobj; simpl. rewrite nth_error_oset.
    destruct (Nat.eqb_spec o' o); [contradiction|reflexivity].
  Qed.

  Lemma getobj_putobj_same st o x y : getobj st o = Some y -> getobj (putobj st o (Some x)) o = Some x.
  Proof.
    intros H. unfold getobj, putobj in *; simpl. rewrite nth_error_oset, Nat.eqb_refl.
    destruct (nth_error (objs st) o) eqn:E; [|discriminate].
    assert (o < length (objs st)) by (apply nth_error_Some; rewrite E; discriminate).
    destruct (Nat.ltb_spec o (length (objs st))); [reflexivity|lia].
  Qed.

  Lemma getobj_clog st e o : getobj (clog st e) o = getobj st o.
  Proof. reflexivity. Qed.

  Lemma getobj_fold_clog {A} (f : A -> cev) (l : list A) st o :
    getobj (fold_left (fun s c => clog s (f c)) l st) o = getobj st o.
  Proof. revert st; induction l as [|x t IH]; intros st; simpl; [reflexivity|]. rewrite IH. reflexivity. Qed.

  Lemma getobj_run_filters st o fs a o' : getobj (fst (run_filters st o fs a)) o' = getobj st o'.
  Proof.
    revert st; induction fs as [|[c v] t IH]; intros st; simpl; [reflexivity|].
    destruct v; [rewrite IH|]; reflexivity.
  Qed.

  Lemma getobj_do_dispatch st o x k a o' : getobj (do_dispatch st o x k a) o' = getobj st o'.
  Proof.
    unfold do_dispatch. destruct (run_filters st o (ofilters x) a) as [st1 pass] eqn:E.
    assert (H : getobj st1 o' = getobj st o') by (rewrite <- (getobj_run_filters st o (ofilters x) a o'), E; reflexivity).
    destruct pass; [|exact H]. rewrite getobj_fold_clog. exact H.
  Qed.

  Lemma getobj_fold_dispatch o x (evs : list (nat * Z)) st o' :
    getobj (fold_left (fun s e => do_dispatch s o x (fst e) (snd e)) evs st) o' = getobj st o'.
  Proof. revert st; induction evs as [|e t IH]; intros st; simpl; [reflexivity|]. rewrite IH. apply getobj_do_dispatch. Qed.

  (* the objects a command may change *)
  Definition targets (c : ccmd) : list nat :=
    match c with
    | CAppend o _ _ | CAddFilter o _ _ | CEnqueue o _ _ | CProcess o | CDestroy o | CGuardBegin o _ | CGuardEnd o _ => [o]
    | CDispatch _ _ _ | CEmptyQ _ | CCanProcess _ => []
    | CNew d | CCopyCtor _ d | CCopyAssign _ d => [d]
    | CMoveCtor s d | CMoveAssign s d => [s; d]
    | CSwap a b => [a; b]
    end.

  (* independence: a command never changes an object it does not target — in particular later
     changes to a copy never affect its source and vice versa *)
  Theorem frame st c st' o' :
    step st c = Some st' -> ~ In o' (targets c) -> getobj st' o' = getobj st o'.
  Proof.
    intros H Hn. destruct c; simpl in H, Hn.
    all: repeat match type of H with
         | context [match getobj ?s ?i with _ => _ end] => destruct (getobj s i) eqn:?; try discriminate
         | context [match nth_error ?l ?i with _ => _ end] => destruct (nth_error l i) as [[?|]|] eqn:?; try discriminate
         | context [match opending ?x with _ => _ end] => destruct (opending x) eqn:?
         | context [if Nat.eqb ?a ?b then _ else _] => destruct (Nat.eqb_spec a b); try subst
         end.
    all: try (inversion H; subst; clear H).
    all: rewrite ?getobj_clog, ?getobj_fold_dispatch, ?getobj_do_dispatch.
    all: repeat rewrite getobj_putobj_other by (intro X; apply Hn; subst; simpl; auto).
    all: try reflexivity.
  Qed.

  (* a copy has the listeners and filters of its source, in the same order, and no pending events *)
  Theorem copy_same_content st s d x st' :
    getobj st s = Some x -> step st (CCopyCtor s d) = Some st' ->
    exists y, getobj st' d = Some y /\ olst y = olst x /\ ofilters y = ofilters x /\ opending y = [] /\
              getobj st' s = getobj st s.
  Proof.
    intros Hx H. simpl in H. rewrite Hx in H.
    destruct (nth_error (objs st) d) as [[?|]|] eqn:Ed; try discriminate. inversion H; subst. clear H.
    assert (Hne : s <> d). { intro E; subst. unfold getobj in Hx. rewrite Ed in Hx. discriminate. }
    exists (copy_of ci cs j1 j2 x). repeat split; auto.
    - unfold getobj, putobj; simpl. rewrite nth_error_oset, Nat.eqb_refl.
      assert (d < length (objs st)) by (apply nth_error_Some; rewrite Ed; discriminate).
      destruct (Nat.ltb_spec d (length (objs st))); [reflexivity|lia].
    - apply getobj_putobj_other. exact Hne.
  Qed.

  (* a move transfers the listeners and filters; the source stays a valid queue without listeners *)
  Theorem move_transfers st s d x st' :
    getobj st s = Some x -> step st (CMoveCtor s d) = Some st' ->
    exists y z, getobj st' d = Some y /\ olst y = olst x /\ ofilters y = ofilters x /\ opending y = [] /\
                getobj st' s = Some z /\ olst z = [] /\ ofilters z = [] /\ opending z = opending x.
  Proof.
    intros Hx H. simpl in H. rewrite Hx in H.
    destruct (nth_error (objs st) d) as [[?|]|] eqn:Ed; try discriminate. inversion H; subst. clear H.
    assert (Hne : s <> d). { intro E; subst. unfold getobj in Hx. rewrite Ed in Hx. discriminate. }
    exists (moved_into mi ms j1 j2 x), (moved_from x). repeat split; auto.
    - rewrite getobj_putobj_other by (intro E; apply Hne; auto).
      unfold getobj, putobj; simpl. rewrite nth_error_oset, Nat.eqb_refl.
      assert (d < length (objs st)) by (apply nth_error_Some; rewrite Ed; discriminate).
      destruct (Nat.ltb_spec d (length (objs st))); [reflexivity|lia].
    - apply (getobj_putobj_same _ s _ x). rewrite getobj_putobj_other by exact Hne. exact Hx.
  Qed.

  (* swap exchanges the listeners and filters of two queues; self-swap and self-assignment change nothing *)
  Theorem swap_exchanges st a b x y st' :
    a <> b -> getobj st a = Some x -> getobj st b = Some y -> step st (CSwap a b) = Some st' ->
    exists x' y', getobj st' a = Some x' /\ getobj st' b = Some y' /\
                  olst x' = olst y /\ ofilters x' = ofilters y /\ olst y' = olst x /\ ofilters y' = ofilters x /\
                  opending x' = opending x /\ opending y' = opending y.
  Proof.
    intros Hne Ha Hb H. simpl in H. rewrite Ha, Hb in H.
    destruct (Nat.eqb_spec a b); [contradiction|]. inversion H; subst. clear H.
    eexists. eexists. split; [|split].
    - rewrite getobj_putobj_other by exact Hne. apply (getobj_putobj_same _ a _ x Ha).
    - apply (getobj_putobj_same _ b _ y). rewrite getobj_putobj_other by (intro E; apply Hne; auto). exact Hb.
    - simpl. repeat split; reflexivity.
  Qed.

  Theorem self_swap_and_self_assign_change_nothing st a x :
    getobj st a = Some x ->
    (exists st', step st (CSwap a a) = Some st' /\ getobj st' a = Some x /\ ctrace st' = ctrace st) /\
    (exists st', step st (CCopyAssign a a) = Some st' /\ getobj st' a = Some x /\ ctrace st' = ctrace st) /\
    step st (CMoveAssign a a) = Some st.
  Proof.
    intros Ha. destruct x as [l f p e n]. split; [|split].
    - simpl. rewrite Ha, Nat.eqb_refl. simpl. eexists. split; [reflexivity|]. split; [|reflexivity].
      apply (getobj_putobj_same _ a _ (mkObj l f p e n)).
      apply (getobj_putobj_same _ a _ _ Ha).
    - simpl. rewrite Ha. simpl. eexists. split; [reflexivity|]. split; [|reflexivity].
      apply (getobj_putobj_same _ a _ _ Ha).
    - simpl. rewrite Nat.eqb_refl, Ha. reflexivity.
  Qed.
End Facts.

(* nothing depends on what the storage held: with constructors that initialise the counters the
   whole run is the same function of the program for every previous content *)
Theorem junk_independent (cs ms : bool) (a b a' b' : Z) n prog :
  c_run_case true cs true ms a b n prog = c_run_case true cs true ms a' b' n prog.
Proof.
  unfold c_run_case. generalize (cinit n). induction prog as [|c r IH]; intros st; simpl; [reflexivity|].
  assert (E : cstep true cs true ms a b st c = cstep true cs true ms a' b' st c) by (destruct c; reflexivity).
  rewrite E. destruct (cstep true cs true ms a' b' st c); [apply IH|reflexivity].
Qed.

(* a queue obtained by copy or move construction behaves like a fresh one WHATEVER is in flight
   on its source (any counter values there): it reports empty until something is enqueued into
   it, and then waiting/notification sees the event *)
Theorem constructed_queue_is_fresh (a b : Z) (x : cobj) :
  let y := copy_of true false a b x in
  let z := moved_into true false a b x in
  GenQ.empty_queue (is_nil (opending y)) (oecnt y) = true /\
  GenQ.empty_queue (is_nil (opending z)) (oecnt z) = true /\
  (forall e, GenQ.can_process (is_nil (opending y ++ [e])) (oecnt y) (oncnt y) = true) /\
  (forall e, GenQ.can_process (is_nil (opending z ++ [e])) (oecnt z) (oncnt z) = true).
Proof. simpl. repeat split; reflexivity. Qed.

(* regression witness for the repaired defect (0cf92d0): constructors that leave the counters
   to the storage's previous content make a never-used queue report non-empty *)
Theorem uninitialised_counters_refuted :
  exists junk x, GenQ.empty_queue (is_nil (opending (copy_of false false junk junk x))) (oecnt (copy_of false false junk junk x)) = false.
Proof. exists (-1414812757)%Z, fresh_obj. reflexivity. Qed.

(* a copy constructor that takes the counters over from its source is wrong as well: a copy made
   while a DisableQueueNotify is alive on the source never announces its own events, a copy made
   while the source is processing never reports empty *)
Theorem counters_copied_from_source_refuted :
  exists x, (forall e, GenQ.can_process (is_nil (opending (copy_of true true 0 0 x) ++ [e])) (oecnt (copy_of true true 0 0 x)) (oncnt (copy_of true true 0 0 x)) = false) /\
            exists x', GenQ.empty_queue (is_nil (opending (copy_of true true 0 0 x'))) (oecnt (copy_of true true 0 0 x')) = false.
Proof.
  exists (mkObj [] [] [] 0 1). split; [intros e; reflexivity|].
  exists (mkObj [] [] [] 1 0). reflexivity.
Qed.
