(* CLSpec.v — the abstract specification of a callback list (properties C01, C02, C10):
   a list object denotes a plain sequence of entries (entry id, callback id);
   an invocation follows the SNAPSHOT rule, which is C02's sentence read literally:
   take the entries present now, in order; call each one that is still in the list
   when its turn comes; entries added meanwhile are not in the snapshot.
   Handles of removed entries are inert.  No counters, no links, no pointers.

   Entry ids are allocated per group exactly as the pointer model allocates node
   ids, so that both interpreters keep literally the same register file.
   Definitions only; extracted as the property oracle used when a proof or the
   model/implementation correspondence breaks. *)
From Coq Require Import List Arith NArith ZArith Bool.
From EV Require Import CLModel.
Import ListNotations.
Local Open Scope nat_scope.

Record sgroup := mkSG {
  ents : list (nid * cbid);     (* current content, in list order *)
  snext : nat;                  (* entry ids handed out so far *)
  sfreed : bool
}.

Record sstate := mkSS {
  sgroups : list sgroup;
  slists : list (option gid);
  sregs : list (nat * handle);
  sacts : list (cbid * nat);
  spins : list gid;             (* groups with a running invocation *)
  strace : list ev
}.

Definition s_get_reg (st : sstate) (h : nat) : handle :=
  match lookup h (sregs st) with Some v => v | None => None end.
Definition s_get_act (st : sstate) (c : cbid) : nat :=
  match lookup c (sacts st) with Some v => v | None => 0 end.

Definition s_set_groups st gs := mkSS gs (slists st) (sregs st) (sacts st) (spins st) (strace st).
Definition s_set_lists st ls := mkSS (sgroups st) ls (sregs st) (sacts st) (spins st) (strace st).
Definition s_set_reg st h v := mkSS (sgroups st) (slists st) ((h, v) :: sregs st) (sacts st) (spins st) (strace st).
Definition s_bump_act st c := mkSS (sgroups st) (slists st) (sregs st) ((c, S (s_get_act st c)) :: sacts st) (spins st) (strace st).
Definition s_set_pins st p := mkSS (sgroups st) (slists st) (sregs st) (sacts st) p (strace st).
Definition s_log st e := mkSS (sgroups st) (slists st) (sregs st) (sacts st) (spins st) (e :: strace st).

Definition s_get_list (st : sstate) (l : lid) : option gid :=
  match nth_error (slists st) l with Some (Some g) => Some g | _ => None end.
Definition s_get_group (st : sstate) (g : gid) : option sgroup := nth_error (sgroups st) g.
Definition s_put_group st g gr := s_set_groups st (upd (sgroups st) g (fun _ => gr)).
Definition s_put_list st l (o : option gid) := s_set_lists st (upd (slists st) l (fun _ => o)).

Definition empty_sgroup := mkSG [] 0 false.

Fixpoint has_ent (e : nid) (l : list (nid * cbid)) : bool :=
  match l with [] => false | (x, _) :: t => Nat.eqb e x || has_ent e t end.

Fixpoint del_ent (e : nid) (l : list (nid * cbid)) : list (nid * cbid) :=
  match l with [] => [] | (x, c) :: t => if Nat.eqb e x then t else (x, c) :: del_ent e t end.

Fixpoint ins_before (b : nid) (new : nid * cbid) (l : list (nid * cbid)) : list (nid * cbid) :=
  match l with
  | [] => [new]
  | (x, c) :: t => if Nat.eqb b x then new :: (x, c) :: t else (x, c) :: ins_before b new t
  end.

Fixpoint first_cb (c : cbid) (l : list (nid * cbid)) : option nid :=
  match l with [] => None | (x, c') :: t => if Nat.eqb c' c then Some x else first_cb c t end.

(* what a handle means to the list that currently owns group g *)
Inductive skind := SEmpty | SLive (e : nid) | SGone | SForeign.

Definition s_classify (st : sstate) (g : gid) (gr : sgroup) (h : handle) : skind :=
  match h with
  | None => SEmpty
  | Some (g', e) =>
      if Nat.eqb g' g then
        if has_ent e (ents gr) then SLive e
        else if Nat.ltb e (snext gr) then SGone else SForeign
      else match s_get_group st g' with
           | Some gr' => if sfreed gr' then SGone else SForeign
           | None => SForeign
           end
  end.

Section SpecInterp.
  Variable behav : cbid -> nat -> list cmd.

  Definition s_add (st : sstate) (l : lid) (c : cbid) (h : nat)
             (place : nid * cbid -> list (nid * cbid) -> list (nid * cbid)) : option sstate :=
    match s_get_list st l with
    | None => None
    | Some g =>
        match s_get_group st g with
        | None => None
        | Some gr =>
            let e := snext gr in
            Some (s_set_reg (s_put_group st g (mkSG (place (e, c) (ents gr)) (S e) (sfreed gr))) h (Some (g, e)))
        end
    end.

  Definition s_remove_handle (st : sstate) (l : lid) (hv : handle) : option (sstate * bool) :=
    match s_get_list st l with
    | None => None
    | Some g =>
        match s_get_group st g with
        | None => None
        | Some gr =>
            match s_classify st g gr hv with
            | SForeign => None
            | SLive e => Some (s_put_group st g (mkSG (del_ent e (ents gr)) (snext gr) (sfreed gr)), true)
            | _ => Some (st, false)
            end
        end
    end.

  Section WithRec.
    Variable rec : sstate -> list cmd -> option sstate.

    (* the snapshot rule *)
    Fixpoint s_invoke (st : sstate) (g : gid) (todo : list (nid * cbid)) (a : Z) : option sstate :=
      match todo with
      | [] => Some st
      | (e, c) :: rest =>
          match s_get_group st g with
          | None => None
          | Some gr =>
              if has_ent e (ents gr) then
                let saved := spins st in
                let st1 := s_bump_act (s_log (s_set_pins st (g :: saved)) (ECall c a)) c in
                match rec st1 (behav c (s_get_act st1 c)) with
                | Some st2 => s_invoke (s_set_pins st2 saved) g rest a
                | None => None
                end
              else s_invoke st g rest a
          end
      end.

    Fixpoint visit_upto (st : sstate) (l : list (nid * cbid)) (acc k : nat) : sstate * bool :=
      match l with
      | [] => (st, true)
      | (_, c) :: t =>
          let st1 := s_log st (EVisit c) in
          if Nat.ltb (S acc) k then visit_upto st1 t (S acc) k else (st1, false)
      end.

    Definition s_new_list (st : sstate) (l : lid) (content : list (nid * cbid)) : option sstate :=
      match nth_error (slists st) l with
      | Some None =>
          let g := length (sgroups st) in
          Some (s_put_list (s_set_groups st (sgroups st ++ [mkSG content (length content) false])) l (Some g))
      | _ => None
      end.

    Definition renumber (l : list (nid * cbid)) : list (nid * cbid) :=
      combine (seq 0 (length l)) (map snd l).

    Definition s_content (st : sstate) (l : lid) : option (list (nid * cbid)) :=
      match s_get_list st l with
      | None => None
      | Some g => match s_get_group st g with Some gr => Some (ents gr) | None => None end
      end.

    Definition s_free_group (st : sstate) (g : gid) : option sstate :=
      if existsb (Nat.eqb g) (spins st) then None
      else match s_get_group st g with
           | Some gr => Some (s_put_group st g (mkSG [] (snext gr) true))
           | None => None
           end.

    Definition s_step (st : sstate) (c : cmd) : option sstate :=
      match c with
      | Append l c h => s_add st l c h (fun n es => es ++ [n])
      | Prepend l c h => s_add st l c h (fun n es => n :: es)
      | Insert l c hb h =>
          match s_get_list st l with
          | None => None
          | Some g =>
              match s_get_group st g with
              | None => None
              | Some gr =>
                  match s_classify st g gr (s_get_reg st hb) with
                  | SForeign => None
                  | SLive b => s_add st l c h (fun n es => ins_before b n es)
                  | _ => s_add st l c h (fun n es => es ++ [n])
                  end
              end
          end
      | Remove l h =>
          match s_remove_handle st l (s_get_reg st h) with
          | Some (st1, b) => Some (s_log st1 (ERet b))
          | None => None
          end
      | Owns l h =>
          match s_get_list st l with
          | None => None
          | Some g =>
              match s_get_group st g with
              | None => None
              | Some gr =>
                  match s_classify st g gr (s_get_reg st h) with
                  | SForeign => None
                  | SLive _ => Some (s_log st (ERet true))
                  | _ => Some (s_log st (ERet false))
                  end
              end
          end
      | Empty l =>
          match s_content st l with
          | Some es => Some (s_log st (ERet (match es with [] => true | _ => false end)))
          | None => None
          end
      | Invoke l a =>
          match s_get_list st l with
          | None => None
          | Some g =>
              match s_get_group st g with
              | None => None
              | Some gr =>
                  s_invoke st g (ents gr) a
              end
          end
      | ForEach l =>
          match s_content st l with
          | Some es => Some (fold_left (fun s e => s_log s (EVisit (snd e))) es st)
          | None => None
          end
      | ForEachIf l k =>
          match s_content st l with
          | Some es => let (st1, b) := visit_upto st es 0 k in Some (s_log st1 (ERet b))
          | None => None
          end
      | HasL l c =>
          match s_content st l with
          | Some es => Some (s_log st (ERet (match first_cb c es with Some _ => true | None => false end)))
          | None => None
          end
      | HasAny l =>
          match s_content st l with
          | Some es => Some (s_log st (ERet (match es with [] => false | _ => true end)))
          | None => None
          end
      | RemoveL l c =>
          match s_get_list st l with
          | None => None
          | Some g =>
              match s_get_group st g with
              | None => None
              | Some gr =>
                  match first_cb c (ents gr) with
                  | Some e => Some (s_log (s_put_group st g (mkSG (del_ent e (ents gr)) (snext gr) (sfreed gr))) (ERet true))
                  | None => Some (s_log st (ERet false))
                  end
              end
          end
      | New l => s_new_list st l []
      | CopyCtor src dst =>
          match s_content st src with
          | Some es => s_new_list st dst (renumber es)
          | None => None
          end
      | CopyAssign src dst =>
          if Nat.eqb src dst then (match s_get_list st src with Some _ => Some st | None => None end)
          else
            match s_content st src, s_get_list st dst with
            | Some es, Some gd =>
                let g := length (sgroups st) in
                let st1 := s_set_groups st (sgroups st ++ [mkSG (renumber es) (length es) false]) in
                match s_free_group st1 gd with
                | Some st2 => Some (s_put_list st2 dst (Some g))
                | None => None
                end
            | _, _ => None
            end
      | MoveCtor src dst =>
          match s_get_list st src with
          | None => None
          | Some gs =>
              match s_new_list st dst [] with
              | Some st1 =>
                  match s_get_list st1 dst with
                  | Some gnew => Some (s_put_list (s_put_list st1 dst (Some gs)) src (Some gnew))
                  | None => None
                  end
              | None => None
              end
          end
      | MoveAssign src dst =>
          if Nat.eqb src dst then (match s_get_list st src with Some _ => Some st | None => None end)
          else
            match s_get_list st src, s_get_list st dst with
            | Some gs, Some gd =>
                match s_free_group st gd with
                | None => None
                | Some st1 =>
                    let g := length (sgroups st1) in
                    let st2 := s_set_groups st1 (sgroups st1 ++ [empty_sgroup]) in
                    Some (s_put_list (s_put_list st2 dst (Some gs)) src (Some g))
                end
            | _, _ => None
            end
      | Swap a b =>
          match s_get_list st a, s_get_list st b with
          | Some ga, Some gb => Some (s_put_list (s_put_list st a (Some gb)) b (Some ga))
          | _, _ => None
          end
      | Destroy l =>
          match s_get_list st l with
          | None => None
          | Some g =>
              match s_free_group st g with
              | Some st1 => Some (s_put_list st1 l None)
              | None => None
              end
          end
      | SetCur l _ => match s_get_list st l with Some _ => Some st | None => None end
      | Ledger _ => Some st       (* life time is not part of this spec; see C08 *)
      end.

    Fixpoint s_seqx (st : sstate) (cs : list cmd) : option sstate :=
      match cs with
      | [] => Some st
      | c :: r => match s_step st c with Some st1 => s_seqx st1 r | None => None end
      end.
  End WithRec.

  Fixpoint s_run (fuel : nat) : sstate -> list cmd -> option sstate :=
    match fuel with
    | 0 => fun _ _ => None
    | S f => s_seqx (s_run f)
    end.

  Fixpoint s_init_lists (nl : nat) (st : sstate) : sstate :=
    match nl with
    | 0 => st
    | S k =>
        let st1 := s_init_lists k st in
        let g := length (sgroups st1) in
        mkSS (sgroups st1 ++ [empty_sgroup]) (slists st1 ++ [Some g]) [] [] [] []
    end.

  Definition s_init (nl : nat) : sstate := s_init_lists nl (mkSS [] [] [] [] [] []).

  Definition s_run_case (fuel nl : nat) (main : list cmd) : option (list ev) :=
    match s_run fuel (s_init nl) main with
    | Some st => Some (rev (strace st))
    | None => None
    end.
End SpecInterp.
