(* CLWrap.v — the overflow branch of getNextCounter (C19): when the pre-incremented counter
   wraps to the "removed" marker, every linked node's counter is rewritten to the generated
   value and the counter is drawn again.  Group-level facts: the list keeps its shape and
   content, removed nodes stay removed, no live node ever carries the removed marker, and
   every live node is visible to every invocation that captures the counter afterwards. *)
From Coq Require Import List Arith NArith ZArith Bool Lia.
From EV Require Import CLModel CLHeap CLOps.
From EV.gen Require GenCL.
Import ListNotations.
Local Open Scope nat_scope.

Definition reset_group (g : group) : group :=
  mkGroup (reset_chain (length (heap g)) (heap g) (ghead g)) (ghead g) (gtail g) (gfreed g).

Lemma rewrite_value_live nd : live (set_ctr GenCL.wrap_rewrite_value nd).
Proof. unfold live, GenCL.wrap_rewrite_value, GenCL.removed_marker; simpl. discriminate. Qed.

Lemma lchain_reset h h' p ids :
  lchain h p ids ->
  (forall j nd, In j ids -> nth_error h j = Some nd -> nth_error h' j = Some (set_ctr GenCL.wrap_rewrite_value nd)) ->
  lchain h' p ids.
Proof.
  revert p; induction ids as [|x r IH]; intros p H B; simpl in *; [exact I|].
  destruct H as [xn [Hx [Hxl [Hxp [Hxn Hr]]]]].
  exists (set_ctr GenCL.wrap_rewrite_value xn). rewrite (B x xn (or_introl eq_refl) Hx). simpl.
  split; [reflexivity|]. split; [apply rewrite_value_live|]. split; [exact Hxp|]. split; [exact Hxn|].
  apply IH; [exact Hr|]. intros j nd Hj. apply B. right; exact Hj.
Qed.

Theorem wrap_reset_inv g ids :
  GInv g ids ->
  GInv (reset_group g) ids /\
  length (heap (reset_group g)) = length (heap g) /\
  (forall j nd, In j ids -> nth_error (heap g) j = Some nd ->
                nth_error (heap (reset_group g)) j = Some (set_ctr GenCL.wrap_rewrite_value nd)) /\
  (forall j, ~ In j ids -> nth_error (heap (reset_group g)) j = nth_error (heap g) j).
Proof.
  intros G.
  assert (Hh := gi_head _ _ G).
  destruct (reset_chain_spec ids (heap g) None (length (heap g)) (gi_chain _ _ G) (gi_nodup _ _ G) (ginv_length _ _ G)) as [L [A B]].
  unfold reset_group. rewrite Hh.
  split; [|split; [exact L|split; [exact B|exact A]]].
  constructor; simpl.
  - apply (lchain_reset (heap g)); [apply (gi_chain _ _ G)|exact B].
  - reflexivity.
  - apply (gi_tail _ _ G).
  - apply (gi_nodup _ _ G).
  - (* removed nodes are not on the chain: untouched; their forward chains end where they did *)
    intros n nd' Hn Hd.
    assert (Hni : ~ In n ids).
    { intro X. destruct (ginv_in_heap _ _ G n X) as [nd0 H0]. rewrite (B n nd0 X H0) in Hn. inversion Hn; subst.
      apply Hd. apply rewrite_value_live. }
    rewrite (A n Hni) in Hn.
    destruct (gi_dead _ _ G n nd' Hn Hd) as [m [F1 F2]]. exists m. split; [|exact F2].
    clear - F1 A B G. induction F1 as [|j nd Hj Hl|j nd m Hj Hl Hw IH].
    + constructor.
    + assert (X := gi_live _ _ G j nd Hj Hl). eapply fl_live; [apply (B j nd X Hj)|apply rewrite_value_live].
    + assert (Hni : ~ In j ids).
      { intro X. destruct (lchain_in _ _ _ (gi_chain _ _ G) j X) as [nd0 [H0 H1]]. rewrite Hj in H0; inversion H0; subst; contradiction. }
      eapply fl_dead; [rewrite (A j Hni); exact Hj|exact Hl|exact IH].
  - intros n nd' Hn Hl.
    destruct (in_dec Nat.eq_dec n ids) as [X|X]; [exact X|].
    rewrite (A n X) in Hn. apply (gi_live _ _ G n nd' Hn Hl).
Qed.

(* after the branch every node of the heap has a counter that is at most the value drawn next:
   linked nodes carry the rewrite value, all others are removed *)
Theorem wrap_reset_counters g ids j nd :
  GInv g ids -> nth_error (heap (reset_group g)) j = Some nd ->
  (In j ids /\ ctr nd = GenCL.wrap_rewrite_value) \/ (~ In j ids /\ ctr nd = GenCL.removed_marker).
Proof.
  intros G Hj. destruct (wrap_reset_inv g ids G) as [G' [L [B A]]].
  destruct (in_dec Nat.eq_dec j ids) as [X|X].
  - left. split; [exact X|]. destruct (ginv_in_heap _ _ G j X) as [nd0 H0]. rewrite (B j nd0 X H0) in Hj. inversion Hj; reflexivity.
  - right. split; [exact X|]. rewrite (A j X) in Hj.
    destruct (live_dec nd) as [Hl|Hd]; [exfalso; apply X; apply (gi_live _ _ G j nd Hj Hl)|].
    unfold live in Hd. destruct (N.eq_dec (ctr nd) GenCL.removed_marker); [assumption|contradiction].
Qed.

(* the value returned by getNextCounter after the wrap: drawn again, never the removed marker,
   and not smaller than the value the linked nodes were given *)
Definition counter_after_wrap (W : N) : N :=
  let r := 0%N in if GenCL.wrap_second_draw then ((r + 1) mod W)%N else r.

Theorem wrap_second_draw_is_live (W : N) :
  (1 < W)%N -> counter_after_wrap W <> GenCL.removed_marker /\ (GenCL.wrap_rewrite_value <= counter_after_wrap W)%N.
Proof.
  intros HW. unfold counter_after_wrap, GenCL.wrap_second_draw, GenCL.removed_marker, GenCL.wrap_rewrite_value.
  rewrite N.mod_small by lia. split; [discriminate|]. simpl. lia.
Qed.

(* hence every live node is visible to an invocation that captures the counter from then on *)
Theorem post_wrap_all_visible (W : N) g ids j nd capt :
  (1 < W)%N -> GInv g ids -> nth_error (heap (reset_group g)) j = Some nd -> In j ids ->
  (counter_after_wrap W <= capt)%N ->
  GenCL.visit_cond (ctr nd) capt = true.
Proof.
  intros HW G Hj Hin Hc.
  destruct (wrap_reset_counters g ids j nd G Hj) as [[_ E]|[X _]]; [|contradiction].
  destruct (wrap_second_draw_is_live W HW) as [_ Hle].
  unfold GenCL.visit_cond. rewrite E. apply andb_true_iff. split.
  - unfold GenCL.wrap_rewrite_value, GenCL.removed_marker. reflexivity.
  - apply N.leb_le. lia.
Qed.

(* the wrap test is exactly "the pre-incremented counter is the removed marker" *)
Theorem wrap_test_iff r : GenCL.wrap_test r = true <-> r = GenCL.removed_marker.
Proof. unfold GenCL.wrap_test, GenCL.removed_marker. apply N.eqb_eq. Qed.
