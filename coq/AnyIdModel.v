(* AnyIdModel.v — C18: model of eventpp::AnyId keys (include/eventpp/utilities/anyid.h) and of the
   two map disciplines EventDispatcher uses for its keys (internal/eventpolicies_i.h SelectMap).
   Definitions only (total, computable).

   An id is (digest, value).  operator==, operator< and std::hash<AnyId> are NOT written here: they are
   the bodies regenerated from the header into gen/GenAnyId.v (tie A), applied to
     ceq a b = the result of anyid_internal_::compareEqual(a.value, b.value)
     clt a b = the result of anyid_internal_::compareLessThan(a.value, b.value).
   Two instantiations of (ceq, clt):
     value-storing Storage with == and <   :  val_ceq veq = compare_equal ∘ veq, val_clt vlt = compare_less ∘ vlt
     EmptyAnyStorage (neither == nor <)    :  empty_ceq = fallback_eq, empty_clt = fallback_lt   *)
From Coq Require Import List ZArith Bool.
From EV.gen Require GenAnyId.
Import ListNotations.
Local Open Scope Z_scope.

Section AnyId.
  Variable V : Type.

  Definition id : Type := (Z * V)%type.
  Definition dig (x : id) : Z := fst x.
  Definition val (x : id) : V := snd x.

  Section Ops.
    Variables ceq clt : V -> V -> bool.
    Definition aeq (x y : id) : bool := GenAnyId.eqb (dig x) (dig y) (ceq (val x) (val y)).
    Definition alt (x y : id) : bool := GenAnyId.ltb (dig x) (dig y) (clt (val x) (val y)).
  End Ops.
  Definition ahash (x : id) : Z := GenAnyId.hash (dig x).

  (* Storage that has operator== and operator< : compareEqual/compareLessThan forward to them *)
  Definition val_ceq (veq : V -> V -> bool) : V -> V -> bool := fun a b => GenAnyId.compare_equal (veq a b).
  Definition val_clt (vlt : V -> V -> bool) : V -> V -> bool := fun a b => GenAnyId.compare_less (vlt a b).
  (* EmptyAnyStorage : the fallback overloads *)
  Definition empty_ceq : V -> V -> bool := fun _ _ => GenAnyId.fallback_eq.
  Definition empty_clt : V -> V -> bool := fun _ _ => GenAnyId.fallback_lt.
End AnyId.

Arguments dig {V} x.
Arguments val {V} x.
Arguments aeq {V} ceq x y.
Arguments alt {V} clt x y.
Arguments ahash {V} x.
Arguments val_ceq {V} veq _ _.
Arguments val_clt {V} vlt _ _.
Arguments empty_ceq {V} _ _.
Arguments empty_clt {V} _ _.

(* ------------------------------------------------------------------------------------------ *)
(* The coherence laws of a key type (what std::map / std::unordered_map require of their
   comparator, equality and hash), as properties of boolean functions. *)

Section Laws.
  Variable K : Type.
  Variables lt eq : K -> K -> bool.
  Variable hash : K -> Z.

  Definition eq_equiv : Prop :=
    (forall a, eq a a = true) /\
    (forall a b, eq a b = true -> eq b a = true) /\
    (forall a b c, eq a b = true -> eq b c = true -> eq a c = true).

  Definition incomp (a b : K) : Prop := lt a b = false /\ lt b a = false.

  (* strict weak ordering: irreflexive, transitive, incomparability transitive *)
  Definition lt_swo : Prop :=
    (forall a, lt a a = false) /\
    (forall a b c, lt a b = true -> lt b c = true -> lt a c = true) /\
    (forall a b c, incomp a b -> incomp b c -> incomp a c).

  Definition incomp_is_eq : Prop := forall a b, incomp a b <-> eq a b = true.

  Definition hash_compat : Prop := forall a b, eq a b = true -> hash a = hash b.

  (* what the property asks of the stored values' own == and < (or of the fallbacks) *)
  Definition value_order : Prop := eq_equiv /\ lt_swo /\ incomp_is_eq.
End Laws.

Arguments eq_equiv {K} eq.
Arguments incomp {K} lt a b.
Arguments lt_swo {K} lt.
Arguments incomp_is_eq {K} lt eq.
Arguments hash_compat {K} eq hash.
Arguments value_order {K} lt eq.

(* ------------------------------------------------------------------------------------------ *)
(* The two map disciplines, over an arbitrary key type K and listener type L.
   A map binds a key to the list of listeners appended under (a key equivalent to) it, as
   EventDispatcher does with  map[key].append(listener)  and  map.find(key)->second(...).      *)

Section Maps.
  Variables K L : Type.
  Variable lt : K -> K -> bool.      (* std::less<K>      *)
  Variable eq : K -> K -> bool.      (* std::equal_to<K>  *)
  Variable hash : K -> Z.            (* std::hash<K>      *)
  Variable bidx : Z -> Z.            (* hash code -> bucket index (e.g. modulo the bucket count) *)

  (* (i) std::map : entries kept sorted by lt; a key is located by lower_bound (skip while
     entry < k) and accepted when not (k < entry) — equivalence is "neither is less". *)
  Definition smap : Type := list (K * list L).

  Fixpoint sm_find (k : K) (m : smap) : list L :=
    match m with
    | [] => []
    | (k', vs) :: t => if lt k' k then sm_find k t else if lt k k' then [] else vs
    end.

  Fixpoint sm_append (k : K) (v : L) (m : smap) : smap :=
    match m with
    | [] => [(k, [v])]
    | (k', vs) :: t =>
        if lt k' k then (k', vs) :: sm_append k v t
        else if lt k k' then (k, [v]) :: m
        else (k', vs ++ [v]) :: t
    end.

  Fixpoint sm_sorted (m : smap) : Prop :=
    match m with
    | [] => True
    | (k, _) :: t => match t with [] => True | (k2, _) :: _ => lt k k2 = true end /\ sm_sorted t
    end.

  (* (ii) std::unordered_map : a table from bucket index to a chain of entries; a key is located
     by its hash code's bucket and accepted by eq. *)
  Definition chain : Type := list (K * list L).
  Definition bmap : Type := list (Z * chain).

  Fixpoint chain_find (k : K) (b : chain) : list L :=
    match b with
    | [] => []
    | (k', vs) :: t => if eq k' k then vs else chain_find k t
    end.

  Fixpoint chain_append (k : K) (v : L) (b : chain) : chain :=
    match b with
    | [] => [(k, [v])]
    | (k', vs) :: t => if eq k' k then (k', vs ++ [v]) :: t else (k', vs) :: chain_append k v t
    end.

  Fixpoint tbl_get (i : Z) (t : bmap) : chain :=
    match t with
    | [] => []
    | (j, b) :: r => if Z.eqb i j then b else tbl_get i r
    end.

  Definition bm_find (k : K) (t : bmap) : list L := chain_find k (tbl_get (bidx (hash k)) t).
  Definition bm_append (k : K) (v : L) (t : bmap) : bmap :=
    let i := bidx (hash k) in (i, chain_append k v (tbl_get i t)) :: t.

  (* a history of appendListener calls, oldest first *)
  Definition sm_run (ops : list (K * L)) : smap := fold_left (fun m kv => sm_append (fst kv) (snd kv) m) ops [].
  Definition bm_run (ops : list (K * L)) : bmap := fold_left (fun m kv => bm_append (fst kv) (snd kv) m) ops [].

  (* the specification: the listeners appended under keys equal to k, in order *)
  Definition listeners_of (k : K) (ops : list (K * L)) : list L :=
    map snd (filter (fun kv => eq k (fst kv)) ops).
End Maps.

Arguments sm_find {K L} lt k m.
Arguments sm_append {K L} lt k v m.
Arguments sm_sorted {K L} lt m.
Arguments sm_run {K L} lt ops.
Arguments chain_find {K L} eq k b.
Arguments chain_append {K L} eq k v b.
Arguments tbl_get {K L} i t.
Arguments bm_find {K L} eq hash bidx k t.
Arguments bm_append {K L} eq hash bidx k v t.
Arguments bm_run {K L} eq hash bidx ops.
Arguments listeners_of {K L} eq k ops.

(* ------------------------------------------------------------------------------------------ *)
(* The value universe of the correspondence harness (harness/anyid.cpp): a source value is
   (type tag, n) with n >= 0; tags 0 int, 1 std::string, 2 long, 3 Name (a struct wrapping a string).
   The test Digester has a 3-bit range; the test Storage keeps (kind, n) where int and long share
   kind 0 and std::string and Name share kind 1 (ids built from different C++ types may be equal). *)

Definition salt (tag n : Z) : Z :=
  if Z.eqb tag 0 then 0
  else if Z.eqb tag 1 then 3
  else if Z.eqb tag 2 then 2 * (n mod 2)
  else 3 + 4 * (n mod 2).

Definition digest3 (tag n : Z) : Z := (n * 5 + n / 8 + salt tag n) mod 8.

Definition store (tag n : Z) : Z * Z := (tag mod 2, n).

Definition pveq (a b : Z * Z) : bool := andb (Z.eqb (fst a) (fst b)) (Z.eqb (snd a) (snd b)).
Definition pvlt (a b : Z * Z) : bool :=
  orb (Z.ltb (fst a) (fst b)) (andb (Z.eqb (fst a) (fst b)) (Z.ltb (snd a) (snd b))).

Definition hid : Type := id (Z * Z).
Definition mk_id (tag n : Z) : hid := (digest3 tag n, store tag n).

(* storing = true: AnyId<Dig3, Val>; false: AnyId<Dig3, EmptyAnyStorage> *)
Definition h_eq (storing : bool) : hid -> hid -> bool :=
  if storing then aeq (val_ceq pveq) else aeq empty_ceq.
Definition h_lt (storing : bool) : hid -> hid -> bool :=
  if storing then alt (val_clt pvlt) else alt empty_clt.
Definition h_hash : hid -> Z := ahash.

Definition h_map_lookup (storing : bool) (ops : list (hid * Z)) (k : hid) : list Z :=
  sm_find (h_lt storing) k (sm_run (h_lt storing) ops).
Definition h_umap_lookup (storing : bool) (nb : Z) (ops : list (hid * Z)) (k : hid) : list Z :=
  bm_find (h_eq storing) h_hash (fun h => h mod nb) k (bm_run (h_eq storing) h_hash (fun h => h mod nb) ops).
