(* CLDispConc.v — C03 for the dispatcher at the level of its two mutexes.

   EventDispatcher guards `eventCallbackListMap` by `listenerMutex` (L below) and every CallbackList guards its links by
   its own mutex (M_e for the list of event e).  A dispatcher call looks the event's list up under L (appendListener &
   co. create it when it is not there), and executes the list's own critical section (CLSec.sec_step, the function the
   list-level theorems are about) under M_e — for the adders while L is still held (L, then M_e nested inside), for
   removeListener / ownsHandle / hasAnyListener after L has been released.  `empty()` reads head without M_e.
   A lookup that finds no list answers at once (false; "no listener").

   The machine below has the two kinds of mutex as explicit state, one step per lock, unlock, map access and list section,
   any number of threads, each with any sequence of calls, and — so that nothing depends on which calls keep L across
   the list section — a flag per call saying whether it does.  For EVERY schedule:
     * the map and the reported results are those of the sequential run (CLDisp.drun) of one section per call, in the
       order in which the sections (or the unsuccessful lookups) were executed: every execution linearizes, and the
       linearization point lies inside the call;
     * the map is only touched by the thread that holds L, the links of list e only by the thread that holds M_e
       (checked by a ghost flag at every such step), the lock variables agree with where the threads are;
     * no configuration is stuck: as long as some thread has work left, some thread can take a step (L is only ever
       requested by a thread that holds nothing, M_e never by a thread that holds another M).
   With CLDisp.dispatcher_is_a_family_of_lists every event's list is then the run of its own sections, and the list-level
   theorems apply per event. *)
From Coq Require Import List Arith NArith ZArith Bool Lia.
From EV Require Import CLModel CLHeap CLOps CLRefine CLSec CLConcProofs CLDisp.
Import ListNotations.
Local Open Scope nat_scope.

(* a call: the dispatcher section it will execute and whether it keeps L across the list section; or a walk over the
   list of an event (dispatch, forEach: CallbackList::doForEachIf on the list found) *)
Inductive dcall := KSec (n : bool) (x : dsec) | KWalk (e : nat).

(* the generation counter of a node an adding section links *)
Definition with_k (s : sec) (k : N) : sec :=
  match s with
  | SBack c _ => SBack c k | SFront c _ => SFront c k | SBefore c _ b => SBefore c k b
  | _ => s
  end.
Definition retag (x : dsec) (k : N) : dsec := match x with DAdd e s => DAdd e (with_k s k) | DOn e s => DOn e (with_k s k) end.

Definition needsM (s : sec) : bool := match s with SEmpty => false | _ => true end.
Definition absent_answer (s : sec) : bool := match s with SEmpty => true | _ => false end.

Inductive ph :=
| Idle
| HaveL (n : bool) (x : dsec)          (* holds L; next: look at the map *)
| Looked (n : bool) (x : dsec)         (* holds L; the entry is there; next: keep L (n) or release it *)
| Absent                                (* holds L; the lookup found nothing and the call has answered; next: release L *)
| WantM (n : bool) (x : dsec)          (* holds L iff n; next: lock M_e (or, for empty(), the section itself) *)
| HaveM (n : bool) (x : dsec)          (* holds M_e (and L iff n); next: the list section *)
| AfterS (n : bool) (m : option nat)   (* holds M_e iff m = Some e (and L iff n); next: release M_e, then L *)
(* a walk: look the list up under L, release L, then — as doForEachIf does — read head under M_e, load the counter, and
   alternate a look at the node (its callback is called when it is neither removed nor younger than the walk) with the
   step to the next node under M_e *)
| WalkL (e : nat)                                        (* holds L; next: look at the map *)
| WalkFound (e : nat)                                    (* holds L; next: release L *)
| WalkWantM (e : nat) (cur : option nat) (capt : option N)   (* next: lock M_e; cur = None: head is to be read *)
| WalkHaveM (e : nat) (cur : option nat) (capt : option N)   (* holds M_e; next: read head / cur's next *)
| WalkRead (e : nat) (node : option nat) (capt : option N)   (* holds M_e; next: release M_e *)
| WalkAt (e : nat) (node : option nat) (capt : option N).    (* next: load the counter if not yet done; look at the node, or end *)

Definition holdsL (p : ph) : bool :=
  match p with
  | Idle => false
  | HaveL _ _ | Looked _ _ | Absent => true
  | WantM n _ | HaveM n _ | AfterS n _ => n
  | WalkL _ | WalkFound _ => true
  | WalkWantM _ _ _ | WalkHaveM _ _ _ | WalkRead _ _ _ | WalkAt _ _ _ => false
  end.
Definition holdsM (p : ph) (e : nat) : bool :=
  match p with
  | HaveM _ x => Nat.eqb e (ev_of x)
  | AfterS _ (Some e') => Nat.eqb e e'
  | WalkHaveM e' _ _ | WalkRead e' _ _ => Nat.eqb e e'
  | _ => false
  end.
(* the entry this phase relies on *)
Definition needs_entry (p : ph) : option nat :=
  match p with
  | Looked _ x | WantM _ x | HaveM _ x => Some (ev_of x)
  | WalkFound e | WalkWantM e _ _ | WalkHaveM e _ _ | WalkRead e _ _ | WalkAt e _ _ => Some e
  | _ => None
  end.
Definition ph_wf (p : ph) : Prop :=
  match p with HaveL _ x | Looked _ x | WantM _ x | HaveM _ x => dsec_wf x | _ => True end.

Definition upd {A} (f : nat -> A) (t : nat) (v : A) : nat -> A := fun t' => if Nat.eqb t' t then v else f t'.

Record dconf := mkD {
  dmap : dstate;
  lkL : option nat;
  lkM : nat -> option nat;
  thr : nat -> ph * list dcall;
  dlog : list (nat * dsec * bool);      (* ghost: the sections in execution order, with thread and reported result *)
  dbad : bool;                          (* ghost: the map or a list was touched without its mutex *)
  dcnt : nat -> N;                      (* currentCounter of each event's list *)
  dvis : list (nat * nat * nat)         (* the nodes whose callbacks the walks called: (thread, event, node), oldest first *)
}.

Definition owner_is (o : option nat) (t : nat) : bool := match o with Some u => Nat.eqb u t | None => false end.
Definition is_none {A} (o : option A) : bool := match o with None => true | Some _ => false end.

Definition set_thr (c : dconf) (t : nat) (p : ph) (r : list dcall) : dconf :=
  mkD (dmap c) (lkL c) (lkM c) (upd (thr c) t (p, r)) (dlog c) (dbad c) (dcnt c) (dvis c).
Definition set_L (c : dconf) (o : option nat) : dconf :=
  mkD (dmap c) o (lkM c) (thr c) (dlog c) (dbad c) (dcnt c) (dvis c).
Definition set_M (c : dconf) (e : nat) (o : option nat) : dconf :=
  mkD (dmap c) (lkL c) (upd (lkM c) e o) (thr c) (dlog c) (dbad c) (dcnt c) (dvis c).
Definition set_map (c : dconf) (m : dstate) : dconf :=
  mkD m (lkL c) (lkM c) (thr c) (dlog c) (dbad c) (dcnt c) (dvis c).
Definition add_log (c : dconf) (y : nat * dsec * bool) : dconf :=
  mkD (dmap c) (lkL c) (lkM c) (thr c) (dlog c ++ [y]) (dbad c) (dcnt c) (dvis c).
Definition or_bad (c : dconf) (b : bool) : dconf :=
  mkD (dmap c) (lkL c) (lkM c) (thr c) (dlog c) (dbad c || b) (dcnt c) (dvis c).
Definition set_cnt (c : dconf) (e : nat) (k : N) : dconf :=
  mkD (dmap c) (lkL c) (lkM c) (thr c) (dlog c) (dbad c) (upd (dcnt c) e k) (dvis c).
Definition add_vis (c : dconf) (v : list (nat * nat * nat)) : dconf :=
  mkD (dmap c) (lkL c) (lkM c) (thr c) (dlog c) (dbad c) (dcnt c) (dvis c ++ v).

(* an adding call draws the generation of its node (++currentCounter, an atomic operation) BEFORE it takes the list's
   mutex: right after the lookup, in the machine *)
Definition tagged (c : dconf) (x : dsec) : dsec :=
  if adds (sec_of x) then retag x (N.succ (dcnt c (ev_of x))) else x.
Definition draw (c : dconf) (x : dsec) : dconf :=
  if adds (sec_of x) then set_cnt c (ev_of x) (N.succ (dcnt c (ev_of x))) else c.

(* the list section of x executed by thread t (the entry is there) *)
Definition do_section (c : dconf) (t : nat) (x : dsec) : dconf :=
  let e := ev_of x in
  let '(g1, b) := sec_step (dget (dmap c) e) (sec_of x) in
  or_bad (add_log (set_map c (dset (dmap c) e g1)) (t, x, b)) (needsM (sec_of x) && negb (owner_is (lkM c e) t)).

(* what a walk sees *)
Definition node_of (c : dconf) (e n : nat) : option node := nth_error (heap (dget (dmap c) e)) n.
Definition walk_next (c : dconf) (e : nat) (cur : option nat) : option nat :=
  match cur with
  | None => ghead (dget (dmap c) e)
  | Some n => match node_of c e n with Some nd => nxt nd | None => None end
  end.
Definition walk_calls (c : dconf) (t e n : nat) (capt : N) : list (nat * nat * nat) :=
  match node_of c e n with
  | Some nd => if GenCL.visit_cond (ctr nd) capt then [(t, e, n)] else []
  | None => []
  end.

(* one step of thread t; a thread that cannot move (finished, or waiting for a mutex) leaves the configuration as it is *)
Definition dcstep (c : dconf) (t : nat) : dconf :=
  let '(p, r) := thr c t in
  match p with
  | Idle =>
      match r with
      | [] => c
      | k :: r' =>
          if is_none (lkL c)
          then set_thr (set_L c (Some t)) t (match k with KSec n x => HaveL n x | KWalk e => WalkL e end) r'
          else c
      end
  | HaveL n x =>
      let c0 := or_bad c (negb (owner_is (lkL c) t)) in
      match x with
      | DAdd e _ =>
          let m := match dmap c e with Some _ => dmap c | None => dset (dmap c) e empty_group end in
          set_thr (set_map c0 m) t (Looked n x) r
      | DOn e s =>
          match dmap c e with
          | Some _ => set_thr c0 t (Looked n x) r
          | None => set_thr (add_log c0 (t, x, absent_answer s)) t Absent r
          end
      end
  | Looked n x =>
      if n then set_thr (draw c x) t (WantM true (tagged c x)) r
      else set_thr (set_L (draw c x) None) t (WantM false (tagged c x)) r
  | Absent => set_thr (set_L c None) t Idle r
  | WantM n x =>
      if needsM (sec_of x) then
        if is_none (lkM c (ev_of x))
        then set_thr (set_M c (ev_of x) (Some t)) t (HaveM n x) r
        else c
      else set_thr (do_section c t x) t (AfterS n None) r
  | HaveM n x => set_thr (do_section c t x) t (AfterS n (Some (ev_of x))) r
  | AfterS n (Some e) => set_thr (set_M c e None) t (AfterS n None) r
  | AfterS n None =>
      if n then set_thr (set_L c None) t Idle r
      else set_thr c t Idle r
  | WalkL e =>
      let c0 := or_bad c (negb (owner_is (lkL c) t)) in
      match dmap c e with
      | Some _ => set_thr c0 t (WalkFound e) r
      | None => set_thr c0 t Absent r
      end
  | WalkFound e => set_thr (set_L c None) t (WalkWantM e None None) r
  | WalkWantM e cur capt =>
      if is_none (lkM c e) then set_thr (set_M c e (Some t)) t (WalkHaveM e cur capt) r else c
  | WalkHaveM e cur capt =>
      set_thr (or_bad c (negb (owner_is (lkM c e) t))) t (WalkRead e (walk_next c e cur) capt) r
  | WalkRead e node capt => set_thr (set_M c e None) t (WalkAt e node capt) r
  | WalkAt e node capt =>
      let k := match capt with Some k => k | None => dcnt c e end in
      match node with
      | None => set_thr c t Idle r
      | Some n => set_thr (add_vis c (walk_calls c t e n k)) t (WalkWantM e (Some n) (Some k)) r
      end
  end.

Fixpoint dcrun (c : dconf) (sched : list nat) : dconf :=
  match sched with [] => c | t :: r => dcrun (dcstep c t) r end.

Definition dinit (prog : nat -> list dcall) : dconf :=
  mkD d0 None (fun _ => None) (fun t => (Idle, prog t)) [] false (fun _ => 0%N) [].

(* can thread t move? *)
Definition can_step (c : dconf) (t : nat) : bool :=
  let '(p, r) := thr c t in
  match p with
  | Idle => match r with [] => false | _ => is_none (lkL c) end
  | WantM _ x => if needsM (sec_of x) then is_none (lkM c (ev_of x)) else true
  | WalkWantM e _ _ => is_none (lkM c e)
  | _ => true
  end.
Definition finished (c : dconf) (t : nat) : Prop := thr c t = (Idle, []).

Definition sec3 (y : nat * dsec * bool) : dsec := snd (fst y).
Definition res3 (y : nat * dsec * bool) : bool := snd y.

Definition call_wf (k : dcall) : Prop := match k with KSec _ x => dsec_wf x | KWalk _ => True end.

(* ------------------------------------------------------------------------------------------------ *)
(* the invariant *)
Record DInv (c : dconf) : Prop := {
  i_L1 : forall t, holdsL (fst (thr c t)) = true -> lkL c = Some t;
  i_L2 : forall t, lkL c = Some t -> holdsL (fst (thr c t)) = true;
  i_M1 : forall t e, holdsM (fst (thr c t)) e = true -> lkM c e = Some t;
  i_M2 : forall t e, lkM c e = Some t -> holdsM (fst (thr c t)) e = true;
  i_entry : forall t e, needs_entry (fst (thr c t)) = Some e -> dmap c e <> None;
  i_lin : forall e, dget (fst (drun d0 (map sec3 (dlog c)))) e = dget (dmap c) e;
  i_res : map res3 (dlog c) = snd (drun d0 (map sec3 (dlog c)));
  i_logwf : Forall dsec_wf (map sec3 (dlog c));
  i_bad : dbad c = false;
  i_wf : forall t, ph_wf (fst (thr c t)) /\ Forall call_wf (snd (thr c t))
}.

Lemma upd_same {A} (f : nat -> A) t v : upd f t v t = v.
Proof. unfold upd. rewrite Nat.eqb_refl. reflexivity. Qed.
Lemma upd_other {A} (f : nat -> A) t v t' : t' <> t -> upd f t v t' = f t'.
Proof. unfold upd. intros H. destruct (Nat.eqb_spec t' t); [contradiction|reflexivity]. Qed.

Lemma drun_snoc l : forall d x,
  drun d (l ++ [x]) = (fst (dstep (fst (drun d l)) x), snd (drun d l) ++ [snd (dstep (fst (drun d l)) x)]).
Proof.
  induction l as [|y r IH]; intros d x; cbn [app drun fst snd].
  - destruct (dstep d x) as [d1 b]. reflexivity.
  - destruct (dstep d y) as [d1 b]. rewrite IH. destruct (drun d1 r) as [d2 bs]. reflexivity.
Qed.

(* one more section in the log, executed on a map that agrees with the log's (absent = empty) *)
Lemma lin_snoc (D m : dstate) (x : dsec) :
  dsec_wf x -> (forall e, dget D e = dget m e) ->
  (forall e, dget (fst (dstep D x)) e =
             if Nat.eqb e (ev_of x) then fst (sec_step (dget m (ev_of x)) (sec_of x)) else dget m e) /\
  snd (dstep D x) = snd (sec_step (dget m (ev_of x)) (sec_of x)).
Proof.
  intros Hw Heq. destruct (dstep_is_list_step D x Hw) as [A B]. split.
  - intros e. rewrite (A e), (Heq (ev_of x)). destruct (Nat.eqb e (ev_of x)); [reflexivity|apply Heq].
  - rewrite B, (Heq (ev_of x)). reflexivity.
Qed.

Lemma init_inv prog : (forall t, Forall call_wf (prog t)) -> DInv (dinit prog).
Proof.
  intros Hw. constructor; cbn; try discriminate; try reflexivity; auto.
Qed.

Lemma adds_with_k s k : adds (with_k s k) = adds s.
Proof. destruct s; reflexivity. Qed.
Lemma needsM_with_k s k : needsM (with_k s k) = needsM s.
Proof. destruct s; reflexivity. Qed.
Lemma ev_of_tagged c x : ev_of (tagged c x) = ev_of x.
Proof. unfold tagged. destruct (adds (sec_of x)); [destruct x; reflexivity|reflexivity]. Qed.
Lemma wf_tagged c x : dsec_wf x -> dsec_wf (tagged c x).
Proof.
  unfold tagged. destruct (adds (sec_of x)) eqn:E; [|auto]. destruct x as [e s|e s]; cbn in *; rewrite adds_with_k; auto.
Qed.

Ltac other t t' := destruct (Nat.eqb_spec t' t) as [->|?]; [rewrite ?upd_same in *|rewrite ?upd_other in * by assumption].
Ltac flat := unfold set_thr, set_L, set_M, set_map, add_log, or_bad, set_cnt, add_vis; cbn [dmap lkL lkM thr dlog dbad dcnt dvis].

(* the fields of the configuration after a list section *)
Lemma do_section_fields c t x :
  let c1 := do_section c t x in
  dmap c1 = dset (dmap c) (ev_of x) (fst (sec_step (dget (dmap c) (ev_of x)) (sec_of x))) /\
  lkL c1 = lkL c /\ lkM c1 = lkM c /\ thr c1 = thr c /\
  dlog c1 = dlog c ++ [(t, x, snd (sec_step (dget (dmap c) (ev_of x)) (sec_of x)))] /\
  dbad c1 = dbad c || (needsM (sec_of x) && negb (owner_is (lkM c (ev_of x)) t)).
Proof.
  unfold do_section. cbn zeta. destruct (sec_step (dget (dmap c) (ev_of x)) (sec_of x)) as [g1 b].
  flat; cbn [fst snd]; repeat split; reflexivity.
Qed.

(* the counters are no part of the invariant *)
Lemma dinv_cnt c e k : DInv c -> DInv (set_cnt c e k).
Proof. intros I. constructor; flat; apply I. Qed.

Theorem dcstep_inv c t : DInv c -> DInv (dcstep c t).
Proof.
  intros I. unfold dcstep. destruct (thr c t) as [p r] eqn:Et.
  pose proof (i_wf c I t) as [Wp Wr]. rewrite Et in Wp, Wr. cbn [fst snd] in Wp, Wr.
  assert (HL : holdsL p = true -> lkL c = Some t) by (intros H; apply (i_L1 c I t); rewrite Et; exact H).
  assert (HM : forall e, holdsM p e = true -> lkM c e = Some t) by (intros e H; apply (i_M1 c I t e); rewrite Et; exact H).
  assert (NL : lkL c = Some t -> holdsL p = true) by (intros H; generalize (i_L2 c I t H); rewrite Et; auto).
  assert (NM : forall e, lkM c e = Some t -> holdsM p e = true) by (intros e H; generalize (i_M2 c I t e H); rewrite Et; auto).
  assert (NE : forall e, needs_entry p = Some e -> dmap c e <> None) by (intros e H; apply (i_entry c I t); rewrite Et; exact H).
  (* the clauses about the other threads, for a step that leaves the lock variables as they are *)
  assert (KL1 : forall p' r' t', holdsL p' = holdsL p -> holdsL (fst (upd (thr c) t (p', r') t')) = true -> lkL c = Some t').
  { intros p' r' t' Hp H. other t t'; [cbn [fst] in H; rewrite Hp in H; apply HL; exact H|apply (i_L1 c I t' H)]. }
  assert (KL2 : forall p' r' t', holdsL p' = holdsL p -> lkL c = Some t' -> holdsL (fst (upd (thr c) t (p', r') t')) = true).
  { intros p' r' t' Hp H. other t t'; [cbn [fst]; rewrite Hp; apply NL; exact H|apply (i_L2 c I t' H)]. }
  assert (KM1 : forall p' r' t' e, holdsM p' e = holdsM p e -> holdsM (fst (upd (thr c) t (p', r') t')) e = true -> lkM c e = Some t').
  { intros p' r' t' e Hp H. other t t'; [cbn [fst] in H; rewrite Hp in H; apply HM; exact H|apply (i_M1 c I t' e H)]. }
  assert (KM2 : forall p' r' t' e, holdsM p' e = holdsM p e -> lkM c e = Some t' -> holdsM (fst (upd (thr c) t (p', r') t')) e = true).
  { intros p' r' t' e Hp H. other t t'; [cbn [fst]; rewrite Hp; apply NM; exact H|apply (i_M2 c I t' e H)]. }
  assert (KE : forall p' r' t' e (m : dstate), (forall e2, dmap c e2 <> None -> m e2 <> None) ->
               (forall e2, needs_entry p' = Some e2 -> m e2 <> None) ->
               needs_entry (fst (upd (thr c) t (p', r') t')) = Some e -> m e <> None).
  { intros p' r' t' e m Hm Hp H. other t t'; [apply Hp; exact H|apply Hm; apply (i_entry c I t' e H)]. }
  assert (KW : forall p' r' t', ph_wf p' -> Forall call_wf r' ->
               ph_wf (fst (upd (thr c) t (p', r') t')) /\ Forall call_wf (snd (upd (thr c) t (p', r') t'))).
  { intros p' r' t' H1 H2. other t t'; [split; assumption|apply (i_wf c I t')]. }
  (* releasing L *)
  assert (RelL : forall p' r', holdsL p = true -> holdsL p' = false -> (forall e, holdsM p' e = holdsM p e) ->
                 (forall e, needs_entry p' = Some e -> dmap c e <> None) -> ph_wf p' -> Forall call_wf r' ->
                 DInv (set_thr (set_L c None) t p' r')).
  { intros p' r' H1 H2 H3 H4 H5 H6. assert (Eo : lkL c = Some t) by (apply HL; exact H1).
    constructor; flat; try apply I.
    - intros t' H. other t t'; [cbn [fst] in H; rewrite H2 in H; discriminate|].
      generalize (i_L1 c I t' H). rewrite Eo. intros X; inversion X; subst; contradiction.
    - intros t' H; discriminate.
    - intros t' e. apply KM1. apply H3.
    - intros t' e. apply KM2. apply H3.
    - intros t' e. apply (KE p' r' t' e (dmap c)); auto.
    - intros t'. apply KW; assumption. }
  (* a step that only moves thread t to a phase with the same locks *)
  assert (Move : forall p' r', holdsL p' = holdsL p -> (forall e, holdsM p' e = holdsM p e) ->
                 (forall e, needs_entry p' = Some e -> dmap c e <> None) -> ph_wf p' -> Forall call_wf r' ->
                 DInv (set_thr c t p' r')).
  { intros p' r' H2 H3 H4 H5 H6. constructor; flat; try apply I.
    - intros t'. apply KL1. exact H2.
    - intros t'. apply KL2. exact H2.
    - intros t' e. apply KM1. apply H3.
    - intros t' e. apply KM2. apply H3.
    - intros t' e. apply (KE p' r' t' e (dmap c)); auto.
    - intros t'. apply KW; assumption. }
  (* taking M_e *)
  assert (TakeM : forall e p' r', lkM c e = None -> holdsL p' = holdsL p -> (forall e', holdsM p e' = false) ->
                  (forall e', holdsM p' e' = Nat.eqb e' e) ->
                  (forall e', needs_entry p' = Some e' -> dmap c e' <> None) -> ph_wf p' -> Forall call_wf r' ->
                  DInv (set_thr (set_M c e (Some t)) t p' r')).
  { intros e p' r' EM H2 H0 H3 H4 H5 H6. constructor; flat; try apply I.
    - intros t'. apply KL1. exact H2.
    - intros t'. apply KL2. exact H2.
    - intros t' e' H. other t t'.
      + cbn [fst] in H. rewrite H3 in H. apply Nat.eqb_eq in H. subst e'. apply upd_same.
      + destruct (Nat.eqb_spec e' e) as [->|?]; [|rewrite upd_other by assumption; apply (i_M1 c I t' _ H)].
        generalize (i_M1 c I t' _ H). rewrite EM. discriminate.
    - intros t' e' H. destruct (Nat.eqb_spec e' e) as [->|?].
      + rewrite upd_same in H. inversion H; subst t'. rewrite upd_same. cbn [fst]. rewrite H3. apply Nat.eqb_refl.
      + rewrite upd_other in H by assumption. other t t'; [|apply (i_M2 c I t' e' H)]. generalize (NM e' H). rewrite H0. discriminate.
    - intros t' e'. apply (KE p' r' t' e' (dmap c)); auto.
    - intros t'. apply KW; assumption. }
  (* releasing M_e *)
  assert (RelM : forall e p' r', holdsM p e = true -> holdsL p' = holdsL p -> (forall e', holdsM p' e' = false) ->
                 (forall e', holdsM p e' = Nat.eqb e' e) ->
                 (forall e', needs_entry p' = Some e' -> dmap c e' <> None) -> ph_wf p' -> Forall call_wf r' ->
                 DInv (set_thr (set_M c e None) t p' r')).
  { intros e p' r' H1 H2 H3 H0 H4 H5 H6. assert (Eo : lkM c e = Some t) by (apply HM; exact H1).
    constructor; flat; try apply I.
    - intros t'. apply KL1. exact H2.
    - intros t'. apply KL2. exact H2.
    - intros t' e' H. other t t'; [cbn [fst] in H; rewrite H3 in H; discriminate|].
      destruct (Nat.eqb_spec e' e) as [->|?]; [|rewrite upd_other by assumption; apply (i_M1 c I t' _ H)].
      generalize (i_M1 c I t' _ H). rewrite Eo. intros X; inversion X; subst; contradiction.
    - intros t' e' H. destruct (Nat.eqb_spec e' e) as [->|?]; [rewrite upd_same in H; discriminate|].
      rewrite upd_other in H by assumption. other t t'; [|apply (i_M2 c I t' e' H)].
      generalize (NM e' H). rewrite H0. intros X. apply Nat.eqb_eq in X. contradiction.
    - intros t' e'. apply (KE p' r' t' e' (dmap c)); auto.
    - intros t'. apply KW; assumption. }
  (* a list section *)
  assert (Sect : forall x p' r', dsec_wf x -> dmap c (ev_of x) <> None ->
                 (needsM (sec_of x) = true -> lkM c (ev_of x) = Some t) ->
                 holdsL p' = holdsL p -> (forall e, holdsM p' e = holdsM p e) -> needs_entry p' = None -> ph_wf p' -> Forall call_wf r' ->
                 DInv (set_thr (do_section c t x) t p' r')).
  { intros x p' r' Wx En Ho H2 H3 H4 H5 H6.
    destruct (do_section_fields c t x) as (F1 & F2 & F3 & F4 & F5 & F6). cbn zeta in *.
    pose proof Wx as Wx'.
    destruct (lin_snoc (fst (drun d0 (map sec3 (dlog c)))) (dmap c) x Wx' (i_lin c I)) as [A B].
    set (c1 := do_section c t x) in *.
    constructor; unfold set_thr; cbn [dmap lkL lkM thr dlog dbad dcnt dvis]; rewrite ?F1, ?F2, ?F3, ?F4, ?F5, ?F6.
    - intros t'. apply KL1. exact H2.
    - intros t'. apply KL2. exact H2.
    - intros t' e. apply KM1. apply H3.
    - intros t' e. apply KM2. apply H3.
    - intros t' e. apply (KE p' r' t' e); [|rewrite H4; discriminate].
      intros e2 He2. unfold dset. destruct (Nat.eqb e2 (ev_of x)); [discriminate|exact He2].
    - intros e'. rewrite map_app. cbn [map sec3 fst snd]. rewrite drun_snoc. cbn [fst]. rewrite (A e'), dget_dset. reflexivity.
    - rewrite !map_app. cbn [map sec3 res3 fst snd]. rewrite drun_snoc. cbn [snd]. rewrite B, (i_res c I). reflexivity.
    - rewrite map_app. apply Forall_app. split; [apply (i_logwf c I)|constructor; [exact Wx'|constructor]].
    - rewrite (i_bad c I). destruct (needsM (sec_of x)); [|reflexivity]. rewrite (Ho eq_refl). cbn. rewrite Nat.eqb_refl. reflexivity.
    - intros t'. apply KW; assumption. }
  Ltac fin := try reflexivity; try assumption; try exact Logic.I; try (intros; discriminate);
              try (cbn; apply Nat.eqb_refl);
              try match goal with NE : forall e, needs_entry _ = Some e -> _ |- _ =>
                    first [ apply NE; reflexivity | intros e' H'; apply NE; exact H'
                          | intros e' H'; cbn in H'; inversion H'; subst; apply NE; reflexivity ] end.
  destruct p as [|n x|n x| |n x|n x|n m|e|e|e cur capt|e cur capt|e node capt|e node capt].
  - (* Idle: take L *)
    destruct r as [|k r']; [exact I|]. destruct (lkL c) as [u|] eqn:EL; cbn [is_none]; [exact I|].
    inversion Wr as [|? ? Wx Wr']; subst.
    set (p' := match k with KSec n x => HaveL n x | KWalk e => WalkL e end).
    assert (P1 : holdsL p' = true) by (destruct k; reflexivity).
    assert (P2 : forall e, holdsM p' e = false) by (destruct k; reflexivity).
    assert (P3 : needs_entry p' = None) by (destruct k; reflexivity).
    assert (P4 : ph_wf p') by (destruct k; [exact Wx|exact Logic.I]).
    constructor; flat; try apply I.
    + intros t' H. other t t'; [reflexivity|]. generalize (i_L1 c I t' H). rewrite EL. discriminate.
    + intros t' H. inversion H; subst. rewrite upd_same. exact P1.
    + intros t' e H. other t t'; [cbn [fst] in H; rewrite P2 in H; discriminate|]. apply (i_M1 c I t' e H).
    + intros t' e H. other t t'; [|apply (i_M2 c I t' e H)]. generalize (NM e H). discriminate.
    + intros t' e H. other t t'; [cbn [fst] in H; rewrite P3 in H; discriminate|]. apply (i_entry c I t' e H).
    + intros t'. other t t'; [split; [exact P4|exact Wr']|apply (i_wf c I t')].
  - (* HaveL: look at the map *)
    assert (Eo : lkL c = Some t) by (apply HL; reflexivity).
    assert (Eb : dbad c || negb (owner_is (lkL c) t) = false).
    { rewrite (i_bad c I), Eo. cbn. rewrite Nat.eqb_refl. reflexivity. }
    destruct x as [e s|e s].
    + (* adder: find or create *)
      constructor; flat; try apply I.
      * intros t'. apply KL1. reflexivity.
      * intros t'. apply KL2. reflexivity.
      * intros t' e'. apply KM1. reflexivity.
      * intros t' e'. apply KM2. reflexivity.
      * intros t' e'. apply KE.
        -- intros e2 H2. destruct (dmap c e); [exact H2|]. unfold dset. destruct (Nat.eqb e2 e); [discriminate|exact H2].
        -- intros e2 H2. cbn in H2. inversion H2; subst e2. destruct (dmap c e) eqn:Ee; [rewrite Ee; discriminate|].
           unfold dset. rewrite Nat.eqb_refl. discriminate.
      * intros e'. rewrite (i_lin c I e'). destruct (dmap c e) eqn:Ee; [reflexivity|].
        rewrite dget_dset. destruct (Nat.eqb_spec e' e) as [->|?]; [|reflexivity]. unfold dget. rewrite Ee. reflexivity.
      * exact Eb.
      * intros t'. apply KW; assumption.
    + (* the others: find *)
      destruct (dmap c e) as [g|] eqn:Ee.
      * constructor; flat; try apply I.
        -- intros t'. apply KL1. reflexivity.
        -- intros t'. apply KL2. reflexivity.
        -- intros t' e'. apply KM1. reflexivity.
        -- intros t' e'. apply KM2. reflexivity.
        -- intros t' e'. apply (KE _ _ t' e' (dmap c)); [auto|]. intros e2 H2. cbn in H2. inversion H2; subst e2. rewrite Ee. discriminate.
        -- exact Eb.
        -- intros t'. apply KW; assumption.
      * (* nothing there: the call answers; its section, on the empty list, changes nothing *)
        cbn [ph_wf dsec_wf] in Wp.
        destruct (lin_snoc (fst (drun d0 (map sec3 (dlog c)))) (dmap c) (DOn e s) Wp (i_lin c I)) as [A B].
        cbn [ev_of sec_of] in A, B.
        assert (Eg : dget (dmap c) e = empty_group) by (unfold dget; rewrite Ee; reflexivity).
        rewrite Eg, (nonadding_on_empty s Wp) in A, B. cbn [fst snd] in A, B.
        constructor; flat; try apply I.
        -- intros t'. apply KL1. reflexivity.
        -- intros t'. apply KL2. reflexivity.
        -- intros t' e'. apply KM1. reflexivity.
        -- intros t' e'. apply KM2. reflexivity.
        -- intros t' e'. apply (KE _ _ t' e' (dmap c)); [auto|]. intros e2 H2. discriminate.
        -- intros e'. rewrite map_app. cbn [map sec3 fst snd]. rewrite drun_snoc. cbn [fst]. rewrite (A e').
           destruct (Nat.eqb_spec e' e) as [->|?]; [symmetry; exact Eg|reflexivity].
        -- rewrite !map_app. cbn [map sec3 res3 fst snd]. rewrite drun_snoc. cbn [snd]. rewrite B, (i_res c I). reflexivity.
        -- rewrite map_app. apply Forall_app. split; [apply (i_logwf c I)|constructor; [exact Wp|constructor]].
        -- exact Eb.
        -- intros t'. apply KW; [exact Logic.I|exact Wr].
  - (* Looked: draw the generation (adders), keep L or release it *)
    assert (Wt : dsec_wf (tagged c x)) by (apply wf_tagged; exact Wp).
    assert (Nt : forall e, needs_entry (WantM n (tagged c x)) = Some e -> dmap c e <> None).
    { intros e H. cbn in H. rewrite ev_of_tagged in H. apply NE. exact H. }
    unfold draw. destruct (adds (sec_of x)); destruct n.
    + change (DInv (set_cnt (set_thr c t (WantM true (tagged c x)) r) (ev_of x) (N.succ (dcnt c (ev_of x))))).
      apply dinv_cnt. apply Move; fin.
    + change (DInv (set_cnt (set_thr (set_L c None) t (WantM false (tagged c x)) r) (ev_of x) (N.succ (dcnt c (ev_of x))))).
      apply dinv_cnt. apply RelL; fin.
    + apply Move; fin.
    + apply RelL; fin.
  - (* Absent: release L *)
    apply RelL; fin.
  - (* WantM: lock M_e, or empty()'s read *)
    destruct (needsM (sec_of x)) eqn:Ens.
    + destruct (lkM c (ev_of x)) as [u|] eqn:EM; cbn [is_none]; [exact I|].
      apply TakeM; fin.
    + apply Sect; fin. rewrite Ens; discriminate.
  - (* HaveM: the list section under M_e *)
    apply Sect; fin. intros _. apply HM. cbn. apply Nat.eqb_refl.
  - (* AfterS: release M_e, then L *)
    destruct m as [e|]; [apply RelM; fin|]. destruct n; [apply RelL|apply Move]; fin.
  - (* WalkL: look at the map *)
    assert (Eo : lkL c = Some t) by (apply HL; reflexivity).
    assert (Eb : dbad c || negb (owner_is (lkL c) t) = false).
    { rewrite (i_bad c I), Eo. cbn. rewrite Nat.eqb_refl. reflexivity. }
    destruct (dmap c e) as [g|] eqn:Ee.
    + constructor; flat; try apply I.
      * intros t'. apply KL1. reflexivity.
      * intros t'. apply KL2. reflexivity.
      * intros t' e'. apply KM1. reflexivity.
      * intros t' e'. apply KM2. reflexivity.
      * intros t' e'. apply (KE _ _ t' e' (dmap c)); [auto|]. intros e2 H2. cbn in H2. inversion H2; subst e2. rewrite Ee. discriminate.
      * exact Eb.
      * intros t'. apply KW; [exact Logic.I|exact Wr].
    + constructor; flat; try apply I.
      * intros t'. apply KL1. reflexivity.
      * intros t'. apply KL2. reflexivity.
      * intros t' e'. apply KM1. reflexivity.
      * intros t' e'. apply KM2. reflexivity.
      * intros t' e'. apply (KE _ _ t' e' (dmap c)); [auto|]. intros e2 H2. discriminate.
      * exact Eb.
      * intros t'. apply KW; [exact Logic.I|exact Wr].
  - (* WalkFound: release L *)
    apply RelL; fin.
  - (* WalkWantM: lock M_e *)
    destruct (lkM c e) as [u|] eqn:EM; cbn [is_none]; [exact I|].
    apply TakeM; fin.
  - (* WalkHaveM: read head / next under M_e *)
    assert (Eo : lkM c e = Some t) by (apply HM; cbn; apply Nat.eqb_refl).
    constructor; flat; try apply I.
    + intros t'. apply KL1. reflexivity.
    + intros t'. apply KL2. reflexivity.
    + intros t' e'. apply KM1. reflexivity.
    + intros t' e'. apply KM2. reflexivity.
    + intros t' e'. apply (KE _ _ t' e' (dmap c)); [auto|]. intros e2 H2. cbn in H2. inversion H2; subst e2. apply NE. reflexivity.
    + rewrite (i_bad c I), Eo. cbn. rewrite Nat.eqb_refl. reflexivity.
    + intros t'. apply KW; [exact Logic.I|exact Wr].
  - (* WalkRead: release M_e *)
    apply RelM; fin.
  - (* WalkAt: look at the node, or end *)
    destruct node as [nn|].
    + constructor; flat; try apply I.
      * intros t'. apply KL1. reflexivity.
      * intros t'. apply KL2. reflexivity.
      * intros t' e'. apply KM1. reflexivity.
      * intros t' e'. apply KM2. reflexivity.
      * intros t' e'. apply (KE _ _ t' e' (dmap c)); [auto|]. intros e2 H2. cbn in H2. inversion H2; subst e2. apply NE. reflexivity.
      * intros t'. apply KW; [exact Logic.I|exact Wr].
    + apply Move; fin.
Qed.

Theorem dcrun_inv sched : forall c, DInv c -> DInv (dcrun c sched).
Proof. induction sched as [|t r IH]; intros c I; cbn [dcrun]; [exact I|]. apply IH. apply dcstep_inv. exact I. Qed.

(* EVERY SCHEDULE: the invariant holds in the configuration reached *)
Theorem dispatcher_machine_invariant prog sched :
  (forall t, Forall call_wf (prog t)) -> DInv (dcrun (dinit prog) sched).
Proof. intros Hw. apply dcrun_inv. apply init_inv. exact Hw. Qed.

(* linearization: the map (absent = empty) and the reported results are those of the sequential run of the logged
   sections; the mutexes were respected *)
Theorem dispatcher_machine_linearizes prog sched :
  (forall t, Forall call_wf (prog t)) ->
  let c := dcrun (dinit prog) sched in
  (forall e, dget (dmap c) e = dget (fst (drun d0 (map sec3 (dlog c)))) e) /\
  map res3 (dlog c) = snd (drun d0 (map sec3 (dlog c))) /\
  Forall dsec_wf (map sec3 (dlog c)) /\
  dbad c = false.
Proof.
  intros Hw c. pose proof (dispatcher_machine_invariant prog sched Hw) as I. fold c in I.
  split; [intros e; symmetry; apply (i_lin c I)|]. split; [apply (i_res c I)|]. split; [apply (i_logwf c I)|apply (i_bad c I)].
Qed.

(* hence, per event: its list is the run of the sections addressed to it, in execution order *)
Corollary dispatcher_machine_lists prog sched e :
  (forall t, Forall call_wf (prog t)) ->
  let c := dcrun (dinit prog) sched in
  dget (dmap c) e = fst (run_secs empty_group (secs_for e (map sec3 (dlog c)))).
Proof.
  intros Hw c. destruct (dispatcher_machine_linearizes prog sched Hw) as (A & _ & W & _). fold c in A, W.
  rewrite (A e). destruct (dispatcher_is_a_family_of_lists (map sec3 (dlog c)) d0 e W) as [B _]. exact B.
Qed.

(* no configuration is stuck *)
Theorem dispatcher_machine_never_stuck c t :
  DInv c -> ~ finished c t -> exists u, can_step c u = true.
Proof.
  intros I Hn.
  assert (HM : forall e w, lkM c e = Some w -> can_step c w = true).
  { intros e w H. generalize (i_M2 c I w e H). unfold can_step. destruct (thr c w) as [p r]. cbn [fst].
    destruct p as [|? ?|? ?| |? ?|? ?|? [?|]|?|?|? ? ?|? ? ?|? ? ?|? ? ?]; cbn; try discriminate; reflexivity. }
  assert (Free : forall u p r, thr c u = (p, r) ->
                 match p with Idle | WantM _ _ | WalkWantM _ _ _ => False | _ => True end -> can_step c u = true).
  { intros u p r E H. unfold can_step. rewrite E. destruct p; try contradiction; reflexivity. }
  assert (Wait : forall u e, (lkM c e = None -> can_step c u = true) -> exists w, can_step c w = true).
  { intros u e H. destruct (lkM c e) as [w|] eqn:Ew; [exists w; apply (HM _ _ Ew)|exists u; apply H; reflexivity]. }
  assert (HLk : forall u, lkL c = Some u -> exists w, can_step c w = true).
  { intros u H. generalize (i_L2 c I u H). destruct (thr c u) as [p r] eqn:Eu. cbn [fst].
    destruct p as [|n x|n x| |n x|n x|n m|e|e|e cur capt|e cur capt|e node capt|e node capt]; cbn; try discriminate; intros Hh;
      try (exists u; apply (Free u _ _ Eu); exact Logic.I).
    destruct (needsM (sec_of x)) eqn:En.
    - apply (Wait u (ev_of x)). intros Ew. unfold can_step. rewrite Eu, En, Ew. reflexivity.
    - exists u. unfold can_step. rewrite Eu, En. reflexivity. }
  unfold finished in Hn. destruct (thr c t) as [p r] eqn:Et.
  destruct p as [|n x|n x| |n x|n x|n m|e|e|e cur capt|e cur capt|e node capt|e node capt];
    try (exists t; apply (Free t _ _ Et); exact Logic.I).
  - destruct r as [|k r']; [contradiction Hn; reflexivity|].
    destruct (lkL c) as [u|] eqn:EL; [apply (HLk u eq_refl)|]. exists t. unfold can_step. rewrite Et, EL. reflexivity.
  - destruct (needsM (sec_of x)) eqn:En.
    + apply (Wait t (ev_of x)). intros Ew. unfold can_step. rewrite Et, En, Ew. reflexivity.
    + exists t. unfold can_step. rewrite Et, En. reflexivity.
  - apply (Wait t e). intros Ew. unfold can_step. rewrite Et, Ew. reflexivity.
Qed.

(* and a thread that can step does: its step changes the configuration's thread table *)
Lemma can_step_moves c t : can_step c t = true -> thr (dcstep c t) t <> thr c t.
Proof.
  unfold can_step, dcstep. destruct (thr c t) as [p r] eqn:Et.
  destruct p as [|n x|n x| |n x|n x|n m|e|e|e cur capt|e cur capt|e node capt|e node capt].
  - destruct r as [|k r']; [discriminate|]. intros H. rewrite H. flat. rewrite upd_same. destruct k; discriminate.
  - intros _. destruct x as [e s|e s]; [|destruct (dmap c e)]; flat; rewrite upd_same; discriminate.
  - intros _. destruct n; flat; rewrite upd_same; discriminate.
  - intros _. flat. rewrite upd_same. discriminate.
  - destruct (needsM (sec_of x)).
    + intros H. rewrite H. flat. rewrite upd_same. discriminate.
    + intros _. unfold set_thr. cbn [thr]. rewrite upd_same. discriminate.
  - intros _. unfold set_thr. cbn [thr]. rewrite upd_same. discriminate.
  - intros _. destruct m as [e|]; [|destruct n]; flat; rewrite upd_same; discriminate.
  - intros _. destruct (dmap c e); flat; rewrite upd_same; discriminate.
  - intros _. flat. rewrite upd_same. discriminate.
  - intros H. rewrite H. flat. rewrite upd_same. discriminate.
  - intros _. flat. rewrite upd_same. discriminate.
  - intros _. flat. rewrite upd_same. discriminate.
  - intros _. destruct node; flat; rewrite upd_same; discriminate.
Qed.

(* a run of four threads: thread 2 asks to remove from event 7 before anybody has listened to it (answer false); thread 0
   adds, then removes what it added while thread 1 prepends to the same event: thread 0 finds the list, releases L, and
   has to wait for M_7, which thread 1 holds inside L (the step marked * does nothing); thread 2 asks about event 4;
   thread 3 walks event 7 at the end and calls the one callback that is left *)
Example dispatcher_machine_example :
  let prog := fun t => match t with
                       | 0 => [KSec true (DAdd 7 (SBack 1 0%N)); KSec false (DOn 7 (SRemove (Some 0)))]
                       | 1 => [KSec true (DAdd 7 (SFront 2 0%N))]
                       | 2 => [KSec false (DOn 7 (SRemove (Some 0))); KSec false (DOn 4 SEmpty)]
                       | 3 => [KWalk 7]
                       | _ => []
                       end in
  let c := dcrun (dinit prog) ([2; 2; 2;  0; 0; 0; 0; 0; 0; 0;  0; 0; 0;  1; 1; 1; 1; 1;  0 (* * *);  1;  0;  1;  0; 0; 0;  2; 2; 2]
                               ++ repeat 3 20) in
  map res3 (dlog c) = [false; true; true; true; true] /\
  map sec3 (dlog c) = [DOn 7 (SRemove (Some 0)); DAdd 7 (SBack 1 1%N); DAdd 7 (SFront 2 2%N); DOn 7 (SRemove (Some 0)); DOn 4 SEmpty] /\
  map (fun y => fst (fst y)) (dlog c) = [2; 0; 1; 0; 2] /\
  dbad c = false /\ lkL c = None /\ map (thr c) [0; 1; 2; 3] = [(Idle, []); (Idle, []); (Idle, []); (Idle, [])] /\
  dget (dmap c) 7 = fst (run_secs empty_group [SBack 1 1%N; SFront 2 2%N; SRemove (Some 0)]) /\ dmap c 4 = None /\
  dvis c = [(3, 7, 1)] /\ dcnt c 7 = 2%N.
Proof. vm_compute. repeat split. Qed.
