(* QConcWait.v — what wait() / waitFor() have observed when they return (C07, third clause).

   A small weakest-precondition calculus over the transcribed calls (QConc.code_of), for
   postconditions on the calling thread's locals only.  Every read of shared state — the unlocked
   and locked list tests, the loads of the two atomic counters — may return ANY value (other
   threads interfere arbitrarily), a condition-variable wait may end by notification at any time and,
   only if it is a timed wait, by timeout.  The recursive occurrence of the wait loop is handled by
   the usual partial-correctness rule (the loop's exit condition is assumed for the inner occurrence
   and established for the outer one).  It is the calculus of QConcInv.v without the ledger part;
   its soundness with respect to the scheduler semantics is mechanised there for the conservation
   postcondition and is not repeated here.

   Results:
     wait_exit_condition         whenever the wait loop is left with result true, the LAST evaluation of
                                 doCanProcess — made by this thread on the values it read — was true:
                                 not empty (list non-empty, or the in-dispatch counter non-zero) and
                                 notification enabled (counter read as 0); with result false only a
                                 timed wait can be left, and only after its timeout;
     wait_returns_only_after_observing_work   for wait();
     waitfor_result_means_what_it_says        for waitFor(). *)
From Coq Require Import List Arith NArith ZArith Bool Lia.
From EV Require Import QConc.
From EV.gen Require GenQ GenQConc.
Import ListNotations.

(* the loop's exit condition *)
Definition WExit (timed : bool) (lo : qlocals) : Prop :=
  (lres lo = true -> lb lo = true /\ lbe lo = false) /\
  (lres lo = false -> timed = true /\ ltimedout lo = true).

Fixpoint wqi (i : instr) (Q : qlocals -> Prop) (lo : qlocals) {struct i} : Prop :=
  match i with
  | ILocal _ f => forall t sh, Q (snd (f t sh lo))
  | IIf _ c a b =>
      forall sh,
        (c sh lo = true ->
         (fix wl (l : list instr) (Q : qlocals -> Prop) (lo : qlocals) {struct l} : Prop :=
            match l with [] => Q lo | j :: r => wqi j (wl r Q) lo end) a Q lo) /\
        (c sh lo = false ->
         (fix wl (l : list instr) (Q : qlocals -> Prop) (lo : qlocals) {struct l} : Prop :=
            match l with [] => Q lo | j :: r => wqi j (wl r Q) lo end) b Q lo)
  | IALoad _ => forall v, Q (lo_reg lo v)
  | ICvWait timed => forall b, (b = true -> timed = true) -> Q (lo_to lo b)
  | IWaitLoop timed => forall lo', WExit timed lo' -> Q lo'
  | _ => Q lo
  end.

Fixpoint wql (l : list instr) (Q : qlocals -> Prop) (lo : qlocals) {struct l} : Prop :=
  match l with [] => Q lo | j :: r => wqi j (wql r Q) lo end.

Lemma wqi_if r c a b Q lo :
  wqi (IIf r c a b) Q lo = (forall sh, (c sh lo = true -> wql a Q lo) /\ (c sh lo = false -> wql b Q lo)).
Proof. reflexivity. Qed.

Ltac lo_simpl := cbn [fst snd ltemp lev lb lbe lres ltimedout lidle lreg lslot lshow lheld lsnap lseen ltaking lowes lo_temp lo_kept lo_idle lo_reg lo_b lo_be lo_res lo_slot lo_to lo_ev lo_show lo_held lo_snap lo_seen lo_taking lo_owes lo0] in *.

Ltac wq1 :=
  cbv beta;
  lazymatch goal with
  | |- wql [] ?Q ?lo => change (Q lo)
  | |- wql (?j :: ?r) ?Q ?lo => change (wqi j (wql r Q) lo)
  | |- wqi (IIf _ _ _ _) _ _ => rewrite wqi_if; let sh := fresh "sh" in let Hc := fresh "Hc" in intros sh; split; intros Hc
  | |- wqi (ILocal _ ?f) ?Q ?lo =>
      change (forall t sh, Q (snd (f t sh lo))); let t := fresh "t" in let sh := fresh "sh" in intros t sh; cbv beta; lo_simpl
  | |- wqi (IALoad _) ?Q ?lo => change (forall v, Q (lo_reg lo v)); let v := fresh "v" in intros v
  | |- wqi (ICvWait ?timed) ?Q ?lo =>
      change (forall b, (b = true -> timed = true) -> Q (lo_to lo b)); let b := fresh "b" in let Hb := fresh "Hb" in intros b Hb
  | |- wqi (IWaitLoop ?timed) ?Q ?lo =>
      change (forall lo', WExit timed lo' -> Q lo'); let lo' := fresh "lo" in let E := fresh "E" in intros lo' E
  | |- wqi ?i ?Q ?lo => change (Q lo)
  end.

(* the wait loop establishes its own exit condition *)
Theorem wait_exit_condition timed lo : wql (wait_loop timed) (WExit timed) lo.
Proof.
  unfold wait_loop, eval_can_process, eval_empty, eval_can_notify. cbv beta iota delta [GenQ.empty_queue_reads app].
  repeat wq1; lo_simpl; try exact E.
  all: unfold WExit; lo_simpl; split; intros X; try discriminate X; try congruence.
  all: try (split; [congruence | reflexivity || congruence]).
  all: try (split; [apply Hb; congruence | congruence]).
Qed.

(* wait(): returns only after an evaluation of the predicate that found work and notification enabled *)
Theorem wait_returns_only_after_observing_work :
  wql (code_of AWait) (fun lo => lb lo = true /\ lbe lo = false) lo0.
Proof.
  cbn [code_of]. repeat wq1. destruct E as [E1 E2]. destruct (lres lo) eqn:R.
  - apply E1; reflexivity.
  - destruct (E2 eq_refl) as [X _]. discriminate X.
Qed.

(* waitFor(): true only after such an evaluation, false only after the timeout *)
Theorem waitfor_result_means_what_it_says :
  wql (code_of AWaitFor)
      (fun lo => (lres lo = true -> lb lo = true /\ lbe lo = false) /\ (lres lo = false -> ltimedout lo = true)) lo0.
Proof.
  cbn [code_of]. repeat wq1. destruct E as [E1 E2]. split; [exact E1|]. intros X. apply (E2 X).
Qed.

(* what lb / lbe stand for: the generated bodies of doCanNotifyQueueAvailable and emptyQueue *)
Theorem predicate_values_mean :
  (forall nc, GenQ.can_notify nc = true <-> nc = 0%Z) /\
  (forall list_empty ec, GenQ.empty_queue list_empty ec = false <-> (list_empty = false \/ ec <> 0%Z)).
Proof.
  split.
  - intros nc. unfold GenQ.can_notify. apply Z.eqb_eq.
  - intros le ec. unfold GenQ.empty_queue. destruct le; cbn [andb].
    + rewrite Z.eqb_neq. split; [intros H; right; exact H | intros [H|H]; [discriminate|exact H]].
    + split; [intros _; left; reflexivity | reflexivity].
Qed.
