(* IndexSeq.v — the index sequence that expands the stored argument tuple of a queued event.
   internal_::MakeIndexSequence<N>::Type is computed by the linear recursion
        MakeIndexSequence<N, I...> : MakeIndexSequence<N - 1, N - 1, I...>       MakeIndexSequence<0, I...>::Type = IndexSequence<I...>
   (tie A: GenDisp.index_sequence_linear).  As a function on lists of naturals this is mk_seq; for EVERY arity N it yields
   0, 1, …, N-1 — so doDispatchQueuedEvent hands std::get<0>, std::get<1>, …, std::get<N-1> of the stored tuple to the
   listeners, each argument once, in order. *)
From Coq Require Import List Arith Lia.
Import ListNotations.

Fixpoint mk_seq (n : nat) (acc : list nat) : list nat :=
  match n with 0 => acc | S m => mk_seq m (m :: acc) end.

Lemma mk_seq_spec n : forall acc, mk_seq n acc = seq 0 n ++ acc.
Proof.
  induction n as [|m IH]; intros acc; cbn [mk_seq]; [reflexivity|].
  rewrite IH. rewrite seq_S. cbn [plus]. rewrite <- app_assoc. reflexivity.
Qed.

Theorem index_sequence_is_the_identity n : mk_seq n [] = seq 0 n.
Proof. rewrite mk_seq_spec. apply app_nil_r. Qed.

(* the "doubling" construction with the wrong odd step (seeded change C04d): right up to arity 4, wrong at 5 *)
Fixpoint dbl (fuel n : nat) : list nat :=
  match fuel with
  | 0 => []
  | S f =>
      match n with
      | 0 => []
      | 1 => [0]
      | _ => let h := dbl f (n / 2) in
             let two := h ++ map (fun i => length h + i) h in
             if Nat.even n then two else two ++ [length h + 1]
      end
  end.
Example doubling_with_the_wrong_odd_step_refuted :
  (forall n, n <= 4 -> dbl 10 n = seq 0 n) /\ dbl 10 5 = [0; 1; 2; 3; 3].
Proof. split; [|reflexivity]. intros n H. do 5 (destruct n as [|n]; [reflexivity|]). lia. Qed.
