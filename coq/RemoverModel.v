(* RemoverModel.v — executable model of eventpp::ScopedRemover
   (include/eventpp/utilities/scopedremover.h, both specialisations: the one for
   CallbackList-like targets and the one for EventDispatcher/EventQueue-like targets;
   the heterogeneous classes select one of the same two).

   Targets are abstract listener containers.  All attached listeners of all targets are
   kept in ONE list of entries ((target, key), id), in attachment order; the listeners of
   target t under event key k are the sub-list of entries with location (t, k), so append /
   prepend / insert-before on one (t, k) are append / cons / insert-before on the global list.
   (A CallbackList target uses the single key 0.)  A listener id is unique per add.

   A remover is  { tgt : option target ; items : list (key, id) }  — the header's
   `dispatcher`/`callbackList` pointer and `itemList`.  Every member function is modelled as
   the header implements it:
     add (append/prepend/insert)  add to the target, then push_back the record
     remove h          if h is expired -> false; erase the first record of h, if there is none
                       -> false; otherwise return target->remove(h)
     reset             if the pointer is not null remove every recorded handle from the target;
                       clear the records (also when the pointer is null)
     setDispatcher / setCallbackList   nothing if same target, else reset and re-point
     move constructor  take pointer and records; the source keeps its POINTER and has no records
     move assignment   [assign_resets] says whether the destination first releases what it held
                       (tie A reads this off the header: coq/gen/GenRemover.v); then as the
                       move constructor.  Self-assignment is a no-op when the header guards it
                       ([self_guard], tie A) and outside the model otherwise.
     swap              exchange pointer and records
     destructor        reset
   plus operations on the targets that bypass the removers (DAdd / DRemove).

   Misuse outside the contract of the C++ code (null pointer dereference, a handle presented
   to a container that does not own it, a second object constructed in a live slot, re-used
   listener ids) sets the [bad] flag and leaves the state unchanged; run_case then answers
   None and the case is discarded by the correspondence check.

   Definitions only (no proofs): the file keeps running when a proof is broken. *)
From Coq Require Import List Arith Bool.
Import ListNotations.
Local Open Scope nat_scope.

Definition loc := (nat * nat)%type.            (* (target, key) *)
Definition entry := (loc * nat)%type.          (* ((target, key), listener id) *)

Inductive mode := MAppend | MPrepend | MInsert (before : nat).

Record remover := mkR { tgt : option nat; items : list (nat * nat) }.   (* records: (key, id) *)

Inductive rcmd :=
| RNew (r : nat) (t : option nat)          (* construct in slot r: ScopedRemover() / ScopedRemover(target) *)
| RAdd (r k id : nat) (m : mode)           (* r.appendListener(k, id) / prepend / insert before *)
| RRemove (r id : nat)                     (* r.removeListener(key of id, handle of id) *)
| RReset (r : nat)
| RSetTarget (r t : nat)
| RMoveCtor (src dst : nat)                (* new (slot dst) ScopedRemover(std::move(src)) *)
| RMoveAssign (src dst : nat)              (* dst = std::move(src) *)
| RSwap (a b : nat)
| RDestroy (r : nat)
| DAdd (t k id : nat) (m : mode)           (* directly on the target, bypassing every remover *)
| DRemove (id : nat)                       (* directly on the container the listener was added to *)
| Observe (nk : nat).                      (* trigger every target under every key < nk *)

Inductive revent :=
| ERet (b : bool)
| EObs (t k : nat) (ids : list nat).       (* listeners that ran, in order *)

Record rstate := mkS {
  nt : nat;                          (* number of targets (all alive during the whole case) *)
  atts : list entry;                 (* attached listeners *)
  rems : nat -> option remover;      (* remover slots; None = no live object in the slot *)
  used : list entry;                 (* ghost: every listener ever added, with the place it was added *)
  via : list nat;                    (* ghost: ids of the listeners added through removers *)
  rtrace : list revent;              (* oldest first *)
  bad : bool
}.

(* ---------- helpers ---------- *)

Definition loc_eqb (a b : loc) : bool := (fst a =? fst b) && (snd a =? snd b).
Definition entry_eqb (a b : entry) : bool := loc_eqb (fst a) (fst b) && (snd a =? snd b).

Fixpoint find_id (id : nat) (l : list entry) : option loc :=
  match l with
  | [] => None
  | e :: r => if snd e =? id then Some (fst e) else find_id id r
  end.

(* CallbackList::insert(cb, before): before `before` when it is in the list, else at the end *)
Fixpoint ins_before (e : entry) (hb : nat) (l : list entry) : list entry :=
  match l with
  | [] => [e]
  | x :: r => if snd x =? hb then e :: x :: r else x :: ins_before e hb r
  end.

Definition tadd (m : mode) (e : entry) (l : list entry) : list entry :=
  match m with
  | MAppend => l ++ [e]
  | MPrepend => e :: l
  | MInsert hb => ins_before e hb l
  end.

Definition detach (id : nat) (l : list entry) : list entry :=
  filter (fun e => negb (snd e =? id)) l.

(* the loop of reset(): target t ->removeListener(key, handle) for every record *)
Definition hit (t : nat) (its : list (nat * nat)) (e : entry) : bool :=
  existsb (fun it => entry_eqb e ((t, fst it), snd it)) its.

Definition released (R : remover) (l : list entry) : list entry :=
  match tgt R with
  | Some t => filter (fun e => negb (hit t (items R) e)) l
  | None => l
  end.

Definition recorded (id : nat) (its : list (nat * nat)) : bool :=
  existsb (fun it => snd it =? id) its.

Fixpoint erase_first (id : nat) (its : list (nat * nat)) : list (nat * nat) :=
  match its with
  | [] => []
  | x :: r => if snd x =? id then r else x :: erase_first id r
  end.

Definition set_rem (r : nat) (v : option remover) (f : nat -> option remover) : nat -> option remover :=
  fun x => if x =? r then v else f x.

Definition obs (t k : nat) (l : list entry) : list nat :=
  map snd (filter (fun e => loc_eqb (fst e) (t, k)) l).

Definition fresh (st : rstate) (id : nat) : bool :=
  negb (existsb (fun e => snd e =? id) (used st)).

(* the handle given as `before` must be expired/empty or belong to the very list inserted into *)
Definition legal_before (st : rstate) (m : mode) (l : loc) : bool :=
  match m with
  | MInsert hb => match find_id hb (atts st) with None => true | Some l' => loc_eqb l' l end
  | _ => true
  end.

Definition fail (st : rstate) : rstate :=
  mkS (nt st) (atts st) (rems st) (used st) (via st) (rtrace st) true.

Definition emit (evs : list revent) (st : rstate) : rstate :=
  mkS (nt st) (atts st) (rems st) (used st) (via st) (rtrace st ++ evs) (bad st).

Definition set_ar (a : list entry) (f : nat -> option remover) (st : rstate) : rstate :=
  mkS (nt st) a f (used st) (via st) (rtrace st) (bad st).

Definition observe_all (ntg nk : nat) (l : list entry) : list revent :=
  flat_map (fun t => map (fun k => EObs t k (obs t k l)) (seq 0 nk)) (seq 0 ntg).

(* ---------- one command ---------- *)

Section Step.
  Variable assign_resets : bool.   (* operator=(&&) releases the destination's listeners first *)
  Variable self_guard : bool.      (* operator=(&&) tests this != &other *)

  Definition rstep (c : rcmd) (st : rstate) : rstate :=
    match c with
    | RNew r ot =>
        match rems st r with
        | Some _ => fail st
        | None =>
            if (match ot with Some t => t <? nt st | None => true end)
            then set_ar (atts st) (set_rem r (Some (mkR ot [])) (rems st)) st
            else fail st
        end
    | RAdd r k id m =>
        match rems st r with
        | None => fail st
        | Some R =>
            match tgt R with
            | None => fail st                       (* null pointer dereference *)
            | Some t =>
                if fresh st id && legal_before st m (t, k) then
                  mkS (nt st) (tadd m ((t, k), id) (atts st))
                      (set_rem r (Some (mkR (Some t) (items R ++ [(k, id)]))) (rems st))
                      (((t, k), id) :: used st) (id :: via st) (rtrace st) (bad st)
                else fail st
            end
        end
    | RRemove r id =>
        match rems st r with
        | None => fail st
        | Some R =>
            match find_id id (atts st) with
            | None => emit [ERet false] st          (* if(! handle) return false *)
            | Some l =>
                if recorded id (items R) then
                  match tgt R with
                  | Some t =>
                      if t =? fst l then
                        emit [ERet true]
                             (set_ar (detach id (atts st))
                                     (set_rem r (Some (mkR (Some t) (erase_first id (items R)))) (rems st)) st)
                      else fail st                  (* handle of another container *)
                  | None => fail st
                  end
                else emit [ERet false] st
            end
        end
    | RReset r =>
        match rems st r with
        | None => fail st
        | Some R => set_ar (released R (atts st)) (set_rem r (Some (mkR (tgt R) [])) (rems st)) st
        end
    | RSetTarget r t =>
        match rems st r with
        | None => fail st
        | Some R =>
            if t <? nt st then
              if (match tgt R with Some t0 => t0 =? t | None => false end) then st
              else set_ar (released R (atts st)) (set_rem r (Some (mkR (Some t) [])) (rems st)) st
            else fail st
        end
    | RMoveCtor s d =>
        match rems st s, rems st d with
        | Some Rs, None =>
            set_ar (atts st) (set_rem d (Some Rs) (set_rem s (Some (mkR (tgt Rs) [])) (rems st))) st
        | _, _ => fail st
        end
    | RMoveAssign s d =>
        match rems st s, rems st d with
        | Some Rs, Some Rd =>
            if s =? d then (if self_guard then st else fail st)
            else set_ar (if assign_resets then released Rd (atts st) else atts st)
                        (set_rem d (Some Rs) (set_rem s (Some (mkR (tgt Rs) [])) (rems st))) st
        | _, _ => fail st
        end
    | RSwap a b =>
        match rems st a, rems st b with
        | Some Ra, Some Rb => set_ar (atts st) (set_rem a (Some Rb) (set_rem b (Some Ra) (rems st))) st
        | _, _ => fail st
        end
    | RDestroy r =>
        match rems st r with
        | None => fail st
        | Some R => set_ar (released R (atts st)) (set_rem r None (rems st)) st
        end
    | DAdd t k id m =>
        if (t <? nt st) && fresh st id && legal_before st m (t, k) then
          mkS (nt st) (tadd m ((t, k), id) (atts st)) (rems st)
              (((t, k), id) :: used st) (via st) (rtrace st) (bad st)
        else fail st
    | DRemove id =>
        match find_id id (atts st) with
        | None => emit [ERet false] st
        | Some _ => emit [ERet true] (set_ar (detach id (atts st)) (rems st) st)
        end
    | Observe nk => emit (observe_all (nt st) nk (atts st)) st
    end.

  Definition rrun (prog : list rcmd) (st : rstate) : rstate :=
    fold_left (fun s c => rstep c s) prog st.
End Step.

Definition rinit (ntg : nat) : rstate := mkS ntg [] (fun _ => None) [] [] [] false.

Definition remover_run_case (assign_resets self_guard : bool) (ntg : nat) (prog : list rcmd) : option (list revent) :=
  let st := rrun assign_resets self_guard prog (rinit ntg) in
  if bad st then None else Some (rtrace st).
