(* Extraction of the thread-level queue model for tie B (schedules). ExtrOcamlBasic only. *)
Require Extraction.
Require Import ExtrOcamlBasic.
From EV Require QConc QConcWake.
Extraction Language OCaml.
Set Extraction Optimize.
Definition qc_run_case := QConc.qc_run_case.
(* the side condition of the wake-up theorems (QConcWake.stopped_along), decided on the run the driver replays:
   no block of local code was cut short by the fuel of QConc.advance *)
Definition qc_side_ok (fuel : nat) (progs : list (list QConc.qapi)) (schedule : list nat) : bool :=
  QConcWake.stopped_alongb fuel (QConc.mkCfg QConc.sh0 (QConc.start_threads progs) schedule false).
Extraction "../ocaml/gen/qconc_model.ml" qc_run_case qc_side_ok.
