(* Extraction of the thread-level queue model for tie B (schedules). ExtrOcamlBasic only. *)
Require Extraction.
Require Import ExtrOcamlBasic.
From EV Require QConc.
Extraction Language OCaml.
Set Extraction Optimize.
Definition qc_run_case := QConc.qc_run_case.
Extraction "../ocaml/gen/qconc_model.ml" qc_run_case.
