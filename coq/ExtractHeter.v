(* Extraction of the heterogeneous model (mechanism and specification) for tie B. ExtrOcamlBasic only. *)
Require Extraction.
Require Import ExtrOcamlBasic.
From EV Require HeterModel.
From EV.gen Require GenHeter.
Extraction Language OCaml.
Set Extraction Optimize.
Definition heter_run_case := HeterModel.h_run_case.
(* the two facts tie A reads off doProcessIf: the mechanism is run with what the header says now *)
Definition heter_chk : bool := GenHeter.processif_checks_tag_before_typed_read.
Definition heter_rem : bool := GenHeter.processif_next_search_over_remaining.
Extraction "../ocaml/gen/heter_model.ml" heter_run_case heter_chk heter_rem.
