(* HeterRefine.v — the slot / free-list / typed-read mechanism of HeterEventQueue, with
   doProcessIf testing the tag before the typed access (chk = true) and searching the next
   callable prototype among the remaining ones (rem = true), refines the plain pending-list
   specification: the two interpreters run in lock step, the mechanism never reads a slot at a
   type other than its tag, never sets an occupied slot nor reads or clears an empty one, and
   every slot on the free list is empty. *)
From Coq Require Import List Arith NArith ZArith Bool Lia.
From EV Require Import HeterModel HeterProofs.
From EV.gen Require GenHeter.
Import ListNotations.
Local Open Scope nat_scope.

Definition h_is_none (s : hslot) : Prop := s = None.
Definition h_is_some (s : hslot) : Prop := s <> None.

Record HR (m s : hstate) : Prop := {
  hr_q : hq m = hq s;
  hr_f : Forall h_is_none (hf m);
  hr_some : Forall h_is_some (hq m);
  hr_e : hecount m = hecount s;
  hr_l : hlsts m = hlsts s;
  hr_nh : hnexth m = hnexth s;
  hr_hr : hregs m = hregs s;
  hr_ca : hcacts m = hcacts s;
  hr_pa : hpacts m = hpacts s;
  hr_err : herr m = false;
  hr_errs : herr s = false;
  hr_t : htrace m = htrace s
}.

Ltac hr_build H :=
  destruct H as [Hq Hf Hs He Hl Hnh Hhr Hca Hpa Herr Herrs Ht];
  constructor; simpl; try congruence; try (rewrite ?Hq, ?He, ?Hl, ?Hnh, ?Hhr, ?Hca, ?Hpa, ?Ht; reflexivity); auto.

Section Refine.
  Variable np : nat.
  Variable callable : kind -> proto -> bool.
  Variable own : proto -> kind.
  Variable arity : proto -> nat.
  Variable counted : proto -> bool.
  Variable behav : nat -> nat -> list hcmd.
  Variable pbehav : nat -> nat -> list hcmd * bool.

  Notation mstep := (h_step np callable own arity counted true true true behav pbehav).
  Notation sstep := (h_step np callable own arity counted false true true behav pbehav).

  Lemma h_forall_app {A} (P : A -> Prop) a b : Forall P a -> Forall P b -> Forall P (a ++ b).
  Proof. intros Ha Hb. induction Ha; simpl; auto. Qed.

  Lemma h_forall_repeat_none n : Forall h_is_none (repeat None n).
  Proof. induction n; simpl; constructor; auto. reflexivity. Qed.

  Lemma lst_of_hr m s k p : HR m s -> lst_of m k p = lst_of s k p.
  Proof. intros H. unfold lst_of. rewrite (hr_l _ _ H). reflexivity. Qed.

  Lemma enqueue_hr m s e : HR m s -> HR (hdo_enqueue true m e) (hdo_enqueue false s e).
  Proof.
    intros H. unfold hdo_enqueue.
    destruct (hf m) as [|x fl] eqn:Ef.
    - simpl. hr_build H.
      apply h_forall_app; [exact Hs|constructor; [discriminate|constructor]].
    - assert (Hx : x = None).
      { destruct H as [_ Hf _ _ _ _ _ _ _ _ _ _]. rewrite Ef in Hf. inversion Hf; subst; auto. }
      subst x. simpl. hr_build H.
      + rewrite Ef in Hf. inversion Hf; auto.
      + apply h_forall_app; [exact Hs|constructor; [discriminate|constructor]].
  Qed.

  Lemma recycle_hr m s n : HR m s -> HR (hrecycle true m n) (hrecycle false s n).
  Proof.
    intros H. unfold hrecycle. hr_build H.
    apply h_forall_app; [exact Hf|apply h_forall_repeat_none].
  Qed.

  Definition HRecSim (rm rs : hstate -> list hcmd -> option hstate) : Prop :=
    forall m s cs m', HR m s -> rm m cs = Some m' -> exists s', rs s cs = Some s' /\ HR m' s'.

  Section Loops.
    Variable rm rs : hstate -> list hcmd -> option hstate.
    Hypothesis HS : HRecSim rm rs.

    Lemma call_all_hr k p v : forall todo m s m',
      HR m s -> hcall_all arity behav rm m k p todo v = Some m' ->
      exists s', hcall_all arity behav rs s k p todo v = Some s' /\ HR m' s'.
    Proof.
      induction todo as [|[h c] rest IH]; intros m s m' H Hc; simpl in *.
      - inversion Hc; subst. eauto.
      - rewrite <- (lst_of_hr m s k p H).
        destruct (hhas_l h (lst_of m k p)); [|apply (IH m s m' H Hc)].
        cbv zeta in Hc |- *. simpl in Hc |- *.
        assert (Ea : hcacts m = hcacts s) by apply (hr_ca _ _ H).
        rewrite <- Ea.
        assert (H2 : HR (hupd_cacts (hlog m (HCall c k p (pval arity p v))) (h_aset c (S (hact_of (hcacts m) c)) (hcacts m)))
                        (hupd_cacts (hlog s (HCall c k p (pval arity p v))) (h_aset c (S (hact_of (hcacts m) c)) (hcacts m)))).
        { hr_build H. }
        match type of Hc with (match ?X with _ => _ end = _) => destruct X as [m3|] eqn:Er; [|discriminate] end.
        destruct (HS _ _ _ m3 H2 Er) as [s3 [A B]].
        rewrite A. apply (IH m3 s3 m' B Hc).
    Qed.

    Lemma dispatch_hr m s k ak v m' :
      HR m s -> hdispatch np callable arity behav rm m k ak v = Some m' ->
      exists s', hdispatch np callable arity behav rs s k ak v = Some s' /\ HR m' s'.
    Proof.
      intros H Hd. unfold hdispatch in *.
      destruct (first_args np callable ak) as [[i t]|]; [|discriminate].
      rewrite <- (lst_of_hr m s k i H). apply (call_all_hr k i v _ m s m' H Hd).
    Qed.

    Lemma dispatch_event_hr m s e m' :
      HR m s -> hdispatch_event np callable own arity behav rm m e = Some m' ->
      exists s', hdispatch_event np callable own arity behav rs s e = Some s' /\ HR m' s'.
    Proof. unfold hdispatch_event. apply dispatch_hr. Qed.

    Lemma eval_pred_hr m s pk p ty e m' v :
      HR m s -> heval_pred arity pbehav rm m pk p ty e = Some (m', v) ->
      exists s', heval_pred arity pbehav rs s pk p ty e = Some (s', v) /\ HR m' s'.
    Proof.
      intros H Hp. unfold heval_pred in *. cbv zeta in Hp |- *. simpl in Hp |- *.
      assert (Ea : hpacts m = hpacts s) by apply (hr_pa _ _ H).
      rewrite <- Ea.
      assert (H2 : HR (hupd_pacts (hlog m (HPred p pk (etag e) (pval arity ty (eval e)))) (h_aset p (S (hact_of (hpacts m) p)) (hpacts m)))
                      (hupd_pacts (hlog s (HPred p pk (etag e) (pval arity ty (eval e)))) (h_aset p (S (hact_of (hpacts m) p)) (hpacts m)))).
      { hr_build H. }
      destruct (pbehav p (hact_of (h_aset p (S (hact_of (hpacts m) p)) (hpacts m)) p)) as [body verdict].
      match type of Hp with (match ?X with _ => _ end = _) => destruct X as [m3|] eqn:Er; [|discriminate] end.
      inversion Hp; subst.
      destruct (HS _ _ _ m' H2 Er) as [s3 [A B]]. rewrite A. eauto.
    Qed.

    Lemma slot_clear_hr m s e : HR m s -> HR (hslot_clear m (Some e)) (hslot_clear s (Some e)).
    Proof. intros H. exact H. Qed.

    Lemma process_loop_hr : forall temp m s m',
      Forall h_is_some temp -> HR m s -> hprocess_loop np callable own arity behav rm m temp = Some m' ->
      exists s', hprocess_loop np callable own arity behav rs s temp = Some s' /\ HR m' s'.
    Proof.
      induction temp as [|x rest IH]; intros m s m' Ht H Hp; simpl in *.
      - inversion Hp; subst; eauto.
      - inversion Ht as [|? ? Hx Hrest]; subst. destruct x as [e|]; [|exfalso; apply Hx; reflexivity].
        destruct (hdispatch_event np callable own arity behav rm m e) as [m1|] eqn:Ed; [|discriminate].
        destruct (dispatch_event_hr m s _ m1 H Ed) as [s1 [A B]]. rewrite A.
        apply (IH _ _ m' Hrest (slot_clear_hr m1 s1 e B) Hp).
    Qed.

    (* one round of doProcessIf at (lab, ty = lab): the typed access happens only after the tag test
       has established that the slot holds prototype lab *)
    Lemma pif_loop_hr pk p lab : forall temp m s kept idle m' kept' idle',
      Forall h_is_some temp -> HR m s ->
      hpif_loop np callable own arity true true behav pbehav rm m pk p lab lab temp kept idle = Some (m', kept', idle') ->
      exists s', hpif_loop np callable own arity false true behav pbehav rs s pk p lab lab temp kept idle = Some (s', kept', idle') /\ HR m' s' /\
                 (Forall h_is_some kept -> Forall h_is_some kept').
    Proof.
      induction temp as [|x rest IH]; intros m s kept idle m' kept' idle' Ht H Hp; simpl in *.
      - inversion Hp; subst. exists s. split; [reflexivity|]. split; [exact H|].
        intros Hk. apply Forall_rev. exact Hk.
      - inversion Ht as [|? ? Hx Hrest]; subst. destruct x as [e|]; [|exfalso; apply Hx; reflexivity].
        unfold chk' in *. simpl in Hp |- *.
        destruct (GenHeter.processif_skip (Z.of_nat (etag e)) (Z.of_nat lab)) eqn:Esk.
        + destruct (IH _ _ _ _ m' kept' idle' Hrest H Hp) as [s' [X [Y Z]]].
          exists s'. split; [exact X|]. split; [exact Y|].
          intros Hk. apply Z. constructor; [discriminate|exact Hk].
        + (* not skipped: the tag is lab, so the typed read is at the slot's own type *)
          assert (Etag : etag e = lab).
          { unfold GenHeter.processif_skip in Esk. apply negb_false_iff in Esk. apply Z.eqb_eq in Esk. lia. }
          unfold typed_read in Hp. rewrite Etag, Nat.eqb_refl in Hp. unfold typed_read.
          rewrite <- Etag in Hp |- *.
          destruct (heval_pred arity pbehav rm m pk p (etag e) e) as [[m1 v]|] eqn:Ep; [|discriminate].
          destruct (eval_pred_hr m s pk p (etag e) e m1 v H Ep) as [s1 [A B]]. rewrite A.
          destruct v.
          * destruct (hdispatch_event np callable own arity behav rm m1 e) as [m2|] eqn:Ed; [|discriminate].
            destruct (dispatch_event_hr m1 s1 _ m2 B Ed) as [s2 [C D]]. rewrite C.
            rewrite Etag in Hp |- *.
            apply (IH _ _ _ _ m' kept' idle' Hrest (slot_clear_hr m2 s2 e D) Hp).
          * rewrite Etag in Hp |- *.
            destruct (IH _ _ _ _ m' kept' idle' Hrest B Hp) as [s' [X [Y Z]]].
            exists s'. split; [exact X|]. split; [exact Y|].
            intros Hk. apply Z. constructor; [discriminate|exact Hk].
    Qed.

    Lemma putback_hr m s kept :
      HR m s -> Forall h_is_some kept ->
      HR (hupd_q m (kept ++ hq m) (hf m)) (hupd_q s (kept ++ hq s) (hf s)).
    Proof.
      intros H Hk. hr_build H. apply h_forall_app; [exact Hk|exact Hs].
    Qed.

    Lemma dec_hr m s : HR m s -> HR (hupd_ecount m (pred (hecount m))) (hupd_ecount s (pred (hecount s))).
    Proof. intros H. hr_build H. Qed.

    Lemma swapout_hr m s ql : HR m s -> Forall h_is_some ql ->
      HR (hupd_q (hupd_ecount m (S (hecount m))) ql (hf m)) (hupd_q (hupd_ecount s (S (hecount s))) ql (hf s)).
    Proof. intros H Hq'. hr_build H. Qed.

    Lemma pif_rounds_hr pk p : forall n round m s m' b,
      round_ok np callable pk round -> HR m s ->
      hpif_rounds np callable own arity true true true behav pbehav rm n m pk p round = Some (m', b) ->
      exists s', hpif_rounds np callable own arity false true true behav pbehav rs n s pk p round = Some (s', b) /\ HR m' s'.
    Proof.
      induction n as [|n IH]; intros round m s m' b Hr H Hp; simpl in *.
      - inversion Hp; subst. eauto.
      - destruct round as [[lab ty]|]; [|inversion Hp; subst; eauto].
        destruct Hr as [<- [Hlt Hcal]].
        rewrite <- (hr_q _ _ H).
        set (m1 := hupd_q (hupd_ecount m (S (hecount m))) [] (hf m)) in Hp.
        set (s1 := hupd_q (hupd_ecount s (S (hecount s))) [] (hf s)).
        assert (H1 : HR m1 s1) by (apply swapout_hr; [exact H|constructor]).
        destruct (hpif_loop np callable own arity true true behav pbehav rm m1 pk p lab lab (hq m) [] 0) as [[[m2 kept] idle]|] eqn:El; [|discriminate].
        destruct (pif_loop_hr pk p lab (hq m) m1 s1 [] 0 m2 kept idle (hr_some _ _ H) H1 El) as [s2 [A [B C]]].
        fold s1. rewrite A.
        assert (H3 := putback_hr m2 s2 kept B (C (Forall_nil _))).
        destruct idle as [|i].
        + unfold rem' in *. simpl in Hp |- *.
          match type of Hp with (match ?X with _ => _ end = _) => destruct X as [[m4 b4]|] eqn:Er; [|discriminate] end.
          destruct (IH _ _ _ m4 b4 (next_round_ok np callable pk lab) H3 Er) as [s4 [D E]].
          rewrite D. inversion Hp; subst. eexists; split; [reflexivity|]. apply dec_hr. exact E.
        + inversion Hp; subst. eexists; split; [reflexivity|].
          exact (dec_hr _ _ (recycle_hr _ _ (S i) H3)).
    Qed.

    Lemma add_listener_hr m s k i c h place : HR m s -> HR (hadd_listener m k i c h place) (hadd_listener s k i c h place).
    Proof.
      intros H. unfold hadd_listener, lst_of. rewrite (hr_l _ _ H), (hr_nh _ _ H), (hr_hr _ _ H). hr_build H.
    Qed.

    Lemma log_hr m s e : HR m s -> HR (hlog m e) (hlog s e).
    Proof. intros H. hr_build H. Qed.

    Lemma step_hr m s c m' :
      HR m s -> mstep rm m c = Some m' -> exists s', sstep rs s c = Some s' /\ HR m' s'.
    Proof.
      intros H Hc.
      assert (Eq : hq m = hq s) by apply (hr_q _ _ H).
      assert (Es : Forall h_is_some (hq m)) by apply (hr_some _ _ H).
      assert (Ehr : hregs m = hregs s) by apply (hr_hr _ _ H).
      destruct c; unfold h_step in Hc |- *.
      - (* append *)
        destruct (first_callable np callable ck) as [[i t]|]; [|discriminate].
        inversion Hc; subst. eexists; split; [reflexivity|apply add_listener_hr; exact H].
      - destruct (first_callable np callable ck) as [[i t]|]; [|discriminate].
        inversion Hc; subst. eexists; split; [reflexivity|apply add_listener_hr; exact H].
      - (* insert *)
        destruct (first_callable np callable ck) as [[i t]|]; [|discriminate].
        rewrite <- Ehr. destruct (h_alookup hb (hregs m)) as [[[k' i'] b]|].
        + destruct (Nat.eqb k' k); [|discriminate]. rewrite <- (lst_of_hr m s k i H).
          destruct (Nat.eqb i' i && hhas_l b (lst_of m k i)); inversion Hc; subst; (eexists; split; [reflexivity|apply add_listener_hr; exact H]).
        + inversion Hc; subst. eexists; split; [reflexivity|apply add_listener_hr; exact H].
      - (* remove *)
        rewrite <- Ehr. destruct (h_alookup h (hregs m)) as [[[k' i] b]|].
        + destruct (Nat.eqb k' k); [|discriminate]. rewrite <- (lst_of_hr m s k i H).
          destruct (hhas_l b (lst_of m k i)); inversion Hc; subst; (eexists; split; [reflexivity|]).
          * rewrite (hr_l _ _ H), (hr_nh _ _ H), Ehr. hr_build H.
          * hr_build H.
        + inversion Hc; subst. eexists; split; [reflexivity|hr_build H].
      - apply (dispatch_hr m s k ak v m' H Hc).
      - (* enqueue *)
        destruct (first_args np callable ak) as [[i t]|]; [|discriminate].
        inversion Hc; subst. eexists; split; [reflexivity|]. apply enqueue_hr. exact H.
      - (* process *)
        rewrite <- Eq. destruct (hq m) as [|x t] eqn:E.
        + inversion Hc; subst. eexists; split; [reflexivity|hr_build H].
        + set (m1 := hupd_q (hupd_ecount m (S (hecount m))) [] (hf m)) in Hc.
          set (s1 := hupd_q (hupd_ecount s (S (hecount s))) [] (hf s)).
          assert (H1 : HR m1 s1) by (apply swapout_hr; [exact H|constructor]).
          destruct (hprocess_loop np callable own arity behav rm m1 (x :: t)) as [m2|] eqn:Ep; [|discriminate].
          destruct (process_loop_hr (x :: t) m1 s1 m2 Es H1 Ep) as [s2 [A B]]. fold s1. rewrite A.
          injection Hc as <-. cbv zeta. eexists; split; [reflexivity|].
          exact (log_hr _ _ _ (dec_hr _ _ (recycle_hr _ _ (length (x :: t)) B))).
      - (* processOne *)
        rewrite <- Eq. destruct (hq m) as [|x t] eqn:E.
        + inversion Hc; subst. eexists; split; [reflexivity|hr_build H].
        + inversion Es as [|? ? Hx Htl]; subst.
          set (m1 := hupd_q (hupd_ecount m (S (hecount m))) t (hf m)) in Hc.
          set (s1 := hupd_q (hupd_ecount s (S (hecount s))) t (hf s)).
          assert (H1 : HR m1 s1) by (apply swapout_hr; [exact H|exact Htl]).
          destruct (hprocess_loop np callable own arity behav rm m1 [x]) as [m2|] eqn:Ep; [|discriminate].
          destruct (process_loop_hr [x] m1 s1 m2 (Forall_cons _ Hx (Forall_nil _)) H1 Ep) as [s2 [A B]]. fold s1. rewrite A.
          injection Hc as <-. cbv zeta. eexists; split; [reflexivity|].
          exact (log_hr _ _ _ (dec_hr _ _ (recycle_hr _ _ 1 B))).
      - (* processIf *)
        rewrite <- Eq. destruct (hq m) as [|x t] eqn:E.
        + inversion Hc; subst. eexists; split; [reflexivity|hr_build H].
        + destruct (hpif_rounds np callable own arity true true true behav pbehav rm (S np) m pk p (first_callable np callable pk)) as [[m1 b]|] eqn:Er; [|discriminate].
          destruct (pif_rounds_hr pk p (S np) _ m s m1 b (first_round_ok np callable pk) H Er) as [s1 [A B]].
          rewrite A. inversion Hc; subst. eexists; split; [reflexivity|]. apply log_hr. exact B.
      - (* clear *)
        rewrite <- Eq. destruct (hq m) as [|x t] eqn:E.
        + inversion Hc; subst. eauto.
        + injection Hc as <-. eexists; split; [reflexivity|].
          assert (H0 : HR (hupd_q m [] (hf m)) (hupd_q s [] (hf s))) by (hr_build H).
          exact (recycle_hr _ _ (length (x :: t)) H0).
      - (* emptyQueue *)
        inversion Hc; subst. eexists; split; [reflexivity|]. rewrite Eq, (hr_e _ _ H). hr_build H.
      - (* ledger *)
        inversion Hc; subst. eexists; split; [reflexivity|]. rewrite Eq. hr_build H.
    Qed.

    Lemma seq_hr : forall cs m s m',
      HR m s -> h_seq np callable own arity counted true true true behav pbehav rm m cs = Some m' ->
      exists s', h_seq np callable own arity counted false true true behav pbehav rs s cs = Some s' /\ HR m' s'.
    Proof.
      induction cs as [|c r IH]; intros m s m' H Hc; simpl in *.
      - inversion Hc; subst; eauto.
      - destruct (mstep rm m c) as [m1|] eqn:E; [|discriminate].
        destruct (step_hr m s c m1 H E) as [s1 [A B]]. rewrite A. apply (IH m1 s1 m' B Hc).
    Qed.
  End Loops.

  Lemma run_hr : forall fuel,
    HRecSim (h_run np callable own arity counted true true true behav pbehav fuel)
            (h_run np callable own arity counted false true true behav pbehav fuel).
  Proof.
    induction fuel as [|f IH]; intros m s cs m' H Hc; simpl in *; [discriminate|].
    apply (seq_hr _ _ IH cs m s m' H Hc).
  Qed.

  Lemma init_hr : HR h_init h_init.
  Proof. constructor; simpl; auto. Qed.

  (* stated for the facts as tie A reads them: usable as soon as both are true *)
  Theorem heter_queue_refines_spec (chk rem : bool) fuel prog m' :
    chk = true -> rem = true ->
    h_run np callable own arity counted true chk rem behav pbehav fuel h_init prog = Some m' ->
    exists s', h_run np callable own arity counted false true true behav pbehav fuel h_init prog = Some s' /\
               htrace m' = htrace s' /\ herr m' = false /\ HR m' s'.
  Proof.
    intros -> -> H. destruct (run_hr fuel h_init h_init prog m' init_hr H) as [s' [A B]].
    exists s'. split; [exact A|]. split; [apply (hr_t _ _ B)|]. split; [apply (hr_err _ _ B)|exact B].
  Qed.
End Refine.
