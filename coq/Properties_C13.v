(* Properties_C13.v — C13: OrderedQueueList processes events in comparator order, stably,
   exactly once.  klt is ANY strict weak order on event keys (Section hypotheses in
   QOrdered.v); the comparison lambda of doSort is the generated GenQ.slot_lt. *)
From Coq Require Import List Arith NArith ZArith Bool Permutation Sorted.
From EV Require Import QModel QRefine QOrdered.
Import ListNotations.

(* exactly-once guarantees carry over: with the ordered policy the mechanism refines the
   specification whose pending list is re-sorted (stably) after every splice *)
Theorem C13_ordered_exactly_once :
  forall klt behav pbehav fuel prog m',
    q_run true true klt behav pbehav fuel q_init prog = Some m' ->
    exists s', q_run false true klt behav pbehav fuel q_init prog = Some s' /\
               qtrace m' = qtrace s' /\ qerr m' = false /\ QR m' s'.
Proof. intros klt. exact (queue_refines_fifo true klt). Qed.
Print Assumptions C13_ordered_exactly_once.

Section AnyStrictWeakOrder.
  Variable klt : nat -> nat -> bool.
  Hypothesis klt_irrefl : forall a, klt a a = false.
  Hypothesis klt_trans : forall a b c, klt a b = true -> klt b c = true -> klt a c = true.
  Hypothesis klt_incomp_trans : forall a b c,
    klt a b = false -> klt b a = false -> klt b c = false -> klt c b = false -> klt a c = false /\ klt c a = false.

  (* the sort loses and duplicates nothing *)
  Theorem C13_sort_is_permutation : forall l, Permutation l (ssort klt l).
  Proof. exact (ssort_perm klt). Qed.

  (* a processing call dispatches the list front to back: no event is strictly smaller than one before it *)
  Theorem C13_sorted_no_inversion : forall l, StronglySorted (sle klt) (ssort klt l).
  Proof. exact (ssort_sorted klt klt_irrefl klt_trans klt_incomp_trans). Qed.

  (* re-sorting a queue that is in order changes nothing — events that compare equal keep their order *)
  Theorem C13_sort_stable_on_sorted : forall l, StronglySorted (sle klt) l -> ssort klt l = l.
  Proof. exact (ssort_sorted_id klt). Qed.

  (* a newly enqueued event goes behind every pending event it is not strictly smaller than
     (equal keys: enqueue order) and in front of all strictly greater ones *)
  Theorem C13_enqueue_merges_stably :
    forall l x, StronglySorted (sle klt) l ->
      exists a b, ssort klt (l ++ [x]) = a ++ x :: b /\ l = a ++ b /\
                  Forall (fun y => sle klt y x) a /\ Forall (fun y => slot_lt klt x y = true) b.
  Proof. exact (enqueue_stable klt klt_trans klt_incomp_trans). Qed.

  (* the recycled (empty) slots of the free list are left alone, and the user comparator is
     never applied to an empty slot *)
  Theorem C13_free_list_harmless : forall n, ssort klt (repeat None n) = repeat None n.
  Proof. exact (free_list_harmless klt). Qed.

  Theorem C13_comparator_never_sees_empty_slot :
    (forall b, slot_lt klt None b = match b with None => false | Some _ => true end) /\
    (forall a, slot_lt klt a None = false).
  Proof. exact (conj (slot_lt_none_l klt) (slot_lt_none_r klt)). Qed.
End AnyStrictWeakOrder.
Print Assumptions C13_sort_is_permutation.
Print Assumptions C13_free_list_harmless.
Print Assumptions C13_comparator_never_sees_empty_slot.
Print Assumptions C13_sorted_no_inversion.
Print Assumptions C13_enqueue_merges_stably.
Print Assumptions C13_sort_stable_on_sorted.

(* non-vacuity: the strict-weak-order hypotheses hold for "key mod 3 ascending" (non-trivial incomparability) *)
Definition mod3lt (a b : nat) : bool := Nat.ltb (a mod 3) (b mod 3).
Example C13_hypotheses_satisfiable :
  (forall a, mod3lt a a = false) /\
  (forall a b c, mod3lt a b = true -> mod3lt b c = true -> mod3lt a c = true) /\
  (forall a b c, mod3lt a b = false -> mod3lt b a = false -> mod3lt b c = false -> mod3lt c b = false ->
                 mod3lt a c = false /\ mod3lt c a = false).
Proof.
  unfold mod3lt. split; [|split].
  - intros a. apply Nat.ltb_irrefl.
  - intros a b c H1 H2. apply Nat.ltb_lt in H1, H2. apply Nat.ltb_lt. eapply Nat.lt_trans; eauto.
  - intros a b c H1 H2 H3 H4. apply Nat.ltb_ge in H1, H2, H3, H4. split; apply Nat.ltb_ge.
    + apply Nat.le_trans with (b mod 3); assumption.
    + apply Nat.le_trans with (b mod 3); assumption.
Qed.
