(* QConcOrder.v — C06, ordering clause, positive part: in every execution in which no processIf / processUntil has put
   events back, each thread consumes events in the order in which they were put into the queue.

   S = rev g_settled is the order in which events entered queueList (one producer's events enter in its program order:
   it makes one enqueue call at a time).  Without put-backs the list is a FIFO: S = removed ++ queueList at all times.
   For every thread t:  the events t has dispatched so far (dby t), followed by the events it has taken out of the list
   and not yet dispatched, form a subsequence of `removed`; likewise for the events handed out by takeEvent (tby t).
   Hence (order_of_dispatch / order_of_take): dby t and tby t are subsequences of S — thread t's dispatches, and its takes,
   come in queue-entry order.  The put-back case is the known finding P10 (Properties_C06: ..._refuted). *)
From Coq Require Import List Arith NArith ZArith Bool Lia.
From EV Require Import QConc QConcInv QConcEmpty QConcGen.
From EV.gen Require GenQ GenQConc.
Import ListNotations.
Local Open Scope nat_scope.

Inductive subseq {A : Type} : list A -> list A -> Prop :=
| ss_nil : subseq [] []
| ss_skip x l r : subseq l r -> subseq l (x :: r)
| ss_take x l r : subseq l r -> subseq (x :: l) (x :: r).

Lemma subseq_nil {A} (r : list A) : subseq [] r.
Proof. induction r; [apply ss_nil|apply ss_skip; assumption]. Qed.
Lemma subseq_refl {A} (l : list A) : subseq l l.
Proof. induction l; [apply ss_nil|apply ss_take; assumption]. Qed.
Lemma subseq_app_r {A} (l r x : list A) : subseq l r -> subseq l (r ++ x).
Proof. induction 1; cbn [app]; [apply subseq_nil|apply ss_skip; assumption|apply ss_take; assumption]. Qed.
Lemma subseq_app_both {A} (a b x : list A) : subseq a b -> subseq (a ++ x) (b ++ x).
Proof. induction 1; cbn [app]; [apply subseq_refl|apply ss_skip; assumption|apply ss_take; assumption]. Qed.
Lemma subseq_app_l {A} (x y z : list A) : subseq y z -> subseq (x ++ y) (x ++ z).
Proof. intros H. induction x; cbn [app]; [exact H|apply ss_take; assumption]. Qed.
Lemma subseq_trans {A} (a b c : list A) : subseq a b -> subseq b c -> subseq a c.
Proof.
  intros H1 H2. revert a H1. induction H2 as [|x l r H IH|x l r H IH]; intros a H1.
  - exact H1.
  - apply ss_skip. apply IH. exact H1.
  - inversion H1; subst; [apply ss_skip; apply IH; assumption|apply ss_take; apply IH; assumption].
Qed.
Lemma subseq_filter {A} (p : A -> bool) (l : list A) : subseq (filter p l) l.
Proof. induction l as [|x l IH]; cbn [filter]; [apply ss_nil|]. destruct (p x); [apply ss_take|apply ss_skip]; exact IH. Qed.
Lemma subseq_app_mid {A} (a y z r x : list A) : subseq (a ++ z) r -> subseq y z -> subseq (a ++ y) r.
Proof. intros H1 H2. eapply subseq_trans; [apply subseq_app_l; exact H2|exact H1]. Qed.

Lemma split_until_sub p l : subseq (fst (split_until p l)) l /\ subseq (snd (split_until p l)) l /\
                            (fst (split_until p l) = [] -> snd (split_until p l) = l).
Proof.
  induction l as [|e r IH]; cbn [split_until]; [repeat split; apply ss_nil|].
  destruct (pverdict p e).
  - cbn [fst snd]. repeat split; [apply subseq_nil|apply subseq_refl].
  - destruct (split_until p r) as [a b]. cbn [fst snd] in *. destruct IH as (A & B & C).
    repeat split; [apply ss_take; exact A|apply ss_skip; exact B|intros X; discriminate X].
Qed.

Lemma filter_none_all {A} (p : A -> bool) l : filter p l = [] -> filter (fun e => negb (p e)) l = l.
Proof.
  induction l as [|x l IH]; cbn [filter]; [reflexivity|]. destruct (p x); cbn [negb]; [discriminate|]. intros H. rewrite (IH H). reflexivity.
Qed.

(* what thread t has dispatched / been handed by takeEvent, oldest first *)
Definition byt (t : nat) (g : list (nat * cevt)) : list cevt := map snd (filter (fun p => Nat.eqb (fst p) t) (rev g)).
Definition dby (t : nat) (sh : qshared) : list cevt := byt t (g_disp sh).
Definition tby (t : nat) (sh : qshared) : list cevt := byt t (g_taken sh).

Lemma byt_add u t es g : byt u (rev (map (pair t) es) ++ g) = if Nat.eqb u t then byt u g ++ es else byt u g.
Proof.
  unfold byt. rewrite rev_app_distr, rev_involutive, filter_app, map_app.
  assert (X : map snd (filter (fun p : nat * cevt => Nat.eqb (fst p) u) (map (pair t) es)) = if Nat.eqb u t then es else []).
  { induction es as [|e r IH]; cbn [map filter fst]; [destruct (Nat.eqb u t); reflexivity|].
    rewrite (Nat.eqb_sym t u). destruct (Nat.eqb u t); cbn [map snd]; [rewrite IH; reflexivity|exact IH]. }
  rewrite X. destruct (Nat.eqb u t); [reflexivity|apply app_nil_r].
Qed.

(* ---------- what one piece of local code may do ---------- *)
Definition same (lo lo' : qlocals) : Prop := ltemp lo' = ltemp lo /\ lidle lo' = lidle lo.

Inductive ostep (t : nat) (sh : qshared) (lo : qlocals) (sh' : qshared) (lo' : qlocals) : Prop :=
| os_same : ql sh' = ql sh -> g_settled sh' = g_settled sh -> g_disp sh' = g_disp sh -> g_taken sh' = g_taken sh ->
            g_putbacks sh' = g_putbacks sh -> subseq (ltemp lo') (ltemp lo) -> (lidle lo' = 0 -> lidle lo = 0) ->
            ostep t sh lo sh' lo'
| os_push e : ql sh' = ql sh ++ [e] -> g_settled sh' = e :: g_settled sh -> g_disp sh' = g_disp sh -> g_taken sh' = g_taken sh ->
            g_putbacks sh' = g_putbacks sh -> same lo lo' -> ostep t sh lo sh' lo'
| os_take k : ql sh' = skipn k (ql sh) -> ltemp lo' = firstn k (ql sh) -> ltemp lo = [] ->
            g_settled sh' = g_settled sh -> g_disp sh' = g_disp sh -> g_taken sh' = g_taken sh ->
            g_putbacks sh' = g_putbacks sh -> lidle lo' = lidle lo -> ostep t sh lo sh' lo'
| os_disp yes : lidle lo = 0 -> subseq yes (ltemp lo) -> subseq (ltemp lo') (ltemp lo) -> (yes = [] -> ltemp lo' = ltemp lo) ->
            (lidle lo' = 0 -> yes = []) ->
            g_disp sh' = rev (map (pair t) yes) ++ g_disp sh -> ql sh' = ql sh -> g_settled sh' = g_settled sh -> g_taken sh' = g_taken sh ->
            g_putbacks sh' = g_putbacks sh -> ostep t sh lo sh' lo'
| os_takelog : lidle lo = 0 -> g_taken sh' = rev (map (pair t) (ltemp lo)) ++ g_taken sh -> ltemp lo' = [] ->
            ql sh' = ql sh -> g_settled sh' = g_settled sh -> g_disp sh' = g_disp sh ->
            g_putbacks sh' = g_putbacks sh -> ostep t sh lo sh' lo'
| os_putback : g_putbacks sh' = S (g_putbacks sh) -> ostep t sh lo sh' lo'.

(* ---------- the invariant ---------- *)
Definition H (t : nat) (sh : qshared) (lo : qlocals) (removed : list cevt) : Prop :=
  subseq (dby t sh) removed /\ subseq (tby t sh) removed /\
  (lidle lo = 0 -> subseq (dby t sh ++ ltemp lo) removed /\ subseq (tby t sh ++ ltemp lo) removed).

Definition OI (sh : qshared) (los : list qlocals) : Prop :=
  g_putbacks sh = 0 ->
  exists removed, rev (g_settled sh) = removed ++ ql sh /\
                  forall t lo, nth_error los t = Some lo -> H t sh lo removed.

Lemma nth_mid_cases {A} (a : list A) x y b u l :
  nth_error (a ++ x :: b) u = Some l -> (u = length a /\ l = x) \/ (u <> length a /\ nth_error (a ++ y :: b) u = Some l).
Proof.
  revert u. induction a as [|z r IH]; intros [|u] Hn; cbn [app nth_error length] in *.
  - left. split; [reflexivity|congruence].
  - right. split; [discriminate|exact Hn].
  - right. split; [discriminate|exact Hn].
  - destruct (IH u Hn) as [[A1 A2]|[A1 A2]]; [left; split; [f_equal; exact A1|exact A2]|right; split; [intros X; apply A1; injection X; auto|exact A2]].
Qed.

Lemma nth_mid_at {A} (a : list A) x b : nth_error (a ++ x :: b) (length a) = Some x.
Proof. induction a as [|y r IH]; cbn [app length nth_error]; auto. Qed.

Lemma H_ext t sh lo removed x : H t sh lo removed -> H t sh lo (removed ++ x).
Proof.
  intros (A & B & C). split; [apply subseq_app_r; exact A|]. split; [apply subseq_app_r; exact B|].
  intros Z. destruct (C Z) as [C1 C2]. split; apply subseq_app_r; assumption.
Qed.

Lemma H_sh t sh sh' lo removed : g_disp sh' = g_disp sh -> g_taken sh' = g_taken sh -> H t sh lo removed -> H t sh' lo removed.
Proof. intros A B. unfold H, dby, tby. rewrite A, B. auto. Qed.

Lemma OI_step sh a lo b sh' lo' : OI sh (a ++ lo :: b) -> ostep (length a) sh lo sh' lo' -> OI sh' (a ++ lo' :: b).
Proof.
  intros HO St P'. destruct St as [Eq Es Ed Et Ep Hs Hi | e Eq Es Ed Et Ep [S1 S2] | k Eq El El0 Es Ed Et Ep Hi
                                  | yes Hi0 Hy Hs Hy0 Hi' Ed Eq Es Et Ep | Hi0 Et El Eq Es Ed Ep | Ep]; [| | | | |lia].
  - (* same *)
    rewrite Ep in P'. destruct (HO P') as (rem & ES & HH). exists rem. rewrite Eq, Es. split; [exact ES|].
    intros u l Hu. destruct (nth_mid_cases a lo' lo b u l Hu) as [[-> ->]|[Hne Hu']].
    + pose proof (HH (length a) lo (nth_mid_at a lo b)) as X.
      apply (H_sh _ sh); auto. destruct X as (A & B & C). split; [exact A|]. split; [exact B|].
      intros Z. destruct (C (Hi Z)) as [C1 C2]. split; eapply subseq_app_mid; eauto.
    + apply (H_sh _ sh); auto.
  - (* push *)
    rewrite Ep in P'. destruct (HO P') as (rem & ES & HH). exists rem. rewrite Eq, Es. cbn [rev]. rewrite ES. split; [rewrite app_assoc; reflexivity|].
    intros u l Hu. destruct (nth_mid_cases a lo' lo b u l Hu) as [[-> ->]|[Hne Hu']].
    + pose proof (HH (length a) lo (nth_mid_at a lo b)) as X.
      apply (H_sh _ sh); auto. unfold H in *. rewrite S1, S2. exact X.
    + apply (H_sh _ sh); auto.
  - (* take from the front *)
    rewrite Ep in P'. destruct (HO P') as (rem & ES & HH). exists (rem ++ firstn k (ql sh)). rewrite Eq, Es. split.
    { rewrite ES. rewrite <- app_assoc. rewrite firstn_skipn. reflexivity. }
    intros u l Hu. destruct (nth_mid_cases a lo' lo b u l Hu) as [[-> ->]|[Hne Hu']].
    + pose proof (HH (length a) lo (nth_mid_at a lo b)) as X.
      apply (H_sh _ sh); auto. destruct X as (A & B & C). split; [apply subseq_app_r; exact A|]. split; [apply subseq_app_r; exact B|].
      intros _. rewrite El. split; apply subseq_app_both; assumption.
    + apply (H_sh _ sh); auto. apply H_ext. apply HH. exact Hu'.
  - (* dispatch *)
    rewrite Ep in P'. destruct (HO P') as (rem & ES & HH). exists rem. rewrite Eq, Es. split; [exact ES|].
    intros u l Hu. destruct (nth_mid_cases a lo' lo b u l Hu) as [[-> ->]|[Hne Hu']].
    + pose proof (HH (length a) lo (nth_mid_at a lo b)) as X.
      destruct X as (A & B & C). destruct (C Hi0) as [C1 C2].
      unfold H, dby, tby. rewrite Ed, Et, byt_add, Nat.eqb_refl.
      split; [eapply subseq_app_mid; eauto|]. split; [exact B|].
      intros Z. rewrite (Hi' Z), app_nil_r. rewrite (Hy0 (Hi' Z)). split; assumption.
    + specialize (HH u l Hu'). unfold H, dby, tby in *. rewrite Ed, Et, byt_add.
      apply Nat.eqb_neq in Hne. rewrite Hne. exact HH.
  - (* takeEvent hands the event out *)
    rewrite Ep in P'. destruct (HO P') as (rem & ES & HH). exists rem. rewrite Eq, Es. split; [exact ES|].
    intros u l Hu. destruct (nth_mid_cases a lo' lo b u l Hu) as [[-> ->]|[Hne Hu']].
    + pose proof (HH (length a) lo (nth_mid_at a lo b)) as X.
      destruct X as (A & B & C). destruct (C Hi0) as [C1 C2].
      unfold H, dby, tby. rewrite Ed, Et, byt_add, Nat.eqb_refl, El, !app_nil_r.
      split; [exact A|]. split; [exact C2|]. intros _. split; assumption.
    + specialize (HH u l Hu'). unfold H, dby, tby in *. rewrite Ed, Et, byt_add.
      apply Nat.eqb_neq in Hne. rewrite Hne. exact HH.
Qed.

(* ---------- the obligations of QConcGen ---------- *)
Lemma same_refl l : same l l.
Proof. split; reflexivity. Qed.
Lemma same_reg l v : same l (lo_reg l v).
Proof. split; reflexivity. Qed.
Lemma same_to l b : same l (lo_to l b).
Proof. split; reflexivity. Qed.
Lemma same_held l n : same l (lo_held l n).
Proof. split; reflexivity. Qed.

Lemma OI_eq sh sh' los : vis_eq sh sh' -> OI sh los -> OI sh' los.
Proof.
  intros (E1 & _ & _ & _ & E5 & E6 & _ & E8 & E9 & _ & _) HO. unfold OI, H, dby, tby in *. rewrite E1, E5, E6, E8, E9. exact HO.
Qed.

Lemma OI_same sh a lo lo' b : same lo lo' -> OI sh (a ++ lo :: b) -> OI sh (a ++ lo' :: b).
Proof.
  intros [S1 S2] HO P. destruct (HO P) as (rem & ES & HH). exists rem. split; [exact ES|].
  intros u l Hu. destruct (nth_mid_cases a lo' lo b u l Hu) as [[-> ->]|[Hne Hu']]; [|apply HH; exact Hu'].
  pose proof (HH (length a) lo (nth_mid_at a lo b)) as X. unfold H in *. rewrite S1, S2. exact X.
Qed.

Lemma OI_reset sh a lo b : OI sh (a ++ lo :: b) -> OI sh (a ++ lo0 :: b).
Proof.
  intros HO P. destruct (HO P) as (rem & ES & HH). exists rem. split; [exact ES|].
  intros u l Hu. destruct (nth_mid_cases a lo0 lo b u l Hu) as [[-> ->]|[Hne Hu']]; [|apply HH; exact Hu'].
  destruct (HH (length a) lo (nth_mid_at a lo b)) as (A & B & _). split; [exact A|]. split; [exact B|].
  intros _. cbn [ltemp lo0]. rewrite !app_nil_r. split; assumption.
Qed.

Lemma OI_init n : OI sh0 (repeat lo0 n).
Proof.
  intros _. exists []. split; [reflexivity|]. intros t l Hl. apply nth_error_In in Hl. apply repeat_spec in Hl. subst l.
  unfold H, dby, tby, byt. cbn. repeat split; intros; try split; apply ss_nil.
Qed.

(* ---------- symbolic execution of the transcribed calls ---------- *)
Notation woi := (QConcGen.woi ostep same).
Notation wol := (QConcGen.wol ostep same).

Lemma woi_if' t r c a b Q lo :
  woi t (IIf r c a b) Q lo = (forall sh, (c sh lo = true -> wol t a Q lo) /\ (c sh lo = false -> wol t b Q lo)).
Proof. reflexivity. Qed.

Ltac os_fields :=
  try (match goal with |- context[dispatch_all ?t ?sh ?es] =>
         let Hd := fresh "D" in pose proof (dispatch_all_fields t es sh) as Hd;
         destruct Hd as (?D1 & ?D2 & ?D3 & ?D4 & ?D5 & ?D6 & ?D7 & ?D8 & ?D9 & ?D10);
         let G := fresh "G" in pose proof (QConcEmpty.dispatch_all_ghost t es sh) as G; destruct G as (?G1 & ?G2) end);
  try (match goal with |- context[fold_left (fun s e => sh_take s ?t e) ?es ?sh] =>
         change (fold_left (fun s e => sh_take s t e) es sh) with (take_all t sh es);
         let Ht := fresh "T" in pose proof (take_all_fields t es sh) as Ht;
         destruct Ht as (?T1 & ?T2 & ?T3 & ?T4 & ?T5 & ?T6 & ?T7 & ?T8 & ?T9 & ?T10);
         let G := fresh "G" in pose proof (QConcEmpty.take_all_ghost t es sh) as G; destruct G as (?G1 & ?G2) end).

Ltac os_simpl := sh_simpl; lo_simpl.

Ltac os_core :=
  os_simpl; os_fields;
  first
    [ solve [ apply os_same; os_simpl; try assumption; try reflexivity; try apply subseq_refl; try apply subseq_nil; auto ]
    | solve [ eapply os_push; os_simpl; try reflexivity; split; reflexivity ]
    | solve [ eapply os_putback; os_simpl; reflexivity ]
    | solve [ match goal with |- ostep _ ?sh _ _ _ => apply (os_take _ _ _ _ _ (length (ql sh))) end; os_simpl;
              try reflexivity; [rewrite skipn_all; reflexivity | rewrite firstn_all; reflexivity] ]
    | solve [ apply (os_take _ _ _ _ _ 1); os_simpl; try reflexivity;
              repeat match goal with Hq : ql ?s = _ |- _ => rewrite Hq end; reflexivity ]
    | solve [ apply (os_take _ _ _ _ _ 0); os_simpl; try reflexivity;
              repeat match goal with Hq : ql ?s = _ |- _ => rewrite Hq end; reflexivity ]
    | solve [ eapply os_takelog; os_simpl; try assumption; try reflexivity ]
    | idtac ].

Ltac os_solve :=
  os_simpl; try (match goal with |- ostep _ _ _ (if ?c then _ else _) _ => destruct c end); os_core.

Ltac wo1 :=
  cbv beta;
  lazymatch goal with
  | |- QConcGen.wol _ _ _ [] ?Q ?lo => change (Q lo)
  | |- QConcGen.wol ?st ?sm ?t (?j :: ?r) ?Q ?lo => change (QConcGen.woi st sm t j (QConcGen.wol st sm t r Q) lo)
  | |- QConcGen.wol _ _ _ (_ ++ _) _ _ => apply QConcGen.wol_app
  | |- QConcGen.woi _ _ _ (IIf _ _ _ _) _ _ => rewrite woi_if'; let sh := fresh "sh" in let Hc := fresh "Hc" in intros sh; split; intros Hc
  | |- QConcGen.woi ?st ?sm ?t (ILocal _ ?f) ?Q ?lo =>
      change (forall sh, st t sh lo (fst (f t sh lo)) (snd (f t sh lo)) /\ Q (snd (f t sh lo)));
      let sh := fresh "sh" in intros sh; cbv beta; lo_simpl;
      repeat (match goal with
              | |- context[fst (match ?x with _ => _ end)] => let E := fresh "E" in destruct x eqn:E; lo_simpl
              | |- context[fst (if ?x then _ else _)] => let E := fresh "E" in destruct x eqn:E; lo_simpl
              end);
      split
  | |- QConcGen.woi _ _ _ (IALoad _) ?Q ?lo => change (forall v, Q (lo_reg lo v)); let v := fresh "v" in intros v
  | |- QConcGen.woi _ _ _ (IAInc EC) ?Q ?lo => change (Q (lo_held lo (S (lheld lo))))
  | |- QConcGen.woi _ _ _ (IADec EC) ?Q ?lo => change (Q (lo_held lo (pred (lheld lo))))
  | |- QConcGen.woi _ _ _ (ICvWait _) ?Q ?lo => change (forall b, Q (lo_to lo b)); let b := fresh "b" in intros b
  | |- QConcGen.woi _ ?sm _ (IWaitLoop _) ?Q ?lo =>
      change (forall lo', sm lo lo' -> Q lo'); let lo' := fresh "lo" in let A := fresh "A" in intros lo' A
  | |- QConcGen.woi _ _ _ ?i ?Q ?lo => change (Q lo)
  end.

Lemma wait_ok t timed (Q : qlocals -> Prop) lo : (forall lo', same lo lo' -> Q lo') -> wol t (wait_loop timed) Q lo.
Proof.
  intros HQ. unfold wait_loop, eval_can_process, eval_empty, eval_can_notify. cbv beta iota delta [GenQ.empty_queue_reads].
  repeat wo1.
  all: try os_solve.
  all: try (apply HQ; split; reflexivity).
  all: apply HQ; destruct A as [A1 A2]; lo_simpl; split; assumption.
Qed.

Lemma calls_ok t c : wol t (code_of c) QConcGen.TT lo0.
Proof.
  destruct c; cbn [code_of]; unfold processif_code, processuntil_code, putback, notify_code, dqn_ghost;
    cbv beta iota delta [GenQConc.dqn_dtor_decrement_under_mutex GenQConc.processif_putback_notifies GenQConc.processuntil_putback_notifies].
  all: repeat (first [ wo1
                     | lazymatch goal with
                       | |- QConcGen.wol _ _ _ eval_can_process _ _ => unfold eval_can_process, eval_empty, eval_can_notify; cbv beta iota delta [GenQ.empty_queue_reads]
                       | |- QConcGen.wol _ _ _ eval_empty _ _ => unfold eval_empty; cbv beta iota delta [GenQ.empty_queue_reads]
                       | |- QConcGen.wol _ _ _ eval_can_notify _ _ => unfold eval_can_notify
                       end ]).
  all: try exact I.
  all: try os_solve.
  all: os_simpl; os_fields.
  - apply (os_disp _ _ _ _ _ (ql sh0)); os_simpl; try assumption; try reflexivity;
      [apply subseq_refl|apply subseq_nil|intros X; rewrite X; reflexivity|apply length_zero_iff_nil].
  - apply (os_disp _ _ _ _ _ [c]); os_simpl; try assumption; try reflexivity;
      [apply subseq_refl|apply subseq_nil|intros X; discriminate X|intros X; discriminate X].
  - apply (os_disp _ _ _ _ _ (filter (pverdict p) (ql sh0))); os_simpl; try assumption; try reflexivity;
      [apply subseq_filter|apply subseq_filter|apply filter_none_all|apply length_zero_iff_nil].
  - destruct (split_until_sub p (ql sh0)) as (X1 & X2 & X3). rewrite E in X1, X2, X3. cbn [fst snd] in X1, X2, X3.
    apply (os_disp _ _ _ _ _ l); os_simpl; try assumption; try reflexivity. apply length_zero_iff_nil.
Qed.

(* ---------- the theorems ---------- *)
Theorem order_invariant_every_schedule progs schedule fuel :
  GInv ostep same OI (reached progs schedule fuel).
Proof.
  apply (invariant_every_schedule ostep same OI same_refl same_reg same_to same_held calls_ok wait_ok OI_step OI_eq OI_same OI_reset OI_init).
Qed.

(* without put-backs, every thread dispatches — and is handed by takeEvent — events in the order in which they entered
   the queue *)
Theorem order_of_dispatch_and_take progs schedule fuel :
  let cfg := reached progs schedule fuel in
  g_putbacks (shs cfg) = 0 ->
  forall t th, nth_error (ths cfg) t = Some th ->
    subseq (dby t (shs cfg)) (rev (g_settled (shs cfg))) /\ subseq (tby t (shs cfg)) (rev (g_settled (shs cfg))).
Proof.
  cbv zeta. intros P t th Hn. destruct (order_invariant_every_schedule progs schedule fuel) as [HO HT].
  destruct (HO P) as (rem & ES & HH). rewrite ES.
  destruct (HH t (lo th) (map_nth_error lo _ _ Hn)) as (A & B & _). split; apply subseq_app_r; assumption.
Qed.

(* the hypotheses are met: producer 0 enqueues 11 13 15, consumer 1 processes twice: it dispatched 11 13 15 in that order *)
Example order_example :
  let cfg := reached [[AEnqueue 1 11%Z; AEnqueue 1 13%Z; AEnqueue 1 15%Z]; [AProcess; AProcess]]
                     [0; 0; 0; 0; 0; 0; 0; 0; 0; 0; 0; 0; 0; 1; 1; 1; 1; 1; 1; 1; 1; 0; 0; 0; 0; 0; 0; 1; 1; 1; 1; 1; 1; 1; 1; 1] 400 in
  g_putbacks (shs cfg) = 0 /\ map cea (dby 1 (shs cfg)) = [11%Z; 13%Z; 15%Z] /\ map cea (rev (g_settled (shs cfg))) = [11%Z; 13%Z; 15%Z].
Proof. vm_compute. repeat split; reflexivity. Qed.
