(* SpinModel.v — eventpp::SpinLock (eventpolicies.h) as a test-and-set lock, with the shape of
   lock()/unlock() read off the header (tie A, GenSpin): mutual exclusion for any number of threads and
   every schedule; a free lock is acquired at once; the two ways of getting the loop or the unlock
   wrong are refuted.  (C03's and C20's quantifiers name SpinLock as a Mutex policy.) *)
From Coq Require Import List Arith Bool Lia.
From EV.gen Require GenSpin.
Import ListNotations.

Inductive pc := Idle | Trying | InCS.
Record sstate := mkS { flag : bool; pcs : list pc }.

Fixpoint upd (l : list pc) (t : nat) (x : pc) : list pc :=
  match l, t with
  | [], _ => []
  | _ :: r, 0 => x :: r
  | y :: r, S k => y :: upd r k x
  end.

Section Spin.
  Variable spins_while_set clears : bool.

  (* one atomic step of thread t: call lock(); one test_and_set of the loop; unlock() *)
  Definition sstep (s : sstate) (t : nat) : sstate :=
    match nth_error (pcs s) t with
    | Some Idle => mkS (flag s) (upd (pcs s) t Trying)
    | Some Trying =>
        let old := flag s in
        let again := if spins_while_set then old else negb old in
        mkS true (if again then pcs s else upd (pcs s) t InCS)
    | Some InCS => mkS (if clears then false else flag s) (upd (pcs s) t Idle)
    | None => s
    end.

  Definition srun (s : sstate) (sched : list nat) : sstate := fold_left sstep sched s.
End Spin.

Definition in_cs (p : pc) : bool := match p with InCS => true | _ => false end.
Definition ncs (l : list pc) : nat := length (filter in_cs l).
Definition sinit (n : nat) (f : bool) : sstate := mkS f (repeat Idle n).

Lemma ncs_upd l : forall t x p, nth_error l t = Some p ->
  ncs (upd l t x) + (if in_cs p then 1 else 0) = ncs l + (if in_cs x then 1 else 0).
Proof.
  unfold ncs. induction l as [|y r IH]; intros [|t] x p H; cbn [nth_error] in H; try discriminate.
  - injection H as ->. cbn [upd filter]. destruct (in_cs p), (in_cs x); cbn [length]; lia.
  - cbn [upd filter]. specialize (IH t x p H). destruct (in_cs y); cbn [length]; lia.
Qed.

Definition SInv (s : sstate) : Prop := ncs (pcs s) <= 1 /\ (ncs (pcs s) = 1 -> flag s = true).

Lemma sstep_inv s t : SInv s -> SInv (sstep true true s t).
Proof.
  intros [H1 H2]. unfold sstep. destruct (nth_error (pcs s) t) as [p|] eqn:E; [|split; assumption].
  destruct p; unfold SInv; cbn [flag pcs].
  - pose proof (ncs_upd _ _ Trying _ E) as U. cbn [in_cs] in U. split; [lia|]. intros H. apply H2. lia.
  - destruct (flag s) eqn:F; cbn [flag pcs].
    + split; [exact H1|reflexivity].
    + pose proof (ncs_upd _ _ InCS _ E) as U. cbn [in_cs] in U.
      assert (ncs (pcs s) = 0) by (destruct (Nat.eq_dec (ncs (pcs s)) 1) as [X|X]; [specialize (H2 X); discriminate | lia]).
      split; [lia|reflexivity].
  - pose proof (ncs_upd _ _ Idle _ E) as U. cbn [in_cs] in U. split; [lia|]. intros H. lia.
Qed.

Theorem spin_mutual_exclusion n sched : ncs (pcs (srun true true (sinit n false) sched)) <= 1.
Proof.
  assert (G : forall s, SInv s -> SInv (srun true true s sched)).
  { induction sched as [|t r IH]; intros s H; cbn [srun fold_left]; [exact H|]. apply IH. apply sstep_inv. exact H. }
  apply G. split.
  - unfold ncs, sinit. cbn [pcs]. induction n; cbn; auto.
  - unfold ncs, sinit. cbn [pcs]. intros H. exfalso. induction n; cbn in H; auto; discriminate.
Qed.

(* a free lock is taken by the first test_and_set *)
Theorem spin_free_lock_is_acquired l t : nth_error l t = Some Trying ->
  nth_error (pcs (sstep true true (mkS false l) t)) t = Some InCS.
Proof.
  intros H. unfold sstep. cbn [pcs flag]. rewrite H. cbn [pcs]. clear -H. revert t H.
  induction l as [|y r IH]; intros [|t] H; cbn [nth_error upd] in *; try discriminate; auto.
Qed.

(* unlock gives the lock back *)
Theorem spin_unlock_frees l t : nth_error l t = Some InCS -> flag (sstep true true (mkS true l) t) = false.
Proof. intros H. unfold sstep. cbn [pcs flag]. rewrite H. reflexivity. Qed.

(* the wrong loop test lets two threads in; a flag that starts set, or an unlock that does not clear, locks everybody out *)
Theorem spin_inverted_test_refuted : exists sched, ncs (pcs (srun false true (sinit 2 false) sched)) = 2.
Proof. exists [0; 1; 0; 0; 1]. reflexivity. Qed.

Lemma stuck_forever j : fold_left (sstep true false) (repeat 1 j) (mkS true [Idle; Trying]) = mkS true [Idle; Trying].
Proof. induction j as [|j IH]; [reflexivity|]. cbn [repeat fold_left]. exact IH. Qed.

Theorem spin_unlock_without_clear_refuted :
  forall k, nth_error (pcs (srun true false (sinit 2 false) ([0; 0; 0; 1] ++ repeat 1 k))) 1 = Some Trying.
Proof.
  intros k. unfold srun. rewrite fold_left_app.
  change (fold_left (sstep true false) [0; 0; 0; 1] (sinit 2 false)) with (mkS true [Idle; Trying]).
  rewrite stuck_forever. reflexivity.
Qed.

(* the header's shape (tie A) is the proved one *)
Theorem spin_header_shape :
  GenSpin.lock_spins_while_set = true /\ GenSpin.unlock_clears = true /\ GenSpin.flag_starts_clear = true /\
  GenSpin.lock_order = GenSpin.acquire /\ GenSpin.unlock_order = GenSpin.release.
Proof. repeat split; reflexivity. Qed.

Theorem spinlock_as_in_the_header_excludes n sched :
  ncs (pcs (srun GenSpin.lock_spins_while_set GenSpin.unlock_clears (sinit n (negb GenSpin.flag_starts_clear)) sched)) <= 1.
Proof. exact (spin_mutual_exclusion n sched). Qed.
