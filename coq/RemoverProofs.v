(* RemoverProofs.v — invariants of the ScopedRemover model (coq/RemoverModel.v) and the
   lemmas behind the C15 theorems (coq/Properties_C15.v).

   WInv  : bookkeeping invariant, holds for EVERY variant of move assignment:
           listener ids are unique, records only name listeners added through removers,
           a record (k, id) of a remover with target t names the listener added at (t, k),
           and no listener is recorded by two live removers.
   OInv  : the ownership invariant of C15: an attached listener that was added through a
           remover is recorded by a live remover pointing to its container.  Preserved by
           every command when move assignment releases first (assign_resets = true);
           refuted by a three-command program otherwise (Properties_C15.v). *)
From Coq Require Import List Arith Bool Lia.
From EV Require Import RemoverModel.
Import ListNotations.
Local Open Scope nat_scope.

Arguments set_rem : simpl never.

(* ------------------------------------------------------------------ basic list facts *)

Lemma loc_eqb_spec (a b : loc) : reflect (a = b) (loc_eqb a b).
Proof.
  destruct a as [a1 a2], b as [b1 b2]. unfold loc_eqb. simpl.
  destruct (Nat.eqb_spec a1 b1), (Nat.eqb_spec a2 b2); simpl; constructor; congruence.
Qed.

Lemma entry_eqb_spec (a b : entry) : reflect (a = b) (entry_eqb a b).
Proof.
  destruct a as [la ia], b as [lb ib]. unfold entry_eqb. simpl.
  destruct (loc_eqb_spec la lb), (Nat.eqb_spec ia ib); simpl; constructor; congruence.
Qed.

Lemma entry_eqb_refl e : entry_eqb e e = true.
Proof. destruct (entry_eqb_spec e e); congruence. Qed.

Lemma In_ins_before e hb l x : In x (ins_before e hb l) <-> x = e \/ In x l.
Proof.
  induction l as [|y l IH]; simpl.
  - intuition.
  - destruct (snd y =? hb); simpl; rewrite ?IH; intuition.
Qed.

Lemma In_tadd m e l x : In x (tadd m e l) <-> x = e \/ In x l.
Proof.
  destruct m; simpl.
  - rewrite in_app_iff. simpl. intuition.
  - intuition.
  - apply In_ins_before.
Qed.

Lemma In_ids_tadd m e l i : In i (map snd (tadd m e l)) <-> i = snd e \/ In i (map snd l).
Proof.
  rewrite !in_map_iff. split.
  - intros [x [Hx Hin]]. apply In_tadd in Hin. destruct Hin as [->|Hin]; [left; auto|right; eauto].
  - intros [->|[x [Hx Hin]]]; [exists e|exists x]; rewrite In_tadd; auto.
Qed.

Lemma NoDup_snoc {A} (l : list A) a : ~ In a l -> NoDup l -> NoDup (l ++ [a]).
Proof.
  induction l as [|y l IH]; simpl; intros Hn Hd.
  - constructor; [intros []|constructor].
  - inversion Hd; subst. constructor.
    + rewrite in_app_iff. simpl. intuition.
    + apply IH; intuition.
Qed.

Lemma NoDup_ids_tadd m e l :
  ~ In (snd e) (map snd l) -> NoDup (map snd l) -> NoDup (map snd (tadd m e l)).
Proof.
  destruct m; simpl; intros Hn Hd.
  - rewrite map_app. simpl. apply NoDup_snoc; auto.
  - constructor; auto.
  - revert Hn Hd. induction l as [|y l IH]; simpl; intros Hn Hd.
    + constructor; [intros []|constructor].
    + destruct (snd y =? before); simpl.
      * constructor; auto.
      * inversion Hd; subst. constructor.
        -- intros Hin. change (In (snd y) (map snd (tadd (MInsert before) e l))) in Hin.
           apply In_ids_tadd in Hin. destruct Hin as [Heq|Hin]; [apply Hn; left; auto|contradiction].
        -- apply IH; auto.
Qed.

Lemma NoDup_map_filter {A B} (f : A -> B) p l : NoDup (map f l) -> NoDup (map f (filter p l)).
Proof.
  induction l as [|a l IH]; simpl; intros Hd; [constructor|].
  inversion Hd; subst. destruct (p a); simpl; auto.
  constructor; auto. intros Hin. apply H1. apply in_map_iff in Hin. destruct Hin as [x [Hx Hin]].
  apply filter_In in Hin. apply in_map_iff. exists x. tauto.
Qed.

Lemma incl_filter_l {A} p (l m : list A) : incl l m -> incl (filter p l) m.
Proof. intros H x Hx. apply filter_In in Hx. apply H. tauto. Qed.

Lemma filter_filter_same {A} (p q : A -> bool) l :
  (forall x, In x l -> p x = true -> q x = true) -> filter p (filter q l) = filter p l.
Proof.
  induction l as [|a l IH]; simpl; intros H; auto.
  destruct (q a) eqn:Hq; simpl.
  - destruct (p a); rewrite IH; auto.
  - destruct (p a) eqn:Hp.
    + rewrite (H a) in Hq; auto. discriminate.
    + apply IH; auto.
Qed.

Lemma In_detach id l x : In x (detach id l) <-> In x l /\ snd x <> id.
Proof.
  unfold detach. rewrite filter_In. destruct (Nat.eqb_spec (snd x) id); simpl; intuition congruence.
Qed.

Lemma hit_spec t its (e : entry) :
  hit t its e = true <-> fst (fst e) = t /\ In (snd (fst e), snd e) its.
Proof.
  unfold hit. rewrite existsb_exists. split.
  - intros [[k i] [Hin He]]. simpl in He. destruct (entry_eqb_spec e ((t, k), i)) as [->|]; [|discriminate]. simpl. auto.
  - intros [Ht Hin]. exists (snd (fst e), snd e). split; auto.
    destruct e as [[a b] c]. simpl in *. subst. apply entry_eqb_refl.
Qed.

Definition holds (R : remover) (x : entry) : Prop :=
  tgt R = Some (fst (fst x)) /\ In (snd (fst x), snd x) (items R).

Lemma In_released R l x : In x (released R l) <-> In x l /\ ~ holds R x.
Proof.
  unfold released, holds. destruct (tgt R) as [t|].
  - rewrite filter_In. destruct (hit t (items R) x) eqn:Hh; simpl.
    + apply hit_spec in Hh. destruct Hh as [<- Hin]. intuition.
    + split; [|tauto]. intros [Hin _]. split; auto. intros [Ht Hi]. injection Ht as Ht.
      assert (hit t (items R) x = true) by (apply hit_spec; auto). congruence.
  - split; [|tauto]. intros H. split; auto. intros [Ht _]. discriminate.
Qed.

Lemma find_id_Some id l lc : find_id id l = Some lc -> In (lc, id) l.
Proof.
  induction l as [|[l0 i0] l IH]; simpl; [discriminate|].
  destruct (Nat.eqb_spec i0 id).
  - intros H. injection H as ->. subst. auto.
  - auto.
Qed.

Lemma find_id_None id l : find_id id l = None -> ~ In id (map snd l).
Proof.
  induction l as [|[l0 i0] l IH]; simpl; [tauto|].
  destruct (Nat.eqb_spec i0 id); [discriminate|]. intros H [Heq|Hin]; [auto|]. apply IH; auto.
Qed.

Lemma fresh_spec st id : fresh st id = true -> ~ In id (map snd (used st)).
Proof.
  unfold fresh. intros H Hin. apply negb_true_iff in H.
  apply in_map_iff in Hin. destruct Hin as [x [Hx Hin]].
  assert (existsb (fun e => snd e =? id) (used st) = true); [|congruence].
  apply existsb_exists. exists x. split; auto. apply Nat.eqb_eq. auto.
Qed.

Lemma recorded_spec id its : recorded id its = true <-> exists k, In (k, id) its.
Proof.
  unfold recorded. rewrite existsb_exists. split.
  - intros [[k i] [Hin He]]. apply Nat.eqb_eq in He. simpl in He. subst. eauto.
  - intros [k Hin]. exists (k, id). split; auto. apply Nat.eqb_refl.
Qed.

Lemma In_erase_first id its x : In x (erase_first id its) -> In x its.
Proof.
  induction its as [|y l IH]; simpl; auto. destruct (snd y =? id); simpl; intuition.
Qed.

Lemma In_erase_first_neq id its x : In x its -> snd x <> id -> In x (erase_first id its).
Proof.
  induction its as [|y l IH]; simpl; auto. intros [->|Hin] Hne.
  - destruct (Nat.eqb_spec (snd x) id); [contradiction|]. left; auto.
  - destruct (snd y =? id); simpl; auto.
Qed.

Lemma set_rem_eq r v f : set_rem r v f r = v.
Proof. unfold set_rem. rewrite Nat.eqb_refl. auto. Qed.

Lemma set_rem_neq r v f x : x <> r -> set_rem r v f x = f x.
Proof. unfold set_rem. intros H. destruct (Nat.eqb_spec x r); congruence. Qed.

(* ------------------------------------------------------------------ the invariants *)

Definition rec_in (st : rstate) (r k id : nat) : Prop :=
  exists R, rems st r = Some R /\ In (k, id) (items R).

Definition owner (st : rstate) (r t k id : nat) : Prop :=
  exists R, rems st r = Some R /\ tgt R = Some t /\ In (k, id) (items R).

Definition RecOK (st : rstate) (f : nat -> option remover) : Prop :=
  (forall r R k id, f r = Some R -> In (k, id) (items R) ->
     In id (via st) /\ exists t, tgt R = Some t /\ In ((t, k), id) (used st)) /\
  (forall r1 r2 R1 R2 k1 k2 id, f r1 = Some R1 -> f r2 = Some R2 ->
     In (k1, id) (items R1) -> In (k2, id) (items R2) -> r1 = r2).

Record WInv (st : rstate) : Prop := {
  w_used : NoDup (map snd (used st));
  w_incl : incl (atts st) (used st);
  w_nodup : NoDup (map snd (atts st));
  w_via : incl (via st) (map snd (used st));
  w_rec : RecOK st (rems st)
}.

Definition OInv (st : rstate) : Prop :=
  forall t k id, In ((t, k), id) (atts st) -> In id (via st) -> exists r, owner st r t k id.

Lemma WInv_init n : WInv (rinit n).
Proof.
  constructor; simpl.
  - constructor.
  - intros x [].
  - constructor.
  - intros x [].
  - split.
    + intros r R k id H. discriminate.
    + intros r1 r2 R1 R2 k1 k2 id H. discriminate.
Qed.

Lemma OInv_init n : OInv (rinit n).
Proof. intros t k id []. Qed.

Lemma WInv_fail st : WInv st -> WInv (fail st).
Proof. intros [H1 H2 H3 H4 H5]. constructor; auto. Qed.

Lemma WInv_emit evs st : WInv st -> WInv (emit evs st).
Proof. intros [H1 H2 H3 H4 H5]. constructor; auto. Qed.

Lemma WInv_set_ar st a f :
  WInv st -> incl a (used st) -> NoDup (map snd a) -> RecOK st f -> WInv (set_ar a f st).
Proof. intros [H1 H2 H3 H4 H5] Ha Hd Hf. constructor; auto. Qed.

(* a listener attached somewhere is attached where it was added *)
Lemma attached_where st l l' id :
  WInv st -> In (l, id) (atts st) -> In (l', id) (used st) -> l = l'.
Proof.
  intros W Ha Hu. apply (w_incl _ W) in Ha.
  pose proof (w_used _ W) as Hd. revert Ha Hu Hd. generalize (used st).
  induction l0 as [|[l1 i1] u IH]; simpl; [tauto|].
  intros Ha Hu Hd. inversion Hd as [|? ? Hni Hd']; subst. simpl in Hni.
  destruct Ha as [Ha|Ha], Hu as [Hu|Hu]; try congruence.
  - injection Ha as -> ->. exfalso. apply Hni. apply in_map_iff. exists (l', id). auto.
  - injection Hu as -> ->. exfalso. apply Hni. apply in_map_iff. exists (l, id). auto.
  - auto.
Qed.

(* ------------------------------------------------------------------ RecOK for the new slot tables *)

Lemma RecOK_shrink st r v :
  RecOK st (rems st) ->
  (forall R', v = Some R' -> forall k id, In (k, id) (items R') ->
     exists R, rems st r = Some R /\ In (k, id) (items R) /\ tgt R' = tgt R) ->
  RecOK st (set_rem r v (rems st)).
Proof.
  intros [Ha Hb] Hv. split.
  - intros x R k id Hx Hin. unfold set_rem in Hx. destruct (Nat.eqb_spec x r).
    + destruct (Hv R Hx k id Hin) as [R0 [H0 [Hin0 Ht]]]. rewrite Ht. eapply Ha; eauto.
    + eapply Ha; eauto.
  - intros r1 r2 R1 R2 k1 k2 id H1 H2 I1 I2. unfold set_rem in H1, H2.
    destruct (Nat.eqb_spec r1 r) as [E1|E1], (Nat.eqb_spec r2 r) as [E2|E2]; [congruence| | |].
    + destruct (Hv R1 H1 k1 id I1) as [R0 [H0 [Hin0 _]]]. rewrite E1. eapply Hb; eauto.
    + destruct (Hv R2 H2 k2 id I2) as [R0 [H0 [Hin0 _]]]. rewrite E2. eapply Hb; eauto.
    + eapply Hb; eauto.
Qed.

Lemma RecOK_move st s d Rs :
  RecOK st (rems st) -> rems st s = Some Rs -> s <> d ->
  RecOK st (set_rem d (Some Rs) (set_rem s (Some (mkR (tgt Rs) [])) (rems st))).
Proof.
  intros [Ha Hb] Hs Hsd. split.
  - intros x R k id Hx Hin. unfold set_rem in Hx.
    destruct (Nat.eqb_spec x d); [injection Hx as <-; eapply Ha; eauto|].
    destruct (Nat.eqb_spec x s); [injection Hx as <-; simpl in Hin; contradiction|].
    eapply Ha; eauto.
  - intros r1 r2 R1 R2 k1 k2 id H1 H2 I1 I2. unfold set_rem in H1, H2.
    destruct (Nat.eqb_spec r1 d), (Nat.eqb_spec r2 d); subst; auto.
    + injection H1 as <-. destruct (Nat.eqb_spec r2 s); [injection H2 as <-; simpl in I2; contradiction|].
      exfalso. apply n0. symmetry. eapply Hb; eauto.
    + injection H2 as <-. destruct (Nat.eqb_spec r1 s); [injection H1 as <-; simpl in I1; contradiction|].
      exfalso. apply n0. eapply Hb; eauto.
    + destruct (Nat.eqb_spec r1 s); [injection H1 as <-; simpl in I1; contradiction|].
      destruct (Nat.eqb_spec r2 s); [injection H2 as <-; simpl in I2; contradiction|].
      eapply Hb; eauto.
Qed.

Lemma RecOK_swap st a b Ra Rb :
  RecOK st (rems st) -> rems st a = Some Ra -> rems st b = Some Rb ->
  RecOK st (set_rem a (Some Rb) (set_rem b (Some Ra) (rems st))).
Proof.
  intros [Ha Hb] HA HB. split.
  - intros x R k id Hx Hin. unfold set_rem in Hx.
    destruct (Nat.eqb_spec x a); [injection Hx as <-; eapply Ha; eauto|].
    destruct (Nat.eqb_spec x b); [injection Hx as <-; eapply Ha; eauto|].
    eapply Ha; eauto.
  - intros r1 r2 R1 R2 k1 k2 id H1 H2 I1 I2. unfold set_rem in H1, H2.
    destruct (Nat.eqb_spec r1 a), (Nat.eqb_spec r2 a); subst; auto.
    + injection H1 as <-. destruct (Nat.eqb_spec r2 b).
      * injection H2 as <-. subst. eapply Hb; eauto.
      * assert (b = r2) by (eapply Hb; eauto). congruence.
    + injection H2 as <-. destruct (Nat.eqb_spec r1 b).
      * injection H1 as <-. subst. eapply Hb; eauto.
      * assert (r1 = b) by (eapply Hb; eauto). congruence.
    + destruct (Nat.eqb_spec r1 b), (Nat.eqb_spec r2 b); subst; auto.
      * injection H1 as <-. assert (a = r2) by (eapply Hb; eauto). congruence.
      * injection H2 as <-. assert (r1 = a) by (eapply Hb; eauto). congruence.
      * eapply Hb; eauto.
Qed.

Lemma RecOK_grow st f e i :
  RecOK st f ->
  RecOK (mkS (nt st) (atts st) (rems st) (e :: used st) (i ++ via st) (rtrace st) (bad st)) f.
Proof.
  intros [Ha Hb]. split; auto.
  intros r R k id Hr Hin. destruct (Ha r R k id Hr Hin) as [Hv [t [Ht Hu]]]. simpl. split.
  - apply in_or_app. auto.
  - exists t. auto.
Qed.

(* ------------------------------------------------------------------ WInv is preserved by every command *)

Lemma WInv_released st R f :
  WInv st -> RecOK st f -> WInv (set_ar (released R (atts st)) f st).
Proof.
  intros W Hf. apply WInv_set_ar; auto.
  - unfold released. destruct (tgt R); [apply incl_filter_l|]; apply (w_incl _ W).
  - unfold released. destruct (tgt R); [apply NoDup_map_filter|]; apply (w_nodup _ W).
Qed.

Lemma WInv_detach st id f :
  WInv st -> RecOK st f -> WInv (set_ar (detach id (atts st)) f st).
Proof.
  intros W Hf. apply WInv_set_ar; auto.
  - apply incl_filter_l, (w_incl _ W).
  - apply NoDup_map_filter, (w_nodup _ W).
Qed.

Lemma WInv_add st t k id m f (viaflag : bool) :
  WInv st -> fresh st id = true ->
  RecOK (mkS (nt st) (atts st) (rems st) (((t, k), id) :: used st) ((if viaflag then [id] else []) ++ via st) (rtrace st) (bad st)) f ->
  WInv (mkS (nt st) (tadd m ((t, k), id) (atts st)) f (((t, k), id) :: used st)
            ((if viaflag then [id] else []) ++ via st) (rtrace st) (bad st)).
Proof.
  intros W Hfr Hf. apply fresh_spec in Hfr. constructor; simpl.
  - constructor; auto. apply (w_used _ W).
  - intros x Hx. apply In_tadd in Hx. destruct Hx as [->|Hx]; [left; auto|right; apply (w_incl _ W); auto].
  - apply NoDup_ids_tadd; [|apply (w_nodup _ W)]. simpl. intros Hin. apply Hfr.
    apply in_map_iff in Hin. destruct Hin as [x [Hx Hin]]. apply in_map_iff. exists x. split; auto. apply (w_incl _ W); auto.
  - intros x Hx. apply in_app_or in Hx. destruct Hx as [Hx|Hx].
    + destruct viaflag; simpl in Hx; [|contradiction]. destruct Hx as [<-|[]]. left; auto.
    + right. apply (w_via _ W); auto.
  - exact Hf.
Qed.

Lemma WInv_step ar sg c st : WInv st -> WInv (rstep ar sg c st).
Proof.
  intros W. pose proof (w_rec _ W) as HR.
  destruct c; simpl.
  - (* RNew *)
    destruct (rems st r) eqn:Hr; [apply WInv_fail; auto|].
    destruct (match t with Some t0 => t0 <? nt st | None => true end); [|apply WInv_fail; auto].
    apply WInv_set_ar; try apply W. apply RecOK_shrink; auto.
    intros R' HR' k id Hin. injection HR' as <-. simpl in Hin. contradiction.
  - (* RAdd *)
    destruct (rems st r) as [R|] eqn:Hr; [|apply WInv_fail; auto].
    destruct (tgt R) as [t|] eqn:Ht; [|apply WInv_fail; auto].
    destruct (fresh st id && legal_before st m (t, k)) eqn:Hc; [|apply WInv_fail; auto].
    apply andb_true_iff in Hc. destruct Hc as [Hfr _].
    apply (WInv_add st t k id m _ true); auto.
    pose proof (fresh_spec _ _ Hfr) as Hnew.
    destruct HR as [Ha Hb]. split.
    + intros x R0 k0 id0 Hx Hin. unfold set_rem in Hx. simpl. destruct (Nat.eqb_spec x r).
      * injection Hx as <-. simpl in Hin. apply in_app_or in Hin. destruct Hin as [Hin|[Heq|[]]].
        -- destruct (Ha r R k0 id0 Hr Hin) as [Hv [t0 [Ht0 Hu]]]. split; auto. exists t. simpl. split; auto.
           rewrite Ht in Ht0. injection Ht0 as <-. auto.
        -- injection Heq as <- <-. split; auto. exists t. simpl. auto.
      * destruct (Ha x R0 k0 id0 Hx Hin) as [Hv [t0 [Ht0 Hu]]]. split; auto. exists t0. auto.
    + assert (Hold : forall x R0 k0, rems st x = Some R0 -> ~ In (k0, id) (items R0)).
      { intros x R0 k0 Hx Hin. destruct (Ha x R0 k0 id Hx Hin) as [_ [t0 [_ Hu]]].
        apply Hnew. apply in_map_iff. exists ((t0, k0), id). auto. }
      intros r1 r2 R1 R2 k1 k2 id0 H1 H2 I1 I2. unfold set_rem in H1, H2.
      destruct (Nat.eqb_spec r1 r), (Nat.eqb_spec r2 r); subst; auto.
      * injection H1 as <-. simpl in I1. apply in_app_or in I1. destruct I1 as [I1|[Heq|[]]].
        -- eapply Hb; eauto.
        -- injection Heq as <- <-. exfalso. eapply Hold; eauto.
      * injection H2 as <-. simpl in I2. apply in_app_or in I2. destruct I2 as [I2|[Heq|[]]].
        -- eapply Hb; eauto.
        -- injection Heq as <- <-. exfalso. eapply Hold; eauto.
      * eapply Hb; eauto.
  - (* RRemove *)
    destruct (rems st r) as [R|] eqn:Hr; [|apply WInv_fail; auto].
    destruct (find_id id (atts st)) as [l|]; [|apply WInv_emit; auto].
    destruct (recorded id (items R)); [|apply WInv_emit; auto].
    destruct (tgt R) as [t|] eqn:Ht; [|apply WInv_fail; auto].
    destruct (t =? fst l); [|apply WInv_fail; auto].
    apply WInv_emit. apply WInv_detach; auto. apply RecOK_shrink; auto.
    intros R' HR' k0 id0 Hin. injection HR' as <-. simpl in Hin. exists R. split; auto. split; [eapply In_erase_first; eauto|auto].
  - (* RReset *)
    destruct (rems st r) as [R|] eqn:Hr; [|apply WInv_fail; auto].
    apply WInv_released; auto. apply RecOK_shrink; auto.
    intros R' HR' k0 id0 Hin. injection HR' as <-. simpl in Hin. contradiction.
  - (* RSetTarget *)
    destruct (rems st r) as [R|] eqn:Hr; [|apply WInv_fail; auto].
    destruct (t <? nt st); [|apply WInv_fail; auto].
    destruct (match tgt R with Some t0 => t0 =? t | None => false end); auto.
    apply WInv_released; auto. apply RecOK_shrink; auto.
    intros R' HR' k0 id0 Hin. injection HR' as <-. simpl in Hin. contradiction.
  - (* RMoveCtor *)
    destruct (rems st src) as [Rs|] eqn:Hs; [|apply WInv_fail; auto].
    destruct (rems st dst) as [Rd|] eqn:Hd; [apply WInv_fail; auto|].
    apply WInv_set_ar; try apply W. apply RecOK_move; auto. congruence.
  - (* RMoveAssign *)
    destruct (rems st src) as [Rs|] eqn:Hs; [|apply WInv_fail; auto].
    destruct (rems st dst) as [Rd|] eqn:Hd; [|apply WInv_fail; auto].
    destruct (Nat.eqb_spec src dst); [destruct sg; [auto|apply WInv_fail; auto]|].
    destruct ar.
    + apply WInv_released; auto. apply RecOK_move; auto.
    + apply WInv_set_ar; try apply W. apply RecOK_move; auto.
  - (* RSwap *)
    destruct (rems st a) as [Ra|] eqn:Ha; [|apply WInv_fail; auto].
    destruct (rems st b) as [Rb|] eqn:Hb; [|apply WInv_fail; auto].
    apply WInv_set_ar; try apply W. apply RecOK_swap; auto.
  - (* RDestroy *)
    destruct (rems st r) as [R|] eqn:Hr; [|apply WInv_fail; auto].
    apply WInv_released; auto. apply RecOK_shrink; auto. intros R' HR'. discriminate.
  - (* DAdd *)
    destruct ((t <? nt st) && fresh st id && legal_before st m (t, k)) eqn:Hc; [|apply WInv_fail; auto].
    apply andb_true_iff in Hc. destruct Hc as [Hc _]. apply andb_true_iff in Hc. destruct Hc as [_ Hfr].
    apply (WInv_add st t k id m _ false); auto.
    apply (RecOK_grow st (rems st) ((t, k), id) []). auto.
  - (* DRemove *)
    destruct (find_id id (atts st)); [|apply WInv_emit; auto].
    apply WInv_emit. apply WInv_detach; auto.
  - (* Observe *)
    apply WInv_emit; auto.
Qed.

Lemma WInv_run ar sg prog : forall st, WInv st -> WInv (rrun ar sg prog st).
Proof.
  induction prog as [|c p IH]; simpl; auto. intros st W. apply IH. apply WInv_step; auto.
Qed.

(* ------------------------------------------------------------------ ownership (needs assign_resets = true) *)

Lemma OInv_fail st : OInv st -> OInv (fail st).
Proof. intros H. exact H. Qed.

Lemma OInv_emit evs st : OInv st -> OInv (emit evs st).
Proof. intros H. exact H. Qed.

Lemma owner_fail st r t k id : owner (fail st) r t k id <-> owner st r t k id.
Proof. unfold owner. simpl. tauto. Qed.

(* dropping from the attached list exactly what remover slot r held, and shrinking slot r *)
Lemma OInv_release st r R v :
  OInv st -> rems st r = Some R ->
  OInv (set_ar (released R (atts st)) (set_rem r v (rems st)) st).
Proof.
  intros O Hr t k id Hin Hv. simpl in *. apply In_released in Hin. destruct Hin as [Hin Hnh].
  destruct (O t k id Hin Hv) as [x [R0 [Hx [Ht Hi]]]].
  destruct (Nat.eq_dec x r) as [->|Hne].
  - exfalso. apply Hnh. rewrite Hr in Hx. injection Hx as <-. split; auto.
  - exists x, R0. simpl. rewrite set_rem_neq; auto.
Qed.

Lemma OInv_step sg c st : WInv st -> OInv st -> OInv (rstep true sg c st).
Proof.
  intros W O. pose proof (w_rec _ W) as [Ha Hb].
  destruct c; simpl.
  - (* RNew *)
    destruct (rems st r) eqn:Hr; auto.
    destruct (match t with Some t0 => t0 <? nt st | None => true end); auto.
    intros t0 k id Hin Hv. simpl in *. destruct (O t0 k id Hin Hv) as [x [R0 [Hx [Ht Hi]]]].
    exists x, R0. simpl. rewrite set_rem_neq; auto. congruence.
  - (* RAdd *)
    destruct (rems st r) as [R|] eqn:Hr; auto.
    destruct (tgt R) as [t|] eqn:Ht; auto.
    destruct (fresh st id && legal_before st m (t, k)) eqn:Hc; auto.
    apply andb_true_iff in Hc. destruct Hc as [Hfr _]. apply fresh_spec in Hfr.
    intros t0 k0 id0 Hin Hv. simpl in *. apply In_tadd in Hin. destruct Hin as [Heq|Hin].
    + injection Heq as -> -> ->. exists r. eexists. simpl. rewrite set_rem_eq. split; [reflexivity|]. simpl.
      split; auto. apply in_or_app. right. left. auto.
    + destruct Hv as [<-|Hv].
      * exfalso. apply Hfr. apply in_map_iff. exists ((t0, k0), id). split; auto. apply (w_incl _ W); auto.
      * destruct (O t0 k0 id0 Hin Hv) as [x [R0 [Hx [Ht0 Hi]]]].
        destruct (Nat.eq_dec x r) as [->|Hne].
        -- rewrite Hr in Hx. injection Hx as <-. exists r. eexists. simpl. rewrite set_rem_eq. split; [reflexivity|].
           simpl. split; [congruence|]. apply in_or_app. auto.
        -- exists x, R0. simpl. rewrite set_rem_neq; auto.
  - (* RRemove *)
    destruct (rems st r) as [R|] eqn:Hr; auto.
    destruct (find_id id (atts st)) as [l|]; auto.
    destruct (recorded id (items R)); auto.
    destruct (tgt R) as [t|] eqn:Ht; auto.
    destruct (t =? fst l); auto.
    intros t0 k0 id0 Hin Hv. simpl in *. apply In_detach in Hin. destruct Hin as [Hin Hne]. simpl in Hne.
    destruct (O t0 k0 id0 Hin Hv) as [x [R0 [Hx [Ht0 Hi]]]].
    destruct (Nat.eq_dec x r) as [->|Hxr].
    + rewrite Hr in Hx. injection Hx as <-. exists r. eexists. simpl. rewrite set_rem_eq. split; [reflexivity|].
      simpl. split; [congruence|]. apply In_erase_first_neq; auto.
    + exists x, R0. simpl. rewrite set_rem_neq; auto.
  - (* RReset *)
    destruct (rems st r) as [R|] eqn:Hr; auto. apply OInv_release; auto.
  - (* RSetTarget *)
    destruct (rems st r) as [R|] eqn:Hr; auto.
    destruct (t <? nt st); auto.
    destruct (match tgt R with Some t0 => t0 =? t | None => false end); auto.
    apply OInv_release; auto.
  - (* RMoveCtor *)
    destruct (rems st src) as [Rs|] eqn:Hs; auto.
    destruct (rems st dst) as [Rd|] eqn:Hd; auto.
    intros t k id Hin Hv. simpl in *. destruct (O t k id Hin Hv) as [x [R0 [Hx [Ht Hi]]]].
    destruct (Nat.eq_dec x src) as [->|Hxs].
    + rewrite Hs in Hx. injection Hx as <-. exists dst, Rs. simpl. rewrite set_rem_eq. auto.
    + assert (x <> dst) by congruence. exists x, R0. simpl. rewrite !set_rem_neq; auto.
  - (* RMoveAssign *)
    destruct (rems st src) as [Rs|] eqn:Hs; auto.
    destruct (rems st dst) as [Rd|] eqn:Hd; auto.
    destruct (Nat.eqb_spec src dst); [destruct sg; auto|].
    intros t k id Hin Hv. simpl in *. apply In_released in Hin. destruct Hin as [Hin Hnh].
    destruct (O t k id Hin Hv) as [x [R0 [Hx [Ht Hi]]]].
    destruct (Nat.eq_dec x dst) as [->|Hxd].
    + exfalso. apply Hnh. rewrite Hd in Hx. injection Hx as <-. split; auto.
    + destruct (Nat.eq_dec x src) as [->|Hxs].
      * rewrite Hs in Hx. injection Hx as <-. exists dst, Rs. simpl. rewrite set_rem_eq. auto.
      * exists x, R0. simpl. rewrite !set_rem_neq; auto.
  - (* RSwap *)
    destruct (rems st a) as [Ra|] eqn:HA; auto.
    destruct (rems st b) as [Rb|] eqn:HB; auto.
    intros t k id Hin Hv. simpl in *. destruct (O t k id Hin Hv) as [x [R0 [Hx [Ht Hi]]]].
    destruct (Nat.eq_dec x b) as [->|Hxb].
    + rewrite HB in Hx. injection Hx as <-. exists a, Rb. simpl. rewrite set_rem_eq. auto.
    + destruct (Nat.eq_dec x a) as [->|Hxa].
      * rewrite HA in Hx. injection Hx as <-. exists b, Ra. simpl. rewrite set_rem_neq; auto. rewrite set_rem_eq. auto.
      * exists x, R0. simpl. rewrite !set_rem_neq; auto.
  - (* RDestroy *)
    destruct (rems st r) as [R|] eqn:Hr; auto. apply OInv_release; auto.
  - (* DAdd *)
    destruct ((t <? nt st) && fresh st id && legal_before st m (t, k)) eqn:Hc; auto.
    apply andb_true_iff in Hc. destruct Hc as [Hc _]. apply andb_true_iff in Hc. destruct Hc as [_ Hfr].
    apply fresh_spec in Hfr.
    intros t0 k0 id0 Hin Hv. simpl in *. apply In_tadd in Hin. destruct Hin as [Heq|Hin].
    + injection Heq as -> -> ->. exfalso. apply Hfr. apply (w_via _ W); auto.
    + apply (O t0 k0 id0 Hin Hv).
  - (* DRemove *)
    destruct (find_id id (atts st)); auto.
    intros t0 k0 id0 Hin Hv. simpl in *. apply In_detach in Hin. destruct Hin as [Hin _].
    apply (O t0 k0 id0 Hin Hv).
  - (* Observe *)
    auto.
Qed.

Lemma OInv_run sg prog : forall st, WInv st -> OInv st -> OInv (rrun true sg prog st).
Proof.
  induction prog as [|c p IH]; simpl; auto. intros st W O. apply IH.
  - apply WInv_step; auto.
  - apply OInv_step; auto.
Qed.

(* ------------------------------------------------------------------ the C15 statements *)

(* remover_owns_inv: an attached listener that was added through a remover is recorded by
   exactly one live remover, and that remover points to the listener's container *)
Lemma owns_holds sg ntg prog :
  let st := rrun true sg prog (rinit ntg) in
  forall t k id, In id (via st) -> In ((t, k), id) (atts st) ->
    exists r, owner st r t k id /\ forall r' k', rec_in st r' k' id -> r' = r.
Proof.
  intros st t k id Hv Hin.
  assert (W : WInv st) by (apply WInv_run, WInv_init).
  assert (O : OInv st) by (apply OInv_run; [apply WInv_init|apply OInv_init]).
  destruct (O t k id Hin Hv) as [r [R [Hr [Ht Hi]]]]. exists r. split; [exists R; auto|].
  intros r' k' [R' [Hr' Hi']]. destruct (w_rec _ W) as [_ Hu]. eapply Hu; eauto.
Qed.

Lemma no_orphan_holds sg ntg prog :
  let st := rrun true sg prog (rinit ntg) in
  (forall r, rems st r = None) -> forall e, In e (atts st) -> ~ In (snd e) (via st).
Proof.
  intros st Hdead [[t k] id] Hin Hv. simpl in Hv.
  destruct (owns_holds sg ntg prog t k id Hv Hin) as [r [[R [Hr _]] _]].
  fold st in Hr. rewrite Hdead in Hr. discriminate.
Qed.

(* responsibility_moves *)
Lemma moves_ctor ar sg st s d Rs :
  rems st s = Some Rs -> rems st d = None ->
  let st' := rstep ar sg (RMoveCtor s d) st in
  atts st' = atts st /\ bad st' = bad st /\
  (forall t k id, owner st s t k id -> owner st' d t k id) /\
  (forall k id, ~ rec_in st' s k id) /\
  (forall r, r <> s -> r <> d -> rems st' r = rems st r).
Proof.
  intros Hs Hd. simpl. rewrite Hs, Hd. simpl. assert (s <> d) by congruence.
  repeat split; auto.
  - intros t k id [R [Hr [Ht Hi]]]. rewrite Hs in Hr. injection Hr as <-. exists Rs. simpl. rewrite set_rem_eq. auto.
  - intros k id [R [Hr Hi]]. simpl in Hr. rewrite set_rem_neq in Hr; auto. rewrite set_rem_eq in Hr. injection Hr as <-. simpl in Hi. auto.
  - intros r H1 H2. simpl. rewrite !set_rem_neq; auto.
Qed.

Lemma moves_assign sg st s d Rs Rd :
  WInv st -> rems st s = Some Rs -> rems st d = Some Rd -> s <> d ->
  let st' := rstep true sg (RMoveAssign s d) st in
  bad st' = bad st /\
  (forall t k id, owner st s t k id ->
     owner st' d t k id /\ (In ((t, k), id) (atts st') <-> In ((t, k), id) (atts st))) /\
  (forall k id, ~ rec_in st' s k id) /\
  (forall t k id, owner st d t k id -> ~ In ((t, k), id) (atts st')) /\
  (forall e, In e (atts st') <-> In e (atts st) /\ ~ holds Rd e) /\
  (forall r, r <> s -> r <> d -> rems st' r = rems st r).
Proof.
  intros W Hs Hd Hsd. simpl. rewrite Hs, Hd. destruct (Nat.eqb_spec s d); [contradiction|]. simpl.
  split; [reflexivity|]. split; [|split; [|split; [|split]]].
  - intros t k id Ho. split; [|split].
    + destruct Ho as [R [Hr [Ht Hi]]]. rewrite Hs in Hr. injection Hr as <-. exists Rs. simpl. rewrite set_rem_eq. auto.
    + intros Hin. apply In_released in Hin. tauto.
    + intros Hin. apply In_released. split; auto. intros [Ht Hi]. simpl in *.
      destruct Ho as [R [Hr [_ Hi']]]. destruct (w_rec _ W) as [_ Hu]. apply Hsd. eapply Hu; eauto.
  - intros k id [R [Hr Hi]]. simpl in Hr. rewrite set_rem_neq in Hr; auto. rewrite set_rem_eq in Hr. injection Hr as <-. simpl in Hi. auto.
  - intros t k id [R [Hr [Ht Hi]]] Hin. rewrite Hd in Hr. injection Hr as <-.
    apply In_released in Hin. destruct Hin as [_ Hn]. apply Hn. split; auto.
  - intros e. apply In_released.
  - intros r H1 H2. rewrite !set_rem_neq; auto.
Qed.

Lemma moves_swap ar sg st a b Ra Rb :
  rems st a = Some Ra -> rems st b = Some Rb ->
  let st' := rstep ar sg (RSwap a b) st in
  atts st' = atts st /\ bad st' = bad st /\
  (forall t k id, owner st a t k id <-> owner st' b t k id) /\
  (forall t k id, owner st b t k id <-> owner st' a t k id) /\
  (forall r, r <> a -> r <> b -> rems st' r = rems st r).
Proof.
  intros Ha Hb. simpl. rewrite Ha, Hb. simpl.
  assert (Hb' : set_rem a (Some Rb) (set_rem b (Some Ra) (rems st)) b = Some Ra).
  { unfold set_rem. destruct (Nat.eqb_spec b a); [subst; congruence|]. rewrite Nat.eqb_refl. auto. }
  repeat split; auto.
  - intros [R [Hr H]]. rewrite Ha in Hr. injection Hr as <-. exists Ra. simpl. auto.
  - intros [R [Hr H]]. simpl in Hr. rewrite Hb' in Hr. injection Hr as <-. exists Ra. auto.
  - intros [R [Hr H]]. rewrite Hb in Hr. injection Hr as <-. exists Rb. simpl. rewrite set_rem_eq. auto.
  - intros [R [Hr H]]. simpl in Hr. rewrite set_rem_eq in Hr. injection Hr as <-. exists Rb. auto.
  - intros r H1 H2. simpl. rewrite !set_rem_neq; auto.
Qed.

(* foreign_untouched *)
Definition remover_cmd (c : rcmd) : bool :=
  match c with DAdd _ _ _ _ | DRemove _ => false | _ => true end.

Definition notvia (v : list nat) (e : entry) : bool := negb (existsb (Nat.eqb (snd e)) v).
Definition nonvia (v : list nat) (l : list entry) : list entry := filter (notvia v) l.

Lemma notvia_false v e : In (snd e) v -> notvia v e = false.
Proof.
  intros H. unfold notvia. apply negb_false_iff. apply existsb_exists. exists (snd e). split; auto. apply Nat.eqb_refl.
Qed.

Lemma notvia_true v e : notvia v e = true <-> ~ In (snd e) v.
Proof.
  split.
  - intros H Hin. rewrite notvia_false in H; auto. discriminate.
  - intros H. unfold notvia. apply negb_true_iff. destruct (existsb (Nat.eqb (snd e)) v) eqn:E; auto.
    apply existsb_exists in E. destruct E as [x [Hx He]]. apply Nat.eqb_eq in He. subst. contradiction.
Qed.

Lemma filter_tadd_false p m e l : p e = false -> filter p (tadd m e l) = filter p l.
Proof.
  intros H. destruct m; simpl.
  - rewrite filter_app. simpl. rewrite H. apply app_nil_r.
  - rewrite H. auto.
  - induction l as [|y l IH]; simpl; [rewrite H; auto|].
    destruct (snd y =? before); simpl; [rewrite H; auto|]. rewrite IH. auto.
Qed.

Lemma nonvia_released st R r l :
  WInv st -> rems st r = Some R -> nonvia (via st) (released R l) = nonvia (via st) l.
Proof.
  intros W Hr. unfold released. destruct (tgt R) as [t|] eqn:Ht; auto.
  apply filter_filter_same. intros x _ Hx. apply negb_true_iff.
  destruct (hit t (items R) x) eqn:Hh; auto. apply hit_spec in Hh. destruct Hh as [_ Hi].
  destruct (w_rec _ W) as [Ha _]. destruct (Ha r R _ _ Hr Hi) as [Hv _].
  rewrite notvia_false in Hx; auto.
Qed.

Lemma foreign_holds ar sg st c :
  WInv st -> remover_cmd c = true ->
  nonvia (via (rstep ar sg c st)) (atts (rstep ar sg c st)) = nonvia (via (rstep ar sg c st)) (atts st).
Proof.
  intros W Hc. destruct c; simpl in Hc; try discriminate; simpl.
  - destruct (rems st r); auto. destruct (match t with Some t0 => t0 <? nt st | None => true end); auto.
  - destruct (rems st r) as [R|]; auto. destruct (tgt R); auto.
    destruct (fresh st id && legal_before st m (n, k)); auto. simpl.
    apply filter_tadd_false. apply notvia_false. simpl. auto.
  - destruct (rems st r) as [R|] eqn:Hr; auto.
    destruct (find_id id (atts st)) as [l|]; auto.
    destruct (recorded id (items R)) eqn:Hrec; auto.
    destruct (tgt R); auto. destruct (n =? fst l); auto. simpl.
    apply filter_filter_same. intros x _ Hx. apply negb_true_iff. apply Nat.eqb_neq. intros Heq.
    apply recorded_spec in Hrec. destruct Hrec as [k Hi].
    destruct (w_rec _ W) as [Ha _]. destruct (Ha r R _ _ Hr Hi) as [Hv _].
    rewrite notvia_false in Hx; [discriminate|congruence].
  - destruct (rems st r) as [R|] eqn:Hr; auto. simpl. eapply nonvia_released; eauto.
  - destruct (rems st r) as [R|] eqn:Hr; auto. destruct (t <? nt st); auto.
    destruct (match tgt R with Some t0 => t0 =? t | None => false end); auto. simpl. eapply nonvia_released; eauto.
  - destruct (rems st src); auto. destruct (rems st dst); auto.
  - destruct (rems st src); auto. destruct (rems st dst) as [Rd|] eqn:Hd; auto.
    destruct (src =? dst); [destruct sg; auto|]. destruct ar; auto. simpl. eapply nonvia_released; eauto.
  - destruct (rems st a); auto. destruct (rems st b); auto.
  - destruct (rems st r) as [R|] eqn:Hr; auto. simpl. eapply nonvia_released; eauto.
  - auto.
Qed.

(* membership form: a listener that was not added through a remover is attached after a
   remover operation exactly where it was attached before *)
Lemma foreign_membership ar sg st c e :
  WInv st -> remover_cmd c = true -> ~ In (snd e) (via (rstep ar sg c st)) ->
  (In e (atts (rstep ar sg c st)) <-> In e (atts st)).
Proof.
  intros W Hc Hn. pose proof (foreign_holds ar sg st c W Hc) as H. unfold nonvia in H.
  apply notvia_true in Hn. split; intros Hin.
  - assert (In e (filter (notvia (via (rstep ar sg c st))) (atts (rstep ar sg c st)))) by (apply filter_In; auto).
    rewrite H in H0. apply filter_In in H0. tauto.
  - assert (In e (filter (notvia (via (rstep ar sg c st))) (atts st))) by (apply filter_In; auto).
    rewrite <- H in H0. apply filter_In in H0. tauto.
Qed.

(* remove_reports *)
Lemma remove_reports_holds ar sg st r R id :
  WInv st -> rems st r = Some R ->
  let st' := rstep ar sg (RRemove r id) st in
  exists b, rtrace st' = rtrace st ++ [ERet b] /\ bad st' = bad st /\
    (b = true <-> (exists k, In (k, id) (items R)) /\ In id (map snd (atts st))) /\
    (b = true -> atts st' = detach id (atts st) /\ ~ In id (map snd (atts st'))) /\
    (b = false -> atts st' = atts st /\ rems st' = rems st).
Proof.
  intros W Hr. simpl. rewrite Hr.
  destruct (find_id id (atts st)) as [l|] eqn:Hf.
  - pose proof (find_id_Some _ _ _ Hf) as Hin.
    assert (Hat : In id (map snd (atts st))) by (apply in_map_iff; exists (l, id); auto).
    destruct (recorded id (items R)) eqn:Hrec.
    + pose proof Hrec as Hrec'. apply recorded_spec in Hrec'. destruct Hrec' as [k Hi].
      destruct (w_rec _ W) as [Ha _]. destruct (Ha r R k id Hr Hi) as [_ [t [Ht Hu]]].
      rewrite Ht. pose proof (attached_where st l (t, k) id W Hin Hu) as ->. simpl. rewrite Nat.eqb_refl. simpl.
      exists true. split; [reflexivity|]. split; [reflexivity|]. split; [|split].
      * split; eauto.
      * intros _. split; [reflexivity|]. intros Hin'. apply in_map_iff in Hin'.
        destruct Hin' as [x [Hx Hin']]. apply In_detach in Hin'. tauto.
      * discriminate.
    + exists false. simpl. split; [reflexivity|]. split; [reflexivity|]. split; [|split].
      * split; [discriminate|]. intros [[k Hi] _].
        assert (recorded id (items R) = true) by (apply recorded_spec; eauto). congruence.
      * discriminate.
      * auto.
  - exists false. simpl. split; [reflexivity|]. split; [reflexivity|]. split; [|split].
    + split; [discriminate|]. intros [_ Hat]. exfalso. eapply find_id_None; eauto.
    + discriminate.
    + auto.
Qed.

(* the preconditions that only guard against impossible situations never fire in a reachable
   state: a remover that holds records always has a target *)
Lemma records_imply_target ar sg ntg prog :
  let st := rrun ar sg prog (rinit ntg) in
  forall r R, rems st r = Some R -> items R <> [] -> exists t, tgt R = Some t.
Proof.
  intros st r R Hr Hne. assert (W : WInv st) by (apply WInv_run, WInv_init).
  destruct (items R) as [|[k id] its] eqn:Hi; [congruence|].
  destruct (w_rec _ W) as [Ha _]. destruct (Ha r R k id Hr) as [_ [t [Ht _]]]; [rewrite Hi; left; auto|eauto].
Qed.
