(* Properties_C15.v — C15: no listener added through a ScopedRemover outlives its remover.

   Only the property theorems (closed by `exact`), the refutations for a move assignment that
   does not release first, non-vacuity examples and Print Assumptions.  Model: RemoverModel.v,
   proofs: RemoverProofs.v.  Every theorem is about ALL programs (any number of removers,
   targets, keys and listeners, any order of add / remove / reset / re-target / move
   construction / move assignment / swap / destruction / direct operations on the targets),
   by induction over the program.

   AR and SG are read off include/eventpp/utilities/scopedremover.h by tie A
   (tools/leaves/remover.py -> coq/gen/GenRemover.v): does operator=(ScopedRemover&&) call
   reset() before overwriting its members / does it test this != &other.  The ownership
   theorems hold exactly when AR = true; with the header in which move assignment overwrites
   `itemList` without resetting (observation P6) this file does not compile, and the
   ..._refuted_without_reset theorems below give the program that shows why. *)
From Coq Require Import List Arith Bool.
From EV Require Import RemoverModel RemoverProofs.
From EV.gen Require GenRemover.
Import ListNotations.

Notation AR := GenRemover.move_assign_resets.
Notation SG := GenRemover.move_assign_self_guard.

(* the state reached by an arbitrary program from `ntg` empty targets and no remover *)
Definition reached (ntg : nat) (prog : list rcmd) : rstate := rrun AR SG prog (rinit ntg).

(* remover_owns_inv — in every reachable state, each listener added through a remover is
   either detached or recorded by exactly one live remover, whose target is the listener's
   container (owner st r t k id: slot r holds a live remover with target t and record (k, id)). *)
Theorem C15_remover_owns_inv :
  forall ntg prog, let st := reached ntg prog in
  forall t k id, In id (via st) -> In ((t, k), id) (atts st) ->
    exists r, owner st r t k id /\ forall r' k', rec_in st r' k' id -> r' = r.
Proof. exact (owns_holds SG). Qed.
Print Assumptions C15_remover_owns_inv.

(* no_orphan_after_all_gone — once no remover is alive, none of the listeners ever added
   through removers is attached to any target. *)
Theorem C15_no_orphan_after_all_gone :
  forall ntg prog, let st := reached ntg prog in
  (forall r, rems st r = None) -> forall e, In e (atts st) -> ~ In (snd e) (via st).
Proof. exact (no_orphan_holds SG). Qed.
Print Assumptions C15_no_orphan_after_all_gone.

(* responsibility_moves, move construction: the new remover owns exactly what the source
   owned, the source owns nothing, no listener is attached or detached. *)
Theorem C15_responsibility_moves_on_move_construction :
  forall ntg prog s d Rs, let st := reached ntg prog in
  rems st s = Some Rs -> rems st d = None ->
  let st' := rstep AR SG (RMoveCtor s d) st in
  atts st' = atts st /\ bad st' = bad st /\
  (forall t k id, owner st s t k id -> owner st' d t k id) /\
  (forall k id, ~ rec_in st' s k id) /\
  (forall r, r <> s -> r <> d -> rems st' r = rems st r).
Proof. exact (fun ntg prog s d Rs => moves_ctor AR SG (reached ntg prog) s d Rs). Qed.
Print Assumptions C15_responsibility_moves_on_move_construction.

(* responsibility_moves, move assignment (into an empty or a non-empty destination): the
   destination owns what the source owned and those listeners stay attached; the source owns
   nothing; everything the destination held before is detached at once; nothing else changes. *)
Theorem C15_responsibility_moves_on_move_assignment :
  forall ntg prog s d Rs Rd, let st := reached ntg prog in
  rems st s = Some Rs -> rems st d = Some Rd -> s <> d ->
  let st' := rstep AR SG (RMoveAssign s d) st in
  bad st' = bad st /\
  (forall t k id, owner st s t k id ->
     owner st' d t k id /\ (In ((t, k), id) (atts st') <-> In ((t, k), id) (atts st))) /\
  (forall k id, ~ rec_in st' s k id) /\
  (forall t k id, owner st d t k id -> ~ In ((t, k), id) (atts st')) /\
  (forall e, In e (atts st') <-> In e (atts st) /\ ~ holds Rd e) /\
  (forall r, r <> s -> r <> d -> rems st' r = rems st r).
Proof.
  exact (fun ntg prog s d Rs Rd =>
           moves_assign SG (reached ntg prog) s d Rs Rd (WInv_run AR SG prog _ (WInv_init ntg))).
Qed.
Print Assumptions C15_responsibility_moves_on_move_assignment.

(* responsibility_moves, swap: the two removers exchange what they own; targets untouched. *)
Theorem C15_responsibility_moves_on_swap :
  forall ntg prog a b Ra Rb, let st := reached ntg prog in
  rems st a = Some Ra -> rems st b = Some Rb ->
  let st' := rstep AR SG (RSwap a b) st in
  atts st' = atts st /\ bad st' = bad st /\
  (forall t k id, owner st a t k id <-> owner st' b t k id) /\
  (forall t k id, owner st b t k id <-> owner st' a t k id) /\
  (forall r, r <> a -> r <> b -> rems st' r = rems st r).
Proof. exact (fun ntg prog a b Ra Rb => moves_swap AR SG (reached ntg prog) a b Ra Rb). Qed.
Print Assumptions C15_responsibility_moves_on_swap.

(* foreign_untouched — what the header guarantees: NO member function of any remover
   (construction, add, remove(handle) — of any handle, also one the remover does not hold —,
   reset, setDispatcher/setCallbackList, move construction, move assignment, swap, destruction)
   detaches, re-attaches or re-orders a listener that was not added through a remover: the
   sequence of all such listeners, over all targets and keys, is the same before and after. *)
Theorem C15_foreign_untouched :
  forall ntg prog c, let st := reached ntg prog in
  remover_cmd c = true ->
  let st' := rstep AR SG c st in
  nonvia (via st') (atts st') = nonvia (via st') (atts st).
Proof. exact (fun ntg prog c => foreign_holds AR SG (reached ntg prog) c (WInv_run AR SG prog _ (WInv_init ntg))). Qed.
Print Assumptions C15_foreign_untouched.

Theorem C15_foreign_untouched_membership :
  forall ntg prog c e, let st := reached ntg prog in
  remover_cmd c = true ->
  let st' := rstep AR SG c st in
  ~ In (snd e) (via st') -> (In e (atts st') <-> In e (atts st)).
Proof. exact (fun ntg prog c e => foreign_membership AR SG (reached ntg prog) c e (WInv_run AR SG prog _ (WInv_init ntg))). Qed.
Print Assumptions C15_foreign_untouched_membership.

(* remove_reports — remove(handle) through a live remover reports true exactly when the
   remover holds a record of the listener and the listener is attached; then the listener is
   detached at once (and nothing else is); otherwise nothing changes.  The misuse flag is
   never raised: a held, attached listener is always on the remover's own target. *)
Theorem C15_remove_reports :
  forall ntg prog r R id, let st := reached ntg prog in
  rems st r = Some R ->
  let st' := rstep AR SG (RRemove r id) st in
  exists b, rtrace st' = rtrace st ++ [ERet b] /\ bad st' = bad st /\
    (b = true <-> (exists k, In (k, id) (items R)) /\ In id (map snd (atts st))) /\
    (b = true -> atts st' = detach id (atts st) /\ ~ In id (map snd (atts st'))) /\
    (b = false -> atts st' = atts st /\ rems st' = rems st).
Proof. exact (fun ntg prog r R id => remove_reports_holds AR SG (reached ntg prog) r R id (WInv_run AR SG prog _ (WInv_init ntg))). Qed.
Print Assumptions C15_remove_reports.

(* a remover that holds records always has a target (reset()'s `if(dispatcher != nullptr)` never
   skips a removal) *)
Theorem C15_records_imply_target :
  forall ntg prog, let st := reached ntg prog in
  forall r R, rems st r = Some R -> items R <> [] -> exists t, tgt R = Some t.
Proof. exact (records_imply_target AR SG). Qed.
Print Assumptions C15_records_imply_target.

(* ------------------------------------------------------------------------------------------
   The same statements are FALSE of the model of a move assignment that overwrites the
   destination's records without releasing them (assign_resets = false: the header before the
   repair of P6).  Witness: two removers on one list, the destination holds one listener. *)

Definition p6_prog : list rcmd :=
  [RNew 0 (Some 0); RNew 1 (Some 0); RAdd 0 0 1 MAppend; RMoveAssign 1 0].

Theorem C15_remover_owns_inv_refuted_without_reset :
  exists prog, let st := rrun false false prog (rinit 1) in
    bad st = false /\
    exists t k id, In id (via st) /\ In ((t, k), id) (atts st) /\ forall r, ~ owner st r t k id.
Proof.
  exists p6_prog. split; [vm_compute; reflexivity|]. exists 0, 0, 1.
  split; [vm_compute; auto|]. split; [vm_compute; auto|].
  intros r [R [Hr [_ Hi]]]. destruct r as [|[|r]]; cbv in Hr; try discriminate; injection Hr as <-; simpl in Hi; tauto.
Qed.
Print Assumptions C15_remover_owns_inv_refuted_without_reset.

Theorem C15_no_orphan_refuted_without_reset :
  exists prog, let st := rrun false false prog (rinit 1) in
    bad st = false /\ (forall r, rems st r = None) /\
    exists e, In e (atts st) /\ In (snd e) (via st).
Proof.
  exists (p6_prog ++ [RDestroy 0; RDestroy 1]). split; [vm_compute; reflexivity|]. split.
  - intros r. destruct r as [|[|r]]; reflexivity.
  - exists ((0, 0), 1). split; vm_compute; auto.
Qed.
Print Assumptions C15_no_orphan_refuted_without_reset.

(* with the release in place the same program leaves nothing behind *)
Example C15_p6_program_with_reset :
  remover_run_case true true 1 (p6_prog ++ [Observe 1; RDestroy 0; RDestroy 1; Observe 1])
  = Some [EObs 0 0 []; EObs 0 0 []]
  /\ remover_run_case false false 1 (p6_prog ++ [Observe 1; RDestroy 0; RDestroy 1; Observe 1])
  = Some [EObs 0 0 [1]; EObs 0 0 [1]].
Proof. split; vm_compute; reflexivity. Qed.

(* ------------------------------------------------------------------------------------------
   non-vacuity: a history over 3 removers, 2 targets and 2 keys that uses every command, runs
   without misuse, and reaches a state in which the hypotheses of the step theorems hold
   (two live removers that both hold attached listeners, on different targets; listeners added
   directly; a stale record). *)
Definition ex_prog : list rcmd :=
  [RNew 0 (Some 0); RNew 1 None; DAdd 0 0 9 MAppend; RAdd 0 0 1 MPrepend; RAdd 0 0 2 (MInsert 9);
   RAdd 0 1 3 MAppend; Observe 2; RRemove 0 9; RRemove 0 2; RRemove 0 2; DRemove 1; RRemove 0 1;
   RSetTarget 1 1; RAdd 1 1 4 MAppend; DAdd 1 1 8 MPrepend; RSwap 0 1; Observe 2;
   RMoveCtor 0 2; RAdd 0 0 5 MAppend; RAdd 2 1 6 (MInsert 8); Observe 2].

Example C15_hypotheses_satisfiable :
  let st := rrun true true ex_prog (rinit 2) in
  bad st = false /\ length (rtrace st) = 17 /\
  atts st = [((1, 1), 6); ((1, 1), 8); ((0, 0), 9); ((0, 1), 3); ((1, 1), 4); ((1, 0), 5)] /\
  via st = [6; 5; 4; 3; 2; 1] /\
  rems st 0 = Some (mkR (Some 1) [(0, 5)]) /\
  rems st 1 = Some (mkR (Some 0) [(0, 1); (1, 3)]) /\
  rems st 2 = Some (mkR (Some 1) [(1, 4); (1, 6)]) /\
  remover_cmd (RMoveAssign 1 2) = true /\
  (* move-assigning remover 1 into the non-empty remover 2 releases 4 and 6, keeps 3 *)
  atts (rstep true true (RMoveAssign 1 2) st) = [((1, 1), 8); ((0, 0), 9); ((0, 1), 3); ((1, 0), 5)].
Proof. vm_compute. repeat split; reflexivity. Qed.

(* the model removes a listener THROUGH a remover in one step: the record is found and erased, then the target's removal
   runs.  Tie A for "found and erased in one critical section" (tools/leaves/remover.py erase_where_found): every erase of a
   single record in scopedremover.h is in the function — and under the lock — that searched for it, so no removal that
   re-enters the remover in between (another thread's, or one made by the destructor of the callback being removed) can
   shift the records under a remembered position *)
Theorem C15_record_is_erased_where_it_is_found : GenRemover.record_erased_where_found = true.
Proof. reflexivity. Qed.
