(* CLDispTime.v — C03, dispatcher machine: real-time order.  A ghost beside the machine stamps every listener-management
   call with the length of the section log when the call begins (its first step, the lock of listenerMutex), when its section
   is logged, and when the call ends (its last step).  For EVERY schedule: the section of a finished call lies between the
   call's two ends and is its thread's; hence a call that had ended when another began precedes it in the log — the
   sequential run that explains an execution (dispatcher_machine_linearizes) respects the real-time order of the calls. *)
From Coq Require Import List Arith NArith Bool Lia.
From EV Require Import CLModel CLSec CLDisp CLDispConc.
Import ListNotations.
Local Open Scope nat_scope.

Record tghost := mkTG {
  tb : nat -> nat;                         (* stamp at which the thread's current call began *)
  tp : nat -> option nat;                  (* position of the current call's section in the log, once it is logged *)
  tcalls : list (nat * nat * nat * nat)    (* finished calls: thread, begin, position of the section, end *)
}.

Definition tstep_g (c : dconf) (t : nat) (G : tghost) : tghost :=
  let now := length (dlog c) in
  match thr c t with
  | (Idle, _ :: _) => if is_none (lkL c) then mkTG (upd (tb G) t now) (upd (tp G) t None) (tcalls G) else G
  | (HaveL _ (DOn e _), _) => match dmap c e with None => mkTG (tb G) (upd (tp G) t (Some now)) (tcalls G) | Some _ => G end
  | (WantM _ x, _) => if needsM (sec_of x) then G else mkTG (tb G) (upd (tp G) t (Some now)) (tcalls G)
  | (HaveM _ _, _) => mkTG (tb G) (upd (tp G) t (Some now)) (tcalls G)
  | (Absent, _) | (AfterS _ None, _) =>
      match tp G t with
      | Some p => mkTG (tb G) (upd (tp G) t None) ((t, tb G t, p, now) :: tcalls G)
      | None => G
      end
  | _ => G
  end.

Fixpoint trun_g (c : dconf) (G : tghost) (sched : list nat) : dconf * tghost :=
  match sched with [] => (c, G) | t :: r => trun_g (dcstep c t) (tstep_g c t G) r end.

Definition tg0 : tghost := mkTG (fun _ => 0) (fun _ => None) [].

Lemma trun_machine sched : forall c G, fst (trun_g c G sched) = dcrun c sched.
Proof. induction sched as [|t r IH]; intros c G; cbn [trun_g dcrun]; [reflexivity|apply IH]. Qed.

Definition thread_at (p : nat) (l : list (nat * dsec * bool)) : option nat := option_map (fun y => fst (fst y)) (nth_error l p).

Definition call_ok (l : list (nat * dsec * bool)) (r : nat * nat * nat * nat) : Prop :=
  let '(t, b, p, e) := r in b <= p /\ p < e /\ e <= length l /\ thread_at p l = Some t.

Record TI (c : dconf) (G : tghost) : Prop := {
  t_calls : Forall (call_ok (dlog c)) (tcalls G);
  t_begin : forall t, tb G t <= length (dlog c);
  t_pos : forall t p, tp G t = Some p -> tb G t <= p /\ p < length (dlog c) /\ thread_at p (dlog c) = Some t
}.

Lemma ti_init prog : TI (dinit prog) tg0.
Proof. constructor; cbn; [constructor|intros; lia|intros t p H; discriminate]. Qed.

Lemma thread_at_app p l y : p < length l -> thread_at p (l ++ [y]) = thread_at p l.
Proof. intros H. unfold thread_at. rewrite nth_error_app1 by exact H. reflexivity. Qed.
Lemma thread_at_new l y : thread_at (length l) (l ++ [y]) = Some (fst (fst y)).
Proof. unfold thread_at. rewrite nth_error_app2 by apply Nat.le_refl. rewrite Nat.sub_diag. reflexivity. Qed.

Lemma call_ok_app l y r : call_ok l r -> call_ok (l ++ [y]) r.
Proof.
  destruct r as [[[t b] p] e]. intros (A & B & C & D). split; [exact A|]. split; [exact B|]. split; [rewrite app_length; cbn; lia|].
  rewrite thread_at_app by lia. exact D.
Qed.

(* a step that logs nothing *)
Lemma ti_quiet c c' G : TI c G -> dlog c' = dlog c -> TI c' G.
Proof. intros [A B C] H. constructor; rewrite H; assumption. Qed.

(* a step of thread t that logs one section of its own and notes its position *)
Lemma ti_logs c c' G t y :
  TI c G -> dlog c' = dlog c ++ [y] -> fst (fst y) = t ->
  TI c' (mkTG (tb G) (upd (tp G) t (Some (length (dlog c)))) (tcalls G)).
Proof.
  intros [A B C] H Hy. constructor; cbn [tb tp tcalls]; rewrite H.
  - eapply Forall_impl; [|exact A]. intros r. apply call_ok_app.
  - intros u. rewrite app_length. cbn. specialize (B u). lia.
  - intros u p Hp. unfold upd in Hp. destruct (Nat.eqb_spec u t) as [->|Hne].
    + inversion Hp; subst p. split; [apply B|]. split; [rewrite app_length; cbn; lia|]. rewrite thread_at_new, Hy. reflexivity.
    + destruct (C u p Hp) as (X & Y & Z). split; [exact X|]. split; [rewrite app_length; cbn; lia|]. rewrite thread_at_app by exact Y. exact Z.
Qed.

Theorem ti_step c t G : TI c G -> TI (dcstep c t) (tstep_g c t G).
Proof.
  intros I. unfold dcstep, tstep_g. destruct (thr c t) as [p r] eqn:Et.
  destruct p as [|n x|n x| |n x|n x|n m|e|e|e cur capt|e cur capt|e node capt|e node capt].
  - destruct r as [|k r']; [exact I|]. destruct (is_none (lkL c)); [|exact I].
    destruct I as [A B C]. constructor; flat; cbn [tb tp tcalls]; [exact A| |].
    + intros u. unfold upd. destruct (Nat.eqb u t); [apply Nat.le_refl|apply B].
    + intros u p Hp. unfold upd in *. destruct (Nat.eqb_spec u t) as [->|Hne]; [discriminate|]. apply C. exact Hp.
  - destruct x as [e s|e s].
    + apply (ti_quiet c); [exact I|reflexivity].
    + destruct (dmap c e).
      * apply (ti_quiet c); [exact I|reflexivity].
      * apply (ti_logs c _ G t (t, DOn e s, absent_answer s)); [exact I|reflexivity|reflexivity].
  - destruct n; apply (ti_quiet c); try exact I; unfold draw; destruct (adds (sec_of x)); reflexivity.
  - (* Absent: the call ends *)
    destruct (tp G t) as [p|] eqn:Ep; [|apply (ti_quiet c); [exact I|reflexivity]].
    destruct I as [A B C]. destruct (C t p Ep) as (X & Y & Z).
    constructor; flat; cbn [tb tp tcalls].
    + constructor; [|exact A]. cbn [call_ok]. repeat split; [exact X|exact Y|apply Nat.le_refl|exact Z].
    + exact B.
    + intros u q Hq. unfold upd in Hq. destruct (Nat.eqb_spec u t) as [->|Hne]; [discriminate|]. apply C. exact Hq.
  - destruct (needsM (sec_of x)).
    + destruct (is_none (lkM c (ev_of x))); [|exact I]. apply (ti_quiet c); [exact I|reflexivity].
    + destruct (do_section_fields c t x) as (_ & _ & _ & _ & F5 & _). cbv zeta in F5.
      eapply (ti_logs c _ G t); [exact I|unfold set_thr; cbn [dlog]; exact F5|reflexivity].
  - destruct (do_section_fields c t x) as (_ & _ & _ & _ & F5 & _). cbv zeta in F5.
    eapply (ti_logs c _ G t); [exact I|unfold set_thr; cbn [dlog]; exact F5|reflexivity].
  - destruct m as [e|]; [apply (ti_quiet c); [exact I|reflexivity]|].
    (* AfterS n None: the call ends *)
    destruct (tp G t) as [p|] eqn:Ep; [|destruct n; apply (ti_quiet c); try exact I; reflexivity].
    destruct I as [A B C]. destruct (C t p Ep) as (X & Y & Z).
    assert (Hl : dlog (if n then set_thr (set_L c None) t Idle r else set_thr c t Idle r) = dlog c) by (destruct n; reflexivity).
    constructor; rewrite Hl; cbn [tb tp tcalls].
    + constructor; [|exact A]. cbn [call_ok]. repeat split; [exact X|exact Y|apply Nat.le_refl|exact Z].
    + exact B.
    + intros u q Hq. unfold upd in Hq. destruct (Nat.eqb_spec u t) as [->|Hne]; [discriminate|]. apply C. exact Hq.
  - destruct (dmap c e); apply (ti_quiet c); try exact I; reflexivity.
  - apply (ti_quiet c); [exact I|reflexivity].
  - destruct (is_none (lkM c e)); [|exact I]. apply (ti_quiet c); [exact I|reflexivity].
  - apply (ti_quiet c); [exact I|reflexivity].
  - apply (ti_quiet c); [exact I|reflexivity].
  - destruct node; apply (ti_quiet c); try exact I; reflexivity.
Qed.

Theorem ti_run sched : forall c G, TI c G -> TI (fst (trun_g c G sched)) (snd (trun_g c G sched)).
Proof. induction sched as [|t r IH]; intros c G I; cbn [trun_g fst snd]; [exact I|]. apply IH. apply ti_step. exact I. Qed.

(* EVERY SCHEDULE: a finished call's section lies between the call's ends, and is its thread's *)
Theorem dispatcher_calls_take_effect_between_their_ends prog sched :
  let c := dcrun (dinit prog) sched in
  let G := snd (trun_g (dinit prog) tg0 sched) in
  Forall (call_ok (dlog c)) (tcalls G).
Proof.
  cbv zeta. pose proof (ti_run sched (dinit prog) tg0 (ti_init prog)) as I. rewrite trun_machine in I. apply (t_calls _ _ I).
Qed.

(* hence: a call that had ended when another began precedes it in the order of sections *)
Theorem dispatcher_real_time_order_is_respected prog sched t1 b1 p1 e1 t2 b2 p2 e2 :
  let G := snd (trun_g (dinit prog) tg0 sched) in
  In (t1, b1, p1, e1) (tcalls G) -> In (t2, b2, p2, e2) (tcalls G) -> e1 <= b2 -> p1 < p2.
Proof.
  cbv zeta. intros H1 H2 Hle.
  pose proof (dispatcher_calls_take_effect_between_their_ends prog sched) as F. cbv zeta in F. rewrite Forall_forall in F.
  destruct (F _ H1) as (_ & A & _). destruct (F _ H2) as (B & _). lia.
Qed.
