(* AutoRemoveProofs.v — CounterRemover / ConditionalRemover detach their listener exactly when
   promised (property C16): an invariant of the model AutoRemoveModel.v over ALL re-entrant
   programs, proved by induction over the run (fuel) with the recursive interpreter abstracted
   as `rec` (as QBalance.v does).

   The invariant speaks, for every entry id h, about a tuple of observations (`obs`):
   attached?, what was added, the counter cell, explicitly removed?, overflowed?, and the
   projections of the trace on h (triggers, calls of the wrapped listener, condition
   evaluations).  Every transition of the model changes the observations of at most one id. *)
From Coq Require Import List Arith NArith ZArith Bool Lia.
From EV Require Import AutoRemoveModel.
From EV.gen Require GenAutoRemove.
Import ListNotations.
Local Open Scope nat_scope.

(* ---------- association lists, list surgery ---------- *)

Lemma alookup_aset {A} k k' (v : A) l : alookup k (aset k' v l) = if Nat.eqb k k' then Some v else alookup k l.
Proof.
  induction l as [|[x w] t IH]; simpl.
  - destruct (Nat.eqb_spec k k'); reflexivity.
  - destruct (Nat.eqb_spec k' x) as [E|E]; simpl.
    + subst. destruct (Nat.eqb_spec k x); reflexivity.
    + destruct (Nat.eqb_spec k x) as [E1|E1].
      * subst. destruct (Nat.eqb_spec x k'); [congruence|reflexivity].
      * exact IH.
Qed.

Lemma lstk_aset ls k k' v : lstk (aset k' v ls) k = if Nat.eqb k k' then v else lstk ls k.
Proof. unfold lstk. rewrite alookup_aset. destruct (Nat.eqb k k'); reflexivity. Qed.

Lemma cellk_aset ce h h' v : cellk (aset h' v ce) h = if Nat.eqb h h' then v else cellk ce h.
Proof. unfold cellk. rewrite alookup_aset. destruct (Nat.eqb h h'); reflexivity. Qed.

Lemma has_l_In h l : has_l h l = true <-> In h l.
Proof.
  induction l as [|x t IH]; simpl; [split; [discriminate|tauto]|].
  rewrite orb_true_iff, IH, Nat.eqb_eq. intuition.
Qed.

Lemma has_l_false h l : has_l h l = false <-> ~ In h l.
Proof. rewrite <- has_l_In. destruct (has_l h l); split; intros H; congruence. Qed.

Lemma has_l_cons_ne h x l : h <> x -> has_l h (x :: l) = has_l h l.
Proof. intros. simpl. destruct (Nat.eqb_spec h x); [contradiction|reflexivity]. Qed.

Lemma in_del_l x h l : In x (del_l h l) -> In x l.
Proof.
  induction l as [|y t IH]; simpl; [tauto|]. destruct (Nat.eqb h y); simpl; [tauto|]. intros [H|H]; [tauto|right; exact (IH H)].
Qed.

Lemma in_del_l_ne x h l : x <> h -> In x l -> In x (del_l h l).
Proof.
  intros N. induction l as [|y t IH]; simpl; [tauto|]. destruct (Nat.eqb_spec h y) as [E|E]; simpl.
  - intros [H|H]; [congruence|exact H].
  - intros [H|H]; [left; exact H|right; exact (IH H)].
Qed.

Lemma nodup_del_l h l : NoDup l -> NoDup (del_l h l).
Proof.
  induction 1 as [|y t N1 N2 IH]; simpl; [constructor|]. destruct (Nat.eqb h y); [exact N2|].
  constructor; [|exact IH]. intros H. apply N1. exact (in_del_l _ _ _ H).
Qed.

Lemma not_in_del_l h l : NoDup l -> ~ In h (del_l h l).
Proof.
  induction 1 as [|y t N1 N2 IH]; simpl; [tauto|]. destruct (Nat.eqb_spec h y) as [E|E]; [subst; exact N1|].
  simpl. intros [H|H]; [congruence|exact (IH H)].
Qed.

Lemma has_l_del_ne x h l : x <> h -> has_l x (del_l h l) = has_l x l.
Proof.
  intros N. destruct (has_l x l) eqn:E.
  - apply has_l_In. apply in_del_l_ne; [exact N|]. apply has_l_In; exact E.
  - apply has_l_false. intros H. apply in_del_l in H. apply has_l_In in H. congruence.
Qed.

(* the three ways of placing a new entry *)
Definition place_ok (pf : nat -> list nat -> list nat) : Prop :=
  forall n l, (forall x, In x (pf n l) <-> x = n \/ In x l) /\ (NoDup l -> ~ In n l -> NoDup (pf n l)).

Lemma place_append : place_ok (fun n l => l ++ [n]).
Proof.
  intros n l. split.
  - intros x. rewrite in_app_iff. simpl. intuition.
  - intros N1 N2. induction l as [|y t IH]; simpl; [constructor; [tauto|constructor]|].
    inversion N1; subst. constructor.
    + rewrite in_app_iff. simpl. intros [H|[H|[]]]; [tauto|]. apply N2. left. congruence.
    + apply IH; [assumption|]. intros H. apply N2. right. exact H.
Qed.

Lemma place_prepend : place_ok (fun n l => n :: l).
Proof. intros n l. split; [intros x; simpl; intuition|]. intros; constructor; assumption. Qed.

Lemma place_insert b : place_ok (fun n l => ins_l b n l).
Proof.
  intros n l. split.
  - intros x. induction l as [|y t IH]; simpl; [intuition|].
    destruct (Nat.eqb b y); simpl; [intuition|]. rewrite IH. intuition.
  - intros N1 N2. induction l as [|y t IH]; simpl; [constructor; [tauto|constructor]|].
    inversion N1; subst. destruct (Nat.eqb b y).
    + constructor; [exact N2|exact N1].
    + assert (Hin : forall x, In x (ins_l b n t) <-> x = n \/ In x t).
      { clear. intros x. induction t as [|z u IH]; simpl; [intuition|]. destruct (Nat.eqb b z); simpl; [intuition|]. rewrite IH. intuition. }
      constructor.
      * rewrite Hin. intros [H|H]; [apply N2; left; congruence|tauto].
      * apply IH; [assumption|]. intros H. apply N2. right. exact H.
Qed.

(* ---------- observations and the invariant ---------- *)

Definition in_range (n : Z) : Prop := (int_min < n <= int_max)%Z.

Record obs := mkObs {
  o_att : bool;                               (* attached to its list *)
  o_ent : option (nat * espec);               (* key and what was added *)
  o_cell : Z;                                 (* Data::triggerCount *)
  o_fresh : bool;                             (* id not handed out yet *)
  o_xr : bool;                                (* detached by an explicit remove *)
  o_ov : bool;                                (* its decrement overflowed *)
  o_trigs : list Z;                           (* triggers that reached the wrapper (arguments, newest first) *)
  o_calls : list (nat * nat * Z);             (* calls of the wrapped listener through this entry *)
  o_evals : list (nat * option Z * bool)      (* evaluations of the condition through this entry *)
}.

Definition obs_of ls en ce nh xr ov tr (h : nat) : obs :=
  mkObs (attachedk ls en h) (alookup h en) (cellk ce h) (nh <=? h) (has_l h xr) (has_l h ov)
        (trigs_of h tr) (calls_of h tr) (evals_of h tr).

Definition all_false (l : list bool) : Prop := forallb negb l = true.

Definition nt (o : obs) : Z := Z.of_nat (length (o_trigs o)).

Definition counter_ok (o : obs) (k c : nat) (n : Z) : Prop :=
  o_calls o = map (fun a => (c, k, a)) (o_trigs o)
  /\ (o_att o = true -> o_cell o = (n - nt o)%Z)
  /\ (nt o <= Z.max n 1)%Z
  /\ (o_xr o = false -> (o_att o = true <-> (nt o < Z.max n 1)%Z))
  /\ o_ov o = false.

Definition cond_ok (o : obs) (k c p : nat) (wa : bool) : Prop :=
  o_calls o = map (fun a => (c, k, a)) (o_trigs o)
  /\ map fst (o_evals o) = map (fun a => (p, if wa then Some a else None)) (o_trigs o)
  /\ all_false (tl (map snd (o_evals o)))
  /\ (o_xr o = false -> (o_att o = true <-> all_false (map snd (o_evals o)))).

Definition lists_ok (ls : list (nat * list nat)) (en : list (nat * (nat * espec))) (nh : nat) : Prop :=
  (forall k, NoDup (lstk ls k))
  /\ (forall k h, In h (lstk ls k) -> h < nh /\ exists e, alookup h en = Some (k, e)).

(* ---------- attachedness under list surgery ---------- *)

Lemma attachedk_del_other ls en k h0 h :
  h <> h0 -> attachedk (aset k (del_l h0 (lstk ls k)) ls) en h = attachedk ls en h.
Proof.
  intros N. unfold attachedk. destruct (alookup h en) as [[k1 e]|]; [|reflexivity].
  rewrite lstk_aset. destruct (Nat.eqb_spec k1 k); [subst; apply has_l_del_ne; exact N|reflexivity].
Qed.

Lemma attachedk_del_self ls en nh k h e :
  lists_ok ls en nh -> alookup h en = Some (k, e) -> attachedk (aset k (del_l h (lstk ls k)) ls) en h = false.
Proof.
  intros [L1 _] E. unfold attachedk. rewrite E, lstk_aset, Nat.eqb_refl. apply has_l_false. apply not_in_del_l. apply L1.
Qed.

Lemma lists_ok_del ls en nh k h0 : lists_ok ls en nh -> lists_ok (aset k (del_l h0 (lstk ls k)) ls) en nh.
Proof.
  intros [L1 L2]. split.
  - intros k1. rewrite lstk_aset. destruct (Nat.eqb k1 k); [apply nodup_del_l|]; apply L1.
  - intros k1 h. rewrite lstk_aset. destruct (Nat.eqb_spec k1 k); [subst; intros H; apply in_del_l in H|intros H]; exact (L2 _ _ H).
Qed.

(* ---------- the arithmetic of the counter, through the generated test ---------- *)

Lemma int_min_nonpos : (int_min <= 0)%Z.
Proof. unfold int_min, GenAutoRemove.counter_bits. vm_compute. discriminate. Qed.

Lemma no_overflow_in_range n t : in_range n -> (0 <= t < Z.max n 1)%Z -> dec_overflows (n - t) = false.
Proof.
  intros [R1 R2] T. pose proof int_min_nonpos as M.
  unfold dec_overflows. destruct (Z.ltb_spec (n - t - 1) int_min); [lia|reflexivity].
Qed.

(* what the proofs need from the header-dependent ingredients *)
Ltac split_comparisons :=
  repeat match goal with
         | |- context [Z.leb ?a ?b] => destruct (Z.leb_spec a b)
         | |- context [Z.ltb ?a ?b] => destruct (Z.ltb_spec a b)
         | |- context [Z.eqb ?a ?b] => destruct (Z.eqb_spec a b)
         end.

Lemma int_dec_in_range n t : in_range n -> (0 <= t < Z.max n 1)%Z -> int_dec (n - t) = (n - (t + 1))%Z.
Proof.
  intros [R1 R2] T. pose proof int_min_nonpos as M. unfold int_dec, wrap.
  destruct (Z.ltb_spec (n - t - 1) int_min); [lia|].
  destruct (Z.ltb_spec int_max (n - t - 1)); [lia|]. lia.
Qed.

(* ---------- everything below is parametric in the range of trigger counts covered ---------- *)

Section Range.
  Variable rng : Z -> Prop.

Definition pt_ok (o : obs) : Prop :=
  (o_fresh o = true -> o_ent o = None /\ o_trigs o = [] /\ o_calls o = [] /\ o_evals o = [] /\ o_xr o = false /\ o_ov o = false)
  /\ (o_xr o = true -> o_att o = false)
  /\ (forall k c n, o_ent o = Some (k, SCounter c n) -> rng n -> counter_ok o k c n)
  /\ (forall k c p wa, o_ent o = Some (k, SCond c p wa) -> cond_ok o k c p wa).

Definition InvC ls en ce nh xr ov tr : Prop :=
  lists_ok ls en nh /\ forall h, pt_ok (obs_of ls en ce nh xr ov tr h).

Definition Inv (st : astate) : Prop :=
  InvC (lsts st) (ents st) (cells st) (nexth st) (xrem st) (ovfs st) (atrace st).

Lemma inv_init : Inv a_init.
Proof.
  split; [split; [intros k; constructor|intros k h []]|].
  intros h. unfold obs_of, pt_ok, attachedk; simpl. repeat split; try discriminate; try reflexivity.
Qed.

(* the test is due exactly with the max(n,1)-th trigger; while it is not due the counter went
   down by one; no executed decrement leaves the int range *)
Definition step_ok (bounded : bool) (step : (Z -> Z) -> Z -> Z * bool) : Prop :=
  forall n t, rng n -> (0 <= t < Z.max n 1)%Z ->
    exists n' due, step int_dec (n - t)%Z = (n', due)
                   /\ (due = false <-> (t + 1 < Z.max n 1)%Z)
                   /\ (due = false -> n' = (n - (t + 1))%Z)
                   /\ counter_overflowed bounded (n - t) n' = false.

Definition leafs_ok (lf : leafs) : Prop :=
  step_ok (lf_bounded lf) (lf_step lf)
  /\ lf_counter_rbc lf = true /\ lf_cond_rbc lf = true
  /\ (forall w, lf_pass lf w = w)
  /\ lf_counter_shared lf = true /\ lf_cond_shared lf = true.

(* ---------- transitions of the core state ---------- *)

Lemma eqb_false_ne a b : a <> b -> Nat.eqb a b = false.
Proof. intros. apply Nat.eqb_neq. assumption. Qed.

Lemma lists_in_lt ls en nh k h : lists_ok ls en nh -> In h (lstk ls k) -> h < nh.
Proof. intros [_ L] H. exact (proj1 (L _ _ H)). Qed.

Lemma attachedk_true ls en k h e : alookup h en = Some (k, e) -> In h (lstk ls k) -> attachedk ls en h = true.
Proof. intros E H. unfold attachedk. rewrite E. apply has_l_In. exact H. Qed.

Lemma leb_false_lt nh h : h < nh -> (nh <=? h) = false.
Proof. intros. apply Nat.leb_gt. assumption. Qed.

(* a plain listener is called: only the call projection of its own entry grows *)
Lemma plain_trans ls en ce nh xr ov tr h k0 c0 c k a :
  InvC ls en ce nh xr ov tr -> alookup h en = Some (k0, SPlain c0) ->
  InvC ls en ce nh xr ov (ACall h c k a :: tr).
Proof.
  intros [L P] E. split; [exact L|]. intros h'. specialize (P h').
  destruct (Nat.eqb_spec h h') as [<-|N].
  - destruct P as (F & X & C & Q). unfold pt_ok, obs_of in *; simpl in *. rewrite E in *.
    split; [intros Hf; destruct (F Hf) as (H1 & _); discriminate|].
    split; [exact X|]. split; intros; discriminate.
  - replace (obs_of ls en ce nh xr ov (ACall h c k a :: tr) h') with (obs_of ls en ce nh xr ov tr h'); [exact P|].
    unfold obs_of; simpl. rewrite (eqb_false_ne _ _ N). reflexivity.
Qed.

(* a CounterRemover wrapper is activated: decrement, test, remove when due, call the listener *)
Lemma counter_trans step (bounded : bool) ls en ce nh xr ov tr h k c n a n' due :
  step_ok bounded step ->
  InvC ls en ce nh xr ov tr -> In h (lstk ls k) -> alookup h en = Some (k, SCounter c n) ->
  step int_dec (cellk ce h) = (n', due) ->
  InvC (if due then aset k (del_l h (lstk ls k)) ls else ls) en (aset h n' ce) nh xr
       (if counter_overflowed bounded (cellk ce h) n' then h :: ov else ov) (ACall h c k a :: ATrig h a :: tr).
Proof.
  intros SOK [L P] Hin E St. split; [destruct due; [apply lists_ok_del|]; exact L|].
  intros h'. destruct (Nat.eqb_spec h' h) as [->|N].
  - specialize (P h). assert (Att := attachedk_true _ _ _ _ _ E Hin).
    assert (Lt := lists_in_lt _ _ _ _ _ L Hin).
    destruct P as (F & X & C & Q). unfold pt_ok, obs_of in *; simpl in *.
    rewrite E in *. rewrite Nat.eqb_refl. rewrite (leb_false_lt _ _ Lt) in *.
    destruct (has_l h xr) eqn:Xr; [specialize (X eq_refl); congruence|].
    split; [discriminate|]. split; [discriminate|]. split; [|discriminate].
    intros k1 c1 n1 E1 R. inversion E1; subst k1 c1 n1. clear E1.
    destruct (C _ _ _ eq_refl R) as (C1 & C2 & C3 & C4 & C5).
    unfold counter_ok, nt in *; simpl in *.
    assert (T : (0 <= Z.of_nat (length (trigs_of h tr)) < Z.max n 1)%Z) by (split; [lia|apply (proj1 (C4 eq_refl)); exact Att]).
    rewrite (C2 Att) in St. destruct (SOK n _ R T) as (n'' & due' & S1 & S2 & S4 & S3).
    rewrite S1 in St. inversion St; subst n'' due'. clear St. rewrite (C2 Att), S3.
    rewrite cellk_aset, Nat.eqb_refl.
    split; [rewrite C1; reflexivity|]. split; [|split; [lia|split; [|exact C5]]].
    + destruct due.
      * rewrite (attachedk_del_self _ _ _ _ _ _ L E). discriminate.
      * intros _. rewrite (S4 eq_refl). lia.
    + intros _. destruct due.
      * rewrite (attachedk_del_self _ _ _ _ _ _ L E). split; [discriminate|]. intros H.
        assert (true = false) by (apply S2; lia). discriminate.
      * rewrite Att. split; [intros _|reflexivity]. assert (H := proj1 S2 eq_refl). lia.
  - replace (obs_of (if due then aset k (del_l h (lstk ls k)) ls else ls) en (aset h n' ce) nh xr
                    (if counter_overflowed bounded (cellk ce h) n' then h :: ov else ov) (ACall h c k a :: ATrig h a :: tr) h')
      with (obs_of ls en ce nh xr ov tr h'); [exact (P h')|].
    unfold obs_of; simpl. rewrite (eqb_false_ne _ _ (not_eq_sym N)), cellk_aset, (eqb_false_ne _ _ N).
    f_equal.
    + destruct due; [symmetry; apply attachedk_del_other; exact N|reflexivity].
    + destruct (counter_overflowed bounded (cellk ce h) n'); [symmetry; apply has_l_cons_ne; exact N|reflexivity].
Qed.

Lemma all_false_cons v l : all_false (v :: l) <-> v = false /\ all_false l.
Proof. unfold all_false. simpl. rewrite andb_true_iff, negb_true_iff. tauto. Qed.

(* a ConditionalRemover wrapper is activated: evaluate once, remove when true, call the listener *)
Lemma cond_trans (pass : bool -> bool) ls en ce nh xr ov tr h k c p wa a (v : bool) :
  (forall w, pass w = w) ->
  InvC ls en ce nh xr ov tr -> In h (lstk ls k) -> alookup h en = Some (k, SCond c p wa) ->
  InvC (if v then aset k (del_l h (lstk ls k)) ls else ls) en ce nh xr ov
       (ACall h c k a :: ACond h p (if pass wa then Some a else None) v :: ATrig h a :: tr).
Proof.
  intros Pw [L P] Hin E. split; [destruct v; [apply lists_ok_del|]; exact L|].
  intros h'. destruct (Nat.eqb_spec h' h) as [->|N].
  - specialize (P h). assert (Att := attachedk_true _ _ _ _ _ E Hin).
    assert (Lt := lists_in_lt _ _ _ _ _ L Hin).
    destruct P as (F & X & C & Q). unfold pt_ok, obs_of in *; simpl in *.
    rewrite E in *. rewrite Nat.eqb_refl. rewrite (leb_false_lt _ _ Lt) in *.
    destruct (has_l h xr) eqn:Xr; [specialize (X eq_refl); congruence|].
    split; [discriminate|]. split; [discriminate|]. split; [discriminate|].
    intros k1 c1 p1 wa1 E1. inversion E1; subst k1 c1 p1 wa1. clear E1.
    destruct (Q _ _ _ _ eq_refl) as (Q1 & Q2 & Q3 & Q4).
    unfold cond_ok in *; simpl in *. rewrite Pw.
    assert (AF : all_false (map snd (evals_of h tr))) by (apply (proj1 (Q4 eq_refl)); exact Att).
    split; [rewrite Q1; reflexivity|]. split; [rewrite Q2; reflexivity|]. split; [exact AF|].
    intros _. rewrite all_false_cons. destruct v.
    + rewrite (attachedk_del_self _ _ _ _ _ _ L E). split; [discriminate|]. intros [H _]; discriminate.
    + rewrite Att. split; [intros _; split; [reflexivity|exact AF]|reflexivity].
  - replace (obs_of (if v then aset k (del_l h (lstk ls k)) ls else ls) en ce nh xr ov
                    (ACall h c k a :: ACond h p (if pass wa then Some a else None) v :: ATrig h a :: tr) h')
      with (obs_of ls en ce nh xr ov tr h'); [exact (P h')|].
    unfold obs_of; simpl. rewrite (eqb_false_ne _ _ (not_eq_sym N)).
    f_equal. destruct v; [symmetry; apply attachedk_del_other; exact N|reflexivity].
Qed.

(* an explicit remove command detaches entry b *)
Lemma remove_trans ls en ce nh xr ov tr b k e :
  InvC ls en ce nh xr ov tr -> In b (lstk ls k) -> alookup b en = Some (k, e) ->
  InvC (aset k (del_l b (lstk ls k)) ls) en ce nh (b :: xr) ov tr.
Proof.
  intros [L P] Hin E. split; [apply lists_ok_del; exact L|].
  intros h'. destruct (Nat.eqb_spec h' b) as [->|N].
  - specialize (P b). assert (Lt := lists_in_lt _ _ _ _ _ L Hin).
    destruct P as (F & X & C & Q). unfold pt_ok, obs_of in *; simpl in *.
    rewrite Nat.eqb_refl. rewrite (leb_false_lt _ _ Lt) in *. simpl.
    rewrite (attachedk_del_self _ _ _ _ _ _ L E).
    split; [discriminate|]. split; [reflexivity|]. split.
    + intros k1 c1 n1 E1 R. destruct (C _ _ _ E1 R) as (C1 & C2 & C3 & C4 & C5).
      unfold counter_ok, nt in *; simpl in *. repeat split; try assumption; discriminate.
    + intros k1 c1 p1 wa1 E1. destruct (Q _ _ _ _ E1) as (Q1 & Q2 & Q3 & Q4).
      unfold cond_ok in *; simpl in *. repeat split; try assumption; discriminate.
  - replace (obs_of (aset k (del_l b (lstk ls k)) ls) en ce nh (b :: xr) ov tr h') with (obs_of ls en ce nh xr ov tr h'); [exact (P h')|].
    unfold obs_of. rewrite (has_l_cons_ne _ _ _ N), (attachedk_del_other _ _ _ _ _ N). reflexivity.
Qed.

(* a new entry gets the next id *)
Lemma add_trans pf ls en ce nh xr ov tr k e :
  place_ok pf -> InvC ls en ce nh xr ov tr ->
  InvC (aset k (pf nh (lstk ls k)) ls) (aset nh (k, e) en)
       (match e with SCounter _ n => aset nh n ce | _ => ce end) (S nh) xr ov tr.
Proof.
  intros PF [L P]. destruct L as [L1 L2].
  assert (Fresh : ~ In nh (lstk ls k)) by (intros H; destruct (L2 _ _ H) as [H1 _]; lia).
  destruct (PF nh (lstk ls k)) as [PF1 PF2].
  split; [split|].
  - intros k1. rewrite lstk_aset. destruct (Nat.eqb k1 k); [apply PF2; [apply L1|exact Fresh]|apply L1].
  - intros k1 h. rewrite lstk_aset, alookup_aset. destruct (Nat.eqb_spec k1 k) as [->|Nk].
    + rewrite PF1. intros [->|H].
      * rewrite Nat.eqb_refl. split; [lia|eexists; reflexivity].
      * destruct (L2 _ _ H) as [H1 H2]. rewrite (eqb_false_ne h nh) by lia. split; [lia|exact H2].
    + intros H. destruct (L2 _ _ H) as [H1 H2]. rewrite (eqb_false_ne h nh) by lia. split; [lia|exact H2].
  - intros h'. pose proof (P h') as Ph. destruct (Nat.eqb_spec h' nh) as [->|N].
    + destruct Ph as (F & _). unfold pt_ok, obs_of in *; cbn [o_att o_ent o_cell o_fresh o_xr o_ov o_trigs o_calls o_evals] in *.
      rewrite Nat.leb_refl in F. destruct (F eq_refl) as (F1 & F2 & F3 & F4 & F5 & F6).
      rewrite alookup_aset, Nat.eqb_refl, F2, F3, F4, F5, F6.
      assert (A : attachedk (aset k (pf nh (lstk ls k)) ls) (aset nh (k, e) en) nh = true).
      { unfold attachedk. rewrite alookup_aset, Nat.eqb_refl, lstk_aset, Nat.eqb_refl. apply has_l_In. apply PF1. left; reflexivity. }
      rewrite A. rewrite (leb_false_lt (S nh) nh) by lia.
      split; [discriminate|]. split; [discriminate|]. split.
      * intros k1 c1 n1 E1 R. inversion E1; subst. unfold counter_ok, nt; simpl.
        rewrite cellk_aset, Nat.eqb_refl. clear R. repeat split; try reflexivity; try lia.
      * intros k1 c1 p1 wa1 E1. inversion E1; subst. unfold cond_ok; simpl. repeat split; reflexivity.
    + assert (A : attachedk (aset k (pf nh (lstk ls k)) ls) (aset nh (k, e) en) h' = attachedk ls en h').
      { unfold attachedk. rewrite alookup_aset, (eqb_false_ne _ _ N). destruct (alookup h' en) as [[k1 e1]|]; [|reflexivity].
        rewrite lstk_aset. destruct (Nat.eqb_spec k1 k) as [->|]; [|reflexivity].
        destruct (has_l h' (lstk ls k)) eqn:Hh.
        - apply has_l_In. apply PF1. right. apply has_l_In. exact Hh.
        - apply has_l_false. rewrite PF1. intros [H|H]; [contradiction|]. apply has_l_In in H. congruence. }
      assert (B : cellk (match e with SCounter _ n => aset nh n ce | _ => ce end) h' = cellk ce h').
      { destruct e; try reflexivity. rewrite cellk_aset, (eqb_false_ne _ _ N). reflexivity. }
      destruct (Nat.leb_spec (S nh) h') as [G|G].
      * (* still fresh *)
        replace (obs_of (aset k (pf nh (lstk ls k)) ls) (aset nh (k, e) en) (match e with SCounter _ n => aset nh n ce | _ => ce end) (S nh) xr ov tr h')
          with (obs_of ls en ce nh xr ov tr h'); [exact Ph|].
        unfold obs_of. rewrite A, B, alookup_aset, (eqb_false_ne _ _ N).
        rewrite (proj2 (Nat.leb_le nh h')) by lia. rewrite (proj2 (Nat.leb_le (S nh) h')) by lia. reflexivity.
      * replace (obs_of (aset k (pf nh (lstk ls k)) ls) (aset nh (k, e) en) (match e with SCounter _ n => aset nh n ce | _ => ce end) (S nh) xr ov tr h')
          with (obs_of ls en ce nh xr ov tr h'); [exact Ph|].
        unfold obs_of. rewrite A, B, alookup_aset, (eqb_false_ne _ _ N).
        rewrite (leb_false_lt nh h') by lia. rewrite (leb_false_lt (S nh) h') by lia. reflexivity.
Qed.

(* ---------- the invariant over arbitrary re-entrant programs ---------- *)

Section Preservation.
  Variable lf : leafs.
  Hypothesis LOK : leafs_ok lf.
  Variable behav : nat -> nat -> list acmd.
  Variable cverdict : nat -> nat -> bool.

  Definition RecInv (rec : astate -> list acmd -> option astate) : Prop :=
    forall st cs st', Inv st -> rec st cs = Some st' -> Inv st'.

  Lemma passes_args_id w : lf_pass lf w = w.
  Proof. destruct LOK as (_ & _ & _ & P & _). apply P. Qed.

  Section Loops.
    Variable rec : astate -> list acmd -> option astate.
    Hypothesis HR : RecInv rec.

    Lemma run_inner_plain_inv st h k0 c0 c k a st' :
      Inv st -> alookup h (ents st) = Some (k0, SPlain c0) ->
      run_inner behav rec st h c k a = Some st' -> Inv st'.
    Proof.
      intros I E H. unfold run_inner in H. cbv zeta in H. apply HR in H; [exact H|].
      unfold Inv; simpl. exact (plain_trans _ _ _ _ _ _ _ _ _ _ c k a I E).
    Qed.

    Lemma activate_inv st h k a st' :
      Inv st -> has_l h (lst_of st k) = true -> activate lf behav cverdict rec st h k a = Some st' -> Inv st'.
    Proof.
      intros I Hh H. apply has_l_In in Hh. unfold lst_of in Hh.
      assert (L := proj1 I). destruct (proj2 L _ _ Hh) as [_ [e E]].
      unfold activate in H. rewrite E in H. destruct e as [c|c n|c p wa].
      - exact (run_inner_plain_inv _ _ _ _ _ _ _ _ I E H).
      - (* CounterRemover: the generated facts *)
        assert (Sh : lf_counter_shared lf = true) by (destruct LOK as (_ & _ & _ & _ & X & _); exact X).
        assert (Rb : lf_counter_rbc lf = true) by (destruct LOK as (_ & X & _); exact X).
        rewrite Sh, Rb in H. unfold touch_helper in H. cbv zeta in H.
        change (cells (alog st (ATrig h a))) with (cells st) in H.
        destruct (lf_step lf int_dec (cellk (cells st) h)) as [n' due] eqn:St.
        unfold finish_wrapper, run_inner in H. cbv zeta in H. apply HR in H; [exact H|].
        pose proof (counter_trans (lf_step lf) (lf_bounded lf) _ _ _ _ _ _ _ _ _ _ _ a _ _ (proj1 LOK) I Hh E St) as T.
        unfold Inv. destruct due, (counter_overflowed (lf_bounded lf) (cellk (cells st) h) n'); simpl; exact T.
      - (* ConditionalRemover *)
        assert (Sh : lf_cond_shared lf = true) by (destruct LOK as (_ & _ & _ & _ & _ & X); exact X).
        assert (Rb : lf_cond_rbc lf = true) by (destruct LOK as (_ & _ & X & _); exact X).
        rewrite Sh, Rb in H. unfold touch_helper in H. cbv zeta in H.
        unfold finish_wrapper, run_inner in H. cbv zeta in H. apply HR in H; [exact H|].
        match type of H with context [ACond h p _ ?v] => set (vv := v) in * end.
        pose proof (cond_trans (lf_pass lf) _ _ _ _ _ _ _ _ _ _ _ _ a vv passes_args_id I Hh E) as T.
        unfold Inv. destruct vv; simpl; exact T.
    Qed.

    Lemma call_all_inv k a : forall todo st st',
      Inv st -> call_all lf behav cverdict rec st k todo a = Some st' -> Inv st'.
    Proof.
      induction todo as [|h rest IH]; intros st st' I H; simpl in H; [inversion H; subst; exact I|].
      destruct (has_l h (lst_of st k)) eqn:Hh; [|exact (IH _ _ I H)].
      destruct (activate lf behav cverdict rec st h k a) as [st1|] eqn:Ea; [|discriminate].
      exact (IH _ _ (activate_inv _ _ _ _ _ I Hh Ea) H).
    Qed.

    Lemma dispatch_inv st k a st' : Inv st -> dispatch lf behav cverdict rec st k a = Some st' -> Inv st'.
    Proof. apply call_all_inv. Qed.

    Lemma process_loop_inv : forall evs st st',
      Inv st -> process_loop lf behav cverdict rec st evs = Some st' -> Inv st'.
    Proof.
      induction evs as [|[k a] rest IH]; intros st st' I H; simpl in H; [inversion H; subst; exact I|].
      destruct (dispatch lf behav cverdict rec st k a) as [st1|] eqn:Ed; [|discriminate].
      exact (IH _ _ (dispatch_inv _ _ _ _ I Ed) H).
    Qed.

    Lemma add_entry_inv st k e h pf : place_ok pf -> Inv st -> Inv (add_entry st k e h pf).
    Proof.
      intros PF I. unfold Inv, add_entry; simpl. unfold lst_of.
      pose proof (add_trans pf _ _ _ _ _ _ _ k e PF I) as T. destruct e; exact T.
    Qed.

    Lemma step_inv st c st' : Inv st -> a_step lf behav cverdict rec st c = Some st' -> Inv st'.
    Proof.
      intros I H. destruct c as [pl k e h|k h|k a|k a| |h]; unfold a_step in H.
      - destruct pl as [| |hb].
        + inversion H; subst. apply add_entry_inv; [apply place_append|exact I].
        + inversion H; subst. apply add_entry_inv; [apply place_prepend|exact I].
        + destruct (alookup hb (hregs st)) as [b|]; [|inversion H; subst; apply add_entry_inv; [apply place_append|exact I]].
          destruct (alookup b (ents st)) as [[k' e']|]; [|inversion H; subst; apply add_entry_inv; [apply place_append|exact I]].
          destruct (Nat.eqb k' k); [|discriminate].
          destruct (has_l b (lst_of st k)); inversion H; subst; apply add_entry_inv; try exact I; [apply place_insert|apply place_append].
      - destruct (alookup h (hregs st)) as [b|]; [|inversion H; subst; exact I].
        destruct (alookup b (ents st)) as [[k' e']|] eqn:E; [|inversion H; subst; exact I].
        destruct (Nat.eqb_spec k' k) as [->|]; [|discriminate].
        destruct (has_l b (lst_of st k)) eqn:Hb; inversion H; subst; [|exact I].
        apply has_l_In in Hb. unfold Inv; simpl. exact (remove_trans _ _ _ _ _ _ _ _ _ _ I Hb E).
      - exact (dispatch_inv _ _ _ _ I H).
      - inversion H; subst. exact I.
      - destruct (pend st) as [|ev evs]; [inversion H; subst; exact I|].
        destruct (process_loop lf behav cverdict rec (upd_pend st []) (ev :: evs)) as [st1|] eqn:Ep; [|discriminate].
        inversion H; subst. assert (I' : Inv (upd_pend st [])) by exact I. exact (process_loop_inv _ _ _ I' Ep).
      - destruct (alookup h (hregs st)) as [b|]; [|inversion H; subst; exact I].
        destruct (helper_unreferenced lf st b); inversion H; subst; exact I.
    Qed.

    Lemma seq_inv : forall cs st st', Inv st -> a_seq lf behav cverdict rec st cs = Some st' -> Inv st'.
    Proof.
      induction cs as [|c r IH]; intros st st' I H; simpl in H; [inversion H; subst; exact I|].
      destruct (a_step lf behav cverdict rec st c) as [st1|] eqn:E; [|discriminate].
      exact (IH _ _ (step_inv _ _ _ I E) H).
    Qed.
  End Loops.

  Theorem run_inv : forall fuel, RecInv (a_run lf behav cverdict fuel).
  Proof.
    induction fuel as [|f IH]; intros st cs st' I H; simpl in H; [discriminate|]. exact (seq_inv _ IH _ _ _ I H).
  Qed.
End Preservation.

(* ---------- progress: an attached wrapper is reached by every invocation of its list ---------- *)

Definition Ext (st st' : astate) : Prop :=
  (exists evs, atrace st' = evs ++ atrace st)
  /\ (forall h, has_l h (xrem st') = false -> has_l h (xrem st) = false)
  /\ (forall h x, alookup h (ents st) = Some x -> alookup h (ents st') = Some x).

Lemma ext_refl st : Ext st st.
Proof. split; [exists []; reflexivity|]. split; intros; assumption. Qed.

Lemma ext_trans a b c : Ext a b -> Ext b c -> Ext a c.
Proof.
  intros ([e1 E1] & X1 & N1) ([e2 E2] & X2 & N2). split; [exists (e2 ++ e1); rewrite E2, E1, app_assoc; reflexivity|].
  split; intros; auto.
Qed.

Lemma trigs_of_app h l1 l2 : trigs_of h (l1 ++ l2) = trigs_of h l1 ++ trigs_of h l2.
Proof. induction l1 as [|[h' a|h' p oa v|h' c k a|b] t IH]; simpl; try exact IH; [reflexivity|]. destruct (Nat.eqb h' h); simpl; rewrite IH; reflexivity. Qed.

Lemma evals_of_app h l1 l2 : evals_of h (l1 ++ l2) = evals_of h l1 ++ evals_of h l2.
Proof. induction l1 as [|[h' a|h' p oa v|h' c k a|b] t IH]; simpl; try exact IH; [reflexivity|]. destruct (Nat.eqb h' h); simpl; rewrite IH; reflexivity. Qed.

Definition ntrig (st : astate) (h : nat) : nat := length (trigs_of h (atrace st)).

Lemma ext_ntrig st st' h : Ext st st' -> ntrig st h <= ntrig st' h.
Proof. intros ([e E] & _). unfold ntrig. rewrite E, trigs_of_app, app_length. lia. Qed.

Lemma ext_log st e : Ext st (alog st e).
Proof. split; [exists [e]; reflexivity|]. split; intros; assumption. Qed.

Section Progress.
  Variable lf : leafs.
  Hypothesis LOK : leafs_ok lf.
  Variable behav : nat -> nat -> list acmd.
  Variable cverdict : nat -> nat -> bool.

  Definition RecExt (rec : astate -> list acmd -> option astate) : Prop :=
    forall st cs st', Inv st -> rec st cs = Some st' -> Ext st st'.

  Definition is_wrapper (e : espec) : Prop := match e with SPlain _ => False | _ => True end.

  Section Loops.
    Variable rec : astate -> list acmd -> option astate.
    Hypothesis HR : RecInv rec.
    Hypothesis HE : RecExt rec.

    (* an activation = a bookkeeping prefix (the wrapper's own work) followed by the listener's body *)
    Lemma activate_pre st h k a st' :
      Inv st -> has_l h (lst_of st k) = true -> activate lf behav cverdict rec st h k a = Some st' ->
      exists st1 body, rec st1 body = Some st' /\ Inv st1 /\ Ext st st1
                       /\ (forall k0 e, alookup h (ents st) = Some (k0, e) -> is_wrapper e -> ntrig st1 h = S (ntrig st h)).
    Proof.
      intros I Hh H. apply has_l_In in Hh. unfold lst_of in Hh.
      assert (L := proj1 I). destruct (proj2 L _ _ Hh) as [_ [e E]].
      unfold activate in H. rewrite E in H. destruct e as [c|c n|c p wa].
      - unfold run_inner in H. cbv zeta in H. eexists _, _. split; [exact H|]. split; [|split].
        + unfold Inv; simpl. exact (plain_trans _ _ _ _ _ _ _ _ _ _ c k a I E).
        + split; [eexists [_]; reflexivity|]. split; intros; assumption.
        + intros k0 e0 E0 W. rewrite E in E0. inversion E0; subst. destruct W.
      - assert (Sh : lf_counter_shared lf = true) by (destruct LOK as (_ & _ & _ & _ & X & _); exact X).
        assert (Rb : lf_counter_rbc lf = true) by (destruct LOK as (_ & X & _); exact X).
        rewrite Sh, Rb in H. unfold touch_helper in H. cbv zeta in H.
        change (cells (alog st (ATrig h a))) with (cells st) in H.
        destruct (lf_step lf int_dec (cellk (cells st) h)) as [n' due] eqn:St.
        unfold finish_wrapper, run_inner in H. cbv zeta in H.
        pose proof (counter_trans (lf_step lf) (lf_bounded lf) _ _ _ _ _ _ _ _ _ _ _ a _ _ (proj1 LOK) I Hh E St) as T.
        eexists _, _. split; [exact H|]. split; [|split].
        + unfold Inv. destruct due, (counter_overflowed (lf_bounded lf) (cellk (cells st) h) n'); simpl; exact T.
        + split; [|split].
          * destruct due, (counter_overflowed (lf_bounded lf) (cellk (cells st) h) n'); simpl; eexists [_; _]; reflexivity.
          * intros h0 X. destruct due, (counter_overflowed (lf_bounded lf) (cellk (cells st) h) n'); simpl in X; exact X.
          * intros h0 x X. destruct due, (counter_overflowed (lf_bounded lf) (cellk (cells st) h) n'); simpl; exact X.
        + intros _ _ _ _. unfold ntrig. destruct due, (counter_overflowed (lf_bounded lf) (cellk (cells st) h) n'); simpl; rewrite Nat.eqb_refl; reflexivity.
      - assert (Sh : lf_cond_shared lf = true) by (destruct LOK as (_ & _ & _ & _ & _ & X); exact X).
        assert (Rb : lf_cond_rbc lf = true) by (destruct LOK as (_ & _ & X & _); exact X).
        rewrite Sh, Rb in H. unfold touch_helper in H. cbv zeta in H.
        unfold finish_wrapper, run_inner in H. cbv zeta in H.
        match type of H with context [ACond h p _ ?v] => set (vv := v) in * end.
        pose proof (cond_trans (lf_pass lf) _ _ _ _ _ _ _ _ _ _ _ _ a vv (passes_args_id lf LOK) I Hh E) as T.
        eexists _, _. split; [exact H|]. split; [|split].
        + unfold Inv. destruct vv; simpl; exact T.
        + split; [|split].
          * destruct vv; simpl; eexists [_; _; _]; reflexivity.
          * intros h0 X. destruct vv; simpl in X; exact X.
          * intros h0 x X. destruct vv; simpl; exact X.
        + intros _ _ _ _. unfold ntrig. destruct vv; simpl; rewrite Nat.eqb_refl; reflexivity.
    Qed.

    Lemma activate_ext st h k a st' :
      Inv st -> has_l h (lst_of st k) = true -> activate lf behav cverdict rec st h k a = Some st' -> Ext st st'.
    Proof.
      intros I Hh H. destruct (activate_pre _ _ _ _ _ I Hh H) as (st1 & body & R & I1 & E1 & _).
      exact (ext_trans _ _ _ E1 (HE _ _ _ I1 R)).
    Qed.

    Lemma call_all_ext k a : forall todo st st',
      Inv st -> call_all lf behav cverdict rec st k todo a = Some st' -> Ext st st'.
    Proof.
      induction todo as [|h rest IH]; intros st st' I H; simpl in H; [inversion H; subst; apply ext_refl|].
      destruct (has_l h (lst_of st k)) eqn:Hh; [|exact (IH _ _ I H)].
      destruct (activate lf behav cverdict rec st h k a) as [st1|] eqn:Ea; [|discriminate].
      exact (ext_trans _ _ _ (activate_ext _ _ _ _ _ I Hh Ea) (IH _ _ (activate_inv lf LOK behav cverdict rec HR _ _ _ _ _ I Hh Ea) H)).
    Qed.

    Lemma process_loop_ext : forall evs st st',
      Inv st -> process_loop lf behav cverdict rec st evs = Some st' -> Ext st st'.
    Proof.
      induction evs as [|[k a] rest IH]; intros st st' I H; simpl in H; [inversion H; subst; apply ext_refl|].
      destruct (dispatch lf behav cverdict rec st k a) as [st1|] eqn:Ed; [|discriminate].
      exact (ext_trans _ _ _ (call_all_ext _ _ _ _ _ I Ed) (IH _ _ (dispatch_inv lf LOK behav cverdict rec HR _ _ _ _ I Ed) H)).
    Qed.

    Lemma add_entry_ext st k e h pf : Inv st -> Ext st (add_entry st k e h pf).
    Proof.
      intros I. split; [exists []; reflexivity|]. split; [intros; assumption|].
      intros h0 x X. unfold add_entry; simpl. rewrite alookup_aset.
      destruct (Nat.eqb_spec h0 (nexth st)) as [->|]; [|exact X].
      destruct (proj2 I (nexth st)) as (F & _). unfold obs_of in F; simpl in F. rewrite Nat.leb_refl in F.
      destruct (F eq_refl) as (F1 & _). congruence.
    Qed.

    Lemma step_ext st c st' : Inv st -> a_step lf behav cverdict rec st c = Some st' -> Ext st st'.
    Proof.
      intros I H. destruct c as [pl k e h|k h|k a|k a| |h]; unfold a_step in H.
      - destruct pl as [| |hb].
        + inversion H; subst. apply add_entry_ext; exact I.
        + inversion H; subst. apply add_entry_ext; exact I.
        + destruct (alookup hb (hregs st)) as [b|]; [|inversion H; subst; apply add_entry_ext; exact I].
          destruct (alookup b (ents st)) as [[k' e']|]; [|inversion H; subst; apply add_entry_ext; exact I].
          destruct (Nat.eqb k' k); [|discriminate].
          destruct (has_l b (lst_of st k)); inversion H; subst; apply add_entry_ext; exact I.
      - destruct (alookup h (hregs st)) as [b|]; [|inversion H; subst; apply ext_log].
        destruct (alookup b (ents st)) as [[k' e']|] eqn:E; [|inversion H; subst; apply ext_log].
        destruct (Nat.eqb_spec k' k) as [->|]; [|discriminate].
        destruct (has_l b (lst_of st k)) eqn:Hb; inversion H; subst; [|apply ext_log].
        split; [eexists [_]; reflexivity|]. split; [|intros; assumption].
        intros h0 X. simpl in X. apply orb_false_iff in X. exact (proj2 X).
      - exact (call_all_ext _ _ _ _ _ I H).
      - inversion H; subst. split; [exists []; reflexivity|]. split; intros; assumption.
      - destruct (pend st) as [|ev evs]; [inversion H; subst; apply ext_log|].
        destruct (process_loop lf behav cverdict rec (upd_pend st []) (ev :: evs)) as [st1|] eqn:Ep; [|discriminate].
        inversion H; subst. assert (I' : Inv (upd_pend st [])) by exact I.
        apply (ext_trans _ st1); [|apply ext_log].
        destruct (process_loop_ext _ _ _ I' Ep) as (T & X & N). split; [exact T|]. split; [exact X|exact N].
      - destruct (alookup h (hregs st)) as [b|]; [|inversion H; subst; apply ext_refl].
        destruct (helper_unreferenced lf st b); inversion H; subst; [apply ext_refl|].
        split; [exists []; reflexivity|]. split; intros; assumption.
    Qed.

    Lemma seq_ext : forall cs st st', Inv st -> a_seq lf behav cverdict rec st cs = Some st' -> Ext st st'.
    Proof.
      induction cs as [|c r IH]; intros st st' I H; simpl in H; [inversion H; subst; apply ext_refl|].
      destruct (a_step lf behav cverdict rec st c) as [st1|] eqn:E; [|discriminate].
      exact (ext_trans _ _ _ (step_ext _ _ _ I E) (IH _ _ (step_inv lf LOK behav cverdict rec HR _ _ _ I E) H)).
    Qed.

    (* the invocation of the list of key k: entry h of that list, attached when the invocation
       starts, is triggered by it unless it is detached in between — and if it is detached in
       between by its own doing (F), it has been triggered in between *)
    Lemma call_all_progress st0 h e k a t0 :
      alookup h (ents st0) = Some (k, e) -> is_wrapper e ->
      (forall sti, Inv sti -> Ext st0 sti -> has_l h (xrem sti) = false -> attached sti h = false -> t0 < ntrig sti h) ->
      forall todo st st',
        Inv st -> Ext st0 st -> call_all lf behav cverdict rec st k todo a = Some st' ->
        has_l h (xrem st') = false -> t0 <= ntrig st h ->
        In h todo \/ t0 < ntrig st h -> t0 < ntrig st' h.
    Proof.
      intros E W F. induction todo as [|x rest IH]; intros st st' I X0 H Xr T D; simpl in H.
      - inversion H; subst. destruct D as [[]|D]; exact D.
      - assert (Xs : has_l h (xrem st) = false).
        { assert (EE := call_all_ext k a (x :: rest) st st' I). simpl in EE. exact (proj1 (proj2 (EE H)) _ Xr). }
        destruct (has_l x (lst_of st k)) eqn:Hx.
        + destruct (activate lf behav cverdict rec st x k a) as [st2|] eqn:Ea; [|discriminate].
          destruct (activate_pre _ _ _ _ _ I Hx Ea) as (st1 & body & R & I1 & E1 & Tr).
          assert (I2 := HR _ _ _ I1 R). assert (E2 := HE _ _ _ I1 R).
          assert (X2 : Ext st0 st2) by exact (ext_trans _ _ _ X0 (ext_trans _ _ _ E1 E2)).
          assert (M := ext_ntrig _ _ h E2). assert (M1 := ext_ntrig _ _ h E1).
          apply (IH _ _ I2 X2 H Xr); [lia|].
          destruct (Nat.eq_dec x h) as [->|N].
          * right. rewrite (Tr _ _ (proj2 (proj2 X0) _ _ E) W) in M. lia.
          * destruct D as [[D|D]|D]; [contradiction|left; exact D|right; lia].
        + destruct (Nat.eq_dec x h) as [->|N].
          * apply (IH _ _ I X0 H Xr T). right. apply (F _ I X0 Xs).
            unfold attached, attachedk. rewrite (proj2 (proj2 X0) _ _ E). exact Hx.
          * apply (IH _ _ I X0 H Xr T). destruct D as [[D|D]|D]; [contradiction|left; exact D|right; exact D].
    Qed.
  End Loops.

  Theorem run_ext : forall fuel, RecExt (a_run lf behav cverdict fuel).
  Proof.
    induction fuel as [|f IH]; intros st cs st' I H; simpl in H; [discriminate|].
    exact (seq_ext _ (run_inv lf LOK behav cverdict f) IH _ _ _ I H).
  Qed.

  (* once detached without an explicit remove, a wrapper has been triggered since it was last seen attached *)
  Lemma detached_means_triggered st0 sti h k e :
    Inv st0 -> Inv sti -> Ext st0 sti -> alookup h (ents st0) = Some (k, e) ->
    match e with SCounter _ n => rng n | _ => True end -> is_wrapper e ->
    attached st0 h = true -> has_l h (xrem sti) = false -> attached sti h = false -> ntrig st0 h < ntrig sti h.
  Proof.
    intros I0 Ii X E R W A0 Xi Ai.
    assert (X0 : has_l h (xrem st0) = false) by exact (proj1 (proj2 X) _ Xi).
    assert (Ei := proj2 (proj2 X) _ _ E).
    assert (M := ext_ntrig _ _ h X).
    destruct (proj2 I0 h) as (_ & _ & C0 & Q0). destruct (proj2 Ii h) as (_ & _ & Ci & Qi).
    unfold obs_of in *; simpl in *. destruct e as [c|c n|c p wa]; [destruct W| |].
    - destruct (C0 _ _ _ E R) as (_ & _ & _ & C4 & _). destruct (Ci _ _ _ Ei R) as (_ & _ & _ & D4 & _).
      unfold nt in *; simpl in *. unfold attached in *.
      assert (T0 := proj1 (C4 X0) A0).
      destruct (Z_lt_ge_dec (Z.of_nat (length (trigs_of h (atrace sti)))) (Z.max n 1)) as [G|G].
      + rewrite (proj2 (D4 Xi) G) in Ai. discriminate.
      + unfold ntrig. lia.
    - destruct (Q0 _ _ _ _ E) as (_ & Q2 & _ & Q4). destruct (Qi _ _ _ _ Ei) as (_ & P2 & _ & P4).
      simpl in *. unfold attached in *.
      assert (AF := proj1 (Q4 X0) A0).
      assert (L0 : length (evals_of h (atrace st0)) = ntrig st0 h).
      { unfold ntrig. rewrite <- (map_length fst), Q2, map_length. reflexivity. }
      assert (Li : length (evals_of h (atrace sti)) = ntrig sti h).
      { unfold ntrig. rewrite <- (map_length fst), P2, map_length. reflexivity. }
      destruct X as ([evs Tr] & _).
      destruct (Nat.eq_dec (ntrig st0 h) (ntrig sti h)) as [Eq|Ne]; [|lia].
      exfalso. rewrite Tr, evals_of_app in Li, P4. rewrite app_length in Li.
      assert (Z : evals_of h evs = []) by (destruct (evals_of h evs); [reflexivity|simpl in Li; lia]).
      rewrite Z in P4. simpl in P4. rewrite (proj2 (P4 Xi) AF) in Ai. discriminate.
  Qed.

  Theorem dispatch_reaches_attached fuel st k a st' h e :
    Inv st -> dispatch lf behav cverdict (a_run lf behav cverdict fuel) st k a = Some st' ->
    alookup h (ents st) = Some (k, e) ->
    match e with SCounter _ n => rng n | _ => True end -> is_wrapper e ->
    attached st h = true -> has_l h (xrem st') = false -> ntrig st h < ntrig st' h.
  Proof.
    intros I H E R W A Xr. unfold dispatch in H.
    apply (call_all_progress _ (run_inv lf LOK behav cverdict fuel) (run_ext fuel) st h e k a (ntrig st h) E W) with (todo := lst_of st k) (st := st);
      try assumption; [|apply ext_refl|lia|].
    - intros sti Ii Xi Xs Ai. exact (detached_means_triggered _ _ _ _ _ I Ii Xi E R W A Xs Ai).
    - left. unfold attached, attachedk in A. rewrite E in A. apply has_l_In. exact A.
  Qed.
End Progress.

(* ---------- the statements of C16 ---------- *)

Section Statements.
  Variable lf : leafs.
  Hypothesis LOK : leafs_ok lf.
  Variable behav : nat -> nat -> list acmd.
  Variable cverdict : nat -> nat -> bool.

  Lemma reachable_inv fuel prog st : a_run lf behav cverdict fuel a_init prog = Some st -> Inv st.
  Proof. intros H. exact (run_inv lf LOK behav cverdict fuel _ _ _ inv_init H). Qed.

  Theorem counter_remover_exact fuel prog st h k c n :
    a_run lf behav cverdict fuel a_init prog = Some st ->
    alookup h (ents st) = Some (k, SCounter c n) -> rng n ->
    let t := Z.of_nat (length (trigs_of h (atrace st))) in
    calls_of h (atrace st) = map (fun a => (c, k, a)) (trigs_of h (atrace st))
    /\ (t <= Z.max n 1)%Z
    /\ (has_l h (xrem st) = false -> (attached st h = true <-> (t < Z.max n 1)%Z))
    /\ (has_l h (xrem st) = true -> attached st h = false)
    /\ (attached st h = true -> cellk (cells st) h = (n - t)%Z)
    /\ has_l h (ovfs st) = false.
  Proof.
    intros H E R. destruct (proj2 (reachable_inv _ _ _ H) h) as (_ & X & C & _).
    unfold obs_of in *; simpl in *. destruct (C _ _ _ E R) as (C1 & C2 & C3 & C4 & C5).
    unfold nt in *; simpl in *. repeat split; try assumption; apply C4; assumption.
  Qed.

  Theorem conditional_remover_exact fuel prog st h k c p wa :
    a_run lf behav cverdict fuel a_init prog = Some st ->
    alookup h (ents st) = Some (k, SCond c p wa) ->
    let verdicts := map snd (evals_of h (atrace st)) in          (* newest first *)
    calls_of h (atrace st) = map (fun a => (c, k, a)) (trigs_of h (atrace st))
    /\ map fst (evals_of h (atrace st)) = map (fun a => (p, if wa then Some a else None)) (trigs_of h (atrace st))
    /\ all_false (tl verdicts)
    /\ (has_l h (xrem st) = false -> (attached st h = true <-> all_false verdicts))
    /\ (has_l h (xrem st) = true -> attached st h = false).
  Proof.
    intros H E. destruct (proj2 (reachable_inv _ _ _ H) h) as (_ & X & _ & Q).
    unfold obs_of in *; simpl in *. destruct (Q _ _ _ _ E) as (Q1 & Q2 & Q3 & Q4).
    repeat split; try assumption; apply Q4; assumption.
  Qed.

  Theorem attached_wrapper_is_triggered fuel prog st fuel' k a st' h e :
    a_run lf behav cverdict fuel a_init prog = Some st ->
    a_run lf behav cverdict (S fuel') st [ADispatch k a] = Some st' ->
    alookup h (ents st) = Some (k, e) ->
    match e with SPlain _ => False | SCounter _ n => rng n | SCond _ _ _ => True end ->
    attached st h = true -> has_l h (xrem st') = false ->
    length (trigs_of h (atrace st)) < length (trigs_of h (atrace st')).
  Proof.
    intros H H' E R A X. simpl in H'.
    destruct (dispatch lf behav cverdict (a_run lf behav cverdict fuel') st k a) as [s1|] eqn:D; [|discriminate].
    inversion H'; subst s1.
    apply (dispatch_reaches_attached lf LOK behav cverdict fuel' st k a st' h e (reachable_inv _ _ _ H) D E); try assumption;
      destruct e; try exact R; try exact I; destruct R.
  Qed.
End Statements.

(* ---------- the helper object's lifetime ---------- *)

Definition is_drop (c : acmd) : bool := match c with ADropHelper _ => true | _ => false end.
Definition strip_drops (cs : list acmd) : list acmd := filter (fun c => negb (is_drop c)) cs.

Section Helper.
  Variable lf : leafs.
  Hypothesis LOK : leafs_ok lf.
  Variable behav : nat -> nat -> list acmd.
  Variable cverdict : nat -> nat -> bool.
  Let behav' (c n : nat) : list acmd := strip_drops (behav c n).

  Lemma helper_unreferenced_true st b : helper_unreferenced lf st b = true.
  Proof.
    destruct LOK as (_ & _ & _ & _ & S1 & S2). unfold helper_unreferenced.
    destruct (alookup b (ents st)) as [[k [c|c n|c p wa]]|]; auto.
  Qed.

  Section Loops.
    Variables rec rec' : astate -> list acmd -> option astate.
    Hypothesis HRR : forall st cs, rec st cs = rec' st (strip_drops cs).

    Lemma run_inner_eq st h c k a : run_inner behav rec st h c k a = run_inner behav' rec' st h c k a.
    Proof. unfold run_inner. apply HRR. Qed.

    Lemma finish_wrapper_eq rbc due st h c k0 k a :
      finish_wrapper behav rec rbc due st h c k0 k a = finish_wrapper behav' rec' rbc due st h c k0 k a.
    Proof. unfold finish_wrapper. rewrite !run_inner_eq. reflexivity. Qed.

    Lemma activate_eq st h k a :
      activate lf behav cverdict rec st h k a = activate lf behav' cverdict rec' st h k a.
    Proof.
      unfold activate. destruct (alookup h (ents st)) as [[k0 [c|c n|c p wa]]|]; [apply run_inner_eq| | |reflexivity].
      - cbv zeta. destruct (lf_step lf int_dec _) as [n' due]. apply finish_wrapper_eq.
      - cbv zeta. apply finish_wrapper_eq.
    Qed.

    Lemma call_all_eq k a : forall todo st,
      call_all lf behav cverdict rec st k todo a = call_all lf behav' cverdict rec' st k todo a.
    Proof.
      induction todo as [|h rest IH]; intros st; simpl; [reflexivity|].
      destruct (has_l h (lst_of st k)); [|apply IH]. rewrite activate_eq.
      destruct (activate lf behav' cverdict rec' st h k a); [apply IH|reflexivity].
    Qed.

    Lemma process_loop_eq : forall evs st,
      process_loop lf behav cverdict rec st evs = process_loop lf behav' cverdict rec' st evs.
    Proof.
      induction evs as [|[k a] rest IH]; intros st; simpl; [reflexivity|].
      unfold dispatch. rewrite call_all_eq. destruct (call_all lf behav' cverdict rec' st k (lst_of st k) a); [apply IH|reflexivity].
    Qed.

    Lemma step_eq st c : is_drop c = false ->
      a_step lf behav cverdict rec st c = a_step lf behav' cverdict rec' st c.
    Proof.
      destruct c; intros D; try discriminate D; unfold a_step; try reflexivity.
      - unfold dispatch. apply call_all_eq.
      - destruct (pend st) as [|ev evs]; [reflexivity|]. rewrite process_loop_eq. reflexivity.
    Qed.

    Lemma drop_noop st h : a_step lf behav cverdict rec st (ADropHelper h) = Some st.
    Proof. simpl. destruct (alookup h (hregs st)); [rewrite helper_unreferenced_true|]; reflexivity. Qed.

    Lemma seq_eq : forall cs st,
      a_seq lf behav cverdict rec st cs = a_seq lf behav' cverdict rec' st (strip_drops cs).
    Proof.
      induction cs as [|c r IH]; intros st; [reflexivity|].
      destruct (is_drop c) eqn:D.
      - destruct c; try discriminate. change (a_seq lf behav cverdict rec st (ADropHelper h :: r))
          with (match a_step lf behav cverdict rec st (ADropHelper h) with Some s1 => a_seq lf behav cverdict rec s1 r | None => None end).
        rewrite drop_noop. unfold strip_drops; simpl. apply IH.
      - unfold strip_drops; simpl. rewrite D; simpl. rewrite (step_eq _ _ D).
        destruct (a_step lf behav' cverdict rec' st c); [apply IH|reflexivity].
    Qed.
  End Loops.

  Theorem helper_lifetime_irrelevant : forall fuel st prog,
    a_run lf behav cverdict fuel st prog = a_run lf behav' cverdict fuel st (strip_drops prog).
  Proof.
    induction fuel as [|f IH]; intros st prog; [reflexivity|]. simpl. apply seq_eq. exact IH.
  Qed.
End Helper.

End Range.

(* ---------- the ingredients meet the requirements ---------- *)

(* the generated test of CounterRemover::Wrapper::operator() (either specialisation) *)
Lemma generated_counter_test_ok islist : step_ok in_range true (GenAutoRemove.counter_step islist).
Proof.
  intros n t R T. assert (W := int_dec_in_range n t R T). assert (O := no_overflow_in_range n t R T). destruct R as [R1 R2].
  unfold GenAutoRemove.counter_step. destruct islist; cbv zeta; rewrite ?W; split_comparisons; simpl;
    (eexists; eexists; split; [reflexivity|]; split; [split; intros; try discriminate; try reflexivity; lia|];
     split; [intros; try discriminate; try reflexivity; lia|unfold counter_overflowed; rewrite O; reflexivity]).
Qed.

Lemma generated_counter_removes_before_call islist : GenAutoRemove.counter_removes_before_call islist = true.
Proof. destruct islist; reflexivity. Qed.

Lemma generated_cond_removes_before_call islist : GenAutoRemove.cond_removes_before_call islist = true.
Proof. destruct islist; reflexivity. Qed.

Lemma generated_cond_receives_arguments_iff_accepted islist w : GenAutoRemove.cond_passes_args islist w = w.
Proof. destruct islist, w; reflexivity. Qed.

Lemma generated_counter_state_in_shared_data islist : GenAutoRemove.counter_state_shared islist = true.
Proof. destruct islist; reflexivity. Qed.

Lemma generated_cond_state_in_shared_data islist : GenAutoRemove.cond_state_shared islist = true.
Proof. destruct islist; reflexivity. Qed.

(* THE place where the generated definitions are opened: `<` for `<=`, a post-decrement, the
   listener called before the removal, the condition not given its arguments or state kept in
   the helper object make one of the six lemmas above fail *)
Lemma gen_leafs_ok islist : leafs_ok in_range (gen_leafs islist).
Proof.
  unfold leafs_ok, gen_leafs; simpl.
  split; [apply generated_counter_test_ok|]. split; [apply generated_counter_removes_before_call|].
  split; [apply generated_cond_removes_before_call|]. split; [apply generated_cond_receives_arguments_iff_accepted|].
  split; [apply generated_counter_state_in_shared_data|apply generated_cond_state_in_shared_data].
Qed.

Lemma spec_leafs_ok : leafs_ok in_range spec_leafs.
Proof.
  unfold leafs_ok, spec_leafs; simpl. split; [|repeat split; reflexivity].
  intros n t [R1 R2] T. replace (n - t - 1)%Z with (n - (t + 1))%Z by lia.
  eexists; eexists; split; [reflexivity|]. split; [|split; reflexivity].
  destruct (Z.leb_spec (n - (t + 1)) 0); split; intros; try discriminate; try reflexivity; lia.
Qed.

Lemma legacy_leafs_ok : leafs_ok in_range legacy_leafs.
Proof.
  unfold leafs_ok, legacy_leafs; simpl. split; [|repeat split; reflexivity].
  intros n t R T. rewrite (int_dec_in_range n t R T). assert (O := no_overflow_in_range n t R T). destruct R as [R1 R2].
  eexists; eexists; split; [reflexivity|]. split; [|split; [reflexivity|unfold counter_overflowed; rewrite O; reflexivity]].
  destruct (Z.leb_spec (n - (t + 1)) 0); split; intros; try discriminate; try reflexivity; lia.
Qed.

(* ---- every trigger count an int can hold ---- *)

Definition full_range (n : Z) : Prop := (int_min <= n <= int_max)%Z.

(* the specification's ideal counter covers INT_MIN too *)
Lemma spec_leafs_ok_full : leafs_ok full_range spec_leafs.
Proof.
  unfold leafs_ok, spec_leafs; simpl. split; [|repeat split; reflexivity].
  intros n t [R1 R2] T. replace (n - t - 1)%Z with (n - (t + 1))%Z by lia.
  eexists; eexists; split; [reflexivity|]. split; [|split; reflexivity].
  destruct (Z.leb_spec (n - (t + 1)) 0); split; intros; try discriminate; try reflexivity; lia.
Qed.

(* a counter wrapper that does not decrement at or below 1, `if(data->triggerCount <= 1 ||
   --data->triggerCount <= 0)`, written out by hand: it covers INT_MIN on a machine int *)
Definition guarded_leafs : leafs :=
  mkLeafs (fun dec n => if (n <=? 1)%Z then (n, true) else (dec n, (dec n <=? 0)%Z)) true true true (fun w => w) true true.

Lemma guarded_leafs_ok_full : leafs_ok full_range guarded_leafs.
Proof.
  unfold leafs_ok, guarded_leafs; simpl. split; [|repeat split; reflexivity].
  intros n t [R1 R2] T. pose proof int_min_nonpos as M.
  destruct (Z.leb_spec (n - t) 1) as [G|G].
  - eexists; eexists; split; [reflexivity|]. split; [split; intros; try discriminate; lia|]. split; [discriminate|].
    unfold counter_overflowed. rewrite Z.eqb_refl. simpl. apply andb_false_r.
  - assert (W : int_dec (n - t) = (n - (t + 1))%Z).
    { unfold int_dec, wrap. destruct (Z.ltb_spec (n - t - 1) int_min); [lia|]. destruct (Z.ltb_spec int_max (n - t - 1)); lia. }
    rewrite W. eexists; eexists; split; [reflexivity|].
    split; [destruct (Z.leb_spec (n - (t + 1)) 0); split; intros; try discriminate; try reflexivity; lia|].
    split; [reflexivity|]. unfold counter_overflowed, dec_overflows. destruct (Z.ltb_spec (n - t - 1) int_min); [lia|reflexivity].
Qed.

(* the GENERATED test covers every count an int can hold: at or below 1 it removes without
   decrementing (the repair of observation P9), above 1 the decrement stays in range.
   A header whose test decrements at INT_MIN (`if(--data->triggerCount <= 0)`) fails here. *)
Lemma generated_counter_test_ok_full islist : step_ok full_range true (GenAutoRemove.counter_step islist).
Proof.
  intros n t [R1 R2] T. pose proof int_min_nonpos as M.
  assert (W : (1 < n - t)%Z -> int_dec (n - t) = (n - (t + 1))%Z).
  { intros G. unfold int_dec, wrap. destruct (Z.ltb_spec (n - t - 1) int_min); [lia|]. destruct (Z.ltb_spec int_max (n - t - 1)); lia. }
  assert (O : (1 < n - t)%Z -> dec_overflows (n - t) = false).
  { intros G. unfold dec_overflows. destruct (Z.ltb_spec (n - t - 1) int_min); [lia|reflexivity]. }
  unfold GenAutoRemove.counter_step. destruct islist; cbv zeta;
    (destruct (Z.leb_spec (n - t) 1) as [G|G];
     [ eexists; eexists; split; [reflexivity|]; split; [split; intros; try discriminate; lia|]; split; [discriminate|];
       unfold counter_overflowed; rewrite Z.eqb_refl; simpl; apply andb_false_r
     | rewrite (W G); eexists; eexists; split; [reflexivity|];
       split; [destruct (Z.leb_spec (n - (t + 1)) 0); split; intros; try discriminate; try reflexivity; lia|];
       split; [intros; reflexivity|unfold counter_overflowed; rewrite (O G); reflexivity] ]).
Qed.

Lemma gen_leafs_ok_full islist : leafs_ok full_range (gen_leafs islist).
Proof.
  unfold leafs_ok, gen_leafs; simpl.
  split; [apply generated_counter_test_ok_full|]. split; [apply generated_counter_removes_before_call|].
  split; [apply generated_cond_removes_before_call|]. split; [apply generated_cond_receives_arguments_iff_accepted|].
  split; [apply generated_counter_state_in_shared_data|apply generated_cond_state_in_shared_data].
Qed.

(* ---------- trigger count INT_MIN: the decrement overflows ---------- *)

Definition int_min_prog : list acmd :=
  [AAdd PAppend 0 (SCounter 1 int_min) 0; ADispatch 0 5%Z; ADispatch 0 6%Z; ADispatch 0 7%Z].

(* promised: max(INT_MIN, 1) = 1 call.  The wrapper `if(--data->triggerCount <= 0)` on a machine int
   (legacy_leafs; wrap-around semantics for the undefined decrement) records the overflow, stays
   attached and calls the listener on every trigger. *)
Lemma counter_int_min_refuted :
  exists fuel st,
    a_run legacy_leafs (fun _ _ => []) (fun _ _ => false) fuel a_init int_min_prog = Some st
    /\ alookup 0 (ents st) = Some (0, SCounter 1 int_min)
    /\ Z.max int_min 1 = 1%Z
    /\ has_l 0 (ovfs st) = true
    /\ attached st 0 = true
    /\ length (calls_of 0 (atrace st)) = 3
    /\ cellk (cells st) 0 = (int_max - 2)%Z.
Proof. exists 2. eexists. split; [vm_compute; reflexivity|]. vm_compute. repeat split; reflexivity. Qed.

(* the specification on the same input: detached with the first trigger, one call *)
Lemma spec_int_min_detaches :
  exists st,
    a_run spec_leafs (fun _ _ => []) (fun _ _ => false) 2 a_init int_min_prog = Some st
    /\ attached st 0 = false /\ length (calls_of 0 (atrace st)) = 1 /\ ovfs st = [].
Proof. eexists. split; [vm_compute; reflexivity|]. vm_compute. repeat split; reflexivity. Qed.
