(* AutoRemoveProofs.v — CounterRemover / ConditionalRemover detach their listener exactly when
   promised (property C16): an invariant of the model AutoRemoveModel.v over ALL re-entrant
   programs, proved by induction over the run (fuel) with the recursive interpreter abstracted
   as `rec` (as QBalance.v does).

   The invariant speaks, for every entry id h, about a tuple of observations (`obs`):
   attached?, what was added, the counter cell, explicitly removed?, overflowed?, and the
   projections of the trace on h (triggers, calls of the wrapped listener, condition
   evaluations).  Every transition of the model changes the observations of at most one id. *)
From Coq Require Import List Arith NArith ZArith Bool Lia.
From EV Require Import AutoRemoveModel.
From EV.gen Require GenAutoRemove.
Import ListNotations.
Local Open Scope nat_scope.

(* ---------- association lists, list surgery ---------- *)

Lemma alookup_aset {A} k k' (v : A) l : alookup k (aset k' v l) = if Nat.eqb k k' then Some v else alookup k l.
Proof.
  induction l as [|[x w] t IH]; simpl.
  - destruct (Nat.eqb_spec k k'); reflexivity.
  - destruct (Nat.eqb_spec k' x) as [E|E]; simpl.
    + subst. destruct (Nat.eqb_spec k x); reflexivity.
    + destruct (Nat.eqb_spec k x) as [E1|E1].
      * subst. destruct (Nat.eqb_spec x k'); [congruence|reflexivity].
      * exact IH.
Qed.

Lemma lstk_aset ls k k' v : lstk (aset k' v ls) k = if Nat.eqb k k' then v else lstk ls k.
Proof. unfold lstk. rewrite alookup_aset. destruct (Nat.eqb k k'); reflexivity. Qed.

Lemma cellk_aset ce h h' v : cellk (aset h' v ce) h = if Nat.eqb h h' then v else cellk ce h.
Proof. unfold cellk. rewrite alookup_aset. destruct (Nat.eqb h h'); reflexivity. Qed.

Lemma has_l_In h l : has_l h l = true <-> In h l.
Proof.
  induction l as [|x t IH]; simpl; [split; [discriminate|tauto]|].
  rewrite orb_true_iff, IH, Nat.eqb_eq. intuition.
Qed.

Lemma has_l_false h l : has_l h l = false <-> ~ In h l.
Proof. rewrite <- has_l_In. destruct (has_l h l); split; intros; try congruence; try tauto. exfalso; apply H; reflexivity. Qed.

Lemma has_l_cons_ne h x l : h <> x -> has_l h (x :: l) = has_l h l.
Proof. intros. simpl. destruct (Nat.eqb_spec h x); [contradiction|reflexivity]. Qed.

Lemma in_del_l x h l : In x (del_l h l) -> In x l.
Proof.
  induction l as [|y t IH]; simpl; [tauto|]. destruct (Nat.eqb h y); simpl; [tauto|]. intros [H|H]; [tauto|right; exact (IH H)].
Qed.

Lemma in_del_l_ne x h l : x <> h -> In x l -> In x (del_l h l).
Proof.
  intros N. induction l as [|y t IH]; simpl; [tauto|]. destruct (Nat.eqb_spec h y) as [E|E]; simpl.
  - intros [H|H]; [congruence|exact H].
  - intros [H|H]; [left; exact H|right; exact (IH H)].
Qed.

Lemma nodup_del_l h l : NoDup l -> NoDup (del_l h l).
Proof.
  induction 1 as [|y t N1 N2 IH]; simpl; [constructor|]. destruct (Nat.eqb h y); [exact N2|].
  constructor; [|exact IH]. intros H. apply N1. exact (in_del_l _ _ _ H).
Qed.

Lemma not_in_del_l h l : NoDup l -> ~ In h (del_l h l).
Proof.
  induction 1 as [|y t N1 N2 IH]; simpl; [tauto|]. destruct (Nat.eqb_spec h y) as [E|E]; [subst; exact N1|].
  simpl. intros [H|H]; [congruence|exact (IH H)].
Qed.

Lemma has_l_del_ne x h l : x <> h -> has_l x (del_l h l) = has_l x l.
Proof.
  intros N. destruct (has_l x l) eqn:E.
  - apply has_l_In. apply in_del_l_ne; [exact N|]. apply has_l_In; exact E.
  - apply has_l_false. intros H. apply in_del_l in H. apply has_l_In in H. congruence.
Qed.

(* the three ways of placing a new entry *)
Definition place_ok (pf : nat -> list nat -> list nat) : Prop :=
  forall n l, (forall x, In x (pf n l) <-> x = n \/ In x l) /\ (NoDup l -> ~ In n l -> NoDup (pf n l)).

Lemma place_append : place_ok (fun n l => l ++ [n]).
Proof.
  intros n l. split.
  - intros x. rewrite in_app_iff. simpl. intuition.
  - intros N1 N2. induction l as [|y t IH]; simpl; [constructor; [tauto|constructor]|].
    inversion N1; subst. constructor.
    + rewrite in_app_iff. simpl. intros [H|[H|[]]]; [tauto|]. apply N2. left. congruence.
    + apply IH; [assumption|]. intros H. apply N2. right. exact H.
Qed.

Lemma place_prepend : place_ok (fun n l => n :: l).
Proof. intros n l. split; [intros x; simpl; intuition|]. intros; constructor; assumption. Qed.

Lemma place_insert b : place_ok (fun n l => ins_l b n l).
Proof.
  intros n l. split.
  - intros x. induction l as [|y t IH]; simpl; [intuition|].
    destruct (Nat.eqb b y); simpl; [intuition|]. rewrite IH. intuition.
  - intros N1 N2. induction l as [|y t IH]; simpl; [constructor; [tauto|constructor]|].
    inversion N1; subst. destruct (Nat.eqb b y).
    + constructor; [exact N2|exact N1].
    + assert (Hin : forall x, In x (ins_l b n t) <-> x = n \/ In x t).
      { clear. intros x. induction t as [|z u IH]; simpl; [intuition|]. destruct (Nat.eqb b z); simpl; [intuition|]. rewrite IH. intuition. }
      constructor.
      * rewrite Hin. intros [H|H]; [apply N2; left; congruence|tauto].
      * apply IH; [assumption|]. intros H. apply N2. right. exact H.
Qed.

(* ---------- observations and the invariant ---------- *)

Definition in_range (n : Z) : Prop := (int_min < n <= int_max)%Z.

Record obs := mkObs {
  o_att : bool;                               (* attached to its list *)
  o_ent : option (nat * espec);               (* key and what was added *)
  o_cell : Z;                                 (* Data::triggerCount *)
  o_fresh : bool;                             (* id not handed out yet *)
  o_xr : bool;                                (* detached by an explicit remove *)
  o_ov : bool;                                (* its decrement overflowed *)
  o_trigs : list Z;                           (* triggers that reached the wrapper (arguments, newest first) *)
  o_calls : list (nat * nat * Z);             (* calls of the wrapped listener through this entry *)
  o_evals : list (nat * option Z * bool)      (* evaluations of the condition through this entry *)
}.

Definition obs_of ls en ce nh xr ov tr (h : nat) : obs :=
  mkObs (attachedk ls en h) (alookup h en) (cellk ce h) (nh <=? h) (has_l h xr) (has_l h ov)
        (trigs_of h tr) (calls_of h tr) (evals_of h tr).

Definition all_false (l : list bool) : Prop := forallb negb l = true.

Definition nt (o : obs) : Z := Z.of_nat (length (o_trigs o)).

Definition counter_ok (o : obs) (k c : nat) (n : Z) : Prop :=
  o_calls o = map (fun a => (c, k, a)) (o_trigs o)
  /\ o_cell o = (n - nt o)%Z
  /\ (nt o <= Z.max n 1)%Z
  /\ (o_xr o = false -> (o_att o = true <-> (nt o < Z.max n 1)%Z))
  /\ o_ov o = false.

Definition cond_ok (o : obs) (k c p : nat) (wa : bool) : Prop :=
  o_calls o = map (fun a => (c, k, a)) (o_trigs o)
  /\ map fst (o_evals o) = map (fun a => (p, if wa then Some a else None)) (o_trigs o)
  /\ all_false (tl (map snd (o_evals o)))
  /\ (o_xr o = false -> (o_att o = true <-> all_false (map snd (o_evals o)))).

Definition pt_ok (o : obs) : Prop :=
  (o_fresh o = true -> o_ent o = None /\ o_trigs o = [] /\ o_calls o = [] /\ o_evals o = [] /\ o_xr o = false /\ o_ov o = false)
  /\ (o_xr o = true -> o_att o = false)
  /\ (forall k c n, o_ent o = Some (k, SCounter c n) -> in_range n -> counter_ok o k c n)
  /\ (forall k c p wa, o_ent o = Some (k, SCond c p wa) -> cond_ok o k c p wa).

Definition lists_ok (ls : list (nat * list nat)) (en : list (nat * (nat * espec))) (nh : nat) : Prop :=
  (forall k, NoDup (lstk ls k))
  /\ (forall k h, In h (lstk ls k) -> h < nh /\ exists e, alookup h en = Some (k, e)).

Definition InvC ls en ce nh xr ov tr : Prop :=
  lists_ok ls en nh /\ forall h, pt_ok (obs_of ls en ce nh xr ov tr h).

Definition Inv (st : astate) : Prop :=
  InvC (lsts st) (ents st) (cells st) (nexth st) (xrem st) (ovfs st) (atrace st).

Lemma inv_init : Inv a_init.
Proof.
  split; [split; [intros k; constructor|intros k h []]|].
  intros h. unfold obs_of, pt_ok, attachedk; simpl. repeat split; try discriminate; try reflexivity.
Qed.

(* ---------- attachedness under list surgery ---------- *)

Lemma attachedk_del_other ls en k h0 h :
  h <> h0 -> attachedk (aset k (del_l h0 (lstk ls k)) ls) en h = attachedk ls en h.
Proof.
  intros N. unfold attachedk. destruct (alookup h en) as [[k1 e]|]; [|reflexivity].
  rewrite lstk_aset. destruct (Nat.eqb_spec k1 k); [subst; apply has_l_del_ne; exact N|reflexivity].
Qed.

Lemma attachedk_del_self ls en nh k h e :
  lists_ok ls en nh -> alookup h en = Some (k, e) -> attachedk (aset k (del_l h (lstk ls k)) ls) en h = false.
Proof.
  intros [L1 _] E. unfold attachedk. rewrite E, lstk_aset, Nat.eqb_refl. apply has_l_false. apply not_in_del_l. apply L1.
Qed.

Lemma lists_ok_del ls en nh k h0 : lists_ok ls en nh -> lists_ok (aset k (del_l h0 (lstk ls k)) ls) en nh.
Proof.
  intros [L1 L2]. split.
  - intros k1. rewrite lstk_aset. destruct (Nat.eqb k1 k); [apply nodup_del_l|]; apply L1.
  - intros k1 h. rewrite lstk_aset. destruct (Nat.eqb_spec k1 k); [subst; intros H; apply in_del_l in H|intros H]; exact (L2 _ _ H).
Qed.

(* ---------- the arithmetic of the counter, through the generated test ---------- *)

Lemma int_min_nonpos : (int_min <= 0)%Z.
Proof. unfold int_min, GenAutoRemove.counter_bits. vm_compute. discriminate. Qed.

Lemma counter_arith islist n t :
  in_range n -> (0 <= t < Z.max n 1)%Z ->
  exists due, GenAutoRemove.counter_step islist int_dec (n - t) = ((n - (t + 1))%Z, due)
              /\ (due = false <-> (t + 1 < Z.max n 1)%Z)
              /\ dec_overflows (n - t) = false.
Proof.
  intros [R1 R2] T. pose proof int_min_nonpos as M.
  assert (W : int_dec (n - t) = (n - (t + 1))%Z).
  { unfold int_dec, wrap.
    destruct (Z.ltb_spec (n - t - 1) int_min); [lia|].
    destruct (Z.ltb_spec int_max (n - t - 1)); [lia|]. lia. }
  assert (O : dec_overflows (n - t) = false).
  { unfold dec_overflows. destruct (Z.ltb_spec (n - t - 1) int_min); [lia|reflexivity]. }
  unfold GenAutoRemove.counter_step. destruct islist; cbv zeta; rewrite W;
    (eexists; split; [reflexivity|]; split; [|exact O]);
    (destruct (Z.leb_spec (n - (t + 1)) 0); split; intros; try discriminate; try reflexivity; lia).
Qed.
