(* CallShape.v — argument evaluation at the call sites that both READ their parameters
   (GetEvent::getEvent(args...)) and FORWARD them (std::forward<Args>(args)...).

   C++ leaves the evaluation order of the arguments of one parenthesised call
   indeterminate; a braced-init-list is evaluated left to right; separate statements in
   order.  Forwarding a by-value parameter of a movable type into a by-value parameter
   move-constructs it and leaves the source moved-from.  `return e;` of an rvalue-reference
   parameter is an implicit move in C++20 (and in clang in every mode).

   The shapes are read off the headers by tie A (coq/gen/GenDisp.v).  Theorems: for the
   Statement and Braced shapes the key and every forwarded parameter are the caller's
   values under EVERY admissible order; for the Call shape there is an admissible order
   under which the key is read from a moved-from parameter. *)
From Coq Require Import List Arith Bool Lia Permutation.
From EV.gen Require Import GenDisp.
Import ListNotations.
Local Open Scope nat_scope.

Inductive val := Val (n : nat) | MovedFrom.

Inductive aev := EKey | EFwd (i : nat).

Fixpoint set_nth {A} (l : list A) (i : nat) (x : A) : list A :=
  match l, i with
  | [], _ => []
  | _ :: t, 0 => x :: t
  | y :: t, S j => y :: set_nth t j x
  end.

Lemma nth_set_nth_same {A} (l : list A) i x d : i < length l -> nth i (set_nth l i x) d = x.
Proof. revert i; induction l as [|y t IH]; intros [|i] H; simpl in *; try lia; auto. apply IH; lia. Qed.

Lemma nth_set_nth_other {A} (l : list A) i j x d : i <> j -> nth j (set_nth l i x) d = nth j l d.
Proof. revert i j; induction l as [|y t IH]; intros [|i] [|j] H; simpl; auto; try lia. Qed.

Lemma length_set_nth {A} (l : list A) i x : length (set_nth l i x) = length l.
Proof. revert i; induction l as [|y t IH]; intros [|i]; simpl; auto. Qed.

Section Site.
  Variable n : nat.                     (* number of parameters forwarded to the callee *)
  Variable movable : nat -> bool.       (* forwarding parameter i move-constructs the callee's parameter *)
  Variable kread : list nat.            (* the parameters GetEvent::getEvent reads to produce the key *)
  Variable key_moves : bool.            (* getEvent's result is move-constructed from parameter 0 (implicit move of `return e;`) *)

  Record st := mkSt { cells : list val; key : option (list val); params : list (nat * val) }.

  Definition step (s : st) (e : aev) : st :=
    match e with
    | EKey =>
        mkSt (if key_moves then set_nth (cells s) 0 MovedFrom else cells s)
             (Some (map (fun i => nth i (cells s) MovedFrom) kread)) (params s)
    | EFwd i =>
        mkSt (if movable i then set_nth (cells s) i MovedFrom else cells s) (key s)
             ((i, nth i (cells s) MovedFrom) :: params s)
    end.

  Definition run (env : list val) (evs : list aev) : st := fold_left step evs (mkSt env None []).

  Definition all_events : list aev := EKey :: map EFwd (seq 0 n).

  (* the orders a conforming compiler may choose for a given shape *)
  Definition admissible (sh : sequencing) (evs : list aev) : Prop :=
    Permutation evs all_events /\
    match sh with Call => True | _ => exists r, evs = EKey :: r end.

  Fixpoint plookup (i : nat) (l : list (nat * val)) : option val :=
    match l with [] => None | (j, v) :: t => if Nat.eqb i j then Some v else plookup i t end.

  Lemma fwd_run_invariant (env0 : list val) : forall r s,
    NoDup r -> (forall e, In e r -> exists i, e = EFwd i /\ i < length env0) ->
    length (cells s) = length env0 ->
    (forall i, In (EFwd i) r -> nth i (cells s) MovedFrom = nth i env0 MovedFrom) ->
    let s' := fold_left step r s in
    key s' = key s /\
    (forall i, In (EFwd i) r -> plookup i (params s') = Some (nth i env0 MovedFrom)) /\
    (forall i, ~ In (EFwd i) r -> plookup i (params s') = plookup i (params s)).
  Proof.
    induction r as [|e r IH]; intros s Hnd Hall Hlen Hcells; simpl.
    - repeat split; auto. intros i [].
    - apply NoDup_cons_iff in Hnd as [Hni Hnd].
      destruct (Hall e (or_introl eq_refl)) as [i0 [-> Hi0]].
      assert (Hlen' : length (cells (step s (EFwd i0))) = length env0).
      { simpl. destruct (movable i0); [rewrite length_set_nth|]; exact Hlen. }
      assert (Hcells' : forall i, In (EFwd i) r -> nth i (cells (step s (EFwd i0))) MovedFrom = nth i env0 MovedFrom).
      { intros i Hi. simpl. assert (i <> i0) by (intro X; subst; contradiction).
        destruct (movable i0); [rewrite nth_set_nth_other by auto|]; apply Hcells; right; exact Hi. }
      destruct (IH (step s (EFwd i0)) Hnd (fun e He => Hall e (or_intror He)) Hlen' Hcells') as [K [P1 P2]].
      split; [rewrite K; reflexivity|]. split.
      + intros i [X|X].
        * inversion X; subst i. rewrite (P2 i0 Hni). simpl. rewrite Nat.eqb_refl.
          f_equal. apply Hcells. left; reflexivity.
        * apply P1; exact X.
      + intros i Hi. rewrite P2 by (intro X; apply Hi; right; exact X). simpl.
        destruct (Nat.eqb_spec i i0) as [->|Hne]; [exfalso; apply Hi; left; reflexivity|reflexivity].
  Qed.

  (* Statement and Braced shapes: the key and every forwarded parameter are the caller's values *)
  Theorem sequenced_site_intact (sh : sequencing) (env : list val) (evs : list aev) :
    sh <> Call -> key_moves = false -> length env = n -> admissible sh evs ->
    key (run env evs) = Some (map (fun i => nth i env MovedFrom) kread) /\
    forall i, i < n -> plookup i (params (run env evs)) = Some (nth i env MovedFrom).
  Proof.
    intros Hsh Hkm Hlen [Hperm Hfirst].
    destruct sh; try contradiction; destruct Hfirst as [r ->].
    all: unfold all_events in Hperm; apply Permutation_cons_inv in Hperm.
    all: assert (Hnd : NoDup r)
      by (apply (Permutation_NoDup (Permutation_sym Hperm)); apply FinFun.Injective_map_NoDup; [intros a b E; inversion E; reflexivity|apply seq_NoDup]).
    all: assert (Hall : forall e, In e r -> exists i, e = EFwd i /\ i < length env)
      by (intros e He; apply (Permutation_in _ Hperm) in He; apply in_map_iff in He; destruct He as [i [<- Hi]];
          apply in_seq in Hi; exists i; split; [reflexivity|lia]).
    all: unfold run; simpl fold_left; rewrite Hkm.
    all: destruct (fwd_run_invariant env r (mkSt env (Some (map (fun i => nth i env MovedFrom) kread)) []) Hnd Hall eq_refl (fun i _ => eq_refl)) as [K [P1 P2]].
    all: split; [exact K|].
    all: intros i Hi; apply P1; apply (Permutation_in _ (Permutation_sym Hperm)); apply in_map; apply in_seq; lia.
  Qed.

  (* Call shape: an admissible order reads the key from a parameter that was already moved away *)
  Theorem call_site_refuted (env : list val) :
    1 <= n -> movable 0 = true -> In 0 kread -> length env = n ->
    exists evs, admissible Call evs /\
                exists k, key (run env evs) = Some k /\ In MovedFrom k.
  Proof.
    intros Hn Hm Hk Hlen.
    exists (map EFwd (seq 0 n) ++ [EKey]). split.
    - split; [|exact I]. unfold all_events. apply Permutation_sym. apply Permutation_cons_append.
    - unfold run. rewrite fold_left_app. simpl.
      eexists. split; [reflexivity|].
      apply in_map_iff. exists 0. split; [|exact Hk].
      (* cell 0 has been moved away by EFwd 0 and nothing restores it *)
      assert (G : forall r s, nth 0 (cells s) MovedFrom = MovedFrom ->
                              nth 0 (cells (fold_left step (map EFwd r) s)) MovedFrom = MovedFrom).
      { induction r as [|j r IH]; intros s Hs; simpl; [exact Hs|]. apply IH. simpl.
        destruct (movable j); [|exact Hs]. destruct j; [|rewrite nth_set_nth_other by lia; exact Hs].
        destruct (cells s); [reflexivity|reflexivity]. }
      destruct n as [|m]; [lia|]. simpl seq. simpl map. simpl fold_left.
      apply (G (seq 1 m)). simpl. rewrite Hm.
      destruct env; [discriminate|reflexivity].
  Qed.
End Site.

(* What the callee finally looks the listeners up with.  When the key lives in an object of its
   own (`const Event e = getEvent(...)`) that is the value read at EKey time.  When the key is
   only a reference to what a reference-returning getEvent policy handed back (`const auto & e`),
   it denotes the parameters themselves, as they are AFTER the arguments have been forwarded. *)
Definition key_seen (aliases : bool) (kread : list nat) (s : st) : option (list val) :=
  if aliases then Some (map (fun i => nth i (cells s) MovedFrom) kread) else key s.

(* What the listeners finally receive.  When getEvent is handed the parameter pack as rvalues
   (std::forward<Args>(args)...) a getEvent policy that takes a parameter by value move-constructs
   it: every movable parameter the policy reads is moved-from when it is forwarded afterwards. *)
Definition params_seen (rvalues : bool) (movable : nat -> bool) (kread : list nat) (s : st) : list (nat * val) :=
  if rvalues
  then map (fun p => (fst p, if movable (fst p) && existsb (Nat.eqb (fst p)) kread then MovedFrom else snd p)) (params s)
  else params s.

Theorem rvalue_getevent_refuted :
  exists evs, admissible 1 Statement evs /\
              plookup 0 (params_seen true (fun _ => true) [0] (run (fun _ => true) [0] false [Val 7] evs)) = Some MovedFrom.
Proof.
  exists [EKey; EFwd 0]. split; [split; [apply Permutation_refl|eexists; reflexivity]|reflexivity].
Qed.

Theorem aliased_key_refuted :
  exists evs, admissible 1 Statement evs /\
              key_seen true [0] (run (fun _ => true) [0] false [Val 7] evs) = Some [MovedFrom].
Proof.
  exists [EKey; EFwd 0]. split; [split; [apply Permutation_refl|eexists; reflexivity]|reflexivity].
Qed.

(* implicit move in getEvent: when the key is move-constructed from parameter 0 and that
   parameter is forwarded afterwards (HeterEventDispatcher include-event form), the listener
   receives a moved-from first argument even in the Statement shape *)
Theorem key_move_refuted :
  exists evs, admissible 1 Statement evs /\
              plookup 0 (params (run (fun _ => true) [0] true [Val 7] evs)) = Some MovedFrom.
Proof.
  exists [EKey; EFwd 0]. split; [split; [apply Permutation_refl|eexists; reflexivity]|reflexivity].
Qed.
