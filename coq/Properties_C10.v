(* Properties_C10.v — C10: copies are independent, moves transfer, swaps exchange; results are
   fully functional and do not depend on what their storage held before.
   Queue objects (EventQueue / HeterEventQueue): CopyModel/CopyProofs with the constructor
   facts read off the headers by tie A (GenCtor).  Callback lists (and, per event, dispatchers):
   the restructuring commands of CLModel are tied to the code by correspondence (flavour
   `restructure`), and the refinement theorem applies from any related state.
   Only theorems (closed by `exact`), examples and Print Assumptions. *)
From Coq Require Import List Arith NArith ZArith Bool.
From EV Require Import CopyModel CopyProofs CLModel CLSpec CLRefine CLSim CLMain.
From EV.gen Require GenQ GenCtor GenCL.
Import ListNotations.

(* no result depends on the previous content of the object's storage: for the constructors as
   they are in the headers (tie A), every program over queue objects yields the same trace
   whatever the storage held — homogeneous and heterogeneous queues *)
Theorem C10_queue_results_independent_of_prior_memory :
  forall a b a' b' n cs,
    c_run_case GenCtor.eq_copy_inits_counters GenCtor.eq_copy_counters_from_source
               GenCtor.eq_move_inits_counters GenCtor.eq_move_counters_from_source a b GenCtor.eq_copy_assign_self_safe n cs
    = c_run_case GenCtor.eq_copy_inits_counters GenCtor.eq_copy_counters_from_source
                 GenCtor.eq_move_inits_counters GenCtor.eq_move_counters_from_source a' b' GenCtor.eq_copy_assign_self_safe n cs.
Proof. exact (junk_independent _ _ _). Qed.
Print Assumptions C10_queue_results_independent_of_prior_memory.

Theorem C10_heter_queue_results_independent_of_prior_memory :
  forall a b a' b' n cs,
    c_run_case GenCtor.heq_copy_inits_counters GenCtor.heq_copy_counters_from_source
               GenCtor.heq_move_inits_counters GenCtor.heq_move_counters_from_source a b GenCtor.heq_copy_assign_self_safe n cs
    = c_run_case GenCtor.heq_copy_inits_counters GenCtor.heq_copy_counters_from_source
                 GenCtor.heq_move_inits_counters GenCtor.heq_move_counters_from_source a' b' GenCtor.heq_copy_assign_self_safe n cs.
Proof. exact (junk_independent _ _ _). Qed.
Print Assumptions C10_heter_queue_results_independent_of_prior_memory.

(* a copied or moved-to queue reports empty until something is enqueued into it, and waiting /
   notification then sees the event — whatever operations are in flight on the source (x ranges
   over all objects, any counter values) *)
Theorem C10_constructed_queue_is_fresh :
  forall (a b : Z) (nxt : nat) (x : cobj),
    let y := fst (copy_at GenCtor.eq_copy_inits_counters GenCtor.eq_copy_counters_from_source a b nxt x) in
    let z := moved_into GenCtor.eq_move_inits_counters GenCtor.eq_move_counters_from_source a b x in
    GenQ.empty_queue (is_nil (opending y)) (oecnt y) = true /\
    GenQ.empty_queue (is_nil (opending z)) (oecnt z) = true /\
    (forall e, GenQ.can_process (is_nil (opending y ++ [e])) (oecnt y) (oncnt y) = true) /\
    (forall e, GenQ.can_process (is_nil (opending z ++ [e])) (oecnt z) (oncnt z) = true).
Proof. exact constructed_queue_is_fresh. Qed.
Print Assumptions C10_constructed_queue_is_fresh.

Theorem C10_constructed_heter_queue_is_fresh :
  forall (a b : Z) (nxt : nat) (x : cobj),
    let y := fst (copy_at GenCtor.heq_copy_inits_counters GenCtor.heq_copy_counters_from_source a b nxt x) in
    let z := moved_into GenCtor.heq_move_inits_counters GenCtor.heq_move_counters_from_source a b x in
    GenQ.empty_queue (is_nil (opending y)) (oecnt y) = true /\
    GenQ.empty_queue (is_nil (opending z)) (oecnt z) = true /\
    (forall e, GenQ.can_process (is_nil (opending y ++ [e])) (oecnt y) (oncnt y) = true) /\
    (forall e, GenQ.can_process (is_nil (opending z ++ [e])) (oecnt z) (oncnt z) = true).
Proof. exact constructed_queue_is_fresh. Qed.
Print Assumptions C10_constructed_heter_queue_is_fresh.

(* independence: a command changes only the objects it targets *)
Theorem C10_commands_touch_only_their_targets :
  forall ci cs mi ms j1 j2 asafe st c st' o',
    cstep ci cs mi ms j1 j2 asafe st c = Some st' -> ~ In o' (targets c) -> getobj st' o' = getobj st o'.
Proof. exact frame. Qed.
Print Assumptions C10_commands_touch_only_their_targets.

(* the copy holds the same callbacks per key in the same order (cbs_of forgets the node identities), the same filters,
   no pending events; its nodes are new (identities from the counter on) and the source is as it was *)
Theorem C10_copy_has_same_listeners_and_filters_no_pending :
  forall ci cs mi ms j1 j2 asafe st s d x st',
    getobj st s = Some x -> cstep ci cs mi ms j1 j2 asafe st (CCopyCtor s d) = Some st' ->
    exists y, getobj st' d = Some y /\ CopyModel.cbs_of (olst y) = CopyModel.cbs_of (olst x) /\ ofilters y = ofilters x /\ opending y = [] /\
              getobj st' s = getobj st s /\
              (forall m, In m (CopyModel.lnodes (olst y)) -> cnext st <= m < cnext st') /\ cnext st <= cnext st'.
Proof. exact copy_same_content. Qed.
Print Assumptions C10_copy_has_same_listeners_and_filters_no_pending.

Theorem C10_move_transfers_and_leaves_source_valid :
  forall ci cs mi ms j1 j2 asafe st s d x st',
    getobj st s = Some x -> cstep ci cs mi ms j1 j2 asafe st (CMoveCtor s d) = Some st' ->
    exists y z, getobj st' d = Some y /\ olst y = olst x /\ ofilters y = ofilters x /\ opending y = [] /\
                getobj st' s = Some z /\ olst z = [] /\ ofilters z = [] /\ opending z = opending x.
Proof. exact move_transfers. Qed.
Print Assumptions C10_move_transfers_and_leaves_source_valid.

Theorem C10_swap_exchanges :
  forall ci cs mi ms j1 j2 asafe st a b x y st',
    a <> b -> getobj st a = Some x -> getobj st b = Some y -> cstep ci cs mi ms j1 j2 asafe st (CSwap a b) = Some st' ->
    exists x' y', getobj st' a = Some x' /\ getobj st' b = Some y' /\
                  olst x' = olst y /\ ofilters x' = ofilters y /\ olst y' = olst x /\ ofilters y' = ofilters x /\
                  opending x' = opending x /\ opending y' = opending y.
Proof. exact swap_exchanges. Qed.
Print Assumptions C10_swap_exchanges.

(* swap with itself and assignment from itself change nothing — not the listeners, not their node identities (every
   handle taken before stays valid), not the counter, not the trace — for the assignment operators as they are in the
   headers (tie A: GenCtor.*_copy_assign_self_safe, the dispatcher bases the queues forward to) *)
Theorem C10_self_swap_and_self_assignment_change_nothing :
  forall ci cs mi ms j1 j2 st a x,
    getobj st a = Some x ->
    (exists st', cstep ci cs mi ms j1 j2 GenCtor.eq_copy_assign_self_safe st (CSwap a a) = Some st' /\ getobj st' a = Some x /\
                 ctrace st' = ctrace st /\ cnext st' = cnext st /\ cregs st' = cregs st) /\
    cstep ci cs mi ms j1 j2 GenCtor.eq_copy_assign_self_safe st (CCopyAssign a a) = Some st /\
    cstep ci cs mi ms j1 j2 GenCtor.eq_copy_assign_self_safe st (CMoveAssign a a) = Some st.
Proof. exact (fun ci cs mi ms j1 j2 st a x => self_swap_and_self_assign_change_nothing ci cs mi ms j1 j2 _ st a x eq_refl). Qed.
Print Assumptions C10_self_swap_and_self_assignment_change_nothing.

Theorem C10_heter_self_swap_and_self_assignment_change_nothing :
  forall ci cs mi ms j1 j2 st a x,
    getobj st a = Some x ->
    (exists st', cstep ci cs mi ms j1 j2 GenCtor.heq_copy_assign_self_safe st (CSwap a a) = Some st' /\ getobj st' a = Some x /\
                 ctrace st' = ctrace st /\ cnext st' = cnext st /\ cregs st' = cregs st) /\
    cstep ci cs mi ms j1 j2 GenCtor.heq_copy_assign_self_safe st (CCopyAssign a a) = Some st /\
    cstep ci cs mi ms j1 j2 GenCtor.heq_copy_assign_self_safe st (CMoveAssign a a) = Some st.
Proof. exact (fun ci cs mi ms j1 j2 st a x => self_swap_and_self_assign_change_nothing ci cs mi ms j1 j2 _ st a x eq_refl). Qed.
Print Assumptions C10_heter_self_swap_and_self_assignment_change_nothing.

(* regression statement for an assignment written as copy-and-swap without a self test (seeded change C10c): the same
   program with the flag false / true *)
Theorem C10_unsafe_self_assignment_refuted :
  c_run_case true false true false 0 0 false 2 [CAppend 0 1 5; COwns 0 1 0; CCopyAssign 0 0; COwns 0 1 0] = Some [CRet true; CRet false] /\
  c_run_case true false true false 0 0 true 2 [CAppend 0 1 5; COwns 0 1 0; CCopyAssign 0 0; COwns 0 1 0] = Some [CRet true; CRet true].
Proof. exact unsafe_self_assignment_refuted. Qed.

(* INDEPENDENCE AT THE LEVEL OF HANDLES.  Every reachable state keeps node identities and handle registers below the
   counter; in such a state the object a copy constructor builds shares no node with any object that existed, and
   ownsHandle on it answers false for every handle taken so far; a move constructor hands the nodes over: the target
   answers ownsHandle as the source did, the source owns nothing *)
Theorem C10_identities_below_the_counter_in_every_reachable_state :
  forall ci cs mi ms j1 j2 asafe n prog st,
    crun ci cs mi ms j1 j2 asafe (cinit n) prog = Some st -> CopyProofs.Bounded st.
Proof. exact bounded_reachable. Qed.
Print Assumptions C10_identities_below_the_counter_in_every_reachable_state.

Theorem C10_copy_owns_no_earlier_handle :
  forall ci cs mi ms j1 j2 asafe st s d st',
    CopyProofs.Bounded st -> cstep ci cs mi ms j1 j2 asafe st (CCopyCtor s d) = Some st' ->
    exists y, getobj st' d = Some y /\
      (forall o x m, getobj st o = Some x -> In m (CopyModel.lnodes (olst x)) -> ~ In m (CopyModel.lnodes (olst y))) /\
      (forall k h n, nth_error (cregs st') h = Some n -> CopyModel.has_node n (CopyModel.klist y k) = false).
Proof. exact copy_owns_no_earlier_handle. Qed.
Print Assumptions C10_copy_owns_no_earlier_handle.

Theorem C10_move_hands_over_the_handles :
  forall ci cs mi ms j1 j2 asafe st s d x st',
    getobj st s = Some x -> cstep ci cs mi ms j1 j2 asafe st (CMoveCtor s d) = Some st' ->
    exists y z, getobj st' d = Some y /\ getobj st' s = Some z /\ cregs st' = cregs st /\
      (forall k n, CopyModel.has_node n (CopyModel.klist y k) = CopyModel.has_node n (CopyModel.klist x k)) /\ (forall k n, CopyModel.has_node n (CopyModel.klist z k) = false).
Proof. exact move_hands_over_the_handles. Qed.
Print Assumptions C10_move_hands_over_the_handles.

(* regression witness for the repaired constructors (0cf92d0) *)
Theorem C10_uninitialised_counters_refuted :
  exists junk x, GenQ.empty_queue (is_nil (opending (copy_of false false junk junk x))) (oecnt (copy_of false false junk junk x)) = false.
Proof. exact uninitialised_counters_refuted. Qed.

(* and for constructors that take the counters over from the source (seeded change C10_copy_copies_guard_counters) *)
Theorem C10_counters_copied_from_source_refuted :
  exists x, (forall e, GenQ.can_process (is_nil (opending (copy_of true true 0 0 x) ++ [e])) (oecnt (copy_of true true 0 0 x)) (oncnt (copy_of true true 0 0 x)) = false) /\
            exists x', GenQ.empty_queue (is_nil (opending (copy_of true true 0 0 x'))) (oecnt (copy_of true true 0 0 x')) = false.
Proof. exact counters_copied_from_source_refuted. Qed.

(* every callback list obtained by copy / move / assign / swap behaves like a freshly built one
   with those callbacks: whenever the state is related to a specification state, all re-entrant
   programs from there refine the snapshot specification (C02 applies to it) *)
Theorem C10_lists_after_restructuring_obey_nested_rules :
  forall W behav fuel st sst prog st',
    core_behav behav -> core_prog prog -> R W st sst ->
    CLModel.run W GenCL.remove_checks_removed GenCL.insert_checks_removed GenCL.owns_checks_removed behav fuel st prog = Some st' ->
    wrapped st' = false ->
    exists sst', s_run behav fuel sst prog = Some sst' /\ strace sst' = trace st' /\ R W st' sst'.
Proof. exact cl_run_refines_from. Qed.
Print Assumptions C10_lists_after_restructuring_obey_nested_rules.

(* CALLBACK LISTS AT THE POINTER LEVEL: what cloneFrom builds (CLClone.v).  The copy constructor — and through it copy
   assignment and the copies of dispatchers and queues — draws one generation and appends one new node per linked node of
   the source, in order (CLModel.clone_chain).  For every well-formed source and destination: the result is well formed,
   its content is the destination's followed by as many NEW nodes as the source has, the i-th new node carries the i-th
   source node's callback and the generation drawn, and nothing of the destination is touched; copied into an empty list:
   a well-formed list with the source's callbacks in the source's order *)
From EV Require CLClone CLOps.

Theorem C10_clone_appends_the_sources_callbacks_as_new_nodes :
  forall ctrv, ctrv <> GenCL.removed_marker ->
  forall ids_s src p k dst ids_d,
    CLHeap.lchain src p ids_s -> length ids_s <= k -> CLHeap.GInv dst ids_d ->
    let g' := clone_chain k src (hd_error ids_s) dst ctrv in
    CLHeap.GInv g' (ids_d ++ seq (length (heap dst)) (length ids_s)) /\
    CLOps.extends (heap dst) (heap g') /\
    length (heap g') = length (heap dst) + length ids_s /\
    (forall i z, nth_error ids_s i = Some z ->
       exists nd nd', nth_error src z = Some nd /\ nth_error (heap g') (length (heap dst) + i) = Some nd' /\
                      cb nd' = cb nd /\ ctr nd' = ctrv).
Proof. exact CLClone.clone_chain_spec. Qed.
Print Assumptions C10_clone_appends_the_sources_callbacks_as_new_nodes.

Theorem C10_copy_of_a_list_is_a_wellformed_list_with_the_same_callbacks :
  forall ctrv sg ids,
    ctrv <> GenCL.removed_marker -> CLHeap.GInv sg ids ->
    let g' := clone_chain (length (heap sg)) (heap sg) (ghead sg) empty_group ctrv in
    CLHeap.GInv g' (seq 0 (length ids)) /\ length (heap g') = length ids /\
    (forall i z, nth_error ids i = Some z ->
       exists nd nd', nth_error (heap sg) z = Some nd /\ nth_error (heap g') i = Some nd' /\ cb nd' = cb nd /\ ctr nd' = ctrv).
Proof. exact CLClone.clone_of_a_list. Qed.
Print Assumptions C10_copy_of_a_list_is_a_wellformed_list_with_the_same_callbacks.

(* the copy constructor AS THE MODEL'S COMMAND (the one tie B replays against the real CallbackList): the new list object gets
   a group of its own, which is exactly clone_chain of the source's chain into the empty group with the first generation a
   fresh list draws, and that generation as its counter; the source's object and group are untouched.  With the theorem
   above the copy is a well-formed list with the source's callbacks in the source's order, made of nodes of its own *)
Theorem C10_copy_constructor_clones :
  forall W c1 c2 c3 behav rec k st src dst so sg st',
    (1 < W)%N ->
    get_list st src = Some so -> get_group st (lg so) = Some sg ->
    step W c1 c2 c3 behav rec k st (CopyCtor src dst) = Some st' ->
    let g := length (groups st) in
    get_list st' dst = Some (mkLobj g 1%N) /\
    get_group st' g = Some (clone_chain (length (heap sg)) (heap sg) (ghead sg) empty_group 1%N) /\
    get_list st' src = Some so /\ get_group st' (lg so) = Some sg.
Proof. exact CLClone.copy_constructor_clones. Qed.
Print Assumptions C10_copy_constructor_clones.

(* swap, self-assignment and move assignment of callback lists at the level of the list objects (a list object = its node
   group and its generation counter): swap exchanges both and touches no node and no other list — the counter travels with
   the nodes; swap with itself, copy assignment from itself and move assignment from itself change nothing at all; move
   assignment hands the source's nodes and its counter to the destination and leaves the source with an empty chain of its
   own *)
Theorem C10_list_swap_exchanges_group_and_counter :
  forall st a b oa ob st',
    a <> b -> get_list st a = Some oa -> get_list st b = Some ob -> swap_lists st a b = Some st' ->
    get_list st' a = Some ob /\ get_list st' b = Some oa /\ groups st' = groups st /\
    (forall l, l <> a -> l <> b -> get_list st' l = get_list st l).
Proof. exact CLClone.swap_exchanges_group_and_counter. Qed.
Print Assumptions C10_list_swap_exchanges_group_and_counter.

Theorem C10_list_self_swap_and_self_assignment_are_the_identity :
  forall W c1 c2 c3 behav rec k st l o,
    get_list st l = Some o ->
    step W c1 c2 c3 behav rec k st (CopyAssign l l) = Some st /\ step W c1 c2 c3 behav rec k st (MoveAssign l l) = Some st /\
    exists st', swap_lists st l l = Some st' /\ get_list st' l = Some o /\ groups st' = groups st /\
                (forall l', l' <> l -> get_list st' l' = get_list st l').
Proof. exact CLClone.self_swap_and_self_assignment_are_the_identity. Qed.
Print Assumptions C10_list_self_swap_and_self_assignment_are_the_identity.

Theorem C10_list_move_assignment_hands_over_nodes_and_counter :
  forall W c1 c2 c3 behav rec k st src dst so st',
    src <> dst -> get_list st src = Some so -> step W c1 c2 c3 behav rec k st (MoveAssign src dst) = Some st' ->
    get_list st' dst = Some (mkLobj (lg so) (lcur so)) /\
    exists g, get_list st' src = Some (mkLobj g (lcur so)) /\ get_group st' g = Some empty_group.
Proof. exact CLClone.move_assignment_hands_over_nodes_and_counter. Qed.
Print Assumptions C10_list_move_assignment_hands_over_nodes_and_counter.

Example C10_example :
  c_run_case GenCtor.eq_copy_inits_counters GenCtor.eq_copy_counters_from_source
             GenCtor.eq_move_inits_counters GenCtor.eq_move_counters_from_source (-1414812757)%Z 5%Z GenCtor.eq_copy_assign_self_safe 3
    [CAppend 0 1 5; CAddFilter 0 9 true; CEnqueue 0 1 7%Z; CGuardBegin 0 1; CCopyCtor 0 1; CGuardEnd 0 1; CEmptyQ 1; CEnqueue 1 1 8%Z; CCanProcess 1; CProcess 1; CAppend 1 1 6; CDispatch 0 1 3%Z]
  = Some [CRet true; CRet true; CFilter 1 9 8%Z; CCall 1 5 1 8%Z; CRet true; CFilter 0 9 3%Z; CCall 0 5 1 3%Z].
Proof. vm_compute. reflexivity. Qed.
