(* QRefine.v — the slot/free-list mechanism of EventQueue refines the plain pending-list
   specification: the two interpreters (q_run true / q_run false) run in lock step, the
   mechanism never sets an occupied slot nor reads or clears an empty one, and every slot
   on the free list is empty. *)
From Coq Require Import List Arith NArith ZArith Bool Lia.
From EV Require Import QModel.
Import ListNotations.
Local Open Scope nat_scope.

Definition is_none (s : slot) : Prop := s = None.
Definition is_some (s : slot) : Prop := s <> None.

Record QR (m s : qstate) : Prop := {
  qr_q : qlist m = qlist s;
  qr_f : Forall is_none (flist m);
  qr_some : Forall is_some (qlist m);
  qr_e : ecount m = ecount s;
  qr_l : lsts m = lsts s;
  qr_nh : nexth m = nexth s;
  qr_ns : nexts m = nexts s;
  qr_hr : hregs m = hregs s;
  qr_tr : tregs m = tregs s;
  qr_qa : qacts m = qacts s;
  qr_pa : pacts m = pacts s;
  qr_lv : livep m = livep s;
  qr_err : qerr m = false;
  qr_errs : qerr s = false;
  qr_t : qtrace m = qtrace s
}.

Ltac qr_build H :=
  destruct H as [Hq Hf Hs He Hl Hnh Hns Hhr Htr Hqa Hpa Hlv Herr Herrs Ht];
  constructor; simpl; try congruence; try (rewrite ?Hq, ?He, ?Hl, ?Hnh, ?Hns, ?Hhr, ?Htr, ?Hqa, ?Hpa, ?Hlv, ?Ht; reflexivity); auto.

Section Refine.
  Variable ordered : bool.
  Variable klt : nat -> nat -> bool.
  Variable behav : nat -> nat -> list qcmd.
  Variable pbehav : nat -> nat -> list qcmd * bool.

  Lemma forall_sinsert (P : slot -> Prop) x l : P x -> Forall P l -> Forall P (sinsert klt x l).
  Proof.
    intros Hx Hl. induction Hl as [|y t Hy Ht IH]; simpl; [constructor; auto|].
    destruct (slot_lt klt y x); constructor; auto.
  Qed.

  Lemma forall_ssort (P : slot -> Prop) l : Forall P l -> Forall P (ssort klt l).
  Proof.
    intros H. induction H as [|x t Hx Ht IH]; simpl; [constructor|]. apply forall_sinsert; auto.
  Qed.

  Lemma forall_resort (P : slot -> Prop) l : Forall P l -> Forall P (resort ordered klt l).
  Proof. unfold resort. destruct ordered; [apply forall_ssort|auto]. Qed.

  Lemma forall_app {A} (P : A -> Prop) a b : Forall P a -> Forall P b -> Forall P (a ++ b).
  Proof. intros Ha Hb. induction Ha; simpl; auto. Qed.

  Lemma forall_repeat_none n : Forall is_none (repeat None n).
  Proof. induction n; simpl; constructor; auto. reflexivity. Qed.

  Lemma enqueue_qr m s e : QR m s -> QR (do_enqueue true ordered klt m e) (do_enqueue false ordered klt s e).
  Proof.
    intros H. unfold do_enqueue.
    destruct (flist m) as [|x fl] eqn:Ef.
    - simpl. qr_build H.
      + apply forall_resort. apply forall_app; [exact Hs|constructor; [discriminate|constructor]].
    - assert (Hx : x = None).
      { destruct H as [_ Hf _ _ _ _ _ _ _ _ _ _ _ _ _]. rewrite Ef in Hf. inversion Hf; subst; auto. }
      subst x. simpl. qr_build H.
      + rewrite Ef in Hf. inversion Hf; auto.
      + apply forall_resort. apply forall_app; [exact Hs|constructor; [discriminate|constructor]].
  Qed.

  Lemma recycle_qr m s n : QR m s -> QR (recycle true ordered klt m n) (recycle false ordered klt s n).
  Proof.
    intros H. unfold recycle. qr_build H.
    apply forall_resort. apply forall_app; [exact Hf|apply forall_repeat_none].
  Qed.

  Definition RecSim (rm rs : qstate -> list qcmd -> option qstate) : Prop :=
    forall m s cs m', QR m s -> rm m cs = Some m' -> exists s', rs s cs = Some s' /\ QR m' s'.

  Section Loops.
    Variable rm rs : qstate -> list qcmd -> option qstate.
    Hypothesis HS : RecSim rm rs.

    Lemma call_all_qr k a : forall todo m s m',
      QR m s -> call_all behav rm m k todo a = Some m' ->
      exists s', call_all behav rs s k todo a = Some s' /\ QR m' s'.
    Proof.
      induction todo as [|[h c] rest IH]; intros m s m' H Hc; simpl in *.
      - inversion Hc; subst. eauto.
      - assert (El : lst_of m k = lst_of s k) by (unfold lst_of; rewrite (qr_l _ _ H); reflexivity).
        rewrite <- El. destruct (has_l h (lst_of m k)); [|apply (IH m s m' H Hc)].
        cbv zeta in Hc |- *. simpl in Hc |- *.
        assert (Ea : qacts m = qacts s) by apply (qr_qa _ _ H).
        rewrite <- Ea.
        assert (H2 : QR (upd_qacts (qlog m (QCall c k a)) (aset c (S (act_of (qacts m) c)) (qacts m)))
                        (upd_qacts (qlog s (QCall c k a)) (aset c (S (act_of (qacts m) c)) (qacts m)))).
        { qr_build H. }
        match type of Hc with (match ?X with _ => _ end = _) => destruct X as [m3|] eqn:Er; [|discriminate] end.
        destruct (HS _ _ _ m3 H2 Er) as [s3 [A B]].
        rewrite A. apply (IH m3 s3 m' B Hc).
    Qed.

    Lemma dispatch_qr m s k a m' :
      QR m s -> dispatch behav rm m k a = Some m' -> exists s', dispatch behav rs s k a = Some s' /\ QR m' s'.
    Proof.
      intros H Hd. unfold dispatch in *.
      assert (El : lst_of m k = lst_of s k) by (unfold lst_of; rewrite (qr_l _ _ H); reflexivity).
      rewrite <- El. apply (call_all_qr k a _ m s m' H Hd).
    Qed.

    Lemma eval_pred_qr m s p e m' v :
      QR m s -> eval_pred pbehav rm m p e = Some (m', v) ->
      exists s', eval_pred pbehav rs s p e = Some (s', v) /\ QR m' s'.
    Proof.
      intros H Hp. unfold eval_pred in *. cbv zeta in Hp |- *. simpl in Hp |- *.
      assert (Ea : pacts m = pacts s) by apply (qr_pa _ _ H).
      rewrite <- Ea.
      assert (H2 : QR (upd_pacts (qlog m (QPred p (ekey e) (earg e))) (aset p (S (act_of (pacts m) p)) (pacts m)))
                      (upd_pacts (qlog s (QPred p (ekey e) (earg e))) (aset p (S (act_of (pacts m) p)) (pacts m)))).
      { qr_build H. }
      destruct (pbehav p (act_of (aset p (S (act_of (pacts m) p)) (pacts m)) p)) as [body verdict].
      match type of Hp with (match ?X with _ => _ end = _) => destruct X as [m3|] eqn:Er; [|discriminate] end.
      inversion Hp; subst.
      destruct (HS _ _ _ m' H2 Er) as [s3 [A B]]. rewrite A. eauto.
    Qed.

    Lemma slot_clear_qr m s e : QR m s -> QR (slot_clear m (Some e)) (slot_clear s (Some e)).
    Proof. intros H. unfold slot_clear. qr_build H. Qed.

    Lemma process_loop_qr : forall temp m s m',
      Forall is_some temp -> QR m s -> process_loop behav rm m temp = Some m' ->
      exists s', process_loop behav rs s temp = Some s' /\ QR m' s'.
    Proof.
      induction temp as [|x rest IH]; intros m s m' Ht H Hp; simpl in *.
      - inversion Hp; subst; eauto.
      - inversion Ht as [|? ? Hx Hrest]; subst. destruct x as [e|]; [|exfalso; apply Hx; reflexivity].
        destruct (dispatch behav rm m (ekey e) (earg e)) as [m1|] eqn:Ed; [|discriminate].
        destruct (dispatch_qr m s _ _ m1 H Ed) as [s1 [A B]]. rewrite A.
        apply (IH _ _ m' Hrest (slot_clear_qr m1 s1 e B) Hp).
    Qed.

    Lemma processif_loop_qr p : forall temp m s kept idle m' kept' idle',
      Forall is_some temp -> QR m s -> processif_loop behav pbehav rm m p temp kept idle = Some (m', kept', idle') ->
      exists s', processif_loop behav pbehav rs s p temp kept idle = Some (s', kept', idle') /\ QR m' s' /\
                 (Forall is_some kept -> Forall is_some kept').
    Proof.
      induction temp as [|x rest IH]; intros m s kept idle m' kept' idle' Ht H Hp; simpl in *.
      - inversion Hp; subst. exists s. split; [reflexivity|]. split; [exact H|].
        intros Hk. apply Forall_rev. exact Hk.
      - inversion Ht as [|? ? Hx Hrest]; subst. destruct x as [e|]; [|exfalso; apply Hx; reflexivity].
        destruct (eval_pred pbehav rm m p e) as [[m1 v]|] eqn:Ep; [|discriminate].
        destruct (eval_pred_qr m s p e m1 v H Ep) as [s1 [A B]]. rewrite A.
        destruct v.
        + destruct (dispatch behav rm m1 (ekey e) (earg e)) as [m2|] eqn:Ed; [|discriminate].
          destruct (dispatch_qr m1 s1 _ _ m2 B Ed) as [s2 [C D]]. rewrite C.
          apply (IH _ _ _ _ m' kept' idle' Hrest (slot_clear_qr m2 s2 e D) Hp).
        + destruct (IH _ _ _ _ m' kept' idle' Hrest B Hp) as [s' [X [Y Z]]].
          exists s'. split; [exact X|]. split; [exact Y|].
          intros Hk. apply Z. constructor; [discriminate|exact Hk].
    Qed.

    Lemma processuntil_loop_qr p : forall temp m s idle m' kept' idle',
      Forall is_some temp -> QR m s -> processuntil_loop behav pbehav rm m p temp idle = Some (m', kept', idle') ->
      exists s', processuntil_loop behav pbehav rs s p temp idle = Some (s', kept', idle') /\ QR m' s' /\ Forall is_some kept'.
    Proof.
      induction temp as [|x rest IH]; intros m s idle m' kept' idle' Ht H Hp; simpl in *.
      - inversion Hp; subst. exists s. auto.
      - inversion Ht as [|? ? Hx Hrest]; subst. destruct x as [e|]; [|exfalso; apply Hx; reflexivity].
        destruct (eval_pred pbehav rm m p e) as [[m1 v]|] eqn:Ep; [|discriminate].
        destruct (eval_pred_qr m s p e m1 v H Ep) as [s1 [A B]]. rewrite A.
        destruct v.
        + inversion Hp; subst. exists s1. split; [reflexivity|]. split; [exact B|]. constructor; [discriminate|exact Hrest].
        + destruct (dispatch behav rm m1 (ekey e) (earg e)) as [m2|] eqn:Ed; [|discriminate].
          destruct (dispatch_qr m1 s1 _ _ m2 B Ed) as [s2 [C D]]. rewrite C.
          apply (IH _ _ _ m' kept' idle' Hrest (slot_clear_qr m2 s2 e D) Hp).
    Qed.

    Lemma add_listener_qr m s k c h place : QR m s -> QR (add_listener m k c h place) (add_listener s k c h place).
    Proof.
      intros H. unfold add_listener, lst_of. rewrite (qr_l _ _ H), (qr_nh _ _ H), (qr_hr _ _ H). qr_build H.
    Qed.

    Lemma putback_qr m s kept :
      QR m s -> Forall is_some kept ->
      QR (upd_q m (match kept with [] => qlist m | _ => resort ordered klt (kept ++ qlist m) end) (flist m))
         (upd_q s (match kept with [] => qlist s | _ => resort ordered klt (kept ++ qlist s) end) (flist s)).
    Proof.
      intros H Hk. destruct kept as [|x t]; [qr_build H|].
      qr_build H. apply forall_resort. apply (forall_app is_some (x :: t) (qlist m)); [exact Hk|exact Hs].
    Qed.

    Lemma finish_qr m s b : QR m s -> QR (qlog (upd_ecount m (pred (ecount m))) (QRet b)) (qlog (upd_ecount s (pred (ecount s))) (QRet b)).
    Proof. intros H. qr_build H. Qed.

    Lemma finish_recycle_qr m s n b : QR m s ->
      QR (qlog (upd_ecount (recycle true ordered klt m n) (pred (ecount (recycle true ordered klt m n)))) (QRet b))
         (qlog (upd_ecount (recycle false ordered klt s n) (pred (ecount (recycle false ordered klt s n)))) (QRet b)).
    Proof. intros H. apply finish_qr. apply recycle_qr. exact H. Qed.

    Lemma log_qr m s e : QR m s -> QR (qlog m e) (qlog s e).
    Proof. intros H. qr_build H. Qed.

    Lemma take_qr m s r e t :
      QR m s -> qlist m = Some e :: t ->
      QR (qlog (qlog (recycle true ordered klt
                        (upd_live (upd_tregs (upd_q m t (flist m)) (aset r e (tregs m)))
                                  (livep m - match alookup r (tregs m) with Some _ => 1 | None => 0 end)) 1)
                     (QPeeked (ekey e) (earg e))) (QRet true))
         (qlog (qlog (recycle false ordered klt
                        (upd_live (upd_tregs (upd_q s t (flist s)) (aset r e (tregs s)))
                                  (livep s - match alookup r (tregs s) with Some _ => 1 | None => 0 end)) 1)
                     (QPeeked (ekey e) (earg e))) (QRet true)).
    Proof.
      intros H E. apply log_qr. apply log_qr. apply recycle_qr.
      assert (Es := qr_some _ _ H). rewrite E in Es. inversion Es as [|? ? Hx Htl]; subst.
      rewrite (qr_tr _ _ H), (qr_lv _ _ H). qr_build H.
    Qed.

    Lemma clear_qr m s n k : QR m s ->
      QR (recycle true ordered klt (upd_live (upd_q m [] (flist m)) (livep m - n)) k)
         (recycle false ordered klt (upd_live (upd_q s [] (flist s)) (livep s - n)) k).
    Proof. intros H. apply recycle_qr. rewrite (qr_lv _ _ H). qr_build H. Qed.

    Lemma step_qr m s c m' :
      QR m s -> q_step true ordered klt behav pbehav rm m c = Some m' ->
      exists s', q_step false ordered klt behav pbehav rs s c = Some s' /\ QR m' s'.
    Proof.
      intros H Hc.
      assert (Eq : qlist m = qlist s) by apply (qr_q _ _ H).
      assert (Es : Forall is_some (qlist m)) by apply (qr_some _ _ H).
      assert (Ehr : hregs m = hregs s) by apply (qr_hr _ _ H).
      assert (El : forall k, lst_of m k = lst_of s k) by (intro k; unfold lst_of; rewrite (qr_l _ _ H); reflexivity).
      destruct c; unfold q_step in Hc |- *.
      - inversion Hc; subst. eexists; split; [reflexivity|apply add_listener_qr; exact H].
      - inversion Hc; subst. eexists; split; [reflexivity|apply add_listener_qr; exact H].
      - rewrite <- Ehr. destruct (alookup hb (hregs m)) as [[k' b]|].
        + destruct (Nat.eqb k' k); [|discriminate]. rewrite <- El.
          destruct (has_l b (lst_of m k)); inversion Hc; subst; (eexists; split; [reflexivity|apply add_listener_qr; exact H]).
        + inversion Hc; subst. eexists; split; [reflexivity|apply add_listener_qr; exact H].
      - rewrite <- Ehr. destruct (alookup h (hregs m)) as [[k' b]|].
        + destruct (Nat.eqb k' k); [|discriminate]. rewrite <- El.
          destruct (has_l b (lst_of m k)); inversion Hc; subst; (eexists; split; [reflexivity|]).
          * rewrite (qr_l _ _ H), (qr_nh _ _ H), Ehr. qr_build H.
          * qr_build H.
        + inversion Hc; subst. eexists; split; [reflexivity|qr_build H].
      - apply (dispatch_qr m s k a m' H Hc).
      - inversion Hc; subst. eexists; split; [reflexivity|].
        change (QR (do_enqueue true ordered klt (upd_nexts m (S (nexts m))) (mkEv k a (nexts m)))
                   (do_enqueue false ordered klt (upd_nexts s (S (nexts s))) (mkEv k a (nexts s)))).
        rewrite <- (qr_ns _ _ H). apply enqueue_qr. qr_build H.
      - (* process *)
        rewrite <- Eq. destruct (qlist m) as [|x t] eqn:E.
        + inversion Hc; subst. eexists; split; [reflexivity|qr_build H].
        + set (m1 := upd_q (upd_ecount m (S (ecount m))) [] (flist m)) in Hc.
          set (s1 := upd_q (upd_ecount s (S (ecount s))) [] (flist s)).
          assert (H1 : QR m1 s1). { unfold m1, s1. qr_build H. }
          destruct (process_loop behav rm m1 (x :: t)) as [m2|] eqn:Ep; [|discriminate].
          destruct (process_loop_qr (x :: t) m1 s1 m2 Es H1 Ep) as [s2 [A B]]. fold s1. rewrite A.
          injection Hc as <-. cbv zeta. eexists; split; [reflexivity|]. exact (finish_recycle_qr m2 s2 (length (x :: t)) true B).
      - (* processOne *)
        rewrite <- Eq. destruct (qlist m) as [|x t] eqn:E.
        + inversion Hc; subst. eexists; split; [reflexivity|qr_build H].
        + inversion Es as [|? ? Hx Htl]; subst.
          set (m1 := upd_q (upd_ecount m (S (ecount m))) t (flist m)) in Hc.
          set (s1 := upd_q (upd_ecount s (S (ecount s))) t (flist s)).
          assert (H1 : QR m1 s1). { unfold m1, s1. qr_build H. }
          destruct (process_loop behav rm m1 [x]) as [m2|] eqn:Ep; [|discriminate].
          destruct (process_loop_qr [x] m1 s1 m2 (Forall_cons _ Hx (Forall_nil _)) H1 Ep) as [s2 [A B]]. fold s1. rewrite A.
          injection Hc as <-. cbv zeta. eexists; split; [reflexivity|]. exact (finish_recycle_qr m2 s2 1 true B).
      - (* processIf *)
        rewrite <- Eq. destruct (qlist m) as [|x t] eqn:E.
        + inversion Hc; subst. eexists; split; [reflexivity|qr_build H].
        + set (m1 := upd_q (upd_ecount m (S (ecount m))) [] (flist m)) in Hc.
          set (s1 := upd_q (upd_ecount s (S (ecount s))) [] (flist s)).
          assert (H1 : QR m1 s1). { unfold m1, s1. qr_build H. }
          destruct (processif_loop behav pbehav rm m1 p (x :: t) [] 0) as [[[m2 kept] idle]|] eqn:Ep; [|discriminate].
          destruct (processif_loop_qr p (x :: t) m1 s1 [] 0 m2 kept idle Es H1 Ep) as [s2 [A [B C]]]. fold s1. rewrite A.
          injection Hc as <-. cbv zeta. eexists; split; [reflexivity|].
          exact (finish_recycle_qr _ _ idle _ (putback_qr m2 s2 kept B (C (Forall_nil _)))).
      - (* processUntil *)
        rewrite <- Eq. destruct (qlist m) as [|x t] eqn:E.
        + inversion Hc; subst. eexists; split; [reflexivity|qr_build H].
        + set (m1 := upd_q (upd_ecount m (S (ecount m))) [] (flist m)) in Hc.
          set (s1 := upd_q (upd_ecount s (S (ecount s))) [] (flist s)).
          assert (H1 : QR m1 s1). { unfold m1, s1. qr_build H. }
          destruct (processuntil_loop behav pbehav rm m1 p (x :: t) 0) as [[[m2 kept] idle]|] eqn:Ep; [|discriminate].
          destruct (processuntil_loop_qr p (x :: t) m1 s1 0 m2 kept idle Es H1 Ep) as [s2 [A [B C]]]. fold s1. rewrite A.
          injection Hc as <-. cbv zeta. eexists; split; [reflexivity|].
          exact (finish_recycle_qr _ _ idle _ (putback_qr m2 s2 kept B C)).
      - (* peek *)
        rewrite <- Eq. destruct (qlist m) as [|[e|] t] eqn:E.
        + inversion Hc; subst. eexists; split; [reflexivity|qr_build H].
        + inversion Hc; subst. eexists; split; [reflexivity|qr_build H].
        + exfalso. inversion Es as [|? ? Hx _]; subst. apply Hx; reflexivity.
      - (* take *)
        rewrite <- Eq. destruct (qlist m) as [|[e|] t] eqn:E.
        + inversion Hc; subst. eexists; split; [reflexivity|qr_build H].
        + injection Hc as <-. eexists; split; [reflexivity|]. exact (take_qr m s r e t H E).
        + exfalso. inversion Es as [|? ? Hx _]; subst. apply Hx; reflexivity.
      - (* dispatch taken *)
        rewrite <- (qr_tr _ _ H). destruct (alookup r (tregs m)) as [e|].
        + apply (dispatch_qr m s _ _ m' H Hc).
        + inversion Hc; subst. eauto.
      - (* clear *)
        rewrite <- Eq. destruct (qlist m) as [|x t] eqn:E.
        + inversion Hc; subst. eauto.
        + injection Hc as <-. eexists; split; [reflexivity|]. exact (clear_qr m s (length (filter (fun s0 : slot => match s0 with Some _ => true | None => false end) (x :: t))) (length (x :: t)) H).
      - (* emptyQueue *)
        inversion Hc; subst. eexists; split; [reflexivity|]. rewrite Eq, (qr_e _ _ H). qr_build H.
      - inversion Hc; subst. eexists; split; [reflexivity|]. rewrite (qr_lv _ _ H). qr_build H.
      - (* waitFor(0) *)
        inversion Hc; subst. eexists; split; [reflexivity|]. rewrite Eq, (qr_e _ _ H). qr_build H.
      - inversion Hc; subst. eexists; split; [reflexivity|]. rewrite (qr_tr _ _ H). qr_build H.
    Qed.

    Lemma seq_qr : forall cs m s m',
      QR m s -> q_seq true ordered klt behav pbehav rm m cs = Some m' ->
      exists s', q_seq false ordered klt behav pbehav rs s cs = Some s' /\ QR m' s'.
    Proof.
      induction cs as [|c r IH]; intros m s m' H Hc; simpl in *.
      - inversion Hc; subst; eauto.
      - destruct (q_step true ordered klt behav pbehav rm m c) as [m1|] eqn:E; [|discriminate].
        destruct (step_qr m s c m1 H E) as [s1 [A B]]. rewrite A. apply (IH m1 s1 m' B Hc).
    Qed.
  End Loops.

  Lemma run_qr : forall fuel, RecSim (q_run true ordered klt behav pbehav fuel) (q_run false ordered klt behav pbehav fuel).
  Proof.
    induction fuel as [|f IH]; intros m s cs m' H Hc; simpl in *; [discriminate|].
    apply (seq_qr _ _ IH cs m s m' H Hc).
  Qed.

  Lemma init_qr : QR q_init q_init.
  Proof. constructor; simpl; auto. Qed.

  (* The slot mechanism refines the pending-list specification for every re-entrant program. *)
  Theorem queue_refines_fifo fuel prog m' :
    q_run true ordered klt behav pbehav fuel q_init prog = Some m' ->
    exists s', q_run false ordered klt behav pbehav fuel q_init prog = Some s' /\
               qtrace m' = qtrace s' /\ qerr m' = false /\ QR m' s'.
  Proof.
    intros H. destruct (run_qr fuel q_init q_init prog m' init_qr H) as [s' [A B]].
    exists s'. split; [exact A|]. split; [apply (qr_t _ _ B)|]. split; [apply (qr_err _ _ B)|exact B].
  Qed.
  Corollary mechanism_never_misuses_slots fuel prog m' :
    q_run true ordered klt behav pbehav fuel q_init prog = Some m' ->
    qerr m' = false /\ Forall is_none (flist m').
  Proof.
    intros H. destruct (queue_refines_fifo fuel prog m' H) as [s' [_ [_ [E Q]]]].
    exact (conj E (qr_f _ _ Q)).
  Qed.
End Refine.
