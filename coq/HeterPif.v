(* HeterPif.v — processIf examines only events of prototypes its predicate is callable with and
   leaves every other event in place; exact call traces of dispatch and process for flat
   (non re-entrant) callbacks; witnesses that each of the two unrepaired forms of doProcessIf
   violates the statement. *)
From Coq Require Import List Arith NArith ZArith Bool Lia.
From EV Require Import HeterModel HeterProofs.
From EV.gen Require GenHeter.
Import ListNotations.
Local Open Scope nat_scope.

(* ---------- (1) the predicate only ever sees events of prototypes it is callable with ---------- *)

Definition pred_typed (callable : kind -> proto -> bool) (e : hev) : Prop :=
  match e with HPred _ pk tag _ => callable pk tag = true | _ => True end.

Definition trace_typed callable (st : hstate) : Prop := Forall (pred_typed callable) (htrace st).

(* kept is temp with some elements removed, all of which satisfy P; nothing is reordered or altered *)
Inductive removed_only (P : hslot -> Prop) : list hslot -> list hslot -> Prop :=
| ro_nil : removed_only P [] []
| ro_keep x t k : removed_only P t k -> removed_only P (x :: t) (x :: k)
| ro_drop x t k : P x -> removed_only P t k -> removed_only P (x :: t) k.

Definition tagged (lab : nat) (s : hslot) : Prop := match s with Some e => etag e = lab | None => True end.

Lemma removed_only_others P : forall temp k, removed_only P temp k ->
  forall f : hslot -> bool, (forall x, P x -> f x = false) -> filter f temp = filter f k.
Proof.
  induction 1; intros f Hf; simpl; [reflexivity| |].
  - rewrite (IHremoved_only f Hf). reflexivity.
  - rewrite (Hf x H). apply IHremoved_only. exact Hf.
Qed.

Section Pif.
  Variable np : nat.
  Variable callable : kind -> proto -> bool.
  Variable own : proto -> kind.
  Variable arity : proto -> nat.
  Variable counted : proto -> bool.
  Variable mech chk rem : bool.
  Variable behav : nat -> nat -> list hcmd.
  Variable pbehav : nat -> nat -> list hcmd * bool.

  Notation TT := (trace_typed callable).

  Lemma tt_log st e : TT st -> pred_typed callable e -> TT (hlog st e).
  Proof. intros H He. unfold trace_typed; simpl. constructor; assumption. Qed.

  Lemma fun_tt_cacts st e a : TT st -> pred_typed callable e -> TT (hupd_cacts (hlog st e) a).
  Proof. intros H He. unfold trace_typed; simpl. constructor; assumption. Qed.

  Lemma fun_tt_pacts st e a : TT st -> pred_typed callable e -> TT (hupd_pacts (hlog st e) a).
  Proof. intros H He. unfold trace_typed; simpl. constructor; assumption. Qed.

  Lemma typed_read_trace st s ty : htrace (typed_read mech st s ty) = htrace st.
  Proof. unfold typed_read. destruct mech; [|reflexivity]. destruct s as [e|]; [destruct (Nat.eqb (etag e) ty)|]; reflexivity. Qed.

  Definition RecTT (rec : hstate -> list hcmd -> option hstate) : Prop :=
    forall st cs st', TT st -> rec st cs = Some st' -> TT st'.

  Section Loops.
    Variable rec : hstate -> list hcmd -> option hstate.
    Hypothesis HR : RecTT rec.
    (* the facts of the repaired header (or the specification, where they are built in) *)
    Hypothesis Hchk : chk' mech chk = true.
    Hypothesis Hrem : rem' mech rem = true.

    Lemma call_all_tt k p v : forall todo st st',
      TT st -> hcall_all arity behav rec st k p todo v = Some st' -> TT st'.
    Proof.
      induction todo as [|[h c] rest IH]; intros st st' H Hc; simpl in Hc.
      - inversion Hc; subst; exact H.
      - destruct (hhas_l h (lst_of st k p)); [|apply (IH _ _ H Hc)].
        cbv zeta in Hc.
        match type of Hc with (match ?X with _ => _ end = _) => destruct X as [st3|] eqn:Er; [|discriminate] end.
        apply (IH st3 st'); [|exact Hc]. apply (HR _ _ _ (fun_tt_cacts st (HCall c k p (pval arity p v)) _ H I) Er).
    Qed.

    Lemma dispatch_tt st k ak v st' : TT st -> hdispatch np callable arity behav rec st k ak v = Some st' -> TT st'.
    Proof.
      intros H Hd. unfold hdispatch in Hd. destruct (first_args np callable ak) as [[i t]|]; [|discriminate].
      apply (call_all_tt k i v _ st st' H Hd).
    Qed.

    Lemma eval_pred_tt st pk p ty e st' b :
      TT st -> callable pk (etag e) = true -> heval_pred arity pbehav rec st pk p ty e = Some (st', b) -> TT st'.
    Proof.
      intros H Hc Hp. unfold heval_pred in Hp. cbv zeta in Hp.
      match type of Hp with (let '(_, _) := ?X in _) = _ => destruct X as [body verdict] end.
      match type of Hp with (match ?X with _ => _ end = _) => destruct X as [st3|] eqn:Er; [|discriminate] end.
      inversion Hp; subst. apply (HR _ _ _ (fun_tt_pacts st (HPred p pk (etag e) (pval arity ty (eval e))) _ H Hc) Er).
    Qed.

    Lemma process_loop_tt : forall temp st st',
      TT st -> hprocess_loop np callable own arity behav rec st temp = Some st' -> TT st'.
    Proof.
      induction temp as [|x rest IH]; intros st st' H Hp; simpl in Hp.
      - inversion Hp; subst; exact H.
      - destruct x as [e|]; [|apply (IH (hset_err st) _ H Hp)].
        destruct (hdispatch_event np callable own arity behav rec st e) as [st1|] eqn:Ed; [|discriminate].
        apply (IH (hslot_clear st1 (Some e)) _ (dispatch_tt _ _ _ _ _ H Ed) Hp).
    Qed.

    Lemma pif_loop_tt pk p lab : callable pk lab = true -> forall temp st kept idle st' kept' idle',
      TT st -> hpif_loop np callable own arity mech chk behav pbehav rec st pk p lab lab temp kept idle = Some (st', kept', idle') -> TT st'.
    Proof.
      intros Hcal. induction temp as [|x rest IH]; intros st kept idle st' kept' idle' H Hp; simpl in Hp.
      - inversion Hp; subst; exact H.
      - rewrite Hchk in Hp.
        destruct x as [e|]; [|apply (IH (hset_err st) _ _ _ _ _ H Hp)].
        destruct (GenHeter.processif_skip (Z.of_nat (etag e)) (Z.of_nat lab)) eqn:Esk; [apply (IH st _ _ _ _ _ H Hp)|].
        assert (Etag : etag e = lab).
        { unfold GenHeter.processif_skip in Esk. apply negb_false_iff in Esk. apply Z.eqb_eq in Esk. lia. }
        match type of Hp with (match ?X with _ => _ end = _) => destruct X as [[st2 v]|] eqn:Ep; [|discriminate] end.
        assert (H2 : TT st2).
        { apply (eval_pred_tt (typed_read mech st (Some e) lab) pk p lab e st2 v); [|rewrite Etag; exact Hcal|exact Ep].
          unfold trace_typed. rewrite typed_read_trace. exact H. }
        destruct v.
        + destruct (hdispatch_event np callable own arity behav rec st2 e) as [st3|] eqn:Ed; [|discriminate].
          apply (IH (hslot_clear st3 (Some e)) _ _ _ _ _ (dispatch_tt _ _ _ _ _ H2 Ed) Hp).
        + apply (IH st2 _ _ _ _ _ H2 Hp).
    Qed.

    Lemma pif_rounds_tt pk p : forall n round st st' b,
      round_ok np callable pk round -> TT st ->
      hpif_rounds np callable own arity mech chk rem behav pbehav rec n st pk p round = Some (st', b) -> TT st'.
    Proof.
      induction n as [|n IH]; intros round st st' b Hr H Hp; simpl in Hp.
      - inversion Hp; subst; exact H.
      - destruct round as [[lab ty]|]; [|inversion Hp; subst; exact H].
        destruct Hr as [<- [Hlt Hcal]].
        match type of Hp with (match ?X with _ => _ end = _) => destruct X as [[[st2 kept] idle]|] eqn:El; [|discriminate] end.
        assert (H2 : TT st2) by (apply (pif_loop_tt pk p lab Hcal (hq st) (hupd_q (hupd_ecount st (S (hecount st))) [] (hf st)) [] 0 st2 kept idle H El)).
        destruct idle as [|i].
        + rewrite Hrem in Hp.
          match type of Hp with (match ?X with _ => _ end = _) => destruct X as [[st4 b4]|] eqn:Er; [|discriminate] end.
          inversion Hp; subst. apply (IH _ (hupd_q st2 (kept ++ hq st2) (hf st2)) st4 b (next_round_ok np callable pk lab) H2 Er).
        + inversion Hp; subst. unfold hrecycle. destruct mech; exact H2.
    Qed.

    Lemma step_tt st c st' : TT st -> h_step np callable own arity counted mech chk rem behav pbehav rec st c = Some st' -> TT st'.
    Proof.
      intros H Hc. destruct c; unfold h_step in Hc.
      - destruct (first_callable np callable ck) as [[i t]|]; inversion Hc; subst. apply tt_log; [exact H|exact I].
      - destruct (first_callable np callable ck) as [[i t]|]; inversion Hc; subst. apply tt_log; [exact H|exact I].
      - destruct (first_callable np callable ck) as [[i t]|]; [|discriminate].
        destruct (h_alookup hb (hregs st)) as [[[k' i'] b]|].
        + destruct (Nat.eqb k' k); [|discriminate].
          destruct (Nat.eqb i' i && hhas_l b (lst_of st k i)); inversion Hc; subst; (apply tt_log; [exact H|exact I]).
        + inversion Hc; subst. apply tt_log; [exact H|exact I].
      - destruct (h_alookup h (hregs st)) as [[[k' i] b]|].
        + destruct (Nat.eqb k' k); [|discriminate].
          destruct (hhas_l b (lst_of st k i)); inversion Hc; subst; (apply tt_log; [exact H|exact I]).
        + inversion Hc; subst. apply tt_log; [exact H|exact I].
      - apply (dispatch_tt _ _ _ _ _ H Hc).
      - destruct (first_args np callable ak) as [[i t]|]; inversion Hc; subst.
        unfold hdo_enqueue. destruct mech; [|exact H].
        destruct (hf st) as [|[x|] fl]; exact H.
      - destruct (hq st) as [|x t] eqn:E.
        + inversion Hc; subst. apply tt_log; [exact H|exact I].
        + match type of Hc with (match ?X with _ => _ end = _) => destruct X as [st2|] eqn:Ep; [|discriminate] end.
          inversion Hc; subst. apply tt_log; [|exact I].
          assert (H2 : TT st2) by (apply (process_loop_tt (x :: t) (hupd_q (hupd_ecount st (S (hecount st))) [] (hf st)) st2 H Ep)).
          unfold hrecycle. destruct mech; exact H2.
      - destruct (hq st) as [|x t] eqn:E.
        + inversion Hc; subst. apply tt_log; [exact H|exact I].
        + match type of Hc with (match ?X with _ => _ end = _) => destruct X as [st2|] eqn:Ep; [|discriminate] end.
          inversion Hc; subst. apply tt_log; [|exact I].
          assert (H2 : TT st2) by (apply (process_loop_tt [x] (hupd_q (hupd_ecount st (S (hecount st))) t (hf st)) st2 H Ep)).
          unfold hrecycle. destruct mech; exact H2.
      - destruct (hq st) as [|x t] eqn:E.
        + inversion Hc; subst. apply tt_log; [exact H|exact I].
        + match type of Hc with (match ?X with _ => _ end = _) => destruct X as [[st1 b]|] eqn:Er; [|discriminate] end.
          inversion Hc; subst. apply tt_log; [|exact I].
          apply (pif_rounds_tt pk p _ _ _ _ _ (first_round_ok np callable pk) H Er).
      - destruct (hq st) as [|x t]; inversion Hc; subst; [exact H|].
        unfold hrecycle. destruct mech; exact H.
      - inversion Hc; subst. apply tt_log; [exact H|exact I].
      - inversion Hc; subst. apply tt_log; [exact H|exact I].
    Qed.

    Lemma seq_tt : forall cs st st', TT st -> h_seq np callable own arity counted mech chk rem behav pbehav rec st cs = Some st' -> TT st'.
    Proof.
      induction cs as [|c r IH]; intros st st' H Hc; simpl in Hc.
      - inversion Hc; subst; exact H.
      - destruct (h_step np callable own arity counted mech chk rem behav pbehav rec st c) as [st1|] eqn:E; [|discriminate].
        apply (IH _ _ (step_tt _ _ _ H E) Hc).
    Qed.
  End Loops.

  Lemma run_tt : chk' mech chk = true -> rem' mech rem = true ->
    forall fuel, RecTT (h_run np callable own arity counted mech chk rem behav pbehav fuel).
  Proof.
    intros Hc Hr. induction fuel as [|f IH]; intros st cs st' H Hrun; simpl in Hrun; [discriminate|].
    apply (seq_tt _ IH Hc Hr cs st st' H Hrun).
  Qed.

  (* for every program: every predicate evaluation in the trace is on an event whose prototype the
     predicate is callable with *)
  Theorem predicate_only_on_callable_prototypes fuel prog st' :
    chk' mech chk = true -> rem' mech rem = true ->
    h_run np callable own arity counted mech chk rem behav pbehav fuel h_init prog = Some st' ->
    forall p pk tag v, In (HPred p pk tag v) (htrace st') -> callable pk tag = true.
  Proof.
    intros Hc Hr Hrun p pk tag v Hin.
    assert (H : trace_typed callable st') by (apply (run_tt Hc Hr fuel h_init prog st'); [constructor|exact Hrun]).
    unfold trace_typed in H. rewrite Forall_forall in H. apply (H _ Hin).
  Qed.

  (* ---------- (3) a round leaves every event of another prototype where it was ---------- *)

  Lemma pif_loop_kept rec pk p lab ty : forall temp st kept idle st' kept' idle',
    hpif_loop np callable own arity mech chk behav pbehav rec st pk p lab ty temp kept idle = Some (st', kept', idle') ->
    exists K, kept' = rev kept ++ K /\ removed_only (tagged lab) temp K /\ idle' + length K <= idle + length temp.
  Proof.
    induction temp as [|x rest IH]; intros st kept idle st' kept' idle' Hp; simpl in Hp.
    - inversion Hp; subst. exists []. rewrite app_nil_r. split; [reflexivity|]. split; [constructor|simpl; lia].
    - destruct x as [e|].
      + destruct (GenHeter.processif_skip (Z.of_nat (etag e)) (Z.of_nat lab)) eqn:Esk.
        * destruct (IH _ _ _ _ _ _ Hp) as [K [A [B C]]]. exists (Some e :: K).
          split; [rewrite A; simpl; rewrite <- app_assoc; reflexivity|]. split; [constructor; exact B|simpl; lia].
        * assert (Etag : etag e = lab).
          { unfold GenHeter.processif_skip in Esk. apply negb_false_iff in Esk. apply Z.eqb_eq in Esk. lia. }
          match type of Hp with (match ?X with _ => _ end = _) => destruct X as [[st2 v]|] eqn:Ep; [|discriminate] end.
          destruct v.
          -- match type of Hp with (match ?X with _ => _ end = _) => destruct X as [st3|] eqn:Ed; [|discriminate] end.
             destruct (IH _ _ _ _ _ _ Hp) as [K [A [B C]]]. exists K.
             split; [exact A|]. split; [apply ro_drop; [exact Etag|exact B]|simpl; lia].
          -- destruct (IH _ _ _ _ _ _ Hp) as [K [A [B C]]]. exists (Some e :: K).
             split; [rewrite A; simpl; rewrite <- app_assoc; reflexivity|]. split; [constructor; exact B|simpl; lia].
      + destruct (IH _ _ _ _ _ _ Hp) as [K [A [B C]]]. exists K.
        split; [exact A|]. split; [apply ro_drop; [exact I|exact B]|simpl; lia].
  Qed.

  (* a whole round started on queue Q: what is put back in front of the (meanwhile enqueued) events is
     Q minus removed events, all of which have the round's prototype; the others are the same slots,
     same payloads, same relative order *)
  Theorem round_leaves_others_in_place rec st pk p lab ty st2 kept idle :
    hpif_loop np callable own arity mech chk behav pbehav rec
              (hupd_q (hupd_ecount st (S (hecount st))) [] (hf st)) pk p lab ty (hq st) [] 0 = Some (st2, kept, idle) ->
    removed_only (tagged lab) (hq st) kept /\ idle + length kept <= length (hq st) /\
    forall f : hslot -> bool, (forall x, tagged lab x -> f x = false) -> filter f kept = filter f (hq st).
  Proof.
    intros H. destruct (pif_loop_kept _ _ _ _ _ _ _ _ _ _ _ _ H) as [K [A [B C]]]. simpl in A. subst kept.
    split; [exact B|]. split; [simpl in C; lia|]. intros f Hf. symmetry. apply (removed_only_others _ _ _ B f Hf).
  Qed.
End Pif.

(* ---------- exact call traces for flat (non re-entrant) callbacks ---------- *)

Section Flat.
  Variable np : nat.
  Variable callable : kind -> proto -> bool.
  Variable own : proto -> kind.
  Variable arity : proto -> nat.
  Variable counted : proto -> bool.
  Variable mech chk rem : bool.
  Variable behav : nat -> nat -> list hcmd.
  Variable pbehav : nat -> nat -> list hcmd * bool.
  Variable rec : hstate -> list hcmd -> option hstate.
  Hypothesis Hflat : forall c n, behav c n = [].
  Hypothesis Hrec : forall st, rec st [] = Some st.

  Definition calls_of (k : nat) (p : proto) (v : Z) (l : list (nat * nat)) : list hev :=
    map (fun hc => HCall (snd hc) k p (pval arity p v)) l.

  (* everything but the trace and the activation counters is unchanged *)
  Definition same_but_trace (st st' : hstate) : Prop :=
    hq st' = hq st /\ hf st' = hf st /\ hecount st' = hecount st /\ hlsts st' = hlsts st /\
    hnexth st' = hnexth st /\ hregs st' = hregs st /\ hpacts st' = hpacts st /\ herr st' = herr st.

  Lemma sbt_refl st : same_but_trace st st.
  Proof. repeat split. Qed.

  Lemma sbt_trans a b c : same_but_trace a b -> same_but_trace b c -> same_but_trace a c.
  Proof. unfold same_but_trace. intuition congruence. Qed.

  Lemma hhas_l_in h c l : In (h, c) l -> hhas_l h l = true.
  Proof.
    induction l as [|[x y] t IH]; intros H; simpl; [contradiction|].
    destruct H as [E|H]; [inversion E; subst; rewrite Nat.eqb_refl; reflexivity|].
    rewrite (IH H). apply orb_true_r.
  Qed.

  Lemma call_all_flat k p v : forall todo st,
    (forall h c, In (h, c) todo -> In (h, c) (lst_of st k p)) ->
    exists st', hcall_all arity behav rec st k p todo v = Some st' /\
                htrace st' = rev (calls_of k p v todo) ++ htrace st /\ same_but_trace st st'.
  Proof.
    induction todo as [|[h c] rest IH]; intros st Hin; simpl.
    - exists st. split; [reflexivity|]. split; [reflexivity|apply sbt_refl].
    - rewrite (hhas_l_in h c _ (Hin h c (or_introl eq_refl))). cbv zeta. rewrite Hflat, Hrec.
      set (st2 := hupd_cacts (hlog st (HCall c k p (pval arity p v))) _).
      destruct (IH st2) as [st' [A [B C]]].
      { intros h' c' H'. unfold st2, lst_of; simpl. apply (Hin h' c' (or_intror H')). }
      exists st'. split; [exact A|]. split.
      + rewrite B. unfold st2; simpl. rewrite <- app_assoc. reflexivity.
      + apply (sbt_trans st st2 st'); [repeat split|exact C].
  Qed.

  (* dispatch / invoke with argument kind ak: the first listed prototype callable with ak is selected
     and exactly its callbacks for that key run, in list order, once each, with the value *)
  Theorem dispatch_flat st k ak v :
    forall p, is_first np callable ak p ->
    exists st', hdispatch np callable arity behav rec st k ak v = Some st' /\
                htrace st' = rev (calls_of k p v (lst_of st k p)) ++ htrace st /\ same_but_trace st st'.
  Proof.
    intros p Hp. unfold hdispatch.
    destruct (first_args np callable ak) as [[i t]|] eqn:E.
    - destruct (first_args_spec _ _ _ _ _ E) as [_ Hi].
      rewrite (is_first_unique _ _ _ _ _ Hp Hi). apply call_all_flat. auto.
    - exfalso. rewrite first_args_callable_agree in E.
      destruct Hp as [A [B _]]. rewrite (first_callable_none _ _ _ E p A) in B. discriminate.
  Qed.

  (* the pending list is consumed front to back, each event exactly once, each by the callbacks of
     its own prototype (prototype lists for which a stored tuple re-selects its own prototype) *)
  Definition event_calls (st : hstate) (e : hevent) : list hev :=
    calls_of (ekey e) (etag e) (eval e) (lst_of st (ekey e) (etag e)).

  Theorem process_loop_flat : forall es st,
    (forall e, In e es -> is_first np callable (own (etag e)) (etag e)) ->
    exists st', hprocess_loop np callable own arity behav rec st (map Some es) = Some st' /\
                htrace st' = rev (flat_map (event_calls st) es) ++ htrace st /\ same_but_trace st st'.
  Proof.
    induction es as [|e es IH]; intros st Hst; simpl.
    - exists st. split; [reflexivity|]. split; [reflexivity|apply sbt_refl].
    - unfold hdispatch_event.
      destruct (dispatch_flat st (ekey e) (own (etag e)) (eval e) (etag e) (Hst e (or_introl eq_refl))) as [st1 [A [B C]]].
      rewrite A. simpl.
      destruct (IH st1 (fun e' H' => Hst e' (or_intror H'))) as [st' [D [E F]]].
      exists st'. split; [exact D|]. split.
      + rewrite E, B. rewrite rev_app_distr, <- app_assoc.
        assert (X : flat_map (event_calls st1) es = flat_map (event_calls st) es).
        { apply flat_map_ext. intros a. unfold event_calls, lst_of. destruct C as [_ [_ [_ [L _]]]]. rewrite L. reflexivity. }
        rewrite X. reflexivity.
      + apply (sbt_trans _ _ _ C F).
  Qed.

  (* enqueue with argument kind ak appends one event tagged with the first prototype callable with ak *)
  Theorem enqueue_tags_first st k ak v st' :
    h_step np callable own arity counted false chk rem behav pbehav rec st (HEnqueue k ak v) = Some st' ->
    exists p, is_first np callable ak p /\ hq st' = hq st ++ [Some (mkHE p k v)] /\ htrace st' = htrace st /\ hlsts st' = hlsts st.
  Proof.
    simpl. destruct (first_args np callable ak) as [[i t]|] eqn:E; [|discriminate].
    intros H; inversion H; subst. destruct (first_args_spec _ _ _ _ _ E) as [_ Hi].
    exists i. split; [exact Hi|]. unfold hdo_enqueue; simpl. auto.
  Qed.
End Flat.

(* ---------- witnesses: each unrepaired form of doProcessIf violates the statement ---------- *)

(* harness prototype list 0: void(), void(int), void(const std::string &), void(Payload), void(int,int);
   kinds: 0 `()`, 1 `(int)`, 3 `(const std::string &)`; argument kinds 20 `()`, 21 `(int)`, 23 `(std::string)`;
   40+p the stored tuple of prototype p *)
Definition ex_callable (k : kind) (p : proto) : bool :=
  match k, p with
  | 0, 0 | 20, 0 | 40, 0 => true
  | 1, 1 | 2, 1 | 10, 1 | 21, 1 | 22, 1 | 41, 1 => true
  | 3, 2 | 4, 2 | 23, 2 | 24, 2 | 42, 2 => true
  | 5, 3 | 6, 3 | 25, 3 | 26, 3 | 43, 3 => true
  | 7, 4 | 8, 4 | 27, 4 | 44, 4 => true
  | 9, 0 | 9, 1 | 9, 2 => true
  | _, _ => false
  end.
Definition ex_own (p : proto) : kind := 40 + p.
Definition ex_arity (p : proto) : nat := match p with 0 => 0 | 4 => 2 | _ => 1 end.
Definition ex_counted (p : proto) : bool := Nat.eqb p 3.
Definition ex_flat (c n : nat) : list hcmd := [].
Definition ex_ptrue (p n : nat) : list hcmd * bool := ([], true).

(* P5(a): a std::string event is processed, an int event recycles its slot, processIf with a
   predicate taking const std::string & retypes the slot before looking at the tag *)
Definition prog_retype : list hcmd :=
  [HEnqueue 0 23 7%Z; HProcess; HEnqueue 0 21 8%Z; HProcessIf 3 1].

Theorem retype_before_tag_check_refuted :
  exists tr, h_run_case 5 ex_callable ex_own ex_arity ex_counted true false true ex_flat ex_ptrue 4 prog_retype = Some (tr, true).
Proof. eexists. vm_compute. reflexivity. Qed.

(* P5(b): the only pending event is void(int); processIf with a predicate callable only with void()
   restarts the search over the whole list with shifted labels and runs the predicate on it *)
Definition prog_index : list hcmd := [HEnqueue 0 21 8%Z; HProcessIf 0 1].

Theorem next_search_over_whole_list_refuted :
  exists tr err p v, h_run_case 5 ex_callable ex_own ex_arity ex_counted true true false ex_flat ex_ptrue 4 prog_index = Some (tr, err) /\
                     In (HPred p 0 1 v) tr /\ ex_callable 0 1 = false /\ err = true.
Proof. eexists. eexists. eexists. eexists. vm_compute. split; [reflexivity|]. split; [left; reflexivity|]. split; reflexivity. Qed.
