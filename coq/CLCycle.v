(* CLCycle.v — C08: removed nodes of a callback list hold no reference cycle.

   CLModel treats shared_ptr life time as reachability over previous/next from the roots.  Reference counting frees
   exactly the unreachable nodes iff the unreachable part has no cycle of strong references.  Nodes unreachable from
   head are the removed ones (and live nodes never point to removed ones); here: for every history of the critical
   sections of callbacklist.h (any interleaving of append / prepend / insert / remove sections), there is a ranking of
   the removed nodes such that every previous/next pointer from a removed node to a removed node goes to a strictly
   higher rank (a node removed later).  Hence no cycle among removed nodes: once no traversal pins it, a removed node's
   count drops to zero, and so on along its pointers.  (P1 — fixed by 687a2ff — had created such a cycle.) *)
From Coq Require Import List Arith NArith ZArith Bool Lia.
From EV Require Import CLModel CLHeap CLOps CLRefine CLConcProofs.
From EV.gen Require GenCL.
Import ListNotations.
Local Open Scope nat_scope.

Definition deadb (h : list node) (x : nat) : bool :=
  match nth_error h x with Some nd => N.eqb (ctr nd) GenCL.removed_marker | None => false end.

Definition ACM (h : list node) : Prop :=
  exists (rk : nat -> nat) (M : nat),
    (forall x, deadb h x = true -> rk x < M) /\
    (forall x y nd, deadb h x = true -> deadb h y = true -> nth_error h x = Some nd ->
                    (prv nd = Some y \/ nxt nd = Some y) -> rk x < rk y).

Lemma acm_nil : ACM [].
Proof. exists (fun _ => 0), 1. split; intros x; unfold deadb; destruct x; cbn; intros; discriminate. Qed.

(* removed nodes are left alone and no node is newly removed *)
Lemma acm_frame h h' :
  ACM h -> (forall x, deadb h' x = true -> deadb h x = true /\ nth_error h' x = nth_error h x) -> ACM h'.
Proof.
  intros (rk & M & A & B) F. exists rk, M. split.
  - intros x Hx. apply A. apply F. exact Hx.
  - intros x y nd Hx Hy Hn E. destruct (F x Hx) as [X1 X2]. destruct (F y Hy) as [Y1 _].
    rewrite X2 in Hn. eapply B; eauto.
Qed.

(* exactly one node x is newly removed; its pointers go to nodes that are not removed *)
Lemma acm_new h h' x :
  ACM h -> deadb h x = false ->
  (forall z, deadb h' z = true -> z = x \/ (deadb h z = true /\ nth_error h' z = nth_error h z)) ->
  (forall nd y, nth_error h' x = Some nd -> (prv nd = Some y \/ nxt nd = Some y) -> deadb h' y = false) ->
  ACM h'.
Proof.
  intros (rk & M & A & B) Hx F P.
  exists (fun z => if Nat.eqb z x then M else rk z), (S M). split.
  - intros z Hz. destruct (Nat.eqb_spec z x) as [->|Hne]; [lia|].
    destruct (F z Hz) as [->|[Z1 _]]; [contradiction|]. specialize (A z Z1). lia.
  - intros z y nd Hz Hy Hn E. destruct (Nat.eqb_spec z x) as [->|Hne].
    + rewrite (P nd y Hn E) in Hy. discriminate Hy.
    + destruct (F z Hz) as [->|[Z1 Z2]]; [contradiction|]. rewrite Z2 in Hn.
      destruct (Nat.eqb_spec y x) as [->|Hney]; [apply A; exact Z1|].
      destruct (F y Hy) as [->|[Y1 _]]; [contradiction|]. eapply B; eauto.
Qed.

Lemma deadb_live_iff g ids x : GInv g ids -> In x ids -> deadb (heap g) x = false.
Proof.
  intros G Hx. destruct (lchain_in _ _ _ (gi_chain _ _ G) x Hx) as (nd & Hn & Hl). unfold deadb. rewrite Hn.
  apply N.eqb_neq. exact Hl.
Qed.

Lemma ginv_neighbours g ids x nd y :
  GInv g ids -> In x ids -> nth_error (heap g) x = Some nd -> (prv nd = Some y \/ nxt nd = Some y) -> In y ids.
Proof.
  intros G Hx Hn E. destruct (in_split _ _ Hx) as (a & b & Eids).
  destruct (ginv_member _ _ G a x b Eids) as (nd' & Hn' & _ & Hnx & Hpv). rewrite Hn in Hn'. injection Hn' as <-.
  rewrite Eids. destruct E as [E|E].
  - rewrite Hpv in E. apply last_opt_in in E. apply in_or_app. left. exact E.
  - rewrite Hnx in E. destruct b as [|b0 br]; [discriminate|]. injection E as <-. apply in_or_app. right. right. left. reflexivity.
Qed.

Lemma ginv_head_in g ids y : GInv g ids -> ghead g = Some y -> In y ids.
Proof. intros G E. rewrite (gi_head _ _ G) in E. destruct ids; [discriminate|]. injection E as <-. left. reflexivity. Qed.
Lemma ginv_tail_in g ids y : GInv g ids -> gtail g = Some y -> In y ids.
Proof. intros G E. rewrite (gi_tail _ _ G) in E. apply last_opt_in. exact E. Qed.

Lemma deadb_upd_pres h i f x : (forall nd, ctr (f nd) = ctr nd) -> deadb (upd h i f) x = deadb h x.
Proof.
  intros Hf. unfold deadb. rewrite nth_error_upd. destruct (Nat.eqb x i); [|reflexivity].
  destruct (nth_error h x); cbn [option_map]; [rewrite Hf|]; reflexivity.
Qed.

Lemma deadb_upd_o_pres h o f x : (forall nd, ctr (f nd) = ctr nd) -> deadb (upd_o h o f) x = deadb h x.
Proof. intros Hf. destruct o; cbn [upd_o]; [apply deadb_upd_pres; exact Hf|reflexivity]. Qed.

Lemma deadb_snoc h nd x : deadb (h ++ [nd]) x = if Nat.eqb x (length h) then N.eqb (ctr nd) GenCL.removed_marker else deadb h x.
Proof. unfold deadb. rewrite nth_error_snoc. destruct (Nat.eqb x (length h)); reflexivity. Qed.

Lemma deadb_lt h x : deadb h x = true -> x < length h.
Proof. unfold deadb. intros H. apply nth_error_Some. destruct (nth_error h x); [discriminate|discriminate H]. Qed.

Lemma ctr_set_prv p nd : ctr (set_prv p nd) = ctr nd. Proof. reflexivity. Qed.
Lemma ctr_set_nxt p nd : ctr (set_nxt p nd) = ctr nd. Proof. reflexivity. Qed.

Lemma nth_upd_o_other h o f x : (forall i, o = Some i -> x <> i) -> nth_error (upd_o h o f) x = nth_error h x.
Proof. intros H. destruct o as [i|]; cbn [upd_o]; [apply nth_error_upd_other; apply H; reflexivity|reflexivity]. Qed.

Lemma nth_snoc_lt {A} (h : list A) nd x : x < length h -> nth_error (h ++ [nd]) x = nth_error h x.
Proof. intros H. apply nth_error_app1. exact H. Qed.

(* ---------- the sections ---------- *)
Lemma acm_link_back g ids c k :
  GInv g ids -> k <> GenCL.removed_marker -> ACM (heap g) ->
  ACM (heap (g_link_back (fst (g_alloc g c k)) (length (heap g)))).
Proof.
  intros G Hk A. apply (acm_frame (heap g)); [exact A|]. intros x Hx.
  unfold g_link_back, g_alloc in Hx |- *. cbn [fst ghead gtail heap] in *.
  destruct (ghead g) as [hd|] eqn:Eh; cbn [heap] in *.
  - rewrite deadb_upd_o_pres, deadb_upd_pres, deadb_snoc in Hx by (intros; reflexivity).
    destruct (Nat.eqb_spec x (length (heap g))) as [->|Hne].
    + cbn [ctr] in Hx. apply N.eqb_eq in Hx. contradiction.
    + split; [exact Hx|]. pose proof (deadb_lt _ _ Hx) as Lt.
      rewrite nth_upd_o_other.
      * rewrite nth_error_upd_other by exact Hne. apply nth_snoc_lt. exact Lt.
      * intros i Ei ->. rewrite (deadb_live_iff g ids i G (ginv_tail_in _ _ _ G Ei)) in Hx. discriminate Hx.
  - rewrite deadb_snoc in Hx. destruct (Nat.eqb_spec x (length (heap g))) as [->|Hne].
    + cbn [ctr] in Hx. apply N.eqb_eq in Hx. contradiction.
    + split; [exact Hx|]. apply nth_snoc_lt. apply deadb_lt. exact Hx.
Qed.

Lemma acm_link_front g ids c k :
  GInv g ids -> k <> GenCL.removed_marker -> ACM (heap g) ->
  ACM (heap (g_link_front (fst (g_alloc g c k)) (length (heap g)))).
Proof.
  intros G Hk A. apply (acm_frame (heap g)); [exact A|]. intros x Hx.
  unfold g_link_front, g_alloc in Hx |- *. cbn [fst ghead gtail heap] in *.
  destruct (ghead g) as [hd|] eqn:Eh; cbn [heap] in *.
  - rewrite deadb_upd_o_pres, deadb_upd_pres, deadb_snoc in Hx by (intros; reflexivity).
    destruct (Nat.eqb_spec x (length (heap g))) as [->|Hne].
    + cbn [ctr] in Hx. apply N.eqb_eq in Hx. contradiction.
    + split; [exact Hx|]. pose proof (deadb_lt _ _ Hx) as Lt.
      rewrite nth_upd_o_other.
      * rewrite nth_error_upd_other by exact Hne. apply nth_snoc_lt. exact Lt.
      * intros i Ei Hxi. injection Ei as <-. subst x. rewrite (deadb_live_iff g ids hd G (ginv_head_in _ _ _ G Eh)) in Hx. discriminate Hx.
  - rewrite deadb_snoc in Hx. destruct (Nat.eqb_spec x (length (heap g))) as [->|Hne].
    + cbn [ctr] in Hx. apply N.eqb_eq in Hx. contradiction.
    + split; [exact Hx|]. apply nth_snoc_lt. apply deadb_lt. exact Hx.
Qed.

Lemma acm_link_before g ids c k b :
  GInv g ids -> k <> GenCL.removed_marker -> In b ids -> ACM (heap g) ->
  ACM (heap (g_link_before (fst (g_alloc g c k)) (length (heap g)) b)).
Proof.
  intros G Hk Hb A. apply (acm_frame (heap g)); [exact A|]. intros x Hx.
  destruct (lchain_in _ _ _ (gi_chain _ _ G) b Hb) as (bn & Hbn & _).
  assert (Lb : b < length (heap g)) by (apply nth_error_Some; rewrite Hbn; discriminate).
  unfold g_link_before, g_alloc in Hx |- *. cbn [fst ghead gtail heap] in *.
  rewrite (nth_snoc_lt (heap g) _ b Lb), Hbn in Hx |- *. cbn [heap] in *.
  rewrite deadb_upd_pres, deadb_upd_o_pres, deadb_upd_pres, deadb_snoc in Hx by (intros; reflexivity).
  destruct (Nat.eqb_spec x (length (heap g))) as [->|Hne].
  - cbn [ctr] in Hx. apply N.eqb_eq in Hx. contradiction.
  - split; [exact Hx|]. pose proof (deadb_lt _ _ Hx) as Lt.
    assert (Hxb : x <> b) by (intros ->; rewrite (deadb_live_iff g ids b G Hb) in Hx; discriminate Hx).
    rewrite nth_error_upd_other by exact Hxb. rewrite nth_upd_o_other.
    + rewrite nth_error_upd_other by exact Hne. apply nth_snoc_lt. exact Lt.
    + intros i Ei ->. rewrite (deadb_live_iff g ids i G (ginv_neighbours g ids b bn i G Hb Hbn (or_introl Ei))) in Hx. discriminate Hx.
Qed.

Lemma acm_unlink g ids x :
  GInv g ids -> In x ids -> ACM (heap g) -> ACM (heap (g_unlink g x)).
Proof.
  intros G Hx A.
  destruct (lchain_in _ _ _ (gi_chain _ _ G) x Hx) as (xn & Hxn & Hlx).
  assert (Nb : forall y, prv xn = Some y \/ nxt xn = Some y -> In y ids /\ y <> x).
  { intros y E. split; [eapply ginv_neighbours; eauto|]. intros ->.
    destruct (in_split _ _ Hx) as (a & b & Eids). pose proof (gi_nodup _ _ G) as ND. rewrite Eids in ND.
    destruct (nodup_split_notin _ _ _ ND) as [Na Nbb].
    destruct (ginv_member _ _ G a x b Eids) as (nd' & Hn' & _ & Hnx & Hpv). rewrite Hxn in Hn'. injection Hn' as <-.
    destruct E as [E|E].
    - rewrite Hpv in E. apply last_opt_in in E. contradiction.
    - rewrite Hnx in E. destruct b as [|b0 br]; [discriminate|]. injection E as ->. apply Nbb. left. reflexivity. }
  unfold g_unlink. rewrite Hxn. cbn [heap].
  apply (acm_new (heap g) _ x); [exact A|apply (deadb_live_iff g ids x G Hx)| |].
  - intros z Hz. destruct (Nat.eq_dec z x) as [->|Hne]; [left; reflexivity|right].
    assert (Dz : deadb (heap g) z = true).
    { unfold deadb in Hz |- *. rewrite nth_error_upd_other in Hz by exact Hne.
      change (deadb (upd_o (upd_o (heap g) (nxt xn) (set_prv (prv xn))) (prv xn) (set_nxt (nxt xn))) z = true) in Hz.
      rewrite !deadb_upd_o_pres in Hz by (intros; reflexivity). exact Hz. }
    split; [exact Dz|].
    rewrite nth_error_upd_other by exact Hne. rewrite !nth_upd_o_other; [reflexivity| |].
    + intros i Ei ->. destruct (Nb i (or_intror Ei)) as [Hi _]. rewrite (deadb_live_iff g ids i G Hi) in Dz. discriminate Dz.
    + intros i Ei ->. destruct (Nb i (or_introl Ei)) as [Hi _]. rewrite (deadb_live_iff g ids i G Hi) in Dz. discriminate Dz.
  - intros nd y Hn E.
    (* x keeps its own stale links; its neighbours were live and stay live *)
    assert (Hx' : nth_error (upd_o (upd_o (heap g) (nxt xn) (set_prv (prv xn))) (prv xn) (set_nxt (nxt xn))) x = Some xn).
    { rewrite !nth_upd_o_other; [exact Hxn| |].
      - intros i Ei ->. destruct (Nb i (or_intror Ei)) as [_ C]. apply C. reflexivity.
      - intros i Ei ->. destruct (Nb i (or_introl Ei)) as [_ C]. apply C. reflexivity. }
    rewrite (nth_error_upd_same _ _ _ _ Hx') in Hn. injection Hn as <-. cbn [prv nxt set_ctr] in E.
    destruct (Nb y E) as [Hy Hyx].
    unfold deadb. rewrite nth_error_upd_other by exact Hyx.
    change (deadb (upd_o (upd_o (heap g) (nxt xn) (set_prv (prv xn))) (prv xn) (set_nxt (nxt xn))) y = false).
    rewrite !deadb_upd_o_pres by (intros; reflexivity). apply (deadb_live_iff g ids y G Hy).
Qed.

(* one section *)
Lemma acm_section g ids s :
  GInv g ids -> sec_counter_ok s -> ACM (heap g) -> ACM (heap (fst (sec_step g s))).
Proof.
  intros G Hk A. destruct s as [c k|c k|c k [b|]|[x|]|[x|]|]; cbn [sec_step fst sec_counter_ok] in *; try exact A.
  - eapply acm_link_back; eauto.
  - eapply acm_link_front; eauto.
  - rewrite (is_live_iff g ids b G). destruct (existsb (Nat.eqb b) ids) eqn:E; cbn [fst].
    + apply existsb_exists in E. destruct E as (y & Hy & Ey). apply Nat.eqb_eq in Ey. subst y.
      eapply acm_link_before; eauto.
    + eapply acm_link_back; eauto.
  - eapply acm_link_back; eauto.
  - rewrite (is_live_iff g ids x G). destruct (existsb (Nat.eqb x) ids) eqn:E; cbn [fst]; [|exact A].
    apply existsb_exists in E. destruct E as (y & Hy & Ey). apply Nat.eqb_eq in Ey. subst y.
    eapply acm_unlink; eauto.
Qed.

(* every history of sections *)
Theorem removed_nodes_hold_no_reference_cycle : forall l g ids,
  GInv g ids -> Forall sec_counter_ok l -> ACM (heap g) -> ACM (heap (fst (run_secs g l))).
Proof.
  induction l as [|s r IH]; intros g ids G Hk A; cbn [run_secs]; [exact A|].
  inversion Hk as [|? ? Hs Hr]; subst.
  destruct (section_refines g ids s G Hs) as [G1 _].
  pose proof (acm_section g ids s G Hs A) as A1.
  destruct (sec_step g s) as [g1 b]. cbn [fst] in *.
  specialize (IH g1 _ G1 Hr A1). destruct (run_secs g1 r) as [g2 bs]. cbn [fst] in *. exact IH.
Qed.

Corollary from_the_empty_list l :
  Forall sec_counter_ok l -> ACM (heap (fst (run_secs empty_group l))).
Proof. intros H. apply (removed_nodes_hold_no_reference_cycle l empty_group [] ginv_empty H acm_nil). Qed.

(* a ranking excludes cycles: no removed node reaches itself through previous/next pointers of removed nodes *)
Inductive dpath (h : list node) : nat -> nat -> Prop :=
| dp_one x y nd : deadb h x = true -> deadb h y = true -> nth_error h x = Some nd -> (prv nd = Some y \/ nxt nd = Some y) -> dpath h x y
| dp_step x y z : dpath h x y -> dpath h y z -> dpath h x z.

Theorem acm_no_cycle h : ACM h -> forall x, ~ dpath h x x.
Proof.
  intros (rk & M & _ & B) x P.
  assert (Hlt : forall a b, dpath h a b -> rk a < rk b).
  { induction 1 as [a b nd Ha Hb Hn E|a b c _ IH1 _ IH2]; [eapply B; eauto|lia]. }
  specialize (Hlt x x P). lia.
Qed.
