(* Config.v — the configuration parameters that C20 quantifies over, and independence of them:
   the evaluation order of call arguments, the implicit-move rule of the language level,
   the previous content of object storage, the map discipline. *)
From Coq Require Import List Arith NArith ZArith Bool Permutation.
From EV Require Import CallShape CopyModel CopyProofs.
From EV.gen Require GenDisp GenCtor.
Import ListNotations.

(* two conforming compilers may pick two different admissible orders: same key, same parameters *)
Lemma order_independent n movable kread (sh : GenDisp.sequencing) env evs1 evs2 :
  sh <> GenDisp.Call -> length env = n -> admissible n sh evs1 -> admissible n sh evs2 ->
  key (run movable kread false env evs1) = key (run movable kread false env evs2) /\
  forall i, i < n -> plookup i (params (run movable kread false env evs1)) = plookup i (params (run movable kread false env evs2)).
Proof.
  intros Hsh Hl A1 A2.
  destruct (sequenced_site_intact n movable kread false sh env evs1 Hsh eq_refl Hl A1) as [K1 P1].
  destruct (sequenced_site_intact n movable kread false sh env evs2 Hsh eq_refl Hl A2) as [K2 P2].
  split; [congruence|]. intros i Hi. rewrite (P1 i Hi), (P2 i Hi). reflexivity.
Qed.

(* whether the language level turns `return e;` of an rvalue-reference parameter into a move does not
   matter when getEvent does not return its parameter plainly (tie A: GenDisp.getevent_returns_param_plainly) *)
Definition key_is_moved (returns_param_plainly implicit_move : bool) : bool := andb returns_param_plainly implicit_move.

Lemma implicit_move_independent n movable kread (sh : GenDisp.sequencing) env evs (im1 im2 : bool) :
  sh <> GenDisp.Call -> length env = n -> admissible n sh evs ->
  run movable kread (key_is_moved false im1) env evs = run movable kread (key_is_moved false im2) env evs.
Proof. intros _ _ _. reflexivity. Qed.
