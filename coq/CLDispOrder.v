(* CLDispOrder.v — C03, dispatcher machine: program order.  For EVERY schedule, the sections the machine has logged for a
   thread, followed by the section of the call the thread is in and by those of the calls it has still to make, are the
   sections of the thread's program, in program order (generations aside: an adder's section is logged with the generation
   it drew).  With CLDispConc.dispatcher_machine_linearizes: the sequential run that explains an execution contains every
   thread's finished calls in the order the thread made them, one section per call. *)
From Coq Require Import List Arith NArith Bool Lia.
From EV Require Import CLModel CLSec CLDisp CLDispConc.
Import ListNotations.
Local Open Scope nat_scope.

Definition untag (x : dsec) : dsec := retag x 0%N.
Definition secs_of (r : list dcall) : list dsec := flat_map (fun k => match k with KSec _ x => [untag x] | KWalk _ => [] end) r.
Definition pending_sec (p : ph) : list dsec :=
  match p with HaveL _ x | Looked _ x | WantM _ x | HaveM _ x => [untag x] | _ => [] end.
Definition logged_by (t : nat) (l : list (nat * dsec * bool)) : list dsec :=
  map (fun y => untag (sec3 y)) (filter (fun y => Nat.eqb (fst (fst y)) t) l).

Definition PO (prog : nat -> list dcall) (c : dconf) : Prop :=
  forall t, logged_by t (dlog c) ++ pending_sec (fst (thr c t)) ++ secs_of (snd (thr c t)) = secs_of (prog t).

Lemma untag_retag x k : untag (retag x k) = untag x.
Proof. destruct x as [e s|e s]; destruct s; reflexivity. Qed.
Lemma untag_tagged c x : untag (tagged c x) = untag x.
Proof. unfold tagged. destruct (adds (sec_of x)); [apply untag_retag|reflexivity]. Qed.

Lemma logged_by_app t l y : logged_by t (l ++ [y]) = logged_by t l ++ (if Nat.eqb (fst (fst y)) t then [untag (sec3 y)] else []).
Proof. unfold logged_by. rewrite filter_app, map_app. cbn [filter]. destruct (Nat.eqb (fst (fst y)) t); reflexivity. Qed.

Lemma po_init prog : PO prog (dinit prog).
Proof. intros t. reflexivity. Qed.

Lemma do_section_log c t x :
  dlog (do_section c t x) = dlog c ++ [(t, x, snd (sec_step (dget (dmap c) (ev_of x)) (sec_of x)))] /\ thr (do_section c t x) = thr c.
Proof. destruct (do_section_fields c t x) as (_ & _ & _ & F4 & F5 & _). split; assumption. Qed.

Theorem po_step prog c t : PO prog c -> PO prog (dcstep c t).
Proof.
  intros P u. specialize (P u) as Pu. pose proof (P t) as Pt.
  unfold dcstep. destruct (thr c t) as [p r] eqn:Et. cbn [fst snd] in Pt.
  (* a step that logs nothing and moves thread t to (p', r') with the same pending sections *)
  assert (Quiet : forall c' p' r', dlog c' = dlog c -> thr c' = upd (thr c) t (p', r') ->
                  pending_sec p' ++ secs_of r' = pending_sec p ++ secs_of r ->
                  logged_by u (dlog c') ++ pending_sec (fst (thr c' u)) ++ secs_of (snd (thr c' u)) = secs_of (prog u)).
  { intros c' p' r' Hl Ht Hp. rewrite Hl, Ht. destruct (Nat.eqb_spec u t) as [->|Hne].
    - rewrite upd_same. cbn [fst snd]. rewrite Hp. exact Pt.
    - rewrite upd_other by assumption. exact Pu. }
  (* a step that logs section y of thread t, which was its pending one *)
  assert (Logs : forall c' p' r' y b, dlog c' = dlog c ++ [(t, y, b)] -> thr c' = upd (thr c) t (p', r') ->
                 pending_sec p = [untag y] -> pending_sec p' = [] -> r' = r ->
                 logged_by u (dlog c') ++ pending_sec (fst (thr c' u)) ++ secs_of (snd (thr c' u)) = secs_of (prog u)).
  { intros c' p' r' y b Hl Ht Hp Hp' Hr. rewrite Hl, Ht, logged_by_app. cbn [fst snd sec3].
    destruct (Nat.eqb_spec u t) as [->|Hne].
    - rewrite upd_same, Nat.eqb_refl. cbn [fst snd]. rewrite Hp', Hr. rewrite Hp in Pt. rewrite <- app_assoc. exact Pt.
    - rewrite upd_other by assumption. destruct (Nat.eqb_spec t u) as [E|_]; [symmetry in E; contradiction|]. rewrite app_nil_r. exact Pu. }
  destruct p as [|n x|n x| |n x|n x|n m|e|e|e cur capt|e cur capt|e node capt|e node capt].
  - destruct r as [|k r']; [exact Pu|]. destruct (is_none (lkL c)); [|exact Pu].
    eapply Quiet; [reflexivity|reflexivity|]. destruct k; reflexivity.
  - destruct x as [e s|e s].
    + eapply Quiet; [reflexivity|reflexivity|reflexivity].
    + destruct (dmap c e).
      * eapply Quiet; [reflexivity|reflexivity|reflexivity].
      * eapply Logs; [flat; reflexivity|reflexivity|reflexivity|reflexivity|reflexivity].
  - destruct n.
    + eapply Quiet; [unfold draw; destruct (adds (sec_of x)); reflexivity|unfold draw; destruct (adds (sec_of x)); reflexivity|].
      cbn [pending_sec]. rewrite untag_tagged. reflexivity.
    + eapply Quiet; [unfold draw; destruct (adds (sec_of x)); reflexivity|unfold draw; destruct (adds (sec_of x)); reflexivity|].
      cbn [pending_sec]. rewrite untag_tagged. reflexivity.
  - eapply Quiet; [reflexivity|reflexivity|reflexivity].
  - destruct (needsM (sec_of x)).
    + destruct (is_none (lkM c (ev_of x))); [|exact Pu]. eapply Quiet; [reflexivity|reflexivity|reflexivity].
    + destruct (do_section_log c t x) as [L T]. eapply Logs; [unfold set_thr; cbn [dlog]; exact L|unfold set_thr; cbn [thr]; rewrite T; reflexivity|reflexivity|reflexivity|reflexivity].
  - destruct (do_section_log c t x) as [L T]. eapply Logs; [unfold set_thr; cbn [dlog]; exact L|unfold set_thr; cbn [thr]; rewrite T; reflexivity|reflexivity|reflexivity|reflexivity].
  - destruct m as [e|]; [eapply Quiet; [reflexivity|reflexivity|reflexivity]|]. destruct n; eapply Quiet; reflexivity.
  - destruct (dmap c e); eapply Quiet; reflexivity.
  - eapply Quiet; reflexivity.
  - destruct (is_none (lkM c e)); [|exact Pu]. eapply Quiet; reflexivity.
  - eapply Quiet; reflexivity.
  - eapply Quiet; reflexivity.
  - destruct node; eapply Quiet; reflexivity.
Qed.

Theorem po_run prog sched : forall c, PO prog c -> PO prog (dcrun c sched).
Proof. induction sched as [|t r IH]; intros c P; cbn [dcrun]; [exact P|]. apply IH. apply po_step. exact P. Qed.

(* EVERY SCHEDULE: logged, pending and future sections of a thread are its program's, in program order *)
Theorem dispatcher_sections_follow_program_order prog sched t :
  let c := dcrun (dinit prog) sched in
  logged_by t (dlog c) ++ pending_sec (fst (thr c t)) ++ secs_of (snd (thr c t)) = secs_of (prog t).
Proof. cbv zeta. apply (po_run prog sched (dinit prog) (po_init prog) t). Qed.

(* a thread that has finished has logged exactly one section per listener-management call, in the order of its program *)
Corollary finished_thread_logged_its_program prog sched t :
  let c := dcrun (dinit prog) sched in
  finished c t -> logged_by t (dlog c) = secs_of (prog t).
Proof.
  cbv zeta. intros F. generalize (dispatcher_sections_follow_program_order prog sched t). cbv zeta.
  unfold finished in F. rewrite F. cbn [fst snd pending_sec secs_of flat_map]. rewrite !app_nil_r. auto.
Qed.
