(* CLTravWrap.v — C19: an invocation (or enumeration) that is IN PROGRESS when the generation counter wraps.

   CLTrav.v proves a traversal correct under every interleaving of its own steps with other operations' critical
   sections — other threads', or (single-threaded) those of the callbacks it invokes, which is the same thing seen from
   the traversal.  Here one more event: TWrap, the overflow branch of getNextCounter (CLWrap.reset_group: every linked
   node's counter is rewritten to GenCL.wrap_rewrite_value).  The invariant TInv of CLTrav survives it, for the captured
   counter the traversal already holds.  Hence, for EVERY sequence of own steps, sections and wraps — any number of wraps,
   anywhere: the traversal visits no callback twice, and it visits every callback that was in the list when it started,
   passed the visit test then and is not removed meanwhile.  What the traversal may do in addition — visit callbacks added
   after it started, because their small post-wrap counters pass its old, large captured counter — is what the property
   allows for invocations in progress at the wrap; invocations that start afterwards capture a post-wrap counter and skip
   newly added callbacks again (CLWrap.post_wrap_all_visible, C02). *)
From Coq Require Import List Arith NArith ZArith Bool Lia.
From EV Require Import CLModel CLHeap CLOps CLRefine CLConcProofs CLTrav CLWrap.
From EV.gen Require GenCL.
Import ListNotations.
Local Open Scope nat_scope.

Inductive wev := WEv (e : tev) | WWrap.

(* liveness and links are what first_live looks at; the wrap keeps both *)
Lemma first_live_reset g ids c m :
  GInv g ids -> first_live (heap g) c m -> first_live (heap (reset_group g)) c m.
Proof.
  intros G F. destruct (wrap_reset_inv g ids G) as [G' [L [B A]]].
  induction F as [|j nd Hj Hl|j nd m Hj Hl Hw IH].
  - constructor.
  - assert (X := gi_live _ _ G j nd Hj Hl). eapply fl_live; [apply (B j nd X Hj)|apply rewrite_value_live].
  - assert (Hni : ~ In j ids).
    { intro X. destruct (lchain_in _ _ _ (gi_chain _ _ G) j X) as [nd0 [H0 H1]]. rewrite Hj in H0; inversion H0; subst; contradiction. }
    eapply fl_dead; [rewrite (A j Hni); exact Hj|exact Hl|exact IH].
Qed.

Lemma node_reset g ids j nd :
  GInv g ids -> nth_error (heap g) j = Some nd ->
  exists nd', nth_error (heap (reset_group g)) j = Some nd' /\ nxt nd' = nxt nd /\ cb nd' = cb nd /\
              (In j ids -> ctr nd' = GenCL.wrap_rewrite_value) /\ (~ In j ids -> ctr nd' = ctr nd).
Proof.
  intros G Hj. destruct (wrap_reset_inv g ids G) as [_ [_ [B A]]].
  destruct (in_dec Nat.eq_dec j ids) as [X|X].
  - exists (set_ctr GenCL.wrap_rewrite_value nd). split; [apply B; assumption|]. cbn [set_ctr nxt cb ctr].
    split; [reflexivity|]. split; [reflexivity|]. split; [reflexivity|contradiction].
  - exists nd. rewrite (A j X). split; [exact Hj|]. split; [reflexivity|]. split; [reflexivity|]. split; [contradiction|reflexivity].
Qed.

Section TravWrap.
  Variable capt : N.

  Definition wstep (st : tst) (e : wev) : tst :=
    match e with
    | WEv e => tstep capt st e
    | WWrap => mkT (reset_group (tg st)) (tids st) (tcur st) (tph st) (tvis st) (tgone st)
    end.

  Definition wrun (st : tst) (evs : list wev) : tst := fold_left wstep evs st.

  Definition wev_ok (e : wev) : Prop := match e with WEv e => ev_ok e | WWrap => True end.

  Lemma visit_cond_bounds c : GenCL.visit_cond c capt = true -> c <> GenCL.removed_marker /\ (c <= capt)%N.
  Proof.
    unfold GenCL.visit_cond. intros H. apply andb_true_iff in H. destruct H as [H1 H2].
    apply negb_true_iff in H1. apply N.eqb_neq in H1. apply N.leb_le in H2. auto.
  Qed.

  (* the wrap keeps the traversal's invariant *)
  Lemma wrap_inv ids0 st : TInv capt ids0 st -> TInv capt ids0 (wstep st WWrap).
  Proof.
    intros HI. pose proof HI as [G Hcur Hlt Hnd Hbeh Hcond Hseen Htodo]. cbn [wstep].
    destruct (wrap_reset_inv (tg st) (tids st) G) as [G' [L [B A]]].
    assert (FLback : forall m', first_live (heap (reset_group (tg st))) (tcur st) m' -> first_live (heap (tg st)) (tcur st) m').
    { intros m' F'. destruct (first_live_exists (tg st) (tids st) (tcur st) G Hcur) as [m F].
      rewrite (first_live_fun _ _ _ F' _ (first_live_reset _ _ _ _ G F)). exact F. }
    constructor; cbn [tg tids tcur tph tvis tgone].
    - exact G'.
    - intros n En. destruct (Hcur n En) as [nd Hn]. destruct (node_reset _ _ n nd G Hn) as [nd' [X _]]. eauto.
    - intros v Hv. rewrite L. apply Hlt; exact Hv.
    - exact Hnd.
    - intros m Hm v Hv. apply (Hbeh m (FLback m Hm) v Hv).
    - intros z Hz Hg. destruct (Hcond z Hz Hg) as [nd [Hn Hc]].
      destruct (node_reset _ _ z nd G Hn) as [nd' [X [_ [_ [C1 C2]]]]]. exists nd'. split; [exact X|].
      destruct (visit_cond_bounds _ Hc) as [Hne Hle].
      destruct (in_dec Nat.eq_dec z (tids st)) as [I|I].
      + rewrite (C1 I). unfold GenCL.visit_cond, GenCL.wrap_rewrite_value, GenCL.removed_marker in *.
        apply andb_true_iff. split; [reflexivity|]. apply N.leb_le. lia.
      + rewrite (C2 I). exact Hc.
    - exact Hseen.
    - intros m Hm z Hz Hg. apply (Htodo m (FLback m Hm) z Hz Hg).
  Qed.

  Lemma wstep_inv ids0 st e : TInv capt ids0 st -> wev_ok e -> TInv capt ids0 (wstep st e).
  Proof.
    intros H Hok. destruct e as [e|]; [apply tstep_inv; assumption|apply wrap_inv; exact H].
  Qed.

  Lemma wrun_inv ids0 evs : forall st, TInv capt ids0 st -> Forall wev_ok evs -> TInv capt ids0 (wrun st evs).
  Proof.
    induction evs as [|e r IH]; intros st H Hok; cbn [wrun fold_left]; [exact H|].
    inversion Hok; subst. apply IH; [apply wstep_inv; assumption|assumption].
  Qed.

  (* THE THEOREM: an invocation in progress across any number of wraps *)
  Theorem traversal_across_wraps g ids evs :
    GInv g ids ->
    (forall z, In z ids -> exists nd, nth_error (heap g) z = Some nd /\ GenCL.visit_cond (ctr nd) capt = true) ->
    Forall wev_ok evs ->
    let st := wrun (tinit g ids) evs in
    NoDup (tvis st) /\
    (tcur st = None -> forall z, In z ids -> ~ In z (tgone st) -> In z (tvis st)).
  Proof.
    intros G Hc Hok. cbv zeta.
    pose proof (wrun_inv ids evs _ (tinit_inv capt g ids G Hc) Hok) as [G' Hcur Hlt Hnd Hbeh Hcond Hseen Htodo].
    split; [exact Hnd|].
    intros En z Hz Hg. rewrite En in Htodo. destruct (Htodo None (fl_none _) z Hz Hg) as [X|X]; [destruct X|exact X].
  Qed.

  (* only callbacks that are in the list at that moment are visited: a removed callback stays removed, wrap or no wrap *)
  Lemma visits_only_members ids0 st :
    TInv capt ids0 st -> forall v, In v (tvis (wstep st (WEv TVisit))) -> In v (tvis st) \/ In v (tids st).
  Proof.
    intros HI v Hv. cbn [wstep tstep] in Hv. destruct (tph st); [left; exact Hv|].
    destruct (tcur st) as [n|]; [|left; exact Hv].
    destruct (nth_error (heap (tg st)) n) as [nd|] eqn:En; [|left; exact Hv]. cbn [tvis] in Hv.
    destruct (GenCL.visit_cond (ctr nd) capt) eqn:Ec; [|left; exact Hv].
    apply in_app_or in Hv. destruct Hv as [Hv|[<-|[]]]; [left; exact Hv|right].
    eapply gi_live; [exact (ti_g _ _ _ HI)|exact En|]. destruct (visit_cond_bounds _ Ec) as [X _]. exact X.
  Qed.
End TravWrap.

(* the removal of a callback is not undone by a wrap: a removed node keeps the removed marker *)
Lemma removed_stays_removed g ids j nd :
  GInv g ids -> nth_error (heap g) j = Some nd -> ctr nd = GenCL.removed_marker ->
  exists nd', nth_error (heap (reset_group g)) j = Some nd' /\ ctr nd' = GenCL.removed_marker.
Proof.
  intros G Hj Hc. destruct (node_reset g ids j nd G Hj) as [nd' [X [_ [_ [_ C2]]]]]. exists nd'. split; [exact X|].
  rewrite C2; [exact Hc|]. intro I. destruct (lchain_in _ _ _ (gi_chain _ _ G) j I) as [nd0 [H0 H1]].
  rewrite Hj in H0. inversion H0; subst. apply H1. exact Hc.
Qed.

(* an invocation in progress at the wrap: it started on the list [node 0; node 1] (counters 10, 11, captured 11), looked at
   node 0; then callback 3 was appended (node 2, counter 12) and the counter wrapped (every linked node's counter := 1).
   It goes on to visit node 1 and, additionally, node 2 — which it would have skipped without the wrap *)
Definition wrap_g2 : group := fst (run_secs empty_group [SBack 1 10%N; SBack 2 11%N]).
Example in_progress_at_the_wrap_example :
  let evs := [WEv TVisit; WEv TAdvance; WEv (TOther (SBack 3 12%N)); WWrap; WEv TVisit; WEv TAdvance; WEv TVisit; WEv TAdvance] in
  let evs' := [WEv TVisit; WEv TAdvance; WEv (TOther (SBack 3 12%N)); WEv TVisit; WEv TAdvance; WEv TVisit; WEv TAdvance] in
  tvis (wrun 11%N (tinit wrap_g2 [0; 1]) evs) = [0; 1; 2] /\ tcur (wrun 11%N (tinit wrap_g2 [0; 1]) evs) = None /\
  tvis (wrun 11%N (tinit wrap_g2 [0; 1]) evs') = [0; 1] /\
  map ctr (heap (tg (wrun 11%N (tinit wrap_g2 [0; 1]) evs))) = [1%N; 1%N; 1%N].
Proof. vm_compute. repeat split. Qed.
