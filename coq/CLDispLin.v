(* CLDispLin.v — C03: linearizability of the dispatcher machine's listener-management calls, in one statement (assembled from
   CLDispConc.dispatcher_machine_linearizes, CLDispOrder.finished_thread_logged_its_program and CLDispTime's two theorems). *)
From Coq Require Import List Arith NArith Bool.
From EV Require Import CLModel CLSec CLDisp CLDispConc CLDispOrder CLDispTime.
Import ListNotations.

Theorem dispatcher_machine_is_linearizable :
  forall prog sched,
    (forall t, Forall call_wf (prog t)) ->
    let c := dcrun (dinit prog) sched in
    let seq := map sec3 (dlog c) in
    let G := snd (trun_g (dinit prog) tg0 sched) in
    ((forall e, dget (dmap c) e = dget (fst (drun d0 seq)) e) /\
     map res3 (dlog c) = snd (drun d0 seq)) /\
    (forall t, finished c t -> logged_by t (dlog c) = secs_of (prog t)) /\
    (Forall (call_ok (dlog c)) (tcalls G) /\
     forall t1 b1 p1 e1 t2 b2 p2 e2,
       In (t1, b1, p1, e1) (tcalls G) -> In (t2, b2, p2, e2) (tcalls G) -> e1 <= b2 -> p1 < p2).
Proof.
  intros prog sched Hw c seq G.
  destruct (dispatcher_machine_linearizes prog sched Hw) as (A & B & _ & _).
  split; [split; [exact A|exact B]|]. split.
  - intros t. exact (finished_thread_logged_its_program prog sched t).
  - split; [exact (dispatcher_calls_take_effect_between_their_ends prog sched)|].
    intros t1 b1 p1 e1 t2 b2 p2 e2. exact (dispatcher_real_time_order_is_respected prog sched t1 b1 p1 e1 t2 b2 p2 e2).
Qed.
