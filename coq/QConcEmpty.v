(* QConcEmpty.v — C11 under threads: emptyQueue() never answers true while an event whose enqueue
   completed before the call began is still pending or in dispatch — for EVERY set of thread programs
   and EVERY schedule in which no processIf / processUntil has put events back (the property's
   quantifier: observers against enqueue, process, processOne, takeEvent, clearEvents).

   emptyQueue() reads the list first and the in-dispatch counter second.  Ghosts in QConc: g_settled
   (events put into queueList so far), lsnap (g_settled when the emptyQueue call began), lseen (its list
   test found queueList empty), lheld (processing guards a call holds: +1 at the increment of
   queueEmptyCounter, -1 at the decrement), ltaking (takeEvent / clearEvents hold the events they
   removed from the queue), g_putbacks.

   Invariants over all reachable configurations (EInv):
     E1  queueEmptyCounter = sum of lheld over the threads;
     E2  a call that has events in its hands holds a guard, or is a takeEvent / clearEvents;
     E3  a settled event was enqueued and is not (any more) the event some enqueue is still bringing in;
     E4  snapshots are made of settled events;
     E5  without put-backs: once an observer has seen the list empty, no event of its snapshot is in the list.
   Theorem emptyqueue_true_means_consumed: whenever an observer that has seen the list empty finds the
   counter at 0 — the configuration in which its second read returns 0 and emptyQueue() answers true —
   every event of its snapshot has been dispatched, taken or cleared, or is in the hands of a
   takeEvent / clearEvents call that removed it from the queue. *)
From Coq Require Import List Arith NArith ZArith Bool Lia Permutation.
From EV Require Import QConc QConcInv.
From EV.gen Require GenQ GenQConc.
Import ListNotations.
Local Open Scope nat_scope.

Definition LI (lo : qlocals) : Prop := ltemp lo = [] \/ ltaking lo = true \/ 1 <= lheld lo.
Definition GEnd (lo : qlocals) : Prop := lheld lo = 0.

(* what one piece of local code does to the ghosts *)
Record gstep (sh : qshared) (lo : qlocals) (sh' : qshared) (lo' : qlocals) : Prop := mkGS {
  gs_held : lheld lo' = lheld lo;
  gs_cec : cec sh' = cec sh;
  gs_pb : g_putbacks sh <= g_putbacks sh';
  gs_enq : incl (g_enq sh) (g_enq sh');
  gs_settled : g_settled sh' = g_settled sh \/
               (exists e, g_settled sh' = e :: g_settled sh /\ lev lo = Some e /\ lev lo' = None);
  gs_lev : forall e, lev lo' = Some e -> lev lo = Some e \/ (ceid e = nextid sh /\ In e (g_enq sh'));
  gs_ids : nextid sh <= nextid sh' /\
           forall e, In e (g_enq sh') -> In e (g_enq sh) \/ (ceid e = nextid sh /\ nextid sh' = S (nextid sh));
  gs_snap : lsnap lo' = lsnap lo \/ incl (lsnap lo') (g_settled sh');
  gs_seen : lseen lo' = true -> ql sh' = [] \/ (lseen lo = true /\ lsnap lo' = lsnap lo /\ incl (ql sh') (ql sh));
  gs_back : incl (ql sh') (ql sh ++ levl lo) \/ g_putbacks sh' = S (g_putbacks sh)
}.

Definition gsame (lo lo' : qlocals) : Prop :=
  ltemp lo' = ltemp lo /\ lev lo' = lev lo /\ lheld lo' = lheld lo /\ ltaking lo' = ltaking lo /\ lsnap lo' = lsnap lo.

Fixpoint wgi (i : instr) (Q : qlocals -> Prop) (lo : qlocals) {struct i} : Prop :=
  match i with
  | ILocal _ f => forall t sh, gstep sh lo (fst (f t sh lo)) (snd (f t sh lo)) /\ LI (snd (f t sh lo)) /\ Q (snd (f t sh lo))
  | IIf _ c a b =>
      forall sh,
        (c sh lo = true ->
         (fix wl (l : list instr) (Q : qlocals -> Prop) (lo : qlocals) {struct l} : Prop :=
            match l with [] => Q lo | j :: r => wgi j (wl r Q) lo end) a Q lo) /\
        (c sh lo = false ->
         (fix wl (l : list instr) (Q : qlocals -> Prop) (lo : qlocals) {struct l} : Prop :=
            match l with [] => Q lo | j :: r => wgi j (wl r Q) lo end) b Q lo)
  | IALoad _ => forall v, Q (lo_reg lo v)
  | ICvWait _ => forall b, Q (lo_to lo b)
  | IWaitLoop _ => forall lo', gsame lo lo' -> Q lo'
  | IAInc EC => Q (lo_held lo (S (lheld lo)))
  | IADec EC => 1 <= lheld lo /\ LI (lo_held lo (pred (lheld lo))) /\ Q (lo_held lo (pred (lheld lo)))
  | _ => Q lo
  end.

Fixpoint wgl (l : list instr) (Q : qlocals -> Prop) (lo : qlocals) {struct l} : Prop :=
  match l with [] => Q lo | j :: r => wgi j (wgl r Q) lo end.

Lemma wgi_if r c a b Q lo :
  wgi (IIf r c a b) Q lo = (forall sh, (c sh lo = true -> wgl a Q lo) /\ (c sh lo = false -> wgl b Q lo)).
Proof. reflexivity. Qed.

Definition gmono_at (i : instr) : Prop :=
  forall (Q Q' : qlocals -> Prop) lo, (forall x, Q x -> Q' x) -> wgi i Q lo -> wgi i Q' lo.

Lemma wgl_mono_F l : Forall gmono_at l ->
  forall (Q Q' : qlocals -> Prop) lo, (forall x, Q x -> Q' x) -> wgl l Q lo -> wgl l Q' lo.
Proof.
  induction 1 as [|j r Hj _ IH]; intros Q Q' lo HQ H; cbn [wgl] in *.
  - apply HQ; exact H.
  - eapply Hj; [|exact H]. intros x Hx. eapply IH; eauto.
Qed.

Lemma wgi_mono i : gmono_at i.
Proof.
  induction i as [i Hn | r c a b Ha Hb] using instr_ind'.
  - intros Q Q' lo HQ H. destruct i as [m|m|a|a|a| |timed|tt f|r c x y|timed| | | |rr]; try destruct a;
      try (cbn [wgi] in *; solve [auto]); try contradiction.
    all: cbn [wgi] in *.
    all: try (destruct H as [H1 [H2 H3]]; split; [exact H1 | split; [exact H2 | apply HQ; exact H3]]).
    all: try (intros t sh; destruct (H t sh) as [H1 [H2 H3]]; split; [exact H1 | split; [exact H2 | apply HQ; exact H3]]).
  - intros Q Q' lo HQ H. rewrite wgi_if in *. intros sh. destruct (H sh) as [H1 H2]. split; intros Hc.
    + eapply wgl_mono_F; eauto.
    + eapply wgl_mono_F; eauto.
Qed.

Lemma wgl_mono l : forall (Q Q' : qlocals -> Prop) lo, (forall x, Q x -> Q' x) -> wgl l Q lo -> wgl l Q' lo.
Proof. apply wgl_mono_F. apply Forall_forall. intros i _. apply wgi_mono. Qed.

Lemma wgl_app a : forall b Q lo, wgl (a ++ b) Q lo <-> wgl a (wgl b Q) lo.
Proof.
  induction a as [|j r IH]; intros b Q lo; cbn [wgl app]; [tauto|].
  split; intros H; (eapply wgi_mono; [|exact H]); intros x Hx; apply IH; exact Hx.
Qed.

(* ---------- symbolic execution of the transcribed calls ---------- *)
Lemma dispatch_all_ghost t es : forall sh,
  g_settled (dispatch_all t sh es) = g_settled sh /\ g_putbacks (dispatch_all t sh es) = g_putbacks sh.
Proof.
  unfold dispatch_all. induction es as [|e r IH]; intros sh; cbn [fold_left]; [split; reflexivity|].
  destruct (IH (sh_disp sh t e)) as [A B]. rewrite A, B. split; reflexivity.
Qed.

Lemma take_all_ghost t es : forall sh,
  g_settled (take_all t sh es) = g_settled sh /\ g_putbacks (take_all t sh es) = g_putbacks sh.
Proof.
  unfold take_all. induction es as [|e r IH]; intros sh; cbn [fold_left]; [split; reflexivity|].
  destruct (IH (sh_take sh t e)) as [A B]. rewrite A, B. split; reflexivity.
Qed.

Ltac g_fields :=
  try (match goal with |- context[dispatch_all ?t ?sh ?es] =>
         let H := fresh "D" in pose proof (dispatch_all_fields t es sh) as H;
         destruct H as (?D1 & ?D2 & ?D3 & ?D4 & ?D5 & ?D6 & ?D7 & ?D8 & ?D9 & ?D10);
         let G := fresh "G" in pose proof (dispatch_all_ghost t es sh) as G; destruct G as (?G1 & ?G2) end);
  try (match goal with |- context[fold_left (fun s e => sh_take s ?t e) ?es ?sh] =>
         change (fold_left (fun s e => sh_take s t e) es sh) with (take_all t sh es);
         let H := fresh "T" in pose proof (take_all_fields t es sh) as H;
         destruct H as (?T1 & ?T2 & ?T3 & ?T4 & ?T5 & ?T6 & ?T7 & ?T8 & ?T9 & ?T10);
         let G := fresh "G" in pose proof (take_all_ghost t es sh) as G; destruct G as (?G1 & ?G2) end).

Ltac g_rew :=
  repeat match goal with
         | H : ?f (dispatch_all ?t ?sh ?es) = _ |- context[?f (dispatch_all ?t ?sh ?es)] => rewrite H
         | H : ?f (take_all ?t ?sh ?es) = _ |- context[?f (take_all ?t ?sh ?es)] => rewrite H
         end.

Ltac kill_empty :=
  repeat match goal with
         | H : nonempty ?l = false |- _ => destruct l; [clear H | discriminate H]
         | H : negb (nonempty ?l) = true |- _ => destruct l; [clear H | discriminate H]
         end.

Ltac incl_tac :=
  first [ apply incl_refl | apply incl_nil_l | apply incl_appl; apply incl_refl | apply incl_tl; apply incl_refl
        | (rewrite ?app_nil_r; let x := fresh "x" in let Hx := fresh "Hx" in intros x Hx;
           repeat (cbn [app In] in *; rewrite ?in_app_iff in * ); tauto) ].

Ltac li_tac :=
  unfold LI; lo_simpl; kill_empty; lo_simpl;
  first [ left; reflexivity | right; left; reflexivity | right; right; lia | left; assumption | tauto
        | match goal with A : gsame _ ?l |- context[ltemp ?l] =>
            let A1 := fresh in let A3 := fresh in let A4 := fresh in
            destruct A as (A1 & _ & A3 & A4 & _); lo_simpl; rewrite ?A1, ?A3, ?A4;
            first [left; reflexivity | right; left; reflexivity | right; right; lia] end ].

Ltac gs_core :=
  g_fields;
  split;
  [ lo_simpl; reflexivity
  | sh_simpl; g_rew; reflexivity
  | sh_simpl; g_rew; lia
  | sh_simpl; g_rew; incl_tac
  | sh_simpl; lo_simpl; g_rew; first [left; reflexivity | right; eexists; repeat split; reflexivity]
  | lo_simpl; sh_simpl; let e := fresh "e" in let H := fresh "H" in intros e H;
    first [discriminate H | left; exact H | right; injection H as <-; split; [reflexivity | left; reflexivity] | left; congruence]
  | sh_simpl; g_rew; split; [lia | let e := fresh "e" in let H := fresh "H" in intros e H;
                                   first [left; exact H | destruct H as [<-|H]; [right; split; reflexivity | left; exact H]]]
  | lo_simpl; sh_simpl; g_rew; first [left; reflexivity | right; incl_tac]
  | lo_simpl; sh_simpl; g_rew; let H := fresh "HS" in intros H;
    first [ discriminate H
          | left; kill_empty; reflexivity
          | right; split; [exact H | split; [reflexivity | incl_tac]]
          | right; split; [congruence | split; [reflexivity | incl_tac]] ]
  | unfold levl; sh_simpl; lo_simpl; g_rew;
    repeat match goal with H : ql ?s = _ :: _ |- _ => rewrite H end;
    first [left; incl_tac | right; reflexivity] ].

Ltac gs_solve :=
  lo_simpl; try (match goal with |- gstep _ _ (if ?c then _ else _) _ => destruct c end); gs_core.

Ltac wg1 :=
  cbv beta;
  lazymatch goal with
  | |- wgl [] ?Q ?lo => change (Q lo)
  | |- wgl (?j :: ?r) ?Q ?lo => change (wgi j (wgl r Q) lo)
  | |- wgl (_ ++ _) _ _ => apply wgl_app
  | |- wgi (IIf _ _ _ _) _ _ => rewrite wgi_if; let sh := fresh "sh" in let Hc := fresh "Hc" in intros sh; split; intros Hc
  | |- wgi (ILocal _ ?f) ?Q ?lo =>
      change (forall t sh, gstep sh lo (fst (f t sh lo)) (snd (f t sh lo)) /\ LI (snd (f t sh lo)) /\ Q (snd (f t sh lo)));
      let t := fresh "t" in let sh := fresh "sh" in intros t sh; cbv beta; lo_simpl;
      repeat (match goal with
              | |- context[fst (match ?x with _ => _ end)] => let E := fresh "E" in destruct x eqn:E; lo_simpl
              end);
      (split; [|split])
  | |- wgi (IALoad _) ?Q ?lo => change (forall v, Q (lo_reg lo v)); let v := fresh "v" in intros v
  | |- wgi (IAInc EC) ?Q ?lo => change (Q (lo_held lo (S (lheld lo))))
  | |- wgi (IADec EC) ?Q ?lo => change (1 <= lheld lo /\ LI (lo_held lo (pred (lheld lo))) /\ Q (lo_held lo (pred (lheld lo)))); (split; [|split])
  | |- wgi (ICvWait _) ?Q ?lo => change (forall b, Q (lo_to lo b)); let b := fresh "b" in intros b
  | |- wgi (IWaitLoop _) ?Q ?lo =>
      change (forall lo', gsame lo lo' -> Q lo');
      let lo' := fresh "lo" in let A := fresh "A" in intros lo' A
  | |- wgi ?i ?Q ?lo => change (Q lo)
  end.

(* code that leaves the ghosts of the thread alone (except lseen) *)
Definition gneutral (code : list instr) : Prop :=
  forall (Q : qlocals -> Prop) lo, LI lo -> (forall lo', gsame lo lo' -> Q lo') -> wgl code Q lo.

Lemma gsame_refl lo : gsame lo lo.
Proof. repeat split. Qed.
Lemma gsame_trans a b c : gsame a b -> gsame b c -> gsame a c.
Proof. intros (A1 & A2 & A3 & A4 & A5) (B1 & B2 & B3 & B4 & B5). repeat split; congruence. Qed.
Lemma gsame_LI a b : gsame a b -> LI a -> LI b.
Proof. intros (A1 & A2 & A3 & A4 & A5) H. unfold LI in *. rewrite A1, A3, A4. exact H. Qed.

Lemma gneutral_app a b : gneutral a -> gneutral b -> gneutral (a ++ b).
Proof.
  intros Ha Hb Q lo HL H. apply wgl_app. apply Ha; [exact HL|]. intros lo1 A1. apply Hb; [eapply gsame_LI; eauto|].
  intros lo2 A2. apply H. eapply gsame_trans; eauto.
Qed.

Ltac gsame_tac := repeat split; lo_simpl; reflexivity.

Lemma gneutral_eval_empty : gneutral eval_empty.
Proof.
  intros Q lo HL H. unfold eval_empty. cbv beta iota delta [GenQ.empty_queue_reads].
  repeat wg1; try gs_solve; try (unfold LI in *; lo_simpl; exact HL); try (apply H; gsame_tac).
Qed.

Lemma gneutral_eval_can_notify : gneutral eval_can_notify.
Proof.
  intros Q lo HL H. unfold eval_can_notify.
  repeat wg1; try gs_solve; try (unfold LI in *; lo_simpl; exact HL); try (apply H; gsame_tac).
Qed.

Lemma gneutral_eval_can_process : gneutral eval_can_process.
Proof.
  unfold eval_can_process. apply gneutral_app; [apply gneutral_eval_empty|].
  intros Q lo HL H. repeat wg1; try gs_solve; try (unfold LI in *; lo_simpl; exact HL); try (apply H; gsame_tac).
  apply gneutral_eval_can_notify; assumption.
Qed.

Lemma gneutral_wait_loop timed : gneutral (wait_loop timed).
Proof.
  unfold wait_loop. apply gneutral_app; [apply gneutral_eval_can_process|].
  intros Q lo HL H. repeat wg1; try gs_solve; try (unfold LI in *; lo_simpl; exact HL); try (apply H; gsame_tac).
  all: try (apply H; eapply gsame_trans; [|exact A]; gsame_tac).
  apply gneutral_eval_can_process; [unfold LI in *; lo_simpl; exact HL|].
  intros lo1 A1. repeat wg1; try gs_solve.
  - eapply gsame_LI; [|exact HL]. destruct A1 as (X1 & X2 & X3 & X4 & X5). repeat split; lo_simpl; assumption.
  - apply H. destruct A1 as (X1 & X2 & X3 & X4 & X5). repeat split; lo_simpl; assumption.
Qed.

Ltac wg2 :=
  first [ wg1
        | lazymatch goal with
          | |- wgl eval_can_process _ _ => apply gneutral_eval_can_process
          | |- wgl eval_empty _ _ => apply gneutral_eval_empty
          | |- wgl eval_can_notify _ _ => apply gneutral_eval_can_notify
          end; [li_tac | let lo' := fresh "lo" in let A := fresh "A" in intros lo' A] ].

Ltac gend :=
  repeat match goal with A : gsame _ _ |- _ => let A3 := fresh "A3" in destruct A as (_ & _ & A3 & _ & _) end;
  unfold GEnd in *; lo_simpl; first [reflexivity | congruence].

Lemma all_calls_wg c : wgl (code_of c) GEnd lo0.
Proof.
  destruct c; cbn [code_of]; unfold processif_code, processuntil_code, putback, notify_code, dqn_ghost; cbv beta iota delta [GenQConc.dqn_dtor_decrement_under_mutex GenQConc.processif_putback_notifies GenQConc.processuntil_putback_notifies].
  all: repeat wg2.
  all: try gs_solve.
  all: try li_tac.
  all: try gend.
  all: try (lo_simpl; lia).
  all: try (repeat match goal with A : gsame _ _ |- _ => let A3 := fresh "A3" in destruct A as (_ & _ & A3 & _ & _) end;
            unfold GEnd in *; lo_simpl; lia).
  all: try (repeat match goal with A : gsame _ _ |- _ =>
                     let A1 := fresh "A1" in let A3 := fresh "A3" in let A4 := fresh "A4" in destruct A as (A1 & _ & A3 & A4 & _) end;
            unfold LI; lo_simpl;
            first [left; congruence | right; left; congruence | right; right; lia]).
Qed.

(* ---------- the ghost invariant over the shared state and all threads' locals ---------- *)
Definition heldsum (los : list qlocals) : Z := fold_right (fun l z => (Z.of_nat (lheld l) + z)%Z) 0%Z los.

Record GI (sh : qshared) (los : list qlocals) : Prop := mkGI {
  gi_sum : heldsum los = cec sh;
  gi_li : Forall LI los;
  gi_ids : forall e, In e (g_enq sh) -> ceid e < nextid sh;
  gi_levin : Forall (fun l => forall e, lev l = Some e -> In e (g_enq sh)) los;
  gi_levd : NoDup (flat_map levl los);
  gi_set : forall e, In e (g_settled sh) -> In e (g_enq sh) /\ Forall (fun l => lev l <> Some e) los;
  gi_snap : Forall (fun l => incl (lsnap l) (g_settled sh)) los;
  gi_seen : g_putbacks sh = 0 -> Forall (fun l => lseen l = true -> forall e, In e (lsnap l) -> ~ In e (ql sh)) los
}.

Lemma heldsum_app a b : heldsum (a ++ b) = (heldsum a + heldsum b)%Z.
Proof.
  induction a as [|x a IH]; [unfold heldsum; cbn [fold_right app]; lia|].
  change (heldsum ((x :: a) ++ b)) with (Z.of_nat (lheld x) + heldsum (a ++ b))%Z.
  change (heldsum (x :: a)) with (Z.of_nat (lheld x) + heldsum a)%Z. rewrite IH. lia.
Qed.

Lemma heldsum_cons x r : heldsum (x :: r) = (Z.of_nat (lheld x) + heldsum r)%Z.
Proof. reflexivity. Qed.

Lemma Forall_mid {A} (P : A -> Prop) a x b : Forall P (a ++ x :: b) <-> Forall P a /\ P x /\ Forall P b.
Proof.
  rewrite Forall_app. split.
  - intros [H1 H2]. inversion H2; subst. auto.
  - intros [H1 [H2 H3]]. split; [exact H1|constructor; assumption].
Qed.

Lemma levl_in l e : In e (levl l) <-> lev l = Some e.
Proof. unfold levl. destruct (lev l) as [x|]; cbn [In]; split; intros H; try tauto; try discriminate.
  - destruct H as [<-|[]]. reflexivity.
  - injection H as <-. left; reflexivity.
Qed.

Lemma in_flat_levl e ls : In e (flat_map levl ls) <-> exists l, In l ls /\ lev l = Some e.
Proof.
  rewrite in_flat_map. split; intros (l & A & B); exists l; (split; [exact A|]); apply levl_in; exact B.
Qed.

Lemma NoDup_insert_middle {A} (a b : list A) x : NoDup (a ++ b) -> ~ In x (a ++ b) -> NoDup (a ++ x :: b).
Proof.
  intros N H. apply (Permutation_NoDup (l := x :: a ++ b)); [apply Permutation_middle|]. constructor; assumption.
Qed.

(* one piece of local code of the thread in the middle *)
Lemma gstep_GI sh a lo b sh' lo' :
  GI sh (a ++ lo :: b) -> gstep sh lo sh' lo' -> LI lo' -> GI sh' (a ++ lo' :: b).
Proof.
  intros [Hsum Hli Hids Hlin Hld Hset Hsnap Hseen] [Gh Gc Gp Ge Gs Gl Gi Gn Gse Gb] HL.
  apply Forall_mid in Hli. destruct Hli as (La & Ll & Lb).
  apply Forall_mid in Hlin. destruct Hlin as (Ia & Il & Ib).
  apply Forall_mid in Hsnap. destruct Hsnap as (Sa & Sl & Sb).
  destruct Gi as [Gi1 Gi2].
  rewrite flat_map_app in Hld. cbn [flat_map] in Hld.
  assert (Hsub : incl (g_settled sh) (g_settled sh')).
  { destruct Gs as [->|(e & -> & _)]; [apply incl_refl|apply incl_tl; apply incl_refl]. }
  assert (Hold : forall l e, In l (a ++ b) -> lev l = Some e -> In e (g_enq sh)).
  { intros l e Hin He. apply in_app_or in Hin. destruct Hin as [Hin|Hin].
    - apply (proj1 (Forall_forall _ _) Ia l Hin e He).
    - apply (proj1 (Forall_forall _ _) Ib l Hin e He). }
  constructor.
  - rewrite heldsum_app, heldsum_cons in *. rewrite Gh, Gc. exact Hsum.
  - apply Forall_mid. auto.
  - intros e He. destruct (Gi2 e He) as [X|[X1 X2]]; [specialize (Hids e X); lia|lia].
  - apply Forall_mid. repeat split.
    + eapply Forall_impl; [|exact Ia]. intros l H e He. apply Ge. apply H; exact He.
    + intros e He. destruct (Gl e He) as [X|[_ X]]; [apply Ge; apply Il; exact X|exact X].
    + eapply Forall_impl; [|exact Ib]. intros l H e He. apply Ge. apply H; exact He.
  - rewrite flat_map_app. cbn [flat_map].
    unfold levl at 2. destruct (lev lo') as [e|] eqn:E.
    + destruct (Gl e eq_refl) as [X|[X _]].
      * unfold levl in Hld at 2. rewrite X in Hld. exact Hld.
      * apply NoDup_insert_middle; [eapply NoDup_drop_middle; exact Hld|].
        intros Hin. assert (In e (g_enq sh)).
        { apply in_app_or in Hin. destruct Hin as [Hin|Hin]; apply in_flat_levl in Hin; destruct Hin as (l & L1 & L2);
            apply (Hold l e); auto; apply in_or_app; auto. }
        specialize (Hids e H). lia.
    + cbn [app]. eapply NoDup_drop_middle; exact Hld.
  - intros e He.
    assert (Hcase : In e (g_settled sh) \/ (lev lo = Some e /\ lev lo' = None)).
    { destruct Gs as [X|(e0 & X & Y & Z)]; rewrite X in He; [left; exact He|].
      destruct He as [<-|He]; [right; auto|left; exact He]. }
    destruct Hcase as [Hs|[Hl1 Hl2]].
    + destruct (Hset e Hs) as [Hen Hfa]. apply Forall_mid in Hfa. destruct Hfa as (Fa & Fl & Fb).
      split; [apply Ge; exact Hen|]. apply Forall_mid. repeat split; auto.
      intros X. destruct (Gl e X) as [Y|[Y _]]; [contradiction|]. specialize (Hids e Hen). lia.
    + split; [apply Ge; apply Il; exact Hl1|]. apply Forall_mid.
      assert (Hin : In e (levl lo)) by (apply levl_in; exact Hl1).
      assert (Hna : ~ In e (flat_map levl a) /\ ~ In e (flat_map levl b)).
      { unfold levl in Hld at 2. rewrite Hl1 in Hld. apply NoDup_remove_2 in Hld. split; intro X; apply Hld; apply in_or_app; auto. }
      destruct Hna as [Na Nb]. repeat split.
      * apply Forall_forall. intros l Hl X. apply Na. apply in_flat_levl. eauto.
      * rewrite Hl2. discriminate.
      * apply Forall_forall. intros l Hl X. apply Nb. apply in_flat_levl. eauto.
  - apply Forall_mid. repeat split.
    + eapply Forall_impl; [|exact Sa]. intros l H. exact (incl_tran H Hsub).
    + destruct Gn as [X|X]; [rewrite X; exact (incl_tran Sl Hsub)|exact X].
    + eapply Forall_impl; [|exact Sb]. intros l H. exact (incl_tran H Hsub).
  - intros P0. assert (P1 : g_putbacks sh = 0) by lia.
    specialize (Hseen P1). apply Forall_mid in Hseen. destruct Hseen as (Fa & Fl & Fb).
    destruct Gb as [Gb|Gb]; [|lia].
    assert (Hoth : forall l, incl (lsnap l) (g_settled sh) -> (lseen l = true -> forall e, In e (lsnap l) -> ~ In e (ql sh)) ->
                             lseen l = true -> forall e, In e (lsnap l) -> ~ In e (ql sh')).
    { intros l Hs Hf Hl e He Hq. apply Gb in Hq. apply in_app_or in Hq. destruct Hq as [Hq|Hq]; [exact (Hf Hl e He Hq)|].
      apply levl_in in Hq. destruct (Hset e (Hs e He)) as [_ Hfa]. apply Forall_mid in Hfa. destruct Hfa as (_ & X & _). contradiction. }
    apply Forall_mid. repeat split.
    + apply Forall_forall. intros l Hl. apply Hoth; [exact (proj1 (Forall_forall _ _) Sa l Hl)|exact (proj1 (Forall_forall _ _) Fa l Hl)].
    + intros Hs e He. destruct (Gse Hs) as [X|(X1 & X2 & X3)]; [rewrite X; intros []|].
      rewrite X2 in He. intros Hq. apply (Fl X1 e He). apply X3. exact Hq.
    + apply Forall_forall. intros l Hl. apply Hoth; [exact (proj1 (Forall_forall _ _) Sb l Hl)|exact (proj1 (Forall_forall _ _) Fb l Hl)].
Qed.

(* ---------- soundness with respect to the scheduler semantics ---------- *)
Definition th_wg (th : thread) : Prop :=
  match status th with
  | TFinished => True
  | TParked _ => forall b, wgl (code th) GEnd (lo_to (lo th) b)
  | _ => wgl (code th) GEnd (lo th)
  end.

Definition EInv (cfg : config) : Prop := GI (shs cfg) (map lo (ths cfg)) /\ Forall th_wg (ths cfg).

(* the ghost invariant looks at these parts of the shared state only *)
Definition gi_eq (sh sh' : qshared) : Prop :=
  cec sh' = cec sh /\ nextid sh' = nextid sh /\ g_enq sh' = g_enq sh /\ g_settled sh' = g_settled sh /\
  g_putbacks sh' = g_putbacks sh /\ ql sh' = ql sh.

Lemma GI_eq sh sh' los : gi_eq sh sh' -> GI sh los -> GI sh' los.
Proof.
  intros (E1 & E2 & E3 & E4 & E5 & E6) [A B C D E F G H].
  constructor; rewrite ?E1, ?E2, ?E3, ?E4, ?E5, ?E6; auto.
Qed.

(* and at these parts of a thread's locals *)
Definition lo_geq (l l' : qlocals) : Prop :=
  lheld l' = lheld l /\ ltemp l' = ltemp l /\ ltaking l' = ltaking l /\ lev l' = lev l /\ lsnap l' = lsnap l /\ lseen l' = lseen l.

Lemma GI_lo sh a l l' b : lo_geq l l' -> GI sh (a ++ l :: b) -> GI sh (a ++ l' :: b).
Proof.
  intros (E1 & E2 & E3 & E4 & E5 & E6) [A B C D E F G H].
  apply Forall_mid in B. destruct B as (B1 & B2 & B3).
  apply Forall_mid in D. destruct D as (D1 & D2 & D3).
  apply Forall_mid in G. destruct G as (G1 & G2 & G3).
  constructor.
  - rewrite heldsum_app, heldsum_cons in *. rewrite E1. exact A.
  - apply Forall_mid. repeat split; auto. unfold LI in *. rewrite E1, E2, E3. exact B2.
  - exact C.
  - apply Forall_mid. repeat split; auto. rewrite E4. exact D2.
  - rewrite flat_map_app in *. cbn [flat_map] in *. unfold levl at 2. rewrite E4. exact E.
  - intros e He. destruct (F e He) as [F1 F2]. split; [exact F1|]. apply Forall_mid in F2. destruct F2 as (X1 & X2 & X3).
    apply Forall_mid. repeat split; auto. rewrite E4. exact X2.
  - apply Forall_mid. repeat split; auto. rewrite E5. exact G2.
  - intros P. specialize (H P). apply Forall_mid in H. destruct H as (H1 & H2 & H3).
    apply Forall_mid. repeat split; auto. rewrite E5, E6. exact H2.
Qed.

Lemma lo_geq_reg l v : lo_geq l (lo_reg l v).
Proof. destruct l; repeat split. Qed.
Lemma lo_geq_to l b : lo_geq l (lo_to l b).
Proof. destruct l; repeat split. Qed.
Lemma lo_geq_refl l : lo_geq l l.
Proof. repeat split. Qed.

(* a call is over: its locals are dropped *)
Lemma GI_reset sh a l b : lheld l = 0 -> GI sh (a ++ l :: b) -> GI sh (a ++ lo0 :: b).
Proof.
  intros H0 [A B C D E F G H].
  apply Forall_mid in B. destruct B as (B1 & B2 & B3).
  apply Forall_mid in D. destruct D as (D1 & D2 & D3).
  apply Forall_mid in G. destruct G as (G1 & G2 & G3).
  constructor.
  - rewrite heldsum_app, heldsum_cons in *. rewrite H0 in A. exact A.
  - apply Forall_mid. repeat split; auto; try (left; reflexivity).
  - exact C.
  - apply Forall_mid. repeat split; auto; try (intros e X; discriminate X).
  - rewrite flat_map_app in *. cbn [flat_map] in *. cbn [levl lev lo0 app]. eapply NoDup_drop_middle; exact E.
  - intros e He. destruct (F e He) as [F1 F2]. split; [exact F1|]. apply Forall_mid in F2. destruct F2 as (X1 & X2 & X3).
    apply Forall_mid. repeat split; auto; try discriminate.
  - apply Forall_mid. repeat split; auto; try (intros e []).
  - intros P. specialize (H P). apply Forall_mid in H. destruct H as (H1 & H2 & H3).
    apply Forall_mid. repeat split; auto; try (intros X; discriminate X).
Qed.

Lemma advance_g fuel : forall t sh cd cl l a b,
  GI sh (a ++ l :: b) -> wgl cd GEnd l ->
  GI (fst (advance fuel t sh (mkTh cd cl l TRun))) (a ++ lo (snd (advance fuel t sh (mkTh cd cl l TRun))) :: b) /\
  th_wg (snd (advance fuel t sh (mkTh cd cl l TRun))).
Proof.
  induction fuel as [|f IH]; intros t sh cd cl l a b HG HW.
  - cbn [advance fst snd lo]. split; [exact HG | exact HW].
  - cbn [advance code calls lo]. destruct cd as [|i rest].
    + destruct cl as [|c r].
      * cbn [fst snd lo]. split; [exact HG|exact I].
      * apply IH; [|apply all_calls_wg]. eapply GI_reset; [|exact HG]. exact HW.
    + cbn [wgl] in HW. destruct i as [m|m|x|x|x| |timed|tt f0|r c u v|timed| | | |rr];
        try (cbn [fst snd lo]; split; [exact HG | exact HW]).
      * (* ILocal *)
        change (forall t sh, gstep sh l (fst (f0 t sh l)) (snd (f0 t sh l)) /\ LI (snd (f0 t sh l)) /\ wgl rest GEnd (snd (f0 t sh l))) in HW.
        destruct (HW t sh) as [H1 [H2 H3]]. destruct (f0 t sh l) as [sh1 lo1]. cbn [fst snd] in *.
        apply IH; [eapply gstep_GI; eauto | exact H3].
      * (* IIf *)
        rewrite wgi_if in HW. destruct (HW sh) as [Ha Hb].
        apply IH; [exact HG|]. apply wgl_app. destruct (c sh l); auto.
      * (* IWaitLoop *)
        apply IH; [exact HG|]. apply wgl_app. apply gneutral_wait_loop; [|exact HW].
        destruct HG as [_ B _ _ _ _ _ _]. apply Forall_mid in B. tauto.
      * (* IRes *)
        apply IH; [|exact HW]. eapply GI_eq; [|exact HG]. repeat split.
      * (* IDone *)
        apply IH; [|exact HW]. eapply GI_eq; [|exact HG]. repeat split.
Qed.

Lemma map_lo_split ths t th : nth_error ths t = Some th ->
  exists l1 l2, ths = l1 ++ th :: l2 /\ (forall y, set_th ths t y = l1 ++ y :: l2).
Proof. apply set_th_split. Qed.

Lemma EInv_replace sh ths t th sh' th' :
  GI sh (map lo ths) -> Forall th_wg ths -> nth_error ths t = Some th ->
  (forall a b, GI sh (a ++ lo th :: b) -> GI sh' (a ++ lo th' :: b)) ->
  th_wg th' ->
  GI sh' (map lo (set_th ths t th')) /\ Forall th_wg (set_th ths t th').
Proof.
  intros HG HF HN Hstep Hw.
  destruct (set_th_split _ _ _ HN) as (l1 & l2 & E & F). rewrite F. subst ths.
  rewrite map_app in *. cbn [map] in *. split; [apply Hstep; exact HG|].
  apply Forall_app in HF. destruct HF as [F1 F2]. inversion F2; subst. apply Forall_app. split; auto.
Qed.

Lemma perform_g_finish fuel cfg t th sh1 th1 others :
  GI (shs cfg) (map lo (ths cfg)) -> nth_error (ths cfg) t = Some th ->
  map lo others = map lo (ths cfg) -> Forall th_wg others ->
  (forall a b, GI (shs cfg) (a ++ lo th :: b) -> GI sh1 (a ++ lo th1 :: b)) ->
  match status th1 with
  | TParked _ => forall b, wgl (code th1) GEnd (lo_to (lo th1) b)
  | TRun => wgl (code th1) GEnd (lo th1)
  | _ => False
  end ->
  EInv (let '(sh2, th2) := match status th1 with TParked _ => (sh1, th1) | _ => advance fuel t sh1 th1 end in
        mkCfg sh2 (set_th others t th2) (sched cfg) (dead cfg)).
Proof.
  intros HG HN HM HF Hstep HW. unfold EInv.
  assert (HN' : exists th', nth_error others t = Some th' /\ lo th' = lo th).
  { pose proof (map_nth_error lo _ _ HN) as M. rewrite <- HM in M.
    destruct (nth_error others t) as [th'|] eqn:E.
    - exists th'. split; [reflexivity|]. rewrite (map_nth_error lo _ _ E) in M. congruence.
    - apply nth_error_None in E. assert (nth_error (map lo others) t = None) by (apply nth_error_None; rewrite map_length; exact E). congruence. }
  destruct HN' as (th' & HN' & HLo). rewrite <- HM in HG.
  destruct th1 as [cd cl l st]. cbn [status code lo] in *.
  destruct st as [|timed| |]; try contradiction.
  - pose proof (advance_g fuel t sh1 cd cl l) as A.
    destruct (advance fuel t sh1 (mkTh cd cl l TRun)) as [sh2 th2]. cbn [fst snd shs ths] in *.
    apply (EInv_replace (shs cfg) others t th' sh2 th2 HG HF HN').
    + intros a b Hab. rewrite HLo in Hab. apply (A a b (Hstep a b Hab) HW).
    + assert (X : exists a b, others = a ++ th' :: b) by (destruct (set_th_split _ _ _ HN') as (a & b & E & _); eauto).
      destruct X as (a & b & E). rewrite E, map_app in HG. cbn [map] in HG. rewrite HLo in HG.
      apply (A (map lo a) (map lo b) (Hstep _ _ HG) HW).
  - cbn [shs ths]. apply (EInv_replace (shs cfg) others t th' sh1 (mkTh cd cl l (TParked timed)) HG HF HN').
    + intros a b Hab. rewrite HLo in Hab. cbn [lo]. apply Hstep. exact Hab.
    + unfold th_wg. cbn [status code lo]. exact HW.
Qed.

Lemma GI_inc sh a l b t v : v = (cec sh + 1)%Z ->
  GI sh (a ++ l :: b) -> GI (sh_log (sh_ec sh v) (CAInc t EC v)) (a ++ lo_held l (S (lheld l)) :: b).
Proof.
  intros -> [A B C D E F G H].
  apply Forall_mid in B. destruct B as (B1 & B2 & B3).
  apply Forall_mid in D. destruct D as (D1 & D2 & D3).
  apply Forall_mid in G. destruct G as (G1 & G2 & G3).
  constructor; cbn [cec nextid g_enq g_settled g_putbacks ql sh_log sh_ec].
  - rewrite heldsum_app, heldsum_cons in *. cbn [lheld lo_held]. lia.
  - apply Forall_mid. repeat split; auto. unfold LI in *. cbn [ltemp ltaking lheld lo_held]. destruct B2 as [X|[X|X]]; auto; right; right; lia.
  - exact C.
  - apply Forall_mid. repeat split; auto.
  - rewrite flat_map_app in *. cbn [flat_map] in *. exact E.
  - intros e He. destruct (F e He) as [F1 F2]. split; [exact F1|]. apply Forall_mid in F2. destruct F2 as (X1 & X2 & X3).
    apply Forall_mid. repeat split; auto.
  - apply Forall_mid. repeat split; auto.
  - intros P. specialize (H P). apply Forall_mid in H. destruct H as (H1 & H2 & H3).
    apply Forall_mid. repeat split; auto.
Qed.

Lemma GI_dec sh a l b t v : v = (cec sh - 1)%Z -> 1 <= lheld l -> LI (lo_held l (pred (lheld l))) ->
  GI sh (a ++ l :: b) -> GI (sh_log (sh_ec sh v) (CADec t EC v)) (a ++ lo_held l (pred (lheld l)) :: b).
Proof.
  intros -> Hh HL [A B C D E F G H].
  apply Forall_mid in B. destruct B as (B1 & B2 & B3).
  apply Forall_mid in D. destruct D as (D1 & D2 & D3).
  apply Forall_mid in G. destruct G as (G1 & G2 & G3).
  constructor; cbn [cec nextid g_enq g_settled g_putbacks ql sh_log sh_ec].
  - rewrite heldsum_app, heldsum_cons in *. cbn [lheld lo_held]. lia.
  - apply Forall_mid. repeat split; auto.
  - exact C.
  - apply Forall_mid. repeat split; auto.
  - rewrite flat_map_app in *. cbn [flat_map] in *. exact E.
  - intros e He. destruct (F e He) as [F1 F2]. split; [exact F1|]. apply Forall_mid in F2. destruct F2 as (X1 & X2 & X3).
    apply Forall_mid. repeat split; auto.
  - apply Forall_mid. repeat split; auto.
  - intros P. specialize (H P). apply Forall_mid in H. destruct H as (H1 & H2 & H3).
    apply Forall_mid. repeat split; auto.
Qed.

Lemma wake_code_wg ths :
  Forall th_wg ths ->
  Forall th_wg (match first_parked ths 0 (fun x => match status x with TParked _ => true | _ => false end) with
                | Some w => match nth_error ths w with
                            | Some wt => set_th ths w (mkTh (code wt) (calls wt) (lo wt) TWoken)
                            | None => ths
                            end
                | None => ths
                end).
Proof.
  intros HF. destruct (first_parked ths 0 _) as [w|] eqn:E; [|exact HF].
  destruct (nth_error ths w) as [wt|] eqn:HN; [|exact HF].
  destruct (set_th_split _ _ _ HN) as (l1 & l2 & E1 & F). rewrite F. subst ths.
  apply Forall_app in HF. destruct HF as [F1 F2]. inversion F2 as [|? ? Hw F3]; subst. apply Forall_app. split; [exact F1|]. constructor; [|exact F3].
  destruct (first_parked_some _ _ _ _ E) as (x & N & P & _). rewrite Nat.sub_0_r in N. rewrite HN in N. injection N as <-.
  unfold th_wg in *. cbn [status code lo]. destruct (status wt); try discriminate.
  specialize (Hw (ltimedout (lo wt))). rewrite lo_to_self in Hw. exact Hw.
Qed.

Lemma wake_lo ths :
  map lo (match first_parked ths 0 (fun x => match status x with TParked _ => true | _ => false end) with
          | Some w => match nth_error ths w with
                      | Some wt => set_th ths w (mkTh (code wt) (calls wt) (lo wt) TWoken)
                      | None => ths
                      end
          | None => ths
          end) = map lo ths.
Proof.
  destruct (first_parked ths 0 _) as [w|]; [|reflexivity].
  destruct (nth_error ths w) as [wt|] eqn:HN; [|reflexivity].
  eapply set_th_same_lo; eauto.
Qed.

Lemma perform_g t cfg : EInv cfg -> EInv (perform t cfg).
Proof.
  intros [HG HF]. unfold perform. generalize ADV_FUEL. intros fuel.
  destruct (nth_error (ths cfg) t) as [th|] eqn:HN; [|split; assumption].
  pose proof (proj1 (Forall_forall _ _) HF th (nth_error_In _ _ HN)) as HW. unfold th_wg in HW.
  destruct (status th) eqn:Est; try (split; assumption).
  - destruct (code th) as [|i rest] eqn:Ec; [split; assumption|].
    cbn [wgl] in HW.
    assert (Hdef : EInv (let '(sh2, th2) := match status th with TParked _ => (shs cfg, th) | _ => advance fuel t (shs cfg) th end in
                         mkCfg sh2 (set_th (ths cfg) t th2) (sched cfg) (dead cfg))).
    { apply perform_g_finish with (th := th); auto. rewrite Est, Ec. cbn [wgl]. exact HW. }
    destruct i as [m|m|x|x|x| |timed|tt f|r c u v|timed| | | |rr]; try exact Hdef.
    all: try destruct m; try destruct x.
    all: cbv beta iota zeta.
    all: try solve [apply perform_g_finish with (th := th); auto; cbn [status code lo]; try exact HW;
                    intros a b Hab; eapply GI_eq; [|exact Hab]; repeat split].
    + (* IAInc EC *)
      apply perform_g_finish with (th := th); auto; cbn [status code lo]; try exact HW.
      intros a b Hab. apply GI_inc; [reflexivity|exact Hab].
    + (* IADec EC *)
      change (1 <= lheld (lo th) /\ LI (lo_held (lo th) (pred (lheld (lo th)))) /\ wgl rest GEnd (lo_held (lo th) (pred (lheld (lo th))))) in HW.
      destruct HW as (H1 & H2 & H3).
      apply perform_g_finish with (th := th); auto; cbn [status code lo]; try exact H3.
      intros a b Hab. apply GI_dec; auto.
    + (* IALoad EC *)
      apply perform_g_finish with (th := th); auto; cbn [status code lo]; try apply HW.
      intros a b Hab. eapply GI_eq; [|eapply GI_lo; [apply lo_geq_reg|exact Hab]]. repeat split.
    + (* IALoad NC *)
      apply perform_g_finish with (th := th); auto; cbn [status code lo]; try apply HW.
      intros a b Hab. eapply GI_eq; [|eapply GI_lo; [apply lo_geq_reg|exact Hab]]. repeat split.
    + (* INotify *)
      apply perform_g_finish with (th := th); auto; cbn [status code lo]; try exact HW; try apply wake_lo; try (apply wake_code_wg; exact HF).
      intros a b Hab. eapply GI_eq; [|exact Hab]. repeat split.
    + (* ICvWait *)
      apply perform_g_finish with (th := th); auto; cbn [status code lo]; try (intros b; rewrite lo_to_idem; apply HW).
      intros a b Hab. eapply GI_eq; [|eapply GI_lo; [apply lo_geq_to|exact Hab]]. repeat split.
    + (* IStart *)
      apply perform_g_finish with (th := th); auto; cbn [status code lo]; try exact HW.
  - (* TWoken *)
    assert (Hs : forall a b, GI (shs cfg) (a ++ lo th :: b) -> GI (sh_oqm (sh_log (shs cfg) (CCvWake t)) (Some t)) (a ++ lo th :: b)).
    { intros a b Hab. eapply GI_eq; [|exact Hab]. repeat split. }
    exact (perform_g_finish fuel cfg t th _ (mkTh (code th) (calls th) (lo th) TRun) (ths cfg) HG HN eq_refl HF Hs HW).
Qed.

Lemma EInv_irrel sh l s d s' d' : EInv (mkCfg sh l s d) -> EInv (mkCfg sh l s' d').
Proof. intros H; exact H. Qed.

Lemma sched_step0_g cfg cfg' : EInv cfg -> sched_step0 cfg = Some cfg' -> EInv cfg'.
Proof.
  intros HE. unfold sched_step0. destruct (dead cfg); [discriminate|].
  destruct (next_from_schedule cfg (sched cfg)) as [pick rest].
  assert (HE1 : EInv (mkCfg (shs cfg) (ths cfg) rest false)) by exact HE.
  set (cfg1 := mkCfg (shs cfg) (ths cfg) rest false) in *.
  destruct (match pick with Some t => Some t | None => lowest_enabled cfg1 end) as [t|].
  - intros E. injection E as <-. apply perform_g. exact HE1.
  - destruct (first_parked (ths cfg1) 0 _) as [w|] eqn:EP.
    + destruct (nth_error (ths cfg1) w) as [wt|] eqn:EN; [|discriminate].
      set (cfg2 := mkCfg _ _ rest (dead cfg1)).
      assert (HE2 : EInv cfg2).
      { destruct HE1 as [HG HF]. subst cfg2. unfold EInv. cbn [shs ths].
        pose proof (first_parked_status _ _ _ _ EP EN) as Pk. cbv beta in Pk.
        pose proof (proj1 (Forall_forall _ _) HF wt (nth_error_In _ _ EN)) as HW. unfold th_wg in HW.
        destruct (status wt) as [|timed| |] eqn:Est; try discriminate.
        apply (EInv_replace (shs cfg1) (ths cfg1) w wt (sh_log (shs cfg1) (CTimeout w))
                            (mkTh (code wt) (calls wt) (lo_to (lo wt) true) TWoken) HG HF EN).
        - intros a b Hab. cbn [lo]. eapply GI_eq; [|eapply GI_lo; [apply lo_geq_to|exact Hab]]. repeat split.
        - unfold th_wg. cbn [status code lo]. apply HW. }
      destruct (th_enabled cfg2 w); intros E; injection E as <-; [apply perform_g|]; exact HE2.
    + destruct (all_finished cfg1); [discriminate|]. intros E. injection E as <-.
      destruct HE1 as [HG HF]. split; [|exact HF]. cbn [shs ths]. eapply GI_eq; [|exact HG]. repeat split.
Qed.

Lemma unnotified_g cfg tok c : EInv cfg -> unnotified cfg tok = Some c -> EInv c.
Proof.
  intros [HG HF] H. unfold unnotified in H.
  destruct (Nat.leb 2000 tok).
  - destruct (nth_error (ths cfg) (tok - 2000)) as [wt|] eqn:EN; [|discriminate].
    pose proof (proj1 (Forall_forall _ _) HF wt (nth_error_In _ _ EN)) as HW. unfold th_wg in HW.
    destruct (status wt) as [|timed| |] eqn:Est; try discriminate. injection H as <-. unfold EInv. cbn [shs ths].
    apply (EInv_replace (shs cfg) (ths cfg) (tok - 2000) wt (shs cfg) (mkTh (code wt) (calls wt) (lo_to (lo wt) false) TWoken) HG HF EN).
    + intros a b Hab. cbn [lo]. eapply GI_lo; [apply lo_geq_to|exact Hab].
    + unfold th_wg. cbn [status code lo]. apply HW.
  - destruct (Nat.leb 1000 tok); [|discriminate].
    destruct (nth_error (ths cfg) (tok - 1000)) as [wt|] eqn:EN; [|discriminate].
    pose proof (proj1 (Forall_forall _ _) HF wt (nth_error_In _ _ EN)) as HW. unfold th_wg in HW.
    destruct (status wt) as [|timed| |] eqn:Est; try discriminate. destruct timed; [|discriminate]. injection H as <-. unfold EInv. cbn [shs ths].
    apply (EInv_replace (shs cfg) (ths cfg) (tok - 1000) wt (sh_log (shs cfg) (CTimeout (tok - 1000)))
                        (mkTh (code wt) (calls wt) (lo_to (lo wt) true) TWoken) HG HF EN).
    + intros a b Hab. cbn [lo]. eapply GI_eq; [|eapply GI_lo; [apply lo_geq_to|exact Hab]]. repeat split.
    + unfold th_wg. cbn [status code lo]. apply HW.
Qed.

Lemma sched_step_g cfg cfg' : EInv cfg -> sched_step cfg = Some cfg' -> EInv cfg'.
Proof.
  intros HE. unfold sched_step. destruct (dead cfg) eqn:Ed; [discriminate|].
  assert (H0 : sched_step0 cfg = Some cfg' -> EInv cfg') by (apply sched_step0_g; exact HE).
  destruct (sched cfg) as [|tok rest]; [exact H0|].
  destruct (unnotified _ tok) as [c|] eqn:EU; [|exact H0].
  intros E. injection E as <-. eapply unnotified_g; [|exact EU]. exact HE.
Qed.

Lemma run_sched_g fuel : forall cfg, EInv cfg -> EInv (run_sched fuel cfg).
Proof.
  induction fuel as [|f IH]; intros cfg HE; cbn [run_sched]; [exact HE|].
  destruct (sched_step cfg) as [c|] eqn:E; [|exact HE]. apply IH. eapply sched_step_g; eauto.
Qed.

Lemma init_g progs schedule : EInv (mkCfg sh0 (start_threads progs) schedule false).
Proof.
  unfold EInv. cbn [shs ths]. split.
  - assert (E : map lo (start_threads progs) = repeat lo0 (length progs)).
    { unfold start_threads. induction progs as [|p r IH]; [reflexivity|]. cbn [map length repeat lo]. rewrite IH. reflexivity. }
    rewrite E. generalize (length progs). intros n.
    constructor; cbn [cec nextid g_enq g_settled g_putbacks ql sh0].
    + induction n as [|n IH]; [reflexivity|]. cbn [repeat]. rewrite heldsum_cons, IH. reflexivity.
    + apply Forall_forall. intros l Hl. apply repeat_spec in Hl. subst l. left; reflexivity.
    + intros e [].
    + apply Forall_forall. intros l Hl. apply repeat_spec in Hl. subst l. intros e X; discriminate X.
    + induction n as [|n IH]; [constructor|exact IH].
    + intros e [].
    + apply Forall_forall. intros l Hl. apply repeat_spec in Hl. subst l. intros e [].
    + intros _. apply Forall_forall. intros l Hl. apply repeat_spec in Hl. subst l. intros X; discriminate X.
  - unfold start_threads. apply Forall_forall. intros th Hin. apply in_map_iff in Hin. destruct Hin as (p & <- & _).
    unfold th_wg. cbn [status code lo wgl wgi]. reflexivity.
Qed.

Theorem ghost_invariant_every_schedule progs schedule fuel : EInv (reached progs schedule fuel).
Proof. apply run_sched_g. apply init_g. Qed.

(* ---------- the theorem ---------- *)
Lemma heldsum_zero los : heldsum los = 0%Z -> Forall (fun l => lheld l = 0) los.
Proof.
  induction los as [|l r IH]; intros H; [constructor|]. rewrite heldsum_cons in H.
  assert (0 <= heldsum r)%Z.
  { clear. induction r as [|x r IH]; [unfold heldsum; cbn; lia|]. rewrite heldsum_cons. lia. }
  constructor; [lia|apply IH; lia].
Qed.

Theorem emptyqueue_true_means_consumed progs schedule fuel :
  let cfg := reached progs schedule fuel in
  g_putbacks (shs cfg) = 0 ->
  forall o, In o (ths cfg) -> lseen (lo o) = true -> cec (shs cfg) = 0%Z ->
  forall e, In e (lsnap (lo o)) ->
    In e (consumed (shs cfg)) \/
    exists t, In t (ths cfg) /\ ltaking (lo t) = true /\ In e (ltemp (lo t)).
Proof.
  cbv zeta. intros P0 o Ho Hs Hc e He.
  destruct (ghost_invariant_every_schedule progs schedule fuel) as [[Gsum Gli _ _ _ Gset Gsnap Gseen] _].
  destruct (conservation_every_schedule progs schedule fuel) as [[Cperm _ _ _] _]. cbn [app] in Cperm.
  set (cfg := reached progs schedule fuel) in *.
  assert (Hol : In (lo o) (map lo (ths cfg))) by (apply in_map; exact Ho).
  (* settled, hence enqueued and not the event of a running enqueue *)
  assert (Hset : In e (g_settled (shs cfg))) by (apply (proj1 (Forall_forall _ _) Gsnap (lo o) Hol); exact He).
  destruct (Gset e Hset) as [Henq Hnolev].
  (* not in the list: the observer saw it empty and nothing of its snapshot came back *)
  assert (Hnq : ~ In e (ql (shs cfg))) by (apply (proj1 (Forall_forall _ _) (Gseen P0) (lo o) Hol Hs e He)).
  (* so it is in flight or consumed *)
  assert (Hwhere : In e (ql (shs cfg) ++ infl (ths cfg) ++ consumed (shs cfg))) by (eapply Permutation_in; [exact Cperm|exact Henq]).
  apply in_app_or in Hwhere. destruct Hwhere as [X|X]; [contradiction|].
  apply in_app_or in X. destruct X as [X|X]; [|left; exact X].
  right. unfold infl in X. apply in_flat_map in X. destruct X as (l & Hl & Hin).
  apply in_map_iff in Hl. destruct Hl as (t & <- & Ht).
  unfold inflight in Hin. apply in_app_or in Hin. destruct Hin as [Hin|Hin].
  - exists t. split; [exact Ht|]. split; [|exact Hin].
    assert (Htl : In (lo t) (map lo (ths cfg))) by (apply in_map; exact Ht).
    pose proof (proj1 (Forall_forall _ _) Gli (lo t) Htl) as L.
    rewrite Hc in Gsum. pose proof (proj1 (Forall_forall _ _) (heldsum_zero _ Gsum) (lo t) Htl) as Z0.
    destruct L as [L|[L|L]]; [rewrite L in Hin; destruct Hin|exact L|exfalso; rewrite Z0 in L; inversion L].
  - exfalso. apply levl_in in Hin.
    assert (Htl : In (lo t) (map lo (ths cfg))) by (apply in_map; exact Ht).
    exact (proj1 (Forall_forall _ _) Hnolev (lo t) Htl Hin).
Qed.
