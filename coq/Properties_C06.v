(* Properties_C06.v — C06: concurrent producers and consumers never lose or duplicate an event.

   The thread-level model QConc.v transcribes every API call of eventqueue.h into its visible
   actions (lock, unlock, atomic increment/decrement/load, notify, condition wait) and the local
   code between them, and is replayed step for step against the real queue (harness/qconc.cpp
   under the cooperative scheduler harness/vsched.h, same schedule on both sides).

   Proved here, for EVERY set of thread programs, EVERY schedule and EVERY number of steps
   (QConcInv.v: a weakest-precondition calculus over the transcribed calls in which the shared
   state is arbitrary at every read — interference by other threads is havoc — and an invariant
   preserved by every scheduler decision):
     C06_every_event_in_exactly_one_place   the enqueued events (ghost ledger, fresh ids) are a
                                            permutation of queueList ++ events in flight in some
                                            thread's locals ++ dispatched ++ taken ++ cleared, and
                                            no id occurs twice in that list;
     C06_no_event_consumed_twice            in particular no event is dispatched twice, dispatched
                                            and taken, or consumed and still queued;
     C06_finished_accounts_for_every_event  when all threads have finished, every enqueued event
                                            was dispatched/taken/cleared exactly once or is still queued;
     C06_logged_dispatches_are_the_ledger   the dispatch entries of the observable trace are exactly
                                            the ledger's dispatches (the trace is what is compared
                                            with the implementation);
     C06_lock_discipline_and_no_nested_locks every access to queueList/freeList by local code is
                                            under its mutex (the deliberate unlocked `.empty()`
                                            pre-checks excepted) and no call holds two mutexes, so
                                            there is no circular wait on the mutexes.
   Granularity: threads interleave at the visible actions; local code between two visible actions
   is atomic in the model.  That is justified by the lock discipline (local code touches shared
   lists only under the mutex) but the reduction argument itself is not mechanised, nor is the
   C++ memory model: data-race freedom of the real code is checked by the ThreadSanitizer build
   of the harness in the thorough tier, not proved.  FIFO per producer-consumer pair holds only
   without processIf/processUntil put-back (see DESIGN.md, P10). *)
From Coq Require Import List Arith NArith ZArith Bool Permutation.
From EV Require Import QConc QConcProofs QConcInv QConcWake QConcFuel QConcOrder.
Import ListNotations.

Theorem C06_every_event_in_exactly_one_place : forall progs schedule fuel,
  let cfg := reached progs schedule fuel in
  Permutation (g_enq (shs cfg)) (ql (shs cfg) ++ infl (ths cfg) ++ consumed (shs cfg)) /\
  NoDup (map ceid (ql (shs cfg) ++ infl (ths cfg) ++ consumed (shs cfg))).
Proof. exact every_event_in_exactly_one_place. Qed.
Print Assumptions C06_every_event_in_exactly_one_place.

Theorem C06_no_event_consumed_twice : forall progs schedule fuel,
  let sh := shs (reached progs schedule fuel) in
  NoDup (map ceid (ql sh ++ map snd (g_disp sh) ++ map snd (g_taken sh) ++ g_cleared sh)).
Proof. exact no_event_consumed_twice. Qed.
Print Assumptions C06_no_event_consumed_twice.

Theorem C06_finished_accounts_for_every_event : forall progs schedule fuel,
  let cfg := reached progs schedule fuel in
  all_finished cfg = true ->
  Permutation (g_enq (shs cfg)) (ql (shs cfg) ++ consumed (shs cfg)).
Proof. exact finished_accounts_for_every_event. Qed.
Print Assumptions C06_finished_accounts_for_every_event.

Theorem C06_logged_dispatches_are_the_ledger : forall progs schedule fuel,
  let sh := shs (reached progs schedule fuel) in
  filter is_disp (clog sh) = map disp_act (g_disp sh).
Proof. exact logged_dispatches_are_the_ledger. Qed.
Print Assumptions C06_logged_dispatches_are_the_ledger.

Theorem C06_lock_discipline_and_no_nested_locks : forall c, call_ok c = true.
Proof. exact every_call_keeps_the_lock_discipline. Qed.
Print Assumptions C06_lock_discipline_and_no_nested_locks.

(* non-vacuity: a 3-thread run in which a consumer swaps the list out between a producer's two
   enqueues; both events are enqueued, all threads finish, nothing is lost or duplicated *)
Example C06_example :
  let progs := [[AEnqueue 0 11%Z; AEnqueue 1 12%Z]; [AProcess; AProcessOne]; [ATake]] in
  let sched := [0; 0; 0; 1; 1; 1; 1; 0; 0; 2; 2; 2; 1; 1; 0; 0; 1; 1; 1; 1; 2] in
  let cfg := reached progs sched 400 in
  all_finished cfg = true /\ length (g_enq (shs cfg)) = 2 /\
  length (filter (fun a => match a with CDisp _ _ _ | CTaken _ _ _ | CDrained _ _ => true | _ => false end)
                 (qc_run_case 400 progs sched)) = 2.
Proof. vm_compute. repeat split; reflexivity. Qed.

(* LAST CLAUSE: no call deadlocks.  In every reachable configuration of every program under every schedule, whenever a
   thread is inside a call and not parked in wait / waitFor, some thread can run: that thread, or the owner of the
   mutex it waits for — which never itself waits for a mutex (no nested locks; QConcWake.v, QConcFuel.v) *)
Theorem C06_no_call_deadlocks : forall progs schedule n u th,
  let cfg := run_sched n (mkCfg sh0 (start_threads progs) schedule false) in
  nth_error (ths cfg) u = Some th -> status th = TRun -> code th <> [] ->
  exists v, th_enabled cfg v = true.
Proof.
  intros progs schedule n u th cfg. apply no_mutex_deadlock. apply wake_invariant_unconditional.
Qed.
Print Assumptions C06_no_call_deadlocks.

(* ORDERING CLAUSE — the part that holds (QConcOrder.v, on the generic frame QConcGen.v).  For every set of thread programs and
   every schedule: in every reachable configuration of an execution in which no processIf / processUntil has put events
   back (g_putbacks = 0), the events thread t has dispatched (dby t, oldest first) and the events takeEvent has handed to
   thread t (tby t) are subsequences of the order in which events entered queueList (rev g_settled).  One producer's
   events enter the list in its program order (it makes one enqueue call at a time), so whatever one thread consumes of
   one producer's events it consumes in enqueue order.  Invariant behind it: the list is a FIFO — entry order = removed ++
   queueList — and for every thread, what it has dispatched followed by what it holds undispatched is a subsequence of
   `removed`.  (The relative order of one thread's takes and dispatches is not covered: two separate ledgers.) *)
Theorem C06_order_without_putbacks : forall progs schedule fuel,
  let cfg := reached progs schedule fuel in
  g_putbacks (shs cfg) = 0 ->
  forall t th, nth_error (ths cfg) t = Some th ->
    subseq (dby t (shs cfg)) (rev (g_settled (shs cfg))) /\ subseq (tby t (shs cfg)) (rev (g_settled (shs cfg))).
Proof. exact order_of_dispatch_and_take. Qed.
Print Assumptions C06_order_without_putbacks.

Example C06_order_example :
  let cfg := reached [[AEnqueue 1 11%Z; AEnqueue 1 13%Z; AEnqueue 1 15%Z]; [AProcess; AProcess]]
                     [0; 0; 0; 0; 0; 0; 0; 0; 0; 0; 0; 0; 0; 1; 1; 1; 1; 1; 1; 1; 1; 0; 0; 0; 0; 0; 0; 1; 1; 1; 1; 1; 1; 1; 1; 1] 400 in
  g_putbacks (shs cfg) = 0 /\ map cea (dby 1 (shs cfg)) = [11%Z; 13%Z; 15%Z] /\ map cea (rev (g_settled (shs cfg))) = [11%Z; 13%Z; 15%Z].
Proof. exact order_example. Qed.

(* ORDERING CLAUSE — REFUTED in the presence of another thread's processIf / processUntil (known finding P10).
   Thread 0 enqueues 11, 13, 15.  Thread 1 calls processIf with a predicate that declines everything: it takes 11 and 13
   out of the queue, evaluates, and puts them back.  Thread 2 — the only thread that consumes anything — calls
   process() in between and receives 15 first, then 11 and 13.  The same schedule on the real EventQueue gives the
   same trace (corpus/qconc/p10_fifo_foreign_putback.case). *)
Definition p10_schedule : list nat :=
  [0; 0; 0; 0; 0; 0; 0; 0; 0; 0; 0; 0; 0; 1; 1; 1; 1; 1; 0; 0; 0; 0; 0; 0; 2; 2; 2; 2; 2; 2; 2; 2;
   1; 1; 1; 1; 1; 1; 1; 1; 1; 1; 2; 2; 2; 2; 2; 2; 2; 2; 2; 2; 2; 2].
Theorem C06_order_across_foreign_putback_refuted :
  let tr := qc_run_case 400 [[AEnqueue 1 11%Z; AEnqueue 1 13%Z; AEnqueue 1 15%Z]; [AProcessIf 0]; [AProcess; AProcess]] p10_schedule in
  flat_map (fun a => match a with CDisp t _ v => [(t, v)] | _ => [] end) tr = [(2, 15%Z); (2, 11%Z); (2, 13%Z)].
Proof. vm_compute. reflexivity. Qed.

(* Lock scopes of the real header (tie A, tools/leaves/locks.py): the only accesses to queueList /
   freeList outside a named guard on their mutex are the deliberate `.empty()` pre-checks — one per
   consuming call and emptyQueue for queueList, one in doEnqueue for freeList — exactly the unlocked
   reads the thread-level model has (IIf reads).  "f#n": f takes the mutex and still reaches the member n times
   outside its guards; "f#*": f never takes the mutex.  A dropped, unnamed or wrong-mutex guard changes these lists. *)
From Coq Require Import String.
From EV.gen Require GenLocks.
Local Open Scope string_scope.

Theorem C06_lock_scopes_are_the_reviewed_ones :
  GenLocks.queue_list_unguarded = ["clearEvents#1"; "emptyQueue#*"; "peekEvent#1"; "process#1"; "processIf#1"; "processOne#1"; "processUntil#1"; "takeEvent#1"] /\
  GenLocks.queue_freelist_unguarded = ["doEnqueue#1"] /\
  GenLocks.heter_queue_list_unguarded = ["clearEvents#1"; "emptyQueue#*"; "process#1"; "processIf#*"; "processOne#1"] /\
  GenLocks.heter_queue_freelist_unguarded = ["doEnqueueItem#1"].
Proof. repeat split; reflexivity. Qed.
Print Assumptions C06_lock_scopes_are_the_reviewed_ones.
