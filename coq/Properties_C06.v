(* Properties_C06.v — C06: concurrent producers and consumers never lose or duplicate an event.

   The thread-level model QConc.v transcribes every API call of eventqueue.h into its visible
   actions and the local code between them, and is replayed step for step against the real
   queue (harness/qconc.cpp under the cooperative scheduler).  Proved here for every call and
   all arguments: accesses to queueList happen under queueListMutex and to freeList under
   freeListMutex (the unlocked `.empty()` pre-checks excepted, which the header makes on
   purpose), and no call ever holds two mutexes — so there is no circular wait: "no call
   deadlocks" on the mutexes.
   PARTIAL: the ledger invariant (every enqueued event in exactly one place, for every
   interleaving) is stated in DESIGN.md and checked on every replayed schedule by the monitor
   of tools/qc_domain.py on the IMPLEMENTATION's trace; its Coq proof is not yet in place. *)
From Coq Require Import List Arith NArith ZArith Bool.
From EV Require Import QConc QConcProofs.
Import ListNotations.

Theorem C06_partial_lock_discipline_and_no_nested_locks : forall c, call_ok c = true.
Proof. exact every_call_keeps_the_lock_discipline. Qed.
Print Assumptions C06_partial_lock_discipline_and_no_nested_locks.

(* non-vacuity: a 3-thread run in which a consumer swaps the list out between a producer's two
   enqueues; nothing is lost or duplicated *)
Example C06_example :
  let tr := qc_run_case 400 [[AEnqueue 0 11%Z; AEnqueue 1 12%Z]; [AProcess; AProcessOne]; [ATake]]
                        [0; 0; 0; 1; 1; 1; 1; 0; 0; 2; 2; 2; 1; 1; 0; 0; 1; 1; 1; 1; 2] in
  length (filter (fun a => match a with CDisp _ _ _ | CTaken _ _ _ | CDrained _ _ => true | _ => false end) tr) = 2.
Proof. vm_compute. reflexivity. Qed.
