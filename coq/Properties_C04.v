(* placeholder until Disp.v lands *)
From EV Require Import CLModel.
