(* Properties_C04.v — C04: dispatch reaches exactly the dispatched event's listeners,
   arguments intact.

   (1) Routing and argument integrity at the call sites, for EVERY evaluation order a
       conforming compiler may choose: the shapes of dispatch() and enqueue() are read off
       the headers by tie A (GenDisp) and must be Statement or Braced.
   (2) Per event, every listener operation IS the callback-list operation: the dispatcher
       harness runs the callback-list cases with list slot L = event key keyOf(L) against
       the proved model, so C01/C02's refinement theorem is the statement (restated here).
   Only theorems (closed by `exact`), examples and Print Assumptions. *)
From Coq Require Import List Arith NArith Bool Permutation.
From EV Require Import CLModel CLSpec CLRefine CLSim CLMain CallShape.
From EV.gen Require GenCL GenDisp.
Import ListNotations.

(* EventDispatcher::dispatch(Args...): whatever the number of arguments, whichever of them are
   movable by-value types, whichever of them the getEvent policy reads, and whatever order the
   compiler evaluates the arguments in: the key the listeners are looked up with (key_seen: the
   key object is a copy, not a reference into the arguments — tie A) is computed from the
   caller's values and every listener parameter receives the caller's value. *)
Theorem C04_dispatch_key_and_arguments_intact :
  forall n movable kread env evs,
    length env = n -> admissible n GenDisp.dispatch_shape evs ->
    key_seen (negb GenDisp.dispatch_key_copied) kread (run movable kread false env evs) = Some (map (fun i => nth i env MovedFrom) kread) /\
    forall i, i < n -> plookup i (params_seen GenDisp.dispatch_getevent_forwards_args movable kread (run movable kread false env evs)) = Some (nth i env MovedFrom).
Proof.
  intros n movable kread env evs.
  exact (sequenced_site_intact n movable kread false GenDisp.dispatch_shape env evs
           (fun E => match E in (_ = s) return (match s with GenDisp.Call => False | _ => True end) with eq_refl => I end) eq_refl).
Qed.
Print Assumptions C04_dispatch_key_and_arguments_intact.

(* the same for dispatch(T && first, Args...) and for the two enqueue overloads of EventQueue *)
Theorem C04_dispatch_first_key_and_arguments_intact :
  forall n movable kread env evs,
    length env = n -> admissible n GenDisp.dispatch_first_shape evs ->
    key_seen (negb GenDisp.dispatch_first_key_copied) kread (run movable kread false env evs) = Some (map (fun i => nth i env MovedFrom) kread) /\
    forall i, i < n -> plookup i (params_seen GenDisp.dispatch_first_getevent_forwards_args movable kread (run movable kread false env evs)) = Some (nth i env MovedFrom).
Proof.
  intros n movable kread env evs.
  exact (sequenced_site_intact n movable kread false GenDisp.dispatch_first_shape env evs
           (fun E => match E in (_ = s) return (match s with GenDisp.Call => False | _ => True end) with eq_refl => I end) eq_refl).
Qed.
Print Assumptions C04_dispatch_first_key_and_arguments_intact.

Theorem C04_enqueue_key_and_arguments_intact :
  forall n movable kread env evs,
    length env = n ->
    (admissible n GenDisp.enqueue_shape evs \/ admissible n GenDisp.enqueue_first_shape evs) ->
    key (run movable kread false env evs) = Some (map (fun i => nth i env MovedFrom) kread) /\
    forall i, i < n -> plookup i (params_seen (GenDisp.enqueue_getevent_forwards_args || GenDisp.enqueue_first_getevent_forwards_args) movable kread
                                              (run movable kread false env evs)) = Some (nth i env MovedFrom).
Proof.
  intros n movable kread env evs Hl [H|H].
  - exact (sequenced_site_intact n movable kread false GenDisp.enqueue_shape env evs
             (fun E => match E in (_ = s) return (match s with GenDisp.Call => False | _ => True end) with eq_refl => I end) eq_refl Hl H).
  - exact (sequenced_site_intact n movable kread false GenDisp.enqueue_first_shape env evs
             (fun E => match E in (_ = s) return (match s with GenDisp.Call => False | _ => True end) with eq_refl => I end) eq_refl Hl H).
Qed.
Print Assumptions C04_enqueue_key_and_arguments_intact.

(* a key that only refers to what a reference-returning getEvent policy handed back is read after
   the arguments were moved (seeded change C04_key_bound_by_reference): the key must be copied *)
Theorem C04_aliased_key_refuted :
  exists evs, admissible 1 GenDisp.Statement evs /\
              key_seen true [0] (run (fun _ => true) [0] false [Val 7] evs) = Some [MovedFrom].
Proof. exact aliased_key_refuted. Qed.

(* a getEvent that is handed the pack as rvalues lets a by-value policy move the listeners' arguments
   away (seeded change C04b_getevent_gets_forwarded_args) *)
Theorem C04_rvalue_getevent_refuted :
  exists evs, admissible 1 GenDisp.Statement evs /\
              plookup 0 (params_seen true (fun _ => true) [0] (run (fun _ => true) [0] false [Val 7] evs)) = Some MovedFrom.
Proof. exact rvalue_getevent_refuted. Qed.

(* regression witness (the defect repaired by 583643a): with key and forwarded arguments as
   siblings of one call, an admissible order reads the key from a moved-from argument *)
Theorem C04_unsequenced_call_shape_refuted :
  forall n movable kread env,
    1 <= n -> movable 0 = true -> In 0 kread -> length env = n ->
    exists evs, admissible n GenDisp.Call evs /\
                exists k, key (run movable kread false env evs) = Some k /\ In MovedFrom k.
Proof. intros n movable kread env. exact (call_site_refuted n movable kread false env). Qed.
Print Assumptions C04_unsequenced_call_shape_refuted.

(* per event, listener management and invocation are the callback-list operations: list slot l
   of the model is the listener list of event key l; C01/C02's refinement is the statement *)
Theorem C04_per_event_operations_refine_list_spec :
  forall W behav fuel nl prog st',
    (0 < W)%N -> core_behav behav -> core_prog prog ->
    CLModel.run W GenCL.remove_checks_removed GenCL.insert_checks_removed GenCL.owns_checks_removed behav fuel (init nl) prog = Some st' ->
    wrapped st' = false ->
    exists sst', s_run behav fuel (s_init nl) prog = Some sst' /\ strace sst' = trace st' /\ R W st' sst'.
Proof. exact cl_run_refines. Qed.
Print Assumptions C04_per_event_operations_refine_list_spec.

(* non-vacuity: three arguments, the first (the key) and third movable, evaluated right to left after the key *)
Example C04_hypotheses_satisfiable :
  admissible 3 GenDisp.dispatch_shape [EKey; EFwd 2; EFwd 1; EFwd 0] /\
  key (run (fun i => negb (Nat.eqb i 1)) [0] false [Val 5; Val 6; Val 7] [EKey; EFwd 2; EFwd 1; EFwd 0]) = Some [Val 5].
Proof.
  split; [|reflexivity]. split; [|eexists; reflexivity].
  unfold all_events. simpl. apply perm_skip.
  apply Permutation_sym. apply (Permutation_rev [EFwd 0; EFwd 1; EFwd 2]).
Qed.

(* the QUEUED path: the arguments of a queued event are stored in a tuple and handed to the listeners as
   std::get<I>(tuple) for the indices I of internal_::MakeIndexSequence<N>::Type.  That template is the linear recursion tie A
   reads off the header (GenDisp.index_sequence_linear; any other construction is refused), and for EVERY arity N the
   recursion yields 0, 1, …, N-1: every stored argument reaches the listeners once, in its own position *)
From EV Require IndexSeq.
Theorem C04_queued_arguments_are_expanded_in_order :
  GenDisp.index_sequence_linear = true /\ forall n, IndexSeq.mk_seq n [] = seq 0 n.
Proof. split; [reflexivity|exact IndexSeq.index_sequence_is_the_identity]. Qed.
Print Assumptions C04_queued_arguments_are_expanded_in_order.

(* regression statement for a log-depth construction with the wrong odd step (seeded change C04d): right up to arity 4 *)
Example C04_doubling_with_the_wrong_odd_step_refuted :
  (forall n, n <= 4 -> IndexSeq.dbl 10 n = seq 0 n) /\ IndexSeq.dbl 10 5 = [0; 1; 2; 3; 3].
Proof. exact IndexSeq.doubling_with_the_wrong_odd_step_refuted. Qed.
