(* CLDispWalk.v — C03: what a walk (dispatch, forEach) over a dispatcher's list calls, while other threads add to and
   remove from the same list, on the dispatcher machine of CLDispConc.v itself.

   The machine's steps are projected onto the events of CLTrav.v: the head read of a walk is `tinit`, its look at a node is
   `TVisit`, its step to the next node is `TAdvance`, and a list section executed by ANY thread on the same event is
   `TOther`; sections on other events' lists do not touch the walk at all.  The projection is computed by a ghost that runs
   beside the machine (`gstep`: it reads the configuration, it never changes it), and the invariant `WI` says that the ghost
   and the machine agree — same list, same cursor, same visited nodes — and that CLTrav's invariant `TInv` holds of the ghost
   for the generation counter the walk has loaded (before the load: for every value the counter may still take, since the
   load comes after the head read).  For EVERY schedule, every finished walk has called no callback twice and every callback
   whose node was in the list when the walk read head and was not removed before the walk ended. *)
From Coq Require Import List Arith NArith ZArith Bool Lia.
From EV Require Import CLModel CLHeap CLOps CLRefine CLSec CLConcProofs CLTrav CLConcTrav CLDisp CLDispConc.
From EV.gen Require GenCL.
Import ListNotations.
Local Open Scope nat_scope.

Record wrec := mkW { we : nat; wids0 : list nid; wst : tst; wbase : nat; wcapt : option N }.
Record ghost := mkG {
  gids : nat -> list nid;                                           (* the content of every event's list *)
  gw : nat -> option wrec;                                          (* the walk in progress of each thread, from its head read on *)
  gdone : list (nat * nat * list nid * list nid * list nid)         (* finished walks: thread, event, content at the head read, removed meanwhile, visited *)
}.

Definition vis_by (t : nat) (l : list (nat * nat * nat)) : list nat :=
  map snd (filter (fun v => Nat.eqb (fst (fst v)) t) l).

Definition see (e : nat) (s : sec) (f : nat -> option wrec) : nat -> option wrec :=
  fun u => match f u with
           | Some w => if Nat.eqb (we w) e then Some (mkW (we w) (wids0 w) (tstep 0%N (wst w) (TOther s)) (wbase w) (wcapt w)) else Some w
           | None => None
           end.

Definition gsection (c : dconf) (x : dsec) (G : ghost) : ghost :=
  let e := ev_of x in
  mkG (upd (gids G) e (fst (sec_spec (length (heap (dget (dmap c) e))) (gids G e) (sec_of x)))) (see e (sec_of x) (gw G)) (gdone G).

Definition gstep (c : dconf) (t : nat) (G : ghost) : ghost :=
  match fst (thr c t) with
  | WantM n x => if needsM (sec_of x) then G else gsection c x G
  | HaveM n x => gsection c x G
  | WalkHaveM e None capt =>
      mkG (gids G) (upd (gw G) t (Some (mkW e (gids G e) (tinit (dget (dmap c) e) (gids G e)) (length (vis_by t (dvis c))) None))) (gdone G)
  | WalkHaveM e (Some n) capt =>
      match gw G t with
      | Some w => mkG (gids G) (upd (gw G) t (Some (mkW (we w) (wids0 w) (tstep 0%N (wst w) TAdvance) (wbase w) (wcapt w)))) (gdone G)
      | None => G
      end
  | WalkAt e (Some n) capt =>
      let k := match capt with Some k => k | None => dcnt c e end in
      match gw G t with
      | Some w => mkG (gids G) (upd (gw G) t (Some (mkW (we w) (wids0 w) (tstep k (wst w) TVisit) (wbase w) (Some k)))) (gdone G)
      | None => G
      end
  | WalkAt e None capt =>
      match gw G t with
      | Some w => mkG (gids G) (upd (gw G) t None) ((t, e, wids0 w, tgone (wst w), tvis (wst w)) :: gdone G)
      | None => G
      end
  | _ => G
  end.

Fixpoint grun (c : dconf) (G : ghost) (sched : list nat) : dconf * ghost :=
  match sched with [] => (c, G) | t :: r => grun (dcstep c t) (gstep c t G) r end.

Definition ginit : ghost := mkG (fun _ => []) (fun _ => None) [].

Lemma grun_machine sched : forall c G, fst (grun c G sched) = dcrun c sched.
Proof. induction sched as [|t r IH]; intros c G; cbn [grun dcrun]; [reflexivity|apply IH]. Qed.

(* ---------- the invariant ---------- *)
(* the phases in which the ghost follows a walk: (event, cursor, has the node been looked at, loaded counter) *)
Definition wshape (p : ph) : option (nat * option nat * bool * option N) :=
  match p with
  | WalkRead e node capt | WalkAt e node capt => Some (e, node, false, capt)
  | WalkWantM e (Some n) capt | WalkHaveM e (Some n) capt => Some (e, Some n, true, capt)
  | _ => None
  end.
Definition pend (p : ph) : option dsec := match p with WantM _ x | HaveM _ x => Some x | _ => None end.
(* a walk that has not read head yet has not loaded the counter either *)
Definition fresh (p : ph) : Prop := match p with WalkWantM _ None capt | WalkHaveM _ None capt => capt = None | _ => True end.

Definition Common (c : dconf) (G : ghost) (t : nat) (w : wrec) : Prop :=
  tg (wst w) = dget (dmap c) (we w) /\ tids (wst w) = gids G (we w) /\
  (wbase w <= length (vis_by t (dvis c)) /\ skipn (wbase w) (vis_by t (dvis c)) = tvis (wst w)) /\
  match wcapt w with
  | Some k => TInv k (wids0 w) (wst w)
  | None => forall k, (dcnt c (we w) <= k)%N -> TInv k (wids0 w) (wst w)
  end.

Definition walk_ok (rec : nat * nat * list nid * list nid * list nid) : Prop :=
  let '(_, _, ids0, gone, vis) := rec in NoDup vis /\ forall z, In z ids0 -> ~ In z gone -> In z vis.

Record WI (c : dconf) (G : ghost) : Prop := {
  w_lists : forall e, GInv (dget (dmap c) e) (gids G e) /\ ctrs_le (dcnt c e) (dget (dmap c) e) (gids G e);
  w_pend : forall t x, pend (fst (thr c t)) = Some x ->
           sec_counter_ok (sec_of x) /\ (ctr_of (sec_of x) <= dcnt c (ev_of x))%N;
  w_walk : forall t,
           match wshape (fst (thr c t)), gw G t with
           | Some (e, cur, looked, capt), Some w =>
               we w = e /\ tcur (wst w) = cur /\ tph (wst w) = looked /\ wcapt w = capt /\ Common c G t w
           | None, None => True
           | _, _ => False
           end;
  w_fresh : forall t, fresh (fst (thr c t));
  w_done : Forall walk_ok (gdone G)
}.

Lemma wi_init prog : WI (dinit prog) ginit.
Proof.
  constructor; cbn.
  - intros e. split; [exact ginv_empty|intros z []].
  - intros t x H; discriminate.
  - intros t. exact Logic.I.
  - intros t. exact Logic.I.
  - constructor.
Qed.

(* a section does not use the loaded counter *)
Lemma tstep_other k k' st s : tstep k st (TOther s) = tstep k' st (TOther s).
Proof. reflexivity. Qed.
Lemma tstep_advance k k' st : tstep k st TAdvance = tstep k' st TAdvance.
Proof. reflexivity. Qed.

Lemma dget_create d e e' : d e = None -> dget (dset d e empty_group) e' = dget d e'.
Proof. intros H. rewrite dget_dset. destruct (Nat.eqb_spec e' e) as [->|?]; [unfold dget; rewrite H; reflexivity|reflexivity]. Qed.

Lemma ctr_of_with_k s k : adds s = true -> ctr_of (with_k s k) = k.
Proof. destruct s; cbn; try discriminate; reflexivity. Qed.
Lemma ctr_of_nonadding s : adds s = false -> ctr_of s = 0%N.
Proof. destruct s; cbn; try discriminate; reflexivity. Qed.
Lemma counter_ok_with_k s k : k <> GenCL.removed_marker -> sec_counter_ok (with_k s k).
Proof. destruct s; cbn; auto. Qed.
Lemma counter_ok_nonadding s : adds s = false -> sec_counter_ok s.
Proof. destruct s; cbn; try discriminate; auto. Qed.

Lemma vis_by_app t l v : vis_by t (l ++ v) = vis_by t l ++ vis_by t v.
Proof. unfold vis_by. rewrite filter_app, map_app. reflexivity. Qed.

Lemma skipn_app_le {A} n (l r : list A) : n <= length l -> skipn n (l ++ r) = skipn n l ++ r.
Proof.
  revert l; induction n as [|n IH]; intros l H; [reflexivity|].
  destruct l as [|x l]; [cbn in H; lia|]. cbn [app skipn]. apply IH. cbn in H. lia.
Qed.

(* from CLTrav's invariant at the end of a traversal *)
Lemma tinv_end k ids0 st : TInv k ids0 st -> tcur st = None ->
  NoDup (tvis st) /\ forall z, In z ids0 -> ~ In z (tgone st) -> In z (tvis st).
Proof.
  intros [G' Hcur Hlt Hnd Hbeh Hcond Hseen Htodo] En. split; [exact Hnd|].
  intros z Hz Hg. rewrite En in Htodo. destruct (Htodo None (fl_none _) z Hz Hg) as [X|X]; [destruct X|exact X].
Qed.

(* ---------- steps that move one thread between phases the ghost does not follow differently ---------- *)
Lemma wi_frame c c' G t :
  WI c G ->
  (forall e, dget (dmap c') e = dget (dmap c) e) -> (forall e, (dcnt c e <= dcnt c' e)%N) -> dvis c' = dvis c ->
  (forall u, u <> t -> thr c' u = thr c u) ->
  wshape (fst (thr c' t)) = wshape (fst (thr c t)) ->
  (forall x, pend (fst (thr c' t)) = Some x -> sec_counter_ok (sec_of x) /\ (ctr_of (sec_of x) <= dcnt c' (ev_of x))%N) ->
  fresh (fst (thr c' t)) ->
  WI c' G.
Proof.
  intros I Hd Hc Hv Hu Hs Hp Hf. constructor.
  - intros e. rewrite Hd. destruct (w_lists c G I e) as [A B]. split; [exact A|]. apply (ctrs_le_mono (dcnt c e)); [apply Hc|exact B].
  - intros u x H. destruct (Nat.eq_dec u t) as [->|Hne]; [apply Hp; exact H|].
    rewrite (Hu u Hne) in H. destruct (w_pend c G I u x H) as [A B]. split; [exact A|]. specialize (Hc (ev_of x)). lia.
  - intros u. generalize (w_walk c G I u).
    assert (Es : wshape (fst (thr c' u)) = wshape (fst (thr c u))).
    { destruct (Nat.eq_dec u t) as [->|Hne]; [exact Hs|rewrite (Hu u Hne); reflexivity]. }
    rewrite Es. destruct (wshape (fst (thr c u))) as [[[[e cur] looked] capt]|]; destruct (gw G u) as [w|]; auto.
    intros (A & B & C & D & E1 & E2 & E3 & E4). split; [exact A|]. split; [exact B|]. split; [exact C|]. split; [exact D|].
    split; [rewrite Hd; exact E1|]. split; [exact E2|]. split; [rewrite Hv; exact E3|].
    destruct (wcapt w); [exact E4|]. intros k Hk. apply E4. specialize (Hc (we w)). lia.
  - intros u. destruct (Nat.eq_dec u t) as [->|Hne]; [exact Hf|rewrite (Hu u Hne); apply (w_fresh c G I)].
  - apply (w_done c G I).
Qed.

(* ---------- a list section, executed by any thread ---------- *)
Lemma wi_section c c' G t x :
  WI c G -> pend (fst (thr c t)) = Some x ->
  (forall e', dget (dmap c') e' = if Nat.eqb e' (ev_of x) then fst (sec_step (dget (dmap c) (ev_of x)) (sec_of x)) else dget (dmap c) e') ->
  dcnt c' = dcnt c -> dvis c' = dvis c -> (forall u, u <> t -> thr c' u = thr c u) ->
  wshape (fst (thr c' t)) = None -> pend (fst (thr c' t)) = None -> fresh (fst (thr c' t)) ->
  WI c' (gsection c x G).
Proof.
  intros I Hx Hd Hc Hv Hu Hs Hp Hf.
  destruct (w_pend c G I t x Hx) as [Hok Hk].
  set (e := ev_of x) in *. set (s := sec_of x) in *.
  destruct (w_lists c G I e) as [Ge Ce].
  destruct (other_effect (dget (dmap c) e) (gids G e) s Ge Hok) as (G' & _). cbv zeta in G'.
  assert (Tt : wshape (fst (thr c t)) = None) by (destruct (fst (thr c t)); try discriminate; reflexivity).
  constructor; unfold gsection; fold e; fold s; cbn [gids gw gdone].
  - intros e'. rewrite (Hd e'), Hc. destruct (Nat.eqb_spec e' e) as [->|Hne].
    + rewrite upd_same. split; [exact G'|]. apply sec_ctr_bound; assumption.
    + rewrite upd_other by assumption. apply (w_lists c G I e').
  - intros u y H. rewrite Hc. destruct (Nat.eq_dec u t) as [->|Hne]; [rewrite Hp in H; discriminate|].
    rewrite (Hu u Hne) in H. apply (w_pend c G I u y H).
  - intros u. generalize (w_walk c G I u). unfold see.
    destruct (Nat.eq_dec u t) as [->|Hne].
    + rewrite Hs, Tt. destruct (gw G t); [intros []|auto].
    + rewrite (Hu u Hne). destruct (wshape (fst (thr c u))) as [[[[eu cur] looked] capt]|]; destruct (gw G u) as [w|]; auto; try (intros F; exfalso; exact F).
      intros (A & B & C & D & E1 & E2 & E3 & E4).
      destruct (Nat.eqb_spec (we w) e) as [Ew|Ew]; cbn [we wids0 wst wbase wcapt].
      * split; [exact A|]. split; [exact B|]. split; [exact C|]. split; [exact D|].
        unfold Common. cbn [we wids0 wst wbase wcapt tstep tg tids tvis gids gw gdone].
        split; [rewrite (Hd (we w)), Ew, Nat.eqb_refl, E1, Ew; reflexivity|].
        split; [rewrite Ew, upd_same, E1, E2, Ew; reflexivity|].
        split; [rewrite Hv; exact E3|].
        destruct (wcapt w) as [k|].
        -- change (TInv k (wids0 w) (tstep k (wst w) (TOther s))). apply tstep_inv; [exact E4|exact Hok].
        -- intros k Hk'. change (TInv k (wids0 w) (tstep k (wst w) (TOther s))). apply tstep_inv; [|exact Hok].
           apply E4. rewrite <- Hc. exact Hk'.
      * split; [exact A|]. split; [exact B|]. split; [exact C|]. split; [exact D|].
        unfold Common. cbn [gids gw gdone]. split; [rewrite (Hd (we w)); destruct (Nat.eqb_spec (we w) e); [contradiction|exact E1]|].
        split; [rewrite upd_other by assumption; exact E2|]. split; [rewrite Hv; exact E3|].
        rewrite Hc. exact E4.
  - intros u. destruct (Nat.eq_dec u t) as [->|Hne]; [exact Hf|rewrite (Hu u Hne); apply (w_fresh c G I)].
  - apply (w_done c G I).
Qed.

(* ---------- a step of a walk: only the walking thread's ghost changes ---------- *)
Lemma wi_walker c c' G t w' done' :
  WI c G ->
  (forall e, dget (dmap c') e = dget (dmap c) e) -> dcnt c' = dcnt c ->
  (exists calls, dvis c' = dvis c ++ calls /\ forall u, u <> t -> vis_by u calls = []) ->
  (forall u, u <> t -> thr c' u = thr c u) -> pend (fst (thr c' t)) = None -> fresh (fst (thr c' t)) ->
  let G' := mkG (gids G) (upd (gw G) t w') done' in
  match wshape (fst (thr c' t)), w' with
  | Some (e, cur, looked, capt), Some w =>
      we w = e /\ tcur (wst w) = cur /\ tph (wst w) = looked /\ wcapt w = capt /\ Common c' G' t w
  | None, None => True
  | _, _ => False
  end ->
  Forall walk_ok done' ->
  WI c' G'.
Proof.
  intros I Hd Hc (calls & Hv & Hcalls) Hu Hp Hf G' Ht Hdn. constructor; unfold G'; cbn [gids gw gdone].
  - intros e. rewrite Hd, Hc. apply (w_lists c G I).
  - intros u y H. rewrite Hc. destruct (Nat.eq_dec u t) as [->|Hne]; [rewrite Hp in H; discriminate|].
    rewrite (Hu u Hne) in H. apply (w_pend c G I u y H).
  - intros u. destruct (Nat.eq_dec u t) as [->|Hne]; [rewrite upd_same; exact Ht|].
    rewrite upd_other by assumption. rewrite (Hu u Hne). generalize (w_walk c G I u).
    destruct (wshape (fst (thr c u))) as [[[[e cur] looked] capt]|]; destruct (gw G u) as [w|]; auto.
    intros (A & B & C & D & E1 & E2 & [E3a E3b] & E4). split; [exact A|]. split; [exact B|]. split; [exact C|]. split; [exact D|].
    unfold Common. cbn [gids]. split; [rewrite Hd; exact E1|]. split; [exact E2|].
    split; [rewrite Hv, vis_by_app, (Hcalls u Hne), app_nil_r; split; assumption|].
    rewrite Hc. exact E4.
  - intros u. destruct (Nat.eq_dec u t) as [->|Hne]; [exact Hf|rewrite (Hu u Hne); apply (w_fresh c G I)].
  - exact Hdn.
Qed.

(* ---------- every step of the machine keeps ghost and machine together ---------- *)
Lemma removed_marker_zero : GenCL.removed_marker = 0%N.
Proof. reflexivity. Qed.

Ltac thr_t := flat; rewrite upd_same; cbn [fst snd].
Ltac frame_tac c G t I Et :=
  apply (wi_frame c _ G t I);
  [ intros; try reflexivity
  | intros; try (flat; lia)
  | try reflexivity
  | intros u Hu; flat; rewrite upd_other by assumption; reflexivity
  | thr_t; rewrite Et; try reflexivity
  | thr_t; try (intros y Hy; discriminate)
  | thr_t; try exact Logic.I; try reflexivity ].

Theorem wi_step c t G : DInv c -> WI c G -> WI (dcstep c t) (gstep c t G).
Proof.
  intros D I. unfold dcstep, gstep. destruct (thr c t) as [p r] eqn:Et. cbn [fst].
  pose proof (w_walk c G I t) as Wt. rewrite Et in Wt. cbn [fst] in Wt.
  pose proof (w_fresh c G I t) as Ft. rewrite Et in Ft. cbn [fst] in Ft.
  assert (Pt : forall x, pend p = Some x -> sec_counter_ok (sec_of x) /\ (ctr_of (sec_of x) <= dcnt c (ev_of x))%N).
  { intros x H. apply (w_pend c G I t x). rewrite Et. exact H. }
  destruct p as [|n x|n x| |n x|n x|n m|e|e|e cur capt|e cur capt|e node capt|e node capt].
  - (* Idle *)
    destruct r as [|k r']; [exact I|]. destruct (is_none (lkL c)); [|exact I].
    frame_tac c G t I Et; destruct k; try reflexivity; try exact Logic.I; intros y Hy; discriminate.
  - (* HaveL *)
    destruct x as [e s|e s].
    + frame_tac c G t I Et. destruct (dmap c e) eqn:Ee; [reflexivity|]. flat. apply dget_create. exact Ee.
    + destruct (dmap c e); frame_tac c G t I Et.
  - (* Looked: the draw *)
    assert (Hp : forall y, pend (WantM n (tagged c x)) = Some y ->
                 sec_counter_ok (sec_of y) /\ (ctr_of (sec_of y) <= dcnt (draw c x) (ev_of y))%N).
    { intros y Hy. cbn in Hy. inversion Hy; subst y. unfold tagged, draw. destruct (adds (sec_of x)) eqn:Ea.
      - destruct x as [e s|e s]; cbn [retag sec_of ev_of] in *; flat; rewrite upd_same, (ctr_of_with_k s _ Ea).
        + split; [apply counter_ok_with_k; rewrite removed_marker_zero; lia|lia].
        + split; [apply counter_ok_with_k; rewrite removed_marker_zero; lia|lia].
      - split; [apply counter_ok_nonadding; exact Ea|]. rewrite (ctr_of_nonadding _ Ea). lia. }
    assert (Hm : forall e, (dcnt c e <= dcnt (draw c x) e)%N).
    { intros e. unfold draw. destruct (adds (sec_of x)); [|lia]. flat. unfold upd. destruct (Nat.eqb e (ev_of x)) eqn:E; [|lia].
      apply Nat.eqb_eq in E. subst e. lia. }
    assert (Hg : forall e, dget (dmap (draw c x)) e = dget (dmap c) e) by (intros e; unfold draw; destruct (adds (sec_of x)); reflexivity).
    assert (Hv : dvis (draw c x) = dvis c) by (unfold draw; destruct (adds (sec_of x)); reflexivity).
    assert (Ht : thr (draw c x) = thr c) by (unfold draw; destruct (adds (sec_of x)); reflexivity).
    destruct n.
    + apply (wi_frame c _ G t I); [exact Hg|exact Hm|exact Hv| | | |].
      * intros u Hu. flat. rewrite upd_other by assumption. rewrite Ht. reflexivity.
      * thr_t. rewrite Et. reflexivity.
      * thr_t. exact Hp.
      * thr_t. exact Logic.I.
    + apply (wi_frame c _ G t I); [exact Hg|exact Hm|exact Hv| | | |].
      * intros u Hu. flat. rewrite upd_other by assumption. rewrite Ht. reflexivity.
      * thr_t. rewrite Et. reflexivity.
      * thr_t. exact Hp.
      * thr_t. exact Logic.I.
  - (* Absent *)
    frame_tac c G t I Et.
  - (* WantM *)
    destruct (needsM (sec_of x)) eqn:En.
    + destruct (is_none (lkM c (ev_of x))); [|exact I].
      frame_tac c G t I Et. intros y Hy. apply Pt. exact Hy.
    + destruct (do_section_fields c t x) as (F1 & F2 & F3 & F4 & F5 & F6). cbv zeta in *.
      apply (wi_section c _ G t x I); [rewrite Et; reflexivity| | | | | | |].
      * intros e'. unfold set_thr. cbn [dmap]. rewrite F1, dget_dset. reflexivity.
      * unfold set_thr, do_section. destruct (sec_step (dget (dmap c) (ev_of x)) (sec_of x)). reflexivity.
      * unfold set_thr, do_section. destruct (sec_step (dget (dmap c) (ev_of x)) (sec_of x)). reflexivity.
      * intros u Hu. unfold set_thr. cbn [thr]. rewrite upd_other by assumption. rewrite F4. reflexivity.
      * unfold set_thr. cbn [thr]. rewrite upd_same. reflexivity.
      * unfold set_thr. cbn [thr]. rewrite upd_same. reflexivity.
      * unfold set_thr. cbn [thr]. rewrite upd_same. exact Logic.I.
  - (* HaveM *)
    destruct (do_section_fields c t x) as (F1 & F2 & F3 & F4 & F5 & F6). cbv zeta in *.
    apply (wi_section c _ G t x I); [rewrite Et; reflexivity| | | | | | |].
    + intros e'. unfold set_thr. cbn [dmap]. rewrite F1, dget_dset. reflexivity.
    + unfold set_thr, do_section. destruct (sec_step (dget (dmap c) (ev_of x)) (sec_of x)). reflexivity.
    + unfold set_thr, do_section. destruct (sec_step (dget (dmap c) (ev_of x)) (sec_of x)). reflexivity.
    + intros u Hu. unfold set_thr. cbn [thr]. rewrite upd_other by assumption. rewrite F4. reflexivity.
    + unfold set_thr. cbn [thr]. rewrite upd_same. reflexivity.
    + unfold set_thr. cbn [thr]. rewrite upd_same. reflexivity.
    + unfold set_thr. cbn [thr]. rewrite upd_same. exact Logic.I.
  - (* AfterS *)
    destruct m as [e|]; [frame_tac c G t I Et|]. destruct n; frame_tac c G t I Et.
  - (* WalkL *)
    destruct (dmap c e); frame_tac c G t I Et.
  - (* WalkFound *)
    frame_tac c G t I Et.
  - (* WalkWantM *)
    destruct (is_none (lkM c e)); [|exact I]. frame_tac c G t I Et; destruct cur; try reflexivity; try exact Logic.I; exact Ft.
  - (* WalkHaveM: the head read, or the step to the next node *)
    destruct cur as [n|].
    + (* advance *)
      destruct (gw G t) as [w|] eqn:Eg; [|destruct Wt]. cbn [wshape] in Wt.
      destruct Wt as (A & B & C & Dc & E1 & E2 & E3 & E4).
      assert (HT : exists k, TInv k (wids0 w) (wst w)).
      { destruct (wcapt w) as [k|]; [exists k; exact E4|exists (dcnt c (we w)); apply E4; lia]. }
      destruct HT as [k HT].
      destruct (ti_cur k _ _ HT n B) as [nd End].
      assert (Ew : tstep 0%N (wst w) TAdvance = mkT (tg (wst w)) (tids (wst w)) (nxt nd) false (tvis (wst w)) (tgone (wst w))).
      { cbn [tstep]. rewrite C, B, End. reflexivity. }
      assert (En : walk_next c e (Some n) = nxt nd).
      { unfold walk_next, node_of. rewrite <- A, <- E1, End. reflexivity. }
      apply (wi_walker c _ G t (Some (mkW (we w) (wids0 w) (tstep 0%N (wst w) TAdvance) (wbase w) (wcapt w))) (gdone G) I).
      * intros; reflexivity.
      * reflexivity.
      * exists []. split; [flat; rewrite app_nil_r; reflexivity|intros; reflexivity].
      * intros u Hu. flat. rewrite upd_other by assumption. reflexivity.
      * thr_t. reflexivity.
      * thr_t. exact Logic.I.
      * thr_t. cbn [wshape we wst wcapt wids0 wbase]. rewrite Ew, En. cbn [tcur tph].
        split; [exact A|]. split; [reflexivity|]. split; [reflexivity|]. split; [exact Dc|].
        unfold Common. cbn [we wst wcapt wids0 wbase tg tids tvis gids]. flat.
        split; [exact E1|]. split; [exact E2|]. split; [exact E3|].
        rewrite <- Ew. destruct (wcapt w) as [k'|].
        -- change (TInv k' (wids0 w) (tstep k' (wst w) TAdvance)). apply tstep_inv; [exact E4|exact Logic.I].
        -- intros k' Hk'. change (TInv k' (wids0 w) (tstep k' (wst w) TAdvance)). apply tstep_inv; [apply E4; exact Hk'|exact Logic.I].
      * apply (w_done c G I).
    + (* the head read *)
      cbn [fresh] in Ft. subst capt. cbn [wshape] in Wt. destruct (gw G t) as [w|] eqn:Eg; [destruct Wt|].
      destruct (w_lists c G I e) as [Ge Ce].
      apply (wi_walker c _ G t (Some (mkW e (gids G e) (tinit (dget (dmap c) e) (gids G e)) (length (vis_by t (dvis c))) None)) (gdone G) I).
      * intros; reflexivity.
      * reflexivity.
      * exists []. split; [flat; rewrite app_nil_r; reflexivity|intros; reflexivity].
      * intros u Hu. flat. rewrite upd_other by assumption. reflexivity.
      * thr_t. reflexivity.
      * thr_t. exact Logic.I.
      * thr_t. cbn [wshape we wst wcapt wids0 wbase tinit tcur tph].
        split; [reflexivity|]. split; [reflexivity|]. split; [reflexivity|]. split; [reflexivity|].
        unfold Common. cbn [we wst wcapt wids0 wbase tg tids tvis gids]. flat.
        split; [reflexivity|]. split; [reflexivity|]. split; [split; [apply Nat.le_refl|apply skipn_all]|].
        intros k Hk. apply tinit_inv; [exact Ge|]. apply (members_pass _ _ (dcnt c e) k); assumption.
      * apply (w_done c G I).
  - (* WalkRead *)
    frame_tac c G t I Et.
  - (* WalkAt: the look at a node, or the end of the walk *)
    cbn [wshape] in Wt. destruct (gw G t) as [w|] eqn:Eg; [|destruct Wt].
    destruct Wt as (A & B & C & Dc & E1 & E2 & [E3a E3b] & E4).
    set (k := match capt with Some k => k | None => dcnt c e end).
    assert (HT : TInv k (wids0 w) (wst w)).
    { unfold k. rewrite Dc in E4. destruct capt as [k0|]; [exact E4|]. apply E4. rewrite A. lia. }
    destruct node as [n|].
    + (* look at node n *)
      destruct (ti_cur k _ _ HT n B) as [nd End].
      assert (Enode : node_of c e n = Some nd) by (unfold node_of; rewrite <- A, <- E1; exact End).
      assert (Ew : tstep k (wst w) TVisit
                   = mkT (tg (wst w)) (tids (wst w)) (tcur (wst w)) true
                         (if GenCL.visit_cond (ctr nd) k then tvis (wst w) ++ [n] else tvis (wst w)) (tgone (wst w))).
      { cbn [tstep]. rewrite C, B, End. reflexivity. }
      assert (Ec : vis_by t (walk_calls c t e n k) = if GenCL.visit_cond (ctr nd) k then [n] else []).
      { unfold walk_calls. rewrite Enode. destruct (GenCL.visit_cond (ctr nd) k); [|reflexivity].
        unfold vis_by. cbn [filter fst snd map]. rewrite Nat.eqb_refl. reflexivity. }
      apply (wi_walker c _ G t (Some (mkW (we w) (wids0 w) (tstep k (wst w) TVisit) (wbase w) (Some k))) (gdone G) I).
      * intros; reflexivity.
      * reflexivity.
      * exists (walk_calls c t e n k). split; [reflexivity|]. intros u Hu. unfold walk_calls. rewrite Enode.
        destruct (GenCL.visit_cond (ctr nd) k); [|reflexivity]. unfold vis_by. cbn [filter fst snd map].
        destruct (Nat.eqb_spec t u); [subst; contradiction|reflexivity].
      * intros u Hu. flat. rewrite upd_other by assumption. reflexivity.
      * thr_t. reflexivity.
      * thr_t. exact Logic.I.
      * thr_t. cbn [wshape we wst wcapt wids0 wbase]. rewrite Ew. cbn [tcur tph].
        split; [exact A|]. split; [exact B|]. split; [reflexivity|]. split; [reflexivity|].
        unfold Common. cbn [we wst wcapt wids0 wbase tg tids tvis gids]. flat.
        split; [exact E1|]. split; [exact E2|]. rewrite vis_by_app, Ec. split.
        -- split; [rewrite app_length; lia|]. rewrite skipn_app_le by exact E3a. rewrite E3b.
           destruct (GenCL.visit_cond (ctr nd) k); [reflexivity|apply app_nil_r].
        -- rewrite <- Ew. apply tstep_inv; [exact HT|exact Logic.I].
      * apply (w_done c G I).
    + (* the walk ends *)
      apply (wi_walker c _ G t None ((t, e, wids0 w, tgone (wst w), tvis (wst w)) :: gdone G) I).
      * intros; reflexivity.
      * reflexivity.
      * exists []. split; [flat; rewrite app_nil_r; reflexivity|intros; reflexivity].
      * intros u Hu. flat. rewrite upd_other by assumption. reflexivity.
      * thr_t. reflexivity.
      * thr_t. exact Logic.I.
      * thr_t. exact Logic.I.
      * constructor; [|apply (w_done c G I)]. cbn [walk_ok]. apply (tinv_end k); [exact HT|exact B].
Qed.

Theorem wi_run sched : forall c G, DInv c -> WI c G -> WI (fst (grun c G sched)) (snd (grun c G sched)).
Proof.
  induction sched as [|t r IH]; intros c G D I; cbn [grun fst snd]; [exact I|].
  apply IH; [apply dcstep_inv; exact D|apply wi_step; assumption].
Qed.

(* EVERY SCHEDULE: every walk that has ended called no callback twice, and called every callback whose node was in the
   event's list when the walk read head and was not removed before the walk ended *)
Theorem dispatcher_walks_visit_what_stayed prog sched :
  (forall t, Forall call_wf (prog t)) ->
  let G := snd (grun (dinit prog) ginit sched) in
  Forall walk_ok (gdone G).
Proof.
  intros Hw G. apply (w_done (fst (grun (dinit prog) ginit sched))).
  apply wi_run; [apply init_inv; exact Hw|apply wi_init].
Qed.

(* and a walk in progress has called exactly the nodes the ghost has visited: the ghost's record is the machine's *)
Theorem dispatcher_walk_record_is_the_machines prog sched t w :
  (forall t, Forall call_wf (prog t)) ->
  let c := dcrun (dinit prog) sched in
  let G := snd (grun (dinit prog) ginit sched) in
  gw G t = Some w -> skipn (wbase w) (vis_by t (dvis c)) = tvis (wst w) /\ tg (wst w) = dget (dmap c) (we w).
Proof.
  intros Hw c G Hg. pose proof (wi_run sched (dinit prog) ginit (init_inv prog Hw) (wi_init prog)) as I.
  rewrite grun_machine in I. fold c in I. fold G in I.
  generalize (w_walk c G I t). rewrite Hg. destruct (wshape (fst (thr c t))) as [[[[e cur] looked] capt]|]; [|intros []].
  intros (_ & _ & _ & _ & E1 & _ & [_ E3] & _). split; assumption.
Qed.

(* list order: whenever a walk is about to call the callback of the node it stands on, every node it called earlier and
   that is still in the list stands before that node in the list (CLSec.ordered_visit, the check the list machine makes at
   every visit; here a consequence of CLTrav's invariant carried by the ghost) *)
Theorem dispatcher_walk_visits_in_list_order prog sched t e n capt r w nd :
  (forall t, Forall call_wf (prog t)) ->
  let c := dcrun (dinit prog) sched in
  let G := snd (grun (dinit prog) ginit sched) in
  thr c t = (WalkAt e (Some n) capt, r) -> gw G t = Some w -> node_of c e n = Some nd ->
  GenCL.visit_cond (ctr nd) (match capt with Some k => k | None => dcnt c e end) = true ->
  ordered_visit (dget (dmap c) e) (tvis (wst w)) n = true /\ skipn (wbase w) (vis_by t (dvis c)) = tvis (wst w).
Proof.
  intros Hw c G Ht Hg Hn Hv.
  pose proof (wi_run sched (dinit prog) ginit (init_inv prog Hw) (wi_init prog)) as I.
  rewrite grun_machine in I. fold c in I. fold G in I.
  generalize (w_walk c G I t). rewrite Ht, Hg. cbn [fst wshape].
  intros (A & B & C & D & E1 & E2 & [E3a E3b] & E4). split; [|exact E3b].
  set (k := match capt with Some k => k | None => dcnt c e end) in *.
  assert (HT : TInv k (wids0 w) (wst w)).
  { unfold k. rewrite D in E4. destruct capt as [k0|]; [exact E4|]. apply E4. rewrite A. lia. }
  rewrite <- A, <- E1. apply (visit_is_ordered k (wids0 w) (wst w) n nd HT C B); [|exact Hv].
  unfold node_of in Hn. rewrite E1, A. exact Hn.
Qed.
