(* CLConc.v — thread-level model of eventpp::CallbackList (callbacklist.h) for C03.

   Same machine as QConc.v: an API call is transcribed into its VISIBLE actions (lock / unlock
   of the list's mutex, operations on the atomic currentCounter) and the LOCAL code between
   them; one scheduler step = the chosen thread performs its pending visible action and runs
   on to its next one.  The critical sections are the group operations of CLModel (g_alloc,
   g_link_back, g_link_front, g_link_before, g_unlink) — the very functions the sequential
   proofs are about, packaged as CLSec.sec_step; every executed section is recorded in the ghost
   lsecs (CLConcProj.v: the list is the replay of that record).  Counters are drawn BEFORE the
   mutex is taken, as in the header.
   Definitions only. *)
From Coq Require Import List Arith NArith ZArith Bool.
From EV Require Import CLModel.
From EV Require Export CLSec.
From EV.gen Require GenCL.
Import ListNotations.
Local Open Scope nat_scope.

Inductive lapi :=
| LAppend (c h : nat) | LPrepend (c h : nat) | LInsert (c hb h : nat) | LRemove (h : nat) | LOwns (h : nat)
| LEmpty | LInvoke (a : Z) | LForEach.

Inductive lact :=
| LaLock (t : nat) | LaUnlock (t : nat) | LaInc (t : nat) (v : N) | LaLoad (t : nat) (v : N)
| LaCall (t : nat) (c : nat) (a : Z) | LaVisit (t : nat) (c : nat)
| LaRes (t : nat) (b : bool) | LaDone (t : nat) | LaDeadlock.

Record lshared := mkLS {
  lgrp : group;                 (* heap, head, tail of the one list *)
  lcc : N;                      (* currentCounter *)
  lown : option nat;            (* owner of the list's mutex *)
  lregs : list (nat * option nat);   (* shared handle registers: node id or empty *)
  llog : list lact;
  lsecs : list (nat * sec * bool);   (* ghost: the critical sections executed so far (thread, section, result), newest first *)
  lbad : bool;                       (* ghost: some local code marked `locked` ran while its thread did not hold the mutex *)
  lunord : bool;                     (* ghost: some traversal visited a node although a node it had visited earlier, and
                                        that was still in the list, did not stand before it *)
  lcrec : list (nat * nat * nat * nat);
                                     (* ghost: finished calls (thread, length of lsecs when the call began, position of the call's
                                        section in the record — 0 if it has none —, length of lsecs when the call ended) *)
  ltravs : list (nat * nat * nat * list nat)
                                     (* ghost: finished traversals (thread, length of lsecs when it read head, length of
                                        lsecs when it ended, nodes it visited in order) *)
}.

Record llocals := mkLL {
  ln : option nat;              (* the node allocated by this call *)
  lk : N;                       (* the counter drawn for it *)
  lbefore : option nat;         (* insert: the node the `before` handle locked to *)
  lcur : option nat;            (* traversal cursor *)
  lcapt : N;                    (* captured counter *)
  lresb : bool;
  (* ghosts of the traversal argument (CLConcProj.v) *)
  lvis : list nat;              (* nodes the current traversal has visited, oldest first *)
  lph : bool;                   (* the node the cursor stands on has been looked at; the next own step is the advance *)
  lp0 : nat;                    (* length of lsecs when the current traversal read head *)
  (* ghosts of the real-time-order argument *)
  lb0 : nat;                    (* length of lsecs when the current call began *)
  lsi : nat                     (* position of the current call's section in the record (1-based); 0: none yet *)
}.

Definition ll0 : llocals := mkLL None 0 None None 0 false [] false 0 0 0.
Definition ll_begin (p : nat) : llocals := mkLL None 0 None None 0 false [] false 0 p 0.

Definition ll_n l v := mkLL v (lk l) (lbefore l) (lcur l) (lcapt l) (lresb l) (lvis l) (lph l) (lp0 l) (lb0 l) (lsi l).
Definition ll_k l v := mkLL (ln l) v (lbefore l) (lcur l) (lcapt l) (lresb l) (lvis l) (lph l) (lp0 l) (lb0 l) (lsi l).
Definition ll_before l v := mkLL (ln l) (lk l) v (lcur l) (lcapt l) (lresb l) (lvis l) (lph l) (lp0 l) (lb0 l) (lsi l).
Definition ll_cur l v := mkLL (ln l) (lk l) (lbefore l) v (lcapt l) (lresb l) (lvis l) (lph l) (lp0 l) (lb0 l) (lsi l).
Definition ll_capt l v := mkLL (ln l) (lk l) (lbefore l) (lcur l) v (lresb l) (lvis l) (lph l) (lp0 l) (lb0 l) (lsi l).
Definition ll_resb l v := mkLL (ln l) (lk l) (lbefore l) (lcur l) (lcapt l) v (lvis l) (lph l) (lp0 l) (lb0 l) (lsi l).
(* the traversal's ghosts: start (cursor := head), a look at the current node, the step to the next node *)
Definition ll_start l (c : option nat) (p : nat) := mkLL (ln l) (lk l) (lbefore l) c (lcapt l) (lresb l) [] false p (lb0 l) (lsi l).
Definition ll_look l (v : list nat) := mkLL (ln l) (lk l) (lbefore l) (lcur l) (lcapt l) (lresb l) v true (lp0 l) (lb0 l) (lsi l).
Definition ll_step l (c : option nat) := mkLL (ln l) (lk l) (lbefore l) c (lcapt l) (lresb l) (lvis l) false (lp0 l) (lb0 l) (lsi l).
Definition ll_si l (i : nat) := mkLL (ln l) (lk l) (lbefore l) (lcur l) (lcapt l) (lresb l) (lvis l) (lph l) (lp0 l) (lb0 l) i.

Inductive linstr :=
| JLock | JUnlock | JInc | JLoad | JStart
| JLocal (locked : bool) (f : nat -> lshared -> llocals -> lshared * llocals)   (* locked: touches the links / head / tail *)
| JIf (c : lshared -> llocals -> bool) (a b : list linstr)
| JLoop                           (* the while(node) loop of doForEachIf; mode in the thread *)
| JRes | JDone.

Definition ls_grp s v := mkLS v (lcc s) (lown s) (lregs s) (llog s) (lsecs s) (lbad s) (lunord s) (lcrec s) (ltravs s).
Definition ls_cc s v := mkLS (lgrp s) v (lown s) (lregs s) (llog s) (lsecs s) (lbad s) (lunord s) (lcrec s) (ltravs s).
Definition ls_own s v := mkLS (lgrp s) (lcc s) v (lregs s) (llog s) (lsecs s) (lbad s) (lunord s) (lcrec s) (ltravs s).
Definition ls_reg s h v := mkLS (lgrp s) (lcc s) (lown s) ((h, v) :: lregs s) (llog s) (lsecs s) (lbad s) (lunord s) (lcrec s) (ltravs s).
Definition ls_log s e := mkLS (lgrp s) (lcc s) (lown s) (lregs s) (e :: llog s) (lsecs s) (lbad s) (lunord s) (lcrec s) (ltravs s).
Definition ls_sec s e := mkLS (lgrp s) (lcc s) (lown s) (lregs s) (llog s) (e :: lsecs s) (lbad s) (lunord s) (lcrec s) (ltravs s).
Definition ls_bad s := mkLS (lgrp s) (lcc s) (lown s) (lregs s) (llog s) (lsecs s) true (lunord s) (lcrec s) (ltravs s).
Definition ls_unord s := mkLS (lgrp s) (lcc s) (lown s) (lregs s) (llog s) (lsecs s) (lbad s) true (lcrec s) (ltravs s).
Definition ls_trav s e := mkLS (lgrp s) (lcc s) (lown s) (lregs s) (llog s) (lsecs s) (lbad s) (lunord s) (lcrec s) (e :: ltravs s).
Definition ls_call s e := mkLS (lgrp s) (lcc s) (lown s) (lregs s) (llog s) (lsecs s) (lbad s) (lunord s) (e :: lcrec s) (ltravs s).

Definition holds (t : nat) (s : lshared) : bool := match lown s with Some u => Nat.eqb u t | None => false end.

Definition reg_of (s : lshared) (h : nat) : option nat :=
  match lookup h (lregs s) with Some v => v | None => None end.

Definition node_of (s : lshared) (n : nat) : option node := nth_error (heap (lgrp s)) n.

Definition W32 : N := 4294967296.

  (* getNextCounter(): ++currentCounter (the wrap branch is C19's business: excluded here) *)
  Definition draw : list linstr := [JInc].      (* the new value is this thread's counter (lk): lperform *)

  (* a critical section: CLSec.sec_step on the list, recorded in the ghost lsecs.  For the adding calls the node is
     created here: in the header `doAllocateNode` runs before the lock_guard, but it touches nothing shared — the index a
     node gets in the model's heap is an artefact that no trace shows — so the model numbers the node when it is linked.
     The counter is still drawn before the mutex is taken (draw, above). *)
  Definition do_sec (locked : bool) (x : lshared -> llocals -> sec) : linstr :=
    JLocal locked (fun t s l =>
                     let sc := x s l in
                     let '(g1, b) := sec_step (lgrp s) sc in
                     (ls_sec (ls_grp s g1) (t, sc, b),
                      ll_si (ll_resb (ll_n l (if adds sc then Some (length (heap (lgrp s))) else ln l)) (if adds sc then lresb l else b))
                            (S (length (lsecs s))))).

  Definition lcode_of (c : lapi) : list linstr :=
    match c with
    | LAppend cb h =>
        draw ++ [JLock; do_sec true (fun _ l => SBack cb (lk l)); JUnlock;
                 JLocal false (fun _ s l => (ls_reg s h (ln l), l)); JDone]
    | LPrepend cb h =>
        draw ++ [JLock; do_sec true (fun _ l => SFront cb (lk l)); JUnlock;
                 JLocal false (fun _ s l => (ls_reg s h (ln l), l)); JDone]
    | LInsert cb hb h =>
        (* NodePtr beforeNode = before.lock(): any node the handle still refers to (live or removed-but-alive);
           an empty handle gives null.  Both paths draw a counter, allocate and take the mutex once. *)
        [JLocal false (fun _ s l => (s, ll_before l (reg_of s hb)))]
        ++ draw ++
        [JLock; do_sec true (fun _ l => SBefore cb (lk l) (lbefore l)); JUnlock;
         JLocal false (fun _ s l => (ls_reg s h (ln l), l)); JDone]
    | LRemove h => [JLock; do_sec true (fun s _ => SRemove (reg_of s h)); JUnlock; JRes]
    | LOwns h => [JLock; do_sec true (fun s _ => SOwns (reg_of s h)); JUnlock; JRes]
    | LEmpty => [do_sec false (fun _ _ => SEmpty); JRes]
    | LInvoke _ | LForEach =>
        [JLock; JLocal true (fun _ s l => (s, ll_start l (ghead (lgrp s)) (length (lsecs s)))); JUnlock;
         JLoad; JLoop;
         JLocal false (fun t s l => (ls_trav s (t, lp0 l, length (lsecs s), lvis l), l));     (* ghost: the traversal is over *)
         JDone]
    end.
Record lthread := mkLT { lcode : list linstr; lcalls : list lapi; lloc : llocals; lfin : bool; lmode : option Z (* Some a: invoke with a; None: forEach *) }.

(* one iteration of the loop: visit test on the plain fields of the cursor node, the callback
   (local: it does not touch the list), then the locked step node = node->next *)
Definition loop_body (mode : option Z) : list linstr :=
  [JIf (fun _ l => match lcur l with Some _ => true | None => false end)
       [JLocal false (fun t s l =>
                        match lcur l with
                        | Some n =>
                            match node_of s n with
                            | Some nd =>
                                if GenCL.visit_cond (ctr nd) (lcapt l)
                                then (ls_log (if ordered_visit (lgrp s) (lvis l) n then s else ls_unord s)     (* ghost *)
                                              (match mode with Some a => LaCall t (cb nd) a | None => LaVisit t (cb nd) end),
                                      ll_look l (lvis l ++ [n]))
                                else (s, ll_look l (lvis l))
                            | None => (s, l)
                            end
                        | None => (s, l)
                        end);
        JLock;
        JLocal true (fun _ s l =>
                       match lcur l with
                       | Some n => match node_of s n with
                                   | Some nd => (s, ll_step l (nxt nd))
                                   | None => (s, ll_step l None)
                                   end
                       | None => (s, l)
                       end);
        JUnlock; JLoop]
       []].

(* ghost: the call of thread t that ends here, with its stamps *)
Definition call_end (t : nat) (s : lshared) (l : llocals) : lshared := ls_call s (t, lb0 l, lsi l, length (lsecs s)).

Fixpoint ladvance (fuel : nat) (t : nat) (s : lshared) (th : lthread) : lshared * lthread :=
  match fuel with
  | 0 => (s, th)
  | S f =>
      match lcode th with
      | [] =>
          match lcalls th with
          | [] => (s, mkLT [] [] (lloc th) true (lmode th))
          | c :: r =>
              ladvance f t s (mkLT (lcode_of c) r (ll_begin (length (lsecs s))) false (match c with LInvoke x => Some x | _ => None end))
          end
      | i :: rest =>
          match i with
          | JLocal b fn =>
              (* ghost: note it if code that touches the links runs without the mutex *)
              let s0 := if b && negb (holds t s) then ls_bad s else s in
              let '(s1, l1) := fn t s0 (lloc th) in ladvance f t s1 (mkLT rest (lcalls th) l1 false (lmode th))
          | JIf c a b => ladvance f t s (mkLT ((if c s (lloc th) then a else b) ++ rest) (lcalls th) (lloc th) false (lmode th))
          | JLoop => ladvance f t s (mkLT (loop_body (lmode th) ++ rest) (lcalls th) (lloc th) false (lmode th))
          | JRes => ladvance f t (call_end t (ls_log s (LaRes t (lresb (lloc th)))) (lloc th)) (mkLT rest (lcalls th) (lloc th) false (lmode th))
          | JDone => ladvance f t (call_end t (ls_log s (LaDone t)) (lloc th)) (mkLT rest (lcalls th) (lloc th) false (lmode th))
          | _ => (s, th)
          end
      end
  end.

Definition lenabled (s : lshared) (th : lthread) : bool :=
  if lfin th then false else
  match lcode th with
  | JLock :: _ => match lown s with None => true | Some _ => false end
  | _ :: _ => true
  | [] => true          (* between two calls (only when ladvance ran out of fuel there): the next step starts the next call *)
  end.

Fixpoint lset (l : list lthread) (i : nat) (x : lthread) : list lthread :=
  match l, i with
  | [], _ => []
  | _ :: r, 0 => x :: r
  | y :: r, S j => y :: lset r j x
  end.

Definition LFUEL := 400.

Definition lperform (t : nat) (s : lshared) (ths : list lthread) : lshared * list lthread :=
  match nth_error ths t with
  | None => (s, ths)
  | Some th =>
      match lcode th with
      | i :: rest =>
          let th1 := mkLT rest (lcalls th) (lloc th) false (lmode th) in
          let '(s1, th1') :=
            match i with
            | JLock => (ls_own (ls_log s (LaLock t)) (Some t), th1)
            | JUnlock => (ls_own (ls_log s (LaUnlock t)) None, th1)
            | JInc => let v := ((lcc s + 1) mod W32)%N in
                      (ls_log (ls_cc s v) (LaInc t v),
                       mkLT rest (lcalls th) (ll_k (lloc th) v) false (lmode th))
            | JLoad => (ls_log s (LaLoad t (lcc s)),
                        mkLT rest (lcalls th) (ll_capt (lloc th) (lcc s)) false (lmode th))
            | JStart => (s, th1)
            | _ => (s, th)
            end in
          let '(s2, th2) := ladvance LFUEL t s1 th1' in
          (s2, lset ths t th2)
      | [] => let '(s2, th2) := ladvance LFUEL t s th in (s2, lset ths t th2)
      end
  end.

Fixpoint lfirst (l : list lthread) (i : nat) (p : lthread -> bool) : option nat :=
  match l with [] => None | th :: r => if p th then Some i else lfirst r (S i) p end.

Fixpoint lnext (s : lshared) (ths : list lthread) (sch : list nat) : option nat * list nat :=
  match sch with
  | [] => (None, [])
  | t :: r => match nth_error ths t with
              | Some th => if lenabled s th then (Some t, r) else lnext s ths r
              | None => lnext s ths r
              end
  end.

Fixpoint lrun (fuel : nat) (s : lshared) (ths : list lthread) (sch : list nat) : lshared * list lthread :=
  match fuel with
  | 0 => (s, ths)
  | S f =>
      let '(pick, rest) := lnext s ths sch in
      match (match pick with Some t => Some t | None => lfirst ths 0 (lenabled s) end) with
      | Some t => let '(s1, ths1) := lperform t s ths in lrun f s1 ths1 rest
      | None => if forallb lfin ths then (s, ths) else (ls_log s LaDeadlock, ths)
      end
  end.

Definition ls0 : lshared := mkLS empty_group 0 None [] [] [] false false [] [].
Definition lstart (progs : list (list lapi)) : list lthread := map (fun p => mkLT [JStart] p ll0 false None) progs.

Definition lc_run_case (fuel : nat) (progs : list (list lapi)) (schedule : list nat) : list lact * list nat :=
  let s := fst (lrun fuel ls0 (lstart progs) schedule) in
  (rev (llog s),
   (* the final list content: callback ids from head through next *)
   (fix walk (k : nat) (c : option nat) : list nat :=
      match k, c with
      | S k', Some n => match nth_error (heap (lgrp s)) n with
                        | Some nd => (if N.eqb (ctr nd) GenCL.removed_marker then [] else [cb nd]) ++ walk k' (nxt nd)
                        | None => []
                        end
      | _, _ => []
      end) (S (length (heap (lgrp s)))) (ghead (lgrp s))).
