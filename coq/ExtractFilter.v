(* Extraction of the filter / canContinueInvoking dispatch model for tie B. ExtrOcamlBasic only. *)
Require Extraction.
Require Import ExtrOcamlBasic.
From EV Require FilterModel.
Extraction Language OCaml.
Set Extraction Optimize.
Definition flt_run_case := FilterModel.f_run_case.
Definition flt_gen_lp := FilterModel.gen_lp.
Definition flt_gen_lp_heter := FilterModel.gen_lp_heter.
Definition flt_spec_lp := FilterModel.spec_lp.
Definition flt_cond_functor := FilterModel.cond_functor.
Definition flt_arg_adapter := FilterModel.arg_adapter.
Extraction "../ocaml/gen/filter_model.ml" flt_run_case flt_gen_lp flt_gen_lp_heter flt_spec_lp flt_cond_functor flt_arg_adapter.
