(* CLClone.v — C10 for callback lists at the pointer level: what cloneFrom builds.

   CallbackListBase's copy constructor (and, through it, copy assignment and the copies of dispatchers and queues) draws ONE
   generation and then appends one new node per linked node of the source, in order (CLModel.clone_chain, the transcription
   of cloneFrom).  For every well-formed source list and every well-formed destination: the result is well formed, its
   content is the destination's followed by exactly as many NEW nodes as the source has, the i-th new node carries the
   callback of the source's i-th node and the generation drawn, and nothing that was in the destination is touched
   (callbacks and generations of old nodes stay; removed nodes stay intact).  In particular a copy into an empty list is a
   well-formed list with the source's callbacks in the source's order, sharing no node with it — the group is a different
   one, so no handle of the source is owned by the copy. *)
From Coq Require Import List Arith NArith Bool Lia.
From EV Require Import CLModel CLHeap CLOps.
From EV.gen Require GenCL.
Import ListNotations.
Local Open Scope nat_scope.

Lemma extends_refl h : extends h h.
Proof. intros j nd H. exists nd. auto. Qed.

Lemma extends_trans h1 h2 h3 : extends h1 h2 -> extends h2 h3 -> extends h1 h3.
Proof.
  intros A B j nd H. destruct (A j nd H) as (nd2 & H2 & C2 & K2 & L2). destruct (B j nd2 H2) as (nd3 & H3 & C3 & K3 & L3).
  exists nd3. split; [exact H3|]. split; [congruence|]. split; [congruence|].
  intros Hn. assert (nd2 = nd) by (apply L2; exact Hn). subst nd2. apply L3. exact Hn.
Qed.

Lemma clone_chain_spec ctrv : ctrv <> GenCL.removed_marker ->
  forall ids_s src p k dst ids_d,
    lchain src p ids_s -> length ids_s <= k -> GInv dst ids_d ->
    let g' := clone_chain k src (hd_error ids_s) dst ctrv in
    GInv g' (ids_d ++ seq (length (heap dst)) (length ids_s)) /\
    extends (heap dst) (heap g') /\
    length (heap g') = length (heap dst) + length ids_s /\
    (forall i z, nth_error ids_s i = Some z ->
       exists nd nd', nth_error src z = Some nd /\ nth_error (heap g') (length (heap dst) + i) = Some nd' /\
                      cb nd' = cb nd /\ ctr nd' = ctrv).
Proof.
  intros Hk. induction ids_s as [|x r IH]; intros src p k dst ids_d Hc Hlen G; cbn zeta.
  - cbn [hd_error length seq]. assert (E : clone_chain k src None dst ctrv = dst) by (destruct k; reflexivity).
    rewrite E, app_nil_r. split; [exact G|]. split; [apply extends_refl|]. split; [lia|]. intros i z H. destruct i; discriminate.
  - cbn [hd_error]. destruct k as [|k]; [cbn [length] in Hlen; lia|].
    cbn [lchain] in Hc. destruct Hc as (nd & Hx & Hl & Hp & Hn & Hr).
    cbn [clone_chain]. rewrite Hx. unfold g_alloc. cbv beta iota.
    destruct (link_back_inv dst ids_d (cb nd) ctrv G Hk) as (G2 & _ & E2 & (nn & Hnn & Cnn & Knn) & L2 & _).
    cbv zeta in *. unfold g_alloc in G2, E2, Hnn, L2. cbn [fst] in G2, E2, Hnn, L2.
    set (g2 := g_link_back {| heap := heap dst ++ [mkNode None None (cb nd) ctrv]; ghead := ghead dst; gtail := gtail dst; gfreed := gfreed dst |} (length (heap dst))) in *.
    rewrite Hn.
    assert (Hlen' : length r <= k) by (cbn [length] in Hlen; lia).
    destruct (IH src (Some x) k g2 (ids_d ++ [length (heap dst)]) Hr Hlen' G2) as (G3 & E3 & L3 & F3). cbv zeta in *.
    split; [|split; [|split]].
    + cbn [length seq]. rewrite L2 in G3. rewrite <- app_assoc in G3. exact G3.
    + apply (extends_trans _ (heap g2)); assumption.
    + rewrite L3, L2. cbn [length]. lia.
    + intros i z Hi. destruct i as [|i].
      * cbn [nth_error] in Hi. inversion Hi; subst z. destruct (E3 _ _ Hnn) as (nd3 & H3 & C3 & K3 & _).
        exists nd, nd3. rewrite Nat.add_0_r. split; [exact Hx|]. split; [exact H3|]. split; congruence.
      * cbn [nth_error] in Hi. destruct (F3 i z Hi) as (nda & ndb & A1 & A2 & A3 & A4).
        exists nda, ndb. split; [exact A1|]. split; [|split; assumption]. rewrite L2 in A2.
        replace (length (heap dst) + S i) with (S (length (heap dst)) + i) by lia. exact A2.
Qed.

(* the copy of a whole list into an empty one *)
Theorem clone_of_a_list ctrv sg ids :
  ctrv <> GenCL.removed_marker -> GInv sg ids ->
  let g' := clone_chain (length (heap sg)) (heap sg) (ghead sg) empty_group ctrv in
  GInv g' (seq 0 (length ids)) /\ length (heap g') = length ids /\
  (forall i z, nth_error ids i = Some z ->
     exists nd nd', nth_error (heap sg) z = Some nd /\ nth_error (heap g') i = Some nd' /\ cb nd' = cb nd /\ ctr nd' = ctrv).
Proof.
  intros Hk G. cbv zeta.
  assert (Hb : length ids <= length (heap sg)).
  { rewrite <- (seq_length (length (heap sg)) 0). apply NoDup_incl_length; [apply (gi_nodup _ _ G)|]. intros z Hz. apply in_seq. split; [lia|]. cbn.
    apply (lchain_bound _ _ _ (gi_chain _ _ G) z Hz). }
  rewrite (gi_head _ _ G).
  destruct (clone_chain_spec ctrv Hk ids (heap sg) None (length (heap sg)) empty_group [] (gi_chain _ _ G) Hb ginv_empty) as (A & _ & C & D).
  cbv zeta in *. cbn [empty_group heap length app] in A, C, D. split; [exact A|]. split; [exact C|]. exact D.
Qed.

(* ---------- swap, self-assignment, move assignment at the level of the list objects ---------- *)
From EV Require Import CLRefine.

(* swap exchanges what the two list objects ARE — their node group and their generation counter (the counter travels with
   the nodes) — touches no node and no other list *)
Theorem swap_exchanges_group_and_counter st a b oa ob st' :
  a <> b -> get_list st a = Some oa -> get_list st b = Some ob -> swap_lists st a b = Some st' ->
  get_list st' a = Some ob /\ get_list st' b = Some oa /\ groups st' = groups st /\
  (forall l, l <> a -> l <> b -> get_list st' l = get_list st l).
Proof.
  intros Hne Ha Hb H. unfold swap_lists in H. rewrite Ha, Hb in H. inversion H; subst. clear H.
  split; [|split; [|split]].
  - rewrite get_list_put_other by exact Hne. apply (get_list_put_same _ _ _ oa). exact Ha.
  - apply (get_list_put_same _ _ _ ob). rewrite get_list_put_other by (intro E; apply Hne; auto). exact Hb.
  - reflexivity.
  - intros l H1 H2. rewrite !get_list_put_other by assumption. reflexivity.
Qed.

(* swap with itself, copy assignment from itself and move assignment from itself change nothing at all *)
Theorem self_swap_and_self_assignment_are_the_identity W c1 c2 c3 behav rec k st l o :
  get_list st l = Some o ->
  step W c1 c2 c3 behav rec k st (CopyAssign l l) = Some st /\ step W c1 c2 c3 behav rec k st (MoveAssign l l) = Some st /\
  exists st', swap_lists st l l = Some st' /\ get_list st' l = Some o /\ groups st' = groups st /\
              (forall l', l' <> l -> get_list st' l' = get_list st l').
Proof.
  intros H. cbn [step]. rewrite Nat.eqb_refl, H. split; [reflexivity|]. split; [reflexivity|].
  unfold swap_lists. rewrite H. eexists. split; [reflexivity|]. split; [|split].
  - apply (get_list_put_same _ _ _ o). apply (get_list_put_same _ _ _ o). exact H.
  - reflexivity.
  - intros l' Hl. rewrite !get_list_put_other by exact Hl. reflexivity.
Qed.

(* move assignment hands the source's nodes AND its generation counter to the destination; the source is left with an
   empty chain of its own and its counter *)
Theorem move_assignment_hands_over_nodes_and_counter W c1 c2 c3 behav rec k st src dst so st' :
  src <> dst -> get_list st src = Some so -> step W c1 c2 c3 behav rec k st (MoveAssign src dst) = Some st' ->
  get_list st' dst = Some (mkLobj (lg so) (lcur so)) /\
  exists g, get_list st' src = Some (mkLobj g (lcur so)) /\ get_group st' g = Some empty_group.
Proof.
  intros Hne Hs H. cbn [step] in H. destruct (Nat.eqb_spec src dst) as [E|_]; [contradiction|].
  rewrite Hs in H. destruct (get_list st dst) as [d|] eqn:Hd; [|discriminate].
  destruct (pinned_group st (lg d)); [discriminate|].
  destruct (with_group st (lg d) g_free_all) as [st1|] eqn:Hw; [|discriminate]. inversion H; subst. clear H.
  assert (L1 : lists st1 = lists st).
  { unfold with_group in Hw. destruct (get_group st (lg d)); [|discriminate]. inversion Hw; reflexivity. }
  assert (Hs1 : get_list st1 src = Some so) by (unfold get_list; rewrite L1; exact Hs).
  assert (Hd1 : get_list st1 dst = Some d) by (unfold get_list; rewrite L1; exact Hd).
  split.
  - rewrite get_list_put_other by (intro E; apply Hne; auto).
    apply (get_list_put_same _ _ _ d). unfold get_list in *. cbn [lists set_groups]. exact Hd1.
  - exists (length (groups st1)). split.
    + apply (get_list_put_same _ _ _ so). rewrite get_list_put_other by exact Hne. unfold get_list in *. cbn [lists set_groups]. exact Hs1.
    + rewrite !get_group_put_list. unfold get_group. cbn [groups set_groups]. rewrite nth_error_app2 by apply Nat.le_refl.
      rewrite Nat.sub_diag. reflexivity.
Qed.

(* ---------- the copy constructor, as the model's command ---------- *)
(* `new (slot dst) CallbackList(src)`: the new list object gets a group of its own — the last one of the state — which is
   exactly clone_chain of the source's chain into the empty group with the first generation a fresh list draws (1), and its
   counter is that generation; the source's list object and group are untouched.  With clone_of_a_list: the copy is a
   well-formed list with the source's callbacks in the source's order, made of nodes of its own. *)
Theorem copy_constructor_clones W c1 c2 c3 behav rec k st src dst so sg st' :
  (1 < W)%N ->
  get_list st src = Some so -> get_group st (lg so) = Some sg ->
  step W c1 c2 c3 behav rec k st (CopyCtor src dst) = Some st' ->
  let g := length (groups st) in
  get_list st' dst = Some (mkLobj g 1%N) /\
  get_group st' g = Some (clone_chain (length (heap sg)) (heap sg) (ghead sg) empty_group 1%N) /\
  get_list st' src = Some so /\ get_group st' (lg so) = Some sg.
Proof.
  intros HW Hs Hg H. cbv zeta. cbn [step] in H. rewrite Hs in H.
  unfold new_list in H. destruct (nth_error (lists st) dst) as [[o|]|] eqn:Ed; try discriminate.
  set (st1 := put_list (set_groups st (groups st ++ [empty_group])) dst (Some (mkLobj (length (groups st)) 0%N))) in H.
  assert (Hne : src <> dst).
  { intro E. subst dst. unfold get_list in Hs. rewrite Ed in Hs. discriminate. }
  assert (Hs1 : get_list st1 src = Some so).
  { unfold st1. rewrite get_list_put_other by exact Hne. exact Hs. }
  assert (Hd1 : get_list st1 dst = Some (mkLobj (length (groups st)) 0%N)).
  { unfold st1, get_list, put_list. cbn [lists set_lists set_groups]. rewrite (nth_error_upd_same _ _ _ _ Ed). reflexivity. }
  assert (Glt : lg so < length (groups st)) by (apply nth_error_Some; unfold get_group in Hg; rewrite Hg; discriminate).
  assert (Hg1 : get_group st1 (lg so) = Some sg).
  { unfold st1. rewrite get_group_put_list. unfold get_group. cbn [groups set_groups]. rewrite nth_error_app1 by exact Glt. exact Hg. }
  assert (Hn1 : get_group st1 (length (groups st)) = Some empty_group).
  { unfold st1. rewrite get_group_put_list. unfold get_group. cbn [groups set_groups]. rewrite nth_error_app2 by apply Nat.le_refl.
    rewrite Nat.sub_diag. reflexivity. }
  unfold clone_into in H. rewrite Hs1, Hg1 in H. unfold next_counter in H. rewrite Hd1 in H. cbn [lcur lg] in H.
  assert (E1 : ((0 + 1) mod W = 1)%N) by (apply N.mod_small; exact HW). rewrite E1 in H.
  change (GenCL.wrap_test 1%N) with false in H. cbv beta iota in H.
  set (st2 := put_list st1 dst (Some (mkLobj (length (groups st)) 1%N))) in H.
  assert (Hd2 : get_list st2 dst = Some (mkLobj (length (groups st)) 1%N)) by (unfold st2; apply (get_list_put_same _ _ _ _ Hd1)).
  rewrite Hd2 in H. cbn [lg] in H.
  assert (Hn2 : get_group st2 (length (groups st)) = Some empty_group) by (unfold st2; rewrite get_group_put_list; exact Hn1).
  rewrite Hn2 in H. inversion H; subst st'. clear H.
  split; [|split; [|split]].
  - rewrite get_list_put_group. exact Hd2.
  - unfold get_group, put_group. cbn [groups set_groups]. unfold get_group in Hn2.
    rewrite (nth_error_upd_same _ _ _ _ Hn2). reflexivity.
  - rewrite get_list_put_group. unfold st2. rewrite get_list_put_other by exact Hne. exact Hs1.
  - unfold get_group, put_group. cbn [groups set_groups]. rewrite nth_error_upd_other by lia.
    change (get_group st2 (lg so) = Some sg). unfold st2. rewrite get_group_put_list. exact Hg1.
Qed.
